/-
  C07, "time proportional to the input" — facts about the cost-counting reading of the reader
  (Gts/Lemmas/GbCostReader.lean, generated).

  * `forget`: an instrumented parser with its counter thrown away.  Every instrumented primitive,
    forgotten, IS the model's primitive (`forget_next` … `forget_lit`): the counted reading moves the
    parser state exactly as the model does, primitive by primitive; the composite parsers are the
    model's text over these primitives.
  * The place where the counted steps WERE not linear in the input because of `pars.Until(':')`:
      - `pars.Until(':')` scans to the end of the input when there is no colon
        (`untilColon_scans_to_end`).  The CONTIG parser called it until /repo a4b3f5d: one CONTIG line
        cost the whole rest of the file, `k` such lines `Θ(k · n)` (finding K7D).  REPAIRED (F38): the
        parser now calls `pars.Until` with a filter that also accepts the line ends and requires the
        colon; `contigField_cost_le` — from EVERY state the counted steps of the CONTIG parser are at
        most two per byte in front of the first line end plus 37 (a potential argument, `Lin`: every
        primitive the parser calls pays for the bytes it consumes out of the line's budget).
  * The prefix loop of `quotedQualifierParser`.  BEFORE 2612fae (`stripContCostOld`, the old reading,
    K7E) it started `bytes.Index` at the beginning of the token and copied the tail in every round: a
    quoted value of `k` continuation lines cost at least `(d + 2) · k · (k + 1) / 2` steps for an
    indent of `d` columns, i.e. more than `len(token)² / (2 · (d + 2))` (`stripContCostOld_quadratic`).
    The one-pass loop of today (`stripContCost`) spends at most `len(prefix) + 2` steps per byte of
    the token (`stripContCost_linear`).
  * families (`contigFam`, `quotedFam`, …) whose step counts were EVALUATED (`#eval`, not theorems;
    the kernel cannot run the counted reader on inputs of useful size) — see the table at the end.
  Core Lean only.
-/
import Gts.Lemmas.GbCostReader
import Gts.Lemmas.ParsRun
namespace Gts.Cost
open Gts.Pars (Bytes PS Err P indexWhere)
open Gts.GenBank (bs sp stripCont stripContOld stripLoop findSub indexOf Registry contigStop)

/-- run an instrumented parser from counter 0 and throw the counter away -/
def forget {α} (p : PC α) : P α := fun s =>
  match p ⟨s, 0⟩ with
  | (r, c) => (r, c.ps)

/-! ### the instrumented primitives are the model's primitives -/

theorem forget_next : forget next = Pars.next := by
  funext s; rcases s with ⟨rest, stk⟩; cases rest <;> rfl
theorem forget_advance1 : forget advance1 = Pars.advance1 := rfl
theorem forget_advanceN (n : Nat) : forget (advanceN n) = Pars.advanceN n := rfl
theorem forget_push : forget push = Pars.push := rfl
theorem forget_pop : forget pop = Pars.pop := by
  funext s; rcases s with ⟨rest, stk⟩; cases stk <;> rfl
theorem forget_drop : forget drop = Pars.drop := rfl
theorem forget_clear : forget clear = Pars.clear := rfl
theorem forget_pushed : forget pushed = Pars.pushed := rfl
theorem forget_request (n : Nat) : forget (request n) = Pars.request n := by
  funext s
  show (match (request n) ⟨s, 0⟩ with | (r, c) => (r, c.ps)) = Pars.request n s
  unfold request Pars.request
  simp only [bind, ExceptT.bind, ExceptT.mk, ExceptT.bindCont, StateT.bind, tick, getS, Pars.getS]
  by_cases h : s.rest.length < n <;> simp [h] <;> rfl
theorem forget_trail : forget trail = Pars.trail := by
  funext s; rcases s with ⟨rest, stk⟩
  cases stk with
  | nil => rfl
  | cons f st =>
    show (match trail ⟨⟨rest, f :: st⟩, 0⟩ with | (r, c) => (r, c.ps)) = Pars.trail ⟨rest, f :: st⟩
    unfold trail Pars.trail
    simp only [bind, ExceptT.bind, ExceptT.mk, ExceptT.bindCont, StateT.bind, tick, getS, Pars.getS]
    by_cases h : f.length < rest.length <;> simp [h] <;> rfl
theorem forget_skipWhile (f : UInt8 → Bool) : forget (skipWhile f) = Pars.skipWhile f := rfl
theorem forget_line : forget line = Pars.line := rfl
theorem forget_lit (p : Bytes) : forget (lit p) = Pars.lit p := by
  funext s
  show (match (lit p) ⟨s, 0⟩ with | (r, c) => (r, c.ps)) = Pars.lit p s
  unfold lit Pars.lit
  simp only [bind, ExceptT.bind, ExceptT.mk, ExceptT.bindCont, StateT.bind, tick, getS, Pars.getS]
  by_cases h : (s.rest.take p.length == p && decide (p.length ≤ s.rest.length)) = true <;>
    simp [h] <;> rfl

/-! ### `pars.Until(':')` -/

/-- `pars.Until(byte(':'))` on a state without a colon: it fails, leaves the position where it was,
and has looked at EVERY remaining byte.  (Until /repo a4b3f5d the CONTIG parser called it behind
`CONTIG      join(`; `tryAllParsers` then restored the position and the line was read as an unknown
field — one line consumed for a scan of the whole rest.) -/
theorem untilColon_scans_to_end (c : CS) (h : indexOf 58 c.ps.rest = none) :
    untilColon.run' c = (.error .fail, { c with cost := c.cost + (1 + c.ps.rest.length) }) := by
  show untilColon c = _
  unfold untilColon
  simp only [bind, ExceptT.bind, ExceptT.mk, ExceptT.bindCont, StateT.bind, getS, h, tick, fail]

/-- … and with a colon `i` bytes ahead it looks at `i + 1` bytes, however far that is (also across
line ends) -/
theorem untilColon_scans_to_colon (c : CS) (i : Nat) (h : indexOf 58 c.ps.rest = some i) :
    (untilColon.run' c).2.cost = c.cost + (1 + (i + 1)) := by
  show (untilColon c).2.cost = _
  unfold untilColon
  simp only [bind, ExceptT.bind, ExceptT.mk, ExceptT.bindCont, StateT.bind, getS, h, tick, setS, pure,
    ExceptT.pure]
  rfl

/-! ### the prefix loop of `quotedQualifierParser` -/

/-- steps of the in-place loop of `quotedQualifierParser` BEFORE 2612fae (`stripContOld`; the counted
reader no longer uses it): every round ran `bytes.Index` from the start of the token and copied the
tail down — at most `len(token)` byte operations each, at least the bytes in front of the occurrence
plus the bytes behind the prefix; charged `len(token)` -/
def stripContCostOld (pre : Bytes) : Nat → Bytes → Nat
  | 0, _ => 0
  | f + 1, t =>
    match findSub (10 :: pre) t 0 with
    | none => t.length
    | some i => t.length + stripContCostOld pre f (t.take (i + 1) ++ t.drop (i + 1 + pre.length))

/-- `k` copies of `b` -/
def rep (k : Nat) (b : Bytes) : Bytes := (List.replicate k b).flatten

theorem rep_succ (k : Nat) (b : Bytes) : rep (k + 1) b = b ++ rep k b := by
  simp [rep, List.replicate_succ]

theorem rep_succ' (k : Nat) (b : Bytes) : rep (k + 1) b = rep k b ++ b := by
  induction k with
  | zero => simp [rep]
  | succ k ih => rw [rep_succ, ih, ← List.append_assoc, ← rep_succ, ih]

theorem rep_length (k : Nat) (b : Bytes) : (rep k b).length = k * b.length := by
  induction k with
  | zero => simp [rep]
  | succ k ih => rw [rep_succ, List.length_append, ih]; rw [Nat.succ_mul]; omega

/-- one continuation line of a quoted value: line feed, the indent, one byte of text -/
def contLine (d : Nat) : Bytes := 10 :: sp d ++ [120]

theorem contLine_length (d : Nat) : (contLine d).length = d + 2 := by
  simp [contLine, GenBank.sp_length]

theorem sp_succ' (d : Nat) : sp (d + 1) = 32 :: sp d := by simp [sp, List.replicate_succ]

/-- in `j` stripped lines followed by at least one unstripped line the first occurrence of
`"\n" ++ indent` is the unstripped one -/
theorem findSub_stride (d : Nat) (hd : 1 ≤ d) (rest : Bytes) : ∀ (j i : Nat),
    findSub (10 :: sp d) (rep j [10, 120] ++ (contLine d ++ rest)) i = some (i + 2 * j)
  | 0, i => by
    have hp : (10 :: sp d).isPrefixOf (contLine d ++ rest) = true := by
      have : contLine d ++ rest = (10 :: sp d) ++ (120 :: rest) := by simp [contLine]
      rw [this]; exact GenBank.isPrefixOf_self_append _ _
    show findSub (10 :: sp d) ([] ++ (contLine d ++ rest)) i = some (i + 2 * 0)
    rw [List.nil_append]
    have hc : contLine d ++ rest = 10 :: (sp d ++ [120] ++ rest) := by simp [contLine]
    rw [hc] at hp ⊢
    unfold findSub
    rw [if_pos hp]; rfl
  | j + 1, i => by
    obtain ⟨d', rfl⟩ : ∃ d', d = d' + 1 := ⟨d - 1, by omega⟩
    rw [rep_succ]
    show findSub (10 :: sp (d' + 1)) (10 :: 120 :: (rep j [10, 120] ++ (contLine (d' + 1) ++ rest))) i = _
    unfold findSub
    have h1 : (10 :: sp (d' + 1)).isPrefixOf
        (10 :: 120 :: (rep j [10, 120] ++ (contLine (d' + 1) ++ rest))) = false := by
      rw [sp_succ']; simp [List.isPrefixOf]
    rw [if_neg (by rw [h1]; simp)]
    unfold findSub
    have h2 : (10 :: sp (d' + 1)).isPrefixOf
        (120 :: (rep j [10, 120] ++ (contLine (d' + 1) ++ rest))) = false := by
      simp [List.isPrefixOf]
    rw [if_neg (by rw [h2]; simp)]
    rw [findSub_stride (d' + 1) hd rest j (i + 1 + 1)]
    congr 1; omega

/-- THE PREFIX LOOP WAS QUADRATIC (before 2612fae): a token of `m` continuation lines (indent `d ≥ 1`, behind `j`
lines that are already stripped) costs at least `(d + 2) · m · (m + 1) / 2` counted steps, whatever
the fuel above `m`.  The token has `2·j + m·(d + 2)` bytes: for `j = 0` the cost exceeds
`len² / (2·(d + 2))`. -/
theorem stripContCostOld_quadratic (d : Nat) (hd : 1 ≤ d) : ∀ (m j f : Nat), m ≤ f →
    (d + 2) * (m * (m + 1)) ≤
      2 * stripContCostOld (sp d) f (rep j [10, 120] ++ rep m (contLine d))
  | 0, _, _, _ => by simp
  | m + 1, j, f, hf => by
    obtain ⟨f', rfl⟩ : ∃ f', f = f' + 1 := ⟨f - 1, by omega⟩
    rw [rep_succ (k := m), stripContCostOld, show (0 : Nat) = 0 from rfl]
    have hfs := findSub_stride d hd (rep m (contLine d)) j 0
    rw [Nat.zero_add] at hfs
    rw [hfs]
    dsimp only
    have hlen : (rep j [10, 120] ++ (contLine d ++ rep m (contLine d))).length =
        2 * j + (m + 1) * (d + 2) := by
      rw [List.length_append, List.length_append, rep_length, rep_length, contLine_length]
      have : (m + 1) * (d + 2) = m * (d + 2) + (d + 2) := Nat.succ_mul m (d + 2)
      simp only [List.length_cons, List.length_nil]
      omega
    have hj : (rep j [10, 120]).length = 2 * j := by
      rw [rep_length]; simp; omega
    have hnew : (rep j [10, 120] ++ (contLine d ++ rep m (contLine d))).take (2 * j + 1) ++
        (rep j [10, 120] ++ (contLine d ++ rep m (contLine d))).drop (2 * j + 1 + (sp d).length) =
        rep (j + 1) [10, 120] ++ rep m (contLine d) := by
      have e1 : 2 * j + 1 = (rep j [10, 120]).length + 1 := by rw [hj]
      have e2 : 2 * j + 1 + (sp d).length = (rep j [10, 120]).length + (1 + d) := by
        rw [hj, GenBank.sp_length]; omega
      rw [e2, e1, List.take_length_add_append, List.drop_length_add_append]
      have e3 : (contLine d ++ rep m (contLine d)).take 1 = [10] := by simp [contLine]
      have e4 : (contLine d ++ rep m (contLine d)).drop (1 + d) = 120 :: rep m (contLine d) := by
        have : contLine d ++ rep m (contLine d) = (10 :: sp d) ++ (120 :: rep m (contLine d)) := by
          simp [contLine]
        rw [this, List.drop_append_of_le_length (by simp [GenBank.sp_length]; omega)]
        have : (10 :: sp d).drop (1 + d) = [] := by
          apply List.drop_of_length_le; simp [GenBank.sp_length]; omega
        rw [this]; rfl
      rw [e3, e4, rep_succ' j]
      simp
    rw [hnew, hlen]
    have ih := stripContCostOld_quadratic d hd m (j + 1) f' (by omega)
    have e5 : (d + 2) * ((m + 1) * (m + 1 + 1)) = (d + 2) * (m * (m + 1)) + 2 * ((m + 1) * (d + 2)) := by
      rw [Nat.mul_comm (m + 1) (d + 2)]
      simp only [Nat.mul_add, Nat.add_mul, Nat.mul_one, Nat.one_mul]
      omega
    rw [e5]
    omega

/-- … so NO linear bound in the length of the token held for the counted steps of the old loop, at the
indent of a GenBank feature table (21 columns) -/
theorem stripContCostOld_not_linear (c e : Nat) :
    ∃ t : Bytes, c * t.length + e < stripContCostOld (sp 21) t.length t := by
  let m := 2 * c + 2 * e + 1
  refine ⟨rep m (contLine 21), ?_⟩
  have hlen : (rep m (contLine 21)).length = m * 23 := by rw [rep_length, contLine_length]
  have hq := stripContCostOld_quadratic 21 (by decide) m 0 (m * 23) (by omega)
  have h0 : rep 0 [10, 120] ++ rep m (contLine 21) = rep m (contLine 21) := by simp [rep]
  rw [h0] at hq
  rw [hlen]
  have hm : m + 1 = 2 * c + 2 * e + 2 := by omega
  have e1 : m * (m + 1) = 2 * (c * m) + 2 * (e * m) + 2 * m := by
    rw [hm, Nat.mul_add, Nat.mul_add, Nat.mul_left_comm m 2 c, Nat.mul_left_comm m 2 e,
      Nat.mul_comm m c, Nat.mul_comm m e, Nat.mul_comm m 2]
  have e2 : c * (m * 23) = 23 * (c * m) := by
    rw [Nat.mul_comm m 23, Nat.mul_left_comm]
  have e3 : e ≤ e * m := Nat.le_mul_of_pos_right e (by omega)
  rw [e1] at hq
  rw [e2]
  omega

/-- one round of today's loop costs at most `len(p) + 1` -/
theorem stripLoopCost_le (rp : Bytes) (k : Nat) : ∀ (t acc : Bytes),
    stripLoopCost rp k acc t ≤ (rp.length + 1) * t.length
  | [], _ => by simp [stripLoopCost]
  | c :: t, acc => by
    rw [stripLoopCost, List.length_cons, Nat.mul_succ]
    have hmin : 1 + min rp.length (acc.length + 1) ≤ rp.length + 1 := by omega
    split
    · have := stripLoopCost_le rp k t ((c :: acc).drop k); omega
    · have := stripLoopCost_le rp k t (c :: acc); omega

/-- THE ONE-PASS LOOP IS LINEAR: at most `len(prefix) + 2` counted steps per byte of the token (the
move and the comparison of the end of `token[:w]` with `"\n" ++ prefix`), for EVERY token and EVERY
prefix, the empty one included -/
theorem stripContCost_linear (pre t : Bytes) : stripContCost pre t ≤ (pre.length + 2) * t.length := by
  have := stripLoopCost_le (10 :: pre).reverse pre.length t []
  simpa [stripContCost] using this

/-! ### every other primitive looks at most at the bytes that are left -/

theorem indexOf_lt (x : UInt8) : ∀ (l : Bytes) (i : Nat), indexOf x l = some i → i < l.length
  | [], _, h => by simp [indexOf] at h
  | y :: l, i, h => by
    unfold indexOf at h
    split at h
    · cases h; simp
    · cases hi : indexOf x l with
      | none => rw [hi] at h; simp at h
      | some j =>
        rw [hi] at h
        simp only [Option.map_some, Option.some.injEq] at h
        have := indexOf_lt x l j hi
        simp only [List.length_cons]; omega

theorem scanQ_lt : ∀ (e : Bool) (r : Bytes) (k k' : Nat), GenBank.scanQ e r k = some k' →
    k' < k + r.length
  | _, [], _, _, h => by simp [GenBank.scanQ] at h
  | true, _ :: r, k, k', h => by
    rw [GenBank.scanQ] at h
    have := scanQ_lt false r (k + 1) k' h
    simp only [List.length_cons]; omega
  | false, x :: r, k, k', h => by
    rw [GenBank.scanQ] at h
    simp only [List.length_cons]
    split at h
    · cases h; omega
    · split at h
      · have := scanQ_lt true r (k + 1) k' h; omega
      · have := scanQ_lt false r (k + 1) k' h; omega

/-- the primitives that loop over input bytes (`skipWhile` = the loops of `pars.Int / Spaces / Word`,
`pars.Line`, `pars.String`, `pars.Quoted`, `pars.Until`) spend at most `bytes left + 3` steps per call;
all the others spend a constant (`request n`: `1 + n` with `n` one of 2, 5, 6, 11 in the reader) -/
theorem long_primitives_le (c : CS) (f : UInt8 → Bool) (p : Bytes) :
    ((skipWhile f).run' c).2.cost ≤ c.cost + (c.ps.rest.length + 3) ∧
    (line.run' c).2.cost ≤ c.cost + (c.ps.rest.length + 3) ∧
    ((lit p).run' c).2.cost ≤ c.cost + (c.ps.rest.length + 3) ∧
    (quoted.run' c).2.cost ≤ c.cost + (c.ps.rest.length + 3) ∧
    (untilColon.run' c).2.cost ≤ c.cost + (c.ps.rest.length + 3) := by
  refine ⟨?_, ?_, ?_, ?_, ?_⟩
  · show c.cost + (1 + (c.ps.rest.length - (c.ps.rest.dropWhile f).length)) ≤ _
    omega
  · show c.cost + (1 + (c.ps.rest.length - _)) ≤ _
    omega
  · show ((lit p) c).2.cost ≤ _
    unfold lit
    simp only [bind, ExceptT.bind, ExceptT.mk, ExceptT.bindCont, StateT.bind, getS, tick]
    split <;> (show c.cost + (1 + min p.length c.ps.rest.length) ≤ _; omega)
  · show (quoted c).2.cost ≤ _
    unfold quoted
    simp only [bind, ExceptT.bind, ExceptT.mk, ExceptT.bindCont, StateT.bind, getS]
    by_cases hq : c.ps.rest.head? = some 34
    · rw [if_pos hq]
      have hl : (c.ps.rest.drop 1).length + 1 = c.ps.rest.length := by
        rcases hr : c.ps.rest with _ | ⟨x, r⟩
        · rw [hr] at hq; simp at hq
        · simp
      cases hk : GenBank.scanQuoted (c.ps.rest.drop 1) 0 with
      | some k =>
        have hlt := scanQ_lt false _ 0 k hk
        show c.cost + (1 + (k + 2)) ≤ _
        omega
      | none =>
        show c.cost + (1 + c.ps.rest.length) ≤ _
        omega
    · rw [if_neg hq]
      show c.cost + 1 ≤ _
      omega
  · show (untilColon c).2.cost ≤ _
    unfold untilColon
    simp only [bind, ExceptT.bind, ExceptT.mk, ExceptT.bindCont, StateT.bind, getS]
    cases hi : indexOf 58 c.ps.rest with
    | none => show c.cost + (1 + c.ps.rest.length) ≤ _; omega
    | some i =>
      have := indexOf_lt 58 c.ps.rest i hi
      show c.cost + (1 + (i + 1)) ≤ _
      omega

/-! ### the CONTIG parser reads one line (/repo a4b3f5d)

A potential argument.  `pot c` = steps spent + two for every byte between the position and the first
line end.  `Lin K p`: whatever `p` answers, the counter ends at most `K` above the potential `p` started
from, and when `p` succeeds the potential itself has grown by at most `K` — the bytes it consumed lie
on the line and are paid for out of the line's budget.  `Lin` composes along `>>=` (`Lin.bind`); it holds
of `pars.String` for a literal without line ends, of the field padding, of `pars.Until(filter)` for a
filter that accepts the line ends (NOT of `pars.Until(':')`: `untilColon_scans_to_end`), of `pars.Int`
(which pushes and pops its own frame: proved on the unfolded text, `intTail_spec`). -/

/-- a byte that does not end a line -/
def inLine (b : UInt8) : Bool := b != 10 && b != 13

/-- the bytes in front of the first line end (or of the end of the input) -/
def lineLen (l : Bytes) : Nat := (l.takeWhile inLine).length

/-- potential of a counted state: the steps spent plus two for every byte left on the line -/
def pot (c : CS) : Nat := c.cost + 2 * lineLen c.ps.rest

/-- `p` spends at most `K` steps plus two per byte of the line it is on: whatever the outcome, the
counter ends below the potential it started from plus `K`; when `p` succeeds the potential itself
has grown by at most `K` (so the bytes `p` has consumed lie on the line and are paid for) -/
def Lin {α} (K : Nat) (p : PC α) : Prop := ∀ c : CS,
  (p c).2.cost ≤ pot c + K ∧ ∀ a, (p c).1 = .ok a → pot (p c).2 ≤ pot c + K

theorem lineLen_le (l : Bytes) : lineLen l ≤ l.length := by
  induction l with
  | nil => simp [lineLen]
  | cons x l ih =>
    simp only [lineLen, List.takeWhile_cons, List.length_cons] at ih ⊢
    split <;> simp only [List.length_cons, List.length_nil] <;> omega

theorem lineLen_append (a r : Bytes) (h : ∀ x ∈ a, inLine x = true) :
    lineLen (a ++ r) = a.length + lineLen r := by
  induction a with
  | nil => simp
  | cons x a ih =>
    have hx := h x (by simp)
    simp only [lineLen, List.cons_append, List.takeWhile_cons, hx, if_true, List.length_cons] at ih ⊢
    rw [ih (fun y hy => h y (by simp [hy]))]; omega

theorem lineLen_all (a : Bytes) (h : ∀ x ∈ a, inLine x = true) : lineLen a = a.length := by
  have := lineLen_append a [] h
  simpa [lineLen] using this

theorem PC.bind_run {α β} (x : PC α) (f : α → PC β) (c : CS) :
    (x >>= f) c = match x c with
      | (.ok a, c') => f a c'
      | (.error e, c') => (.error e, c') := by
  show (ExceptT.bind x f) c = _
  unfold ExceptT.bind ExceptT.bindCont ExceptT.mk
  simp only [bind, StateT.bind]
  rcases x c with ⟨r, c'⟩
  cases r <;> rfl

theorem Lin.bind {α β} {K1 K2 : Nat} {p : PC α} {q : α → PC β} (hp : Lin K1 p)
    (hq : ∀ a, Lin K2 (q a)) : Lin (K1 + K2) (p >>= q) := by
  intro c
  have ⟨h1, h1'⟩ := hp c
  rw [PC.bind_run]
  rcases hpc : p c with ⟨r, c1⟩
  rw [hpc] at h1 h1'
  cases r with
  | error e =>
    simp only at h1 ⊢
    exact ⟨by omega, fun a h => by cases h⟩
  | ok a =>
    have h1'' := h1' a rfl
    have ⟨h2, h2'⟩ := hq a c1
    simp only at h1'' ⊢
    exact ⟨by omega, fun b h => by have := h2' b h; omega⟩

theorem lin_pure {α} (a : α) : Lin 0 (pure a : PC α) := by
  intro c
  exact ⟨by show c.cost ≤ pot c + 0; simp only [pot]; omega, fun _ _ => by show pot c ≤ pot c + 0; omega⟩

/-- a parser that leaves the position where it is and spends at most `K` steps -/
theorem lin_of_frame {α} (K : Nat) (p : PC α)
    (h : ∀ c, (p c).2.ps.rest = c.ps.rest ∧ (p c).2.cost ≤ c.cost + K) : Lin K p := by
  intro c
  have ⟨h1, h2⟩ := h c
  simp only [pot, h1]
  exact ⟨by omega, fun _ _ => by omega⟩

theorem lin_lit (p : Bytes) (h : ∀ x ∈ p, inLine x = true) : Lin (1 + p.length) (lit p) := by
  intro c
  unfold lit
  simp only [PC.bind_run, getS, tick]
  by_cases hm : (c.ps.rest.take p.length == p && decide (p.length ≤ c.ps.rest.length)) = true
  · rw [if_pos hm]
    simp only [Bool.and_eq_true, beq_iff_eq, decide_eq_true_eq] at hm
    have hr : c.ps.rest = p ++ c.ps.rest.drop p.length := by
      conv => lhs; rw [← List.take_append_drop p.length c.ps.rest, hm.1]
    have hl := lineLen_append p (c.ps.rest.drop p.length) h
    rw [← hr] at hl
    simp only [setS, pot]
    have : min p.length c.ps.rest.length = p.length := Nat.min_eq_left hm.2
    exact ⟨by omega, fun _ _ => by omega⟩
  · rw [if_neg hm]
    simp only [fail, pot]
    have : min p.length c.ps.rest.length ≤ p.length := Nat.min_le_left _ _
    exact ⟨by omega, fun _ h => by cases h⟩

theorem inLine_sp (n : Nat) : ∀ x ∈ sp n, inLine x = true := by
  intro x hx
  simp only [sp, List.mem_replicate] at hx
  rw [hx.2]; rfl

theorem lin_fieldPadding (a b : Nat) : Lin 1 (fieldPadding a b) := by
  unfold fieldPadding
  by_cases h1 : a > b
  · simp only [h1, if_true]
    apply lin_of_frame
    intro c
    simp only [PC.bind_run, clear, getS, setS, tick, fail]
    exact ⟨trivial, by omega⟩
  · simp only [h1, if_false]
    intro c
    rcases c with ⟨⟨rest, stk⟩, cost⟩
    simp only [PC.bind_run, getS]
    by_cases h2 : (sp (b - a)).isPrefixOf rest = true
    · rw [if_pos h2]
      simp only [PC.bind_run, advanceN, getS, setS, tick, pure, ExceptT.pure, ExceptT.mk, StateT.pure, pot]
      obtain ⟨t, ht⟩ := List.isPrefixOf_iff_prefix.mp h2
      have hl := lineLen_append (sp (b - a)) t (inLine_sp _)
      rw [ht] at hl
      have hd : rest.drop (sp (b - a)).length = t := by rw [← ht]; simp
      rw [hd]
      exact ⟨by omega, fun _ _ => by omega⟩
    · rw [if_neg h2]
      split <;> simp only [PC.bind_run, clear, getS, setS, tick, fail, pure, ExceptT.pure, ExceptT.mk, StateT.pure, pot] <;>
        exact ⟨by omega, fun _ _ => by omega⟩

theorem lin_fieldName (name : Bytes) (d : Nat) (h : ∀ x ∈ name, inLine x = true) :
    Lin ((1 + name.length) + 1) (fieldName name d) := by
  unfold fieldName
  exact Lin.bind (lin_lit name h) (fun _ => lin_fieldPadding _ _)

theorem indexWhere_split (f : UInt8 → Bool) : ∀ (l : Bytes) (i : Nat), indexWhere f l = some i →
    i ≤ l.length ∧ ∀ x ∈ l.take i, f x = false
  | [], _, h => by simp [indexWhere] at h
  | y :: l, i, h => by
    unfold indexWhere at h
    split at h
    · cases h; simp
    · rename_i hy
      cases hi : indexWhere f l with
      | none => rw [hi] at h; simp at h
      | some j =>
        rw [hi] at h
        simp only [Option.map_some, Option.some.injEq] at h
        subst h
        have ⟨h1, h2⟩ := indexWhere_split f l j hi
        refine ⟨by simp only [List.length_cons]; omega, ?_⟩
        intro x hx
        simp only [List.take_succ_cons, List.mem_cons] at hx
        rcases hx with rfl | hx
        · simpa using hy
        · exact h2 x hx

theorem indexWhere_none (f : UInt8 → Bool) : ∀ (l : Bytes), indexWhere f l = none → ∀ x ∈ l, f x = false
  | [], _ => by simp
  | y :: l, h => by
    unfold indexWhere at h
    split at h
    · cases h
    · rename_i hy
      cases hi : indexWhere f l with
      | some j => rw [hi] at h; simp at h
      | none =>
        intro x hx
        simp only [List.mem_cons] at hx
        rcases hx with rfl | hx
        · simpa using hy
        · exact indexWhere_none f l hi x hx

/-- `pars.Until(filter)` with a filter that accepts every line end: at most the line -/
theorem lin_untilFilter (f : UInt8 → Bool) (hf : ∀ b, f b = false → inLine b = true) :
    Lin 2 (untilFilter f) := by
  intro c
  unfold untilFilter
  simp only [PC.bind_run, getS]
  cases hi : indexWhere f c.ps.rest with
  | none =>
    simp only [PC.bind_run, tick, fail, pot]
    have := lineLen_all c.ps.rest (fun x hx => hf x (indexWhere_none f _ hi x hx))
    exact ⟨by omega, fun _ h => by cases h⟩
  | some i =>
    simp only [PC.bind_run, tick, setS, pure, ExceptT.pure, ExceptT.mk, StateT.pure, pot]
    have ⟨h1, h2⟩ := indexWhere_split f _ i hi
    have hl := lineLen_append (c.ps.rest.take i) (c.ps.rest.drop i) (fun x hx => hf x (h2 x hx))
    rw [List.take_append_drop] at hl
    have : (c.ps.rest.take i).length = i := by simp [h1]
    exact ⟨by omega, fun _ _ => by omega⟩

theorem contigStop_inLine (b : UInt8) (h : contigStop b = false) : inLine b = true := by
  simp only [contigStop, Bool.or_eq_false_iff, beq_eq_false_iff_ne, ne_eq] at h
  simp [inLine, h.1.2, h.2]


/-! #### `pars.Int` -/

theorem isDigit_inLine (y : UInt8) (h : Pars.isDigit y = true) : inLine y = true := by
  unfold inLine
  by_cases h1 : y = 10
  · subst h1; exact absurd h (by decide)
  by_cases h2 : y = 13
  · subst h2; exact absurd h (by decide)
  simp [h1, h2]

theorem sign_inLine (y : UInt8) (h : (y == 45 || y == 43) = true) : inLine y = true := by
  unfold inLine
  by_cases h1 : y = 10
  · subst h1; exact absurd h (by decide)
  by_cases h2 : y = 13
  · subst h2; exact absurd h (by decide)
  simp [h1, h2]

theorem mem_takeWhile_true (p : UInt8 → Bool) : ∀ (l : Bytes) (x : UInt8), x ∈ l.takeWhile p → p x = true
  | [], _, h => by simp at h
  | y :: l, x, h => by
    rw [List.takeWhile_cons] at h
    split at h
    · rename_i hy
      simp only [List.mem_cons] at h
      rcases h with rfl | h
      · exact hy
      · exact mem_takeWhile_true p l x h
    · simp at h

/-- `pars.Int` behind its `Push` and the sign -/
def intTail (c : UInt8) : PC Int :=
  if !Pars.isDigit c then do pop; fail
  else if c == 48 then do advance1; drop; pure 0
  else do
    skipWhile Pars.isDigit
    let p ← trail
    tick p.length
    match Pars.atoi p with
    | some n => pure n
    | none => fail

theorem int_eq : int = (do
    push
    let c ← next
    let c ← if c == 45 || c == 43 then do advance1; next else pure c
    intTail c) := rfl

/-- behind a sign of at most one byte, with the frame of `pars.Int` on top of the stack -/
theorem intTail_spec (sgn : Bytes) (hsl : sgn.length ≤ 1)
    (y : UInt8) (r : Bytes) (stk : List Bytes) (cost : Nat) :
    (intTail y ⟨⟨y :: r, (sgn ++ y :: r) :: stk⟩, cost⟩).2.cost ≤ cost + 2 * lineLen (y :: r) + 3 ∧
    ∀ a, (intTail y ⟨⟨y :: r, (sgn ++ y :: r) :: stk⟩, cost⟩).1 = .ok a →
      pot (intTail y ⟨⟨y :: r, (sgn ++ y :: r) :: stk⟩, cost⟩).2 ≤ cost + 2 * lineLen (y :: r) + 3 := by
  unfold intTail
  by_cases hd : Pars.isDigit y = true
  · have hy := isDigit_inLine y hd
    have hly : lineLen (y :: r) = 1 + lineLen r := lineLen_append [y] r (by simpa using hy)
    by_cases h0 : (y == 48) = true
    · simp only [hd, h0, Bool.not_true, Bool.false_eq_true, if_false, if_true, PC.bind_run, advance1, drop,
        getS, setS, tick, pure, ExceptT.pure, ExceptT.mk, StateT.pure, pot, List.drop_one, List.tail_cons]
      exact ⟨by omega, fun _ _ => by omega⟩
    · obtain ⟨D, T, hl, hD, hT⟩ : ∃ D T, y :: r = D ++ T ∧ (∀ x ∈ D, Pars.isDigit x = true) ∧
          (y :: r).dropWhile Pars.isDigit = T :=
        ⟨_, _, (List.takeWhile_append_dropWhile (p := Pars.isDigit) (l := y :: r)).symm,
          fun x hx => mem_takeWhile_true _ _ x hx, rfl⟩
      have hlD : lineLen (D ++ T) = D.length + lineLen T :=
        lineLen_append D T (fun x hx => isDigit_inLine x (hD x hx))
      simp only [hd, h0, Bool.not_true, Bool.false_eq_true, if_false, PC.bind_run, skipWhile, getS, setS, tick,
        trail]
      rw [hT, hl]
      have hlen : ¬ (sgn ++ (D ++ T)).length < T.length := by simp; omega
      have hn : (sgn ++ (D ++ T)).length - T.length = (sgn ++ D).length := by simp; omega
      have htake : (sgn ++ (D ++ T)).take (sgn ++ D).length = sgn ++ D := by
        rw [← List.append_assoc]; exact List.take_left' rfl
      have hdrop : (sgn ++ (D ++ T)).drop (sgn ++ D).length = T := by
        rw [← List.append_assoc]; exact List.drop_left' rfl
      simp only [hlen, if_false, PC.bind_run, hn, pure, ExceptT.pure, ExceptT.mk, StateT.pure, setS,
        htake, hdrop]
      have hDT : (D ++ T).length - T.length = D.length := by simp
      rw [hDT]
      have hsD : (sgn ++ D).length = sgn.length + D.length := by simp
      cases Pars.atoi (sgn ++ D) with
      | none =>
        simp only [fail, pot, hsD]
        exact ⟨by omega, fun _ h => by cases h⟩
      | some n =>
        simp only [pot, hsD, pure, StateT.pure]
        exact ⟨by omega, fun _ _ => by omega⟩
  · have hd' : Pars.isDigit y = false := by simpa using hd
    simp only [hd', Bool.not_false, if_true, PC.bind_run, pop, getS, setS, tick, fail]
    exact ⟨by omega, fun _ h => by cases h⟩

theorem lin_int : Lin 7 int := by
  rw [int_eq]
  intro c
  rcases c with ⟨⟨rest, stk⟩, cost⟩
  cases rest with
  | nil =>
    simp only [PC.bind_run, push, next, getS, setS, tick, fail, pot]
    exact ⟨by omega, fun _ h => by cases h⟩
  | cons x r =>
    by_cases hs : (x == 45 || x == 43) = true
    · have hx := sign_inLine x hs
      have hlx : lineLen (x :: r) = 1 + lineLen r := lineLen_append [x] r (by simpa using hx)
      cases r with
      | nil =>
        simp only [PC.bind_run, push, next, advance1, getS, setS, tick, fail, pure, ExceptT.pure, ExceptT.mk,
          StateT.pure, hs, if_true, pot, List.drop_one, List.tail_cons]
        exact ⟨by omega, fun _ h => by cases h⟩
      | cons y r' =>
        simp only [PC.bind_run, push, next, advance1, getS, setS, tick, pure, ExceptT.pure, ExceptT.mk,
          StateT.pure, hs, if_true, List.drop_one, List.tail_cons]
        have ⟨k1, k2⟩ := intTail_spec [x] (by simp) y r' stk (cost + 1 + 1 + 1 + 1)
        simp only [List.singleton_append] at k1 k2
        simp only [pot] at k2 ⊢
        exact ⟨by omega, fun a h => by have := k2 a h; omega⟩
    · simp only [PC.bind_run, push, next, getS, setS, tick, pure, ExceptT.pure, ExceptT.mk,
        StateT.pure, hs, if_false, Bool.false_eq_true]
      have ⟨k1, k2⟩ := intTail_spec [] (by simp) x r stk (cost + 1 + 1)
      simp only [List.nil_append] at k1 k2
      simp only [pot] at k2 ⊢
      exact ⟨by omega, fun a h => by have := k2 a h; omega⟩


/-! #### the CONTIG parser -/

theorem inLine_of_decide (p : Bytes) (h : p.all inLine = true) : ∀ x ∈ p, inLine x = true :=
  fun x hx => List.all_eq_true.mp h x hx

/-- `genbankContigParser` (a4b3f5d) in the counted reading: every primitive it calls stays on the line
the parser started on -/
theorem lin_contigField (d : Nat) (f : GenBank.Fields) : Lin 37 (contigField d f) := by
  have h : Lin ((1 + (bs "CONTIG").length + 1) + ((1 + (bs "join(").length) + (2 + ((1 + [58].length) +
      (7 + ((1 + (bs "..").length) + (7 + ((1 + [41].length) + 0)))))))) (contigField d f) := by
    unfold contigField
    refine Lin.bind (lin_fieldName _ d (inLine_of_decide _ (by decide))) fun _ => ?_
    refine Lin.bind (lin_lit _ (inLine_of_decide _ (by decide))) fun _ => ?_
    refine Lin.bind (lin_untilFilter _ contigStop_inLine) fun acc => ?_
    refine Lin.bind (lin_lit _ (inLine_of_decide _ (by decide))) fun _ => ?_
    refine Lin.bind lin_int fun head => ?_
    refine Lin.bind (lin_lit _ (inLine_of_decide _ (by decide))) fun _ => ?_
    refine Lin.bind lin_int fun tail => ?_
    refine Lin.bind (lin_lit _ (inLine_of_decide _ (by decide))) fun _ => ?_
    exact lin_pure _
  exact h

/-- THE CONTIG PARSER READS ONE LINE: from every state its counted steps are at most two per byte in
front of the first line end plus 37, whatever follows that line -/
theorem contigField_cost_le (d : Nat) (f : GenBank.Fields) (c : CS) :
    ((contigField d f).run' c).2.cost ≤ c.cost + (2 * lineLen c.ps.rest + 37) := by
  have := (lin_contigField d f c).1
  simp only [pot] at this
  show ((contigField d f) c).2.cost ≤ _
  omega

/-! ### the evaluated families

`stepsOf` (counted steps of reading the input as a GenBank stream, registry `Registry.default`),
evaluated with `#eval` for `k = 16, 64, 256, 1024` — steps per input byte:

    family                                                      16     64    256   1024   accepted
    contigFam    k CONTIG lines without a colon                  8      9      9      9   yes   (15 / 40 / 136 / 520 until a4b3f5d)
    quotedFam    one quoted /note of k continuation lines       15     21     23     23   yes   (8 / 33 / 137 / 554 before 2612fae: K7E)
    commentFam   k one-line COMMENT fields                        5      5      5      5   yes
    skipFam      k unknown lines (skipped)                        7      7      7      7   yes
    featFam      k features, location join(1..2,3..4), 2 qual.    2      2      2      2   yes
    defFam       DEFINITION of k lines without the period        10     11     11     11   yes (read twice)
    dblFam       k DBLINK lines, the last one without colon       2      2      2      2   yes
    refFam       k REFERENCE fields with three sub-fields         5      5      5      -   yes
    ptsFam       join(1,7,7,…) with k points                     10     21     32     38   yes (≈ 83 steps per point)
    nestFam      complement( nested k deep                        3      3      3      -   yes
    nestBadFam   join(complement( nested k deep, then garbage    14     30     36     38   yes (table ends there)
    leakFam      the F34 shape (leaked frames, SOURCE w/o ORG.)  14     25     32      -   no (error)
    unclosedFam  k qualifiers with escaped quotes                 2      2      2      2   yes

On the REAL code (`gts length < file`, this machine): contigFam 500 / 2000 / 8000 lines (9.6 / 38 /
152 KB): 0.09 / 0.55 / 10.5 s until a4b3f5d (scan alone, 15 / 61 / 243 KB: 0.07 / 1.15 / 18.8 s before,
3 / 9 / 33 ms after); quotedFam 5000 / 20000 / 80000 lines (115 KB / 460 KB / 1.8 MB): 0.04 /
0.48 / 16.5 s before 2612fae (CPU time of the scan alone: 0.025 / 0.37 / 18 s), 0.003 / 0.010 / 0.06 s since.  Three further super-linear shapes are in code the counted reading does NOT count
(construction of values): `join(` of k parts — `LocationList.Push` walks to the end of its linked list
for every part, `gts.AsLocation` alone 10000 / 20000 / 40000 parts: 0.85 / 4.8 / 23 s —, k qualifiers
with distinct unknown names in one feature (the registry is re-sorted on every learned name;
10000 / 40000: 0.9 / 18 s), k DBLINK lines (`Dictionary.Set` is a linear search; 10000 / 40000:
0.18 / 2.7 s).
-/

def recHead : Bytes := bs "LOCUS       X 4 bp DNA linear UNA 01-JAN-2000\n"
def recTail : Bytes := bs "ORIGIN      \n        1 acgt\n//\n"
def featHead : Bytes := bs "FEATURES             Location/Qualifiers\n"

/-- `k` CONTIG lines without a colon: an ACCEPTED record (each line ends up as an unknown field);
quadratic until /repo a4b3f5d -/
def contigFam (k : Nat) : Bytes := recHead ++ rep k (bs "CONTIG      join(x\n") ++ recTail

/-- one feature with a quoted `/note` of `k` continuation lines: an ACCEPTED record -/
def quotedFam (k : Nat) : Bytes :=
  recHead ++ featHead ++ bs "     gene            1..2\n" ++ sp 21 ++ bs "/note=\"a\n" ++
    rep k (sp 21 ++ bs "a\n") ++ sp 21 ++ bs "a\"\n" ++ recTail

/-- `k` one-line COMMENT fields -/
def commentFam (k : Nat) : Bytes := recHead ++ rep k (bs "COMMENT     hello world\n") ++ recTail

/-- `k` unknown lines -/
def skipFam (k : Nat) : Bytes := recHead ++ rep k (bs "   some unknown line\n") ++ recTail

/-- `k` features with a joined location and two qualifiers -/
def featFam (k : Nat) : Bytes :=
  recHead ++ featHead ++ rep k (bs "     CDS             join(1..2,3..4)\n                     /gene=\"abc\"\n                     /codon_start=1\n") ++ recTail

end Gts.Cost

namespace Gts.GenBank
open Gts.Pars

/-- the token of `pars.Until(filter)` holds no byte the filter accepts -/
theorem untilFilter_token (f : UInt8 → Bool) (s s' : PS) (a : Bytes)
    (h : untilFilter f s = (.ok a, s')) : ∀ x ∈ a, f x = false := by
  unfold untilFilter at h
  simp only [P.bind_run, getS] at h
  cases hi : indexWhere f s.rest with
  | none => rw [hi] at h; cases h
  | some i =>
    rw [hi] at h
    simp only [P.bind_run, advanceN, getS, setS, pure, ExceptT.pure, ExceptT.mk, StateT.pure] at h
    cases h
    exact (Cost.indexWhere_split f _ i hi).2

/-- an accession the CONTIG parser has read (a4b3f5d) holds no colon and no line end -/
theorem contigField_accession (d : Nat) (f : Fields) (s s' : PS) (r : Fields × Bool)
    (h : contigField d f s = (.ok r, s')) : ∀ x ∈ r.1.contigAcc, contigStop x = false := by
  unfold contigField at h
  simp only [P.bind_run] at h
  split at h
  case h_2 => cases h
  split at h
  case h_2 => cases h
  split at h
  case h_2 => cases h
  rename_i _ acc _ hacc
  split at h
  case h_2 => cases h
  split at h
  case h_2 => cases h
  split at h
  case h_2 => cases h
  split at h
  case h_2 => cases h
  split at h
  case h_2 => cases h
  cases h
  exact untilFilter_token contigStop _ _ acc hacc

end Gts.GenBank
