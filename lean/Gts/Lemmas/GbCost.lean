/-
  C07, "time proportional to the input" — facts about the cost-counting reading of the reader
  (Gts/Lemmas/GbCostReader.lean, generated).

  * `forget`: an instrumented parser with its counter thrown away.  Every instrumented primitive,
    forgotten, IS the model's primitive (`forget_next` … `forget_lit`): the counted reading moves the
    parser state exactly as the model does, primitive by primitive; the composite parsers are the
    model's text over these primitives.
  * The place where the counted steps are NOT linear in the input, with a parametric lower bound:
    `pars.Until(':')` in the CONTIG parser scans to the end of the input when there is no colon
    (`untilColon_scans_to_end`): one CONTIG line costs the whole rest of the file, `k` such lines
    `Θ(k · n)`.
  * The prefix loop of `quotedQualifierParser`.  BEFORE bd3215c (`stripContCostOld`, the old reading,
    K7E) it started `bytes.Index` at the beginning of the token and copied the tail in every round: a
    quoted value of `k` continuation lines cost at least `(d + 2) · k · (k + 1) / 2` steps for an
    indent of `d` columns, i.e. more than `len(token)² / (2 · (d + 2))` (`stripContCostOld_quadratic`).
    The one-pass loop of today (`stripContCost`) spends at most `len(prefix) + 2` steps per byte of
    the token (`stripContCost_linear`).
  * families (`contigFam`, `quotedFam`, …) whose step counts were EVALUATED (`#eval`, not theorems;
    the kernel cannot run the counted reader on inputs of useful size) — see the table at the end.
  Core Lean only.
-/
import Gts.Lemmas.GbCostReader
import Gts.Lemmas.ParsRun
namespace Gts.Cost
open Gts.Pars (Bytes PS Err P)
open Gts.GenBank (bs sp stripCont stripContOld stripLoop findSub indexOf Registry)

/-- run an instrumented parser from counter 0 and throw the counter away -/
def forget {α} (p : PC α) : P α := fun s =>
  match p ⟨s, 0⟩ with
  | (r, c) => (r, c.ps)

/-! ### the instrumented primitives are the model's primitives -/

theorem forget_next : forget next = Pars.next := by
  funext s; rcases s with ⟨rest, stk⟩; cases rest <;> rfl
theorem forget_advance1 : forget advance1 = Pars.advance1 := rfl
theorem forget_advanceN (n : Nat) : forget (advanceN n) = Pars.advanceN n := rfl
theorem forget_push : forget push = Pars.push := rfl
theorem forget_pop : forget pop = Pars.pop := by
  funext s; rcases s with ⟨rest, stk⟩; cases stk <;> rfl
theorem forget_drop : forget drop = Pars.drop := rfl
theorem forget_clear : forget clear = Pars.clear := rfl
theorem forget_pushed : forget pushed = Pars.pushed := rfl
theorem forget_request (n : Nat) : forget (request n) = Pars.request n := by
  funext s
  show (match (request n) ⟨s, 0⟩ with | (r, c) => (r, c.ps)) = Pars.request n s
  unfold request Pars.request
  simp only [bind, ExceptT.bind, ExceptT.mk, ExceptT.bindCont, StateT.bind, tick, getS, Pars.getS]
  by_cases h : s.rest.length < n <;> simp [h] <;> rfl
theorem forget_trail : forget trail = Pars.trail := by
  funext s; rcases s with ⟨rest, stk⟩
  cases stk with
  | nil => rfl
  | cons f st =>
    show (match trail ⟨⟨rest, f :: st⟩, 0⟩ with | (r, c) => (r, c.ps)) = Pars.trail ⟨rest, f :: st⟩
    unfold trail Pars.trail
    simp only [bind, ExceptT.bind, ExceptT.mk, ExceptT.bindCont, StateT.bind, tick, getS, Pars.getS]
    by_cases h : f.length < rest.length <;> simp [h] <;> rfl
theorem forget_skipWhile (f : UInt8 → Bool) : forget (skipWhile f) = Pars.skipWhile f := rfl
theorem forget_line : forget line = Pars.line := rfl
theorem forget_lit (p : Bytes) : forget (lit p) = Pars.lit p := by
  funext s
  show (match (lit p) ⟨s, 0⟩ with | (r, c) => (r, c.ps)) = Pars.lit p s
  unfold lit Pars.lit
  simp only [bind, ExceptT.bind, ExceptT.mk, ExceptT.bindCont, StateT.bind, tick, getS, Pars.getS]
  by_cases h : (s.rest.take p.length == p && decide (p.length ≤ s.rest.length)) = true <;>
    simp [h] <;> rfl

/-! ### `pars.Until(':')` -/

/-- `pars.Until(byte(':'))` on a state without a colon: it fails, leaves the position where it was,
and has looked at EVERY remaining byte.  (The CONTIG parser calls it behind `CONTIG      join(`;
`tryAllParsers` then restores the position and the line is read as an unknown field — one line
consumed for a scan of the whole rest.) -/
theorem untilColon_scans_to_end (c : CS) (h : indexOf 58 c.ps.rest = none) :
    untilColon.run' c = (.error .fail, { c with cost := c.cost + (1 + c.ps.rest.length) }) := by
  show untilColon c = _
  unfold untilColon
  simp only [bind, ExceptT.bind, ExceptT.mk, ExceptT.bindCont, StateT.bind, getS, h, tick, fail]

/-- … and with a colon `i` bytes ahead it looks at `i + 1` bytes, however far that is (also across
line ends) -/
theorem untilColon_scans_to_colon (c : CS) (i : Nat) (h : indexOf 58 c.ps.rest = some i) :
    (untilColon.run' c).2.cost = c.cost + (1 + (i + 1)) := by
  show (untilColon c).2.cost = _
  unfold untilColon
  simp only [bind, ExceptT.bind, ExceptT.mk, ExceptT.bindCont, StateT.bind, getS, h, tick, setS, pure,
    ExceptT.pure]
  rfl

/-! ### the prefix loop of `quotedQualifierParser` -/

/-- steps of the in-place loop of `quotedQualifierParser` BEFORE bd3215c (`stripContOld`; the counted
reader no longer uses it): every round ran `bytes.Index` from the start of the token and copied the
tail down — at most `len(token)` byte operations each, at least the bytes in front of the occurrence
plus the bytes behind the prefix; charged `len(token)` -/
def stripContCostOld (pre : Bytes) : Nat → Bytes → Nat
  | 0, _ => 0
  | f + 1, t =>
    match findSub (10 :: pre) t 0 with
    | none => t.length
    | some i => t.length + stripContCostOld pre f (t.take (i + 1) ++ t.drop (i + 1 + pre.length))

/-- `k` copies of `b` -/
def rep (k : Nat) (b : Bytes) : Bytes := (List.replicate k b).flatten

theorem rep_succ (k : Nat) (b : Bytes) : rep (k + 1) b = b ++ rep k b := by
  simp [rep, List.replicate_succ]

theorem rep_succ' (k : Nat) (b : Bytes) : rep (k + 1) b = rep k b ++ b := by
  induction k with
  | zero => simp [rep]
  | succ k ih => rw [rep_succ, ih, ← List.append_assoc, ← rep_succ, ih]

theorem rep_length (k : Nat) (b : Bytes) : (rep k b).length = k * b.length := by
  induction k with
  | zero => simp [rep]
  | succ k ih => rw [rep_succ, List.length_append, ih]; rw [Nat.succ_mul]; omega

/-- one continuation line of a quoted value: line feed, the indent, one byte of text -/
def contLine (d : Nat) : Bytes := 10 :: sp d ++ [120]

theorem contLine_length (d : Nat) : (contLine d).length = d + 2 := by
  simp [contLine, GenBank.sp_length]

theorem sp_succ' (d : Nat) : sp (d + 1) = 32 :: sp d := by simp [sp, List.replicate_succ]

/-- in `j` stripped lines followed by at least one unstripped line the first occurrence of
`"\n" ++ indent` is the unstripped one -/
theorem findSub_stride (d : Nat) (hd : 1 ≤ d) (rest : Bytes) : ∀ (j i : Nat),
    findSub (10 :: sp d) (rep j [10, 120] ++ (contLine d ++ rest)) i = some (i + 2 * j)
  | 0, i => by
    have hp : (10 :: sp d).isPrefixOf (contLine d ++ rest) = true := by
      have : contLine d ++ rest = (10 :: sp d) ++ (120 :: rest) := by simp [contLine]
      rw [this]; exact GenBank.isPrefixOf_self_append _ _
    show findSub (10 :: sp d) ([] ++ (contLine d ++ rest)) i = some (i + 2 * 0)
    rw [List.nil_append]
    have hc : contLine d ++ rest = 10 :: (sp d ++ [120] ++ rest) := by simp [contLine]
    rw [hc] at hp ⊢
    unfold findSub
    rw [if_pos hp]; rfl
  | j + 1, i => by
    obtain ⟨d', rfl⟩ : ∃ d', d = d' + 1 := ⟨d - 1, by omega⟩
    rw [rep_succ]
    show findSub (10 :: sp (d' + 1)) (10 :: 120 :: (rep j [10, 120] ++ (contLine (d' + 1) ++ rest))) i = _
    unfold findSub
    have h1 : (10 :: sp (d' + 1)).isPrefixOf
        (10 :: 120 :: (rep j [10, 120] ++ (contLine (d' + 1) ++ rest))) = false := by
      rw [sp_succ']; simp [List.isPrefixOf]
    rw [if_neg (by rw [h1]; simp)]
    unfold findSub
    have h2 : (10 :: sp (d' + 1)).isPrefixOf
        (120 :: (rep j [10, 120] ++ (contLine (d' + 1) ++ rest))) = false := by
      simp [List.isPrefixOf]
    rw [if_neg (by rw [h2]; simp)]
    rw [findSub_stride (d' + 1) hd rest j (i + 1 + 1)]
    congr 1; omega

/-- THE PREFIX LOOP WAS QUADRATIC (before bd3215c): a token of `m` continuation lines (indent `d ≥ 1`, behind `j`
lines that are already stripped) costs at least `(d + 2) · m · (m + 1) / 2` counted steps, whatever
the fuel above `m`.  The token has `2·j + m·(d + 2)` bytes: for `j = 0` the cost exceeds
`len² / (2·(d + 2))`. -/
theorem stripContCostOld_quadratic (d : Nat) (hd : 1 ≤ d) : ∀ (m j f : Nat), m ≤ f →
    (d + 2) * (m * (m + 1)) ≤
      2 * stripContCostOld (sp d) f (rep j [10, 120] ++ rep m (contLine d))
  | 0, _, _, _ => by simp
  | m + 1, j, f, hf => by
    obtain ⟨f', rfl⟩ : ∃ f', f = f' + 1 := ⟨f - 1, by omega⟩
    rw [rep_succ (k := m), stripContCostOld, show (0 : Nat) = 0 from rfl]
    have hfs := findSub_stride d hd (rep m (contLine d)) j 0
    rw [Nat.zero_add] at hfs
    rw [hfs]
    dsimp only
    have hlen : (rep j [10, 120] ++ (contLine d ++ rep m (contLine d))).length =
        2 * j + (m + 1) * (d + 2) := by
      rw [List.length_append, List.length_append, rep_length, rep_length, contLine_length]
      have : (m + 1) * (d + 2) = m * (d + 2) + (d + 2) := Nat.succ_mul m (d + 2)
      simp only [List.length_cons, List.length_nil]
      omega
    have hj : (rep j [10, 120]).length = 2 * j := by
      rw [rep_length]; simp; omega
    have hnew : (rep j [10, 120] ++ (contLine d ++ rep m (contLine d))).take (2 * j + 1) ++
        (rep j [10, 120] ++ (contLine d ++ rep m (contLine d))).drop (2 * j + 1 + (sp d).length) =
        rep (j + 1) [10, 120] ++ rep m (contLine d) := by
      have e1 : 2 * j + 1 = (rep j [10, 120]).length + 1 := by rw [hj]
      have e2 : 2 * j + 1 + (sp d).length = (rep j [10, 120]).length + (1 + d) := by
        rw [hj, GenBank.sp_length]; omega
      rw [e2, e1, List.take_length_add_append, List.drop_length_add_append]
      have e3 : (contLine d ++ rep m (contLine d)).take 1 = [10] := by simp [contLine]
      have e4 : (contLine d ++ rep m (contLine d)).drop (1 + d) = 120 :: rep m (contLine d) := by
        have : contLine d ++ rep m (contLine d) = (10 :: sp d) ++ (120 :: rep m (contLine d)) := by
          simp [contLine]
        rw [this, List.drop_append_of_le_length (by simp [GenBank.sp_length]; omega)]
        have : (10 :: sp d).drop (1 + d) = [] := by
          apply List.drop_of_length_le; simp [GenBank.sp_length]; omega
        rw [this]; rfl
      rw [e3, e4, rep_succ' j]
      simp
    rw [hnew, hlen]
    have ih := stripContCostOld_quadratic d hd m (j + 1) f' (by omega)
    have e5 : (d + 2) * ((m + 1) * (m + 1 + 1)) = (d + 2) * (m * (m + 1)) + 2 * ((m + 1) * (d + 2)) := by
      rw [Nat.mul_comm (m + 1) (d + 2)]
      simp only [Nat.mul_add, Nat.add_mul, Nat.mul_one, Nat.one_mul]
      omega
    rw [e5]
    omega

/-- … so NO linear bound in the length of the token held for the counted steps of the old loop, at the
indent of a GenBank feature table (21 columns) -/
theorem stripContCostOld_not_linear (c e : Nat) :
    ∃ t : Bytes, c * t.length + e < stripContCostOld (sp 21) t.length t := by
  let m := 2 * c + 2 * e + 1
  refine ⟨rep m (contLine 21), ?_⟩
  have hlen : (rep m (contLine 21)).length = m * 23 := by rw [rep_length, contLine_length]
  have hq := stripContCostOld_quadratic 21 (by decide) m 0 (m * 23) (by omega)
  have h0 : rep 0 [10, 120] ++ rep m (contLine 21) = rep m (contLine 21) := by simp [rep]
  rw [h0] at hq
  rw [hlen]
  have hm : m + 1 = 2 * c + 2 * e + 2 := by omega
  have e1 : m * (m + 1) = 2 * (c * m) + 2 * (e * m) + 2 * m := by
    rw [hm, Nat.mul_add, Nat.mul_add, Nat.mul_left_comm m 2 c, Nat.mul_left_comm m 2 e,
      Nat.mul_comm m c, Nat.mul_comm m e, Nat.mul_comm m 2]
  have e2 : c * (m * 23) = 23 * (c * m) := by
    rw [Nat.mul_comm m 23, Nat.mul_left_comm]
  have e3 : e ≤ e * m := Nat.le_mul_of_pos_right e (by omega)
  rw [e1] at hq
  rw [e2]
  omega

/-- one round of today's loop costs at most `len(p) + 1` -/
theorem stripLoopCost_le (rp : Bytes) (k : Nat) : ∀ (t acc : Bytes),
    stripLoopCost rp k acc t ≤ (rp.length + 1) * t.length
  | [], _ => by simp [stripLoopCost]
  | c :: t, acc => by
    rw [stripLoopCost, List.length_cons, Nat.mul_succ]
    have hmin : 1 + min rp.length (acc.length + 1) ≤ rp.length + 1 := by omega
    split
    · have := stripLoopCost_le rp k t ((c :: acc).drop k); omega
    · have := stripLoopCost_le rp k t (c :: acc); omega

/-- THE ONE-PASS LOOP IS LINEAR: at most `len(prefix) + 2` counted steps per byte of the token (the
move and the comparison of the end of `token[:w]` with `"\n" ++ prefix`), for EVERY token and EVERY
prefix, the empty one included -/
theorem stripContCost_linear (pre t : Bytes) : stripContCost pre t ≤ (pre.length + 2) * t.length := by
  have := stripLoopCost_le (10 :: pre).reverse pre.length t []
  simpa [stripContCost] using this

/-! ### every other primitive looks at most at the bytes that are left -/

theorem indexOf_lt (x : UInt8) : ∀ (l : Bytes) (i : Nat), indexOf x l = some i → i < l.length
  | [], _, h => by simp [indexOf] at h
  | y :: l, i, h => by
    unfold indexOf at h
    split at h
    · cases h; simp
    · cases hi : indexOf x l with
      | none => rw [hi] at h; simp at h
      | some j =>
        rw [hi] at h
        simp only [Option.map_some, Option.some.injEq] at h
        have := indexOf_lt x l j hi
        simp only [List.length_cons]; omega

theorem scanQ_lt : ∀ (e : Bool) (r : Bytes) (k k' : Nat), GenBank.scanQ e r k = some k' →
    k' < k + r.length
  | _, [], _, _, h => by simp [GenBank.scanQ] at h
  | true, _ :: r, k, k', h => by
    rw [GenBank.scanQ] at h
    have := scanQ_lt false r (k + 1) k' h
    simp only [List.length_cons]; omega
  | false, x :: r, k, k', h => by
    rw [GenBank.scanQ] at h
    simp only [List.length_cons]
    split at h
    · cases h; omega
    · split at h
      · have := scanQ_lt true r (k + 1) k' h; omega
      · have := scanQ_lt false r (k + 1) k' h; omega

/-- the primitives that loop over input bytes (`skipWhile` = the loops of `pars.Int / Spaces / Word`,
`pars.Line`, `pars.String`, `pars.Quoted`, `pars.Until`) spend at most `bytes left + 3` steps per call;
all the others spend a constant (`request n`: `1 + n` with `n` one of 2, 5, 6, 11 in the reader) -/
theorem long_primitives_le (c : CS) (f : UInt8 → Bool) (p : Bytes) :
    ((skipWhile f).run' c).2.cost ≤ c.cost + (c.ps.rest.length + 3) ∧
    (line.run' c).2.cost ≤ c.cost + (c.ps.rest.length + 3) ∧
    ((lit p).run' c).2.cost ≤ c.cost + (c.ps.rest.length + 3) ∧
    (quoted.run' c).2.cost ≤ c.cost + (c.ps.rest.length + 3) ∧
    (untilColon.run' c).2.cost ≤ c.cost + (c.ps.rest.length + 3) := by
  refine ⟨?_, ?_, ?_, ?_, ?_⟩
  · show c.cost + (1 + (c.ps.rest.length - (c.ps.rest.dropWhile f).length)) ≤ _
    omega
  · show c.cost + (1 + (c.ps.rest.length - _)) ≤ _
    omega
  · show ((lit p) c).2.cost ≤ _
    unfold lit
    simp only [bind, ExceptT.bind, ExceptT.mk, ExceptT.bindCont, StateT.bind, getS, tick]
    split <;> (show c.cost + (1 + min p.length c.ps.rest.length) ≤ _; omega)
  · show (quoted c).2.cost ≤ _
    unfold quoted
    simp only [bind, ExceptT.bind, ExceptT.mk, ExceptT.bindCont, StateT.bind, getS]
    by_cases hq : c.ps.rest.head? = some 34
    · rw [if_pos hq]
      have hl : (c.ps.rest.drop 1).length + 1 = c.ps.rest.length := by
        rcases hr : c.ps.rest with _ | ⟨x, r⟩
        · rw [hr] at hq; simp at hq
        · simp
      cases hk : GenBank.scanQuoted (c.ps.rest.drop 1) 0 with
      | some k =>
        have hlt := scanQ_lt false _ 0 k hk
        show c.cost + (1 + (k + 2)) ≤ _
        omega
      | none =>
        show c.cost + (1 + c.ps.rest.length) ≤ _
        omega
    · rw [if_neg hq]
      show c.cost + 1 ≤ _
      omega
  · show (untilColon c).2.cost ≤ _
    unfold untilColon
    simp only [bind, ExceptT.bind, ExceptT.mk, ExceptT.bindCont, StateT.bind, getS]
    cases hi : indexOf 58 c.ps.rest with
    | none => show c.cost + (1 + c.ps.rest.length) ≤ _; omega
    | some i =>
      have := indexOf_lt 58 c.ps.rest i hi
      show c.cost + (1 + (i + 1)) ≤ _
      omega

/-! ### the evaluated families

`stepsOf` (counted steps of reading the input as a GenBank stream, registry `Registry.default`),
evaluated with `#eval` for `k = 16, 64, 256, 1024` — steps per input byte:

    family                                                      16     64    256   1024   accepted
    contigFam    k CONTIG lines without a colon                 15     40    136    520   yes   QUADRATIC
    quotedFam    one quoted /note of k continuation lines       15     21     23     23   yes   (8 / 33 / 137 / 554 before bd3215c: K7E)
    commentFam   k one-line COMMENT fields                        5      5      5      5   yes
    skipFam      k unknown lines (skipped)                        7      7      7      7   yes
    featFam      k features, location join(1..2,3..4), 2 qual.    2      2      2      2   yes
    defFam       DEFINITION of k lines without the period        10     11     11     11   yes (read twice)
    dblFam       k DBLINK lines, the last one without colon       2      2      2      2   yes
    refFam       k REFERENCE fields with three sub-fields         5      5      5      -   yes
    ptsFam       join(1,7,7,…) with k points                     10     21     32     38   yes (≈ 83 steps per point)
    nestFam      complement( nested k deep                        3      3      3      -   yes
    nestBadFam   join(complement( nested k deep, then garbage    14     30     36     38   yes (table ends there)
    leakFam      the F34 shape (leaked frames, SOURCE w/o ORG.)  14     25     32      -   no (error)
    unclosedFam  k qualifiers with escaped quotes                 2      2      2      2   yes

On the REAL code (`gts length < file`, this machine): contigFam 500 / 2000 / 8000 lines (9.6 / 38 /
152 KB): 0.09 / 0.55 / 10.5 s; quotedFam 5000 / 20000 / 80000 lines (115 KB / 460 KB / 1.8 MB): 0.04 /
0.48 / 16.5 s before bd3215c (CPU time of the scan alone: 0.025 / 0.37 / 18 s), 0.003 / 0.010 / 0.06 s since.  Three further super-linear shapes are in code the counted reading does NOT count
(construction of values): `join(` of k parts — `LocationList.Push` walks to the end of its linked list
for every part, `gts.AsLocation` alone 10000 / 20000 / 40000 parts: 0.85 / 4.8 / 23 s —, k qualifiers
with distinct unknown names in one feature (the registry is re-sorted on every learned name;
10000 / 40000: 0.9 / 18 s), k DBLINK lines (`Dictionary.Set` is a linear search; 10000 / 40000:
0.18 / 2.7 s).
-/

def recHead : Bytes := bs "LOCUS       X 4 bp DNA linear UNA 01-JAN-2000\n"
def recTail : Bytes := bs "ORIGIN      \n        1 acgt\n//\n"
def featHead : Bytes := bs "FEATURES             Location/Qualifiers\n"

/-- `k` CONTIG lines without a colon: an ACCEPTED record (each line ends up as an unknown field) -/
def contigFam (k : Nat) : Bytes := recHead ++ rep k (bs "CONTIG      join(x\n") ++ recTail

/-- one feature with a quoted `/note` of `k` continuation lines: an ACCEPTED record -/
def quotedFam (k : Nat) : Bytes :=
  recHead ++ featHead ++ bs "     gene            1..2\n" ++ sp 21 ++ bs "/note=\"a\n" ++
    rep k (sp 21 ++ bs "a\n") ++ sp 21 ++ bs "a\"\n" ++ recTail

/-- `k` one-line COMMENT fields -/
def commentFam (k : Nat) : Bytes := recHead ++ rep k (bs "COMMENT     hello world\n") ++ recTail

/-- `k` unknown lines -/
def skipFam (k : Nat) : Bytes := recHead ++ rep k (bs "   some unknown line\n") ++ recTail

/-- `k` features with a joined location and two qualifiers -/
def featFam (k : Nat) : Bytes :=
  recHead ++ featHead ++ rep k (bs "     CDS             join(1..2,3..4)\n                     /gene=\"abc\"\n                     /codon_start=1\n") ++ recTail

end Gts.Cost
