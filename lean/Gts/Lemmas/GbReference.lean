/-
  C01 helper lemmas: REFERENCE blocks — number, padding, info line, and the sub-fields AUTHORS,
  CONSRTM, TITLE, JOURNAL, PUBMED, REMARK read by `pars.Any` over six `Map`ped alternatives.
  Core Lean only.
-/
import Gts.Lemmas.GbSource
import Gts.Lemmas.GbLocus
namespace Gts.GenBank
open Gts.Pars

/-! ### one alternative -/

/-- a sub-field value: no carriage return, not starting with a blank (the indent is counted up to
the first non-blank) -/
def subValueOk (v : Bytes) : Bool := noCR v && v.head? != some 32

theorem addPrefix_head (pre v X : Bytes) (h : v.head? ≠ some 32) :
    ∀ c, (addPrefix pre v ++ 10 :: X).head? = some c → c ≠ 32 := by
  intro c hc
  cases v with
  | nil => simp [addPrefix] at hc; subst hc; decide
  | cons x r =>
    by_cases hx : x = 10
    · subst hx; simp [addPrefix] at hc; subst hc; decide
    · simp [addPrefix, hx] at hc; subst hc; simpa using h

/-- the alternative for `name` on its own line: `a` blanks, the name, `b` blanks
(`a + len(name) + b = 12`), the value with continuation lines -/
theorem refSub_ok (n : String) (a b : Nat) (v more : Bytes) (stk : List Bytes) (stale : Nat)
    (ha : 0 < a) (hb : 0 < b) (hab : a + (bs n).length + b = 12)
    (hn : ∀ X c, (bs n ++ X).head? = some c → c ≠ 32)
    (hv : subValueOk v = true) (hmore : (sp 12).isPrefixOf more = false) :
    refSub n 12 stale ⟨sp a ++ (bs n ++ (sp b ++ (addPrefix (sp 12) v ++ 10 :: more))), stk⟩ =
      (.ok v, ⟨more, stk⟩) := by
  simp only [subValueOk, Bool.and_eq_true, bne_iff_ne, ne_eq] at hv
  have h1 := fun s => blankWord_ok a (bs n ++ (sp b ++ (addPrefix (sp 12) v ++ 10 :: more))) s ha (hn _)
  have h2 := fun s => blankWord_ok b (addPrefix (sp 12) v ++ 10 :: more) s hb (addPrefix_head _ _ _ hv.2)
  have hbody := fun s => fieldBody_addPrefix 12 v more s hv.1 hmore
  unfold refSub
  apply mapped_ok
  have ha0 : ¬ a = 0 := by omega
  gsimp [subfieldName, h1, lit_ok, h2, sp_length, hab, hbody, ha0]

/-- an alternative whose name is not the one on the line: the `Map` restores the position -/
theorem refSub_other (n : String) (a : Nat) (X : Bytes) (stk : List Bytes) (stale : Nat) (ha : 0 < a)
    (hX : ∀ c, X.head? = some c → c ≠ 32) (hne : (bs n).isPrefixOf X = false) :
    refSub n 12 stale ⟨sp a ++ X, stk⟩ = (.error .fail, ⟨sp a ++ X, stk⟩) := by
  have h1 := fun s => blankWord_ok a X s ha hX
  unfold refSub
  apply mapped_fail (r := X)
  have hsp : ¬ (sp a).length = 0 := by rw [sp_length]; omega
  gsimp [subfieldName, h1, hsp, lit_fail _ _ _ hne]

/-- an alternative on text that does not start with a blank and not with its name -/
theorem refSub_stop (n : String) (X : Bytes) (stk : List Bytes) (stale : Nat)
    (hX : ∀ c, X.head? = some c → (c == 32) = false) (hne : (bs n).isPrefixOf X = false) :
    refSub n 12 stale ⟨X, stk⟩ = (.error .fail, ⟨X, stk⟩) := by
  have h1 := fun s => word_fail (· == 32) X s hX
  unfold refSub
  apply mapped_fail (r := X)
  by_cases h0 : stale = 0
  · gsimp [subfieldName, h1, h0]
  · gsimp [subfieldName, h1, h0, lit_fail _ _ _ hne]

/-! ### `pars.Any` -/

theorem refAlts_skip (stale : Nat) (r : Reference) (x : String × (Reference → Bytes → Reference))
    (alts : List (String × (Reference → Bytes → Reference))) (inp fr : Bytes) (stk : List Bytes)
    (h : refSub x.1 12 stale ⟨inp, fr :: stk⟩ = (.error .fail, ⟨inp, fr :: stk⟩)) :
    refAlts 12 stale r (x :: alts) ⟨inp, fr :: stk⟩ = refAlts 12 stale r alts ⟨inp, fr :: stk⟩ := by
  obtain ⟨n, set⟩ := x
  gsimp [refAlts, h]

theorem refAlts_hit (stale : Nat) (r : Reference) (x : String × (Reference → Bytes → Reference))
    (alts : List (String × (Reference → Bytes → Reference))) (inp fr more b : Bytes) (stk : List Bytes)
    (h : refSub x.1 12 stale ⟨inp, fr :: stk⟩ = (.ok b, ⟨more, fr :: stk⟩)) :
    refAlts 12 stale r (x :: alts) ⟨inp, fr :: stk⟩ = (.ok (x.2 r b, b.length), ⟨more, stk⟩) := by
  obtain ⟨n, set⟩ := x
  gsimp [refAlts, h]

theorem refAlts_nil (stale : Nat) (r : Reference) (inp fr : Bytes) (stk : List Bytes) :
    refAlts 12 stale r [] ⟨inp, fr :: stk⟩ = (.error .fail, ⟨fr, stk⟩) := by
  gsimp [refAlts]

/-- what must follow a REFERENCE block: no blank, none of the six sub-field names -/
def refStop (more : Bytes) : Bool :=
  more.head? != some 32 && refAltList.all fun x => !(bs x.1).isPrefixOf more

theorem refAlts_allfail (stale : Nat) (r : Reference) (alts : List (String × (Reference → Bytes → Reference)))
    (more fr : Bytes) (stk : List Bytes) (hX : ∀ c, more.head? = some c → (c == 32) = false)
    (h : ∀ x ∈ alts, (bs x.1).isPrefixOf more = false) :
    refAlts 12 stale r alts ⟨more, fr :: stk⟩ = (.error .fail, ⟨fr, stk⟩) := by
  induction alts with
  | nil => exact refAlts_nil stale r more fr stk
  | cons x alts ih =>
    rw [refAlts_skip stale r x alts more fr stk (refSub_stop x.1 more _ stale hX (h x (by simp)))]
    exact ih (fun y hy => h y (by simp [hy]))

/-- no sub-field matches: `genbankReferenceSubfieldParser` fails and restores the position -/
theorem refSubfield_stop (stale : Nat) (r : Reference) (more : Bytes) (stk : List Bytes)
    (h : refStop more = true) :
    refSubfield 12 stale r ⟨more, stk⟩ = (.error .fail, ⟨more, stk⟩) := by
  simp only [refStop, Bool.and_eq_true, bne_iff_ne, ne_eq, List.all_eq_true, Bool.not_eq_true'] at h
  obtain ⟨h0, hall⟩ := h
  have hX : ∀ c, more.head? = some c → (c == 32) = false := by
    intro c hc'; rw [hc'] at h0; simpa using h0
  simp only [refSubfield, P.bind_run, push, getS, setS]
  exact refAlts_allfail stale r refAltList more more stk hX hall

end Gts.GenBank

namespace Gts.GenBank
open Gts.Pars

/-! ### a sub-field line is taken by its alternative -/

theorem refAlts_reach (stale : Nat) (r : Reference)
    (pre : List (String × (Reference → Bytes → Reference))) (x : String × (Reference → Bytes → Reference))
    (post : List (String × (Reference → Bytes → Reference))) (a b : Nat) (v more fr : Bytes) (stk : List Bytes)
    (ha : 0 < a) (hb : 0 < b) (hab : a + (bs x.1).length + b = 12)
    (hn : ∀ X c, (bs x.1 ++ X).head? = some c → c ≠ 32)
    (hv : subValueOk v = true) (hmore : (sp 12).isPrefixOf more = false)
    (hpre : ∀ y ∈ pre, ∀ Z, (bs y.1).isPrefixOf (bs x.1 ++ Z) = false) :
    refAlts 12 stale r (pre ++ x :: post)
        ⟨sp a ++ (bs x.1 ++ (sp b ++ (addPrefix (sp 12) v ++ 10 :: more))), fr :: stk⟩ =
      (.ok (x.2 r v, v.length), ⟨more, stk⟩) := by
  induction pre with
  | nil =>
    exact refAlts_hit stale r x post _ fr more v stk (refSub_ok x.1 a b v more _ stale ha hb hab hn hv hmore)
  | cons y pre ih =>
    rw [List.cons_append, refAlts_skip stale r y _ _ fr stk
      (refSub_other y.1 a _ _ stale ha (hn _) (hpre y (by simp) _))]
    exact ih (fun z hz => hpre z (by simp [hz]))

/-- the six sub-fields: index into `refAltList`, blanks in front of and behind the name -/
structure SubLine where
  idx : Fin 6
  v : Bytes

def refNames : List String := ["AUTHORS", "CONSRTM", "TITLE", "JOURNAL", "PUBMED", "REMARK"]

def slotA (i : Fin 6) : Nat := if i.1 = 4 then 3 else 2
def slotB (i : Fin 6) : Nat := match i.1 with | 2 => 5 | 5 => 4 | _ => 3
def slotName (i : Fin 6) : String := refNames.getD i.1 ""
def slotSet (i : Fin 6) : Reference → Bytes → Reference :=
  match i.1 with
  | 0 => fun r b => { r with authors := b }
  | 1 => fun r b => { r with group := b }
  | 2 => fun r b => { r with title := b }
  | 3 => fun r b => { r with journal := b }
  | 4 => fun r b => { r with pubmed := some b }
  | _ => fun r b => { r with comment := b }

/-- the line(s) of one sub-field as they stand in the file -/
def subLineText (l : SubLine) : Bytes :=
  sp (slotA l.idx) ++ (bs (slotName l.idx) ++ (sp (slotB l.idx) ++ (addPrefix (sp 12) l.v ++ [10])))

/-- two byte strings differ in their first or second byte -/
def differ : Bytes → Bytes → Bool
  | c :: d :: _, c' :: d' :: _ => c != c' || d != d'
  | _, _ => false

theorem slot_table : ∀ i : Fin 6,
    (0 < slotA i ∧ 0 < slotB i ∧ slotA i + (bs (slotName i)).length + slotB i = 12 ∧
      (bs (slotName i)).head? ≠ some 32 ∧ (bs (slotName i)).head? ≠ none) ∧
    ∀ j : Fin 6, j.1 < i.1 → differ (bs (slotName j)) (bs (slotName i)) = true := by
  decide

theorem slot_split (i : Fin 6) :
    refAltList = refAltList.take i.1 ++ (slotName i, slotSet i) :: refAltList.drop (i.1 + 1) ∧
    ∀ y ∈ refAltList.take i.1, ∃ j : Fin 6, j.1 < i.1 ∧ y.1 = slotName j := by
  obtain ⟨n, hn⟩ := i
  have : n = 0 ∨ n = 1 ∨ n = 2 ∨ n = 3 ∨ n = 4 ∨ n = 5 := by omega
  rcases this with rfl | rfl | rfl | rfl | rfl | rfl
  · exact ⟨rfl, by simp⟩
  · refine ⟨rfl, ?_⟩
    intro y hy; simp [refAltList] at hy; subst hy; exact ⟨⟨0, by omega⟩, by simp, rfl⟩
  · refine ⟨rfl, ?_⟩
    intro y hy; simp [refAltList] at hy
    rcases hy with rfl | rfl
    · exact ⟨⟨0, by omega⟩, by simp, rfl⟩
    · exact ⟨⟨1, by omega⟩, by simp, rfl⟩
  · refine ⟨rfl, ?_⟩
    intro y hy; simp [refAltList] at hy
    rcases hy with rfl | rfl | rfl
    · exact ⟨⟨0, by omega⟩, by simp, rfl⟩
    · exact ⟨⟨1, by omega⟩, by simp, rfl⟩
    · exact ⟨⟨2, by omega⟩, by simp, rfl⟩
  · refine ⟨rfl, ?_⟩
    intro y hy; simp [refAltList] at hy
    rcases hy with rfl | rfl | rfl | rfl
    · exact ⟨⟨0, by omega⟩, by simp, rfl⟩
    · exact ⟨⟨1, by omega⟩, by simp, rfl⟩
    · exact ⟨⟨2, by omega⟩, by simp, rfl⟩
    · exact ⟨⟨3, by omega⟩, by simp, rfl⟩
  · refine ⟨rfl, ?_⟩
    intro y hy; simp [refAltList] at hy
    rcases hy with rfl | rfl | rfl | rfl | rfl
    · exact ⟨⟨0, by omega⟩, by simp, rfl⟩
    · exact ⟨⟨1, by omega⟩, by simp, rfl⟩
    · exact ⟨⟨2, by omega⟩, by simp, rfl⟩
    · exact ⟨⟨3, by omega⟩, by simp, rfl⟩
    · exact ⟨⟨4, by omega⟩, by simp, rfl⟩

theorem prefix_mismatch (p q : Bytes) (Z : Bytes) (h : differ p q = true) : p.isPrefixOf (q ++ Z) = false := by
  match p, q, h with
  | c :: d :: t, c' :: d' :: t', h =>
    simp only [differ, Bool.or_eq_true, bne_iff_ne, ne_eq] at h
    rcases h with h | h
    · have : (c == c') = false := by simpa using h
      simp [List.isPrefixOf, this]
    · have : (d == d') = false := by simpa using h
      simp [List.isPrefixOf, this]

/-- `genbankReferenceSubfieldParser` on the line(s) of one sub-field -/
theorem refSubfield_line (l : SubLine) (stale : Nat) (r : Reference) (more : Bytes) (stk : List Bytes)
    (hv : subValueOk l.v = true) (hmore : (sp 12).isPrefixOf more = false) :
    refSubfield 12 stale r ⟨subLineText l ++ more, stk⟩ = (.ok (slotSet l.idx r l.v, l.v.length), ⟨more, stk⟩) := by
  obtain ⟨⟨ha, hb, hab, h32, hnone⟩, hdiff⟩ := slot_table l.idx
  obtain ⟨hlist, hpre⟩ := slot_split l.idx
  have e : subLineText l ++ more =
      sp (slotA l.idx) ++ (bs (slotName l.idx) ++ (sp (slotB l.idx) ++ (addPrefix (sp 12) l.v ++ 10 :: more))) := by
    simp [subLineText, List.append_assoc]
  rw [e]
  simp only [refSubfield, P.bind_run, push, getS, setS]
  rw [hlist]
  exact refAlts_reach stale r _ (slotName l.idx, slotSet l.idx) _ _ _ l.v more _ stk ha hb hab
    (by
      intro X x hx
      cases hb' : bs (slotName l.idx) with
      | nil => rw [hb'] at hnone; exact absurd rfl hnone
      | cons c t =>
        rw [hb'] at hx h32
        simp at hx h32; subst hx; exact h32) hv hmore
    (fun y hy Z => by
      obtain ⟨j, hj, hy1⟩ := hpre y hy
      rw [hy1]
      exact prefix_mismatch _ _ Z (hdiff j hj))

/-! ### the loop -/

def subLinesText (ls : List SubLine) : Bytes := ls.flatMap subLineText

theorem subLineText_not_indent (l : SubLine) (X : Bytes) : (sp 12).isPrefixOf (subLineText l ++ X) = false := by
  obtain ⟨⟨ha, hb, hab, h32, hnone⟩, _⟩ := slot_table l.idx
  have hA : slotA l.idx ≤ 3 := by unfold slotA; split <;> omega
  obtain ⟨c, t, hc, hc32⟩ : ∃ c t, bs (slotName l.idx) = c :: t ∧ c ≠ 32 := by
    cases hb' : bs (slotName l.idx) with
    | nil => rw [hb'] at hnone; exact absurd rfl hnone
    | cons c t => rw [hb'] at h32; exact ⟨c, t, rfl, by simpa using h32⟩
  have e : subLineText l ++ X = sp (slotA l.idx) ++ (c :: (t ++ (sp (slotB l.idx) ++ (addPrefix (sp 12) l.v ++ 10 :: X)))) := by
    simp [subLineText, hc, List.append_assoc]
  rw [e]
  -- fewer than 12 blanks, then a non-blank
  generalize slotA l.idx = a at hA
  have : ∀ (a n : Nat) (Y : Bytes), a < n → (sp n).isPrefixOf (sp a ++ c :: Y) = false := by
    intro a
    induction a with
    | zero => intro n Y hn; exact sp_prefix_cons n c Y hc32 hn
    | succ a ih =>
      intro n Y hn
      obtain ⟨n', rfl⟩ : ∃ n', n = n' + 1 := ⟨n - 1, by omega⟩
      rw [sp_succ, sp_succ]
      simp only [List.cons_append, List.isPrefixOf, beq_self_eq_true, Bool.true_and]
      exact ih n' Y (by omega)
  exact this a 12 _ (by omega)

theorem refSubfields_lines (ls : List SubLine) (more : Bytes) (stk : List Bytes) (stale : Nat) (r : Reference)
    (k : Nat) (hv : ∀ l ∈ ls, subValueOk l.v = true) (hstop : refStop more = true) (hk : ls.length < k) :
    refSubfields 12 k stale r ⟨subLinesText ls ++ more, stk⟩ =
      (.ok (ls.foldl (fun r l => slotSet l.idx r l.v) r), ⟨more, stk⟩) := by
  induction ls generalizing stale r k with
  | nil =>
    cases k with
    | zero => omega
    | succ k => gsimp [refSubfields, subLinesText, refSubfield_stop stale r more stk hstop]
  | cons l ls ih =>
    cases k with
    | zero => omega
    | succ k =>
      have hmore : (sp 12).isPrefixOf (subLinesText ls ++ more) = false := by
        cases ls with
        | nil =>
          simp only [subLinesText, List.flatMap_nil, List.nil_append]
          simp only [refStop, Bool.and_eq_true, bne_iff_ne, ne_eq] at hstop
          cases more with
          | nil => rfl
          | cons c m =>
            have : c ≠ 32 := by simpa using hstop.1
            exact sp_prefix_cons 12 c m this (by omega)
        | cons l' ls' =>
          simp only [subLinesText, List.flatMap_cons, List.append_assoc]
          exact subLineText_not_indent l' _
      have e : subLinesText (l :: ls) ++ more = subLineText l ++ (subLinesText ls ++ more) := by
        simp [subLinesText, List.flatMap_cons, List.append_assoc]
      rw [e]
      simp only [refSubfields, P.bind_run, attempt_run,
        refSubfield_line l stale r _ stk (hv l (by simp)) hmore]
      rw [ih _ _ k (fun x hx => hv x (by simp [hx])) (by simp only [List.length_cons] at hk; omega)]
      simp

end Gts.GenBank

namespace Gts.GenBank
open Gts.Pars

/-! ### the whole REFERENCE block -/

/-- the sub-field lines `GenBank.String` writes for a reference, in its order -/
def presentLines (r : Reference) : List SubLine :=
  (if r.authors.isEmpty then [] else [⟨0, r.authors⟩]) ++
  (if r.group.isEmpty then [] else [⟨1, r.group⟩]) ++
  (if r.title.isEmpty then [] else [⟨2, r.title⟩]) ++
  (if r.journal.isEmpty then [] else [⟨3, r.journal⟩]) ++
  (match r.pubmed with | some v => [⟨4, v⟩] | none => []) ++
  (if r.comment.isEmpty then [] else [⟨5, r.comment⟩])

/-- the reference the reader starts from: number and info, everything else empty -/
def blankRef (r : Reference) : Reference :=
  { number := r.number, info := r.info, authors := [], group := [], title := [], journal := [],
    pubmed := none, comment := [] }

theorem fold_present (r : Reference) :
    (presentLines r).foldl (fun q l => slotSet l.idx q l.v) (blankRef r) = r := by
  obtain ⟨n, i, a, g, t, j, p, c⟩ := r
  have v0 : ((0 : Fin 6) : Nat) = 0 := rfl
  have v1 : ((1 : Fin 6) : Nat) = 1 := rfl
  have v2 : ((2 : Fin 6) : Nat) = 2 := rfl
  have v3 : ((3 : Fin 6) : Nat) = 3 := rfl
  have v4 : ((4 : Fin 6) : Nat) = 4 := rfl
  have v5 : ((5 : Fin 6) : Nat) = 5 := rfl
  cases a <;> cases g <;> cases t <;> cases j <;> cases p <;> cases c <;>
    simp [presentLines, blankRef, slotSet, v0, v1, v2, v3, v4, v5]

/-- the head line of a reference without its line feed -/
def refHead (r : Reference) : Bytes :=
  if r.info.isEmpty then bs "REFERENCE   " ++ itoaB r.number
  else bs "REFERENCE   " ++ itoaB r.number ++ sp (3 - (itoaB r.number).length) ++ r.info

theorem referenceText_eq (r : Reference) (hp : ∀ v, r.pubmed = some v → noEOL v = true) :
    referenceText r = .ok (refHead r ++ 10 :: subLinesText (presentLines r)) := by
  have l0 : bs "  AUTHORS   " = sp 2 ++ (bs "AUTHORS" ++ sp 3) := by decide
  have l1 : bs "  CONSRTM   " = sp 2 ++ (bs "CONSRTM" ++ sp 3) := by decide
  have l2 : bs "  TITLE     " = sp 2 ++ (bs "TITLE" ++ sp 5) := by decide
  have l3 : bs "  JOURNAL   " = sp 2 ++ (bs "JOURNAL" ++ sp 3) := by decide
  have l4 : bs "   PUBMED   " = sp 3 ++ (bs "PUBMED" ++ sp 3) := by decide
  have l5 : bs "  REMARK    " = sp 2 ++ (bs "REMARK" ++ sp 4) := by decide
  obtain ⟨n, i, a, g, t, j, p, c⟩ := r
  simp only [referenceText, refHead]
  congr 1
  have hpv : ∀ v, p = some v → addPrefix (sp 12) v = v := fun v hv => addPrefix_noLF _ v (hp v hv)
  have hs : ∀ (k : Fin 6) (v : Bytes), subLineText ⟨k, v⟩ =
      sp (slotA k) ++ (bs (slotName k) ++ (sp (slotB k) ++ (addPrefix (sp 12) v ++ [10]))) := fun _ _ => rfl
  have v0 : ((0 : Fin 6) : Nat) = 0 := rfl
  have v1 : ((1 : Fin 6) : Nat) = 1 := rfl
  have v2 : ((2 : Fin 6) : Nat) = 2 := rfl
  have v3 : ((3 : Fin 6) : Nat) = 3 := rfl
  have v4 : ((4 : Fin 6) : Nat) = 4 := rfl
  have v5 : ((5 : Fin 6) : Nat) = 5 := rfl
  cases a <;> cases g <;> cases t <;> cases j <;> cases p <;> cases c <;>
    simp [presentLines, subLinesText, hs, slotA, slotB, slotName, refNames, l0, l1, l2, l3, l4, l5, indent,
      v0, v1, v2, v3, v4, v5, hpv,
      addPrefix_noLF, List.append_assoc, Bind.bind, Except.bind, pure, Except.pure]

/-- the domain of a reference: a non-negative number, an info line without line end that does not
start with a digit when the number leaves no room for a blank, sub-field values without carriage
return that do not start with a blank -/
def referenceOk (r : Reference) : Bool :=
  decide (0 ≤ r.number ∧ r.number ≤ 9223372036854775807) && noEOL r.info &&
  (decide ((itoaB r.number).length < 3) || match r.info with | [] => true | c :: _ => !isDigit c) &&
  (match r.pubmed with | some v => noEOL v | none => true) &&
  (presentLines r).all fun l => subValueOk l.v

theorem subLinesText_length_ge (ls : List SubLine) : ls.length ≤ (subLinesText ls).length := by
  induction ls with
  | nil => simp [subLinesText]
  | cons l ls ih =>
    simp only [subLinesText, List.flatMap_cons, List.length_append, List.length_cons] at ih ⊢
    have : 1 ≤ (subLineText l).length := by
      simp only [subLineText, List.length_append, List.length_cons]; omega
    omega

/-- **REFERENCE** round trip: head line (number, padding, info) and the sub-fields that are
present, followed by text that starts neither with a blank nor with a sub-field name -/
theorem reference_roundtrip (f : Fields) (r : Reference) (more : Bytes) (stk : List Bytes)
    (h : referenceOk r = true) (hstop : refStop more = true) :
    referenceField 12 f ⟨refHead r ++ 10 :: (subLinesText (presentLines r) ++ more), stk⟩ =
      (.ok ({ f with references := f.references ++ [r] }, true), ⟨more, stk⟩) := by
  simp only [referenceOk, Bool.and_eq_true, Bool.or_eq_true, decide_eq_true_eq, List.all_eq_true] at h
  obtain ⟨⟨⟨⟨⟨hn0, hn1⟩, hinfo⟩, hdig⟩, _⟩, hsub⟩ := h
  obtain ⟨n, hn⟩ : ∃ n : Nat, r.number = (n : Int) := ⟨r.number.toNat, by omega⟩
  have hnum : itoaB r.number = natDigits n := by rw [hn]; simp [itoaB]
  have hnum' : itoaB (n : Int) = natDigits n := by simp [itoaB]
  generalize hT : subLinesText (presentLines r) ++ more = T
  have hlen : (presentLines r).length < T.length + 1 := by
    have := subLinesText_length_ge (presentLines r)
    rw [← hT]; simp only [List.length_append]; omega
  have hloop : ∀ s, refSubfields 12 (T.length + 1) r.info.length (blankRef r) ⟨T, s⟩ = (.ok r, ⟨more, s⟩) := by
    intro s
    have := refSubfields_lines (presentLines r) more s r.info.length (blankRef r) (T.length + 1) hsub hstop hlen
    rw [hT, fold_present] at this; exact this
  have hfn := fun X s => fieldName_ok (bs "REFERENCE") 12 X s (by decide)
  have hs3 : sp (12 - (bs "REFERENCE").length) = sp 3 := by decide
  rw [hs3] at hfn
  simp only [blankRef, hn] at hloop
  by_cases hi : r.info = []
  · -- no info: the number is followed by the line feed
    have e : refHead r ++ 10 :: T = bs "REFERENCE" ++ (sp 3 ++ (natDigits n ++ 10 :: T)) := by
      simp [refHead, hi, hnum, bs, sp, List.append_assoc]
    rw [e]
    have hint := fun s => int_natDigits n (10 :: T) s (by simp [List.dropWhile, isDigit]) (by omega)
    have hline := fun s => line_ok [] T s rfl
    simp only [List.nil_append] at hline
    have hlit : ∀ s, attempt (lit (sp (3 - (natDigits n).length))) ⟨10 :: T, s⟩ = (.ok (if 3 - (natDigits n).length = 0 then some () else none), ⟨10 :: T, s⟩) := by
      intro s
      by_cases h0 : 3 - (natDigits n).length = 0
      · rw [h0]
        have := lit_ok [] (10 :: T) s
        simp only [List.nil_append] at this
        simp only [sp, List.replicate_zero, attempt_run, this, if_true]
      · rw [if_neg h0]
        have hf := lit_fail (sp (3 - (natDigits n).length)) (10 :: T) s
          (sp_prefix_cons (3 - (natDigits n).length) 10 T (by decide) (by omega))
        simp only [attempt_run, hf]
    rw [hi] at hloop
    simp only [List.length_nil] at hloop
    simp only [referenceField, P.bind_run, hfn, hint, P.pure_run, hnum', hlit]
    simp only [hline, getS, P.bind_run, P.pure_run, List.length_nil, hloop]
  · -- info: padding, then the info line
    have e : refHead r ++ 10 :: T =
        bs "REFERENCE" ++ (sp 3 ++ (natDigits n ++ (sp (3 - (natDigits n).length) ++ (r.info ++ 10 :: T)))) := by
      have : r.info.isEmpty = false := by cases h' : r.info <;> simp_all
      simp [refHead, this, hnum, bs, sp, List.append_assoc]
    rw [e]
    have hdw : (sp (3 - (natDigits n).length) ++ (r.info ++ 10 :: T)).dropWhile isDigit =
        sp (3 - (natDigits n).length) ++ (r.info ++ 10 :: T) := by
      apply dropWhile_stop
      intro c hc
      by_cases h0 : 3 - (natDigits n).length = 0
      · rw [h0] at hc
        simp only [sp, List.replicate_zero, List.nil_append] at hc
        rcases hdig with hd | hd
        · rw [hnum] at hd; omega
        · cases hinf : r.info with
          | nil => exact absurd hinf hi
          | cons x t =>
            rw [hinf] at hc hd
            simp at hc hd; subst hc; simpa using hd
      · obtain ⟨k, hk⟩ : ∃ k, 3 - (natDigits n).length = k + 1 := ⟨3 - (natDigits n).length - 1, by omega⟩
        rw [hk, sp_succ] at hc; simp at hc; subst hc; decide
    have hint := fun s => int_natDigits n _ s hdw (by omega)
    have hline := fun s => line_ok r.info T s hinfo
    simp only [referenceField, P.bind_run, hfn, hint, P.pure_run, hnum']
    simp only [attempt_run, lit_ok, hline, getS, P.bind_run, P.pure_run, hloop]

end Gts.GenBank
