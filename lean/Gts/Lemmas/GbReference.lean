/-
  C01 helper lemmas: REFERENCE blocks — number, padding, info line, and the sub-fields AUTHORS,
  CONSRTM, TITLE, JOURNAL, PUBMED, REMARK read by `pars.Any` over six `Map`ped alternatives.
  Core Lean only.
-/
import Gts.Lemmas.GbSource
import Gts.Lemmas.GbLocus
namespace Gts.GenBank
open Gts.Pars

/-! ### one alternative -/

/-- a sub-field value: no carriage return, not starting with a blank (the indent is counted up to
the first non-blank) -/
def subValueOk (v : Bytes) : Bool := noCR v && v.head? != some 32

theorem addPrefix_head (pre v X : Bytes) (h : v.head? ≠ some 32) :
    ∀ c, (addPrefix pre v ++ 10 :: X).head? = some c → c ≠ 32 := by
  intro c hc
  cases v with
  | nil => simp [addPrefix] at hc; subst hc; decide
  | cons x r =>
    by_cases hx : x = 10
    · subst hx; simp [addPrefix] at hc; subst hc; decide
    · simp [addPrefix, hx] at hc; subst hc; simpa using h

/-- the alternative for `name` on its own line: `a` blanks, the name, `b` blanks
(`a + len(name) + b = 12`), the value with continuation lines -/
theorem refSub_ok (n : String) (a b : Nat) (v more : Bytes) (stk : List Bytes) (stale : Nat)
    (ha : 0 < a) (hb : 0 < b) (hab : a + (bs n).length + b = 12)
    (hn : ∀ X c, (bs n ++ X).head? = some c → c ≠ 32)
    (hv : subValueOk v = true) (hmore : (sp 12).isPrefixOf more = false) :
    refSub n 12 stale ⟨sp a ++ (bs n ++ (sp b ++ (addPrefix (sp 12) v ++ 10 :: more))), stk⟩ =
      (.ok v, ⟨more, stk⟩) := by
  simp only [subValueOk, Bool.and_eq_true, bne_iff_ne, ne_eq] at hv
  have h1 := fun s => blankWord_ok a (bs n ++ (sp b ++ (addPrefix (sp 12) v ++ 10 :: more))) s ha (hn _)
  have h2 := fun s => blankWord_ok b (addPrefix (sp 12) v ++ 10 :: more) s hb (addPrefix_head _ _ _ hv.2)
  have hbody := fun s => fieldBody_addPrefix 12 v more s hv.1 hmore
  unfold refSub
  apply mapped_ok
  have ha0 : ¬ a = 0 := by omega
  gsimp [subfieldName, h1, lit_ok, h2, sp_length, hab, hbody, ha0]

/-- an alternative whose name is not the one on the line: the `Map` restores the position -/
theorem refSub_other (n : String) (a : Nat) (X : Bytes) (stk : List Bytes) (stale : Nat) (ha : 0 < a)
    (hX : ∀ c, X.head? = some c → c ≠ 32) (hne : (bs n).isPrefixOf X = false) :
    refSub n 12 stale ⟨sp a ++ X, stk⟩ = (.error .fail, ⟨sp a ++ X, stk⟩) := by
  have h1 := fun s => blankWord_ok a X s ha hX
  unfold refSub
  apply mapped_fail (r := X)
  have hsp : ¬ (sp a).length = 0 := by rw [sp_length]; omega
  gsimp [subfieldName, h1, hsp, lit_fail _ _ _ hne]

/-- an alternative on text that does not start with a blank and not with its name -/
theorem refSub_stop (n : String) (X : Bytes) (stk : List Bytes) (stale : Nat)
    (hX : ∀ c, X.head? = some c → (c == 32) = false) (hne : (bs n).isPrefixOf X = false) :
    refSub n 12 stale ⟨X, stk⟩ = (.error .fail, ⟨X, stk⟩) := by
  have h1 := fun s => word_fail (· == 32) X s hX
  unfold refSub
  apply mapped_fail (r := X)
  by_cases h0 : stale = 0
  · gsimp [subfieldName, h1, h0]
  · gsimp [subfieldName, h1, h0, lit_fail _ _ _ hne]

/-! ### `pars.Any` -/

theorem refAlts_skip (stale : Nat) (r : Reference) (x : String × (Reference → Bytes → Reference))
    (alts : List (String × (Reference → Bytes → Reference))) (inp fr : Bytes) (stk : List Bytes)
    (h : refSub x.1 12 stale ⟨inp, fr :: stk⟩ = (.error .fail, ⟨inp, fr :: stk⟩)) :
    refAlts 12 stale r (x :: alts) ⟨inp, fr :: stk⟩ = refAlts 12 stale r alts ⟨inp, fr :: stk⟩ := by
  obtain ⟨n, set⟩ := x
  gsimp [refAlts, h]

theorem refAlts_hit (stale : Nat) (r : Reference) (x : String × (Reference → Bytes → Reference))
    (alts : List (String × (Reference → Bytes → Reference))) (inp fr more b : Bytes) (stk : List Bytes)
    (h : refSub x.1 12 stale ⟨inp, fr :: stk⟩ = (.ok b, ⟨more, fr :: stk⟩)) :
    refAlts 12 stale r (x :: alts) ⟨inp, fr :: stk⟩ = (.ok (x.2 r b, b.length), ⟨more, stk⟩) := by
  obtain ⟨n, set⟩ := x
  gsimp [refAlts, h]

theorem refAlts_nil (stale : Nat) (r : Reference) (inp fr : Bytes) (stk : List Bytes) :
    refAlts 12 stale r [] ⟨inp, fr :: stk⟩ = (.error .fail, ⟨fr, stk⟩) := by
  gsimp [refAlts]

/-- what must follow a REFERENCE block: no blank, none of the six sub-field names -/
def refStop (more : Bytes) : Bool :=
  more.head? != some 32 && refAltList.all fun x => !(bs x.1).isPrefixOf more

theorem refAlts_allfail (stale : Nat) (r : Reference) (alts : List (String × (Reference → Bytes → Reference)))
    (more fr : Bytes) (stk : List Bytes) (hX : ∀ c, more.head? = some c → (c == 32) = false)
    (h : ∀ x ∈ alts, (bs x.1).isPrefixOf more = false) :
    refAlts 12 stale r alts ⟨more, fr :: stk⟩ = (.error .fail, ⟨fr, stk⟩) := by
  induction alts with
  | nil => exact refAlts_nil stale r more fr stk
  | cons x alts ih =>
    rw [refAlts_skip stale r x alts more fr stk (refSub_stop x.1 more _ stale hX (h x (by simp)))]
    exact ih (fun y hy => h y (by simp [hy]))

/-- no sub-field matches: `genbankReferenceSubfieldParser` fails and restores the position -/
theorem refSubfield_stop (stale : Nat) (r : Reference) (more : Bytes) (stk : List Bytes)
    (h : refStop more = true) :
    refSubfield 12 stale r ⟨more, stk⟩ = (.error .fail, ⟨more, stk⟩) := by
  simp only [refStop, Bool.and_eq_true, bne_iff_ne, ne_eq, List.all_eq_true, Bool.not_eq_true'] at h
  obtain ⟨h0, hall⟩ := h
  have hX : ∀ c, more.head? = some c → (c == 32) = false := by
    intro c hc'; rw [hc'] at h0; simpa using h0
  simp only [refSubfield, P.bind_run, push, getS, setS]
  exact refAlts_allfail stale r refAltList more more stk hX hall

end Gts.GenBank
