/-
  Lemmas about the translator's reading of Go's slice operations on lists (Gts/Gen/GoList.lean, fixed
  text): the checked operations at indices that are natural numbers.
-/
import Gts.Gen.GoList
namespace Gts.Gen

/-- closes `generated nest of matches on Option values = the same nest written by hand (or with
`Option.bind`)`: the two sides use different matcher constants, so `rfl` alone fails until the
scrutinees are constructors -/
macro "opt_split" : tactic =>
  `(tactic| repeat' (first | rfl | (split <;> (try simp_all only [Option.bind_some, Option.bind_none, ↓reduceIte]))))

variable {α : Type}

theorem goIdx_nat (p : List α) (n : Nat) : goIdx p (n : Int) = p[n]? := by
  simp only [goIdx, Int.toNat_natCast]
  rw [if_neg (by omega)]

theorem goIdx_lt (p : List α) (n : Nat) (h : n < p.length) : goIdx p (n : Int) = some p[n] := by
  rw [goIdx_nat, List.getElem?_eq_getElem h]

theorem goIdx_neg (p : List α) (i : Int) (h : i < 0) : goIdx p i = none := by
  simp only [goIdx]; rw [if_pos h]

theorem goFrom_nat (p : List α) (n : Nat) (h : n ≤ p.length) : goFrom p (n : Int) = some (p.drop n) := by
  simp only [goFrom, Int.toNat_natCast]
  rw [if_pos (by omega)]

theorem goTo_nat (p : List α) (n : Nat) (h : n ≤ p.length) : goTo p (n : Int) = some (p.take n) := by
  simp only [goTo, Int.toNat_natCast]
  rw [if_pos (by omega)]

theorem goSet_nat (p : List α) (n : Nat) (x : α) (h : n < p.length) :
    goSet p (n : Int) x = some (p.set n x) := by
  simp only [goSet, Int.toNat_natCast]
  rw [if_pos (by omega)]

theorem goMake_nat (z : α) (n : Nat) : goMake z (n : Int) = some (List.replicate n z) := by
  simp only [goMake, Int.toNat_natCast]
  rw [if_neg (by omega)]

theorem goMake3_zero (z : α) (c : Nat) : goMake3 z 0 (c : Int) = some [] := by
  simp only [goMake3]
  rw [if_pos (by omega)]
  rfl

theorem goCopyAt_nat (q : List α) (n : Nat) (src : List α) (h : n ≤ q.length) :
    goCopyAt q (n : Int) src = some (q.take n ++ goCopy (q.drop n) src) := by
  simp only [goCopyAt, Int.toNat_natCast]
  rw [if_pos (by omega)]

theorem goUint_nat (n : Nat) : goUint (n : Int) = some (n : Int) := by
  simp only [goUint]; rw [if_pos (by omega)]

/-- `copy(q, src)` keeps the length of the destination -/
theorem goCopy_length (q src : List α) : (goCopy q src).length = q.length := by
  simp only [goCopy, List.length_append, List.length_take, List.length_drop]; omega

/-- `copy(q, src)` with a source that fits: the source, then the untouched rest -/
theorem goCopy_le (q src : List α) (h : src.length ≤ q.length) : goCopy q src = src ++ q.drop src.length := by
  simp only [goCopy, List.take_of_length_le h]

/-- a store at the first cell behind a prefix -/
theorem set_append_length (x y : α) (rest : List α) : ∀ pre : List α,
    (pre ++ y :: rest).set pre.length x = pre ++ x :: rest
  | [] => rfl
  | a :: pre => by simp only [List.cons_append, List.length_cons, List.set_cons_succ, set_append_length x y rest pre]

end Gts.Gen
