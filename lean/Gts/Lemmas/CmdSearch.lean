/-
  Helper lemmas for the glue of `gts search` (Gts/Model/CliGlue.lean `Cli.searchStep`): every segment `Match` / `Search`
  report is a proper range `[i, i + |query|)` with a non-empty query, so `gts.Range(head, tail)` never panics on it, and
  the reverse of a `Ranged` is a `Ranged` (the type assertion `loc.Reverse(n).(gts.Ranged)` never fails).
-/
import Gts.Model.CliGlue
import Gts.Lemmas.Nuc
import Gts.Lemmas.LessOrder
namespace Gts.Cli
open Gts Gts.Nuc

/-- a segment `Search` reports is `[i, i + |query|)` with `|query| > 0` -/
theorem search_seg (seq query : List UInt8) : ∀ sg ∈ search seq query,
    ∃ i : Nat, sg = toSeg query.length i ∧ 0 < query.length := by
  intro sg h
  by_cases hs : seq = []
  · subst hs; simp [search] at h
  by_cases hq : query = []
  · subst hq; simp [search] at h
  rw [search_eq seq query hs hq] at h
  obtain ⟨i, _, rfl⟩ := List.mem_map.1 h
  exact ⟨i, rfl, List.length_pos_iff.2 hq⟩

/-- a segment `Match` reports is `[i, i + |query|)` with `|query| > 0` -/
theorem match_seg (seq query : List UInt8) : ∀ sg ∈ matchSegs seq query,
    ∃ i : Nat, sg = toSeg query.length i ∧ 0 < query.length := by
  intro sg h
  by_cases hs : seq = []
  · subst hs; simp [matchSegs] at h
  by_cases hq : query = []
  · subst hq; simp [matchSegs] at h
  rw [matchSegs_eq seq query hs hq] at h
  obtain ⟨i, _, rfl⟩ := List.mem_map.1 h
  exact ⟨i, rfl, List.length_pos_iff.2 hq⟩

/-- **every segment the matcher of `gts search` reports is a proper range**: `head < tail` -/
theorem matcher_proper (exact : Bool) (s q : Seq) : ∀ sg ∈ matcher exact s q, sg.1 < sg.2 := by
  intro sg h
  have : ∃ i : Nat, sg = toSeg q.bytes.length i ∧ 0 < q.bytes.length := by
    cases exact
    · exact match_seg _ _ sg (by simpa [matcher, seqMatch] using h)
    · exact search_seg _ _ sg (by simpa [matcher, seqSearch] using h)
  obtain ⟨i, rfl, hpos⟩ := this
  simp only [toSeg]
  omega

/-- `gts.Range` on a proper segment -/
theorem rangeOf_proper (a b : Int) (h : a < b) : rangeOf a b = some (.ranged a b false false) := by
  simp only [rangeOf]
  rw [if_neg (by omega)]

/-- the reverse of a `Ranged` is a `Ranged`: the assertion `.(gts.Ranged)` holds -/
theorem asRanged_reverse (a b : Int) (p5 p3 : Bool) (L : Int) :
    asRanged ((Loc.ranged a b p5 p3).reverse L) = some ((Loc.ranged a b p5 p3).reverse L) := by
  simp only [Loc.reverse, Loc.rangedReverse]
  rfl

/-! ### what the step adds: a permutation statement -/

/-- a run of `Insert`s adds exactly the inserted features -/
theorem foldl_insert_perm {α : Type} (g : α → Feature) : ∀ (l : List α) (ff : Table),
    (l.foldl (fun (ff : Table) x => ff.insert (g x)) ff).Perm (ff ++ l.map g) := by
  intro l
  induction l with
  | nil => intro ff; simp
  | cons a rest ih =>
    intro ff
    simp only [List.foldl_cons, List.map_cons]
    refine (ih _).trans ?_
    refine ((Table.insert_perm' ff (g a)).append_right _).trans ?_
    simp only [List.cons_append]
    exact (List.perm_middle (l₁ := ff) (a := g a) (l₂ := rest.map g)).symm

/-- the features `gts search` adds to a record for ONE query: one per forward hit, then — unless `--no-complement` —
one per hit on the reverse complement -/
def searchHits (exact nocomplement : Bool) (key : String) (props : Props) (s q : Seq) : List Feature :=
  (matcher exact s q).map (fwdFeature key props) ++
    (if nocomplement then [] else (matcher exact (revcompOf s) q).map (bwdFeature key props s.len))

theorem searchQuery_perm (exact nocomplement : Bool) (key : String) (props : Props) (s : Seq) (ff : Table) (q : Seq) :
    (searchQuery exact nocomplement key props s ff q).Perm (ff ++ searchHits exact nocomplement key props s q) := by
  unfold searchQuery searchHits
  cases nocomplement
  · simp only [Bool.false_eq_true, if_false]
    refine (foldl_insert_perm _ _ _).trans ?_
    rw [← List.append_assoc]
    exact (foldl_insert_perm _ _ _).append_right _
  · simp only [if_true, List.append_nil]
    exact foldl_insert_perm _ _ _

/-- **`gts search` adds exactly the hits**: the table after the step is a permutation of the table before it followed
by the hits of every query (none lost, none invented, none duplicated) -/
theorem searchStep_perm (exact nocomplement : Bool) (key : String) (props : Props) (queries : List Seq) (s : Seq) :
    (searchStep exact nocomplement key props queries s).feats.Perm
      (s.feats ++ queries.flatMap (searchHits exact nocomplement key props s)) := by
  have : ∀ (qs : List Seq) (ff : Table), (qs.foldl (searchQuery exact nocomplement key props s) ff).Perm
      (ff ++ qs.flatMap (searchHits exact nocomplement key props s)) := by
    intro qs
    induction qs with
    | nil => intro ff; simp
    | cons q rest ih =>
      intro ff
      simp only [List.foldl_cons, List.flatMap_cons]
      refine (ih _).trans ?_
      rw [← List.append_assoc]
      exact (searchQuery_perm _ _ _ _ _ _ _).append_right _
  exact this queries s.feats

/-- the residues `gts search` looks for reverse hits in: complemented and flipped -/
theorem revcompOf_bytes (s : Seq) : (revcompOf s).bytes = (s.bytes.map Nuc.complementByte).reverse := rfl

/-- the feature of a forward hit at offset `i` of width `w` -/
theorem fwdFeature_toSeg (key : String) (props : Props) (w i : Nat) :
    fwdFeature key props (toSeg w i) = ⟨key, .ranged (i : Int) ((i + w : Nat) : Int) false false, props⟩ := rfl

/-- the feature of a hit at offset `i` of the reverse complement of a record of `L` residues: on the complement
strand, at `[L − (i+w), L − i)` -/
theorem bwdFeature_toSeg (key : String) (props : Props) (L : Int) (w i : Nat) :
    bwdFeature key props L (toSeg w i) =
      ⟨key, .compl (.ranged (L - ((i + w : Nat) : Int)) (L - (i : Int)) false false), props⟩ := rfl

end Gts.Cli
