/-
  Helper lemmas for the glue of `gts search` (Gts/Model/CliGlue.lean `Cli.searchStep`): every segment `Match` / `Search`
  report is a proper range `[i, i + |query|)` with a non-empty query, so `gts.Range(head, tail)` never panics on it, and
  the reverse of a `Ranged` is a `Ranged` (the type assertion `loc.Reverse(n).(gts.Ranged)` never fails).
-/
import Gts.Model.CliGlue
import Gts.Lemmas.Nuc
namespace Gts.Cli
open Gts Gts.Nuc

/-- a segment `Search` reports is `[i, i + |query|)` with `|query| > 0` -/
theorem search_seg (seq query : List UInt8) : ∀ sg ∈ search seq query,
    ∃ i : Nat, sg = toSeg query.length i ∧ 0 < query.length := by
  intro sg h
  by_cases hs : seq = []
  · subst hs; simp [search] at h
  by_cases hq : query = []
  · subst hq; simp [search] at h
  rw [search_eq seq query hs hq] at h
  obtain ⟨i, _, rfl⟩ := List.mem_map.1 h
  exact ⟨i, rfl, List.length_pos_iff.2 hq⟩

/-- a segment `Match` reports is `[i, i + |query|)` with `|query| > 0` -/
theorem match_seg (seq query : List UInt8) : ∀ sg ∈ matchSegs seq query,
    ∃ i : Nat, sg = toSeg query.length i ∧ 0 < query.length := by
  intro sg h
  by_cases hs : seq = []
  · subst hs; simp [matchSegs] at h
  by_cases hq : query = []
  · subst hq; simp [matchSegs] at h
  rw [matchSegs_eq seq query hs hq] at h
  obtain ⟨i, _, rfl⟩ := List.mem_map.1 h
  exact ⟨i, rfl, List.length_pos_iff.2 hq⟩

/-- **every segment the matcher of `gts search` reports is a proper range**: `head < tail` -/
theorem matcher_proper (exact : Bool) (s q : Seq) : ∀ sg ∈ matcher exact s q, sg.1 < sg.2 := by
  intro sg h
  have : ∃ i : Nat, sg = toSeg q.bytes.length i ∧ 0 < q.bytes.length := by
    cases exact
    · exact match_seg _ _ sg (by simpa [matcher, seqMatch] using h)
    · exact search_seg _ _ sg (by simpa [matcher, seqSearch] using h)
  obtain ⟨i, rfl, hpos⟩ := this
  simp only [toSeg]
  omega

/-- `gts.Range` on a proper segment -/
theorem rangeOf_proper (a b : Int) (h : a < b) : rangeOf a b = some (.ranged a b false false) := by
  simp only [rangeOf]
  rw [if_neg (by omega)]

/-- the reverse of a `Ranged` is a `Ranged`: the assertion `.(gts.Ranged)` holds -/
theorem asRanged_reverse (a b : Int) (p5 p3 : Bool) (L : Int) :
    asRanged ((Loc.ranged a b p5 p3).reverse L) = some ((Loc.ranged a b p5 p3).reverse L) := by
  simp only [Loc.reverse, Loc.rangedReverse]
  rfl

end Gts.Cli
