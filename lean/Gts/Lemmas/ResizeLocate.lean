/-
  `Regions.Resize` at the byte level (C08): resizing a region and extracting it = slicing the extracted
  sequence (`resize_den` of Lemmas/Resize.lean composed with `locate_bytes_den` of Lemmas/Locate.lean).
  Helper lemmas for `Gts.C08.resize_locate_bytes`.  Core Lean only.
-/
import Gts.Lemmas.Resize
import Gts.Lemmas.Locate
namespace Gts.Reg
open Gts

theorem slice_bytes_inside (s : Seq) (lo hi : Int) (h0 : 0 ≤ lo) (h1 : lo ≤ hi) :
    (s.slice lo hi).bytes = (s.bytes.drop lo.toNat).take (hi - lo).toNat := by
  have a : ¬ lo < 0 := by omega
  have b : ¬ hi < 0 := by omega
  have c : ¬ hi < lo := by omega
  simp only [Seq.slice, a, b, c, ↓reduceIte, Seq.sliceFwd]

theorem resize_locate_bytes_den (r : Reg) (m : Mod) (s : Seq) (hv : nonvoid r = true)
    (hb : denIn s.len (den r))
    (h0 : 0 ≤ (bounds m (len r)).1) (h1 : (bounds m (len r)).1 ≤ (bounds m (len r)).2)
    (h2 : (bounds m (len r)).2 ≤ len r) :
    (locate (resize r m) s).bytes =
      ((locate r s).bytes.drop (bounds m (len r)).1.toNat).take
        ((bounds m (len r)).2 - (bounds m (len r)).1).toNat := by
  have hd := (denLaw_of_nonvoid r hv).2 m h0 h1 h2
  have hb' : denIn s.len (den (resize r m)) := by
    intro p hp
    rw [hd, sliceDen] at hp
    exact hb p (List.mem_of_mem_drop (List.mem_of_mem_take hp))
  rw [locate_bytes_den _ s hb', locate_bytes_den r s hb, hd, sliceDen, List.map_take, List.map_drop]
end Gts.Reg
