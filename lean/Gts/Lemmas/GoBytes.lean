/-
  Lemmas about the translator's reading of Go's byte-slice operations (Gts/Gen/GoBytes.lean, fixed
  text): the checked operations at indices that are natural numbers, and the picture of a
  destination buffer `make([]byte, cap)` that is filled front to back by `copy` and single-byte
  stores (`bufOf cap s`: the stream `s` written so far, cut at `cap`, the rest still zero).
-/
import Gts.Gen.GoBytes
namespace Gts.Gen
open Gts.Pars (Bytes)

theorem goIndex_nat (p : Bytes) (n : Nat) : goIndex p (n : Int) = p[n]? := by
  simp only [goIndex, Int.toNat_natCast]
  rw [if_neg (by omega)]

theorem drop_of_getElem?_none {p : Bytes} {n : Nat} (h : p[n]? = none) : p.drop n = [] := by
  rw [List.drop_eq_nil_iff]; exact List.getElem?_eq_none_iff.mp h

theorem drop_of_getElem?_some {p : Bytes} {n : Nat} {c : UInt8} (h : p[n]? = some c) :
    p.drop n = c :: p.drop (n + 1) := by
  obtain ⟨hlt, rfl⟩ := List.getElem?_eq_some_iff.mp h
  exact List.drop_eq_getElem_cons hlt

theorem goSliceFrom_nat (p : Bytes) (n : Nat) (h : n ≤ p.length) : goSliceFrom p (n : Int) = some (p.drop n) := by
  simp only [goSliceFrom, Int.toNat_natCast]
  rw [if_pos (by omega)]

theorem goSliceTo_nat (p : Bytes) (n : Nat) (h : n ≤ p.length) : goSliceTo p (n : Int) = some (p.take n) := by
  simp only [goSliceTo, Int.toNat_natCast]
  rw [if_pos (by omega)]

theorem goSlice_nat (p : Bytes) (a b : Nat) (hab : a ≤ b) (hb : b ≤ p.length) :
    goSlice p (a : Int) (b : Int) = some ((p.drop a).take (b - a)) := by
  simp only [goSlice, Int.toNat_natCast]
  rw [if_pos (by omega)]

theorem goSlice_nat_none (p : Bytes) (a b : Nat) (hab : b < a) : goSlice p (a : Int) (b : Int) = none := by
  simp only [goSlice]
  rw [if_neg (by omega)]

theorem goMake_nat (n : Nat) : goMake (n : Int) = some (List.replicate n 0) := by
  simp only [goMake, Int.toNat_natCast]
  rw [if_neg (by omega)]

theorem goMake_neg (n : Int) (h : n < 0) : goMake n = none := by
  simp only [goMake]; rw [if_pos h]

/-! ### a buffer filled front to back -/

/-- the buffer `make([]byte, cap)` after the stream `s` was written to it front to back, every
write truncated at the end of the buffer -/
def bufOf (cap : Nat) (s : Bytes) : Bytes := s.take cap ++ List.replicate (cap - s.length) 0

/-- the write offset after the stream `s`: `len(s)`, stuck at the end of the buffer -/
def offOf (cap : Nat) (s : Bytes) : Nat := min s.length cap

@[simp] theorem bufOf_length (cap : Nat) (s : Bytes) : (bufOf cap s).length = cap := by
  simp only [bufOf, List.length_append, List.length_take, List.length_replicate]; omega

theorem bufOf_nil (cap : Nat) : bufOf cap [] = List.replicate cap 0 := by
  simp [bufOf]

theorem bufOf_take (cap : Nat) (s : Bytes) : bufOf cap (s.take cap) = bufOf cap s := by
  simp only [bufOf, List.take_take, Nat.min_self, List.length_take]
  congr 2; omega

theorem offOf_take (cap : Nat) (s : Bytes) : offOf cap (s.take cap) = offOf cap s := by
  simp only [offOf, List.length_take]; omega

theorem bufOf_of_length_le (cap : Nat) (s : Bytes) (h : s.length ≤ cap) :
    bufOf cap s = s ++ List.replicate (cap - s.length) 0 := by
  simp only [bufOf, List.take_of_length_le h]

theorem offOf_nil (cap : Nat) : offOf cap [] = 0 := by
  simp [offOf]

theorem bufOf_of_length_eq (cap : Nat) (s : Bytes) (h : s.length = cap) : bufOf cap s = s := by
  simp only [bufOf, h, Nat.sub_self, List.replicate_zero, List.append_nil]
  exact List.take_of_length_le (by omega)

/-- `n := copy(q[off:], x)` on the buffer after `s`: the buffer after `s ++ x`, and the offset
moves to the offset after `s ++ x` -/
theorem goCopyAt_bufOf (cap : Nat) (s x : Bytes) :
    goCopyAt (bufOf cap s) (offOf cap s : Int) x =
      some (bufOf cap (s ++ x), ((offOf cap (s ++ x) : Nat) : Int) - (offOf cap s : Int)) := by
  simp only [goCopyAt, bufOf_length, Int.toNat_natCast, offOf]
  rw [if_pos (by omega)]
  congr 1
  refine Prod.ext ?_ ?_
  · simp only [bufOf]
    apply List.ext_getElem?
    intro n
    simp only [List.getElem?_append, List.getElem?_take, List.getElem?_replicate, List.getElem?_drop,
      List.length_take, List.length_append, List.length_replicate]
    grind
  · simp only [List.length_append]; omega

/-- `q[off] = c` on the buffer after `s`, with room left: the buffer after `s ++ [c]` -/
theorem goStore_bufOf (cap : Nat) (s : Bytes) (c : UInt8) (h : s.length < cap) :
    goStore (bufOf cap s) (offOf cap s : Int) c = some (bufOf cap (s ++ [c])) := by
  simp only [goStore, bufOf_length, Int.toNat_natCast, offOf]
  rw [if_pos (by omega)]
  congr 1
  simp only [bufOf]
  apply List.ext_getElem?
  intro n
  simp only [List.getElem?_set, List.getElem?_append, List.getElem?_take, List.getElem?_replicate,
    List.length_take, List.length_append, List.length_replicate, List.length_cons, List.length_nil,
    List.getElem?_cons, List.getElem?_nil]
  grind

/-- `q[off] = c` on a full buffer: index out of range -/
theorem goStore_bufOf_full (cap : Nat) (s : Bytes) (c : UInt8) (h : cap ≤ s.length) :
    goStore (bufOf cap s) (offOf cap s : Int) c = none := by
  simp only [goStore, bufOf_length, offOf]
  rw [if_neg (by omega)]

theorem offOf_snoc (cap : Nat) (s : Bytes) (c : UInt8) (h : s.length < cap) :
    (offOf cap s : Int) + 1 = (offOf cap (s ++ [c]) : Int) := by
  simp only [offOf, List.length_append, List.length_cons, List.length_nil]; omega

theorem offOf_add_sub (cap : Nat) (s x : Bytes) :
    (offOf cap s : Int) + (((offOf cap (s ++ x) : Nat) : Int) - (offOf cap s : Int)) = (offOf cap (s ++ x) : Int) := by
  omega

theorem dropWhile_nil_iff {α : Type} (q : α → Bool) (l : List α) :
    l.dropWhile q = [] ↔ ∀ x ∈ l, q x = true := by
  induction l with
  | nil => simp
  | cons a l ih => simp only [List.dropWhile_cons]; split <;> simp_all

/-- `len(bytes.TrimRight(s, " ")) == 0`: nothing but blanks -/
theorem bytesTrimRight_blank (s : Bytes) :
    ((bytesTrimRight s [32]).length = 0) ↔ s.all (· == 32) = true := by
  simp only [bytesTrimRight, List.length_reverse, List.length_eq_zero_iff, dropWhile_nil_iff,
    List.mem_reverse, List.all_eq_true]
  constructor
  · intro h x hx; simpa using h x hx
  · intro h x hx; simpa using h x hx

end Gts.Gen
