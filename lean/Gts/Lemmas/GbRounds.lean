/-
  C07, "never hangs" (audit S4): PROGRESS of the record loop and the scan loop, stated so that a
  loop that spins is not a model of the statement.

  `recordLoop_fuel` (GbProgress) says: two fuels above the bytes left give the same outcome.  The
  model's answer when the fuel is used up is `fail` in the state as it is — an ordinary parse
  error — so a loop whose round neither ends nor consumes satisfies that statement too.  Here:

  * `recordRound` — ONE round of the loop of `GenBankParser` (the text of the body of `recordLoop`),
    answering "the loop ends with this value" / "another round";
  * `roundsLoop round` — the loop over a round with the fuel-out DISTINGUISHABLE: `none` = the fuel
    is used up, `some (outcome, final state, rounds taken)` = the loop ended by itself;
    `recordLoopF = roundsLoop recordRound`;
  * `recordLoop_step` / `recordLoopF_sound`: where `recordLoopF` ends by itself, `recordLoop` at the
    same fuel gives that outcome and state (the copy IS the loop); where it answers `none` the
    model's loop answers `fail`;
  * `recordRound_consumes`: a round that does not end the loop leaves strictly fewer bytes and a
    sorted state;  `roundsLoop_ends`: a loop whose rounds do that ends by itself within bytes-left + 1
    rounds;  `recordLoopF_ends` puts them together;
  * `recordRoundSpin` — the reviewer's mutant (the `.skip` branch without its `pars.Line`): fuel
    stable, and `roundsLoop recordRoundSpin` answers `none` at every fuel tried (Props/C07Fuel.lean);
  * the same for the scan loop: `parseAllF`, `parseAllF_sound`, `parseAllF_ends`.
  Core Lean only.
-/
import Gts.Lemmas.GbFuel
namespace Gts.GenBank
open Gts.Pars

/-- what one round of the record loop answers -/
inductive Round where
  | done (s : Sub)      -- the end mark was read: the loop ends with this value
  | more (s : Sub)      -- go round again with this value

/-- ONE ROUND of the loop of `GenBankParser`: the body of `recordLoop`, statement for statement;
the recursive calls are replaced by the answer "another round" (`recordLoop_step`). -/
def recordRound (length : Int) (depth : Nat) (s : Sub) : P Round := do
  match ← attempt endMark with
  | some _ => pure (.done s)
  | none =>
    match ← tryAll length depth s with
    | .parsed s' => pure (.more s')
    | .skip s' => do
      let _ ← line
      if (← getS).rest.isEmpty then fail          -- `errGenBankField`
      pure (.more s')

/-- THE MUTANT of audit finding S4: `recordRound` with the `pars.Line` of the `.skip` branch
removed (in Go: an unknown line is never skipped, the loop spins on it). -/
def recordRoundSpin (length : Int) (depth : Nat) (s : Sub) : P Round := do
  match ← attempt endMark with
  | some _ => pure (.done s)
  | none =>
    match ← tryAll length depth s with
    | .parsed s' => pure (.more s')
    | .skip s' => do
      if (← getS).rest.isEmpty then fail
      pure (.more s')

/-- the loop over a round, with the fuel-out DISTINGUISHABLE from every answer of the loop:
`none` = the fuel was used up before the loop ended; `some ((outcome, final state), rounds)` = the
loop ended by itself (end mark, or an error of the round) after `rounds` rounds. -/
def roundsLoop (round : Sub → P Round) : Nat → Sub → PS → Option ((Except Err Sub × PS) × Nat)
  | 0, _, _ => none
  | k + 1, sub, s =>
    match (round sub).run' s with
    | (.ok (.done sub'), s') => some ((.ok sub', s'), 1)
    | (.ok (.more sub'), s') => (roundsLoop round k sub' s').map fun x => (x.1, x.2 + 1)
    | (.error e, s') => some ((.error e, s'), 1)

/-- the record loop with the fuel-out distinguishable -/
def recordLoopF (length : Int) (depth : Nat) : Nat → Sub → PS → Option ((Except Err Sub × PS) × Nat) :=
  roundsLoop (recordRound length depth)

/-- the record loop of the mutant -/
def recordLoopSpinF (length : Int) (depth : Nat) : Nat → Sub → PS → Option ((Except Err Sub × PS) × Nat) :=
  roundsLoop (recordRoundSpin length depth)

/-- the input of the audit's demonstration: an unknown line, then the end mark; empty stack -/
def junkState : PS := ⟨bs "@@@ junk line\n//\n", []⟩

/-- the bytes left behind a round that answers "another round" (`none`: the round ended the loop) -/
def moreLeft : Except Err Round × PS → Option Nat
  | (.ok (.more _), s') => some s'.rest.length
  | _ => none

/-- `recordLoop` IS the loop over `recordRound`: one unfolding of the model's loop is one round,
then the loop with one fuel less -/
theorem recordLoop_step (length : Int) (depth : Nat) (k : Nat) (sub : Sub) (s : PS) :
    (recordLoop length depth (k + 1) sub).run' s =
      match (recordRound length depth sub).run' s with
      | (.ok (.done sub'), s') => (.ok sub', s')
      | (.ok (.more sub'), s') => (recordLoop length depth k sub').run' s'
      | (.error e, s') => (.error e, s') := by
  rw [recordLoop, recordRound, run_bind, run_bind]
  generalize (attempt endMark).run' s = x1
  rcases x1 with ⟨r1, s1⟩
  rcases r1 with e | o
  · rfl
  · dsimp only
    rcases o with _ | u
    · dsimp only
      rw [run_bind, run_bind]
      generalize (tryAll length depth sub).run' s1 = x2
      rcases x2 with ⟨r2, s2⟩
      rcases r2 with e | st
      · rfl
      · dsimp only
        cases st with
        | parsed sub' => rfl
        | skip sub' =>
          dsimp only
          rw [run_bind, run_bind, run_line]
          dsimp only
          rw [run_bind, run_bind, run_getS]
          dsimp only
          split <;> rfl
    · rfl

/-- THE COPY IS THE LOOP: whenever `recordLoopF` ends by itself — outcome `x`, `c` rounds — the
model's `recordLoop` at the same fuel gives exactly `x` (outcome and final state), and `c` is at most
the fuel -/
theorem recordLoopF_sound (length : Int) (depth : Nat) : ∀ (k : Nat) (sub : Sub) (s : PS) x c,
    recordLoopF length depth k sub s = some (x, c) →
      (recordLoop length depth k sub).run' s = x ∧ 1 ≤ c ∧ c ≤ k
  | 0, _, _, _, _, h => by cases h
  | k + 1, sub, s, x, c, h => by
    have ih := recordLoopF_sound length depth k
    rw [recordLoop_step]
    unfold recordLoopF at h ih
    rw [roundsLoop] at h
    generalize (recordRound length depth sub).run' s = y at h ⊢
    rcases y with ⟨r, s'⟩
    rcases r with e | rd
    · dsimp only at h ⊢
      cases h
      exact ⟨rfl, Nat.le_refl _, by omega⟩
    · cases rd with
      | done sub' =>
        dsimp only at h ⊢
        cases h
        exact ⟨rfl, Nat.le_refl _, by omega⟩
      | more sub' =>
        dsimp only at h ⊢
        rcases hr : roundsLoop (recordRound length depth) k sub' s' with _ | ⟨x', c'⟩
        · rw [hr] at h; cases h
        · rw [hr] at h
          cases h
          have := ih sub' s' x' c' hr
          exact ⟨this.1, by omega, by omega⟩

/-- … and where the copy answers "fuel used up", the model's loop answers `fail` (its fuel-out
answer, which an error of the input gives as well — the reason for the copy) -/
theorem recordLoopF_none (length : Int) (depth : Nat) : ∀ (k : Nat) (sub : Sub) (s : PS),
    recordLoopF length depth k sub s = none →
      ((recordLoop length depth k sub).run' s).1 = .error .fail
  | 0, _, _, _ => rfl
  | k + 1, sub, s, h => by
    have ih := recordLoopF_none length depth k
    rw [recordLoop_step]
    unfold recordLoopF at h ih
    rw [roundsLoop] at h
    generalize (recordRound length depth sub).run' s = y at h ⊢
    rcases y with ⟨r, s'⟩
    rcases r with e | rd
    · cases h
    · cases rd with
      | done sub' => cases h
      | more sub' =>
        dsimp only at h ⊢
        rcases hr : roundsLoop (recordRound length depth) k sub' s' with _ | x
        · exact ih sub' s' hr
        · rw [hr] at h; cases h

/-- EVERY ROUND THAT DOES NOT END THE LOOP CONSUMES: from a sorted state (positions leaked by
earlier parsers may lie on the stack), a round of the record loop that answers "another round" —
a field was parsed, or an unknown line was skipped — leaves STRICTLY fewer bytes, in a state that is
sorted again.  (`depth ≥ 1`; `genbankLocusParser` reports at least 5.) -/
theorem recordRound_consumes (length : Int) (d : Nat) (hd : 1 ≤ d) (sub sub' : Sub) (s s' : PS)
    (hs : Sorted s.rest.length s.stk)
    (h : (recordRound length d sub).run' s = (.ok (.more sub'), s')) :
    Sorted s'.rest.length s'.stk ∧ s'.rest.length < s.rest.length := by
  rw [recordRound, run_bind, run_attempt] at h
  have he := endMark_safeW.run hs (r := (endMark.run' s).1) (s' := (endMark.run' s).2) rfl
  rcases hrun : endMark.run' s with ⟨r0, s1⟩
  rw [hrun] at he h
  dsimp only at he
  rcases r0 with e | u
  · cases e
    · dsimp only at h
      rw [run_bind] at h
      rcases hta : (tryAll length d sub).run' s1 with ⟨r2, s2⟩
      have hp := tryAll_progress length d hd sub s1 he.2 r2 s2 hta
      rw [hta] at h
      rcases r2 with e | st
      · cases h
      · dsimp only at h
        cases st with
        | parsed sub1 =>
          dsimp only at h
          rw [run_pure] at h
          cases h
          have := hp.2.2 _ rfl
          exact ⟨hp.1, by omega⟩
        | skip sub1 =>
          dsimp only at h
          rw [run_bind, run_line] at h
          dsimp only at h
          rw [run_bind, run_getS] at h
          dsimp only at h
          split at h
          · run_dead h
          · rename_i hne
            rw [run_pure] at h
            cases h
            have hne2 : s2.rest ≠ [] := by
              intro h0
              apply hne
              rw [h0]; rfl
            have hlt := splitLine_lt s2.rest hne2
            have hle := hp.2.1
            refine ⟨hp.1.mono (Nat.le_of_lt hlt), ?_⟩
            show (Origin.splitLine s2.rest).2.length < s.rest.length
            omega
    · cases h
  · dsimp only at h
    rw [run_pure] at h
    cases h

/-- A LOOP WHOSE ROUNDS CONSUME ENDS BY ITSELF: if every round that answers "another round" from a
state meeting the invariant `I` leaves strictly fewer bytes and keeps `I`, then with more fuel than
bytes left `roundsLoop` does NOT answer "fuel used up", and it has taken at most bytes-left + 1
rounds. -/
theorem roundsLoop_ends (round : Sub → P Round) (I : PS → Prop)
    (hprog : ∀ sub sub' s s', I s → (round sub).run' s = (.ok (.more sub'), s') →
      I s' ∧ s'.rest.length < s.rest.length) :
    ∀ (k : Nat) (sub : Sub) (s : PS), I s → s.rest.length < k →
      ∃ x c, roundsLoop round k sub s = some (x, c) ∧ c ≤ s.rest.length + 1
  | 0, _, _, _, h => absurd h (Nat.not_lt_zero _)
  | k + 1, sub, s, hI, hk => by
    have ih := roundsLoop_ends round I hprog k
    rw [roundsLoop]
    rcases hr : (round sub).run' s with ⟨r, s'⟩
    rcases r with e | rd
    · exact ⟨_, 1, rfl, by omega⟩
    · cases rd with
      | done sub' => exact ⟨_, 1, rfl, by omega⟩
      | more sub' =>
        dsimp only
        have hp := hprog sub sub' s s' hI hr
        obtain ⟨x, c, hx, hc⟩ := ih sub' s' hp.1 (by omega)
        rw [hx]
        exact ⟨x, c + 1, rfl, by omega⟩

/-- the record loop ends by itself within bytes-left + 1 rounds -/
theorem recordLoopF_ends (length : Int) (d : Nat) (hd : 1 ≤ d) (k : Nat) (sub : Sub) (s : PS)
    (hs : Sorted s.rest.length s.stk) (hk : s.rest.length < k) :
    ∃ x c, recordLoopF length d k sub s = some (x, c) ∧ c ≤ s.rest.length + 1 :=
  roundsLoop_ends (recordRound length d) (fun s => Sorted s.rest.length s.stk)
    (fun sub sub' s s' hI h => recordRound_consumes length d hd sub sub' s s' hI h) k sub s hs hk

/-- a round that answers "another round" in the SAME state makes `roundsLoop` answer "fuel used up"
at every fuel: the statement `roundsLoop_ends` is false of a loop that spins -/
theorem roundsLoop_spins (round : Sub → P Round) (s : PS)
    (hspin : ∀ sub, ∃ sub', (round sub).run' s = (.ok (.more sub'), s)) :
    ∀ (k : Nat) (sub : Sub), roundsLoop round k sub s = none
  | 0, _ => rfl
  | k + 1, sub => by
    obtain ⟨sub', h⟩ := hspin sub
    rw [roundsLoop, h]
    dsimp only
    rw [roundsLoop_spins round s hspin k sub']
    rfl

/-! ### the scan loop -/

/-- `parseAll` with the fuel-out DISTINGUISHABLE (the model's `parseAll` answers "no more records,
not clean" both when a record fails and when the fuel is used up): `none` = fuel used up; otherwise
the answer of `parseAll` and the number of rounds (records read, plus the round that ended the scan) -/
def parseAllF (reg : Registry) : Nat → Bytes → List Record →
    Option (Option (List Record × Registry × Bool) × Nat)
  | 0, _, _ => none
  | k + 1, input, acc =>
    if input.isEmpty then some (some (acc.reverse, reg, true), 1)
    else
      match (genbankParser reg).run' ⟨input, []⟩ with
      | (.ok (r, reg'), s) => (parseAllF reg' k s.rest (r :: acc)).map fun x => (x.1, x.2 + 1)
      | (.error .fail, _) => some (some (acc.reverse, reg, false), 1)
      | (.error .panic, _) => some (none, 1)

/-- the copy is the scan loop: where `parseAllF` ends by itself, `parseAll` at the same fuel gives
that answer -/
theorem parseAllF_sound : ∀ (k : Nat) (reg : Registry) (input : Bytes) (acc : List Record) x c,
    parseAllF reg k input acc = some (x, c) → parseAll reg k input acc = x ∧ 1 ≤ c ∧ c ≤ k
  | 0, _, _, _, _, _, h => by cases h
  | k + 1, reg, input, acc, x, c, h => by
    unfold parseAllF at h
    unfold parseAll
    split at h
    · rename_i he
      rw [if_pos he]
      cases h
      exact ⟨rfl, Nat.le_refl _, by omega⟩
    · rename_i he
      rw [if_neg he]
      generalize (genbankParser reg).run' ⟨input, []⟩ = y at h ⊢
      rcases y with ⟨r, s'⟩
      rcases r with e | ⟨rec, reg'⟩
      · cases e
        · dsimp only at h ⊢
          cases h
          exact ⟨rfl, Nat.le_refl _, by omega⟩
        · dsimp only at h ⊢
          cases h
          exact ⟨rfl, Nat.le_refl _, by omega⟩
      · dsimp only at h ⊢
        rcases hr : parseAllF reg' k s'.rest (rec :: acc) with _ | ⟨x', c'⟩
        · rw [hr] at h; cases h
        · rw [hr] at h
          cases h
          have := parseAllF_sound k reg' s'.rest (rec :: acc) x' c' hr
          exact ⟨this.1, by omega, by omega⟩

/-- THE SCAN LOOP ENDS BY ITSELF: every record that is read has consumed at least the five bytes
of `LOCUS`, so with more fuel than bytes `parseAllF` does not answer "fuel used up", and the number
of rounds `c` satisfies `5·(c − 1) ≤ len(input)`: at most `len/5` records and the round that ends
the scan. -/
theorem parseAllF_ends : ∀ (k : Nat) (reg : Registry) (input : Bytes) (acc : List Record),
    input.length < k →
      ∃ x c, parseAllF reg k input acc = some (x, c) ∧ 5 * c ≤ input.length + 5
  | 0, _, _, _, h => absurd h (Nat.not_lt_zero _)
  | k + 1, reg, input, acc, hk => by
    unfold parseAllF
    split
    · exact ⟨_, 1, rfl, by omega⟩
    · have h := genbankParser_consumes reg ⟨input, []⟩ trivial
      unfold WP at h
      rcases hrun : (genbankParser reg).run' ⟨input, []⟩ with ⟨r, s'⟩
      rw [hrun] at h
      rcases r with e | ⟨rec, reg'⟩
      · cases e
        · exact ⟨_, 1, rfl, by omega⟩
        · exact ⟨_, 1, rfl, by omega⟩
      · dsimp only
        have := h _ rfl
        dsimp only at this
        obtain ⟨x, c, hx, hc⟩ := parseAllF_ends k reg' s'.rest (rec :: acc) (by omega)
        rw [hx]
        exact ⟨x, c + 1, rfl, by omega⟩

end Gts.GenBank
