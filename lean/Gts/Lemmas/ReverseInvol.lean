/-
  `Location.Reverse` twice (C05): structurally the identity on a canonical location when no `Join`
  of the first reversal reduces (`reverseStable`), and on denotations whenever K2 fires in neither
  reversal.
-/
import Gts.Lemmas.Reverse
import Gts.Lemmas.LocRoundTrip
import Gts.Lemmas.Record
import Gts.Lemmas.Table
import Gts.Spec.ReverseGuard
namespace Gts
namespace Loc

theorem any_isOrderedC_map_congr (f : Loc → Loc) (ls : List Loc)
    (h : ∀ l ∈ ls, isOrderedC (f l) = isOrderedC l) :
    (ls.map f).any isOrderedC = ls.any isOrderedC := by
  induction ls with
  | nil => rfl
  | cons l ls ih =>
    simp only [List.map_cons, List.any_cons, h l (List.mem_cons_self ..),
      ih fun l' hl' => h l' (List.mem_cons_of_mem _ hl')]

/-- `Reverse` of the mirrored list of reversed parts, mirrored again: the parts reversed twice -/
theorem reverseList_reverse_reverseList (ls : List Loc) (L : Int) :
    (reverseList (reverseList ls L).reverse L).reverse = reverseList (reverseList ls L) L := by
  simp only [reverseList_eq_map, List.map_reverse, List.reverse_reverse]

theorem reverseList_length (ls : List Loc) (L : Int) : (reverseList ls L).length = ls.length := by
  simp [reverseList_eq_map]

mutual
/-- structural involution, with the invariant the `Ordered` case needs (a part that is no
`Ordered` does not reverse into one) -/
theorem reverse_reverse_aux : ∀ (l : Loc) (L : Int), canonP l = true → reverseStable l L = true →
    reverse (reverse l L) L = l ∧ isOrderedC (reverse l L) = isOrderedC l
  | between p, L, _, _ => by
      refine ⟨?_, rfl⟩
      simp only [reverse]; congr 1; omega
  | point p, L, _, _ => by
      refine ⟨?_, rfl⟩
      simp only [reverse]; congr 1; omega
  | ranged s e a b, L, _, _ => by
      refine ⟨?_, rfl⟩
      simp only [reverse, rangedReverse]
      congr 1 <;> omega
  | ambiguous s e, L, _, _ => by
      refine ⟨?_, rfl⟩
      simp only [reverse]
      congr 1 <;> omega
  | joined ls, L, hc, hs => by
      simp only [canonP, Bool.and_eq_true] at hc
      simp only [reverseStable, Bool.and_eq_true] at hs
      obtain ⟨⟨⟨hcl, _⟩, _⟩, hj⟩ := hc
      have ih := reverseList_reverseList_aux ls L hcl hs.1
      have e1 : reverse (joined ls) L = joined (reverseList ls L).reverse := by
        simp only [reverse]; exact beq_eq _ _ hs.2
      refine ⟨?_, by rw [e1]; rfl⟩
      rw [e1]
      simp only [reverse]
      rw [reverseList_reverse_reverseList, ih.1]
      exact beq_eq _ _ hj
  | ordered ls, L, hc, hs => by
      simp only [canonP, Bool.and_eq_true, decide_eq_true_eq, Bool.not_eq_true'] at hc
      simp only [reverseStable] at hs
      obtain ⟨⟨hcl, h2⟩, hno⟩ := hc
      have ih := reverseList_reverseList_aux ls L hcl hs
      have hno' : (reverseList ls L).reverse.any isOrderedC = false := by
        rw [List.any_reverse, ih.2]; exact hno
      have h2' : 2 ≤ (reverseList ls L).reverse.length := by
        rw [List.length_reverse, reverseList_length]; exact h2
      have e1 : reverse (ordered ls) L = ordered (reverseList ls L).reverse := by
        simp only [reverse]; exact order_of_canon _ h2' hno'
      refine ⟨?_, by rw [e1]; rfl⟩
      rw [e1]
      simp only [reverse]
      rw [reverseList_reverse_reverseList, ih.1]
      exact order_of_canon _ h2 hno
  | compl l, L, hc, hs => by
      simp only [canonP, Bool.and_eq_true] at hc
      simp only [reverseStable] at hs
      have ih := reverse_reverse_aux l L hc.1 hs
      refine ⟨?_, rfl⟩
      simp only [reverse]
      rw [ih.1]
theorem reverseList_reverseList_aux : ∀ (ls : List Loc) (L : Int), canonPList ls = true →
    reverseStableList ls L = true →
    reverseList (reverseList ls L) L = ls ∧ (reverseList ls L).any isOrderedC = ls.any isOrderedC
  | [], _, _, _ => by simp [reverseList]
  | l :: ls, L, hc, hs => by
      simp only [canonPList, Bool.and_eq_true] at hc
      simp only [reverseStableList, Bool.and_eq_true] at hs
      have h1 := reverse_reverse_aux l L hc.1 hs.1
      have h2 := reverseList_reverseList_aux ls L hc.2 hs.2
      simp only [reverseList, List.any_cons, h1.1, h1.2, h2.1, h2.2, and_self]
end

/-- **structural involution**: on a canonical location none of whose joins reduces under the first
reversal, `Reverse` twice is the identity -/
theorem reverse_reverse (l : Loc) (L : Int) (hc : canonP l = true) (hs : reverseStable l L = true) :
    reverse (reverse l L) L = l := (reverse_reverse_aux l L hc hs).1

/-- **denotation-level involution**: when K2 fires in neither reversal, the twice reversed
location denotes the residues of `l` in the same order on the same strands, a residue read more
than once possibly fewer times -/
theorem reverse_reverse_den (l : Loc) (L : Int) (hw : wf l = true)
    (h1 : reverseAbs l L = false) (h2 : reverseAbs (reverse l L) L = false) :
    den (reverse (reverse l L) L) ≼ den l := by
  have a := reverse_mirror l L hw
  have b := (reverse_mirror (reverse l L) L a.2).1 h2
  have c := b.trans ((a.1 h1).mirror L)
  rwa [mirrorDen_mirrorDen] at c

theorem reverse_reverse_wf (l : Loc) (L : Int) (hw : wf l = true) :
    wf (reverse (reverse l L) L) = true :=
  (reverse_mirror (reverse l L) L (reverse_mirror l L hw).2).2

end Loc

namespace Seq

theorem reverse_len (s : Seq) : s.reverse.len = s.len := by
  simp [Seq.reverse, Seq.len]

/-- the table of the twice reversed record: every feature re-located by `Reverse(len)` twice -/
theorem reverse_reverse_feats_perm (s : Seq) :
    s.reverse.reverse.feats.Perm
      (s.feats.map fun f => { f with loc := (f.loc.reverse s.len).reverse s.len }) := by
  have h1 : s.reverse.feats.Perm (s.feats.map fun f => { f with loc := f.loc.reverse s.len }) := by
    unfold Seq.reverse
    simpa using Table.insertAll_perm [] (s.feats.map fun f => { f with loc := f.loc.reverse s.len })
  have h2 : s.reverse.reverse.feats.Perm
      (s.reverse.feats.map fun f => { f with loc := f.loc.reverse s.reverse.len }) := by
    generalize s.reverse = t
    unfold Seq.reverse
    simpa using Table.insertAll_perm [] (t.feats.map fun f => { f with loc := f.loc.reverse t.len })
  rw [reverse_len] at h2
  have h3 := h1.map (fun f : Feature => { f with loc := f.loc.reverse s.len })
  rw [List.map_map] at h3
  exact h2.trans h3

end Seq
end Gts
