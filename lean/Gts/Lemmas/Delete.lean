/-
  `Location.Expand(i, -k)` (deletion of `[i, i+k)`): the denotation is filtered and re-mapped
  by `delMap`.  Core Lean only.
-/
import Gts.Lemmas.Contig
import Gts.Lemmas.Order
namespace Gts
namespace Loc

theorem den_pointExpand_del (p i k : Int) (hk : 0 < k) :
    den (pointExpand p i (-k)) = filterMapPos (delMap i k) (den (point p)) := by
  unfold pointExpand
  by_cases h : -k < 0 ∧ i ≤ p ∧ p < i - -k
  · rw [if_pos h]
    have h1 : ¬ p < i := by omega
    have h2 : p < i + k := by omega
    simp [filterMapPos, delMap, h1, h2]
  · rw [if_neg h]
    simp only [den_point, filterMapPos, delMap, List.filterMap_cons, List.filterMap_nil, gmax_eq_max]
    by_cases h1 : p < i
    · simp [h1]; omega
    · have h2 : ¬ p < i + k := by omega
      simp [h1, h2]
      omega

/-- the new bounds of a range under deletion -/
def delStart (s i k : Int) : Int := if i < s then max i (s - k) else s
def delEnd (e i k : Int) : Int := if i ≤ e then max i (e - k) else e

theorem filterMap_delMap_irange (s e i k : Int) (h : s < e) (hk : 0 < k) :
    (irange s (e - s).toNat).filterMap (delMap i k)
      = irange (delStart s i k) (delEnd e i k - delStart s i k).toNat := by
  apply sorted_ext (delMap_irange_pairwise i k (by omega) _ _) (irange_pairwise _ _)
  intro x
  rw [mem_filterMap_delMap, mem_irange]
  unfold delStart delEnd
  constructor
  · rintro ⟨a, h1, h2, h3⟩
    unfold delMap at h3
    by_cases ha : a < i
    · rw [if_pos ha] at h3
      cases h3
      split <;> split <;> omega
    · rw [if_neg ha] at h3
      by_cases hb : a < i + k
      · rw [if_pos hb] at h3; cases h3
      · rw [if_neg hb] at h3
        cases h3
        split <;> split <;> omega
  · intro hx
    by_cases hxi : x < i
    · refine ⟨x, ?_, ?_, by unfold delMap; rw [if_pos hxi]⟩
      · revert hx; split <;> split <;> omega
      · revert hx; split <;> split <;> omega
    · refine ⟨x + k, ?_, ?_, ?_⟩
      · revert hx; split <;> split <;> omega
      · revert hx; split <;> split <;> omega
      · unfold delMap
        rw [if_neg (by omega), if_neg (by omega)]
        congr 1; omega

theorem rangedExpand_del_eq (s e : Int) (p5 p3 : Bool) (i k : Int) (hk : 0 < k) :
    rangedExpand s e p5 p3 i (-k) =
      if delStart s i k = delEnd e i k then between (delStart s i k)
      else ranged (delStart s i k) (delEnd e i k)
        (if i ≤ s ∧ s < i + k then true else p5) (if i < e ∧ e ≤ i + k then true else p3) := by
  unfold rangedExpand delStart delEnd
  rw [if_neg (by omega)]
  simp only [gmax_eq_max]
  have e1 : (0 ≤ -k ∧ i ≤ s ∨ -k < 0 ∧ i < s) ↔ i < s := by constructor <;> intro h <;> omega
  have e2 : (0 ≤ -k ∧ i < e ∨ -k < 0 ∧ i ≤ e) ↔ i ≤ e := by constructor <;> intro h <;> omega
  have e3 : (-k < 0 ∧ i ≤ s ∧ s < i - -k) ↔ (i ≤ s ∧ s < i + k) := by constructor <;> intro h <;> omega
  have e4 : (-k < 0 ∧ i < e ∧ e ≤ i - -k) ↔ (i < e ∧ e ≤ i + k) := by constructor <;> intro h <;> omega
  simp only [e1, e2, e3, e4]
  have e5 : s + -k = s - k := by omega
  have e6 : e + -k = e - k := by omega
  rw [e5, e6]

theorem den_rangedExpand_del (s e : Int) (p5 p3 : Bool) (i k : Int) (h : s < e) (hk : 0 < k) :
    den (rangedExpand s e p5 p3 i (-k)) = filterMapPos (delMap i k) (den (ranged s e p5 p3)) := by
  rw [rangedExpand_del_eq _ _ _ _ _ _ hk, den_ranged, filterMapPos_fwd, filterMap_delMap_irange s e i k h hk]
  split
  · rename_i heq
    simp [heq, fwd]
  · simp

theorem ambiguousExpand_del_eq (s e i k : Int) (hk : 0 < k) :
    ambiguousExpand s e i (-k) =
      if delStart s i k = delEnd e i k then between (delStart s i k)
      else ambiguous (delStart s i k) (delEnd e i k) := by
  unfold ambiguousExpand delStart delEnd
  rw [if_neg (by omega)]
  simp only [gmax_eq_max]
  have e1 : (0 ≤ -k ∧ i ≤ s ∨ -k < 0 ∧ i < s) ↔ i < s := by constructor <;> intro h <;> omega
  have e2 : (0 ≤ -k ∧ i < e ∨ -k < 0 ∧ i ≤ e) ↔ i ≤ e := by constructor <;> intro h <;> omega
  simp only [e1, e2]
  have e5 : s + -k = s - k := by omega
  have e6 : e + -k = e - k := by omega
  rw [e5, e6]

theorem den_ambiguousExpand_del (s e i k : Int) (h : s < e) (hk : 0 < k) :
    den (ambiguousExpand s e i (-k)) = filterMapPos (delMap i k) (den (ambiguous s e)) := by
  rw [ambiguousExpand_del_eq _ _ _ _ hk, den_ambiguous, filterMapPos_fwd, filterMap_delMap_irange s e i k h hk]
  split
  · rename_i heq
    simp [heq, fwd]
  · simp

theorem delStart_le_delEnd (s e i k : Int) (h : s < e) (hk : 0 < k) : delStart s i k ≤ delEnd e i k := by
  unfold delStart delEnd; split <;> split <;> omega

theorem wf_rangedExpand_del (s e : Int) (a b : Bool) (i k : Int) (h : s < e) (hk : 0 < k) :
    wf (rangedExpand s e a b i (-k)) = true := by
  rw [rangedExpand_del_eq _ _ _ _ _ _ hk]
  have := delStart_le_delEnd s e i k h hk
  split
  · simp [wf]
  · simp only [wf, decide_eq_true_eq]; omega

theorem wf_ambiguousExpand_del (s e i k : Int) (h : s < e) (hk : 0 < k) :
    wf (ambiguousExpand s e i (-k)) = true := by
  rw [ambiguousExpand_del_eq _ _ _ _ hk]
  have := delStart_le_delEnd s e i k h hk
  split
  · simp [wf]
  · simp only [wf, decide_eq_true_eq]; omega

theorem filterMapPos_refines {a b : List Pos} (f : Int → Option Int) (h : a ≼ b) :
    filterMapPos f a ≼ filterMapPos f b := h.filterMap _

mutual
/-- Delete: every location keeps exactly its surviving residues (re-mapped), unless K2 fires. -/
theorem expand_del : ∀ (l : Loc) (i k : Int), wf l = true → 0 < k →
    (expandAbs l i (-k) = false → den (expand l i (-k)) ≼ filterMapPos (delMap i k) (den l)) ∧
    wf (expand l i (-k)) = true
  | between p, i, k, _, _ => by simp [expand, den_betweenExpand, wf_betweenExpand, Refines.refl]
  | point p, i, k, _, hk => by
      simp only [expand, wf_pointExpand, and_true]
      intro _; exact Refines.of_eq (den_pointExpand_del p i k hk)
  | ranged s e a b, i, k, hw, hk => by
      have h : s < e := by simpa [wf] using hw
      simp only [expand, wf_rangedExpand_del s e a b i k h hk, and_true]
      intro _; exact Refines.of_eq (den_rangedExpand_del s e a b i k h hk)
  | ambiguous s e, i, k, hw, hk => by
      have h : s < e := by simpa [wf] using hw
      simp only [expand, wf_ambiguousExpand_del s e i k h hk, and_true]
      intro _; exact Refines.of_eq (den_ambiguousExpand_del s e i k h hk)
  | joined ls, i, k, hw, hk => by
      have ih := expandList_del ls i k (by simpa [wf] using hw) hk
      refine ⟨?_, join_wf _ ih.2⟩
      intro ha
      simp only [expandAbs, Bool.or_eq_false_iff] at ha
      simp only [expand, den_joined]
      exact (join_den _ ih.2 ha.2).trans (ih.1 ha.1)
  | ordered ls, i, k, hw, hk => by
      have ih := expandList_del ls i k (by simpa [wf] using hw) hk
      refine ⟨?_, order_wf _ ih.2⟩
      intro ha
      simp only [expandAbs] at ha
      simp only [expand, den_ordered, order_den]
      exact ih.1 ha
  | compl l, i, k, hw, hk => by
      have ih := expand_del l i k (by simpa [wf] using hw) hk
      refine ⟨?_, by simpa [expand, wf] using ih.2⟩
      intro ha
      simp only [expandAbs] at ha
      simp only [expand, den_compl, filterMapPos_flipDen]
      exact (ih.1 ha).flip
theorem expandList_del : ∀ (ls : List Loc) (i k : Int), wfList ls = true → 0 < k →
    (expandAbsList ls i (-k) = false →
      denList (expandList ls i (-k)) ≼ filterMapPos (delMap i k) (denList ls)) ∧
    wfList (expandList ls i (-k)) = true
  | [], _, _, _, _ => by simp [expandList, Refines.refl]
  | l :: ls, i, k, hw, hk => by
      simp only [wfList_cons, Bool.and_eq_true] at hw
      have h1 := expand_del l i k hw.1 hk
      have h2 := expandList_del ls i k hw.2 hk
      refine ⟨?_, by simp [expandList, h1.2, h2.2]⟩
      intro ha
      simp only [expandAbsList, Bool.or_eq_false_iff] at ha
      simp only [expandList, denList_cons, filterMapPos_append]
      exact (h1.1 ha.1).append (h2.1 ha.2)
end

end Loc
end Gts
