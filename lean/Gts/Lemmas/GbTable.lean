/-
  C01 helper lemmas: the qualifier lines of one feature (`pars.Many(QualifierParser)`), with the
  registry threaded through: names learned on the way do not change how the rest of the text
  (written under the initial registry) is read.  Core Lean only.
-/
import Gts.Lemmas.GbQualifier
namespace Gts.GenBank
open Gts.Pars

theorem byte_cases (p : UInt8 → Prop) (h : ∀ n : Fin 256, p (UInt8.ofNat n.1)) (c : UInt8) : p c := by
  have := h ⟨c.toNat, c.toNat_lt⟩
  simpa using this

set_option maxRecDepth 4000 in
theorem snake_not_space (c : UInt8) : isSnake c = true → isSpace c = false := by
  revert c; apply byte_cases; decide +kernel

set_option maxRecDepth 4000 in
theorem snake_ne_blank (c : UInt8) : isSnake c = true → c ≠ 32 := by
  revert c; apply byte_cases; decide +kernel

/-! ### registries that write the same text -/

/-- `b` is `a` with some of `a`'s unknown names registered as quoted: both write every qualifier
the same way -/
def sameText (a b : Registry) : Prop :=
  ∀ m, b.typeOf m = a.typeOf m ∨ (a.typeOf m = .unknown ∧ b.typeOf m = .quoted)

theorem sameText_refl (a : Registry) : sameText a a := fun _ => Or.inl rfl

theorem typeOf_addQuoted (reg : Registry) (n m : Bytes) :
    (reg.addQuoted n).typeOf m = if m = n then .quoted else reg.typeOf m := by
  unfold Registry.typeOf Registry.addQuoted
  by_cases h : m = n
  · simp [h]
  · simp [h]

theorem sameText_learn (a b : Registry) (n : Bytes) (h : sameText a b) : sameText a (learn b n) := by
  intro m
  unfold learn
  by_cases hu : b.typeOf n = .unknown
  · rw [if_pos hu, typeOf_addQuoted]
    by_cases hm : m = n
    · subst hm
      rw [if_pos rfl]
      rcases h m with h1 | ⟨_, h2⟩
      · right; exact ⟨by rw [← h1, hu], rfl⟩
      · rw [hu] at h2; cases h2
    · rw [if_neg hm]; exact h m
  · rw [if_neg hu]; exact h m

theorem qualifierText_same (a b : Registry) (h : sameText a b) (n v : Bytes) :
    qualifierText b n v = qualifierText a n v := by
  unfold qualifierText
  rcases h n with h1 | ⟨h1, h2⟩
  · rw [h1]
  · rw [h1, h2]

theorem qualifierFmt_same (a b : Registry) (h : sameText a b) (pre n v : Bytes) :
    qualifierFmt b pre n v = qualifierFmt a pre n v := by
  unfold qualifierFmt; rw [qualifierText_same a b h]

theorem writable_same (a b : Registry) (h : sameText a b) (d : Nat) (n v : Bytes) :
    WritableQualifier b d n v = WritableQualifier a d n v := by
  unfold WritableQualifier
  rcases h n with h1 | ⟨h1, h2⟩
  · rw [h1]
  · rw [h1, h2]

theorem readValue_same (a b : Registry) (h : sameText a b) (n v : Bytes) :
    readValue b n v = readValue a n v := by
  unfold readValue
  rcases h n with h1 | ⟨h1, h2⟩
  · rw [h1]
  · rw [h1, h2]; simp

/-! ### `pars.Many(QualifierParser(prefix))` -/

/-- the qualifier lines of a feature as they stand in the file -/
def qualLines (reg : Registry) (d : Nat) (items : List (Bytes × Bytes)) : Bytes :=
  items.flatMap fun kv => qualifierFmt reg (sp d) kv.1 kv.2 ++ [10]

theorem qualLines_cons (reg : Registry) (d : Nat) (kv : Bytes × Bytes) (items : List (Bytes × Bytes)) :
    qualLines reg d (kv :: items) = qualifierFmt reg (sp d) kv.1 kv.2 ++ 10 :: qualLines reg d items := by
  simp [qualLines, List.flatMap_cons]

/-- every registry step of reading the items -/
def learnAll (reg : Registry) (items : List (Bytes × Bytes)) : Registry :=
  items.foldl (fun r kv => learn r kv.1) reg

theorem sameText_learnAll (a b : Registry) (items : List (Bytes × Bytes)) (h : sameText a b) :
    sameText a (learnAll b items) := by
  induction items generalizing b with
  | nil => exact h
  | cons kv items ih => exact ih (learn b kv.1) (sameText_learn a b kv.1 h)

theorem le_trans' {a b c : Registry} (h1 : a.le b) (h2 : b.le c) : a.le c :=
  ⟨fun n hn => h2.1 n (h1.1 n hn), fun n hn => h2.2.1 n (h1.2.1 n hn), fun n hn => h2.2.2 n (h1.2.2 n hn)⟩

theorem le_refl' (a : Registry) : a.le a := ⟨fun _ h => h, fun _ h => h, fun _ h => h⟩

theorem learnAll_le (reg : Registry) (items : List (Bytes × Bytes)) : reg.le (learnAll reg items) := by
  induction items generalizing reg with
  | nil => exact le_refl' reg
  | cons kv items ih => exact le_trans' (learn_le reg kv.1) (ih (learn reg kv.1))

theorem qualLines_length_ge (reg : Registry) (d : Nat) (items : List (Bytes × Bytes)) :
    items.length ≤ (qualLines reg d items).length := by
  induction items with
  | nil => simp [qualLines]
  | cons kv items ih => rw [qualLines_cons]; simp only [List.length_append, List.length_cons]; omega

/-- the next qualifier line starts with the indent and a slash: a literal value stops there -/
theorem litStop_qualLines (reg : Registry) (d : Nat) (kv : Bytes × Bytes) (items : List (Bytes × Bytes))
    (rest : Bytes) : litStop d (qualLines reg d (kv :: items) ++ rest) := by
  right; right
  rw [qualLines_cons]
  unfold qualifierFmt qualifierText
  cases reg.typeOf kv.1 <;> simp [addPrefix] <;> exact ⟨_, rfl⟩

theorem sp_slash_prefix_false (d : Nat) (rest : Bytes) (h : (sp d).isPrefixOf rest = false) :
    (sp d ++ [47]).isPrefixOf rest = false := by
  induction d generalizing rest with
  | zero => simp [sp] at h
  | succ d ih =>
    rw [sp_succ] at h ⊢
    cases rest with
    | nil => rfl
    | cons c r =>
      simp only [List.cons_append, List.isPrefixOf] at h ⊢
      by_cases hc : (32 : UInt8) = c
      · subst hc
        simp only [beq_self_eq_true, Bool.true_and] at h ⊢
        exact ih r h
      · have : ((32 : UInt8) == c) = false := by simpa using hc
        simp [this]

/-- **Qualifier lines round trip.**  The items written under `reg0` are read under any registry
`reg` that writes the same text; what follows must not start with the indent. -/
theorem qualifiers_roundtrip (reg0 : Registry) (d : Nat) (items : List (Bytes × Bytes)) (rest : Bytes)
    (stk : List Bytes) (reg : Registry) (acc : List (Bytes × Bytes)) (f : Nat)
    (hs : sameText reg0 reg)
    (hw : ∀ kv ∈ items, WritableQualifier reg0 d kv.1 kv.2 = true)
    (hrest : (sp d).isPrefixOf rest = false) (hf : items.length < f) :
    qualifiers (sp d) f reg acc ⟨qualLines reg0 d items ++ rest, stk⟩ =
      (.ok (acc.reverse ++ items.map (fun kv => (kv.1, readValue reg0 kv.1 kv.2)), learnAll reg items),
        ⟨rest, stk⟩) := by
  induction items generalizing reg acc f with
  | nil =>
    cases f with
    | zero => omega
    | succ f =>
      have hl := lit_fail (sp d ++ [47]) rest stk (sp_slash_prefix_false d rest hrest)
      gsimp [qualifiers, qualLines, qualifier, qualifierName, hl, learnAll]
  | cons kv items ih =>
    cases f with
    | zero => omega
    | succ f =>
      have hw1 : WritableQualifier reg d kv.1 kv.2 = true := by
        rw [writable_same reg0 reg hs]; exact hw kv (by simp)
      have hstop : litStop d (qualLines reg0 d items ++ rest) := by
        cases items with
        | nil => left; simpa [qualLines] using hrest
        | cons kv' items' => exact litStop_qualLines reg0 d kv' items' rest
      have hq := qualifier_roundtrip reg d kv.1 kv.2 (qualLines reg0 d items ++ rest) stk hw1 hstop
      rw [qualifierFmt_same reg0 reg hs, readValue_same reg0 reg hs] at hq
      rw [qualLines_cons]
      simp only [List.append_assoc, List.cons_append]
      simp only [qualifiers, P.bind_run, attempt_run, hq]
      rw [ih (learn reg kv.1) ((kv.1, readValue reg0 kv.1 kv.2) :: acc) f (sameText_learn reg0 reg kv.1 hs)
        (fun x hx => hw x (by simp [hx])) (by simp only [List.length_cons] at hf; omega)]
      simp [learnAll]

end Gts.GenBank
