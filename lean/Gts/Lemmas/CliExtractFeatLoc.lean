/-
  Location-level lemmas behind the FEATURE clause of `gts extract` (C15): what the steps of
  `Region.Locate` — `gts.Slice` (two `Expand`s, `asComplete` for `source`), `gts.Complement`,
  `gts.Reverse`, and the `Expand(0, offset)` of `gts.Concat` — do to a feature location whose
  coordinates lie inside the record (`coordsWithin`).

  `Between.Reverse` is off by one (known finding K1): a between-site at the right end of a window of
  length `W` becomes `between (-1)`.  So after `Reverse` only the residue-bearing leaves are known
  to have non-negative coordinates (`nonnegR`); the translation law of `Expand(0, k)`
  (`Gts/Lemmas/Guest.lean`, stated there for `nonneg`) is re-proved here for `nonnegR` — a
  between-site denotes no residue and `Shift` / `Expand` agree on it whatever its sign.
  Core Lean only.
-/
import Gts.Lemmas.Guest
import Gts.Lemmas.MarksCoords
import Gts.Lemmas.MarksDelAll
import Gts.Lemmas.Reverse
import Gts.Lemmas.Window
import Gts.Lemmas.Record
namespace Gts
namespace Loc

/-! ### `nonnegR`: residue-bearing leaves start at a non-negative position -/

/-- the leaf form of `nonnegR`: like `leafNonneg`, but a between-site may lie anywhere -/
def leafNonnegR : Loc → Bool
  | point p => decide (0 ≤ p)
  | ranged s _ _ _ => decide (0 ≤ s)
  | ambiguous s _ => decide (0 ≤ s)
  | _ => true

/-- every point, range and ambiguous span starts at a position `≥ 0` (decidable) -/
def nonnegR (l : Loc) : Bool := allLeaves leafNonnegR l

theorem mergeOK_leafNonnegR : MergeOK leafNonnegR := by
  intro vs ve ue v5 v3 u5 u3 h1 _
  simpa [leafNonnegR] using h1

theorem nonnegR_of_nonneg (l : Loc) (h : nonneg l = true) : nonnegR l = true := by
  unfold nonnegR
  rw [nonneg_eq, allLeaves_eq_all, List.all_eq_true] at h
  rw [allLeaves_eq_all, List.all_eq_true]
  intro u hu
  have := h u hu
  cases u <;> simp_all [leafNonneg, leafNonnegR]

/-- a location inside `[0, L]` has `nonnegR` -/
theorem nonnegR_of_within (l : Loc) (L : Int) (h : allLeaves (leafWithin L) l = true) :
    nonnegR l = true :=
  nonnegR_of_nonneg l (nonneg_of_coordsWithin l L (by rw [coordsWithin_eq]; exact h))

mutual
theorem expand0_eq_shift0R : ∀ (l : Loc) (k : Int), wf l = true → allLeaves leafNonnegR l = true → 0 ≤ k →
    expand l 0 k = shift l 0 k
  | between p, k, _, _, _ => by simp [expand, shift]
  | point p, k, _, _, _ => by simp [expand, shift]
  | ranged s e a b, k, hw, hn, hk => by
      have h : s < e := by simpa [wf] using hw
      have h0 : 0 ≤ s := by simpa [leafNonnegR] using hn
      simp only [expand, shift]
      by_cases hk0 : k = 0
      · subst hk0; simp [rangedExpand, rangedShift]
      · have hkp : 0 < k := by omega
        have h1 : ¬ k < 0 := by omega
        have h2 : ¬ (s < 0 ∧ 0 < e) := by omega
        rw [rangedExpand_ins_eq s e a b 0 k h hkp]
        unfold rangedShift
        rw [if_neg hk0, if_neg h1, if_neg h2]
  | ambiguous s e, k, hw, hn, hk => by
      have h : s < e := by simpa [wf] using hw
      have h0 : 0 ≤ s := by simpa [leafNonnegR] using hn
      simp only [expand, shift]
      by_cases hk0 : k = 0
      · subst hk0; simp [ambiguousExpand, ambiguousShift]
      · have hkp : 0 < k := by omega
        have h1 : ¬ k < 0 := by omega
        have h2 : ¬ (s < 0 ∧ 0 < e) := by omega
        rw [ambiguousExpand_ins_eq s e 0 k h hkp]
        unfold ambiguousShift
        rw [if_neg hk0, if_neg h1, if_neg h2]
  | joined ls, k, hw, hn, hk => by
      simp only [expand, shift]
      rw [expandList0_eq_shiftList0R ls k (by simpa [wf] using hw) (by simpa using hn) hk]
  | ordered ls, k, hw, hn, hk => by
      simp only [expand, shift]
      rw [expandList0_eq_shiftList0R ls k (by simpa [wf] using hw) (by simpa using hn) hk]
  | compl l, k, hw, hn, hk => by
      simp only [expand, shift]
      rw [expand0_eq_shift0R l k (by simpa [wf] using hw) (by simpa using hn) hk]
theorem expandList0_eq_shiftList0R : ∀ (ls : List Loc) (k : Int), wfList ls = true →
    allLeavesList leafNonnegR ls = true → 0 ≤ k → expandList ls 0 k = shiftList ls 0 k
  | [], _, _, _, _ => by simp [expandList, shiftList]
  | l :: ls, k, hw, hn, hk => by
      simp only [wfList_cons, Bool.and_eq_true] at hw
      simp only [allLeavesList_cons, Bool.and_eq_true] at hn
      simp only [expandList, shiftList]
      rw [expand0_eq_shift0R l k hw.1 hn.1 hk, expandList0_eq_shiftList0R ls k hw.2 hn.2 hk]
end

mutual
theorem den_nonnegR : ∀ (l : Loc), wf l = true → allLeaves leafNonnegR l = true → ∀ p ∈ den l, 0 ≤ p.1
  | between _, _, _ => by simp
  | point q, _, hn => by
      have : 0 ≤ q := by simpa [leafNonnegR] using hn
      simp; omega
  | ranged s e _ _, _, hn => by
      have h0 : 0 ≤ s := by simpa [leafNonnegR] using hn
      intro p hp
      simp only [den_ranged, fwd, List.mem_map] at hp
      obtain ⟨x, hx, rfl⟩ := hp
      rw [mem_irange] at hx; simp; omega
  | ambiguous s e, _, hn => by
      have h0 : 0 ≤ s := by simpa [leafNonnegR] using hn
      intro p hp
      simp only [den_ambiguous, fwd, List.mem_map] at hp
      obtain ⟨x, hx, rfl⟩ := hp
      rw [mem_irange] at hx; simp; omega
  | joined ls, hw, hn => by
      simpa using denList_nonnegR ls (by simpa [wf] using hw) (by simpa using hn)
  | ordered ls, hw, hn => by
      simpa using denList_nonnegR ls (by simpa [wf] using hw) (by simpa using hn)
  | compl l, hw, hn => by
      intro p hp
      simp only [den_compl, flipDen, List.mem_map, List.mem_reverse] at hp
      obtain ⟨q, hq, rfl⟩ := hp
      exact den_nonnegR l (by simpa [wf] using hw) (by simpa using hn) q hq
theorem denList_nonnegR : ∀ (ls : List Loc), wfList ls = true → allLeavesList leafNonnegR ls = true →
    ∀ p ∈ denList ls, 0 ≤ p.1
  | [], _, _ => by simp
  | l :: ls, hw, hn => by
      simp only [wfList_cons, Bool.and_eq_true] at hw
      simp only [allLeavesList_cons, Bool.and_eq_true] at hn
      intro p hp
      simp only [denList_cons, List.mem_append] at hp
      rcases hp with hp | hp
      · exact den_nonnegR l hw.1 hn.1 p hp
      · exact denList_nonnegR ls hw.2 hn.2 p hp
end

mutual
theorem shiftAbs0_eqR : ∀ (l : Loc) (k : Int), wf l = true → allLeaves leafNonnegR l = true → 0 ≤ k →
    shiftAbs l 0 k = expandAbs l 0 k
  | between _, _, _, _, _ => by simp [shiftAbs, expandAbs]
  | point _, _, _, _, _ => by simp [shiftAbs, expandAbs]
  | ranged _ _ _ _, _, _, _, _ => by simp [shiftAbs, expandAbs]
  | ambiguous _ _, _, _, _, _ => by simp [shiftAbs, expandAbs]
  | joined ls, k, hw, hn, hk => by
      have hw' : wfList ls = true := by simpa [wf] using hw
      have hn' : allLeavesList leafNonnegR ls = true := by simpa using hn
      simp only [shiftAbs, expandAbs]
      rw [shiftAbsList0_eqR ls k hw' hn' hk, expandList0_eq_shiftList0R ls k hw' hn' hk]
  | ordered ls, k, hw, hn, hk => by
      simp only [shiftAbs, expandAbs]
      exact shiftAbsList0_eqR ls k (by simpa [wf] using hw) (by simpa using hn) hk
  | compl l, k, hw, hn, hk => by
      simp only [shiftAbs, expandAbs]
      exact shiftAbs0_eqR l k (by simpa [wf] using hw) (by simpa using hn) hk
theorem shiftAbsList0_eqR : ∀ (ls : List Loc) (k : Int), wfList ls = true →
    allLeavesList leafNonnegR ls = true → 0 ≤ k → shiftAbsList ls 0 k = expandAbsList ls 0 k
  | [], _, _, _, _ => by simp [shiftAbsList, expandAbsList]
  | l :: ls, k, hw, hn, hk => by
      simp only [wfList_cons, Bool.and_eq_true] at hw
      simp only [allLeavesList_cons, Bool.and_eq_true] at hn
      simp only [shiftAbsList, expandAbsList]
      rw [shiftAbs0_eqR l k hw.1 hn.1 hk, shiftAbsList0_eqR ls k hw.2 hn.2 hk]
end

/-- **`Expand(0, k)` translates** every location whose residue-bearing leaves are non-negative
(the features of a piece `gts.Concat` appends): `guest_translate` for `nonnegR` -/
theorem guest_translateR (l : Loc) (k : Int) (hw : wf l = true) (hn : nonnegR l = true) (hk : 0 ≤ k)
    (ha : expandAbs l 0 k = false) :
    den (expand l 0 k) ≼ mapPos (· + k) (den l) := by
  rw [expand0_eq_shift0R l k hw hn hk]
  have hs : shiftAbs l 0 k = false := by rw [shiftAbs0_eqR l k hw hn hk]; exact ha
  have h1 := (shift_ins l 0 k hw hk).1 hs
  have h2 : mapPos (insMap 0 k) (den l) = mapPos (· + k) (den l) := by
    unfold mapPos
    apply List.map_congr_left
    intro p hp
    have := den_nonnegR l hw hn p hp
    simp only [insMap]
    rw [if_neg (by omega)]
  rw [h2] at h1
  exact h1

mutual
theorem expand0_nonnegR : ∀ (l : Loc) (n : Int), 0 ≤ n → wf l = true →
    allLeaves leafNonnegR l = true → allLeaves leafNonnegR (expand l 0 n) = true
  | between p, n, _, _, _ => by
      simp [expand, betweenExpand, leafNonnegR]
  | point p, n, hn, _, h => by
      simp only [allLeaves_point, leafNonnegR, decide_eq_true_eq] at h
      simp only [expand, pointExpand]
      rw [if_neg (by omega)]
      simp only [gmax_eq_max, allLeaves_point, leafNonnegR, decide_eq_true_eq]
      split <;> omega
  | ranged s e a b, n, hn, hw, h => by
      have hse : s < e := by simpa [wf] using hw
      simp only [allLeaves_ranged, leafNonnegR, decide_eq_true_eq] at h
      by_cases h0 : n = 0
      · simp [expand, rangedExpand, h0, leafNonnegR, h]
      · simp only [expand, rangedExpand_ins_eq s e a b 0 n hse (by omega), allLeaves_ranged, leafNonnegR,
          decide_eq_true_eq]
        split <;> omega
  | ambiguous s e, n, hn, hw, h => by
      have hse : s < e := by simpa [wf] using hw
      simp only [allLeaves_ambiguous, leafNonnegR, decide_eq_true_eq] at h
      by_cases h0 : n = 0
      · simp [expand, ambiguousExpand, h0, leafNonnegR, h]
      · simp only [expand, ambiguousExpand_ins_eq s e 0 n hse (by omega), allLeaves_ambiguous, leafNonnegR,
          decide_eq_true_eq]
        split <;> omega
  | joined ls, n, hn, hw, h => by
      simp only [expand]
      exact join_leaves mergeOK_leafNonnegR _
        (expandList0_nonnegR ls n hn (by simpa [wf] using hw) (by simpa using h))
  | ordered ls, n, hn, hw, h => by
      simp only [expand]
      exact order_leaves _ _ (expandList0_nonnegR ls n hn (by simpa [wf] using hw) (by simpa using h))
  | compl l, n, hn, hw, h => by
      simpa [expand] using expand0_nonnegR l n hn (by simpa [wf] using hw) (by simpa using h)
theorem expandList0_nonnegR : ∀ (ls : List Loc) (n : Int), 0 ≤ n → wfList ls = true →
    allLeavesList leafNonnegR ls = true → allLeavesList leafNonnegR (expandList ls 0 n) = true
  | [], _, _, _, _ => by simp [expandList]
  | l :: ls, n, hn, hw, h => by
      simp only [wfList_cons, Bool.and_eq_true] at hw
      simp only [allLeavesList_cons, Bool.and_eq_true] at h
      simp [expandList, expand0_nonnegR l n hn hw.1 h.1, expandList0_nonnegR ls n hn hw.2 h.2]
end

/-- `Expand(0, n)`, `n ≥ 0`, keeps `nonnegR` -/
theorem expand0_nonnegR' (l : Loc) (n : Int) (hn : 0 ≤ n) (hw : wf l = true) (h : nonnegR l = true) :
    nonnegR (expand l 0 n) = true := expand0_nonnegR l n hn hw h

/-! ### `Expand(i, 0)` keeps every leaf -/

mutual
theorem expand_zero_leaves (Q : Loc → Bool) (hm : MergeOK Q) (i : Int) :
    ∀ (l : Loc), allLeaves Q l = true → allLeaves Q (expand l i 0) = true
  | between p, h => by
      have e : betweenExpand p i 0 = between p := by
        simp only [betweenExpand, gmax_eq_max]
        congr 1
        split <;> omega
      simpa [expand, e] using h
  | point p, h => by
      have e : pointExpand p i 0 = point p := by
        simp only [pointExpand, gmax_eq_max]
        rw [if_neg (by omega)]
        congr 1
        split <;> omega
      simpa [expand, e] using h
  | ranged s e a b, h => by simpa [expand, rangedExpand] using h
  | ambiguous s e, h => by simpa [expand, ambiguousExpand] using h
  | joined ls, h => by
      simp only [expand]
      exact join_leaves hm _ (expandList_zero_leaves Q hm i ls (by simpa using h))
  | ordered ls, h => by
      simp only [expand]
      exact order_leaves _ _ (expandList_zero_leaves Q hm i ls (by simpa using h))
  | compl l, h => by
      simpa [expand] using expand_zero_leaves Q hm i l (by simpa using h)
theorem expandList_zero_leaves (Q : Loc → Bool) (hm : MergeOK Q) (i : Int) :
    ∀ (ls : List Loc), allLeavesList Q ls = true → allLeavesList Q (expandList ls i 0) = true
  | [], _ => by simp [expandList]
  | l :: ls, h => by
      simp only [allLeavesList_cons, Bool.and_eq_true] at h
      simp [expandList, expand_zero_leaves Q hm i l h.1, expandList_zero_leaves Q hm i ls h.2]
end

/-- deleting `[i, i+k)`, `k ≥ 0`, from a location inside `[0, L]` leaves it inside `[0, L-k]` -/
theorem expand_del0_within (L i k : Int) (hi : 0 ≤ i) (hk : 0 ≤ k) (hL : i + k ≤ L) (l : Loc)
    (h : allLeaves (leafWithin L) l = true) : allLeaves (leafWithin (L - k)) (expand l i (-k)) = true := by
  by_cases h0 : k = 0
  · subst h0
    simp only [Int.neg_zero, Int.sub_zero]
    exact expand_zero_leaves _ (mergeOK_leafWithin L) i l h
  · exact expand_del_within L i k hi (by omega) hL l h

/-- **the location part of a forward `gts.Slice`** `[a, b)` of a record of length `L` keeps every
coordinate inside the window `[0, b-a]` -/
theorem sliceLoc_within (l : Loc) (a b L : Int) (h0 : 0 ≤ a) (hab : a ≤ b) (hbL : b ≤ L)
    (h : allLeaves (leafWithin L) l = true) : allLeaves (leafWithin (b - a)) (sliceLoc l a b L) = true := by
  unfold sliceLoc
  have s1 := expand_del0_within L b (L - b) (by omega) (by omega) (by omega) l h
  have e1 : -(L - b) = b - L := by omega
  have e2 : L - (L - b) = b := by omega
  rw [e1, e2] at s1
  exact expand_del0_within b 0 a (Int.le_refl 0) h0 (by omega) _ s1

/-! ### `asComplete`, `Complement`, `Reverse` -/

mutual
theorem wf_asComplete : ∀ l : Loc, wf (asComplete l) = wf l
  | ranged s e _ _ => by simp [asComplete, wf]
  | joined ls => by simp [asComplete, wf, wfList_asComplete ls]
  | ordered ls => by simp [asComplete, wf, wfList_asComplete ls]
  | between _ => by simp [asComplete]
  | point _ => by simp [asComplete]
  | ambiguous _ _ => by simp [asComplete]
  | compl l => by simp [asComplete, wf, wf_asComplete l]
theorem wfList_asComplete : ∀ ls : List Loc, wfList (asCompleteList ls) = wfList ls
  | [] => by simp [asCompleteList]
  | l :: ls => by simp [asCompleteList, wf_asComplete l, wfList_asComplete ls]
end

mutual
theorem within_asComplete (W : Int) : ∀ l : Loc,
    allLeaves (leafWithin W) (asComplete l) = allLeaves (leafWithin W) l
  | ranged s e _ _ => by simp only [asComplete, allLeaves_ranged]; rfl
  | joined ls => by simp [asComplete, withinList_asComplete W ls]
  | ordered ls => by simp [asComplete, withinList_asComplete W ls]
  | between _ => by simp [asComplete]
  | point _ => by simp [asComplete]
  | ambiguous _ _ => by simp [asComplete]
  | compl l => by simp [asComplete, within_asComplete W l]
theorem withinList_asComplete (W : Int) : ∀ ls : List Loc,
    allLeavesList (leafWithin W) (asCompleteList ls) = allLeavesList (leafWithin W) ls
  | [] => by simp [asCompleteList]
  | l :: ls => by simp [asCompleteList, within_asComplete W l, withinList_asComplete W ls]
end

theorem allLeaves_complement (Q : Loc → Bool) (l : Loc) : allLeaves Q (complement l) = allLeaves Q l := by
  cases l <;> simp [complement]

mutual
/-- `Reverse(W)` of a location inside `[0, W]`: every residue-bearing leaf stays at a non-negative
position (a between-site at `W` becomes `between (-1)`: known finding K1) -/
theorem reverse_nonnegR (W : Int) : ∀ l : Loc, allLeaves (leafWithin W) l = true →
    allLeaves leafNonnegR (reverse l W) = true
  | between p, _ => by simp [reverse, leafNonnegR]
  | point p, h => by
      simp only [allLeaves_point, leafWithin_iff, leafSpan] at h
      simp only [reverse, allLeaves_point, leafNonnegR, decide_eq_true_eq]
      omega
  | ranged s e a b, h => by
      simp only [allLeaves_ranged, leafWithin_iff, leafSpan] at h
      simp only [reverse, rangedReverse, allLeaves_ranged, leafNonnegR, decide_eq_true_eq]
      omega
  | ambiguous s e, h => by
      simp only [allLeaves_ambiguous, leafWithin_iff, leafSpan] at h
      simp only [reverse, allLeaves_ambiguous, leafNonnegR, decide_eq_true_eq]
      omega
  | joined ls, h => by
      simp only [reverse]
      apply join_leaves mergeOK_leafNonnegR
      rw [allLeavesList_reverse]
      exact reverseList_nonnegR W ls (by simpa using h)
  | ordered ls, h => by
      simp only [reverse]
      apply order_leaves
      rw [allLeavesList_reverse]
      exact reverseList_nonnegR W ls (by simpa using h)
  | compl l, h => by
      simpa [reverse] using reverse_nonnegR W l (by simpa using h)
theorem reverseList_nonnegR (W : Int) : ∀ ls : List Loc, allLeavesList (leafWithin W) ls = true →
    allLeavesList leafNonnegR (reverseList ls W) = true
  | [], _ => by simp [reverseList]
  | l :: ls, h => by
      simp only [allLeavesList_cons, Bool.and_eq_true] at h
      simp [reverseList, reverse_nonnegR W l h.1, reverseList_nonnegR W ls h.2]
end

/-! ### positions denoted by a location inside `[0, L]` -/

mutual
theorem den_in_of_within (L : Int) : ∀ l : Loc, wf l = true → allLeaves (leafWithin L) l = true →
    ∀ p ∈ den l, 0 ≤ p.1 ∧ p.1 < L
  | between _, _, _ => by simp
  | point q, _, h => by
      simp only [allLeaves_point, leafWithin_iff, leafSpan] at h
      simp; omega
  | ranged s e _ _, _, h => by
      simp only [allLeaves_ranged, leafWithin_iff, leafSpan] at h
      intro p hp
      simp only [den_ranged, fwd, List.mem_map] at hp
      obtain ⟨x, hx, rfl⟩ := hp
      rw [mem_irange] at hx; simp; omega
  | ambiguous s e, _, h => by
      simp only [allLeaves_ambiguous, leafWithin_iff, leafSpan] at h
      intro p hp
      simp only [den_ambiguous, fwd, List.mem_map] at hp
      obtain ⟨x, hx, rfl⟩ := hp
      rw [mem_irange] at hx; simp; omega
  | joined ls, hw, h => by
      simpa using denList_in_of_within L ls (by simpa [wf] using hw) (by simpa using h)
  | ordered ls, hw, h => by
      simpa using denList_in_of_within L ls (by simpa [wf] using hw) (by simpa using h)
  | compl l, hw, h => by
      intro p hp
      simp only [den_compl, flipDen, List.mem_map, List.mem_reverse] at hp
      obtain ⟨q, hq, rfl⟩ := hp
      exact den_in_of_within L l (by simpa [wf] using hw) (by simpa using h) q hq
theorem denList_in_of_within (L : Int) : ∀ ls : List Loc, wfList ls = true →
    allLeavesList (leafWithin L) ls = true → ∀ p ∈ denList ls, 0 ≤ p.1 ∧ p.1 < L
  | [], _, _ => by simp
  | l :: ls, hw, h => by
      simp only [wfList_cons, Bool.and_eq_true] at hw
      simp only [allLeavesList_cons, Bool.and_eq_true] at h
      intro p hp
      simp only [denList_cons, List.mem_append] at hp
      rcases hp with hp | hp
      · exact den_in_of_within L l hw.1 h.1 p hp
      · exact denList_in_of_within L ls hw.2 h.2 p hp
end

end Loc
end Gts
