/-
  C07, record scanners: the ORIGIN reader (`originField`) never panics when the declared length
  is non-negative (the range check of `GenBankParser`).
  * `validateOrigin` indexes its buffer unchecked; on a buffer of exactly `toOriginLength length`
    bytes every index is in range as long as each line index `%9d` is nine columns wide: a line
    consumes `9 + groups + 1` bytes and the line sizes add up to `toOriginLength` (`tl_step`).
    The lines start at residue `i + 1` with `i` a multiple of 60 below `length`; for
    `length ≤ 1000000020 = 60 · 16666667` (the guard `maxOriginResidues` of be672b0) that is at
    most 999999961: nine digits.  For `length = 1000000021` the last line starts at 1000000021:
    ten digits, and a WELL-FORMED block makes `validateOrigin` index one byte past its buffer
    (`Gts.C07.validateOrigin_wide_index_panics`): the constant is exactly right.
  * the slow path writes into `make([]byte, toOriginLength length)`; the same count shows that the
    store of the line feed is in range (`slowLines_ne_panic_le` of C16).
  Core Lean only.
-/
import Gts.Lemmas.GbSafe
import Gts.Lemmas.Origin
namespace Gts.Origin
open Gts.Pars (Bytes Err P)

theorem le_tl (n : Nat) : n ≤ tl n := by
  unfold tl
  have : n % 10 = n % 60 % 10 := by omega
  split <;> (try split) <;> omega

theorem walkChars_ne_panic (oob : Err) (L ij f k : Nat) (rest : Bytes) (hk : k + f = 10)
    (hlen : min f (L - (ij + k)) ≤ rest.length) :
    walkChars oob (L : Int) ij f k rest ≠ .error .panic := by
  induction f generalizing k rest with
  | zero => simp [walkChars]
  | succ f ih =>
    unfold walkChars
    by_cases hc : k < 10 ∧ ((ij + k : Nat) : Int) < (L : Int)
    · rw [if_pos hc]
      match rest, hlen with
      | [], hlen => simp only [List.length_nil] at hlen; omega
      | c :: r, hlen =>
        simp only
        split
        · exact ih (k + 1) r (by omega) (by simp only [List.length_cons] at hlen; omega)
        · simp
    · rw [if_neg hc]; simp

theorem walkGroups_ne_panic (oob : Err) (L i f j : Nat) (rest : Bytes) (hj : j + 10 * f = 60)
    (hlen : gl (min (L - (i + j)) (10 * f)) ≤ rest.length) :
    walkGroups oob (L : Int) i f j rest ≠ .error .panic := by
  induction f generalizing j rest with
  | zero => simp [walkGroups]
  | succ f ih =>
    unfold walkGroups
    by_cases hc : j < 60 ∧ ((i + j : Nat) : Int) < (L : Int)
    · rw [if_pos hc]
      match rest, hlen with
      | [], hlen => simp only [List.length_nil, gl] at hlen; omega
      | c :: r, hlen =>
        simp only
        split
        · simp
        · simp only [List.length_cons, gl] at hlen
          cases hw : walkChars oob (L : Int) (i + j) 10 0 r with
          | error e =>
            simp only
            intro h
            apply walkChars_ne_panic oob L (i + j) 10 0 r (by omega) (by omega)
            rw [hw]; exact h
          | ok r' =>
            simp only
            obtain ⟨g, e1, _, hl1, _⟩ := walkChars_split oob L (i + j) 10 0 r r' (by omega) hw
            apply ih (j + 10) r' (by omega)
            have : r.length = g.length + r'.length := by rw [e1]; simp
            simp only [gl]
            omega
    · rw [if_neg hc]; simp

theorem walkLine_ne_panic (oob : Err) (L i : Nat) (rest : Bytes) (hi : i + 1 < 10 ^ 9)
    (hlen : 9 + gl (min (L - i) 60) ≤ rest.length) :
    walkLine oob (L : Int) i rest ≠ .error .panic := by
  unfold walkLine
  simp only
  split
  · apply walkGroups_ne_panic oob L i 6 0 _ (by omega)
    simp only [List.length_drop, index9_length (i + 1) hi, Nat.add_zero, Nat.reduceMul]
    omega
  · simp

/-- `validateOrigin`'s unchecked indexing stays inside a buffer that holds at least
`toOriginLength` of the residues still to be read -/
theorem validateLines_ne_panic_le (L f i : Nat) (rest : Bytes)
    (hL : L < 10 ^ 9 ∨ (L ≤ 1000000020 ∧ i % 60 = 0))
    (hlen : tl (L - i) ≤ rest.length) : validateLines (L : Int) f i rest ≠ .error .panic := by
  induction f generalizing i rest with
  | zero => simp [validateLines]
  | succ f ih =>
    unfold validateLines
    by_cases hc : ((i : Nat) : Int) < (L : Int)
    · rw [if_pos hc]
      have hpos : 0 < L - i := by omega
      have hstep := tl_step (L - i) hpos
      have hsub : L - i - 60 = L - (i + 60) := by omega
      rw [hsub] at hstep
      cases hw : walkLine .panic (L : Int) i rest with
      | error e =>
        simp only
        intro h
        have he : e = .panic := by injection h
        subst he
        exact walkLine_ne_panic .panic L i rest (by omega) (by omega) hw
      | ok r =>
        simp only
        obtain ⟨ln, e1, _, hl, _⟩ := walkLine_split .panic L i rest r (by omega) hw
        have hr : rest.length = ln.length + r.length := by rw [e1]; simp
        match r, hr with
        | [], hr => simp only [List.length_nil] at hr; omega
        | c :: r', hr =>
          simp only
          split
          · simp
          · exact ih (i + 60) r' (by omega) (by simp only [List.length_cons] at hr; omega)
    · rw [if_neg hc]; simp

theorem validateLines_ne_panic (L f i : Nat) (rest : Bytes) (hL : L < 10 ^ 9)
    (hlen : tl (L - i) ≤ rest.length) : validateLines (L : Int) f i rest ≠ .error .panic :=
  validateLines_ne_panic_le L f i rest (Or.inl hL) hlen

/-- for every declared length that passes the guard of `makeGenbankOriginParser`
(`length ≤ maxOriginResidues = 1000000020 = 60 · 16666667`) the lines start at `i + 1` with
`i ≤ 999999960` a multiple of 60: the index is nine columns wide and no index is out of range -/
theorem validateOrigin_ne_panic_le (p : Bytes) (L : Nat) (hL : L ≤ 1000000020) (hp : tl L ≤ p.length) :
    validateOrigin p (L : Int) ≠ .error .panic := by
  unfold validateOrigin
  exact validateLines_ne_panic_le L _ 0 p (Or.inr ⟨hL, rfl⟩) (by simpa using hp)

theorem validateOrigin_ne_panic (p : Bytes) (L : Nat) (hL : L < 10 ^ 9) (hp : tl L ≤ p.length) :
    validateOrigin p (L : Int) ≠ .error .panic :=
  validateOrigin_ne_panic_le p L (by omega) hp

end Gts.Origin

namespace Gts.GenBank
open Gts.Pars
variable {L : Nat}

/-- the copy of the slow line loop inside `GenBankParse` is the one of `Gts.Origin` -/
theorem slowLines_eq (length : Int) (cap : Nat) : ∀ f i st acc,
    slowLines length cap f i st acc = Origin.slowLines length cap f i st acc
  | 0, _, _, _ => rfl
  | f + 1, i, st, acc => by
    unfold slowLines Origin.slowLines
    split
    · generalize Origin.splitLine st = sp
      obtain ⟨q, st'⟩ := sp
      simp only
      cases hw : Origin.walkLine .fail length i q with
      | error e =>
        cases e with
        | fail => rfl
        | panic => exact absurd hw (Origin.walkLine_fail_ne_panic length i q)
      | ok r =>
        simp only [Origin.allBlank, slowLines_eq length cap f]
        rfl
    · rfl

/-- the slow path only moves forward -/
theorem slowLines_rest_le (length : Int) (cap : Nat) : ∀ f i st acc out st',
    Origin.slowLines length cap f i st acc = .ok (out, st') → st'.length ≤ st.length
  | 0, _, _, _, _, _, h => by
    simp only [Origin.slowLines] at h; cases h; exact Nat.le_refl _
  | f + 1, i, st, acc, out, st', h => by
    unfold Origin.slowLines at h
    split at h
    · have hl := splitLine_len st
      generalize Origin.splitLine st = sp at h hl
      obtain ⟨q, st1⟩ := sp
      simp only at h hl
      cases hw : Origin.walkLine .fail length i q with
      | error e => rw [hw] at h; cases h
      | ok r =>
        rw [hw] at h
        simp only at h
        split at h
        · cases h
        · split at h
          · have := slowLines_rest_le length cap f _ _ _ _ _ h
            omega
          · cases h
    · cases h; exact Nat.le_refl _

/-- `makeGenbankOriginParser(length)`: with a declared length in range, neither the negative
`Request`, nor `validateOrigin`'s indexing (a length above 1000000020 is refused first), nor the
slow path's store can panic -/
theorem originField_safeS (length : Int) (d : Nat) (h0 : 0 ≤ length) :
    SafeS L (originField length d) := by
  intro s h
  unfold originField
  rw [wp_bind]; apply wps_call h (fieldName_safeS _ _)
  · intro _ s1 h1
    dsimp only
    rw [wp_bind]; apply wps_call h1 (line_safe.toS L)
    · intro _ s2 h2
      dsimp only
      rw [wp_bind]; apply wps_clear h2; intro s3 h3
      dsimp only
      obtain ⟨n, rfl⟩ := Int.eq_ofNat_of_zero_le h0
      split
      · rw [wp_bind, wp_fail]; exact std_fail h3
      rename_i hguard
      have hn : n ≤ 1000000020 := by omega
      have hneg : ¬ Origin.toOriginLength (n : Int) < 0 := by
        rw [Origin.toOriginLength_nat]; omega
      rw [if_neg hneg, wp_bind]; apply wp_getS
      dsimp only
      rw [Origin.toNat_tl]
      split
      · rw [wp_bind, wp_fail]; exact std_fail h3
      · rename_i hlen
        have hv := Origin.validateOrigin_ne_panic_le (s3.rest.take (Origin.tl n)) n hn
          (by simp only [List.length_take]; omega)
        split
        · repeat wps_step
        · rename_i hp; exact absurd hp hv
        · simp only [Int.toNat_natCast, slowLines_eq]
          have hsl := Origin.slowLines_ne_panic_le n (Origin.tl n) n 0 s3.rest [] (Or.inr ⟨hn, rfl⟩) (by simp)
          split
          · rename_i hp; exact absurd hp hsl
          · rw [wp_bind, wp_fail]; exact std_fail h3
          · rename_i acc st' hp
            rw [wp_bind]; apply wps_setS
            have h4 := h3.advance st' (slowLines_rest_le _ _ _ _ _ _ _ _ hp)
            repeat wps_step
    · intro s2 h2; exact std_fail h2
  · intro s1 h1; exact std_fail h1

end Gts.GenBank
