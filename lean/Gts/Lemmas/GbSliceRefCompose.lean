/-
  C03, slice of a slice: the REFERENCE base ranges of `Slice(Slice(F, a, b), c, d)` are those of
  `Slice(F, a + c, a + d)` (seeded change W35-1 broke this on the code: `GenBankFields.Slice` re-based
  its arguments by the head of an existing `Region` and clipped the already re-based ranges against
  that window).  Built on `sliceRefInfo_reparse` (what `Slice` writes into a reference is read back
  as the clipped ranges).  Core Lean only.
-/
import Gts.Lemmas.GbSliceRefInfo
namespace Gts.GbSliceRef
open Gts Gts.Pars Gts.GenBank

/-- for a proper range and a non-empty window, `rangeOverlap` is the plain interval test -/
theorem rangeOverlap_proper (s e l u : Int) (h1 : s < e) (h2 : l < u) :
    Loc.rangeOverlap s e l u = (decide (s < u) && decide (l < e)) := by
  have a : ¬ e < s := by omega
  have b : ¬ u < l := by omega
  simp only [Loc.rangeOverlap, if_neg a, if_neg b]

/-- a range clipped to `[a, b)` meets the inner window `[c, d)` exactly when the range itself meets
`[a + c, a + d)` -/
theorem overlap_clip (a b c d : Int) (r : Int × Int) (hr : r.1 < r.2) (hab : a < b)
    (ho : Loc.rangeOverlap r.1 r.2 a b = true) (hc : 0 ≤ c) (hcd : c < d) (hd : d ≤ b - a) :
    Loc.rangeOverlap (clipRange a b r).1 (clipRange a b r).2 c d =
      Loc.rangeOverlap r.1 r.2 (a + c) (a + d) := by
  rw [rangeOverlap_proper _ _ _ _ hr hab] at ho
  simp only [Bool.and_eq_true, decide_eq_true_eq] at ho
  have hcl : (clipRange a b r).1 < (clipRange a b r).2 := by
    simp only [clipRange, Loc.gmax, Loc.gmin]; split <;> split <;> omega
  rw [rangeOverlap_proper _ _ _ _ hcl hcd, rangeOverlap_proper _ _ _ _ hr (by omega)]
  simp only [clipRange, Loc.gmax, Loc.gmin]
  split <;> split <;> (congr 1 <;> (rw [decide_eq_decide]; constructor <;> intro _ <;> omega))

/-- clipping to `[a, b)` and then to `[c, d)` is clipping to `[a + c, a + d)` -/
theorem clip_clip (a b c d : Int) (r : Int × Int) (hc : 0 ≤ c) (hd : d ≤ b - a) :
    clipRange c d (clipRange a b r) = clipRange (a + c) (a + d) r := by
  simp only [clipRange, Loc.gmax, Loc.gmin]
  refine Prod.ext ?_ ?_ <;> simp only <;> (repeat' split) <;> omega

/-- a range that meets the inner window meets the outer one -/
theorem overlap_inner_outer (a b c d : Int) (r : Int × Int) (hr : r.1 < r.2) (hab : a < b)
    (hc : 0 ≤ c) (hcd : c < d) (hd : d ≤ b - a)
    (h : Loc.rangeOverlap r.1 r.2 (a + c) (a + d) = true) : Loc.rangeOverlap r.1 r.2 a b = true := by
  rw [rangeOverlap_proper _ _ _ _ hr (by omega)] at h
  rw [rangeOverlap_proper _ _ _ _ hr hab]
  simp only [Bool.and_eq_true, decide_eq_true_eq] at *
  omega

/-- the filter of the second slice over the ranges the first slice wrote -/
theorem filter_clip (a b c d : Int) (locs : List (Int × Int)) (hp : ∀ r ∈ locs, r.1 < r.2) (hab : a < b)
    (hc : 0 ≤ c) (hcd : c < d) (hd : d ≤ b - a) :
    (((locs.filter fun r => Loc.rangeOverlap r.1 r.2 a b).map (clipRange a b)).filter
        fun r => Loc.rangeOverlap r.1 r.2 c d).map (clipRange c d) =
      (locs.filter fun r => Loc.rangeOverlap r.1 r.2 (a + c) (a + d)).map (clipRange (a + c) (a + d)) := by
  induction locs with
  | nil => rfl
  | cons r rs ih =>
    have ih := ih (fun x hx => hp x (List.mem_cons_of_mem _ hx))
    have hr := hp r (List.mem_cons_self)
    by_cases ho : Loc.rangeOverlap r.1 r.2 a b = true
    · have e := overlap_clip a b c d r hr hab ho hc hcd hd
      by_cases hi : Loc.rangeOverlap r.1 r.2 (a + c) (a + d) = true
      · simp only [List.filter_cons, ho, if_true, List.map_cons, e, hi, clip_clip a b c d r hc hd]
        exact congrArg _ ih
      · simp only [List.filter_cons, ho, if_true, List.map_cons, e, hi, Bool.false_eq_true, if_false]
        exact ih
    · have hi : ¬ Loc.rangeOverlap r.1 r.2 (a + c) (a + d) = true :=
        fun h => ho (overlap_inner_outer a b c d r hr hab hc hcd hd h)
      simp only [List.filter_cons, ho, hi, Bool.false_eq_true, if_false]
      exact ih

/-- **one reference under a slice of a slice**: for windows `[a, b)` and `[c, d) ⊆ [0, b - a)`, both
non-empty, what the second `Slice` makes of what the first one wrote is what ONE `Slice` to
`[a + c, a + d)` makes of the original info — dropped in the same cases, the same text otherwise, an
unparsable info kept verbatim by both -/
theorem sliceRefInfo_compose (pref info : Bytes) (a b c d : Int) (hab : a < b)
    (hfit : b - a ≤ 9223372036854775807) (hc : 0 ≤ c) (hcd : c < d) (hd : d ≤ b - a) :
    (sliceRefInfo pref a b info).bind (sliceRefInfo pref c d) = sliceRefInfo pref (a + c) (a + d) info := by
  cases hp : parseRefInfo pref info with
  | none => simp [sliceRefInfo, hp]
  | some locs =>
    have hprop := RefInfo.parseRefInfo_proper pref info locs hp
    by_cases hol : (locs.filter fun r => Loc.rangeOverlap r.1 r.2 a b) = []
    · -- dropped by the first slice: nothing meets the inner window either
      have hin : (locs.filter fun r => Loc.rangeOverlap r.1 r.2 (a + c) (a + d)) = [] := by
        rw [List.filter_eq_nil_iff] at hol ⊢
        intro r hr h
        exact hol r hr (overlap_inner_outer a b c d r (hprop r hr) hab hc hcd hd h)
      simp [sliceRefInfo, hp, hol, hin]
    · obtain ⟨i, h1, _, h3⟩ := sliceRefInfo_reparse pref info a b locs hab hfit hp hol
      rw [h1, Option.bind_some]
      have hf := filter_clip a b c d locs hprop hab hc hcd hd
      have hemp : (((locs.filter fun r => Loc.rangeOverlap r.1 r.2 a b).map (clipRange a b)).filter
          fun r => Loc.rangeOverlap r.1 r.2 c d).isEmpty =
          (locs.filter fun r => Loc.rangeOverlap r.1 r.2 (a + c) (a + d)).isEmpty := by
        have := congrArg List.isEmpty hf
        simpa [List.isEmpty_map] using this
      simp only [sliceRefInfo, h3, hp, hemp, hf]

/-- the infos of a renumbered list are the list -/
theorem renumber_infos (infos : List Bytes) : (renumber infos).map (·.info) = infos := by
  unfold renumber
  apply List.ext_getElem
  · simp
  · intro i h1 h2
    simp

theorem filterMap_info (g : Bytes → Option Bytes) (rs : List Ref) :
    rs.filterMap (fun r => g r.info) = (rs.map (·.info)).filterMap g := by
  induction rs with
  | nil => rfl
  | cons r rs ih => simp [List.filterMap_cons, ih]

/-- **slice of a slice, the whole reference list**: `sliceRefs c d ∘ sliceRefs a b = sliceRefs (a + c) (a + d)`
— clipped to the inner window, re-based, dropped when disjoint from it, renumbered `1..m` -/
theorem sliceRefs_compose (pref : Bytes) (a b c d : Int) (refs : List Ref) (hab : a < b)
    (hfit : b - a ≤ 9223372036854775807) (hc : 0 ≤ c) (hcd : c < d) (hd : d ≤ b - a) :
    sliceRefs pref c d (sliceRefs pref a b refs) = sliceRefs pref (a + c) (a + d) refs := by
  unfold sliceRefs
  rw [filterMap_info (sliceRefInfo pref c d), renumber_infos, filterMap_info (sliceRefInfo pref a b),
    filterMap_info (sliceRefInfo pref (a + c) (a + d)), List.filterMap_filterMap]
  have hfun : (fun x => (sliceRefInfo pref a b x).bind (sliceRefInfo pref c d)) =
      sliceRefInfo pref (a + c) (a + d) :=
    funext fun x => sliceRefInfo_compose pref x a b c d hab hfit hc hcd hd
  rw [hfun]

end Gts.GbSliceRef
