/-
  C11 — REFINEMENT of the heap programs of the location methods (Gts/Model/MemLoc.lean): whenever
  the program has a result, it reads — in the heap the program left — as the value the pure model
  `Gts/Model/Loc.lean` computes from what the arguments read as.
-/
import Gts.Lemmas.MemLocFresh
namespace Gts.Mem
open Heap

/-! ### pure side: small facts about `Loc.pushOne`, `pushW`, `flattenOrd`, `expand` -/

theorem pushListW_eq_foldl (low : List Loc → Loc → Bool → List Loc) (force : Bool) :
    ∀ (ps : List Loc) (racc : List Loc),
      Loc.pushListW low racc ps force = ps.foldl (fun acc p => Loc.pushW low acc p force) racc
  | [], racc => by simp [Loc.pushListW]
  | p :: ps, racc => by simp [Loc.pushListW, pushListW_eq_foldl low force ps]

/-- kinds of a location value: 0 contiguous, 1 `Joined`, 2 `Ordered`, 3 `Complemented` -/
def lkind : Loc → Nat
  | .joined _ => 1
  | .ordered _ => 2
  | .compl _ => 3
  | _ => 0

def mkind : MLoc → Nat
  | .leaf _ => 0
  | .joined _ => 1
  | .ordered _ => 2
  | .compl _ => 3

theorem lkind_zero {l : Loc} : lkind l = 0 ↔ isContig l = true := by
  cases l <;> simp [lkind, isContig]

theorem Reads.kind {h : LHeap} {l : Loc} {m : MLoc} (hr : Reads h l m) : lkind l = mkind m := by
  cases m with
  | leaf l' =>
    have := (reads_leaf.1 hr).2
    simpa [mkind] using lkind_zero.2 this
  | joined s => cases l <;> simp_all [Reads, lkind, mkind]
  | ordered s => cases l <;> simp_all [Reads, lkind, mkind]
  | compl m => cases l <;> simp_all [Reads, lkind, mkind]

theorem reads_mjoined {h : LHeap} {l : Loc} {s : Slice} (hr : Reads h l (.joined s)) :
    ∃ ls, l = .joined ls ∧ WF h s ∧ ReadsList h ls (read h s) := by
  cases l <;> simp_all [Reads]

theorem reads_mordered {h : LHeap} {l : Loc} {s : Slice} (hr : Reads h l (.ordered s)) :
    ∃ ls, l = .ordered ls ∧ WF h s ∧ ReadsList h ls (read h s) := by
  cases l <;> simp_all [Reads]

theorem reads_mcompl {h : LHeap} {l : Loc} {m : MLoc} (hr : Reads h l (.compl m)) :
    ∃ l', l = .compl l' ∧ Reads h l' m := by
  cases l <;> simp_all [Reads]

theorem pushW_of_lkind {low : List Loc → Loc → Bool → List Loc} {x : Loc} (hx : lkind x ≠ 1)
    (racc : List Loc) (force : Bool) : Loc.pushW low racc x force = Loc.pushOne low racc x force := by
  cases x <;> simp_all [Loc.pushW, lkind]

/-- a pair that is neither contiguous/contiguous nor complement/complement is appended -/
theorem pushOne_inert (low : List Loc → Loc → Bool → List Loc) {v x : Loc} (rest : List Loc)
    (force : Bool) (h0 : lkind v ≠ 0 ∨ lkind x ≠ 0) (h3 : lkind v ≠ 3 ∨ lkind x ≠ 3) :
    Loc.pushOne low (v :: rest) x force = x :: v :: rest := by
  cases v <;> cases x <;> simp_all [Loc.pushOne, lkind]

/-- the scalar rules look at the last element only and do not use the lower level -/
theorem pushOne_leaf_eq (low : List Loc → Loc → Bool → List Loc) {v u : Loc} (rest : List Loc)
    (force : Bool) (hv : isContig v = true) (hu : isContig u = true) :
    Loc.pushOne low (v :: rest) u force = Loc.pushOne (fun r _ _ => r) [v] u force ++ rest := by
  cases v <;> simp [isContig] at hv <;> cases u <;> simp [isContig] at hu <;>
    simp only [Loc.pushOne] <;> (try split) <;> simp

theorem pushOne_leaf_contig {v u : Loc} (force : Bool) (hv : isContig v = true)
    (hu : isContig u = true) : ∀ c ∈ Loc.pushOne (fun r _ _ => r) [v] u force, isContig c = true := by
  cases v <;> simp [isContig] at hv <;> cases u <;> simp [isContig] at hu <;>
    simp only [Loc.pushOne] <;> (try split) <;> simp [isContig]

theorem readsList_leaves {h : LHeap} : ∀ (ls : List Loc), (∀ c ∈ ls, isContig c = true) →
    ReadsList h ls (ls.map MLoc.leaf)
  | [], _ => by simp [ReadsList]
  | l :: ls, hc => by
    rw [List.map_cons]
    exact readsList_cons.2 ⟨(reads_contig (hc l (List.mem_cons_self ..))).2 rfl,
      readsList_leaves ls fun c hcm => hc c (List.mem_cons_of_mem _ hcm)⟩

theorem flattenOrd_of_lkind {l : Loc} (hl : lkind l ≠ 2) : Loc.flattenOrd l = [l] := by
  cases l <;> simp_all [Loc.flattenOrd, lkind]

theorem expandList_map (i n : Int) : ∀ ls : List Loc, Loc.expandList ls i n = ls.map (fun l => l.expand i n)
  | [] => by simp [Loc.expandList]
  | l :: ls => by simp [Loc.expandList, expandList_map i n ls]

theorem isContig_ite {c : Prop} [Decidable c] {a b : Loc} (ha : isContig a = true)
    (hb : isContig b = true) : isContig (if c then a else b) = true := by
  split <;> assumption

theorem isContig_ite' {c : Prop} [Decidable c] {a b : Loc} (ha : c → isContig a = true)
    (hb : ¬ c → isContig b = true) : isContig (if c then a else b) = true := by
  split
  · exact ha ‹_›
  · exact hb ‹_›

theorem expand_contig {l : Loc} (hl : isContig l = true) (i n : Int) : isContig (l.expand i n) = true := by
  cases l <;> simp [isContig] at hl
  · simp [Loc.expand, Loc.betweenExpand, isContig]
  · simp only [Loc.expand, Loc.pointExpand]; exact isContig_ite rfl rfl
  · simp only [Loc.expand, Loc.rangedExpand]; exact isContig_ite rfl (isContig_ite rfl rfl)
  · simp only [Loc.expand, Loc.ambiguousExpand]; exact isContig_ite rfl (isContig_ite rfl rfl)

theorem refsAbove_zero : ∀ (m : MLoc), RefsAbove 0 m
  | .leaf _ => trivial
  | .joined _ => Nat.zero_le _
  | .ordered _ => Nat.zero_le _
  | .compl m => refsAbove_zero m

theorem closed_zero (h : LHeap) : Closed 0 h := fun _ _ c _ => refsAbove_zero c

/-! ### `Push`, `Join` -/

/-- `push` computes on memory what `lpush` computes on values -/
def PushRefines (push : PushFn) (lpush : List Loc → Loc → Bool → List Loc) : Prop :=
  ∀ h racc x force r lracc lx, push h racc x force = some r →
    ReadsList h lracc racc → Reads h lx x →
    h <+: r.2 ∧ ReadsList r.2 (lpush lracc lx force) r.1

theorem pushLoop_refines {push : PushFn} {lpush : List Loc → Loc → Bool → List Loc}
    (hpush : PushRefines push lpush) {h0 : LHeap} {s : Slice} (hs : WF h0 s) (force : Bool)
    (todo : List MLoc) :
    ∀ (done : List MLoc) (ltodo : List Loc) (racc : List MLoc) (h : LHeap) (r : List MLoc × LHeap)
      (lracc : List Loc), read h0 s = done ++ todo → ReadsList h0 ltodo todo →
      pushLoop push s force todo.length done.length racc h = some r → h0 <+: h →
      ReadsList h lracc racc →
      h <+: r.2 ∧ ReadsList r.2 (ltodo.foldl (fun acc y => lpush acc y force) lracc) r.1 := by
  induction todo with
  | nil =>
    intro done ltodo racc h r lracc _ hl he _ hr
    have e : ltodo = [] := by
      cases ltodo with
      | nil => rfl
      | cons a b => simp [ReadsList] at hl
    subst e
    simp only [List.length_nil, pushLoop, Option.some.injEq] at he
    subst he
    exact ⟨List.prefix_refl _, hr⟩
  | cons u rest ih =>
    intro done ltodo racc h r lracc hrd hl he hp hr
    cases ltodo with
    | nil => simp [ReadsList] at hl
    | cons lu lrest =>
      have hl' := readsList_cons.1 hl
      have hlen := length_read hs
      rw [hrd] at hlen
      have hi : done.length < s.len := by rw [← hlen]; simp
      have hld : load h s done.length = some u := by
        rw [load_eq_read hi, read_mono hp hs, hrd]; simp
      simp only [List.length_cons, pushLoop, hld] at he
      obtain ⟨r1, h1, h2⟩ := Option.bind_eq_some_iff.1 he
      have p1 := hpush h racc u force r1 lracc lu h1 hr (Reads.mono hp _ _ hl'.1)
      have p2 := ih (done ++ [u]) lrest r1.1 r1.2 r _ (by simpa using hrd) hl'.2
        (by simpa using h2) (hp.trans p1.1) p1.2
      exact ⟨p1.1.trans p2.1, by simpa using p2.2⟩

theorem joinTail_refines (g : Grow) {h : LHeap} {ls : List Loc} {ms : List MLoc}
    (hr : ReadsList h ls ms) :
    h <+: (joinTail g h ms).2 ∧ Reads (joinTail g h ms).2 (Loc.ofParts ls) (joinTail g h ms).1 := by
  match ms, ls, hr with
  | [], [], _ =>
    refine ⟨prefix_snoc (List.prefix_refl _) _, ?_⟩
    simp only [joinTail, Loc.ofParts]
    refine reads_joined.2 ⟨_, rfl, ?_, ?_⟩
    · simp [WF, mk, get_append_length]
    · simp [Heap.read, mk, ReadsList]
  | [a], [l], hr => exact ⟨List.prefix_refl _, readsList_singleton.1 hr⟩
  | a :: b :: ms, l :: l' :: ls, hr =>
    have o := (listSlice_owned g (closed_zero h) (List.cons_ne_nil a (b :: ms))
      (fun c _ => refsAbove_zero c)).1
    refine ⟨o.pre, ?_⟩
    simp only [joinTail, Loc.ofParts]
    exact reads_joined.2 ⟨_, rfl, o.wf, by rw [o.rd]; exact ReadsList.mono o.pre _ _ hr⟩
  | [], _ :: _, hr => simp [ReadsList] at hr
  | _ :: _, [], hr => simp [ReadsList] at hr
  | [_], _ :: _ :: _, hr => simp [ReadsList] at hr
  | _ :: _ :: _, [_], hr => simp [ReadsList] at hr

theorem joinMem_refines (g : Grow) {push : PushFn} {lpush : List Loc → Loc → Bool → List Loc}
    (hpush : PushRefines push lpush) {h : LHeap} {s : Slice} (hs : WF h s) {xs : List Loc}
    (hx : ReadsList h xs (read h s)) {r : MLoc × LHeap} (he : joinMem push g h s = some r) :
    h <+: r.2 ∧
      Reads r.2 (Loc.ofParts (xs.foldl (fun acc y => lpush acc y true) []).reverse) r.1 := by
  unfold joinMem at he
  obtain ⟨r1, h1, h2⟩ := Option.bind_eq_some_iff.1 he
  have hlen := length_read hs
  have p1 := pushLoop_refines hpush hs true (read h s) [] xs [] h r1 [] (by simp) hx
    (by simpa [hlen] using h1) (List.prefix_refl _) (by simp [ReadsList])
  simp only [Option.some.injEq] at h2
  subst h2
  have p2 := joinTail_refines g p1.2.reverse
  exact ⟨p1.1.trans p2.1, p2.2⟩

theorem pushOneMem_refines (g : Grow) {low : PushFn} {llow : List Loc → Loc → Bool → List Loc}
    (hlow : PushRefines low llow) (hlowf : PushFresh 0 low) :
    PushRefines (pushOneMem low g) (Loc.pushOne llow) := by
  intro h racc x force r lracc lx he hr hx
  -- the generic case: the location is appended
  have inert : ∀ (v : MLoc) (rest : List MLoc), racc = v :: rest →
      pushOneMem low g h racc x force = some (x :: racc, h) →
      (mkind v ≠ 0 ∨ mkind x ≠ 0) → (mkind v ≠ 3 ∨ mkind x ≠ 3) →
      h <+: r.2 ∧ ReadsList r.2 (Loc.pushOne llow lracc lx force) r.1 := by
    intro v rest e he' h0 h3
    subst e
    rw [he'] at he
    simp only [Option.some.injEq] at he
    subst he
    obtain ⟨m, ms', e, h1, h2⟩ : ∃ lv lrest, lracc = lv :: lrest ∧ Reads h lv v ∧ ReadsList h lrest rest := by
      cases lracc with
      | nil => simp [ReadsList] at hr
      | cons lv lrest => exact ⟨lv, lrest, rfl, readsList_cons.1 hr⟩
    subst e
    rw [pushOne_inert llow _ force (by rw [h1.kind, hx.kind]; exact h0) (by rw [h1.kind, hx.kind]; exact h3)]
    exact ⟨List.prefix_refl _, readsList_cons.2 ⟨hx, hr⟩⟩
  cases racc with
  | nil =>
    have e : lracc = [] := by
      cases lracc with
      | nil => rfl
      | cons a b => simp [ReadsList] at hr
    subst e
    simp only [pushOneMem, Option.some.injEq] at he
    subst he
    exact ⟨List.prefix_refl _, by simpa [Loc.pushOne, ReadsList] using hx⟩
  | cons v rest =>
    cases v with
    | leaf v =>
      cases x with
      | leaf u =>
        obtain ⟨lv, lrest, e, h1, h2⟩ : ∃ lv lrest, lracc = lv :: lrest ∧ Reads h lv (.leaf v) ∧ ReadsList h lrest rest := by
          cases lracc with
          | nil => simp [ReadsList] at hr
          | cons lv lrest => exact ⟨lv, lrest, rfl, readsList_cons.1 hr⟩
        subst e
        obtain ⟨e1, c1⟩ := reads_leaf.1 h1
        obtain ⟨e2, c2⟩ := reads_leaf.1 hx
        subst e1 e2
        simp only [pushOneMem, Option.some.injEq] at he
        subst he
        rw [pushOne_leaf_eq llow lrest force c1 c2]
        exact ⟨List.prefix_refl _,
          ReadsList.append (readsList_leaves _ (pushOne_leaf_contig force c1 c2)) h2⟩
      | joined s => exact inert _ _ rfl (by simp [pushOneMem]) (Or.inr (by simp [mkind])) (Or.inl (by simp [mkind]))
      | ordered s => exact inert _ _ rfl (by simp [pushOneMem]) (Or.inr (by simp [mkind])) (Or.inl (by simp [mkind]))
      | compl m => exact inert _ _ rfl (by simp [pushOneMem]) (Or.inr (by simp [mkind])) (Or.inl (by simp [mkind]))
    | joined s =>
      exact inert _ _ rfl (by cases x <;> simp [pushOneMem]) (Or.inl (by simp [mkind])) (Or.inl (by simp [mkind]))
    | ordered s =>
      exact inert _ _ rfl (by cases x <;> simp [pushOneMem]) (Or.inl (by simp [mkind])) (Or.inl (by simp [mkind]))
    | compl vm =>
      cases x with
      | leaf u => exact inert _ _ rfl (by simp [pushOneMem]) (Or.inl (by simp [mkind])) (Or.inr (by simp [mkind]))
      | joined s => exact inert _ _ rfl (by simp [pushOneMem]) (Or.inl (by simp [mkind])) (Or.inr (by simp [mkind]))
      | ordered s => exact inert _ _ rfl (by simp [pushOneMem]) (Or.inl (by simp [mkind])) (Or.inr (by simp [mkind]))
      | compl um =>
        obtain ⟨lv, lrest, e, h1, h2⟩ : ∃ lv lrest, lracc = lv :: lrest ∧ Reads h lv (.compl vm) ∧ ReadsList h lrest rest := by
          cases lracc with
          | nil => simp [ReadsList] at hr
          | cons lv lrest => exact ⟨lv, lrest, rfl, readsList_cons.1 hr⟩
        subst e
        obtain ⟨vl, e1, hvl⟩ := reads_mcompl h1
        obtain ⟨ul, e2, hul⟩ := reads_mcompl hx
        subst e1 e2
        simp only [pushOneMem] at he
        obtain ⟨t, t1, t2⟩ := Option.bind_eq_some_iff.1 he
        have p1 := hlow h [um] vm force t [ul] vl t1 (readsList_singleton.2 hul) hvl
        have f1 := hlowf h [um] vm force t t1 (Nat.zero_le _) (closed_zero h)
          (fun c _ => refsAbove_zero c) (refsAbove_zero vm)
        have hne : t.1.reverse ≠ [] := by
          intro e
          have e' : t.1 = [] := by simpa using e
          have hl := f1.2.2.2
          rw [e'] at hl
          simp at hl
        have o := (listSlice_owned g (closed_zero t.2) hne (fun c _ => refsAbove_zero c)).1
        obtain ⟨j, j1, j2⟩ := Option.bind_eq_some_iff.1 t2
        have p2 := joinMem_refines g hlow o.wf (xs := (llow [ul] vl force).reverse)
          (by rw [o.rd]; exact ReadsList.mono o.pre _ _ p1.2.reverse) j1
        simp only [Option.some.injEq] at j2
        subst j2
        have hpre : h <+: j.2 := p1.1.trans (o.pre.trans p2.1)
        refine ⟨hpre, ?_⟩
        simp only [Loc.pushOne]
        exact readsList_cons.2 ⟨reads_compl.2 ⟨_, rfl, p2.2⟩, ReadsList.mono hpre _ _ h2⟩

theorem pushWMem_refines (g : Grow) {low : PushFn} {llow : List Loc → Loc → Bool → List Loc}
    (hlow : PushRefines low llow) (hlowf : PushFresh 0 low) :
    ∀ k, PushRefines (pushWMem low g k) (Loc.pushW llow) := by
  intro k
  induction k with
  | zero => intro h racc x force r lracc lx he; simp [pushWMem] at he
  | succ k ih =>
    intro h racc x force r lracc lx he hr hx
    have other : mkind x ≠ 1 → pushWMem low g (k + 1) h racc x force = pushOneMem low g h racc x force →
        h <+: r.2 ∧ ReadsList r.2 (Loc.pushW llow lracc lx force) r.1 := by
      intro hk e
      rw [e] at he
      rw [pushW_of_lkind (by rw [hx.kind]; exact hk)]
      exact pushOneMem_refines g hlow hlowf h racc x force r lracc lx he hr hx
    cases x with
    | joined s =>
      obtain ⟨ls, e, hw, hl⟩ := reads_mjoined hx
      subst e
      simp only [pushWMem] at he
      have hlen := length_read hw
      have := pushLoop_refines ih hw force (read h s) [] ls racc h r lracc (by simp) hl
        (by simpa [hlen] using he) (List.prefix_refl _) hr
      simpa [Loc.pushW, pushListW_eq_foldl] using this
    | leaf l => exact other (by simp [mkind]) (by simp [pushWMem])
    | ordered s => exact other (by simp [mkind]) (by simp [pushWMem])
    | compl m => exact other (by simp [mkind]) (by simp [pushWMem])

theorem pushDMem_refines (g : Grow) (k : Nat) : ∀ d, PushRefines (pushDMem g k d) (Loc.pushD d)
  | 0 => by
    intro h racc x force r lracc lx he hr hx
    simp only [pushDMem, Option.some.injEq] at he
    subst he
    exact ⟨List.prefix_refl _, by simpa [Loc.pushD] using readsList_cons.2 ⟨hx, hr⟩⟩
  | d + 1 => pushWMem_refines g (pushDMem_refines g k d) (pushDMem_fresh g k d) k

/-- **`Join` on memory is `Loc.join` on values** -/
theorem joinLocs_refines (g : Grow) (k : Nat) {h : LHeap} {s : Slice} (hs : WF h s) {xs : List Loc}
    (hx : ReadsList h xs (read h s)) {r : MLoc × LHeap} (he : joinLocs g k h s = some r) :
    h <+: r.2 ∧ Reads r.2 (Loc.join xs) r.1 :=
  joinMem_refines g (pushDMem_refines g k _) hs hx he

/-! ### `flattenLocations`, `Order` -/

/-- `flattenLocations` moves values: what it returns shows cells that were readable before the
call (in any earlier heap `hb` in which the argument was readable) -/
def FlatRefines (rec : LHeap → Slice → Option (Slice × LHeap)) : Prop :=
  ∀ hb h s r ls, rec h s = some r → hb <+: h → WF hb s → ReadsList hb ls (read hb s) →
    ∃ ys, Owned h r.2 r.1 ys ∧ ReadsList hb (Loc.flattenOrdList ls) ys

theorem flattenLoop_refines (g : Grow) {rec : LHeap → Slice → Option (Slice × LHeap)}
    (hrec : FlatRefines rec) {hb h0 : LHeap} (hb0 : hb <+: h0) {locs : Slice} (hs : WF hb locs)
    (todo : List MLoc) :
    ∀ (done : List MLoc) (ltodo : List Loc) (list : Slice) (h : LHeap) (r : Slice × LHeap)
      (xs : List MLoc) (lxs : List Loc), read hb locs = done ++ todo → ReadsList hb ltodo todo →
      flattenLoop rec g locs todo.length done.length list h = some r →
      Owned h0 h list xs → ReadsList hb lxs xs →
      ∃ ys, Owned h0 r.2 r.1 ys ∧ ReadsList hb (lxs ++ Loc.flattenOrdList ltodo) ys := by
  induction todo with
  | nil =>
    intro done ltodo list h r xs lxs _ hl he ho hx
    have e : ltodo = [] := by
      cases ltodo with
      | nil => rfl
      | cons a b => simp [ReadsList] at hl
    subst e
    simp only [List.length_nil, flattenLoop, Option.some.injEq] at he
    subst he
    exact ⟨xs, ho, by simpa [Loc.flattenOrdList] using hx⟩
  | cons u rest ih =>
    intro done ltodo list h r xs lxs hrd hl he ho hx
    cases ltodo with
    | nil => simp [ReadsList] at hl
    | cons lu lrest =>
      have hl' := readsList_cons.1 hl
      have hp : hb <+: h := hb0.trans ho.pre
      have hlen := length_read hs
      rw [hrd] at hlen
      have hi : done.length < locs.len := by rw [← hlen]; simp
      have hld : load h locs done.length = some u := by
        rw [load_eq_read hi, read_mono hp hs, hrd]; simp
      have other : mkind u ≠ 2 →
          flattenLoop rec g locs (rest.length + 1) done.length list h =
            flattenLoop rec g locs rest.length (done.length + 1) (append g h list [u]).1
              (append g h list [u]).2 →
          ∃ ys, Owned h0 r.2 r.1 ys ∧ ReadsList hb (lxs ++ Loc.flattenOrdList (lu :: lrest)) ys := by
        intro hk e
        simp only [List.length_cons] at he
        rw [e] at he
        have o := append_owned g ho [u]
        have := ih (done ++ [u]) lrest _ _ r _ (lxs ++ [lu]) (by simpa using hrd) hl'.2
          (by simpa using he) o (ReadsList.append hx (readsList_singleton.2 hl'.1))
        simpa [Loc.flattenOrdList, flattenOrd_of_lkind (by rw [hl'.1.kind]; exact hk)] using this
      cases u with
      | ordered s =>
        obtain ⟨ls', e, hw, hls⟩ := reads_mordered hl'.1
        subst e
        simp only [List.length_cons, flattenLoop, hld] at he
        obtain ⟨r1, h1, h2⟩ := Option.bind_eq_some_iff.1 he
        obtain ⟨ys1, o1, hy1⟩ := hrec hb h s r1 ls' h1 hp hw hls
        have o := append_owned g (ho.mono o1.pre) (read r1.2 r1.1)
        rw [o1.rd] at o
        have := ih (done ++ [.ordered s]) lrest _ _ r _ (lxs ++ Loc.flattenOrdList ls')
          (by simpa using hrd) hl'.2 (by simpa [o1.rd] using h2) o (ReadsList.append hx hy1)
        simpa [Loc.flattenOrdList, Loc.flattenOrd] using this
      | leaf l => exact other (by simp [mkind]) (by simp [flattenLoop, hld])
      | joined s => exact other (by simp [mkind]) (by simp [flattenLoop, hld])
      | compl m => exact other (by simp [mkind]) (by simp [flattenLoop, hld])

theorem flattenMem_refines (g : Grow) : ∀ k, FlatRefines (flattenMem g k) := by
  intro k
  induction k with
  | zero => intro hb h s r ls he; simp [flattenMem] at he
  | succ k ih =>
    intro hb h s r ls he hp hs hl
    simp only [flattenMem] at he
    have hlen := length_read hs
    have := flattenLoop_refines g ih hp hs (read hb s) [] ls Slice.nil h r [] [] (by simp) hl
      (by simpa [hlen] using he) (nil_owned (List.prefix_refl _)) (by simp [ReadsList])
    simpa using this

/-- **`Order` on memory is `Loc.order` on values** -/
theorem orderLocs_refines (g : Grow) (k : Nat) {h : LHeap} {s : Slice} (hs : WF h s) {xs : List Loc}
    (hx : ReadsList h xs (read h s)) {r : MLoc × LHeap} (he : orderLocs g k h s = some r) :
    h <+: r.2 ∧ Reads r.2 (Loc.order xs) r.1 := by
  unfold orderLocs at he
  obtain ⟨r1, h1, h2⟩ := Option.bind_eq_some_iff.1 he
  obtain ⟨ys, o, hy⟩ := flattenMem_refines g k h h s r1 xs h1 (List.prefix_refl _) hs hx
  have hlen := length_read o.wf
  rw [o.rd] at hlen
  have hy' := ReadsList.mono o.pre _ _ hy
  have hll := hy.length_eq
  unfold Loc.order
  generalize Loc.flattenOrdList xs = L at hy hy' hll
  split at h2
  · rename_i h0
    simp only [Option.some.injEq] at h2
    subst h2
    have e : ys = [] := List.eq_nil_of_length_eq_zero (by omega)
    subst e
    have e2 : L = [] := List.eq_nil_of_length_eq_zero (by simpa using hll)
    subst e2
    refine ⟨prefix_snoc o.pre _, reads_ordered.2 ⟨_, rfl, ?_, ?_⟩⟩
    · simp [WF, mk, get_append_length]
    · simp [Heap.read, mk, ReadsList]
  · rename_i h1'
    obtain ⟨a, h3, h4⟩ := Option.map_eq_some_iff.1 h2
    subst h4
    rw [load_eq_read (by omega), o.rd] at h3
    obtain ⟨b, e⟩ := List.length_eq_one_iff.1 (show ys.length = 1 by omega)
    subst e
    obtain ⟨lb, e⟩ := List.length_eq_one_iff.1 (show L.length = 1 by simpa using hll)
    subst e
    simp only [List.getElem?_cons_zero, Option.some.injEq] at h3
    subst h3
    exact ⟨o.pre, readsList_singleton.1 hy'⟩
  · rename_i h0 h1'
    simp only [Option.some.injEq] at h2
    subst h2
    refine ⟨o.pre, ?_⟩
    match L, hll, hy' with
    | [], hll, _ => exact absurd (by simp at hll; omega) h0
    | [_], hll, _ => exact absurd (by simp at hll; omega) h1'
    | a :: b :: l, _, hy' => exact reads_ordered.2 ⟨_, rfl, o.wf, by rw [o.rd]; exact hy'⟩

/-! ### the element loop and `Expand` -/

/-- a location method computes on memory what `f` computes on values -/
def MapRefines (rec : LHeap → MLoc → Option (MLoc × LHeap)) (f : Loc → Loc) : Prop :=
  ∀ h m r l, rec h m = some r → Reads h l m → Reads r.2 (f l) r.1

theorem mapLoop2_refines {rec : LHeap → MLoc → Option (MLoc × LHeap)} {f : Loc → Loc}
    (hfresh : MapFresh rec) (hrec : MapRefines rec f) {h0 : LHeap} {src dst : Slice}
    (hs : WF h0 src) (hd : dst.arr = h0.length) (todo : List MLoc) :
    ∀ (done : List MLoc) (ltodo : List Loc) (h r : LHeap) (ydone : List MLoc) (ldone : List Loc),
      read h0 src = done ++ todo → ReadsList h0 ltodo todo → ydone.length = done.length →
      mapLoop2 rec src dst todo.length done.length h = some r →
      Owned h0 h dst (ydone ++ List.replicate todo.length default) → ReadsList h ldone ydone →
      (∀ c ∈ ydone, RefsAbove (h0.length + 1) c) → Closed (h0.length + 1) h →
      ∃ ys, Owned h0 r dst ys ∧ ReadsList r (ldone ++ ltodo.map f) ys := by
  induction todo with
  | nil =>
    intro done ltodo h r ydone ldone _ hl _ he ho hy _ _
    have e : ltodo = [] := by
      cases ltodo with
      | nil => rfl
      | cons a b => simp [ReadsList] at hl
    subst e
    simp only [List.length_nil, mapLoop2, Option.some.injEq] at he
    subst he
    exact ⟨ydone, by simpa using ho, by simpa using hy⟩
  | cons u rest ih =>
    intro done ltodo h r ydone ldone hrd hl hyl he ho hy hrefs hc
    cases ltodo with
    | nil => simp [ReadsList] at hl
    | cons lu lrest =>
      have hl' := readsList_cons.1 hl
      have hp := ho.pre
      have hlen := length_read hs
      rw [hrd] at hlen
      have hi : done.length < src.len := by rw [← hlen]; simp
      have hld : load h src done.length = some u := by
        rw [load_eq_read hi, read_mono hp hs, hrd]; simp
      simp only [List.length_cons, mapLoop2, hld] at he
      obtain ⟨r1, h1, h2⟩ := Option.bind_eq_some_iff.1 he
      have pf := hfresh h u r1 h1
      have pr := hrec h u r1 lu h1 (Reads.mono hp _ _ hl'.1)
      -- the destination has at least one cell, so it exists in `h`
      have hdl := length_read ho.wf
      rw [ho.rd] at hdl
      have hdpos : done.length < dst.len := by
        rw [← hdl, ← hyl]; simp
      have harr : dst.arr < h.length := arr_lt_of_wf ho.wf (by have := ho.wf.1; omega)
      have hN : h0.length + 1 ≤ h.length := by omega
      have c1 : Closed (h0.length + 1) r1.2 := closed_extend hc pf.pre pf.closed hN
      have rf1 : RefsAbove (h0.length + 1) r1.1 := RefsAbove.mono hN pf.refs
      have o1 := store_owned (ho.mono pf.pre) done.length r1.1 hdpos
      have e : overwrite (ydone ++ List.replicate (rest.length + 1) default) done.length [r1.1]
          = (ydone ++ [r1.1]) ++ List.replicate rest.length default := by
        rw [overwrite_after' _ _ _ hyl]; simp [List.replicate_succ]
      have hag : ∀ a, h0.length + 1 ≤ a → (store r1.2 dst done.length r1.1).get a = r1.2.get a := by
        intro a ha
        unfold store
        exact get_write_ne _ _ _ (by omega)
      have hrefs' : ∀ c ∈ ydone ++ [r1.1], RefsAbove (h0.length + 1) c := by
        intro c hcm
        rcases List.mem_append.1 hcm with h3 | h3
        · exact hrefs c h3
        · rw [List.mem_singleton.1 h3]; exact rf1
      have hy1 : ReadsList r1.2 (ldone ++ [f lu]) (ydone ++ [r1.1]) :=
        ReadsList.append (ReadsList.mono pf.pre _ _ hy) (readsList_singleton.2 pr)
      have := ih (done ++ [u]) lrest _ r (ydone ++ [r1.1]) (ldone ++ [f lu]) (by simpa using hrd)
        hl'.2 (by simp [hyl]) (by simpa using h2) (o1.cast e)
        (ReadsList.frame hag c1 _ _ hrefs' hy1) hrefs' (closed_store c1 dst done.length rf1)
      simpa using this

theorem mapLocs_refines {rec : LHeap → MLoc → Option (MLoc × LHeap)} {f : Loc → Loc}
    (hfresh : MapFresh rec) (hrec : MapRefines rec f) {h : LHeap} {src : Slice} (hs : WF h src)
    {ls : List Loc} (hl : ReadsList h ls (read h src)) {r : Slice × LHeap}
    (he : mapLocs rec h src = some r) :
    h <+: r.2 ∧ WF r.2 r.1 ∧ ReadsList r.2 (ls.map f) (read r.2 r.1) := by
  unfold mapLocs at he
  obtain ⟨h', h1, h2⟩ := Option.map_eq_some_iff.1 he
  subst h2
  have hlen := length_read hs
  have o0 := mk_owned (α := MLoc) (List.prefix_refl h) (Nat.le_refl src.len)
  have hc : Closed (h.length + 1) (mk h src.len src.len).2 := by
    have := closed_self (mk h src.len src.len).2
    simpa [mk] using this
  obtain ⟨ys, o, hy⟩ := mapLoop2_refines hfresh hrec hs (dst := (mk h src.len src.len).1) rfl
    (read h src) [] ls _ h' [] [] (by simp) hl rfl (by simpa [hlen] using h1)
    (by simpa [hlen] using o0) (by simp [ReadsList]) (fun _ hx => by cases hx) hc
  exact ⟨o.pre, o.wf, by rw [o.rd]; simpa using hy⟩

/-- the common shape of `Expand` / `Shift` / `Normalize` computes the pure method `F`, given that
`F` has that shape on values and the method of the contiguous kinds computes `F` -/
theorem methMem_refines (g : Grow) {leafM : Nat → LHeap → Loc → Option (MLoc × LHeap)} {F : Loc → Loc}
    (hFj : ∀ ls, F (.joined ls) = Loc.join (ls.map F)) (hFo : ∀ ls, F (.ordered ls) = Loc.order (ls.map F))
    (hFc : ∀ l, F (.compl l) = .compl (F l))
    (hfresh : ∀ k h l r, leafM k h l = some r → PostM h.length h r)
    (hleaf : ∀ k h l r, isContig l = true → leafM k h l = some r → Reads r.2 (F l) r.1) :
    ∀ k, MapRefines (methMem leafM g k) F := by
  intro k
  induction k with
  | zero => intro h m r l he; simp [methMem] at he
  | succ k ih =>
    intro h m r l he hr
    cases m with
    | leaf l' =>
      obtain ⟨e, hc⟩ := reads_leaf.1 hr
      subst e
      simp only [methMem] at he
      exact hleaf k h _ r hc he
    | joined s =>
      obtain ⟨ls, e, hw, hl⟩ := reads_mjoined hr
      subst e
      simp only [methMem] at he
      obtain ⟨r1, h1, h2⟩ := Option.bind_eq_some_iff.1 he
      have p1 := mapLocs_refines (methMem_fresh g hfresh k) ih hw hl h1
      have p2 := joinLocs_refines g (k + 1) p1.2.1 p1.2.2 h2
      rw [hFj]
      exact p2.2
    | ordered s =>
      obtain ⟨ls, e, hw, hl⟩ := reads_mordered hr
      subst e
      simp only [methMem] at he
      obtain ⟨r1, h1, h2⟩ := Option.bind_eq_some_iff.1 he
      have p1 := mapLocs_refines (methMem_fresh g hfresh k) ih hw hl h1
      have p2 := orderLocs_refines g (k + 1) p1.2.1 p1.2.2 h2
      rw [hFo]
      exact p2.2
    | compl m =>
      obtain ⟨l', e, hl⟩ := reads_mcompl hr
      subst e
      simp only [methMem] at he
      obtain ⟨r1, h1, h2⟩ := Option.map_eq_some_iff.1 he
      subst h2
      rw [hFc]
      exact reads_compl.2 ⟨_, rfl, ih h m r1 l' h1 hl⟩

/-- **`Expand` on memory is `Loc.expand` on values**, for every fuel that yields a result -/
theorem expandMem_refines (g : Grow) (i n : Int) :
    ∀ k, MapRefines (expandMem g i n k) (fun l => l.expand i n) :=
  methMem_refines g (fun ls => by simp [Loc.expand, expandList_map])
    (fun ls => by simp [Loc.expand, expandList_map]) (fun l => by simp [Loc.expand])
    (fun _ h l r he => by simp only [Option.some.injEq] at he; subst he; exact post_value h _)
    (fun _ h l r hc he => by
      simp only [Option.some.injEq] at he
      subst he
      exact (reads_contig (expand_contig hc i n)).2 rfl)

/-! ### `Shift`, `Normalize` -/

theorem shiftList_map (i n : Int) : ∀ ls : List Loc, Loc.shiftList ls i n = ls.map (fun l => l.shift i n)
  | [] => by simp [Loc.shiftList]
  | l :: ls => by simp [Loc.shiftList, shiftList_map i n ls]

theorem normalizeList_map (len : Int) : ∀ ls : List Loc,
    Loc.normalizeList ls len = ls.map (fun l => l.normalize len)
  | [] => by simp [Loc.normalizeList]
  | l :: ls => by simp [Loc.normalizeList, normalizeList_map len ls]

/-- `Join(left, right)` / `Order(left, right)` of new values reads as `Loc.join` / `Loc.order` -/
theorem lit_join_refines (g : Grow) (k : Nat) (h : LHeap) (ls : List Loc)
    (hc : ∀ c ∈ ls, isContig c = true) {r : MLoc × LHeap}
    (he : joinLocs g k (litSlice h (ls.map MLoc.leaf)).2 (litSlice h (ls.map MLoc.leaf)).1 = some r) :
    Reads r.2 (Loc.join ls) r.1 := by
  have o := litSlice_owned (List.prefix_refl h) (ls.map MLoc.leaf)
  exact (joinLocs_refines g k o.wf (by rw [o.rd]; exact readsList_leaves ls hc) he).2

theorem lit_order_refines (g : Grow) (k : Nat) (h : LHeap) (ls : List Loc)
    (hc : ∀ c ∈ ls, isContig c = true) {r : MLoc × LHeap}
    (he : orderLocs g k (litSlice h (ls.map MLoc.leaf)).2 (litSlice h (ls.map MLoc.leaf)).1 = some r) :
    Reads r.2 (Loc.order ls) r.1 := by
  have o := litSlice_owned (List.prefix_refl h) (ls.map MLoc.leaf)
  exact (orderLocs_refines g k o.wf (by rw [o.rd]; exact readsList_leaves ls hc) he).2

theorem rangedExpand_contig (s e : Int) (p5 p3 : Bool) (i n : Int) :
    isContig (Loc.rangedExpand s e p5 p3 i n) = true :=
  expand_contig (l := .ranged s e p5 p3) rfl i n

theorem ambiguousExpand_contig (s e i n : Int) : isContig (Loc.ambiguousExpand s e i n) = true :=
  expand_contig (l := .ambiguous s e) rfl i n

theorem shiftLeaf_refines (g : Grow) (i n : Int) (k : Nat) (h : LHeap) (l : Loc) (r : MLoc × LHeap)
    (hl : isContig l = true) (he : shiftLeaf g i n k h l = some r) : Reads r.2 (l.shift i n) r.1 := by
  have value : ∀ l : Loc, isContig (l.shift i n) = true → (some (MLoc.leaf (l.shift i n), h) = some r) →
      Reads r.2 (l.shift i n) r.1 := by
    intro l hc e
    simp only [Option.some.injEq] at e
    subst e
    exact (reads_contig hc).2 rfl
  cases l <;> simp [isContig] at hl
  · exact value _ (by simp [Loc.shift, Loc.betweenExpand, isContig]) he
  · exact value _ (by simp only [Loc.shift, Loc.pointExpand]; exact isContig_ite rfl rfl) he
  · rename_i s e p5 p3
    simp only [shiftLeaf] at he
    by_cases hc : 0 < n ∧ s < i ∧ i < e
    · rw [if_pos hc] at he
      have := lit_join_refines g k h [_, _] (by simp [isContig]) he
      simpa [Loc.shift, Loc.rangedShift, show n ≠ 0 by omega, show ¬ n < 0 by omega, hc.2.1, hc.2.2]
        using this
    · rw [if_neg hc] at he
      refine value _ ?_ he
      simp only [Loc.shift, Loc.rangedShift]
      exact isContig_ite' (fun _ => rfl) fun h1 => isContig_ite' (fun _ => rangedExpand_contig ..)
        fun h2 => isContig_ite' (fun h3 => absurd ⟨by omega, h3.1, h3.2⟩ hc) (fun _ => rfl)
  · rename_i s e
    simp only [shiftLeaf] at he
    by_cases hc : 0 < n ∧ s < i ∧ i < e
    · rw [if_pos hc] at he
      have := lit_order_refines g k h [_, _] (by simp [isContig]) he
      simpa [Loc.shift, Loc.ambiguousShift, show n ≠ 0 by omega, show ¬ n < 0 by omega, hc.2.1, hc.2.2]
        using this
    · rw [if_neg hc] at he
      refine value _ ?_ he
      simp only [Loc.shift, Loc.ambiguousShift]
      exact isContig_ite' (fun _ => rfl) fun h1 => isContig_ite' (fun _ => ambiguousExpand_contig ..)
        fun h2 => isContig_ite' (fun h3 => absurd ⟨by omega, h3.1, h3.2⟩ hc) (fun _ => rfl)

/-- **`Shift` on memory is `Loc.shift` on values** -/
theorem shiftMem_refines (g : Grow) (i n : Int) :
    ∀ k, MapRefines (shiftMem g i n k) (fun l => l.shift i n) :=
  methMem_refines g (fun ls => by simp [Loc.shift, shiftList_map])
    (fun ls => by simp [Loc.shift, shiftList_map]) (fun l => by simp [Loc.shift])
    (shiftLeaf_fresh g i n) (shiftLeaf_refines g i n)

theorem normalizeLeaf_refines (g : Grow) (len : Int) (k : Nat) (h : LHeap) (l : Loc) (r : MLoc × LHeap)
    (hl : isContig l = true) (he : normalizeLeaf g len k h l = some r) :
    Reads r.2 (l.normalize len) r.1 := by
  have value : ∀ l : Loc, isContig (l.normalize len) = true →
      (some (MLoc.leaf (l.normalize len), h) = some r) → Reads r.2 (l.normalize len) r.1 := by
    intro l hc e
    simp only [Option.some.injEq] at e
    subst e
    exact (reads_contig hc).2 rfl
  cases l <;> simp [isContig] at hl
  · exact value _ (by simp [Loc.normalize, isContig]) he
  · exact value _ (by simp [Loc.normalize, isContig]) he
  · rename_i s e p5 p3
    simp only [normalizeLeaf] at he
    by_cases hc : e - s ≠ len ∧ ¬ (Int.tmod s len < Int.tmod (e - 1) len + 1)
    · rw [if_pos hc] at he
      have := lit_join_refines g k h [_, _] (by simp [isContig]) he
      simpa [Loc.normalize, Loc.rangedNormalize, hc.1, hc.2] using this
    · rw [if_neg hc] at he
      refine value _ ?_ he
      simp only [Loc.normalize, Loc.rangedNormalize]
      exact isContig_ite' (fun _ => rangedExpand_contig ..) fun h1 =>
        isContig_ite' (fun _ => rfl) fun h2 => absurd ⟨h1, h2⟩ hc
  · exact value _ (by simp [Loc.normalize, isContig]) he

/-- **`Normalize` on memory is `Loc.normalize` on values** -/
theorem normalizeMem_refines (g : Grow) (len : Int) :
    ∀ k, MapRefines (normalizeMem g len k) (fun l => l.normalize len) :=
  methMem_refines g (fun ls => by simp [Loc.normalize, normalizeList_map])
    (fun ls => by simp [Loc.normalize, normalizeList_map]) (fun l => by simp [Loc.normalize])
    (normalizeLeaf_fresh g len) (normalizeLeaf_refines g len)

/-- `Complement()` allocates nothing and reads as `Loc.complement` — sharing the receiver's slices -/
theorem complementMem_refines {h : LHeap} {l : Loc} {m : MLoc} (hr : Reads h l m) :
    Reads h l.complement (complementMem m) := by
  cases m with
  | compl m' =>
    obtain ⟨l', e, hl⟩ := reads_mcompl hr
    subst e
    exact hl
  | leaf l' =>
    obtain ⟨e, hc⟩ := reads_leaf.1 hr
    subst e
    have : l'.complement = .compl l' := by cases l' <;> simp [isContig] at hc <;> rfl
    rw [this]
    exact reads_compl.2 ⟨_, rfl, hr⟩
  | joined s =>
    obtain ⟨ls, e, _, _⟩ := reads_mjoined hr
    subst e
    exact reads_compl.2 ⟨_, rfl, hr⟩
  | ordered s =>
    obtain ⟨ls, e, _, _⟩ := reads_mordered hr
    subst e
    exact reads_compl.2 ⟨_, rfl, hr⟩

end Gts.Mem
