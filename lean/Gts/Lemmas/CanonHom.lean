/-
  The edit operations on locations (`Expand`, `Shift`, `Reverse`, `Normalize`) all have one shape:
  a leaf function, `Join` / `Order` of the element-wise results (in list order or mirrored),
  `Complemented` of the inner result.  For any function of that shape (`LocHom`): structurally
  canonical stays structurally canonical unless the K3 shape arises in one of its `Join`s
  (`hom_struct`), and a coordinate predicate carries over from the leaves (`hom_coords`).
  Core Lean only.
-/
import Gts.Lemmas.CanonJoin
namespace Gts
namespace Loc

def isLeafC : Loc → Bool
  | between _ => true
  | point _ => true
  | ranged _ _ _ _ => true
  | ambiguous _ _ => true
  | _ => false

/-- pushed as one or more elements none of which is a `Complemented` -/
def plainOut (y : Loc) : Bool := (flatJ y).all (fun u => !isComplC u) && !(flatJ y).isEmpty

theorem plainOut_not_compl (y : Loc) (h : plainOut y = true) : isComplC y = false := by
  cases y <;> simp_all [plainOut, flatJ, isComplC]

theorem plainOut_of_leafy (y : Loc) (h1 : isComplC y = false) (h2 : isJoinedC y = false) : plainOut y = true := by
  rw [plainOut, flatJ_of_not_joined y h2]
  simp [h1]

/-! ### lists: order, mirrored or not -/

/-- the list is handed on as it is or mirrored -/
structure PermOk (π : List Loc → List Loc) : Prop where
  mem : ∀ xs y, y ∈ π xs ↔ y ∈ xs
  noAdj : ∀ xs, noAdjCompl (π xs) = noAdjCompl xs
  len : ∀ xs, (π xs).length = xs.length
  leaves : ∀ Q xs, allLeavesList Q (π xs) = allLeavesList Q xs

theorem noAdjCompl_append_single (xs : List Loc) (y : Loc) :
    noAdjCompl (xs ++ [y]) = (noAdjCompl xs && !((xs.getLast?.map isComplC).getD false && isComplC y)) := by
  induction xs with
  | nil => simp [noAdjCompl]
  | cons a r ih =>
    cases r with
    | nil => simp [noAdjCompl]
    | cons b t =>
      simp only [List.cons_append, noAdjCompl] at ih ⊢
      rw [ih]
      simp [List.getLast?_cons_cons, Bool.and_assoc]

theorem noAdjCompl_reverse : ∀ xs : List Loc, noAdjCompl xs.reverse = noAdjCompl xs
  | [] => rfl
  | [a] => rfl
  | a :: b :: r => by
      have ih := noAdjCompl_reverse (b :: r)
      have : (((b :: r).reverse.getLast?).map isComplC).getD false = isComplC b := by simp
      rw [List.reverse_cons, noAdjCompl_append_single, ih, this]
      simp only [noAdjCompl]
      cases isComplC a <;> cases isComplC b <;> simp

theorem permOk_id : PermOk id := ⟨fun _ _ => Iff.rfl, fun _ => rfl, fun _ => rfl, fun _ _ => rfl⟩

theorem permOk_reverse : PermOk List.reverse :=
  ⟨fun _ _ => List.mem_reverse, noAdjCompl_reverse, fun _ => List.length_reverse, fun Q xs => allLeavesList_reverse Q xs⟩

/-! ### `Order` of structurally canonical arguments -/

theorem flattenOrd_struct (y : Loc) (h : structP y = true) :
    (∀ u ∈ flattenOrd y, structP u = true ∧ isOrderedC u = false) ∧ 1 ≤ (flattenOrd y).length := by
  by_cases ho : isOrderedC y = true
  · cases y <;> simp [isOrderedC] at ho
    rename_i ls
    simp only [structP, Bool.and_eq_true, Bool.not_eq_true', decide_eq_true_eq] at h
    obtain ⟨⟨h1, h2⟩, h3⟩ := h
    simp only [flattenOrd]
    rw [flattenOrdList_of_none ls h3]
    refine ⟨fun u hu => ⟨(structPList_iff ls).mp h1 u hu, ?_⟩, by omega⟩
    simpa using List.any_eq_false.mp h3 u hu
  · have ho' : isOrderedC y = false := by simpa using ho
    rw [flattenOrd_of_not_ordered y ho']
    simp [h, ho']

theorem flattenOrdList_struct : ∀ (xs : List Loc), structPList xs = true →
    (∀ u ∈ flattenOrdList xs, structP u = true ∧ isOrderedC u = false) ∧ xs.length ≤ (flattenOrdList xs).length
  | [], _ => by simp [flattenOrdList]
  | x :: xs, h => by
      simp only [structPList_cons, Bool.and_eq_true] at h
      have h1 := flattenOrd_struct x h.1
      have h2 := flattenOrdList_struct xs h.2
      simp only [flattenOrdList, List.mem_append, List.length_append, List.length_cons]
      refine ⟨fun u hu => hu.elim (h1.1 u) (h2.1 u), by omega⟩

/-- `Order` of at least two structurally canonical arguments is a structurally canonical `Ordered` -/
theorem order_struct (xs : List Loc) (h : structPList xs = true) (h2 : 2 ≤ xs.length) :
    structP (order xs) = true ∧ isComplC (order xs) = false ∧ isJoinedC (order xs) = false ∧
    isOrderedC (order xs) = true := by
  have hf := flattenOrdList_struct xs h
  unfold order
  generalize flattenOrdList xs = j at hf
  obtain ⟨hj, hl⟩ := hf
  match j, hj, hl with
  | [], _, hl => simp only [List.length_nil] at hl; omega
  | [a], _, hl => simp only [List.length_cons, List.length_nil] at hl; omega
  | a :: b :: r, hj, _ =>
    refine ⟨?_, rfl, rfl, rfl⟩
    simp only [structP, Bool.and_eq_true, Bool.not_eq_true', decide_eq_true_eq]
    refine ⟨⟨(structPList_iff _).mpr fun u hu => (hj u hu).1, by simp⟩, ?_⟩
    rw [List.any_eq_false]
    intro u hu
    simpa using (hj u hu).2

/-! ### flattened argument lists without neighbouring complements -/

theorem noAdjCompl_plain_append : ∀ (b r : List Loc), b.all (fun u => !isComplC u) = true →
    noAdjCompl (b ++ r) = noAdjCompl r
  | [], r, _ => rfl
  | [a], r, h => by
      simp only [List.all_cons, List.all_nil, Bool.and_true, Bool.not_eq_true'] at h
      cases r with
      | nil => rfl
      | cons c t => simp [noAdjCompl, h]
  | a :: a' :: b, r, h => by
      simp only [List.all_cons, Bool.and_eq_true, Bool.not_eq_true'] at h
      have ih := noAdjCompl_plain_append (a' :: b) r (by simp [h.2.1, h.2.2])
      simp only [List.cons_append, noAdjCompl] at ih ⊢
      rw [ih]; simp [h.1]

theorem headPlain_append_plain (b r : List Loc) (h : b.all (fun u => !isComplC u) = true) (hne : b ≠ []) :
    headPlain (b ++ r) = true := by
  cases b with
  | nil => exact absurd rfl hne
  | cons a t =>
    simp only [List.all_cons, Bool.and_eq_true, Bool.not_eq_true'] at h
    cases a <;> simp_all [headPlain, isComplC]

/-- every argument is a `Complemented` or is pushed as plain elements; no two `Complemented`
arguments are neighbours: then no two `Complemented` elements meet in the flattened list -/
theorem noAdj_flat : ∀ (xs : List Loc), (∀ y ∈ xs, isComplC y = true ∨ plainOut y = true) →
    noAdjCompl xs = true →
    noAdjCompl (flatJList xs) = true ∧ (headPlain xs = true → headPlain (flatJList xs) = true)
  | [], _, _ => by simp [flatJList, noAdjCompl, headPlain]
  | x :: xs, hx, hn => by
      have ih := noAdj_flat xs (fun y hy => hx y (by simp [hy]))
        (by cases xs with
            | nil => rfl
            | cons b t => simp only [noAdjCompl, Bool.and_eq_true] at hn; exact hn.2)
      rcases hx x (by simp) with hc | hp
      · -- a complemented argument: one element; the next argument is plain
        have hfx : flatJ x = [x] := by cases x <;> simp_all [isComplC, flatJ]
        simp only [flatJList, hfx, List.singleton_append]
        refine ⟨?_, fun h => by cases x <;> simp_all [headPlain, isComplC]⟩
        cases hq : flatJList xs with
        | nil => rfl
        | cons c t =>
          have hxs : headPlain xs = true := by
            cases xs with
            | nil => simp [flatJList] at hq
            | cons b t' =>
              simp only [noAdjCompl, Bool.and_eq_true, Bool.not_eq_true', Bool.and_eq_false_iff] at hn
              rcases hn.1 with h | h
              · rw [hc] at h; cases h
              · cases b <;> simp_all [headPlain, isComplC]
          have hh := ih.2 hxs
          rw [hq] at hh ih
          simp only [noAdjCompl, Bool.and_eq_true, Bool.not_eq_true', Bool.and_eq_false_iff]
          refine ⟨Or.inr ?_, ih.1⟩
          cases c <;> simp_all [headPlain, isComplC]
      · simp only [plainOut, Bool.and_eq_true, Bool.not_eq_true', List.isEmpty_eq_false_iff] at hp
        simp only [flatJList]
        rw [noAdjCompl_plain_append _ _ hp.1]
        exact ⟨ih.1, fun _ => headPlain_append_plain _ _ hp.1 hp.2⟩

theorem stableR_noAdj : ∀ (racc : List Loc), stableR racc = true → noAdjCompl racc = true
  | [], _ => rfl
  | [a], _ => rfl
  | a :: b :: r, h => by
      simp only [stableR, Bool.and_eq_true] at h
      have ih := stableR_noAdj (b :: r) h.2
      simp only [noAdjCompl, Bool.and_eq_true, Bool.not_eq_true']
      refine ⟨?_, ih⟩
      have := irr_compl_compl b a h.1.2
      rw [Bool.and_comm]; exact this

theorem noAdjCompl_map (f : Loc → Loc) : ∀ (ls : List Loc),
    (∀ l ∈ ls, isComplC (f l) = true → isComplC l = true) → noAdjCompl ls = true →
    noAdjCompl (ls.map f) = true
  | [], _, _ => rfl
  | [a], _, _ => rfl
  | a :: b :: r, hf, hn => by
      simp only [noAdjCompl, Bool.and_eq_true, Bool.not_eq_true', Bool.and_eq_false_iff] at hn
      have ih := noAdjCompl_map f (b :: r) (fun l hl => hf l (by simp [hl])) hn.2
      simp only [List.map_cons, noAdjCompl, Bool.and_eq_true, Bool.not_eq_true', Bool.and_eq_false_iff] at ih ⊢
      refine ⟨?_, ih⟩
      rcases hn.1 with h | h
      · left
        cases hq : isComplC (f a) with
        | false => rfl
        | true => rw [hf a (by simp) hq] at h; cases h
      · right
        cases hq : isComplC (f b) with
        | false => rfl
        | true => rw [hf b (by simp) hq] at h; cases h

/-! ### functions of the shape of the edit operations -/

/-- `f` acts leaf-wise, through `Join` / `Order` of the element-wise results (handed on by `π`) and
through `Complemented`; `g` says whether the K3 shape arises in one of those `Join`s. -/
structure LocHom (f : Loc → Loc) (g : Loc → Bool) (π : List Loc → List Loc) : Prop where
  perm : PermOk π
  joined : ∀ ls, f (joined ls) = join (π (ls.map f))
  ordered : ∀ ls, f (ordered ls) = order (π (ls.map f))
  compl : ∀ l, f (compl l) = Loc.compl (f l)
  gJoined : ∀ ls, g (Loc.joined ls) = (ls.any g || joinK3 (π (ls.map f)))
  gOrdered : ∀ ls, g (Loc.ordered ls) = ls.any g
  gCompl : ∀ l, g (Loc.compl l) = g l
  gLeaf : ∀ l, isLeafC l = true → g l = false
  leaf : ∀ l, isLeafC l = true → structP (f l) = true ∧ plainOut (f l) = true

/-- what the induction carries: the result is structurally canonical; a `Complemented` comes from a
`Complemented` only; a plain part is pushed as plain elements -/
def HomOk (f : Loc → Loc) (l : Loc) : Prop :=
  structP (f l) = true ∧ (isComplC l = false → isComplC (f l) = false) ∧
  (isComplC l = false → isJoinedC l = false → plainOut (f l) = true) ∧
  (isOrderedC l = true → isOrderedC (f l) = true)

theorem flatJ_ne_nil_of_struct (y : Loc) (h : structP y = true) : flatJ y ≠ [] := by
  by_cases hj : isJoinedC y = true
  · cases y <;> simp [isJoinedC] at hj
    rename_i ls
    have := stable_of_structP_joined ls h
    simp only [flatJ]
    rw [flatJList_of_none ls this.2.2]
    intro he
    rw [he] at this
    simp at this
  · rw [flatJ_of_not_joined y (by simpa using hj)]; simp

section
variable {f : Loc → Loc} {g : Loc → Bool} {π : List Loc → List Loc}

/-- the `joined` case, given the parts -/
theorem hom_joined (h : LocHom f g π) (ls : List Loc) (hs : structP (Loc.joined ls) = true)
    (hg : g (Loc.joined ls) = false) (ih : ∀ l ∈ ls, HomOk f l) : HomOk f (Loc.joined ls) := by
  obtain ⟨hst, h2, hnj⟩ := stable_of_structP_joined ls hs
  rw [h.gJoined, Bool.or_eq_false_iff] at hg
  have hparts : ∀ l ∈ ls, partOk l = true := fun l hl => stableR_parts _ hst l (by simpa using hl)
  have hnadj : noAdjCompl ls = true := by
    have := stableR_noAdj _ hst
    rwa [noAdjCompl_reverse] at this
  -- the mapped list
  have hxs : structPList (π (ls.map f)) = true := by
    rw [structPList_iff]
    intro y hy
    rw [h.perm.mem, List.mem_map] at hy
    obtain ⟨l, hl, rfl⟩ := hy
    exact (ih l hl).1
  have hcls : ∀ y ∈ ls.map f, isComplC y = true ∨ plainOut y = true := by
    intro y hy
    rw [List.mem_map] at hy
    obtain ⟨l, hl, rfl⟩ := hy
    cases hc : isComplC l with
    | true =>
      left
      cases l <;> simp [isComplC] at hc
      rw [h.compl]; rfl
    | false => exact Or.inr ((ih l hl).2.2.1 hc (partOk_not_joined l (hparts l hl)))
  have hmapadj : noAdjCompl (ls.map f) = true := by
    refine noAdjCompl_map f ls (fun l hl hq => ?_) hnadj
    cases hc : isComplC l with
    | true => rfl
    | false => rw [(ih l hl).2.1 hc] at hq; cases hq
  have hflat := noAdj_flat (π (ls.map f)) (fun y hy => hcls y ((h.perm.mem _ _).mp hy))
    (by rw [h.perm.noAdj]; exact hmapadj)
  -- a plain part exists
  have hplain : ∃ l ∈ ls, isComplC l = false := by
    match ls, h2, hnadj with
    | a :: b :: r, _, hn =>
      simp only [noAdjCompl, Bool.and_eq_true, Bool.not_eq_true', Bool.and_eq_false_iff] at hn
      rcases hn.1 with h | h
      · exact ⟨a, by simp, h⟩
      · exact ⟨b, by simp, h⟩
  obtain ⟨l0, hl0, hc0⟩ := hplain
  have hp0 := (ih l0 hl0).2.2.1 hc0 (partOk_not_joined l0 (hparts l0 hl0))
  simp only [plainOut, Bool.and_eq_true, Bool.not_eq_true', List.isEmpty_eq_false_iff] at hp0
  have hmem0 : ∀ u ∈ flatJ (f l0), u ∈ flatJList (π (ls.map f)) := by
    have : f l0 ∈ π (ls.map f) := (h.perm.mem _ _).mpr (List.mem_map.mpr ⟨l0, hl0, rfl⟩)
    generalize π (ls.map f) = xs at this
    intro u hu
    induction xs with
    | nil => simp at this
    | cons x xs ihx =>
      simp only [flatJList, List.mem_append]
      rcases List.mem_cons.mp this with rfl | h'
      · exact Or.inl hu
      · exact Or.inr (ihx h')
  obtain ⟨u0, hu0⟩ := List.exists_mem_of_ne_nil _ hp0.2
  have hne : flatJList (π (ls.map f)) ≠ [] := List.ne_nil_of_mem (hmem0 u0 hu0)
  have hpl : ∃ y ∈ flatJList (π (ls.map f)), isComplC y = false :=
    ⟨u0, hmem0 u0 hu0, by simpa using List.all_eq_true.mp hp0.1 u0 hu0⟩
  refine ⟨?_, fun _ => ?_, fun _ hj => by simp [isJoinedC] at hj, fun ho => by simp [isOrderedC] at ho⟩
  · rw [h.joined]; exact join_struct _ hxs hne hflat.1 hg.2
  · rw [h.joined]; exact join_not_compl _ hxs hflat.1 hg.2 hpl

/-- the `ordered` case, given the parts -/
theorem hom_ordered (h : LocHom f g π) (ls : List Loc) (hs : structP (Loc.ordered ls) = true)
    (ih : ∀ l ∈ ls, HomOk f l) : HomOk f (Loc.ordered ls) := by
  simp only [structP, Bool.and_eq_true, Bool.not_eq_true', decide_eq_true_eq] at hs
  have hxs : structPList (π (ls.map f)) = true := by
    rw [structPList_iff]
    intro y hy
    rw [h.perm.mem, List.mem_map] at hy
    obtain ⟨l, hl, rfl⟩ := hy
    exact (ih l hl).1
  have := order_struct (π (ls.map f)) hxs (by rw [h.perm.len, List.length_map]; exact hs.1.2)
  unfold HomOk
  rw [h.ordered]
  exact ⟨this.1, fun _ => this.2.1, fun _ _ => plainOut_of_leafy _ this.2.1 this.2.2.1, fun _ => this.2.2.2⟩

mutual
/-- **a function of the shape of the edit operations keeps structurally canonical locations
structurally canonical unless the K3 shape arises in one of its `Join`s** -/
theorem hom_struct (h : LocHom f g π) : ∀ (l : Loc), structP l = true → g l = false → HomOk f l
  | between p, _, _ => by
      have := h.leaf (between p) rfl
      exact ⟨this.1, fun _ => plainOut_not_compl _ this.2, fun _ _ => this.2, fun ho => by simp [isOrderedC] at ho⟩
  | point p, _, _ => by
      have := h.leaf (point p) rfl
      exact ⟨this.1, fun _ => plainOut_not_compl _ this.2, fun _ _ => this.2, fun ho => by simp [isOrderedC] at ho⟩
  | ranged s e a b, _, _ => by
      have := h.leaf (ranged s e a b) rfl
      exact ⟨this.1, fun _ => plainOut_not_compl _ this.2, fun _ _ => this.2, fun ho => by simp [isOrderedC] at ho⟩
  | ambiguous s e, _, _ => by
      have := h.leaf (ambiguous s e) rfl
      exact ⟨this.1, fun _ => plainOut_not_compl _ this.2, fun _ _ => this.2, fun ho => by simp [isOrderedC] at ho⟩
  | Loc.joined ls, hs, hg => by
      have hs' := hs
      simp only [structP, Bool.and_eq_true] at hs'
      have hg' := hg
      rw [h.gJoined, Bool.or_eq_false_iff] at hg'
      exact hom_joined h ls hs hg (hom_structList h ls hs'.1.1.1 hg'.1)
  | Loc.ordered ls, hs, hg => by
      have hs' := hs
      simp only [structP, Bool.and_eq_true] at hs'
      rw [h.gOrdered] at hg
      exact hom_ordered h ls hs (hom_structList h ls hs'.1.1 hg)
  | Loc.compl l, hs, hg => by
      simp only [structP, Bool.and_eq_true, Bool.not_eq_true'] at hs
      rw [h.gCompl] at hg
      have ih := hom_struct h l hs.1 hg
      refine ⟨?_, fun hc => by simp [isComplC] at hc, fun hc => by simp [isComplC] at hc,
        fun ho => by simp [isOrderedC] at ho⟩
      rw [h.compl]
      simp only [structP, Bool.and_eq_true, Bool.not_eq_true']
      exact ⟨ih.1, ih.2.1 hs.2⟩
theorem hom_structList (h : LocHom f g π) : ∀ (ls : List Loc), structPList ls = true → ls.any g = false →
    ∀ l ∈ ls, HomOk f l
  | [], _, _ => by simp
  | x :: xs, hs, hg => by
      simp only [structPList_cons, Bool.and_eq_true] at hs
      simp only [List.any_cons, Bool.or_eq_false_iff] at hg
      intro l hl
      rcases List.mem_cons.mp hl with h' | h'
      · rw [h']; exact hom_struct h x hs.1 hg.1
      · exact hom_structList h xs hs.2 hg.2 l h'
end

end

/-! ### coordinates -/

section
variable {f : Loc → Loc} {π : List Loc → List Loc}

mutual
/-- a coordinate predicate carries over from the leaves (`Join` only copies coordinates or merges
two abutting ranges, `Order` only copies) -/
theorem hom_coords (hp : PermOk π) (hj : ∀ ls, f (joined ls) = join (π (ls.map f)))
    (ho : ∀ ls, f (ordered ls) = order (π (ls.map f))) (hc : ∀ l, f (compl l) = Loc.compl (f l))
    (P : Loc → Bool) (Q' : Int → Bool)
    (hleaf : ∀ l, isLeafC l = true → P l = true → coordsC Q' (f l) = true) :
    ∀ (l : Loc), allLeaves P l = true → coordsC Q' (f l) = true
  | between p, h => hleaf _ rfl (by simpa using h)
  | point p, h => hleaf _ rfl (by simpa using h)
  | ranged s e a b, h => hleaf _ rfl (by simpa using h)
  | ambiguous s e, h => hleaf _ rfl (by simpa using h)
  | joined ls, h => by
      rw [hj]
      refine join_leaves (mergeOK_leafCoord Q') _ ?_
      rw [hp.leaves]
      exact hom_coordsList hp hj ho hc P Q' hleaf ls (by simpa using h)
  | ordered ls, h => by
      rw [ho]
      refine order_leaves _ _ ?_
      rw [hp.leaves]
      exact hom_coordsList hp hj ho hc P Q' hleaf ls (by simpa using h)
  | compl l, h => by
      rw [hc]
      simpa [coordsC] using hom_coords hp hj ho hc P Q' hleaf l (by simpa using h)
theorem hom_coordsList (hp : PermOk π) (hj : ∀ ls, f (joined ls) = join (π (ls.map f)))
    (ho : ∀ ls, f (ordered ls) = order (π (ls.map f))) (hc : ∀ l, f (compl l) = Loc.compl (f l))
    (P : Loc → Bool) (Q' : Int → Bool)
    (hleaf : ∀ l, isLeafC l = true → P l = true → coordsC Q' (f l) = true) :
    ∀ (ls : List Loc), allLeavesList P ls = true →
      allLeavesList (leafCoord Q') (ls.map f) = true
  | [], _ => by simp
  | l :: ls, h => by
      simp only [allLeavesList_cons, Bool.and_eq_true] at h
      simp only [List.map_cons, allLeavesList_cons, Bool.and_eq_true]
      exact ⟨hom_coords hp hj ho hc P Q' hleaf l h.1, hom_coordsList hp hj ho hc P Q' hleaf ls h.2⟩
end

end

theorem allLeaves_and (P1 P2 : Loc → Bool) (l : Loc) (h1 : allLeaves P1 l = true) (h2 : allLeaves P2 l = true) :
    allLeaves (fun u => P1 u && P2 u) l = true := by
  rw [allLeaves_eq_all, List.all_eq_true] at *
  intro u hu
  simp [h1 u hu, h2 u hu]

end Loc
end Gts
