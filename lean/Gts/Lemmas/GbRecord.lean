/-
  C01 helper lemmas: the record as a list of sections, each taken by one (CONTIG: two) pass(es)
  of the loop of `GenBankParser`.  Core Lean only.
-/
import Gts.Lemmas.GbDispatch
namespace Gts.GenBank
open Gts.Pars

/-- a piece of the written record: its text, what reading it does to the record read so far,
and the number of loop passes it takes -/
structure Section where
  text : Bytes
  act : Sub → Sub
  iters : Nat

def SecOK (length : Int) (sec : Section) : Prop :=
  (∀ rest, startsField (sec.text ++ rest) = true) ∧ sec.iters ≤ sec.text.length ∧
  ∀ (k : Nat) (s : Sub) (rest : Bytes), startsField rest = true →
    recordLoop length 12 (k + sec.iters) s ⟨sec.text ++ rest, []⟩ = recordLoop length 12 k (sec.act s) ⟨rest, []⟩

def secsText (secs : List Section) : Bytes := secs.flatMap (·.text)
def secsIters (secs : List Section) : Nat := (secs.map (·.iters)).sum
def secsAct (secs : List Section) (s : Sub) : Sub := secs.foldl (fun s x => x.act s) s

theorem secsText_starts (length : Int) (secs : List Section) (h : ∀ x ∈ secs, SecOK length x) (rest : Bytes)
    (hrest : startsField rest = true) : startsField (secsText secs ++ rest) = true := by
  cases secs with
  | nil => simpa [secsText] using hrest
  | cons x xs =>
    have := (h x (by simp)).1 (secsText xs ++ rest)
    simpa [secsText, List.flatMap_cons, List.append_assoc] using this

theorem loop_sections (length : Int) (secs : List Section) (h : ∀ x ∈ secs, SecOK length x) (k : Nat) (s : Sub)
    (rest : Bytes) (hrest : startsField rest = true) :
    recordLoop length 12 (k + secsIters secs) s ⟨secsText secs ++ rest, []⟩ =
      recordLoop length 12 k (secsAct secs s) ⟨rest, []⟩ := by
  induction secs generalizing k s with
  | nil => simp [secsIters, secsText, secsAct]
  | cons x xs ih =>
    have hx := h x (by simp)
    have hxs : ∀ y ∈ xs, SecOK length y := fun y hy => h y (by simp [hy])
    have e1 : k + secsIters (x :: xs) = (k + secsIters xs) + x.iters := by
      simp [secsIters]; omega
    have e2 : secsText (x :: xs) ++ rest = x.text ++ (secsText xs ++ rest) := by
      simp [secsText, List.flatMap_cons, List.append_assoc]
    rw [e1, e2, hx.2.2 _ s _ (secsText_starts length xs hxs rest hrest), ih hxs]
    rfl

theorem secsIters_le (length : Int) (secs : List Section) (h : ∀ x ∈ secs, SecOK length x) :
    secsIters secs ≤ (secsText secs).length := by
  induction secs with
  | nil => simp [secsIters, secsText]
  | cons x xs ih =>
    have := (h x (by simp)).2.1
    have := ih (fun y hy => h y (by simp [hy]))
    simp only [secsIters, secsText, List.map_cons, List.sum_cons, List.flatMap_cons, List.length_append] at *
    omega

/-! ### the sections -/

/-- a section that one sub-parser takes in one pass -/
theorem secOK_of_tryAll (length : Int) (text : Bytes) (act : Sub → Sub)
    (hne : ∃ c txt, text = c :: txt ∧ isUpper c = true)
    (hstart : ∀ rest, startsField (text ++ rest) = true)
    (h : ∀ (s : Sub) (rest : Bytes), startsField rest = true →
      tryAll length 12 s ⟨text ++ rest, []⟩ = (.ok (.parsed (act s)), ⟨rest, []⟩)) :
    SecOK length ⟨text, act, 1⟩ := by
  obtain ⟨c, txt, rfl, hc⟩ := hne
  refine ⟨hstart, by simp, ?_⟩
  intro k s rest hrest
  exact loop_step length k s (act s) c (txt ++ rest) rest hc (h s rest hrest)

/-- `tryAll_at` for the sub-parsers that work on the fields -/
theorem tryAll_liftF (k : Nat) (hk : k < 11) (length : Int) (f f' : Fields) (t : List QFeature) (o : OriginV)
    (r : Registry) (inp rest : Bytes) (hnot : notNames k inp = true) (p : Fields → P (Fields × Bool))
    (hp : (fieldParsers length 12)[k]? = some (liftF p))
    (hrun : p f ⟨inp, [inp]⟩ = (.ok (f', true), ⟨rest, [inp]⟩)) :
    tryAll length 12 (f, t, o, r) ⟨inp, []⟩ = (.ok (.parsed (f', t, o, r)), ⟨rest, []⟩) := by
  apply tryAll_at k hk length _ _ inp rest [inp] hnot (liftF p) hp
  · gsimp [liftF, hrun]
  · rfl

def secDefinition (v : Bytes) : Section :=
  ⟨bs "DEFINITION  " ++ (addPrefix indent v ++ bs ".\n"), fun (f, t, o, r) => ({ f with definition := v }, t, o, r), 1⟩

theorem secDefinition_ok (length : Int) (v : Bytes) (hv : noCR v = true) : SecOK length (secDefinition v) := by
  unfold secDefinition
  apply secOK_of_tryAll
  · exact ⟨68, bs "EFINITION  " ++ (addPrefix indent v ++ bs ".\n"), by simp [bs], by decide⟩
  · intro rest; simp [startsField, refStop, refAltList, bs, List.isPrefixOf]; decide
  · intro s rest hrest
    obtain ⟨f, t, o, r⟩ := s
    have hr := definition_roundtrip f v rest [bs "DEFINITION  " ++ (addPrefix indent v ++ (bs ".\n" ++ rest))] hv
      (startsField_not_sp 12 (by omega) rest hrest)
    have e2 : bs "DEFINITION  " ++ (addPrefix indent v ++ bs ".\n") ++ rest =
        bs "DEFINITION  " ++ (addPrefix indent v ++ (bs ".\n" ++ rest)) := by simp [List.append_assoc]
    rw [e2]
    exact tryAll_liftF 0 (by omega) length f _ t o r _ rest (by simp [notNames]) (definitionField 12)
      (by simp [fieldParsers]) hr

def secAccession (l : Bytes) : Section :=
  ⟨bs "ACCESSION   " ++ (l ++ [10]), fun (f, t, o, r) => ({ f with accession := l }, t, o, r), 1⟩

theorem secAccession_ok (length : Int) (l : Bytes) (hl : noEOL l = true) : SecOK length (secAccession l) := by
  unfold secAccession
  apply secOK_of_tryAll
  · exact ⟨65, bs "CCESSION   " ++ (l ++ [10]), by simp [bs], by decide⟩
  · intro rest; simp [startsField, refStop, refAltList, bs, List.isPrefixOf]; decide
  · intro s rest hrest
    obtain ⟨f, t, o, r⟩ := s
    have e2 : bs "ACCESSION   " ++ (l ++ [10]) ++ rest = bs "ACCESSION   " ++ (l ++ 10 :: rest) := by
      simp [List.append_assoc]
    rw [e2]
    have hr := accession_roundtrip f l rest [bs "ACCESSION   " ++ (l ++ 10 :: rest)] hl
      (startsField_not_sp 12 (by omega) rest hrest)
    exact tryAll_liftF 1 (by omega) length f _ t o r _ rest (by simp [notNames, fieldNames, bs, List.isPrefixOf])
      (accessionField 12) (by simp [fieldParsers]) hr

def secVersion (l : Bytes) : Section :=
  ⟨bs "VERSION     " ++ (l ++ [10]), fun (f, t, o, r) => ({ f with version := l }, t, o, r), 1⟩

theorem secVersion_ok (length : Int) (l : Bytes) (hl : noEOL l = true) : SecOK length (secVersion l) := by
  unfold secVersion
  apply secOK_of_tryAll
  · exact ⟨86, bs "ERSION     " ++ (l ++ [10]), by simp [bs], by decide⟩
  · intro rest; simp [startsField, refStop, refAltList, bs, List.isPrefixOf]; decide
  · intro s rest hrest
    obtain ⟨f, t, o, r⟩ := s
    have e2 : bs "VERSION     " ++ (l ++ [10]) ++ rest = bs "VERSION     " ++ (l ++ 10 :: rest) := by
      simp [List.append_assoc]
    rw [e2]
    have hr := version_roundtrip f l rest [bs "VERSION     " ++ (l ++ 10 :: rest)] hl
      (startsField_not_sp 12 (by omega) rest hrest)
    exact tryAll_liftF 2 (by omega) length f _ t o r _ rest (by simp [notNames, fieldNames, bs, List.isPrefixOf])
      (versionField 12) (by simp [fieldParsers]) hr

def secDblink (p : Bytes × Bytes) (ps : List (Bytes × Bytes)) : Section :=
  ⟨dblinkText (p :: ps) true, fun (f, t, o, r) => ({ f with dblink := dictSetAll f.dblink (p :: ps) }, t, o, r), 1⟩

theorem secDblink_ok (length : Int) (p : Bytes × Bytes) (ps : List (Bytes × Bytes))
    (hps : ∀ q ∈ p :: ps, pairOk q = true) : SecOK length (secDblink p ps) := by
  unfold secDblink
  have ht : ∀ rest, dblinkText (p :: ps) true ++ rest =
      bs "DBLINK" ++ (sp 6 ++ ((p.1 ++ 58 :: 32 :: p.2) ++ 10 :: (dblinkMoreText ps ++ rest))) := dblinkText_eq p ps
  apply secOK_of_tryAll
  · have := ht []
    simp only [List.append_nil] at this
    exact ⟨68, bs "BLINK" ++ (sp 6 ++ ((p.1 ++ 58 :: 32 :: p.2) ++ 10 :: dblinkMoreText ps)), by rw [this]; simp [bs], by decide⟩
  · intro rest; rw [ht]; simp [startsField, refStop, refAltList, bs, List.isPrefixOf]; decide
  · intro s rest hrest
    obtain ⟨f, t, o, r⟩ := s
    have hr := dblink_roundtrip f p ps rest [dblinkText (p :: ps) true ++ rest] hps
      (startsField_not_sp 12 (by omega) rest hrest)
    refine tryAll_liftF 3 (by omega) length f _ t o r _ rest ?_ (dblinkField 12) (by simp [fieldParsers]) hr
    rw [ht]; simp [notNames, fieldNames, bs, List.isPrefixOf]

def secKeywords (kws : List Bytes) : Section :=
  ⟨bs "KEYWORDS    " ++ (addPrefix indent (wrapSpace (joinWith (bs "; ") kws ++ [46])) ++ [10]),
   fun (f, t, o, r) => ({ f with keywords := kws }, t, o, r), 1⟩

theorem secKeywords_ok (length : Int) (kws : List Bytes) (h : listOk kws = true) : SecOK length (secKeywords kws) := by
  unfold secKeywords
  apply secOK_of_tryAll
  · exact ⟨75, bs "EYWORDS    " ++ (addPrefix indent (wrapSpace (joinWith (bs "; ") kws ++ [46])) ++ [10]), by simp [bs], by decide⟩
  · intro rest; simp [startsField, refStop, refAltList, bs, List.isPrefixOf]; decide
  · intro s rest hrest
    obtain ⟨f, t, o, r⟩ := s
    have e2 : bs "KEYWORDS    " ++ (addPrefix indent (wrapSpace (joinWith (bs "; ") kws ++ [46])) ++ [10]) ++ rest =
        bs "KEYWORDS    " ++ (addPrefix indent (wrapSpace (joinWith (bs "; ") kws ++ [46])) ++ 10 :: rest) := by
      simp [List.append_assoc]
    rw [e2]
    have hr := fun st => keywords_roundtrip f kws rest st h (startsField_not_sp 12 (by omega) rest hrest)
    exact tryAll_liftF 4 (by omega) length f _ t o r _ rest (by simp [notNames, fieldNames, bs, List.isPrefixOf])
      (keywordsField 12) (by simp [fieldParsers]) (hr _)

def secSource (species name : Bytes) (taxon : List Bytes) : Section :=
  ⟨bs "SOURCE      " ++ (addPrefix indent (species) ++ 10 ::
      (bs "  ORGANISM  " ++ (addPrefix indent (name) ++ 10 ::
      (indent ++ (addPrefix indent (wrapSpace (joinWith (bs "; ") taxon ++ [46])) ++ [10]))))),
   fun (f, t, o, r) => ({ f with species := species, organism := name, taxon := taxon }, t, o, r), 1⟩

theorem secSource_ok (length : Int) (species name : Bytes) (taxon : List Bytes)
    (hs : noCR (species) = true) (hn : organismOk name = true) (ht : taxonOk taxon = true) :
    SecOK length (secSource species name taxon) := by
  unfold secSource
  apply secOK_of_tryAll
  · exact ⟨83, _, by simp [bs]; rfl, by decide⟩
  · intro rest; simp [startsField, refStop, refAltList, bs, List.isPrefixOf]; decide
  · intro s rest hrest
    obtain ⟨f, t, o, r⟩ := s
    have e2 : bs "SOURCE      " ++ (addPrefix indent (species) ++ 10 ::
        (bs "  ORGANISM  " ++ (addPrefix indent (name) ++ 10 ::
        (indent ++ (addPrefix indent (wrapSpace (joinWith (bs "; ") taxon ++ [46])) ++ [10]))))) ++ rest =
        bs "SOURCE      " ++ (addPrefix indent (species) ++ 10 ::
        (bs "  ORGANISM  " ++ (addPrefix indent (name) ++ 10 ::
        (indent ++ (addPrefix indent (wrapSpace (joinWith (bs "; ") taxon ++ [46])) ++ 10 :: rest))))) := by
      simp [List.append_assoc]
    rw [e2]
    have hr := fun st => source_roundtrip f species name taxon rest st hs hn ht (startsField_not_sp 12 (by omega) rest hrest)
    exact tryAll_liftF 5 (by omega) length f _ t o r _ rest (by simp [notNames, fieldNames, bs, List.isPrefixOf])
      (sourceField 12) (by simp [fieldParsers]) (hr _)

def secComment (v : Bytes) : Section :=
  ⟨bs "COMMENT     " ++ (addPrefix indent v ++ [10]), fun (f, t, o, r) => ({ f with comments := f.comments ++ [v] }, t, o, r), 1⟩

theorem secComment_ok (length : Int) (v : Bytes) (hv : noCR v = true) : SecOK length (secComment v) := by
  unfold secComment
  apply secOK_of_tryAll
  · exact ⟨67, bs "OMMENT     " ++ (addPrefix indent v ++ [10]), by simp [bs], by decide⟩
  · intro rest; simp [startsField, refStop, refAltList, bs, List.isPrefixOf]; decide
  · intro s rest hrest
    obtain ⟨f, t, o, r⟩ := s
    have e2 : bs "COMMENT     " ++ (addPrefix indent v ++ [10]) ++ rest = bs "COMMENT     " ++ (addPrefix indent v ++ 10 :: rest) := by
      simp [List.append_assoc]
    rw [e2]
    have hr := fun st => comment_roundtrip f v rest st hv (startsField_not_sp 12 (by omega) rest hrest)
    exact tryAll_liftF 7 (by omega) length f _ t o r _ rest (by simp [notNames, fieldNames, bs, List.isPrefixOf])
      (commentField 12) (by simp [fieldParsers]) (hr _)

def secReference (x : Reference) : Section :=
  ⟨refHead x ++ 10 :: subLinesText (presentLines x),
   fun (f, t, o, r) => ({ f with references := f.references ++ [x] }, t, o, r), 1⟩

theorem refHead_eq (x : Reference) :
    ∃ tl, refHead x = bs "REFERENCE   " ++ tl := by
  unfold refHead; split
  · exact ⟨_, rfl⟩
  · exact ⟨itoaB x.number ++ sp (3 - (itoaB x.number).length) ++ x.info, by simp [List.append_assoc]⟩

theorem secReference_ok (length : Int) (x : Reference) (h : referenceOk x = true) : SecOK length (secReference x) := by
  unfold secReference
  obtain ⟨tl, htl⟩ := refHead_eq x
  apply secOK_of_tryAll
  · exact ⟨82, bs "EFERENCE   " ++ (tl ++ 10 :: subLinesText (presentLines x)), by rw [htl]; simp [bs], by decide⟩
  · intro rest; rw [htl]; simp [startsField, refStop, refAltList, bs, List.isPrefixOf]; decide
  · intro s rest hrest
    obtain ⟨f, t, o, r⟩ := s
    have e2 : refHead x ++ 10 :: subLinesText (presentLines x) ++ rest =
        refHead x ++ 10 :: (subLinesText (presentLines x) ++ rest) := by simp [List.append_assoc]
    rw [e2]
    have hr := fun st => reference_roundtrip f x rest st h (startsField_refStop rest hrest)
    refine tryAll_liftF 6 (by omega) length f _ t o r _ rest ?_ (referenceField 12) (by simp [fieldParsers]) (hr _)
    rw [htl]; simp [notNames, fieldNames, bs, List.isPrefixOf]

/-- the names an extra field must not start with: the eleven field names (their sub-parsers would
claim the line) and the six REFERENCE sub-field names -/
def reservedNames : List String := fieldNames ++ refNames

/-- an extra field's name as written (`%-12s`) starts with none of the reserved names -/
def extraNameOk (name : Bytes) : Bool := reservedNames.all fun n => !(bs n).isPrefixOf (padRight 12 name)

theorem isPrefixOf_append_long (p a Y : Bytes) (h : p.length ≤ a.length) :
    p.isPrefixOf (a ++ Y) = p.isPrefixOf a := by
  induction p generalizing a with
  | nil => simp
  | cons x p ih =>
    cases a with
    | nil => simp at h
    | cons y a =>
      simp only [List.cons_append, List.isPrefixOf]
      rw [ih a (by simp only [List.length_cons] at h; omega)]

theorem reserved_lengths : ∀ n ∈ reservedNames, (bs n).length ≤ 12 := by decide

def secExtra (name value : Bytes) : Section :=
  ⟨extraText name value ++ [10], fun (f, t, o, r) => ({ f with extra := f.extra ++ [(name, value)] }, t, o, r), 1⟩

theorem secExtra_ok (length : Int) (name value : Bytes) (hw : WritableExtra name value = true)
    (hn : extraNameOk name = true) : SecOK length (secExtra name value) := by
  unfold secExtra
  have hw' := hw
  simp only [WritableExtra, Bool.and_eq_true, Bool.not_eq_true', List.isEmpty_eq_false_iff] at hw'
  obtain ⟨⟨⟨⟨hne, hup⟩, hlen⟩, _⟩, _⟩ := hw'
  have hpl : 12 ≤ (padRight 12 name).length := by
    simp only [padRight, List.length_append, sp_length]; omega
  have hres : ∀ n ∈ reservedNames, ∀ Y, (bs n).isPrefixOf (extraText name value ++ Y) = false := by
    intro n hnm Y
    simp only [extraNameOk, List.all_eq_true, Bool.not_eq_true'] at hn
    have := hn n hnm
    simp only [extraText, List.append_assoc]
    rw [isPrefixOf_append_long _ _ _ (by have := reserved_lengths n hnm; omega)]
    exact this
  obtain ⟨c, tl, hc⟩ : ∃ c tl, name = c :: tl := by
    cases name with
    | nil => exact absurd rfl hne
    | cons c tl => exact ⟨c, tl, rfl⟩
  have hcu : isUpper c = true := by
    rw [hc] at hup; simp only [List.all_cons, Bool.and_eq_true] at hup; exact hup.1
  have hnot : ∀ Y, notNames 11 (extraText name value ++ Y) = true := by
    intro Y
    simp only [notNames, List.all_eq_true, Bool.not_eq_true']
    intro n hnm
    exact hres n (by
      have : fieldNames.take 11 = fieldNames := by decide
      rw [this] at hnm
      simp [reservedNames, hnm]) Y
  apply secOK_of_tryAll
  · exact ⟨c, tl ++ sp (12 - name.length) ++ addPrefix indent value ++ [10], by simp [extraText, padRight, hc, List.append_assoc], hcu⟩
  · intro rest
    simp only [startsField, Bool.and_eq_true, refStop, bne_iff_ne, ne_eq, List.all_eq_true, Bool.not_eq_true']
    have e : extraText name value ++ [10] ++ rest = c :: (tl ++ sp (12 - name.length) ++ addPrefix indent value ++ [10] ++ rest) := by
      simp [extraText, padRight, hc, List.append_assoc]
    refine ⟨by rw [e]; simp [hcu], ?_, ?_⟩
    · rw [e]; simpa using upper_ne_blank c hcu
    · intro x hx
      have hx' : x.1 ∈ reservedNames := by
        have : refAltList.map (·.1) = refNames := by decide
        simp only [reservedNames, List.mem_append]; right
        rw [← this]; exact List.mem_map_of_mem hx
      have := hres x.1 hx' ([10] ++ rest)
      simpa [List.append_assoc] using this
  · intro s rest hrest
    obtain ⟨f, t, o, r⟩ := s
    have e2 : extraText name value ++ [10] ++ rest = extraText name value ++ 10 :: rest := by simp [List.append_assoc]
    rw [e2]
    exact tryAll_extra length f t o r name value rest (hnot _) hw (startsField_not_sp 12 (by omega) rest hrest)

/-- CONTIG: the field, then its line feed as an empty unknown line: two passes -/
def secContig (g : Fields) : Section :=
  ⟨bs "CONTIG      " ++ (contigText g ++ [10]),
   fun (f, t, o, r) => ({ f with contigAcc := g.contigAcc, contigHead := g.contigHead, contigTail := g.contigTail }, t, o, r), 2⟩

theorem secContig_ok (length : Int) (g : Fields) (h : contigOk g = true) : SecOK length (secContig g) := by
  unfold secContig
  refine ⟨?_, by simp [bs], ?_⟩
  · intro rest; simp [startsField, refStop, refAltList, bs, List.isPrefixOf]; decide
  · intro k s rest hrest
    obtain ⟨f, t, o, r⟩ := s
    obtain ⟨c, rr, hc, _⟩ := startsField_spec rest hrest
    have e2 : bs "CONTIG      " ++ (contigText g ++ [10]) ++ rest = bs "CONTIG      " ++ (contigText g ++ 10 :: rest) := by
      simp [List.append_assoc]
    have e3 : bs "CONTIG      " ++ (contigText g ++ 10 :: rest) = 67 :: (bs "ONTIG      " ++ (contigText g ++ 10 :: rest)) := by
      simp [bs]
    have hr := fun st => contig_roundtrip f g (10 :: rest) st h
    have ht := tryAll_liftF 9 (by omega) length f _ t o r (bs "CONTIG      " ++ (contigText g ++ 10 :: rest)) (10 :: rest)
      (by simp [notNames, fieldNames, bs, List.isPrefixOf]) (contigField 12) (by simp [fieldParsers]) (hr _)
    rw [e2, show k + 2 = (k + 1) + 1 by omega]
    rw [e3] at ht ⊢
    rw [loop_step length (k + 1) _ _ 67 _ (10 :: rest) (by decide) ht, hc, loop_blank]

def secOrigin (p : Bytes) : Section :=
  ⟨bs "ORIGIN      \n" ++ Origin.originStream p, fun (f, t, _, r) => (f, t, .buffer (Origin.originStream p), r), 1⟩

theorem secOrigin_ok (p : Bytes) (hp : ∀ c ∈ p, Origin.isBase c = true) (hlen : p.length < 10 ^ 9) :
    SecOK (p.length : Int) (secOrigin p) := by
  unfold secOrigin
  apply secOK_of_tryAll
  · exact ⟨79, bs "RIGIN      \n" ++ Origin.originStream p, by simp [bs], by decide⟩
  · intro rest; simp [startsField, refStop, refAltList, bs, List.isPrefixOf]; decide
  · intro s rest hrest
    obtain ⟨f, t, o, r⟩ := s
    have e2 : bs "ORIGIN      \n" ++ Origin.originStream p ++ rest = bs "ORIGIN      \n" ++ (Origin.originStream p ++ rest) := by
      simp [List.append_assoc]
    rw [e2]
    have hr := fun st => origin_roundtrip p rest st hp hlen (startsField_head rest hrest)
    apply tryAll_at 10 (by omega) (p.length : Int) _ _ _ rest [] (by simp [notNames, fieldNames, bs, List.isPrefixOf])
      (originSub (p.length : Int) 12) (by simp [fieldParsers])
    · gsimp [originSub, hr]
    · rfl

end Gts.GenBank
