/-
  C07, record scanners: the program logic of `Gts.Lemmas.ParsSafe` for parsers that `Clear` the
  stack or `Pop` on a possibly empty one (the GenBank field parsers do both), so that the frame
  invariant "never pop a caller's frame" is too strong for them.

  The invariant used here is `Fr L [] 0 s`: EVERY saved position and the current one have at most
  `L` bytes left, and the saved positions are `Sorted`.  It is kept by every primitive including
  `Pop`, `Drop` and `Trail` on an empty stack and `Clear`; under it `pars.Trail` cannot hit its slice
  panic.  The bound `L` (bytes left when the record scanner cleared the stack) is carried along
  because the ORIGIN reader's panic-freedom needs the declared length to be small against it.

  `SafeS L p`: started in such a state, `p` does not panic and ends in such a state.
  `wps_run` runs a straight-line parser symbolically (the analogue of `wp_run`).
  Core Lean only.
-/
import Gts.Lemmas.ParsSafe2
namespace Gts.Pars

variable {L : Nat} {s : PS}

/-- the invariant spelled out -/
theorem Fr.mk0 (hall : ∀ f ∈ s.stk, f.length ≤ L) (hle : s.rest.length ≤ L)
    (hsrt : Sorted s.rest.length s.stk) : Fr L [] 0 s :=
  ⟨⟨s.stk, by simp, Nat.zero_le _, hall⟩, hle, hsrt⟩

theorem Fr.all0 (h : Fr L [] 0 s) : ∀ f ∈ s.stk, f.length ≤ L := by
  obtain ⟨e, h1, _, h3⟩ := h.ex
  rw [List.append_nil] at h1
  rw [h1]; exact h3

/-- forget the caller's frames and the count: what is left is the S-invariant, provided the
caller's frames are bounded too -/
theorem Fr.toS {base n} (h : Fr L base n s) (hb : ∀ f ∈ base, f.length ≤ L) : Fr L [] 0 s := by
  obtain ⟨e, h1, _, h3⟩ := h.ex
  refine Fr.mk0 ?_ h.le h.srt
  intro f hf
  rw [h1, List.mem_append] at hf
  rcases hf with hf | hf
  · exact h3 f hf
  · exact hb f hf

/-- after `Clear` any frame state is an S-state -/
theorem Fr.cleared {base n} (h : Fr L base n s) : Fr L [] 0 { s with stk := [] } :=
  Fr.mk0 (fun _ hf => nomatch hf) h.le trivial

/-- `p` never panics and keeps the S-invariant with bound `L` -/
def SafeS {α} (L : Nat) (p : P α) : Prop :=
  ∀ s, Fr L [] 0 s → WP p (Std L [] 0) s

theorem Safe.toS {α} {p : P α} (hp : Safe p) (L : Nat) : SafeS L p :=
  fun s h => hp L [] 0 s h

/-! ### rules for the primitives under the S-invariant -/

theorem wps_push {Q} (h : Fr L [] 0 s)
    (k : ∀ s', Fr L [] 0 s' → Q (.ok ()) s') : WP push Q s :=
  wp_push h fun s' h' => k s' h'.weaken

theorem wps_pop {Q} (h : Fr L [] 0 s)
    (k : ∀ s', Fr L [] 0 s' → Q (.ok ()) s') : WP pop Q s := by
  unfold WP; rw [run_pop]
  cases hs : s.stk with
  | nil => exact k _ h
  | cons f st =>
    apply k
    have hall := h.all0
    have hsrt := h.srt
    rw [hs] at hall hsrt
    exact Fr.mk0 (fun g hg => hall g (List.mem_cons_of_mem _ hg)) (hall f (List.mem_cons_self ..))
      hsrt.2

theorem wps_drop {Q} (h : Fr L [] 0 s)
    (k : ∀ s', Fr L [] 0 s' → Q (.ok ()) s') : WP drop Q s := by
  apply k
  have hall := h.all0
  have hsrt := h.srt
  refine Fr.mk0 ?_ h.le ?_
  · intro g hg; exact hall g (List.mem_of_mem_drop hg)
  · show Sorted s.rest.length (s.stk.drop 1)
    cases hs : s.stk with
    | nil => trivial
    | cons f st => rw [hs] at hsrt; exact hsrt.tail

theorem wps_clear {Q} (h : Fr L [] 0 s)
    (k : ∀ s', Fr L [] 0 s' → Q (.ok ()) s') : WP clear Q s := by
  apply k; exact h.cleared

theorem wps_trail {Q} (h : Fr L [] 0 s)
    (k : ∀ v s', Fr L [] 0 s' → Q (.ok v) s') : WP trail Q s := by
  unfold WP; rw [run_trail]
  cases hs : s.stk with
  | nil => exact k _ _ h
  | cons f st =>
    have hall := h.all0
    have hsrt := h.srt
    rw [hs] at hall hsrt
    have : ¬ f.length < s.rest.length := Nat.not_lt.mpr hsrt.1
    simp only [this, if_false]
    apply k
    have hl : (f.drop (f.length - s.rest.length)).length = s.rest.length := by
      rw [List.length_drop]; have := hsrt.1; omega
    refine Fr.mk0 (fun g hg => hall g (List.mem_cons_of_mem _ hg)) ?_ ?_
    · show (f.drop _).length ≤ L; rw [hl]; exact h.le
    · show Sorted (f.drop _).length _; rw [hl]; exact hsrt.tail

/-- `setS` to a state that is given explicitly -/
theorem wps_setS {Q} (t : PS) (k : Q (.ok ()) t) : WP (setS t) Q s := k

/-- use a proved `SafeS` parser inside a larger one -/
theorem wps_call {α} {p : P α} {Q} (h : Fr L [] 0 s) (hp : SafeS L p)
    (kok : ∀ a s', Fr L [] 0 s' → Q (.ok a) s')
    (kf : ∀ s', Fr L [] 0 s' → Q (.error .fail) s') : WP p Q s := by
  have := hp s h
  unfold WP Std at *
  cases hr : (p.run' s).1 with
  | ok a => exact kok a _ this.2
  | error e =>
    cases e with
    | fail => exact kf _ this.2
    | panic => exact absurd hr this.1

theorem wps_attempt {α} {p : P α} {Q} (h : Fr L [] 0 s) (hp : SafeS L p)
    (k : ∀ o s', Fr L [] 0 s' → Q (.ok o) s') : WP (attempt p) Q s := by
  have := hp s h
  unfold WP Std at *
  rw [run_attempt]
  cases hr : p.run' s with
  | mk r s' =>
    rw [hr] at this
    cases r with
    | ok a => exact k _ _ this.2
    | error e =>
      cases e with
      | fail => exact k _ _ this.2
      | panic => exact absurd rfl this.1

/-- side goals `SafeS L p`; extended as parsers are proved -/
syntax "safeS_side" : tactic
macro_rules | `(tactic| safeS_side) => `(tactic| first
  | assumption
  | (with_reducible apply Safe.toS; safe_side)
  | (with_reducible apply_assumption -exfalso))

macro "wps_close" : tactic => `(tactic| first
  | exact std_ok ‹_› | exact std_fail ‹_›)

macro "wps_step" : tactic => `(tactic| first
  | dsimp only
  | rw [wp_bind]
  | rw [wp_pure]
  | rw [wp_fail]
  | rw [wp_map]
  | (with_reducible apply wps_push ‹_›; intro _ _)
  | (with_reducible apply wps_pop ‹_›; intro _ _)
  | (with_reducible apply wps_drop ‹_›; intro _ _)
  | (with_reducible apply wps_clear ‹_›; intro _ _)
  | (with_reducible apply wps_trail ‹_›; intro _ _ _)
  | (with_reducible apply wp_advance1 ‹_›; intro _ _)
  | (with_reducible apply wp_advanceN _ ‹_›; intro _ _)
  | (with_reducible apply wp_skipWhile _ ‹_›; intro _ _)
  | (with_reducible apply wp_next ‹_› <;> intros)
  | (with_reducible apply wp_request _ ‹_› <;> intros)
  | (with_reducible apply wp_pushed; intro _)
  | (with_reducible apply wp_getS)
  | (with_reducible apply wps_attempt ‹_› (by safeS_side); intro _ _ _)
  | (with_reducible apply wps_call ‹_› (by safeS_side) <;> intros)
  | wps_close
  | split)

/-- prove `SafeS L p` for a straight-line parser by running it symbolically -/
macro "wps_run" : tactic => `(tactic| (intro _ _; repeat wps_step))

end Gts.Pars
