/-
  Helpers for the record-level corollaries: membership through `List.Perm` of a mapped table.
-/
import Gts.Model.Seq
import Gts.Spec.Den
namespace Gts

theorem mem_of_perm_map {α β} {l : List β} {m : List α} {g : α → β}
    (h : l.Perm (m.map g)) {f : α} (hf : f ∈ m) : g f ∈ l :=
  h.symm.subset (List.mem_map_of_mem hf)

theorem mem_of_perm_map_append_left {α β} {l : List β} {m : List α} {r : List β} {g : α → β}
    (h : l.Perm (m.map g ++ r)) {f : α} (hf : f ∈ m) : g f ∈ l :=
  h.symm.subset (List.mem_append_left _ (List.mem_map_of_mem hf))

theorem mem_of_perm_map_append_right {α β} {l : List β} {m : List α} {r : List β} {g : α → β}
    (h : l.Perm (r ++ m.map g)) {f : α} (hf : f ∈ m) : g f ∈ l :=
  h.symm.subset (List.mem_append_right _ (List.mem_map_of_mem hf))

theorem Seq.len_nonneg (s : Seq) : 0 ≤ s.len := by unfold Seq.len; omega

open Loc in
mutual
/-- stripping partial markers does not change what a location denotes -/
theorem den_asComplete : ∀ l : Loc, den (asComplete l) = den l
  | .ranged s e _ _ => by simp [asComplete, den]
  | .joined ls => by simp [asComplete, den, denList_asComplete ls]
  | .ordered ls => by simp [asComplete, den, denList_asComplete ls]
  | .between _ => rfl
  | .point _ => rfl
  | .ambiguous _ _ => rfl
  | .compl l => by simp [asComplete, den, den_asComplete l]
theorem denList_asComplete : ∀ ls : List Loc, denList (asCompleteList ls) = denList ls
  | [] => rfl
  | l :: ls => by simp [asCompleteList, denList, den_asComplete l, denList_asComplete ls]
end

end Gts
