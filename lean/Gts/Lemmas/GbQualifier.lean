/-
  C01 helper lemmas: one qualifier as written by `QualifierIO.Format(prefix)` and read by
  `QualifierParser(prefix)` — toggle, literal (with continuation lines), quoted and unknown
  (learned as quoted).  Core Lean only.
-/
import Gts.Lemmas.GbQuoted
import Gts.Lemmas.GbFields
namespace Gts.GenBank
open Gts.Pars

/-- a qualifier (or feature-key) name: a non-empty snake-case word -/
def nameOk (name : Bytes) : Bool := !name.isEmpty && name.all isSnake

theorem isPrefixOf_split {a b : Bytes} (h : a.isPrefixOf b = true) : b = a ++ b.drop a.length := by
  induction a generalizing b with
  | nil => simp
  | cons x a ih =>
    match b, h with
    | [], h => simp [List.isPrefixOf] at h
    | y :: b, h =>
      simp only [List.isPrefixOf, Bool.and_eq_true, beq_iff_eq] at h
      rw [h.1, List.length_cons, List.drop_succ_cons, List.cons_append, ← ih h.2]

/-! ### `AddPrefix` and text without line feed -/

theorem addPrefix_append_noLF (pre a b : Bytes) (ha : noLF a) :
    addPrefix pre (a ++ b) = a ++ addPrefix pre b := by
  induction a with
  | nil => rfl
  | cons c a ih =>
    have hc : c ≠ 10 := ha c (by simp)
    simp only [List.cons_append, addPrefix, hc, if_false]
    rw [ih (fun x hx => ha x (by simp [hx]))]

theorem addPrefix_noLF' (pre a : Bytes) (ha : noLF a) : addPrefix pre a = a := by
  have := addPrefix_append_noLF pre a [] ha
  simpa [addPrefix] using this

theorem noLF_append {a b : Bytes} (ha : noLF a) (hb : noLF b) : noLF (a ++ b) := by
  intro c hc
  rcases List.mem_append.mp hc with h | h
  · exact ha c h
  · exact hb c h

theorem noLF_cons {c : UInt8} {a : Bytes} (hc : c ≠ 10) (ha : noLF a) : noLF (c :: a) := by
  intro x hx
  rcases List.mem_cons.mp hx with rfl | h
  · exact hc
  · exact ha x h

theorem noLF_nil : noLF [] := fun _ h => by simp at h

theorem snake_noLF (name : Bytes) (h : name.all isSnake = true) : noLF name := by
  intro c hc
  have := List.all_eq_true.mp h c hc
  intro e; subst e; revert this; decide

/-! ### the name -/

theorem qualifierName_ok (pre name X : Bytes) (stk : List Bytes) (hn : nameOk name = true)
    (hX : ∀ c, X.head? = some c → isSnake c = false) :
    qualifierName pre ⟨pre ++ 47 :: (name ++ X), stk⟩ = (.ok name, ⟨X, stk⟩) := by
  simp only [nameOk, Bool.and_eq_true, Bool.not_eq_true', List.isEmpty_eq_false_iff] at hn
  have hl : lit (pre ++ [47]) ⟨pre ++ 47 :: (name ++ X), stk⟩ = (.ok (), ⟨name ++ X, stk⟩) := by
    have := lit_ok (pre ++ [47]) (name ++ X) stk
    simpa using this
  gsimp [qualifierName, hl, word_ok isSnake name X _ hn.2 hn.1 hX]

/-! ### literal values -/

/-- what may follow a literal value: not the indent, or the indent followed by the end of the
input or by the slash of the next qualifier -/
def litStop (d : Nat) (rest : Bytes) : Prop :=
  (sp d).isPrefixOf rest = false ∨ rest = sp d ∨ ∃ r, rest = sp d ++ 47 :: r

/-- the same, decidable -/
def litStopB (d : Nat) (rest : Bytes) : Bool :=
  !(sp d).isPrefixOf rest || (match rest.drop d with | [] => true | c :: _ => c == 47)

theorem litStop_of_B (d : Nat) (rest : Bytes) (h : litStopB d rest = true) : litStop d rest := by
  unfold litStopB at h
  by_cases hp : (sp d).isPrefixOf rest = true
  · have e := isPrefixOf_split hp
    rw [sp_length] at e
    simp only [hp, Bool.not_true, Bool.false_or] at h
    cases hr : rest.drop d with
    | nil => right; left; rw [e, hr]; simp
    | cons c r =>
      rw [hr] at h
      have hc : c = 47 := by simpa using h
      right; right; exact ⟨r, by rw [e, hr, hc]⟩
  · left; exact Bool.eq_false_iff.2 hp

/-- one continuation line: indent, a line that does not start with a slash, line feed -/
theorem literalMore_step (d : Nat) (l more fr : Bytes) (stk : List Bytes) (p : Bytes) (f : Nat)
    (hl : noEOL l = true) (hh : l.head? ≠ some 47) :
    literalMore (sp d) (f + 1) p ⟨sp d ++ (l ++ 10 :: more), fr :: stk⟩ =
      literalMore (sp d) f (p ++ 10 :: l) ⟨more, more :: stk⟩ := by
  cases l with
  | nil =>
    have hline := fun s => line_ok [] more s rfl
    simp only [List.nil_append] at hline
    simp only [List.nil_append, literalMore, P.bind_run, attempt_run, lit_ok, next_cons,
      show ((10 : UInt8) == 47) = false by decide, Bool.false_eq_true, if_false, hline, Pars.drop, push, getS,
      setS, P.pure_run, List.drop_succ_cons, List.drop_zero]
  | cons c l' =>
    have hc47 : (c == 47) = false := by
      simp only [List.head?_cons, ne_eq, Option.some.injEq] at hh
      simpa using hh
    have hline := fun s => line_ok (c :: l') more s hl
    simp only [List.cons_append] at hline
    simp only [List.cons_append, literalMore, P.bind_run, attempt_run, lit_ok, next_cons, hc47,
      Bool.false_eq_true, if_false, hline, Pars.drop, push, getS, setS, P.pure_run, List.drop_succ_cons,
      List.drop_zero]

theorem literalMore_lines (d : Nat) (ls : List Bytes) (rest : Bytes) (stk : List Bytes) (p : Bytes) (f : Nat)
    (fr : Bytes) (hls : ∀ l ∈ ls, noEOL l = true ∧ l.head? ≠ some 47) (hstop : litStop d rest)
    (hf : ls.length < f) (hfr : ls = [] → fr = rest) :
    literalMore (sp d) f p ⟨contText (sp d) ls ++ rest, fr :: stk⟩ =
      (.ok (p ++ sepText 10 ls), ⟨rest, stk⟩) := by
  induction ls generalizing p f fr with
  | nil =>
    have hfr' := hfr rfl
    subst hfr'
    cases f with
    | zero => omega
    | succ f =>
      simp only [contText, List.flatMap_nil, List.nil_append, sepText, List.append_nil]
      rcases hstop with h | h | ⟨r, h⟩
      · gsimp [literalMore, lit_fail _ _ _ h]
      · subst h
        have := lit_ok (sp d) [] (sp d :: stk)
        simp only [List.append_nil] at this
        gsimp [literalMore, this, next_nil]
      · subst h
        gsimp [literalMore, lit_ok, next_cons]
  | cons l ls ih =>
    cases f with
    | zero => omega
    | succ f =>
      obtain ⟨hl, hh⟩ := hls l (by simp)
      have hls' : ∀ l ∈ ls, noEOL l = true ∧ l.head? ≠ some 47 := fun x hx => hls x (by simp [hx])
      rw [contText_cons, sepText_cons]
      simp only [List.append_assoc, List.cons_append]
      rw [literalMore_step d l _ fr stk p f hl hh,
        ih (p ++ 10 :: l) f _ hls' (by simp only [List.length_cons] at hf; omega) (fun _ => by simp_all [contText])]
      simp

/-- a literal value: no carriage return, and no continuation line that starts with a slash -/
def literalOk (v : Bytes) : Bool := noCR v && (tailLines v).all fun l => l.head? != some 47

/-- `literalQualifierParser(prefix)` behind the name -/
theorem literalValue_ok (d : Nat) (v rest : Bytes) (stk : List Bytes) (hv : literalOk v = true)
    (hstop : litStop d rest) :
    literalValue (sp d) ⟨61 :: (addPrefix (sp d) v ++ 10 :: rest), stk⟩ = (.ok v, ⟨rest, stk⟩) := by
  simp only [literalOk, Bool.and_eq_true, List.all_eq_true, bne_iff_ne, ne_eq] at hv
  obtain ⟨h0, hls0⟩ := lines_noEOL v hv.1
  have hls : ∀ l ∈ tailLines v, noEOL l = true ∧ l.head? ≠ some 47 := fun l hl => ⟨hls0 l hl, hv.2 l hl⟩
  have hlen : (tailLines v).length < (contText (sp d) (tailLines v) ++ rest).length + 1 := by
    have := contText_length_ge (sp d) (tailLines v)
    simp only [List.length_append]; omega
  rw [addPrefix_lines]
  have hm := fun s => literalMore_lines d (tailLines v) rest s (headLine v) _
    (contText (sp d) (tailLines v) ++ rest) hls hstop hlen (fun h => by simp [h, contText])
  have hl := fun s => line_ok (headLine v) (contText (sp d) (tailLines v) ++ rest) s h0
  simp only [literalValue, P.bind_run, push, getS, setS, attempt_run, next_cons, P.pure_run,
    show ((61 : UInt8) != 61) = false by decide, Bool.false_eq_true, if_false, advance1,
    List.drop_succ_cons, List.drop_zero, hl, hm, Pars.drop]
  rw [← lines_join v]

/-! ### quoted values -/

/-- a quoted value: it survives the quote scan and none of its line feeds is followed by the
whole indent -/
def quotedOk (d : Nat) (v : Bytes) : Bool := quoteClean v && noCont d v

/-- `quotedQualifierParser(prefix)` behind the name -/
theorem quotedValue_ok (d : Nat) (v rest : Bytes) (stk : List Bytes) (hv : quotedOk d v = true) :
    quotedValue (sp d) ⟨61 :: 34 :: (addPrefix (sp d) v ++ 34 :: 10 :: rest), stk⟩ = (.ok v, ⟨rest, stk⟩) := by
  simp only [quotedOk, Bool.and_eq_true] at hv
  have hclean : qscan false (addPrefix (sp d) v) = true := (qscan_addPrefix d v).1 hv.1
  have hq := fun s => quoted_ok (addPrefix (sp d) v) (10 :: rest) s hclean
  simp only [quotedValue, P.bind_run, push, getS, setS, attempt_run, next_cons, P.pure_run,
    show ((61 : UInt8) != 61) = false by decide, Bool.false_eq_true, if_false, advance1,
    List.drop_succ_cons, List.drop_zero, hq, Pars.drop, eol_lf]
  rw [stripCont_addPrefix d v hv.2]

/-! ### the qualifier -/

/-- the domain of one qualifier under the registry: a snake-case name and a value that suits the
name's type (a toggle has no value: the writer writes none) -/
def WritableQualifier (reg : Registry) (d : Nat) (name value : Bytes) : Bool :=
  nameOk name &&
  match reg.typeOf name with
  | .literal => literalOk value
  | .toggle => value.isEmpty
  | _ => quotedOk d value

/-- the value that comes back: empty for a toggle (repo 2dd2956), else the value — on the domain
`WritableQualifier` that is the value itself (`readValue_eq`) -/
def readValue (reg : Registry) (name value : Bytes) : Bytes :=
  if reg.typeOf name = .toggle then [] else value

theorem readValue_eq (reg : Registry) (d : Nat) (name value : Bytes)
    (h : WritableQualifier reg d name value = true) : readValue reg name value = value := by
  unfold readValue
  split
  · rename_i ht
    simp only [WritableQualifier, ht, Bool.and_eq_true, List.isEmpty_iff] at h
    exact h.2.symm
  · rfl

/-- the registry afterwards: an unknown name is learned as quoted -/
def learn (reg : Registry) (name : Bytes) : Registry :=
  if reg.typeOf name = .unknown then reg.addQuoted name else reg

theorem learn_le (reg : Registry) (name : Bytes) : reg.le (learn reg name) := by
  unfold learn Registry.le
  split
  · refine ⟨fun n hn => ?_, fun n hn => hn, fun n hn => hn⟩
    simp [Registry.addQuoted, hn]
  · exact ⟨fun n hn => hn, fun n hn => hn, fun n hn => hn⟩

theorem not_snake_61 : isSnake 61 = false := by decide
theorem not_snake_10 : isSnake 10 = false := by decide

/-- **Qualifier round trip.**  `QualifierParser(prefix)` on the text `QualifierIO.Format(prefix)`
wrote, followed by a line feed: the same name, the same value, the rest of the
input untouched, the stack as before, and the registry only grows (an unknown name is learned as
quoted).  `prefix` is `d` blanks (`d = 21` in a GenBank table). -/
theorem qualifier_roundtrip (reg : Registry) (d : Nat) (name value rest : Bytes) (stk : List Bytes)
    (hw : WritableQualifier reg d name value = true) (hstop : litStop d rest) :
    qualifier (sp d) reg ⟨qualifierFmt reg (sp d) name value ++ 10 :: rest, stk⟩ =
      (.ok ((name, readValue reg name value), learn reg name), ⟨rest, stk⟩) := by
  simp only [WritableQualifier, Bool.and_eq_true] at hw
  obtain ⟨hn, hv⟩ := hw
  have hsn : noLF name := snake_noLF name (by
    simp only [nameOk, Bool.and_eq_true] at hn; exact hn.2)
  have hsl : noLF (47 :: name) := noLF_cons (by decide) hsn
  cases ht : reg.typeOf name with
  | toggle =>
    have e : qualifierFmt reg (sp d) name value ++ 10 :: rest = sp d ++ 47 :: (name ++ 10 :: rest) := by
      have := addPrefix_noLF' (sp d) (47 :: name) hsl
      simp only [qualifierFmt, qualifierText, ht, this]
      simp
    rw [e]
    have hq := fun s => qualifierName_ok (sp d) name (10 :: rest) s hn (by
      intro c hc; simp at hc; subst hc; exact not_snake_10)
    gsimp [qualifier, hq, ht, eol_lf, readValue, learn]
  | literal =>
    rw [ht] at hv
    have e : qualifierFmt reg (sp d) name value ++ 10 :: rest =
        sp d ++ 47 :: (name ++ 61 :: (addPrefix (sp d) value ++ 10 :: rest)) := by
      have h1 : noLF (47 :: name ++ [61]) :=
        noLF_append hsl (noLF_cons (by decide) noLF_nil)
      have := addPrefix_append_noLF (sp d) (47 :: name ++ [61]) value h1
      simp only [List.cons_append, List.append_assoc, List.singleton_append, List.nil_append] at this
      simp [qualifierFmt, qualifierText, ht, this]
    rw [e]
    have hq := fun s => qualifierName_ok (sp d) name (61 :: (addPrefix (sp d) value ++ 10 :: rest)) s hn (by
      intro c hc; simp at hc; subst hc; exact not_snake_61)
    have hl := fun s => literalValue_ok d value rest s hv hstop
    gsimp [qualifier, hq, ht, hl, readValue, learn]
  | quoted =>
    rw [ht] at hv
    have e : qualifierFmt reg (sp d) name value ++ 10 :: rest =
        sp d ++ 47 :: (name ++ 61 :: 34 :: (addPrefix (sp d) value ++ 34 :: 10 :: rest)) := by
      have h1 : noLF (47 :: name ++ [61, 34]) :=
        noLF_append hsl (noLF_cons (by decide) (noLF_cons (by decide) noLF_nil))
      have := addPrefix_append_noLF (sp d) (47 :: name ++ [61, 34]) (value ++ [34]) h1
      rw [addPrefix_append_byte _ _ _ (by decide)] at this
      simp only [List.cons_append, List.append_assoc, List.singleton_append, List.nil_append] at this
      simp [qualifierFmt, qualifierText, ht, this]
    rw [e]
    have hq := fun s => qualifierName_ok (sp d) name (61 :: 34 :: (addPrefix (sp d) value ++ 34 :: 10 :: rest)) s hn (by
      intro c hc; simp at hc; subst hc; exact not_snake_61)
    have hl := fun s => quotedValue_ok d value rest s hv
    gsimp [qualifier, hq, ht, hl, readValue, learn]
  | unknown =>
    rw [ht] at hv
    have e : qualifierFmt reg (sp d) name value ++ 10 :: rest =
        sp d ++ 47 :: (name ++ 61 :: 34 :: (addPrefix (sp d) value ++ 34 :: 10 :: rest)) := by
      have h1 : noLF (47 :: name ++ [61, 34]) :=
        noLF_append hsl (noLF_cons (by decide) (noLF_cons (by decide) noLF_nil))
      have := addPrefix_append_noLF (sp d) (47 :: name ++ [61, 34]) (value ++ [34]) h1
      rw [addPrefix_append_byte _ _ _ (by decide)] at this
      simp only [List.cons_append, List.append_assoc, List.singleton_append, List.nil_append] at this
      simp [qualifierFmt, qualifierText, ht, this]
    rw [e]
    have hq := fun s => qualifierName_ok (sp d) name (61 :: 34 :: (addPrefix (sp d) value ++ 34 :: 10 :: rest)) s hn (by
      intro c hc; simp at hc; subst hc; exact not_snake_61)
    have hl := fun s => quotedValue_ok d value rest s hv
    gsimp [qualifier, hq, ht, hl, readValue, learn]

end Gts.GenBank
