/-
  `Repair` (property C12), part 9: the grouping text `fmt.Sprintf("%q:%q", Key, Props)` determines
  key and qualifiers (a decoder with `decode (classKeyChars f) = (key, props)`).  Core Lean only.
-/
import Gts.Lemmas.Repair
namespace Gts

/-! ### reading a quoted string back -/

/-- read the body of a quoted string up to the closing quote; `esc`: the previous character
was a backslash -/
def unescAux : Bool → List Char → List Char → Option (List Char × List Char)
  | _, _, [] => none
  | true, acc, c :: rest => unescAux false (c :: acc) rest
  | false, acc, c :: rest =>
    if c = '"' then some (acc.reverse, rest)
    else if c = '\\' then unescAux true acc rest
    else unescAux false (c :: acc) rest

theorem unescAux_esc (s acc rest : List Char) :
    unescAux false acc (escChars s ++ '"' :: rest) = some (acc.reverse ++ s, rest) := by
  induction s generalizing acc with
  | nil => simp [escChars, unescAux]
  | cons c cs ih =>
    simp only [escChars]
    by_cases h : c = '"' ∨ c = '\\'
    · simp only [h, if_true, List.cons_append, List.nil_append]
      have h1 : ¬ ('\\' = '"') := by decide
      simp only [unescAux, h1, if_false, if_true]
      rw [ih]
      simp
    · have h1 : ¬ c = '"' := fun e => h (Or.inl e)
      have h2 : ¬ c = '\\' := fun e => h (Or.inr e)
      simp only [h, if_false, List.cons_append, List.nil_append]
      simp only [unescAux, h1, h2, if_false]
      rw [ih]
      simp

/-- read one quoted string -/
def unquote : List Char → Option (String × List Char)
  | c :: r => if c = '"' then (unescAux false [] r).map fun p => (String.ofList p.1, p.2) else none
  | [] => none

theorem unquote_quote (v : String) (rest : List Char) :
    unquote (quoteChars v.toList ++ rest) = some (v, rest) := by
  simp only [quoteChars, List.cons_append, List.append_assoc, unquote, if_true]
  rw [unescAux_esc]
  simp [String.ofList_toList]

/-! ### reading a bracketed, space-separated list back -/

def decSep {α} (item : List Char → Option (α × List Char)) : Nat → List Char → Option (List α × List Char)
  | 0, _ => none
  | fuel + 1, inp =>
    match item inp with
    | none => none
    | some (x, r) =>
      match r with
      | [] => none
      | c :: r' =>
        if c = ']' then some ([x], r')
        else if c = ' ' then (decSep item fuel r').map fun p => (x :: p.1, p.2)
        else none

def decBracket {α} (item : List Char → Option (α × List Char)) (fuel : Nat) :
    List Char → Option (List α × List Char)
  | c :: d :: r => if c = '[' then (if d = ']' then some ([], r) else decSep item fuel (d :: r)) else none
  | _ => none

theorem decSep_sep {α} (item : List Char → Option (α × List Char)) (enc : α → List Char) (rest : List Char) :
    ∀ (l : List α) (fuel : Nat), (∀ x ∈ l, ∀ rest, item (enc x ++ rest) = some (x, rest)) →
      l ≠ [] → l.length ≤ fuel →
      decSep item fuel (sepChars enc l ++ ']' :: rest) = some (l, rest)
  | [], _, _, h, _ => absurd rfl h
  | [x], fuel + 1, hitem, _, _ => by
    simp [sepChars, decSep, hitem x (by simp)]
  | [x], 0, _, _, h => by simp at h
  | x :: y :: r, 0, _, _, h => by simp at h
  | x :: y :: r, fuel + 1, hitem, _, h => by
    have ih := decSep_sep item enc rest (y :: r) fuel (fun z hz => hitem z (by simp [hz])) (by simp)
      (by simp at h ⊢; omega)
    simp only [sepChars, List.append_assoc, List.cons_append, decSep, hitem x (by simp)]
    have h1 : ¬ (' ' = ']') := by decide
    simp only [h1, if_false, if_true, ih, Option.map_some]

theorem decBracket_bracket {α} (item : List Char → Option (α × List Char)) (enc : α → List Char)
    (hhead : ∀ x, ∃ c r, enc x = c :: r ∧ c ≠ ']') (rest : List Char)
    (l : List α) (fuel : Nat) (hitem : ∀ x ∈ l, ∀ rest, item (enc x ++ rest) = some (x, rest))
    (hf : l.length ≤ fuel) :
    decBracket item fuel (bracketChars enc l ++ rest) = some (l, rest) := by
  cases l with
  | nil => simp [bracketChars, sepChars, decBracket]
  | cons x xs =>
    have hs := decSep_sep item enc rest (x :: xs) fuel hitem (by simp) hf
    obtain ⟨c, r, hc, hne⟩ := hhead x
    have hsc : ∃ r', sepChars enc (x :: xs) = c :: r' := by
      cases xs with
      | nil => exact ⟨r, by simp [sepChars, hc]⟩
      | cons y ys => exact ⟨r ++ ' ' :: sepChars enc (y :: ys), by simp [sepChars, hc]⟩
    obtain ⟨r', hr'⟩ := hsc
    simp only [bracketChars, List.cons_append, List.append_assoc]
    rw [hr'] at hs ⊢
    simp only [List.cons_append, decBracket, if_true, hne, if_false]
    exact hs

/-! ### the grouping text -/

/-- read `"key":[[…] […]]` back -/
def decodeKey (fuel : Nat) (inp : List Char) : Option (String × List (List String)) :=
  match unquote inp with
  | some (k, c :: r) =>
    if c = ':' then
      match decBracket (decBracket unquote fuel) fuel r with
      | some (ps, []) => some (k, ps)
      | _ => none
    else none
  | _ => none

theorem quote_head (v : String) : ∃ c r, quoteChars v.toList = c :: r ∧ c ≠ ']' :=
  ⟨'"', _, rfl, by decide⟩

theorem fmtRow_head (row : List String) : ∃ c r, fmtRowChars row = c :: r ∧ c ≠ ']' :=
  ⟨'[', _, rfl, by decide⟩

theorem decodeKey_classKeyChars (f : Feature) (fuel : Nat) (h1 : f.props.length ≤ fuel)
    (h2 : ∀ row ∈ f.props, row.length ≤ fuel) :
    decodeKey fuel (classKeyChars f) = some (f.key, f.props) := by
  have hrow : ∀ row ∈ f.props, ∀ (rest : List Char),
      decBracket unquote fuel (fmtRowChars row ++ rest) = some (row, rest) := by
    intro row hr rest
    exact decBracket_bracket unquote _ quote_head rest row fuel (fun v _ rest => unquote_quote v rest) (h2 row hr)
  have hp := decBracket_bracket (decBracket unquote fuel) fmtRowChars fmtRow_head [] f.props fuel hrow h1
  rw [List.append_nil] at hp
  simp only [decodeKey, classKeyChars, unquote_quote, if_true, hp]

/-- a fuel that suffices for `f` -/
def keyFuel (f : Feature) : Nat := f.props.length + (f.props.map List.length).foldr max 0

theorem le_foldr_max (l : List Nat) (x : Nat) (h : x ∈ l) : x ≤ l.foldr max 0 := by
  induction l with
  | nil => cases h
  | cons a as ih =>
    simp only [List.foldr_cons]
    rcases List.mem_cons.mp h with rfl | h
    · exact Nat.le_max_left _ _
    · exact Nat.le_trans (ih h) (Nat.le_max_right _ _)

/-- **the grouping text is injective**: equal texts, equal key and qualifiers -/
theorem classKey_inj (f g : Feature) : classKey f = classKey g ↔ (f.key = g.key ∧ f.props = g.props) := by
  constructor
  · intro h
    have hc : classKeyChars f = classKeyChars g := by
      have := congrArg String.toList h
      simpa [classKey, String.toList_ofList] using this
    have hb : ∀ (x : Feature) (n : Nat), keyFuel x ≤ n →
        decodeKey n (classKeyChars x) = some (x.key, x.props) := by
      intro x n hn
      apply decodeKey_classKeyChars
      · simp only [keyFuel] at hn; omega
      · intro row hr
        have := le_foldr_max (x.props.map List.length) row.length (List.mem_map.mpr ⟨row, hr, rfl⟩)
        simp only [keyFuel] at hn; omega
    have hf := hb f (max (keyFuel f) (keyFuel g)) (Nat.le_max_left _ _)
    have hg := hb g (max (keyFuel f) (keyFuel g)) (Nat.le_max_right _ _)
    rw [hc, hg] at hf
    simp only [Option.some.injEq, Prod.mk.injEq] at hf
    exact ⟨hf.1.symm, hf.2.symm⟩
  · rintro ⟨h1, h2⟩
    exact classKey_congr (f := g) (g := f) h1 h2

end Gts
