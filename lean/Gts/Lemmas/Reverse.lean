/-
  `Location.Reverse(length)`: the denotation is mirrored (positions `x ↦ L-1-x`, order reversed,
  strand kept).  Core Lean only.
-/
import Gts.Lemmas.Contig
import Gts.Lemmas.Order
namespace Gts

/-- the mirrored reading of a residue list on a sequence of length `L` -/
def mirrorDen (L : Int) (d : List Pos) : List Pos := (mapPos (mirrorMap L) d).reverse

@[simp] theorem mirrorDen_nil (L : Int) : mirrorDen L [] = [] := rfl

theorem mirrorDen_append (L : Int) (a b : List Pos) :
    mirrorDen L (a ++ b) = mirrorDen L b ++ mirrorDen L a := by
  simp [mirrorDen, List.reverse_append]

theorem mirrorDen_flipDen (L : Int) (a : List Pos) : mirrorDen L (flipDen a) = flipDen (mirrorDen L a) := by
  simp [mirrorDen, flipDen, mapPos, List.map_reverse, Function.comp_def]

theorem Refines.mirror {a b : List Pos} (L : Int) (h : a ≼ b) : mirrorDen L a ≼ mirrorDen L b :=
  (h.map _).reverse

theorem mirrorDen_mirrorDen (L : Int) (a : List Pos) : mirrorDen L (mirrorDen L a) = a := by
  simp only [mirrorDen, mapPos, List.map_reverse, List.reverse_reverse, List.map_map]
  have : ((fun p : Pos => (mirrorMap L p.1, p.2)) ∘ fun p : Pos => (mirrorMap L p.1, p.2)) = id := by
    funext p
    apply Prod.ext
    · simp only [Function.comp, mirrorMap, id]; omega
    · rfl
  rw [this, List.map_id]

theorem irange_reverse_mirror (L s : Int) (n : Nat) :
    ((irange s n).map (mirrorMap L)).reverse = irange (L - (s + n)) n := by
  induction n generalizing s with
  | zero => simp
  | succ n ih =>
    simp only [irange_succ, List.map_cons, List.reverse_cons, ih]
    have h1 : irange (L - (s + 1 + ↑n)) n ++ [mirrorMap L s] =
        irange (L - (s + 1 + ↑n)) n ++ irange (L - (s + 1 + ↑n) + ↑n) 1 := by
      congr 1
      simp only [irange_succ, irange_zero, mirrorMap]
      congr 1
      omega
    rw [h1, irange_append]
    have h2 : L - (s + 1 + (n : Int)) = L - (s + ((n + 1 : Nat) : Int)) := by omega
    rw [h2]
    rfl

namespace Loc

theorem mirrorDen_fwd_irange (L s : Int) (n : Nat) :
    mirrorDen L (fwd (irange s n)) = fwd (irange (L - (s + n)) n) := by
  rw [mirrorDen, mapPos_fwd, fwd, ← List.map_reverse, irange_reverse_mirror]
  rfl

theorem den_rangedReverse (s e : Int) (a b : Bool) (L : Int) (h : s < e) :
    den (rangedReverse s e a b L) = mirrorDen L (den (ranged s e a b)) := by
  simp only [rangedReverse, den_ranged, mirrorDen_fwd_irange]
  have h1 : (L - s - (L - e)).toNat = (e - s).toNat := by congr 1; omega
  have h2 : L - (s + ((e - s).toNat : Int)) = L - e := by omega
  rw [h1, h2]

theorem mapReverse_denList (L : Int) (f : Loc → Loc) (ls : List Loc)
    (h : ∀ l ∈ ls, den (f l) ≼ mirrorDen L (den l)) :
    denList (ls.map f).reverse ≼ mirrorDen L (denList ls) := by
  induction ls with
  | nil => simp [Refines.refl]
  | cons l ls ih =>
    simp only [List.map_cons, List.reverse_cons, denList_append, denList_cons, denList_nil,
      List.append_nil, mirrorDen_append]
    exact (ih fun l' hl' => h l' (List.mem_cons_of_mem _ hl')).append (h l (List.mem_cons_self ..))

theorem reverseList_eq_map (ls : List Loc) (L : Int) : reverseList ls L = ls.map (fun l => reverse l L) := by
  induction ls with
  | nil => simp [reverseList]
  | cons l ls ih => simp [reverseList, ih]

theorem wfList_map (f : Loc → Loc) (ls : List Loc) (h : ∀ l ∈ ls, wf (f l) = true) :
    wfList (ls.map f) = true := by
  induction ls with
  | nil => simp
  | cons l ls ih =>
    simp only [List.map_cons, wfList_cons, Bool.and_eq_true]
    exact ⟨h l (List.mem_cons_self ..), ih fun l' hl' => h l' (List.mem_cons_of_mem _ hl')⟩

mutual
/-- Reverse: the location denotes the mirrored residues in mirrored order, unless K2 fires. -/
theorem reverse_mirror : ∀ (l : Loc) (L : Int), wf l = true →
    (reverseAbs l L = false → den (reverse l L) ≼ mirrorDen L (den l)) ∧ wf (reverse l L) = true
  | between p, L, _ => by simp [reverse, wf, Refines.refl]
  | point p, L, _ => by
      simp only [reverse, wf, and_true]
      intro _
      apply Refines.of_eq
      simp [mirrorDen, mapPos, mirrorMap]
  | ranged s e a b, L, hw => by
      have h : s < e := by simpa [wf] using hw
      refine ⟨fun _ => Refines.of_eq (by simpa [reverse] using den_rangedReverse s e a b L h), ?_⟩
      simp only [reverse, rangedReverse, wf, decide_eq_true_eq]; omega
  | ambiguous s e, L, hw => by
      have h : s < e := by simpa [wf] using hw
      refine ⟨fun _ => Refines.of_eq ?_, ?_⟩
      · have := den_rangedReverse s e false false L h
        simpa [reverse, rangedReverse] using this
      · simp only [reverse, wf, decide_eq_true_eq]; omega
  | joined ls, L, hw => by
      have hw' : wfList ls = true := by simpa [wf] using hw
      have ih := reverseList_mirror ls L hw'
      have hwr : wfList (reverseList ls L).reverse = true := by rw [wfList_reverse]; exact ih.2
      refine ⟨?_, join_wf _ hwr⟩
      intro hk
      simp only [reverseAbs, Bool.or_eq_false_iff] at hk
      simp only [reverse, den_joined]
      exact (join_den _ hwr hk.2).trans (ih.1 hk.1)
  | ordered ls, L, hw => by
      have hw' : wfList ls = true := by simpa [wf] using hw
      have ih := reverseList_mirror ls L hw'
      have hwr : wfList (reverseList ls L).reverse = true := by rw [wfList_reverse]; exact ih.2
      refine ⟨?_, order_wf _ hwr⟩
      intro hk
      simp only [reverseAbs] at hk
      simp only [reverse, den_ordered, order_den]
      exact ih.1 hk
  | compl l, L, hw => by
      have ih := reverse_mirror l L (by simpa [wf] using hw)
      refine ⟨?_, by simpa [reverse, wf] using ih.2⟩
      intro hk
      simp only [reverseAbs] at hk
      simp only [reverse, den_compl, mirrorDen_flipDen]
      exact (ih.1 hk).flip
theorem reverseList_mirror : ∀ (ls : List Loc) (L : Int), wfList ls = true →
    (reverseAbsList ls L = false →
      denList (reverseList ls L).reverse ≼ mirrorDen L (denList ls)) ∧
    wfList (reverseList ls L) = true
  | [], _, _ => by simp [reverseList, Refines.refl]
  | l :: ls, L, hw => by
      simp only [wfList_cons, Bool.and_eq_true] at hw
      have h1 := reverse_mirror l L hw.1
      have h2 := reverseList_mirror ls L hw.2
      refine ⟨?_, by simp [reverseList, h1.2, h2.2]⟩
      intro hk
      simp only [reverseAbsList, Bool.or_eq_false_iff] at hk
      simp only [reverseList, List.reverse_cons, denList_append, denList_cons, denList_nil,
        List.append_nil, mirrorDen_append]
      exact (h2.1 hk.2).append (h1.1 hk.1)
end

end Loc
end Gts
