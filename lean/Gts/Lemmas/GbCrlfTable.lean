/-
  C01, CRLF input: the feature table.  Qualifiers of the CRLF translation of the written text read
  by `QualifierParser`: toggle (`pars.EOL` takes CR LF), literal (`pars.Line` per line: the same
  value), quoted / unknown — `pars.Quoted` takes the raw text between the quotes and
  `quotedQualifierParser` removes the indent behind every LINE FEED only, so a quoted value comes back
  as its CRLF translation: every line feed inside the value has a carriage return in front of it
  (`quotedValue_okC`; the finding of `Props/C01.lean`, section CRLF).  Key lines (`pars.EOL`), the
  table, the FEATURES field.  Mirrors `GbQuoted.lean`, `GbQualifier.lean`, `GbTable.lean`,
  `GbFeatures.lean`.  Core Lean only.
-/
import Gts.Lemmas.GbCrlfLocus
import Gts.Lemmas.GbLocRT
namespace Gts.GenBank
open Gts.Pars

/-! ### quoted values -/

/-- the quote scan does not see the inserted carriage returns -/
theorem qscan_crlf (v : Bytes) : ∀ e, qscan e (Origin.crlf v) = qscan e v := by
  induction v with
  | nil => intro e; rfl
  | cons c v ih =>
    intro e
    by_cases hc : c = 10
    · subst hc
      rw [crlf_cons_lf]
      cases e <;> simp [qscan, ih]
    · rw [crlf_cons_ne c v hc]
      cases e
      · simp only [qscan, ih]
      · simp only [qscan, ih]

/-- CRLF translation and `AddPrefix` commute (the prefix has no line feed) -/
theorem crlf_addPrefix_comm (pre v : Bytes) (hpre : noLF pre) :
    Origin.crlf (addPrefix pre v) = addPrefix pre (Origin.crlf v) := by
  induction v with
  | nil => rfl
  | cons c v ih =>
    by_cases hc : c = 10
    · subst hc
      simp only [addPrefix, if_true, crlf_cons_lf, crlf_append, crlf_noLF pre hpre, ih,
        show ¬ ((13 : UInt8) = 10) by decide, if_false]
    · simp only [addPrefix, hc, if_false, crlf_cons_ne c _ hc, ih]

/-- the lines of the CRLF translation are the lines of the text, some with a CR at the end -/
theorem crlf_lines (v : Bytes) :
    (headLine (Origin.crlf v) = headLine v ∨ headLine (Origin.crlf v) = headLine v ++ [13]) ∧
    ∀ x ∈ tailLines (Origin.crlf v), ∃ y ∈ tailLines v, x = y ∨ x = y ++ [13] := by
  induction v with
  | nil => simp [Origin.crlf, headLine, tailLines, splitLF]
  | cons c v ih =>
    obtain ⟨ih1, ih2⟩ := ih
    by_cases hc : c = 10
    · subst hc
      rw [crlf_cons_lf]
      have e := splitLF_cons_lf v
      have h1 : headLine (10 :: v) = [] := by simp [headLine, e]
      have h2 : tailLines (10 :: v) = splitLF v := by simp [tailLines, e]
      have e' := splitLF_cons_other 13 (10 :: Origin.crlf v) (by decide)
      have e'' := splitLF_cons_lf (Origin.crlf v)
      have h3 : headLine (13 :: 10 :: Origin.crlf v) = [13] := by
        simp [headLine, e', e'']
      have h4 : tailLines (13 :: 10 :: Origin.crlf v) = splitLF (Origin.crlf v) := by
        simp [tailLines, e', e'']
      rw [h1, h2, h3, h4, splitLF_eq v, splitLF_eq (Origin.crlf v)]
      refine ⟨Or.inr rfl, ?_⟩
      intro x hx
      rcases List.mem_cons.mp hx with rfl | hx
      · exact ⟨headLine v, by simp, ih1⟩
      · obtain ⟨y, hy, h⟩ := ih2 x hx
        exact ⟨y, by simp [hy], h⟩
    · rw [crlf_cons_ne c v hc]
      have e := splitLF_cons_other c v hc
      have e' := splitLF_cons_other c (Origin.crlf v) hc
      have h1 : headLine (c :: v) = c :: headLine v := by simp [headLine, e]
      have h2 : tailLines (c :: v) = tailLines v := by simp [tailLines, e]
      have h3 : headLine (c :: Origin.crlf v) = c :: headLine (Origin.crlf v) := by simp [headLine, e']
      have h4 : tailLines (c :: Origin.crlf v) = tailLines (Origin.crlf v) := by simp [tailLines, e']
      rw [h1, h2, h3, h4]
      refine ⟨?_, ih2⟩
      rcases ih1 with h | h
      · left; rw [h]
      · right; rw [h]; rfl

/-- the indent is not a prefix of a line with a CR appended unless it is one of the line -/
theorem sp_prefix_cr (d : Nat) (y : Bytes) (h : (sp d).isPrefixOf y = false) :
    (sp d).isPrefixOf (y ++ [13]) = false := by
  induction d generalizing y with
  | zero => simp [sp] at h
  | succ d ih =>
    rw [sp_succ] at h ⊢
    cases y with
    | nil => simp [List.isPrefixOf]
    | cons c y =>
      simp only [List.cons_append, List.isPrefixOf] at h ⊢
      by_cases hc : (32 : UInt8) = c
      · subst hc
        simp only [beq_self_eq_true, Bool.true_and] at h ⊢
        exact ih y h
      · have : ((32 : UInt8) == c) = false := by simpa using hc
        simp [this]

theorem noCont_crlf (d : Nat) (v : Bytes) (h : noCont d v = true) : noCont d (Origin.crlf v) = true := by
  simp only [noCont, List.all_eq_true, Bool.not_eq_true'] at h ⊢
  intro x hx
  obtain ⟨y, hy, hxy⟩ := (crlf_lines v).2 x hx
  rcases hxy with h1 | h1
  · rw [h1]; exact h y hy
  · rw [h1]; exact sp_prefix_cr d y (h y hy)

/-- the domain of quoted values is closed under the CRLF translation -/
theorem quotedOk_crlf (d : Nat) (v : Bytes) (h : quotedOk d v = true) : quotedOk d (Origin.crlf v) = true := by
  simp only [quotedOk, Bool.and_eq_true, quoteClean] at h ⊢
  exact ⟨by rw [qscan_crlf]; exact h.1, noCont_crlf d v h.2⟩

/-- `quotedQualifierParser(prefix)` behind the name, CRLF file: the value comes back as ITS CRLF
TRANSLATION — the scan takes the raw text between the quotes, the loop deletes the indent behind
every `"\n"` and leaves the carriage return in front of it where it is. -/
theorem quotedValue_okC (d : Nat) (v rest : Bytes) (stk : List Bytes) (hv : quotedOk d v = true) :
    quotedValue (sp d) ⟨61 :: 34 :: (Origin.crlf (addPrefix (sp d) v) ++ 34 :: 13 :: 10 :: rest), stk⟩ =
      (.ok (Origin.crlf v), ⟨rest, stk⟩) := by
  have hv' := quotedOk_crlf d v hv
  simp only [quotedOk, Bool.and_eq_true] at hv'
  rw [crlf_addPrefix_comm _ _ (noLF_sp d)]
  have hclean : qscan false (addPrefix (sp d) (Origin.crlf v)) = true := (qscan_addPrefix d _).1 hv'.1
  have hq := fun s => quoted_ok (addPrefix (sp d) (Origin.crlf v)) (13 :: 10 :: rest) s hclean
  simp only [quotedValue, P.bind_run, push, getS, setS, attempt_run, next_cons, P.pure_run,
    show ((61 : UInt8) != 61) = false by decide, Bool.false_eq_true, if_false, advance1,
    List.drop_succ_cons, List.drop_zero, hq, Pars.drop, eol_crlf]
  rw [stripCont_addPrefix d _ hv'.2]

/-! ### literal values -/

theorem literalMore_stepC (d : Nat) (l more fr : Bytes) (stk : List Bytes) (p : Bytes) (f : Nat)
    (hl : noEOL l = true) (hh : l.head? ≠ some 47) :
    literalMore (sp d) (f + 1) p ⟨sp d ++ (l ++ 13 :: 10 :: more), fr :: stk⟩ =
      literalMore (sp d) f (p ++ 10 :: l) ⟨more, more :: stk⟩ := by
  cases l with
  | nil =>
    have hline := fun s => line_okC [] more s rfl
    simp only [List.nil_append] at hline
    simp only [List.nil_append, literalMore, P.bind_run, attempt_run, lit_ok, next_cons,
      show ((13 : UInt8) == 47) = false by decide, Bool.false_eq_true, if_false, hline, Pars.drop, push, getS,
      setS, List.drop_succ_cons, List.drop_zero]
  | cons c l' =>
    have hc47 : (c == 47) = false := by
      simp only [List.head?_cons, ne_eq, Option.some.injEq] at hh
      simpa using hh
    have hline := fun s => line_okC (c :: l') more s hl
    simp only [List.cons_append] at hline
    simp only [List.cons_append, literalMore, P.bind_run, attempt_run, lit_ok, next_cons, hc47,
      Bool.false_eq_true, if_false, hline, Pars.drop, push, getS, setS, List.drop_succ_cons,
      List.drop_zero]

theorem literalMore_linesC (d : Nat) (ls : List Bytes) (rest : Bytes) (stk : List Bytes) (p : Bytes) (f : Nat)
    (fr : Bytes) (hls : ∀ l ∈ ls, noEOL l = true ∧ l.head? ≠ some 47) (hstop : litStop d rest)
    (hf : ls.length < f) (hfr : ls = [] → fr = rest) :
    literalMore (sp d) f p ⟨contTextC (sp d) ls ++ rest, fr :: stk⟩ =
      (.ok (p ++ sepText 10 ls), ⟨rest, stk⟩) := by
  induction ls generalizing p f fr with
  | nil =>
    have hfr' := hfr rfl
    subst hfr'
    cases f with
    | zero => omega
    | succ f =>
      simp only [contTextC, List.flatMap_nil, List.nil_append, sepText, List.append_nil]
      rcases hstop with h | h | ⟨r, h⟩
      · gsimp [literalMore, lit_fail _ _ _ h]
      · subst h
        have := lit_ok (sp d) [] (sp d :: stk)
        simp only [List.append_nil] at this
        gsimp [literalMore, this, next_nil]
      · subst h
        gsimp [literalMore, lit_ok, next_cons]
  | cons l ls ih =>
    cases f with
    | zero => omega
    | succ f =>
      obtain ⟨hl, hh⟩ := hls l (by simp)
      have hls' : ∀ l ∈ ls, noEOL l = true ∧ l.head? ≠ some 47 := fun x hx => hls x (by simp [hx])
      rw [contTextC_cons, sepText_cons]
      simp only [List.append_assoc, List.cons_append]
      rw [literalMore_stepC d l _ fr stk p f hl hh,
        ih (p ++ 10 :: l) f _ hls' (by simp only [List.length_cons] at hf; omega) (fun _ => by simp_all [contTextC])]
      simp

/-- `literalQualifierParser(prefix)` behind the name, CRLF file: the same value as from the LF file -/
theorem literalValue_okC (d : Nat) (v rest : Bytes) (stk : List Bytes) (hv : literalOk v = true)
    (hstop : litStop d rest) :
    literalValue (sp d) ⟨61 :: (Origin.crlf (addPrefix (sp d) v) ++ 13 :: 10 :: rest), stk⟩ = (.ok v, ⟨rest, stk⟩) := by
  simp only [literalOk, Bool.and_eq_true, List.all_eq_true, bne_iff_ne, ne_eq] at hv
  obtain ⟨h0, hls0⟩ := lines_noEOL v hv.1
  have hls : ∀ l ∈ tailLines v, noEOL l = true ∧ l.head? ≠ some 47 := fun l hl => ⟨hls0 l hl, hv.2 l hl⟩
  have hlen : (tailLines v).length < (contTextC (sp d) (tailLines v) ++ rest).length + 1 := by
    have := contTextC_length_ge (sp d) (tailLines v)
    simp only [List.length_append]; omega
  rw [crlf_addPrefix_lines _ _ _ (noLF_sp d)]
  have hm := fun s => literalMore_linesC d (tailLines v) rest s (headLine v) _
    (contTextC (sp d) (tailLines v) ++ rest) hls hstop hlen (fun h => by simp [h, contTextC])
  have hl := fun s => line_okC (headLine v) (contTextC (sp d) (tailLines v) ++ rest) s h0
  simp only [literalValue, P.bind_run, push, getS, setS, attempt_run, next_cons, P.pure_run,
    show ((61 : UInt8) != 61) = false by decide, Bool.false_eq_true, if_false, advance1,
    List.drop_succ_cons, List.drop_zero, hl, hm, Pars.drop]
  rw [← lines_join v]

/-! ### the qualifier -/

/-- what the CRLF translation makes of a qualifier value on reading: a value written between quotes
(registered as quoted, or unknown) comes back as its CRLF translation, every other value as it is -/
def crlfValue (reg : Registry) (name value : Bytes) : Bytes :=
  match reg.typeOf name with
  | .literal => value
  | .toggle => value
  | _ => Origin.crlf value

theorem crlfValue_same (a b : Registry) (h : sameText a b) (n v : Bytes) :
    crlfValue b n v = crlfValue a n v := by
  unfold crlfValue
  rcases h n with h1 | ⟨h1, h2⟩
  · rw [h1]
  · rw [h1, h2]

theorem not_snake_13 : isSnake 13 = false := by decide

/-- the shape of `QualifierFormatter.String()` by type -/
theorem qualifierFmt_shape (reg : Registry) (d : Nat) (name value : Bytes) (hsn : noLF name) :
    qualifierFmt reg (sp d) name value =
      match reg.typeOf name with
      | .toggle => sp d ++ 47 :: name
      | .literal => sp d ++ 47 :: (name ++ 61 :: addPrefix (sp d) value)
      | _ => sp d ++ 47 :: (name ++ 61 :: 34 :: (addPrefix (sp d) value ++ [34])) := by
  have hsl : noLF (47 :: name) := noLF_cons (by decide) hsn
  cases ht : reg.typeOf name with
  | toggle =>
    have := addPrefix_noLF' (sp d) (47 :: name) hsl
    simp only [qualifierFmt, qualifierText, ht, this]
  | literal =>
    have h1 : noLF (47 :: name ++ [61]) := noLF_append hsl (noLF_cons (by decide) noLF_nil)
    have := addPrefix_append_noLF (sp d) (47 :: name ++ [61]) value h1
    simp only [List.cons_append, List.append_assoc, List.nil_append] at this
    simp [qualifierFmt, qualifierText, ht, this]
  | quoted =>
    have h1 : noLF (47 :: name ++ [61, 34]) :=
      noLF_append hsl (noLF_cons (by decide) (noLF_cons (by decide) noLF_nil))
    have := addPrefix_append_noLF (sp d) (47 :: name ++ [61, 34]) (value ++ [34]) h1
    rw [addPrefix_append_byte _ _ _ (by decide)] at this
    simp only [List.cons_append, List.append_assoc, List.nil_append] at this
    simp [qualifierFmt, qualifierText, ht, this]
  | unknown =>
    have h1 : noLF (47 :: name ++ [61, 34]) :=
      noLF_append hsl (noLF_cons (by decide) (noLF_cons (by decide) noLF_nil))
    have := addPrefix_append_noLF (sp d) (47 :: name ++ [61, 34]) (value ++ [34]) h1
    rw [addPrefix_append_byte _ _ _ (by decide)] at this
    simp only [List.cons_append, List.append_assoc, List.nil_append] at this
    simp [qualifierFmt, qualifierText, ht, this]

/-- **Qualifier, CRLF file.**  `QualifierParser(prefix)` on the CRLF translation of the text
`QualifierIO.Format(prefix)` wrote, followed by CR LF: the same name, the registry as from the LF
file, and the value `crlfValue` — the value itself for literals and toggles, the CRLF translation of
the value for a value written between quotes. -/
theorem qualifier_roundtripC (reg : Registry) (d : Nat) (name value rest : Bytes) (stk : List Bytes)
    (hw : WritableQualifier reg d name value = true) (hstop : litStop d rest) :
    qualifier (sp d) reg ⟨Origin.crlf (qualifierFmt reg (sp d) name value) ++ 13 :: 10 :: rest, stk⟩ =
      (.ok ((name, readValue reg name (crlfValue reg name value)), learn reg name), ⟨rest, stk⟩) := by
  simp only [WritableQualifier, Bool.and_eq_true] at hw
  obtain ⟨hn, hv⟩ := hw
  have hsn : noLF name := snake_noLF name (by
    simp only [nameOk, Bool.and_eq_true] at hn; exact hn.2)
  have hshape := qualifierFmt_shape reg d name value hsn
  have hcn := crlf_noLF name hsn
  cases ht : reg.typeOf name with
  | toggle =>
    rw [ht] at hshape
    have e : Origin.crlf (qualifierFmt reg (sp d) name value) ++ 13 :: 10 :: rest =
        sp d ++ 47 :: (name ++ 13 :: 10 :: rest) := by
      rw [hshape]
      simp only [crlf_append, crlf_sp, crlf_cons_ne 47 _ (by decide), hcn, List.append_assoc, List.cons_append]
    rw [e]
    have hq := fun s => qualifierName_ok (sp d) name (13 :: 10 :: rest) s hn (by
      intro c hc; simp at hc; subst hc; exact not_snake_13)
    gsimp [qualifier, hq, ht, eol_crlf, readValue, learn]
  | literal =>
    rw [ht] at hv hshape
    have e : Origin.crlf (qualifierFmt reg (sp d) name value) ++ 13 :: 10 :: rest =
        sp d ++ 47 :: (name ++ 61 :: (Origin.crlf (addPrefix (sp d) value) ++ 13 :: 10 :: rest)) := by
      rw [hshape]
      simp only [crlf_append, crlf_sp, crlf_cons_ne 47 _ (by decide), crlf_cons_ne 61 _ (by decide), hcn,
        List.append_assoc, List.cons_append]
    rw [e]
    have hq := fun s => qualifierName_ok (sp d) name (61 :: (Origin.crlf (addPrefix (sp d) value) ++ 13 :: 10 :: rest)) s hn (by
      intro c hc; simp at hc; subst hc; exact not_snake_61)
    have hl := fun s => literalValue_okC d value rest s hv hstop
    gsimp [qualifier, hq, ht, hl, readValue, learn, crlfValue]
  | quoted =>
    rw [ht] at hv hshape
    have e : Origin.crlf (qualifierFmt reg (sp d) name value) ++ 13 :: 10 :: rest =
        sp d ++ 47 :: (name ++ 61 :: 34 :: (Origin.crlf (addPrefix (sp d) value) ++ 34 :: 13 :: 10 :: rest)) := by
      rw [hshape]
      simp only [crlf_append, crlf_sp, crlf_cons_ne 47 _ (by decide), crlf_cons_ne 61 _ (by decide),
        crlf_cons_ne 34 _ (by decide), crlf_nil, hcn, List.append_assoc, List.cons_append, List.nil_append]
    rw [e]
    have hq := fun s => qualifierName_ok (sp d) name
      (61 :: 34 :: (Origin.crlf (addPrefix (sp d) value) ++ 34 :: 13 :: 10 :: rest)) s hn (by
      intro c hc; simp at hc; subst hc; exact not_snake_61)
    have hl := fun s => quotedValue_okC d value rest s hv
    gsimp [qualifier, hq, ht, hl, readValue, learn, crlfValue]
  | unknown =>
    rw [ht] at hv hshape
    have e : Origin.crlf (qualifierFmt reg (sp d) name value) ++ 13 :: 10 :: rest =
        sp d ++ 47 :: (name ++ 61 :: 34 :: (Origin.crlf (addPrefix (sp d) value) ++ 34 :: 13 :: 10 :: rest)) := by
      rw [hshape]
      simp only [crlf_append, crlf_sp, crlf_cons_ne 47 _ (by decide), crlf_cons_ne 61 _ (by decide),
        crlf_cons_ne 34 _ (by decide), crlf_nil, hcn, List.append_assoc, List.cons_append, List.nil_append]
    rw [e]
    have hq := fun s => qualifierName_ok (sp d) name
      (61 :: 34 :: (Origin.crlf (addPrefix (sp d) value) ++ 34 :: 13 :: 10 :: rest)) s hn (by
      intro c hc; simp at hc; subst hc; exact not_snake_61)
    have hl := fun s => quotedValue_okC d value rest s hv
    gsimp [qualifier, hq, ht, hl, readValue, learn, crlfValue]

/-! ### `pars.Many(QualifierParser(prefix))` -/

/-- the qualifier lines of a feature as they stand in the CRLF file -/
def qualLinesC (reg : Registry) (d : Nat) (items : List (Bytes × Bytes)) : Bytes :=
  items.flatMap fun kv => Origin.crlf (qualifierFmt reg (sp d) kv.1 kv.2) ++ [13, 10]

theorem qualLinesC_cons (reg : Registry) (d : Nat) (kv : Bytes × Bytes) (items : List (Bytes × Bytes)) :
    qualLinesC reg d (kv :: items) =
      Origin.crlf (qualifierFmt reg (sp d) kv.1 kv.2) ++ 13 :: 10 :: qualLinesC reg d items := by
  simp [qualLinesC, List.flatMap_cons]

theorem crlf_qualLines (reg : Registry) (d : Nat) (items : List (Bytes × Bytes)) :
    Origin.crlf (qualLines reg d items) = qualLinesC reg d items := by
  induction items with
  | nil => rfl
  | cons kv items ih =>
    rw [qualLines_cons, qualLinesC_cons, crlf_append, crlf_cons_lf, ih]

theorem qualLinesC_length_ge (reg : Registry) (d : Nat) (items : List (Bytes × Bytes)) :
    items.length ≤ (qualLinesC reg d items).length := by
  induction items with
  | nil => simp [qualLinesC]
  | cons kv items ih => rw [qualLinesC_cons]; simp only [List.length_append, List.length_cons]; omega

theorem litStop_qualLinesC (reg : Registry) (d : Nat) (kv : Bytes × Bytes) (items : List (Bytes × Bytes))
    (rest : Bytes) : litStop d (qualLinesC reg d (kv :: items) ++ rest) := by
  right; right
  rw [qualLinesC_cons]
  unfold qualifierFmt qualifierText
  cases reg.typeOf kv.1 <;>
    simp [addPrefix, crlf_append, crlf_sp, crlf_cons_ne 47 _ (show (47 : UInt8) ≠ 10 by decide)] <;>
    exact ⟨_, rfl⟩

/-- **Qualifier lines, CRLF file.** -/
theorem qualifiers_roundtripC (reg0 : Registry) (d : Nat) (items : List (Bytes × Bytes)) (rest : Bytes)
    (stk : List Bytes) (reg : Registry) (acc : List (Bytes × Bytes)) (f : Nat)
    (hs : sameText reg0 reg)
    (hw : ∀ kv ∈ items, WritableQualifier reg0 d kv.1 kv.2 = true)
    (hrest : (sp d).isPrefixOf rest = false) (hf : items.length < f) :
    qualifiers (sp d) f reg acc ⟨qualLinesC reg0 d items ++ rest, stk⟩ =
      (.ok (acc.reverse ++ items.map (fun kv => (kv.1, readValue reg0 kv.1 (crlfValue reg0 kv.1 kv.2))),
        learnAll reg items), ⟨rest, stk⟩) := by
  induction items generalizing reg acc f with
  | nil =>
    cases f with
    | zero => omega
    | succ f =>
      have hl := lit_fail (sp d ++ [47]) rest stk (sp_slash_prefix_false d rest hrest)
      gsimp [qualifiers, qualLinesC, qualifier, qualifierName, hl, learnAll]
  | cons kv items ih =>
    cases f with
    | zero => omega
    | succ f =>
      have hw1 : WritableQualifier reg d kv.1 kv.2 = true := by
        rw [writable_same reg0 reg hs]; exact hw kv (by simp)
      have hstop : litStop d (qualLinesC reg0 d items ++ rest) := by
        cases items with
        | nil => left; simpa [qualLinesC] using hrest
        | cons kv' items' => exact litStop_qualLinesC reg0 d kv' items' rest
      have hq := qualifier_roundtripC reg d kv.1 kv.2 (qualLinesC reg0 d items ++ rest) stk hw1 hstop
      rw [qualifierFmt_same reg0 reg hs, readValue_same reg0 reg hs, crlfValue_same reg0 reg hs] at hq
      rw [qualLinesC_cons]
      simp only [List.append_assoc, List.cons_append]
      simp only [qualifiers, P.bind_run, attempt_run, hq]
      rw [ih (learn reg kv.1) ((kv.1, readValue reg0 kv.1 (crlfValue reg0 kv.1 kv.2)) :: acc) f
        (sameText_learn reg0 reg kv.1 hs)
        (fun x hx => hw x (by simp [hx])) (by simp only [List.length_cons] at hf; omega)]
      simp [learnAll]

/-! ### printed locations -/

theorem natDigits_noLF (k : Nat) : noLF (natDigits k) := by
  obtain ⟨_, hall, _⟩ := natDigits_spec k
  intro c hc e
  subst e
  have := List.all_eq_true.mp hall 10 hc
  revert this; decide

theorem dec_noLF (n : Int) : noLF (dec n) := by
  unfold dec
  split
  · exact noLF_cons (by decide) (natDigits_noLF _)
  · exact natDigits_noLF _

theorem noLF_of_all (l : Bytes) (h : l.all (fun c => c != 10) = true) : noLF l := by
  intro c hc
  have := List.all_eq_true.mp h c hc
  simpa using this

theorem str_complement' : str "complement(" = [99, 111, 109, 112, 108, 101, 109, 101, 110, 116, 40] := by
  decide +kernel

mutual
/-- a printed location has no line feed: its CRLF translation is the text itself -/
theorem printB_noLF : ∀ l : Loc, noLF (Loc.printB l)
  | .between p => by
      rw [Loc.printB]; exact noLF_append (dec_noLF _) (noLF_cons (by decide) (dec_noLF _))
  | .point p => by rw [Loc.printB]; exact dec_noLF _
  | .ranged s e p5 p3 => by
      rw [Loc.printB]
      refine noLF_append (noLF_append ?_ (dec_noLF _)) (noLF_cons (by decide) (noLF_cons (by decide)
        (noLF_append ?_ (dec_noLF _))))
      · cases p5
        · exact noLF_nil
        · exact noLF_cons (by decide) noLF_nil
      · cases p3
        · exact noLF_nil
        · exact noLF_cons (by decide) noLF_nil
  | .ambiguous s e => by
      rw [Loc.printB]; exact noLF_append (dec_noLF _) (noLF_cons (by decide) (dec_noLF _))
  | .joined ls => by
      rw [Loc.printB, str_join]
      exact noLF_append (noLF_of_all _ (by decide)) (noLF_append (printListB_noLF ls) (noLF_cons (by decide) noLF_nil))
  | .ordered ls => by
      rw [Loc.printB, str_order]
      exact noLF_append (noLF_of_all _ (by decide)) (noLF_append (printListB_noLF ls) (noLF_cons (by decide) noLF_nil))
  | .compl l => by
      rw [Loc.printB, str_complement']
      exact noLF_append (noLF_of_all _ (by decide)) (noLF_append (printB_noLF l) (noLF_cons (by decide) noLF_nil))
theorem printListB_noLF : ∀ ls : List Loc, noLF (Loc.printListB ls)
  | [] => by rw [Loc.printListB]; exact noLF_nil
  | l :: ls => by rw [Loc.printListB]; exact noLF_append (printB_noLF l) (printTailB_noLF ls)
theorem printTailB_noLF : ∀ ls : List Loc, noLF (Loc.printTailB ls)
  | [] => by rw [Loc.printTailB]; exact noLF_nil
  | l :: ls => by
      rw [Loc.printTailB]
      exact noLF_cons (by decide) (noLF_append (printB_noLF l) (printTailB_noLF ls))
end

/-- the printed location is read back by `ParseLocation` in front of a CARRIAGE RETURN (the key line
of a CRLF file), and does not start with white space -/
structure LocRTC (l : Loc) : Prop where
  first : ∃ c r, l.printB = c :: r ∧ isSpace c = false
  parse : ∀ (more : Bytes) (stk : List Bytes),
    location ⟨l.printB ++ 13 :: more, stk⟩ = (.ok l, ⟨13 :: more, stk⟩)

/-- **C06 → C01, CRLF**: every canonical location satisfies `LocRTC` (a carriage return is a
continuation that does not start with a digit, `.`, `^` or `>`: `Loc.loc_printB_sep`) -/
theorem locRTC_of_canon (l : Loc) (h : Loc.canonP l = true) : LocRTC l := by
  refine ⟨Loc.printB_cons l, ?_⟩
  intro more stk
  have hf : Loc.need l ≤ (l.printB ++ 13 :: more).length + 2 := by
    have := Loc.need_le_length l
    simp only [List.length_append]; omega
  have hs : Sep (13 :: more) := ⟨by decide, by decide, by decide, by decide⟩
  simp only [location, P.bind_run, getS]
  exact Loc.loc_printB_sep l h _ (13 :: more) stk hf hs

/-! ### key lines -/

/-- the text of one key line of the CRLF file behind the column layout -/
def keylineTextC (key : Bytes) (l : Loc) (more : Bytes) : Bytes :=
  sp 5 ++ (key ++ (sp (16 - key.length) ++ (l.printB ++ 13 :: 10 :: more)))

theorem keyline_okC (key : Bytes) (l : Loc) (more : Bytes) (stk : List Bytes) (hk : keyOk key = true)
    (hl : LocRTC l) :
    keyline 5 21 ⟨keylineTextC key l more, stk⟩ = (.ok (key, l), ⟨more, stk⟩) := by
  simp only [keyOk, Bool.and_eq_true, decide_eq_true_eq] at hk
  obtain ⟨hn, hlen⟩ := hk
  have hn' := hn
  simp only [nameOk, Bool.and_eq_true, Bool.not_eq_true', List.isEmpty_eq_false_iff] at hn'
  have hw := fun s => word_ok isSnake key (sp (16 - key.length) ++ (l.printB ++ 13 :: 10 :: more)) s hn'.2 hn'.1
    (sp_head_not_snake _ _ (by omega))
  have hb : 21 - (5 + key.length) = 16 - key.length := by omega
  gsimp [keyline, keylineTextC, lit_ok, hw, hb, blanks_ok, hl.parse, eol_crlf]

theorem firstKeyline_okC (key : Bytes) (l : Loc) (more : Bytes) (stk : List Bytes) (hk : keyOk key = true)
    (hl : LocRTC l) :
    firstKeyline ⟨keylineTextC key l more, stk⟩ = (.ok (5, key, 16 - key.length, l), ⟨more, stk⟩) := by
  simp only [keyOk, Bool.and_eq_true, decide_eq_true_eq] at hk
  obtain ⟨hn, hlen⟩ := hk
  have hn' := hn
  simp only [nameOk, Bool.and_eq_true, Bool.not_eq_true', List.isEmpty_eq_false_iff] at hn'
  obtain ⟨c0, k', hk0⟩ : ∃ c k', key = c :: k' := by
    cases key with
    | nil => exact absurd rfl hn'.1
    | cons c k' => exact ⟨c, k', rfl⟩
  have hc0 : isSnake c0 = true := by
    have := hn'.2; rw [hk0] at this; simp only [List.all_cons, Bool.and_eq_true] at this; exact this.1
  have hs1 := fun s => spaces_ok (sp 5) (key ++ (sp (16 - key.length) ++ (l.printB ++ 13 :: 10 :: more))) s
    (sp_all_space 5) (by
      intro c hc; rw [hk0] at hc; simp at hc; subst hc; exact snake_not_space _ hc0)
  have hw := fun s => word_ok isSnake key (sp (16 - key.length) ++ (l.printB ++ 13 :: 10 :: more)) s hn'.2 hn'.1
    (sp_head_not_snake _ _ (by omega))
  obtain ⟨c1, r1, hp1, hp2⟩ := hl.first
  have hs2 := fun s => spaces_ok (sp (16 - key.length)) (l.printB ++ 13 :: 10 :: more) s (sp_all_space _) (by
    intro c hc; rw [hp1] at hc; simp at hc; subst hc; exact hp2)
  gsimp [firstKeyline, keylineTextC, hs1, hw, hs2, hl.parse, eol_crlf, sp_length]

/-! ### one feature and the loop -/

/-- the items a feature's qualifiers are read back as from the CRLF file -/
def readItemsC (reg : Registry) (ps : List (List Bytes)) : List (Bytes × Bytes) :=
  (propsItems ps).map fun kv => (kv.1, readValue reg kv.1 (crlfValue reg kv.1 kv.2))

/-- the feature as it is read back from the CRLF file: `readFeature` with every value that was
written between quotes replaced by its CRLF translation -/
def readFeatureC (reg : Registry) (f : QFeature) : QFeature :=
  ⟨f.key, f.loc, propsOfItems (readItemsC reg f.props)⟩

/-- the text of one feature in the CRLF file -/
def featLinesC (reg : Registry) (f : QFeature) : Bytes :=
  keylineTextC f.key f.loc (qualLinesC reg 21 (propsItems f.props))

def featsTextC (reg : Registry) (fs : List QFeature) : Bytes := fs.flatMap (featLinesC reg)

theorem featLinesC_more (reg : Registry) (f : QFeature) (more : Bytes) :
    featLinesC reg f ++ more = keylineTextC f.key f.loc (qualLinesC reg 21 (propsItems f.props) ++ more) := by
  simp [featLinesC, keylineTextC, List.append_assoc]

theorem crlf_featLines (reg : Registry) (f : QFeature) (hk : keyOk f.key = true) :
    Origin.crlf (featLines reg f) = featLinesC reg f := by
  simp only [keyOk, Bool.and_eq_true, nameOk] at hk
  have hkn : noLF f.key := snake_noLF f.key hk.1.2
  simp only [featLines, featLinesC, keylineText, keylineTextC, crlf_append, crlf_sp, crlf_noLF _ hkn,
    crlf_noLF _ (printB_noLF f.loc), crlf_cons_lf, crlf_qualLines]

theorem crlf_featsText (reg : Registry) (fs : List QFeature) (hk : ∀ f ∈ fs, keyOk f.key = true) :
    Origin.crlf (featsText reg fs) = featsTextC reg fs := by
  induction fs with
  | nil => rfl
  | cons f fs ih =>
    simp only [featsText, featsTextC, List.flatMap_cons] at ih ⊢
    rw [crlf_append, crlf_featLines reg f (hk f (by simp)), ih (fun x hx => hk x (by simp [hx]))]

theorem sp21_keylineC (key : Bytes) (l : Loc) (more : Bytes) (hk : keyOk key = true) :
    (sp 21).isPrefixOf (keylineTextC key l more) = false := by
  simp only [keyOk, Bool.and_eq_true, decide_eq_true_eq] at hk
  have hn' := hk.1
  simp only [nameOk, Bool.and_eq_true, Bool.not_eq_true', List.isEmpty_eq_false_iff] at hn'
  cases key with
  | nil => exact absurd rfl hn'.1
  | cons c k' =>
    have hc : c ≠ 32 := snake_ne_blank c (by
      have := hn'.2; simp only [List.all_cons, Bool.and_eq_true] at this; exact this.1)
    have : ((32 : UInt8) == c) = false := by simpa using fun h => hc h.symm
    simp [keylineTextC, sp, List.replicate, List.isPrefixOf, this]

theorem featsTextC_length_ge (reg : Registry) (fs : List QFeature) : fs.length ≤ (featsTextC reg fs).length := by
  induction fs with
  | nil => simp [featsTextC]
  | cons f fs ih =>
    simp only [featsTextC, List.flatMap_cons, List.length_append, List.length_cons] at ih ⊢
    have : 1 ≤ (featLinesC reg f).length := by
      simp [featLinesC, keylineTextC, sp]
    omega

theorem tableMore_okC (reg0 : Registry) (fs : List QFeature) (rest : Bytes) (stk : List Bytes)
    (reg : Registry) (acc : List QFeature) (f : Nat) (hs : sameText reg0 reg)
    (hw : ∀ ft ∈ fs, featOk reg0 ft = true ∧ LocRTC ft.loc)
    (hrest : (sp 5).isPrefixOf rest = false) (hf : fs.length < f) :
    tableMore 5 21 f reg acc ⟨featsTextC reg0 fs ++ rest, stk⟩ =
      (.ok (acc.reverse ++ fs.map (readFeatureC reg0), learnTable reg fs), ⟨rest, stk⟩) := by
  induction fs generalizing reg acc f with
  | nil =>
    cases f with
    | zero => omega
    | succ f => gsimp [tableMore, featsTextC, keyline_stop rest stk hrest, learnTable]
  | cons ft fs ih =>
    cases f with
    | zero => omega
    | succ f =>
      obtain ⟨hok, hloc⟩ := hw ft (by simp)
      simp only [featOk, Bool.and_eq_true, List.all_eq_true] at hok
      obtain ⟨hk, hq⟩ := hok
      have hrest' : (sp 21).isPrefixOf (featsTextC reg0 fs ++ rest) = false := by
        cases fs with
        | nil => simpa [featsTextC] using sp_prefix_mono 5 21 rest (by omega) hrest
        | cons ft' fs' =>
          obtain ⟨hok', _⟩ := hw ft' (by simp)
          simp only [featOk, Bool.and_eq_true] at hok'
          simp only [featsTextC, List.flatMap_cons, List.append_assoc]
          rw [featLinesC_more]
          exact sp21_keylineC _ _ _ hok'.1
      have hlen : (propsItems ft.props).length <
          (qualLinesC reg0 21 (propsItems ft.props) ++ (featsTextC reg0 fs ++ rest)).length + 1 := by
        have := qualLinesC_length_ge reg0 21 (propsItems ft.props)
        simp only [List.length_append]; omega
      have hqs := qualifiers_roundtripC reg0 21 (propsItems ft.props) (featsTextC reg0 fs ++ rest) stk reg [] _
        hs hq hrest' hlen
      have e : featsTextC reg0 (ft :: fs) ++ rest =
          keylineTextC ft.key ft.loc (qualLinesC reg0 21 (propsItems ft.props) ++ (featsTextC reg0 fs ++ rest)) := by
        simp only [featsTextC, List.flatMap_cons, List.append_assoc]
        rw [featLinesC_more]
      rw [e]
      simp only [tableMore, P.bind_run, attempt_run, keyline_okC _ _ _ _ hk hloc, getS, hqs,
        List.reverse_nil, List.nil_append]
      rw [ih (learnAll reg (propsItems ft.props)) _ f (sameText_learnAll reg0 reg _ hs)
        (fun x hx => hw x (by simp [hx])) (by simp only [List.length_cons] at hf; omega)]
      simp [readFeatureC, readItemsC, learnTable]

/-- **Feature table, CRLF file** (reader side): the table written under `reg0`, read under any
registry `reg` that writes the same text -/
theorem table_okC (reg0 reg : Registry) (hs : sameText reg0 reg) (ft : QFeature) (fs : List QFeature)
    (rest : Bytes) (stk : List Bytes)
    (hw : ∀ x ∈ ft :: fs, featOk reg0 x = true ∧ LocRTC x.loc)
    (hrest : (sp 5).isPrefixOf rest = false) :
    table reg ⟨featsTextC reg0 (ft :: fs) ++ rest, stk⟩ =
      (.ok ((ft :: fs).map (readFeatureC reg0), learnTable reg (ft :: fs)), ⟨rest, stk⟩) := by
  obtain ⟨hok, hloc⟩ := hw ft (by simp)
  simp only [featOk, Bool.and_eq_true, List.all_eq_true] at hok
  obtain ⟨hk, hq⟩ := hok
  have hk' := hk
  simp only [keyOk, Bool.and_eq_true, decide_eq_true_eq] at hk'
  have hrest' : (sp 21).isPrefixOf (featsTextC reg0 fs ++ rest) = false := by
    cases fs with
    | nil => simpa [featsTextC] using sp_prefix_mono 5 21 rest (by omega) hrest
    | cons ft' fs' =>
      obtain ⟨hok', _⟩ := hw ft' (by simp)
      simp only [featOk, Bool.and_eq_true] at hok'
      simp only [featsTextC, List.flatMap_cons, List.append_assoc]
      rw [featLinesC_more]
      exact sp21_keylineC _ _ _ hok'.1
  have hlen : (propsItems ft.props).length <
      (qualLinesC reg0 21 (propsItems ft.props) ++ (featsTextC reg0 fs ++ rest)).length + 1 := by
    have := qualLinesC_length_ge reg0 21 (propsItems ft.props)
    simp only [List.length_append]; omega
  have hd : 5 + ft.key.length + (16 - ft.key.length) = 21 := by omega
  have hqs := qualifiers_roundtripC reg0 21 (propsItems ft.props) (featsTextC reg0 fs ++ rest) stk reg [] _
    hs hq hrest' hlen
  have hlen2 : fs.length <
      (qualLinesC reg0 21 (propsItems ft.props) ++ (featsTextC reg0 fs ++ rest)).length + 1 := by
    have := featsTextC_length_ge reg0 fs
    simp only [List.length_append]; omega
  have hmore := tableMore_okC reg0 fs rest stk (learnAll reg (propsItems ft.props)) [readFeatureC reg0 ft] _
    (sameText_learnAll reg0 reg _ hs) (fun x hx => hw x (by simp [hx])) hrest hlen2
  have e : featsTextC reg0 (ft :: fs) ++ rest =
      keylineTextC ft.key ft.loc (qualLinesC reg0 21 (propsItems ft.props) ++ (featsTextC reg0 fs ++ rest)) := by
    simp only [featsTextC, List.flatMap_cons, List.append_assoc]
    rw [featLinesC_more]
  rw [e]
  simp only [table, P.bind_run, firstKeyline_okC _ _ _ _ hk hloc, hd, getS, hqs,
    List.reverse_nil, List.nil_append]
  simp only [readFeatureC, readItemsC] at hmore
  rw [hmore]
  simp [readFeatureC, readItemsC, learnTable]

/-- **FEATURES, CRLF file.**  The CRLF translation of the `FEATURES` section `GenBank.String` writes
(under `reg0`) for a non-empty table, read by `genbankFeatureParser` under any registry `reg` that
writes the same text: keys, locations, qualifier names, order and registry as from the LF file; the
values as `readFeatureC` says. -/
theorem features_roundtripC (reg0 reg : Registry) (hs : sameText reg0 reg) (ft : QFeature) (fs : List QFeature)
    (rest : Bytes)
    (stk : List Bytes) (hw : tableWritable reg0 (ft :: fs) = true) (hloc : ∀ x ∈ ft :: fs, LocRTC x.loc)
    (hrest : (sp 5).isPrefixOf rest = false) :
    ∃ t, tableText reg0 (ft :: fs) = .ok t ∧
      featuresField reg ⟨Origin.crlf (bs "FEATURES             Location/Qualifiers\n" ++ (t ++ [10])) ++ rest, stk⟩ =
        (.ok ((ft :: fs).map (readFeatureC reg0), learnTable reg (ft :: fs)), ⟨rest, []⟩) := by
  simp only [tableWritable, List.all_eq_true, Bool.and_eq_true] at hw
  have hk : ∀ f ∈ ft :: fs, f.key.length ≤ 15 ∧ propsOk f.props = true := by
    intro f hf
    obtain ⟨h1, h2⟩ := hw f hf
    simp only [featOk, keyOk, Bool.and_eq_true, decide_eq_true_eq] at h1
    exact ⟨h1.1.2, h2⟩
  have hkey : ∀ f ∈ ft :: fs, keyOk f.key = true := by
    intro f hf
    obtain ⟨h1, _⟩ := hw f hf
    simp only [featOk, Bool.and_eq_true] at h1
    exact h1.1
  obtain ⟨t, ht, e⟩ := tableText_lines reg0 ft fs hk
  refine ⟨t, ht, ?_⟩
  have e3 : Origin.crlf (bs "FEATURES             Location/Qualifiers\n" ++ (t ++ [10])) ++ rest =
      bs "FEATURES" ++ (bs "             Location/Qualifiers" ++ 13 :: 10 :: (featsTextC reg0 (ft :: fs) ++ rest)) := by
    rw [e, crlf_append, crlf_featsText reg0 _ hkey]
    have : Origin.crlf (bs "FEATURES             Location/Qualifiers\n") =
        bs "FEATURES" ++ (bs "             Location/Qualifiers" ++ [13, 10]) := by decide
    rw [this]
    simp [List.append_assoc]
  rw [e3]
  have hline := fun s => line_okC (bs "             Location/Qualifiers") (featsTextC reg0 (ft :: fs) ++ rest) s (by decide)
  have hlit := fun r s => lit_ok (bs "FEATURES") r s
  have ht' := fun s => table_okC reg0 reg hs ft fs rest s (fun x hx => ⟨(hw x hx).1, hloc x hx⟩) hrest
  gsimp [featuresField, hlit, hline, ht']

end Gts.GenBank
