/-
  "No resulting location refers to a position outside the new sequence" for Delete and for
  Normalize (Rotate).  Core Lean only.
-/
import Gts.Lemmas.Coords
import Gts.Lemmas.Delete
namespace Gts
namespace Loc

/-- `lo ≤ x ≤ hi` -/
def inB (lo hi : Int) (x : Int) : Bool := decide (lo ≤ x) && decide (x ≤ hi)

theorem inB_iff (lo hi x : Int) : inB lo hi x = true ↔ lo ≤ x ∧ x ≤ hi := by simp [inB]

theorem delStart_bounds (L s i k : Int) (hi : 0 ≤ i) (hk : 0 < k) (hL : i + k ≤ L) (h0 : 0 ≤ s) (h1 : s ≤ L) :
    0 ≤ delStart s i k ∧ delStart s i k ≤ L - k := by
  unfold delStart; split <;> omega

theorem delEnd_bounds (L e i k : Int) (hi : 0 ≤ i) (hk : 0 < k) (hL : i + k ≤ L) (h0 : 0 ≤ e) (h1 : e ≤ L) :
    0 ≤ delEnd e i k ∧ delEnd e i k ≤ L - k := by
  unfold delEnd; split <;> omega

mutual
/-- Delete `[i, i+k)` inside a sequence of length `L`: all coordinates end up in `[0, L-k]` -/
theorem expand_del_coords (L i k : Int) (hi : 0 ≤ i) (hk : 0 < k) (hL : i + k ≤ L) :
    ∀ (l : Loc), coordsAll (inB 0 L) l = true → coordsAll (inB 0 (L - k)) (expand l i (-k)) = true
  | between p, h => by
      simp only [coordsAll, inB_iff] at h
      simp only [expand, betweenExpand, coordsAll, inB_iff, gmax_eq_max]
      split <;> omega
  | point p, h => by
      simp only [coordsAll, Bool.and_eq_true, inB_iff] at h
      simp only [expand, pointExpand, gmax_eq_max]
      by_cases c : -k < 0 ∧ i ≤ p ∧ p < i - -k
      · rw [if_pos c]; simp only [coordsAll, inB_iff]; omega
      · rw [if_neg c]
        simp only [coordsAll, Bool.and_eq_true, inB_iff]
        split <;> omega
  | ranged s e a b, h => by
      simp only [coordsAll, Bool.and_eq_true, inB_iff] at h
      simp only [expand, rangedExpand_del_eq s e a b i k hk]
      have b1 := delStart_bounds L s i k hi hk hL h.1.1 h.1.2
      have b2 := delEnd_bounds L e i k hi hk hL h.2.1 h.2.2
      split
      · simp only [coordsAll, inB_iff]; exact b1
      · simp only [coordsAll, Bool.and_eq_true, inB_iff]; exact ⟨b1, b2⟩
  | ambiguous s e, h => by
      simp only [coordsAll, Bool.and_eq_true, inB_iff] at h
      simp only [expand, ambiguousExpand_del_eq s e i k hk]
      have b1 := delStart_bounds L s i k hi hk hL h.1.1 h.1.2
      have b2 := delEnd_bounds L e i k hi hk hL h.2.1 h.2.2
      split
      · simp only [coordsAll, inB_iff]; exact b1
      · simp only [coordsAll, Bool.and_eq_true, inB_iff]; exact ⟨b1, b2⟩
  | joined ls, h => by
      simp only [expand]
      exact join_coords _ _ (expandList_del_coords L i k hi hk hL ls (by simpa [coordsAll] using h))
  | ordered ls, h => by
      simp only [expand]
      exact order_coords _ _ (expandList_del_coords L i k hi hk hL ls (by simpa [coordsAll] using h))
  | compl l, h => by
      simpa [expand, coordsAll] using expand_del_coords L i k hi hk hL l (by simpa [coordsAll] using h)
theorem expandList_del_coords (L i k : Int) (hi : 0 ≤ i) (hk : 0 < k) (hL : i + k ≤ L) :
    ∀ (ls : List Loc), coordsAllList (inB 0 L) ls = true →
      coordsAllList (inB 0 (L - k)) (expandList ls i (-k)) = true
  | [], _ => by simp [expandList]
  | l :: ls, h => by
      simp only [coordsAllList_cons, Bool.and_eq_true] at h
      simp [expandList, expand_del_coords L i k hi hk hL l h.1, expandList_del_coords L i k hi hk hL ls h.2]
end

end Loc
end Gts
