/-
  Strictly increasing integer lists: extensionality, and the interval images of the
  position re-mappings.  Core Lean only.
-/
import Gts.Lemmas.Basic
namespace Gts

theorem irange_pairwise (s : Int) (n : Nat) : (irange s n).Pairwise (· < ·) := by
  induction n generalizing s with
  | zero => simp
  | succ n ih =>
    simp only [irange_succ, List.pairwise_cons]
    refine ⟨?_, ih _⟩
    intro a ha
    rw [mem_irange] at ha
    omega

/-- two strictly increasing lists with the same elements are equal -/
theorem sorted_ext {a b : List Int} (ha : a.Pairwise (· < ·)) (hb : b.Pairwise (· < ·))
    (h : ∀ x, x ∈ a ↔ x ∈ b) : a = b := by
  have na : a.Nodup := ha.imp (fun h => Int.ne_of_lt h)
  have nb : b.Nodup := hb.imp (fun h => Int.ne_of_lt h)
  have hp : a.Perm b := (List.perm_ext_iff_of_nodup na nb).mpr h
  exact hp.eq_of_pairwise (le := (· < ·)) (fun x y _ _ h1 h2 => by omega) ha hb

theorem map_pairwise_of_strictMono {l : List Int} (f : Int → Int)
    (hf : ∀ x y, x ∈ l → y ∈ l → x < y → f x < f y) (hl : l.Pairwise (· < ·)) :
    (l.map f).Pairwise (· < ·) := by
  induction l with
  | nil => simp
  | cons a as ih =>
    simp only [List.pairwise_cons, List.map_cons, List.mem_map] at hl ⊢
    refine ⟨?_, ih (fun x y hx hy => hf x y (List.mem_cons_of_mem _ hx) (List.mem_cons_of_mem _ hy)) hl.2⟩
    rintro _ ⟨y, hy, rfl⟩
    exact hf a y (List.mem_cons_self ..) (List.mem_cons_of_mem _ hy) (hl.1 y hy)

theorem filterMap_pairwise_of_strictMono {l : List Int} (f : Int → Option Int)
    (hf : ∀ x y fx fy, x ∈ l → y ∈ l → x < y → f x = some fx → f y = some fy → fx < fy)
    (hl : l.Pairwise (· < ·)) : (l.filterMap f).Pairwise (· < ·) := by
  induction l with
  | nil => simp
  | cons a as ih =>
    have iht := ih (fun x y fx fy hx hy => hf x y fx fy (List.mem_cons_of_mem _ hx) (List.mem_cons_of_mem _ hy))
      (List.Pairwise.of_cons hl)
    simp only [List.filterMap_cons]
    cases hfa : f a with
    | none => exact iht
    | some fa =>
      simp only [List.pairwise_cons]
      refine ⟨?_, iht⟩
      intro z hz
      rcases List.mem_filterMap.mp hz with ⟨y, hy, hfy⟩
      exact hf a y fa z (List.mem_cons_self ..) (List.mem_cons_of_mem _ hy)
        ((List.pairwise_cons.mp hl).1 y hy) hfa hfy

theorem filterMapPos_fwd (f : Int → Option Int) (xs : List Int) :
    filterMapPos f (fwd xs) = fwd (xs.filterMap f) := by
  induction xs with
  | nil => rfl
  | cons x xs ih =>
    simp only [filterMapPos, fwd, List.map_cons, List.filterMap_cons] at ih ⊢
    cases f x <;> simp [ih]

/-- image of an interval under the insertion re-mapping, as a strictly increasing list -/
theorem insMap_irange_pairwise (i n : Int) (hn : 0 ≤ n) (s : Int) (m : Nat) :
    ((irange s m).map (insMap i n)).Pairwise (· < ·) := by
  apply map_pairwise_of_strictMono _ _ (irange_pairwise s m)
  intro x y _ _ hxy
  unfold insMap
  split <;> split <;> omega

theorem mem_map_insMap {i n s : Int} {m : Nat} {x : Int} :
    x ∈ (irange s m).map (insMap i n) ↔ ∃ a, s ≤ a ∧ a < s + m ∧ insMap i n a = x := by
  simp only [List.mem_map, mem_irange]
  constructor
  · rintro ⟨a, ⟨h1, h2⟩, h3⟩; exact ⟨a, h1, h2, h3⟩
  · rintro ⟨a, h1, h2, h3⟩; exact ⟨a, ⟨h1, h2⟩, h3⟩

theorem delMap_irange_pairwise (i k : Int) (hk : 0 ≤ k) (s : Int) (m : Nat) :
    ((irange s m).filterMap (delMap i k)).Pairwise (· < ·) := by
  apply filterMap_pairwise_of_strictMono _ _ (irange_pairwise s m)
  intro x y fx fy _ _ hxy h1 h2
  unfold delMap at h1 h2
  split at h1 <;> split at h2 <;> (try split at h1) <;> (try split at h2) <;> simp_all <;> omega

theorem mem_filterMap_delMap {i k s : Int} {m : Nat} {x : Int} :
    x ∈ (irange s m).filterMap (delMap i k) ↔ ∃ a, s ≤ a ∧ a < s + m ∧ delMap i k a = some x := by
  simp only [List.mem_filterMap, mem_irange]
  constructor
  · rintro ⟨a, ⟨h1, h2⟩, h3⟩; exact ⟨a, h1, h2, h3⟩
  · rintro ⟨a, h1, h2, h3⟩; exact ⟨a, ⟨h1, h2⟩, h3⟩

end Gts
