/-
  Lemmas for Gts/Bridge/Props.lean: the regenerated props.go (Gts/Gen/Props.lean) against a polymorphic
  reading of the table (`σ` = `String` in Gts/Model/Feature.lean, byte strings in the seqio models).
  One lemma per loop (invariant: the list still to visit is a suffix of the table, the counter the length of
  the prefix), one per checked operation at the position `Index` answers.
-/
import Gts.Gen.Props
namespace Gts.PropsG
open Gts.Gen Gts.Gen.PropsGo

variable {σ : Type} [DecidableEq σ]

/-- no row carries the name -/
def noRow (key : σ) (ps : List (List σ)) : Prop := ∀ row ∈ ps, row.head? ≠ some key

/-- every row has a name -/
def rowsOk (ps : List (List σ)) : Bool := ps.all fun row => !row.isEmpty

/-- `Props.Index` with its panic: `none` an empty row is reached, `some none` no row of that name, `some (some j)`
the first row of that name is row `j` -/
def findO (key : σ) : List (List σ) → Option (Option Nat)
  | [] => some none
  | [] :: _ => none
  | (h :: _) :: rest => if h = key then some (some 0) else (findO key rest).map fun r => r.map (· + 1)

/-! ### the checked operations at the end of a prefix -/

theorem goIdx_at {α : Type} (a : List α) (x : α) (b : List α) : goIdx (a ++ x :: b) (a.length : Int) = some x := by
  have h : ¬ ((a.length : Int) < 0) := by omega
  simp [goIdx, h]

theorem goIdx_zero {α : Type} (l : List α) : goIdx l 0 = l.head? := by
  cases l <;> simp [goIdx]

theorem goSet_at {α : Type} (a : List α) (x y : α) (b : List α) :
    goSet (a ++ x :: b) (a.length : Int) y = some (a ++ y :: b) := by
  have h : (0 : Int) ≤ (a.length : Int) ∧ (a.length : Int) < ((a ++ x :: b).length : Int) := by
    simp only [List.length_append, List.length_cons]; omega
  simp [goSet]
  omega

theorem goTo_at {α : Type} (a b : List α) : goTo (a ++ b) (a.length : Int) = some a := by
  have h : (0 : Int) ≤ (a.length : Int) ∧ (a.length : Int) ≤ ((a ++ b).length : Int) := by
    simp only [List.length_append]; omega
  simp [goTo]
  omega

theorem goFrom_at {α : Type} (a : List α) (x : α) (b : List α) :
    goFrom (a ++ x :: b) ((a.length : Int) + 1) = some b := by
  have h : (0 : Int) ≤ (a.length : Int) + 1 ∧ (a.length : Int) + 1 ≤ ((a ++ x :: b).length : Int) := by
    simp only [List.length_append, List.length_cons]; omega
  have e : ((a.length : Int) + 1).toNat = a.length + 1 := by omega
  simp [goFrom, e]
  omega

theorem goFrom_one {α : Type} (l : List α) : goFrom l 1 = if l = [] then none else some l.tail := by
  cases l <;> simp [goFrom]
  omega

/-! ### `findO` -/

theorem findO_none_iff (key : σ) (ps : List (List σ)) :
    findO key ps = none ↔ ∃ a b, ps = a ++ [] :: b ∧ rowsOk a = true ∧ noRow key a := by
  induction ps with
  | nil => simp [findO]
  | cons row rest ih =>
    cases row with
    | nil =>
      simp only [findO, true_iff]
      exact ⟨[], rest, rfl, rfl, by simp [noRow]⟩
    | cons h t =>
      by_cases hk : h = key
      · simp only [findO, hk, if_true, reduceCtorEq, false_iff]
        rintro ⟨a, b, e, _, hn⟩
        cases a with
        | nil => simp at e
        | cons r a' =>
          simp only [List.cons_append, List.cons.injEq] at e
          exact hn r (by simp) (by simp [← e.1])
      · simp only [findO, hk, if_false, Option.map_eq_none_iff, ih]
        constructor
        · rintro ⟨a, b, e, ok, hn⟩
          refine ⟨(h :: t) :: a, b, by simp [e], by simpa [rowsOk] using ok, ?_⟩
          intro r hr
          rcases List.mem_cons.1 hr with rfl | hr
          · simpa using hk
          · exact hn r hr
        · rintro ⟨a, b, e, ok, hn⟩
          cases a with
          | nil => simp at e
          | cons r a' =>
            simp only [List.cons_append, List.cons.injEq] at e
            refine ⟨a', b, e.2, ?_, fun r' hr' => hn r' (List.mem_cons_of_mem _ hr')⟩
            simp only [rowsOk, List.all_cons, Bool.and_eq_true] at ok
            exact ok.2

theorem findO_rowsOk (key : σ) (ps : List (List σ)) (ok : rowsOk ps = true) : findO key ps ≠ none := by
  intro h
  obtain ⟨a, b, e, _, _⟩ := (findO_none_iff key ps).1 h
  subst e
  simp [rowsOk] at ok

theorem findO_absent (key : σ) (ps : List (List σ)) (h : findO key ps = some none) : noRow key ps := by
  induction ps with
  | nil => simp [noRow]
  | cons row rest ih =>
    cases row with
    | nil => simp [findO] at h
    | cons x t =>
      by_cases hk : x = key
      · simp [findO, hk] at h
      · simp only [findO, hk, if_false, Option.map_eq_some_iff, Option.map_eq_none_iff] at h
        obtain ⟨r, hr, e⟩ := h
        subst e
        intro r' hr'
        rcases List.mem_cons.1 hr' with rfl | hr'
        · simpa using hk
        · exact ih hr r' hr'

theorem findO_found (key : σ) (ps : List (List σ)) (j : Nat) (h : findO key ps = some (some j)) :
    ∃ a t b, ps = a ++ (key :: t) :: b ∧ a.length = j ∧ noRow key a ∧ rowsOk a = true := by
  induction ps generalizing j with
  | nil => simp [findO] at h
  | cons row rest ih =>
    cases row with
    | nil => simp [findO] at h
    | cons x t =>
      by_cases hk : x = key
      · simp only [findO, hk, if_true, Option.some.injEq] at h
        subst h; subst hk
        exact ⟨[], t, rest, rfl, rfl, by simp [noRow], rfl⟩
      · simp only [findO, hk, if_false, Option.map_eq_some_iff] at h
        obtain ⟨r, hr, e⟩ := h
        cases r with
        | none => simp at e
        | some j' =>
          simp only [Option.some.injEq] at e
          obtain ⟨_, rfl, e⟩ := e
          obtain ⟨a, t', b, e', hl, hn, ok⟩ := ih j' hr
          refine ⟨(x :: t) :: a, t', b, by simp [e'], by simp [hl, ← e], ?_, by simpa [rowsOk] using ok⟩
          intro r' hr'
          rcases List.mem_cons.1 hr' with rfl | hr'
          · simpa using hk
          · exact hn r' hr'

/-- the converse: what `findO` answers on a table taken apart at its first row of that name -/
theorem findO_at (key : σ) (a : List (List σ)) (t : List σ) (b : List (List σ)) (hn : noRow key a)
    (ok : rowsOk a = true) : findO key (a ++ (key :: t) :: b) = some (some a.length) := by
  induction a with
  | nil => simp [findO]
  | cons row a ih =>
    cases row with
    | nil => simp [rowsOk] at ok
    | cons x t' =>
      have hk : x ≠ key := by simpa using hn (x :: t') (by simp)
      have ok' : rowsOk a = true := by simpa [rowsOk] using ok
      simp [findO, hk, ih (fun r hr => hn r (List.mem_cons_of_mem _ hr)) ok']

theorem findO_noRow (key : σ) (ps : List (List σ)) (hn : noRow key ps) (ok : rowsOk ps = true) :
    findO key ps = some none := by
  induction ps with
  | nil => rfl
  | cons row a ih =>
    cases row with
    | nil => simp [rowsOk] at ok
    | cons x t' =>
      have hk : x ≠ key := by simpa using hn (x :: t') (by simp)
      have ok' : rowsOk a = true := by simpa [rowsOk] using ok
      simp [findO, hk, ih (fun r hr => hn r (List.mem_cons_of_mem _ hr)) ok']

/-! ### `Index` -/

/-- the loop of `Index`: on the suffix `l` behind the prefix `pre` -/
theorem indexLoop_eq (key : σ) : ∀ (l pre : List (List σ)),
    propsIndexLoop (pre ++ l) key l (pre.length : Int) =
      (findO key l).map fun r => match r with
        | none => Flow.next ()
        | some j => Flow.ret (((pre.length + j : Nat)) : Int)
  | [], pre => by simp [propsIndexLoop, findO]
  | row :: rest, pre => by
    have ih := indexLoop_eq key rest (pre ++ [row])
    simp only [List.append_assoc, List.singleton_append, List.length_append, List.length_cons,
      List.length_nil, Nat.zero_add, Int.natCast_add, Int.cast_ofNat_Int] at ih
    unfold propsIndexLoop
    simp only [goIdx_at, Option.bind_some, goIdx_zero]
    cases row with
    | nil => simp [findO]
    | cons h t =>
      by_cases hk : h = key
      · simp [findO, hk]
      · simp only [List.head?_cons, Option.bind_some, hk, if_false, findO, Option.map_map]
        have e : ((pre.length : Int) + 1) = ((pre.length : Int) + (1 : Nat)) := by simp
        rw [ih]
        congr 1
        funext r
        cases r with
        | none => rfl
        | some j => simp only [Function.comp, Option.map_some]; congr 2; omega

/-- `Props.Index` for every table: the panic, `-1`, or the position of the first row of that name -/
theorem propsIndex_eq (ps : List (List σ)) (key : σ) :
    propsIndex ps key = (findO key ps).map fun r => match r with
      | none => (-1 : Int)
      | some j => (j : Int) := by
  have h := indexLoop_eq key ps []
  simp only [List.nil_append, List.length_nil, Int.cast_ofNat_Int, Nat.zero_add] at h
  unfold propsIndex
  rw [h]
  cases findO key ps with
  | none => rfl
  | some r => cases r <;> rfl

/-! ### the polymorphic reading of the table operations -/

/-- `Set`: the first row of that name is replaced, else a new last row -/
def gset : List (List σ) → σ → List σ → List (List σ)
  | [], k, vs => [k :: vs]
  | row :: rest, k, vs => if row.head? = some k then (k :: vs) :: rest else row :: gset rest k vs

/-- `Add`: the values are appended to the first row of that name, else a new last row -/
def gadd : List (List σ) → σ → List σ → List (List σ)
  | [], k, vs => [k :: vs]
  | row :: rest, k, vs => if row.head? = some k then (row ++ vs) :: rest else row :: gadd rest k vs

/-- `Del`: the first row of that name is removed -/
def gdel : List (List σ) → σ → List (List σ)
  | [], _ => []
  | row :: rest, k => if row.head? = some k then rest else row :: gdel rest k

/-- `Get`: the values of the first row of that name -/
def gget : List (List σ) → σ → Option (List σ)
  | [], _ => none
  | row :: rest, k => if row.head? = some k then some row.tail else gget rest k

/-- `Items`: the (name, value) pairs row by row -/
def gitems : List (List σ) → List (σ × σ)
  | [] => []
  | [] :: rest => gitems rest
  | (h :: vs) :: rest => vs.map (fun v => (h, v)) ++ gitems rest

theorem gset_at (a : List (List σ)) (k : σ) (t : List σ) (b : List (List σ)) (vs : List σ) (hn : noRow k a) :
    gset (a ++ (k :: t) :: b) k vs = a ++ (k :: vs) :: b := by
  induction a with
  | nil => simp [gset]
  | cons r a ih =>
    have h1 : r.head? ≠ some k := hn r (by simp)
    simp [gset, h1, ih (fun r' hr' => hn r' (List.mem_cons_of_mem _ hr'))]

theorem gset_noRow (ps : List (List σ)) (k : σ) (vs : List σ) (hn : noRow k ps) : gset ps k vs = ps ++ [k :: vs] := by
  induction ps with
  | nil => simp [gset]
  | cons r a ih =>
    have h1 : r.head? ≠ some k := hn r (by simp)
    simp [gset, h1, ih (fun r' hr' => hn r' (List.mem_cons_of_mem _ hr'))]

theorem gadd_at (a : List (List σ)) (k : σ) (t : List σ) (b : List (List σ)) (vs : List σ) (hn : noRow k a) :
    gadd (a ++ (k :: t) :: b) k vs = a ++ (k :: t ++ vs) :: b := by
  induction a with
  | nil => simp [gadd]
  | cons r a ih =>
    have h1 : r.head? ≠ some k := hn r (by simp)
    simp [gadd, h1, ih (fun r' hr' => hn r' (List.mem_cons_of_mem _ hr'))]

theorem gadd_noRow (ps : List (List σ)) (k : σ) (vs : List σ) (hn : noRow k ps) : gadd ps k vs = ps ++ [k :: vs] := by
  induction ps with
  | nil => simp [gadd]
  | cons r a ih =>
    have h1 : r.head? ≠ some k := hn r (by simp)
    simp [gadd, h1, ih (fun r' hr' => hn r' (List.mem_cons_of_mem _ hr'))]

theorem gdel_at (a : List (List σ)) (k : σ) (t : List σ) (b : List (List σ)) (hn : noRow k a) :
    gdel (a ++ (k :: t) :: b) k = a ++ b := by
  induction a with
  | nil => simp [gdel]
  | cons r a ih =>
    have h1 : r.head? ≠ some k := hn r (by simp)
    simp [gdel, h1, ih (fun r' hr' => hn r' (List.mem_cons_of_mem _ hr'))]

theorem gdel_noRow (ps : List (List σ)) (k : σ) (hn : noRow k ps) : gdel ps k = ps := by
  induction ps with
  | nil => simp [gdel]
  | cons r a ih =>
    have h1 : r.head? ≠ some k := hn r (by simp)
    simp [gdel, h1, ih (fun r' hr' => hn r' (List.mem_cons_of_mem _ hr'))]

theorem gget_at (a : List (List σ)) (k : σ) (t : List σ) (b : List (List σ)) (hn : noRow k a) :
    gget (a ++ (k :: t) :: b) k = some t := by
  induction a with
  | nil => simp [gget]
  | cons r a ih =>
    have h1 : r.head? ≠ some k := hn r (by simp)
    simp [gget, h1, ih (fun r' hr' => hn r' (List.mem_cons_of_mem _ hr'))]

theorem gget_noRow (ps : List (List σ)) (k : σ) (hn : noRow k ps) : gget ps k = none := by
  induction ps with
  | nil => simp [gget]
  | cons r a ih =>
    have h1 : r.head? ≠ some k := hn r (by simp)
    simp [gget, h1, ih (fun r' hr' => hn r' (List.mem_cons_of_mem _ hr'))]

/-! ### the functions that go through `Index` -/

theorem propsHas_eq (ps : List (List σ)) (key : σ) :
    propsHas ps key = (findO key ps).map fun r => r.isSome := by
  unfold propsHas
  rw [propsIndex_eq]
  cases findO key ps with
  | none => rfl
  | some r =>
    cases r with
    | none => simp
    | some j => simp

theorem propsGet_eq (ps : List (List σ)) (key : σ) :
    propsGet ps key = (findO key ps).map fun _ => (gget ps key).getD [] := by
  unfold propsGet
  rw [propsIndex_eq]
  cases h : findO key ps with
  | none => rfl
  | some r =>
    cases r with
    | none => simp [gget_noRow ps key (findO_absent key ps h)]
    | some j =>
      obtain ⟨a, t, b, e, hl, hn, _⟩ := findO_found key ps j h
      subst e; subst hl
      have hne : ¬ ((a.length : Int) = -1) := by omega
      simp [hne, goIdx_at, goFrom_one, gget_at a key t b hn]

omit [DecidableEq σ] in
/-- the row `Set` builds: `make`, the store of the name, `copy` of the values — no cell keeps the zero string -/
theorem mkRow_eq (z key : σ) (values : List σ) :
    ((goMake z ((values.length : Int) + 1)).bind fun x1 =>
      (goSet x1 0 key).bind fun prop => goCopyAt prop 1 values) = some (key :: values) := by
  have h1 : ¬ ((values.length : Int) + 1 < 0) := by omega
  have e : ((values.length : Int) + 1).toNat = values.length + 1 := by omega
  simp [goMake, h1, e, List.replicate_succ, goSet, goCopyAt, goCopy]
  omega

theorem propsSet_eq (z : σ) (ps : List (List σ)) (key : σ) (values : List σ) :
    propsSet z ps key values = (findO key ps).map fun _ => gset ps key values := by
  unfold propsSet
  have hm := mkRow_eq z key values
  cases h1 : goMake z ((values.length : Int) + 1) with
  | none => simp [h1] at hm
  | some x1 =>
    simp only [h1, Option.bind_some] at hm ⊢
    cases h2 : goSet x1 0 key with
    | none => simp [h2] at hm
    | some prop =>
      simp only [h2, Option.bind_some] at hm ⊢
      simp only [hm, Option.bind_some]
      rw [propsIndex_eq]
      cases h : findO key ps with
      | none => rfl
      | some r =>
        cases r with
        | none => simp [gset_noRow ps key values (findO_absent key ps h)]
        | some j =>
          obtain ⟨a, t, b, e, hl, hn, _⟩ := findO_found key ps j h
          subst e; subst hl
          have hne : ¬ ((a.length : Int) = -1) := by omega
          simp [hne, goSet_at, gset_at a key t b values hn]

theorem propsAdd_eq (z : σ) (ps : List (List σ)) (key : σ) (values : List σ) :
    propsAdd z ps key values = (findO key ps).map fun _ => gadd ps key values := by
  unfold propsAdd
  rw [propsIndex_eq]
  cases h : findO key ps with
  | none => rfl
  | some r =>
    cases r with
    | none =>
      have hn := findO_absent key ps h
      simp [propsSet_eq, h, gset_noRow ps key values hn, gadd_noRow ps key values hn]
    | some j =>
      obtain ⟨a, t, b, e, hl, hn, _⟩ := findO_found key ps j h
      subst e; subst hl
      have hne : ¬ ((a.length : Int) = -1) := by omega
      simp [hne, goIdx_at, goSet_at, gadd_at a key t b values hn]

theorem propsDel_eq (ps : List (List σ)) (key : σ) :
    propsDel ps key = (findO key ps).map fun _ => gdel ps key := by
  unfold propsDel
  rw [propsIndex_eq]
  cases h : findO key ps with
  | none => rfl
  | some r =>
    cases r with
    | none => simp [gdel_noRow ps key (findO_absent key ps h)]
    | some j =>
      obtain ⟨a, t, b, e, hl, hn, _⟩ := findO_found key ps j h
      subst e; subst hl
      have hge : (a.length : Int) ≥ 0 := by omega
      simp [hge, goTo_at, goFrom_at, gdel_at a key t b hn]

/-! ### `Keys`, `Items`, `Clone`: loops that fill a slice made in the function -/

/-- `Keys` with its panic -/
def keysO : List (List σ) → Option (List σ)
  | [] => some []
  | [] :: _ => none
  | (h :: _) :: rest => (keysO rest).map (h :: ·)

/-- `Items` with its panic (`prop[1:]` on an empty row) -/
def itemsO : List (List σ) → Option (List (σ × σ))
  | [] => some []
  | [] :: _ => none
  | (h :: vs) :: rest => (itemsO rest).map (vs.map (fun v => (h, v)) ++ ·)

omit [DecidableEq σ] in
theorem keysO_rowsOk (ps : List (List σ)) (ok : rowsOk ps = true) : keysO ps = some (ps.filterMap List.head?) := by
  induction ps with
  | nil => rfl
  | cons r a ih =>
    cases r with
    | nil => simp [rowsOk] at ok
    | cons h t => simp [keysO, ih (by simpa [rowsOk] using ok)]

omit [DecidableEq σ] in
theorem itemsO_rowsOk (ps : List (List σ)) (ok : rowsOk ps = true) : itemsO ps = some (gitems ps) := by
  induction ps with
  | nil => rfl
  | cons r a ih =>
    cases r with
    | nil => simp [rowsOk] at ok
    | cons h t => simp [itemsO, gitems, ih (by simpa [rowsOk] using ok)]

/-- the loop of `Keys`: `done` the cells written so far (as many as the prefix has rows), `pad` the cells of `make`
still to be overwritten (as many as rows are left) -/
theorem keysLoop_eq : ∀ (l pre : List (List σ)) (done pad : List σ), done.length = pre.length → pad.length = l.length →
    propsKeysLoop (pre ++ l) l (pre.length : Int) (done ++ pad) = (keysO l).map (done ++ ·)
  | [], pre, done, pad, _, hp => by
    have : pad = [] := List.eq_nil_of_length_eq_zero (by simpa using hp)
    simp [propsKeysLoop, keysO, this]
  | row :: rest, pre, done, pad, hd, hp => by
    cases pad with
    | nil => simp at hp
    | cons p pad' =>
      have ih := keysLoop_eq rest (pre ++ [row])
      simp only [List.append_assoc, List.singleton_append, List.length_append, List.length_cons,
        List.length_nil, Nat.zero_add, Int.natCast_add, Int.cast_ofNat_Int] at ih
      unfold propsKeysLoop
      simp only [goIdx_at, Option.bind_some, goIdx_zero]
      cases row with
      | nil => simp [keysO]
      | cons h t =>
        have hs := goSet_at done p h pad'
        rw [hd] at hs
        simp only [List.head?_cons, Option.bind_some, hs]
        have := ih (done ++ [h]) pad' (by simp [hd]) (by simpa using hp)
        simp only [List.append_assoc, List.singleton_append] at this
        rw [this]
        simp [keysO, Function.comp_def]

theorem propsKeys_eq (z : σ) (ps : List (List σ)) : propsKeys z ps = keysO ps := by
  unfold propsKeys
  have h0 : ¬ ((ps.length : Int) < 0) := by omega
  have h := keysLoop_eq ps [] [] (List.replicate ps.length z) rfl (by simp)
  simp only [List.nil_append, List.length_nil, Int.cast_ofNat_Int] at h
  simp only [goMake, h0, if_false, Int.toNat_natCast, Option.bind_some]
  rw [h]
  cases keysO ps <;> simp

theorem itemsLoop2_eq (h : σ) (t : List σ) : ∀ (l : List σ) (items : List (σ × σ)),
    propsItemsLoop2 (h :: t) l items = some (items ++ l.map fun v => (h, v))
  | [], items => by simp [propsItemsLoop2]
  | v :: l, items => by
    unfold propsItemsLoop2
    simp [goIdx_zero, itemsLoop2_eq h t l]

theorem itemsLoop_eq : ∀ (l : List (List σ)) (items : List (σ × σ)),
    propsItemsLoop l items = (itemsO l).map (items ++ ·)
  | [], items => by simp [propsItemsLoop, itemsO]
  | [] :: rest, items => by simp [propsItemsLoop, itemsO, goFrom_one]
  | (h :: vs) :: rest, items => by
    unfold propsItemsLoop
    simp [goFrom_one, itemsLoop2_eq, itemsLoop_eq rest, itemsO, Function.comp_def]

theorem propsItems_eq (z : σ) (ps : List (List σ)) : propsItems z ps = itemsO ps := by
  unfold propsItems
  simp [goMake, itemsLoop_eq]

omit [DecidableEq σ] in
theorem goCopy_fresh {α : Type} (z : α) (prop : List α) : goCopy (List.replicate prop.length z) prop = prop := by
  simp [goCopy]

/-- the loop of `Clone`: `done` the rows copied so far, `pad` the nil rows of `make` still to be overwritten -/
theorem cloneLoop_eq (z : σ) : ∀ (l done pad : List (List σ)), pad.length = l.length →
    propsCloneLoop z l (done.length : Int) (done ++ pad) = some (done ++ l)
  | [], done, pad, hp => by
    have : pad = [] := List.eq_nil_of_length_eq_zero (by simpa using hp)
    simp [propsCloneLoop, this]
  | row :: rest, done, pad, hp => by
    cases pad with
    | nil => simp at hp
    | cons p pad' =>
      unfold propsCloneLoop
      have h0 : ¬ ((row.length : Int) < 0) := by omega
      simp only [goMake, h0, if_false, Int.toNat_natCast, Option.bind_some, goSet_at, goIdx_at, goCopy_fresh]
      have := cloneLoop_eq z rest (done ++ [row]) pad' (by simpa using hp)
      simp only [List.append_assoc, List.singleton_append, List.length_append, List.length_cons,
        List.length_nil, Nat.zero_add, Int.natCast_add, Int.cast_ofNat_Int] at this
      exact this

theorem propsClone_eq (z : σ) (ps : List (List σ)) : propsClone z ps = some ps := by
  unfold propsClone
  have h0 : ¬ ((ps.length : Int) < 0) := by omega
  have h := cloneLoop_eq z ps [] (List.replicate ps.length []) (by simp)
  simp only [List.nil_append, List.length_nil, Int.cast_ofNat_Int] at h
  simp [goMake, h0, h]

end Gts.PropsG
