/-
  The invariant of the flagged parser (C06, audit S7 item 1(b)): whatever `LocParseG.loc Loc.canonGuard`
  returns with the flag `false` is structurally canonical (`structP`).  Ingredients: the structural halves of
  `join_canon_partial` (`join_struct`), of `complement_canon` and the lemma "`Order` of structurally canonical
  parts (at least one) is structurally canonical".  Core Lean only.
-/
import Gts.Lemmas.ParsPost
import Gts.Lemmas.CanonHom
import Gts.Spec.ParseGuard
namespace Gts
open Pars

namespace Loc

/-! ### `Order` and `Complement()` keep `structP` -/

/-- structurally canonical and not an `ordered` (what a part of a canonical `ordered` is) -/
def ordPart (x : Loc) : Bool := structP x && !isOrderedC x

theorem ordPart_flattenOrd (x : Loc) (h : structP x = true) : ∀ y ∈ flattenOrd x, ordPart y = true := by
  by_cases ho : isOrderedC x = true
  · cases x <;> simp [isOrderedC] at ho
    rename_i ls
    simp only [structP, Bool.and_eq_true, Bool.not_eq_true', decide_eq_true_eq] at h
    obtain ⟨⟨h1, _⟩, h3⟩ := h
    simp only [flattenOrd]
    rw [flattenOrdList_of_none ls h3]
    intro y hy
    simp only [ordPart, Bool.and_eq_true, Bool.not_eq_true']
    refine ⟨(structPList_iff ls).mp h1 y hy, ?_⟩
    simpa using List.any_eq_false.mp h3 y hy
  · have ho' : isOrderedC x = false := by simpa using ho
    have : flattenOrd x = [x] := by cases x <;> simp_all [flattenOrd, isOrderedC]
    rw [this]
    intro y hy
    simp only [List.mem_singleton] at hy
    subst hy
    simp [ordPart, h, ho']

theorem flattenOrd_ne_nil (x : Loc) (h : structP x = true) : flattenOrd x ≠ [] := by
  by_cases ho : isOrderedC x = true
  · cases x <;> simp [isOrderedC] at ho
    rename_i ls
    simp only [structP, Bool.and_eq_true, Bool.not_eq_true', decide_eq_true_eq] at h
    obtain ⟨⟨_, h2⟩, h3⟩ := h
    simp only [flattenOrd]
    rw [flattenOrdList_of_none ls h3]
    intro he
    rw [he] at h2
    simp at h2
  · have ho' : isOrderedC x = false := by simpa using ho
    have : flattenOrd x = [x] := by cases x <;> simp_all [flattenOrd, isOrderedC]
    rw [this]
    simp

theorem ordPart_flattenOrdList : ∀ (xs : List Loc), structPList xs = true →
    ∀ y ∈ flattenOrdList xs, ordPart y = true
  | [], _ => by simp [flattenOrdList]
  | x :: xs, h => by
      simp only [structPList_cons, Bool.and_eq_true] at h
      intro y hy
      simp only [flattenOrdList, List.mem_append] at hy
      rcases hy with hy | hy
      · exact ordPart_flattenOrd x h.1 y hy
      · exact ordPart_flattenOrdList xs h.2 y hy

/-- **`Order` of structurally canonical parts (at least one) is structurally canonical**:
`flattenLocations` yields no `ordered` part. -/
theorem order_struct1 (xs : List Loc) (h : structPList xs = true) (hne : xs ≠ []) :
    structP (order xs) = true := by
  have hparts := ordPart_flattenOrdList xs h
  have hnn : flattenOrdList xs ≠ [] := by
    match xs, hne, h with
    | x :: r, _, h =>
      simp only [structPList_cons, Bool.and_eq_true] at h
      intro he
      simp only [flattenOrdList, List.append_eq_nil_iff] at he
      exact flattenOrd_ne_nil x h.1 he.1
  unfold order
  match hq : flattenOrdList xs, hnn with
  | [a], _ =>
    have := hparts a (by rw [hq]; simp)
    simp only [ordPart, Bool.and_eq_true] at this
    exact this.1
  | a :: b :: r, _ =>
    rw [hq] at hparts
    simp only [structP, Bool.and_eq_true, Bool.not_eq_true', decide_eq_true_eq]
    refine ⟨⟨?_, by simp⟩, ?_⟩
    · rw [structPList_iff]
      intro y hy
      have := hparts y hy
      simp only [ordPart, Bool.and_eq_true] at this
      exact this.1
    · rw [List.any_eq_false]
      intro y hy
      have := hparts y hy
      simp only [ordPart, Bool.and_eq_true, Bool.not_eq_true'] at this
      simp [this.2]

/-- the structural half of `complement_canon` -/
theorem complement_struct (l : Loc) (h : structP l = true) : structP l.complement = true := by
  cases l with
  | compl x =>
    simp only [structP, Bool.and_eq_true] at h
    simpa [Loc.complement] using h.1
  | between p => simp [Loc.complement, structP, isComplC]
  | point p => simp [Loc.complement, structP, isComplC]
  | ranged a b c d => simp [Loc.complement, structP, isComplC]
  | ambiguous a b => simp [Loc.complement, structP, isComplC]
  | joined ls => simpa [Loc.complement, structP, isComplC] using h
  | ordered ls => simpa [Loc.complement, structP, isComplC] using h

/-- the structural half of `join_canon_partial`, with the combined guard -/
theorem join_struct_guard (xs : List Loc) (h : structPList xs = true) (hne : xs ≠ [])
    (hg : canonGuard xs = false) : structP (join xs) = true := by
  simp only [canonGuard, Bool.or_eq_false_iff, Bool.not_eq_false'] at hg
  refine join_struct xs h ?_ hg.2 hg.1
  match xs, hne, h with
  | x :: r, _, h =>
    simp only [structPList_cons, Bool.and_eq_true] at h
    intro he
    simp only [flatJList, List.append_eq_nil_iff] at he
    exact flatJ_ne_nil_of_struct x h.1 he.1

end Loc

/-! ### the invariant -/

namespace LocParseG

/-- one step of a postcondition proof that learns nothing from the parser in front -/
macro "post_step" : tactic => `(tactic| first
  | exact Post.fail
  | refine Post.bind' fun _ => ?_
  | refine Post.ite ?_ ?_
  | split
  | dsimp only)

/-- a located result is structurally canonical unless flagged -/
def QL (v : Loc × Bool) : Prop := v.2 = false → Loc.structP v.1 = true
/-- a list of parts: not empty, every part structurally canonical unless flagged -/
def QM (v : List Loc × Bool) : Prop := v.1 ≠ [] ∧ (v.2 = false → Loc.structPList v.1 = true)

theorem post_range : Post LocParse.range (fun l => Loc.structP l = true) := by
  unfold LocParse.range
  repeat (any_goals post_step)
  all_goals exact Post.pure _ (by simp [Loc.structP])

theorem post_between : Post LocParse.between (fun l => Loc.structP l = true) := by
  unfold LocParse.between
  repeat (any_goals post_step)
  all_goals exact Post.pure _ (by simp [Loc.structP])

theorem post_ambiguous : Post LocParse.ambiguous (fun l => Loc.structP l = true) := by
  unfold LocParse.ambiguous
  repeat (any_goals post_step)
  all_goals exact Post.pure _ (by simp [Loc.structP])

theorem post_point : Post LocParse.point (fun l => Loc.structP l = true) := by
  unfold LocParse.point
  repeat (any_goals post_step)
  all_goals exact Post.pure _ (by simp [Loc.structP])

theorem post_leaf (p : P Loc) (h : Post p (fun l => Loc.structP l = true)) : Post (leaf p) QL := by
  unfold leaf
  exact Post.bind h fun l hl => Post.pure _ (fun _ => hl)


theorem post_fail_bind {α β} (f : α → P β) (Q : β → Prop) : Post ((Pars.fail : P α) >>= f) Q :=
  Post.bind (R := fun _ => False) Post.fail (fun _ h => h.elim)

/-- `p` or else `Pop` and fail (`k (some v) = pure v`, `k none = do pop; fail`), stated over the continuation -/
theorem post_attempt_bind {α β} {p : P α} {k : Option α → P β} {R : α → Prop} {Q : β → Prop} (h : Post p R)
    (hs : ∀ v, R v → Post (k (some v)) Q) (hn : Post (k none) Q) : Post (attempt p >>= k) Q := by
  refine Post.bind (Post.attempt h) fun o ho => ?_
  cases o with
  | some v => exact hs v (ho v rfl)
  | none => exact hn

theorem structPList_reverse (ls : List Loc) (h : Loc.structPList ls = true) :
    Loc.structPList ls.reverse = true := by
  rw [Loc.structPList_iff] at *
  intro l hl
  exact h l (by simpa using hl)

theorem post_more (g : List Loc → Bool) (f : Nat) (ih : Post (loc g f) QL) :
    ∀ (k : Nat) (acc : List Loc) (b : Bool), acc ≠ [] → (b = false → Loc.structPList acc = true) →
      Post (multiple.more g f k acc b) QM
  | 0, acc, b, hne, hs => by
      rw [multiple.more]
      exact Post.pure _ ⟨by simpa using hne, fun hb => structPList_reverse acc (hs hb)⟩
  | k + 1, acc, b, hne, hs => by
      rw [multiple.more]
      refine Post.bind' fun d => ?_
      refine Post.ite ?_ ?_
      · refine Post.bind (Post.attempt ih) fun o ho => ?_
        cases o with
        | some v =>
          refine post_more g f ih k (v.1 :: acc) (b || v.2) (by simp) ?_
          intro hb
          simp only [Bool.or_eq_false_iff] at hb
          simp only [Loc.structPList_cons, Bool.and_eq_true]
          exact ⟨ho v rfl hb.2, hs hb.1⟩
        | none => exact Post.bind' fun _ => Post.fail
      · exact Post.pure _ ⟨by simpa using hne, fun hb => structPList_reverse acc (hs hb)⟩

theorem post_multiple (g : List Loc → Bool) (f : Nat) (ih : Post (loc g f) QL) :
    Post (multiple g (f + 1)) QM := by
  rw [multiple]
  refine Post.bind' fun _ => ?_
  refine Post.bind (post_attempt_bind ih (fun v hv => Post.pure v hv) (Post.bind' fun _ => Post.fail))
    fun first hfirst => ?_
  refine Post.bind (post_more g f ih f [first.1] first.2 (by simp) ?_) fun ls hls => ?_
  · intro hb
    simp only [Loc.structPList_cons, Loc.structPList_nil, Bool.and_true]
    exact hfirst hb
  · exact Post.bind' fun _ => Post.pure _ hls

theorem post_complementOf (g : List Loc → Bool) (f : Nat) (ih : Post (loc g f) QL) :
    Post (complementOf g (f + 1)) QL := by
  rw [complementOf]
  repeat (any_goals first
    | exact Post.fail
    | exact post_fail_bind _ _
    | refine Post.bind (p := attempt (loc g f) >>= _)
        (post_attempt_bind ih (fun v hv => Post.pure v hv) (Post.bind' fun _ => Post.fail)) fun l hl => ?_
    | refine Post.bind' fun _ => ?_
    | refine Post.ite ?_ ?_
    | split
    | dsimp only)
  all_goals
    refine Post.pure _ ?_
    intro hb
    exact Loc.complement_struct _ (hl hb)

theorem post_orderOf (g : List Loc → Bool) (f : Nat) (ih : Post (multiple g f) QM) :
    Post (orderOf g (f + 1)) QL := by
  rw [orderOf]
  repeat (any_goals first
    | exact Post.fail
    | exact post_fail_bind _ _
    | refine Post.bind ih fun ls hls => ?_
    | refine Post.bind' fun _ => ?_
    | refine Post.ite ?_ ?_
    | split
    | dsimp only)
  all_goals
    refine Post.pure _ ?_
    intro hb
    exact Loc.order_struct1 _ (hls.2 hb) hls.1

theorem post_joinOf (g : List Loc → Bool) (hg : ∀ ls, g ls = false → Loc.canonGuard ls = false)
    (f : Nat) (ih : Post (multiple g f) QM) : Post (joinOf g (f + 1)) QL := by
  rw [joinOf]
  repeat (any_goals first
    | exact Post.fail
    | exact post_fail_bind _ _
    | refine Post.bind ih fun ls hls => ?_
    | refine Post.bind' fun _ => ?_
    | refine Post.ite ?_ ?_
    | split
    | dsimp only)
  all_goals
    refine Post.pure _ ?_
    intro hb
    simp only [Bool.or_eq_false_iff] at hb
    exact Loc.join_struct_guard _ (hls.2 hb.1) hls.1 (hg _ hb.2)

/-- **the invariant**: with a guard `g` at least as strong as `Loc.canonGuard`, every result the flagged
parser returns with the flag `false` is structurally canonical — all five mutual parsers, every fuel. -/
theorem post_all (g : List Loc → Bool) (hg : ∀ ls, g ls = false → Loc.canonGuard ls = false) :
    ∀ f : Nat, Post (loc g f) QL ∧ Post (multiple g f) QM ∧ Post (joinOf g f) QL ∧
      Post (orderOf g f) QL ∧ Post (complementOf g f) QL
  | 0 => by
      refine ⟨?_, ?_, ?_, ?_, ?_⟩
      · rw [loc]; exact Post.fail
      · rw [multiple]; exact Post.fail
      · rw [joinOf]; exact Post.fail
      · rw [orderOf]; exact Post.fail
      · rw [complementOf]; exact Post.fail
  | f + 1 => by
      obtain ⟨hl, hm, hj, ho, hc⟩ := post_all g hg f
      refine ⟨?_, post_multiple g f hl, post_joinOf g hg f hm, post_orderOf g f hm, post_complementOf g f hl⟩
      rw [loc]
      refine Post.anyOf _ ?_
      intro p hp
      simp only [List.mem_cons, List.not_mem_nil, or_false] at hp
      rcases hp with rfl | rfl | rfl | rfl | rfl | rfl | rfl
      · exact post_leaf _ post_range
      · exact post_leaf _ post_between
      · exact post_leaf _ post_ambiguous
      · exact hc
      · exact hj
      · exact ho
      · exact post_leaf _ post_point

theorem post_loc (f : Nat) : Post (loc Loc.canonGuard f) QL := (post_all _ (fun _ h => h) f).1

end LocParseG

/-- what `parseLocationG Loc.canonGuard` returns with the flag `false` is structurally canonical -/
theorem parseLocationG_struct (s : Bytes) (l : Loc) (r : Bytes)
    (h : parseLocationG Loc.canonGuard s = .ok (l, false, r)) : Loc.structP l = true := by
  unfold parseLocationG at h
  split at h
  · rename_i v st heq
    injection h with h
    have h1 : v.1 = l := congrArg Prod.fst h
    have h2 : v.2 = false := congrArg (fun x => x.2.1) h
    exact h1 ▸ LocParseG.post_loc _ _ _ _ heq h2
  · cases h

end Gts
