/-
  C01 helper lemma: the ORIGIN field as `GenBank.String` writes it, read by
  `makeGenbankOriginParser(length)` — on top of the C16 lemmas about the block itself
  (`Gts.Origin`: the formatter's stream, its length, the fast validator).  Core Lean only.
-/
import Gts.Lemmas.Origin
import Gts.Lemmas.GbFields
namespace Gts.GenBank
open Gts.Pars

/-- **ORIGIN** round trip: the header line and the block written for printable residues (fewer
than 10^9), followed by text that does not start with a blank, is read on the fast path; the
result is the block itself (the reader keeps the formatted buffer), the stack is cleared. -/
theorem origin_roundtrip (p rest : Bytes) (stk : List Bytes) (hp : ∀ c ∈ p, Origin.isBase c = true)
    (hlen : p.length < 10 ^ 9) (hrest : rest.head? ≠ some 32) :
    originField (p.length : Int) 12 ⟨bs "ORIGIN      \n" ++ (Origin.originStream p ++ rest), stk⟩ =
      (.ok (Origin.originStream p), ⟨rest, []⟩) := by
  have e : bs "ORIGIN      \n" ++ (Origin.originStream p ++ rest) =
      bs "ORIGIN" ++ (sp (12 - (bs "ORIGIN").length) ++ ([] ++ 10 :: (Origin.originStream p ++ rest))) := by
    show _ = bs "ORIGIN" ++ (sp 6 ++ _)
    simp [bs, sp]
  rw [e]
  have hn := fun r s => fieldName_ok (bs "ORIGIN") 12 r s (by decide)
  have hline := fun s => line_ok [] (Origin.originStream p ++ rest) s rfl
  have hl := Origin.originStream_length p hlen
  have hn0 : ¬ Origin.toOriginLength (p.length : Int) < 0 := by
    rw [Origin.toOriginLength_nat]; omega
  have htn : (Origin.toOriginLength (p.length : Int)).toNat = (Origin.originStream p).length := by
    rw [Origin.toOriginLength_nat, hl]; simp
  have hv := Origin.validateOrigin_originStream p hp
  have hnext : attempt next ⟨rest, ([] : List Bytes)⟩ = (.ok rest.head?, ⟨rest, []⟩) := by
    cases rest with
    | nil => gsimp [next_nil]
    | cons c r => gsimp [next_cons]
  have hg : ¬ ((p.length : Int) > 1000000020) := by omega
  simp only [originField, P.bind_run, hn, hline, Pars.clear, getS, setS, P.pure_run, hg, hn0, if_false, htn,
    List.length_append, show ¬ ((Origin.originStream p).length + rest.length < (Origin.originStream p).length) by omega,
    List.take_left, hv, advanceN, List.drop_left, hnext]

end Gts.GenBank
