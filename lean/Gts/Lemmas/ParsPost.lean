/-
  A postcondition logic for the parser monad `Pars.P` (C06, audit S7 item 1(b)):
  `Post p Q` — whenever `p` succeeds, from any state, its value satisfies `Q`.  Rules for `pure`, bind,
  `fail`, `attempt`, `if`, and `LocParse.anyOf` (every alternative satisfies `Q` ⇒ `anyOf` does).
  Core Lean only.
-/
import Gts.Lemmas.ModText
namespace Gts.Pars
open Gts

/-- partial correctness of a parser: every successful run returns a value satisfying `Q` -/
def Post {α} (p : P α) (Q : α → Prop) : Prop := ∀ st v st', p st = (.ok v, st') → Q v

theorem Post.triv {α} (p : P α) : Post p (fun _ => True) := fun _ _ _ _ => trivial

theorem Post.mono {α} {p : P α} {R Q : α → Prop} (h : Post p R) (hq : ∀ a, R a → Q a) : Post p Q :=
  fun st v st' hr => hq v (h st v st' hr)

theorem Post.pure {α} {Q : α → Prop} (a : α) (h : Q a) : Post (Pure.pure a : P α) Q := by
  intro st v st' hr
  rw [P.pure_run] at hr
  injection hr with h1 _
  injection h1 with h1
  exact h1 ▸ h

theorem Post.fail {α} {Q : α → Prop} : Post (Pars.fail : P α) Q := by
  intro st v st' hr
  have := congrArg Prod.fst hr
  cases this

theorem Post.bind {α β} {p : P α} {f : α → P β} {R : α → Prop} {Q : β → Prop}
    (hp : Post p R) (hf : ∀ a, R a → Post (f a) Q) : Post (p >>= f) Q := by
  intro st v st' hr
  rw [P.bind_run] at hr
  split at hr
  · rename_i a s' heq
    exact hf a (hp _ _ _ heq) _ _ _ hr
  · have := congrArg Prod.fst hr
    cases this

/-- bind, forgetting what the first parser returned -/
theorem Post.bind' {α β} {p : P α} {f : α → P β} {Q : β → Prop}
    (hf : ∀ a, Post (f a) Q) : Post (p >>= f) Q :=
  Post.bind (Post.triv p) (fun a _ => hf a)

theorem Post.attempt {α} {p : P α} {R : α → Prop} (hp : Post p R) :
    Post (Pars.attempt p) (fun o => ∀ v, o = some v → R v) := by
  intro st o st' hr
  rw [attempt_run] at hr
  split at hr
  · rename_i a s' heq
    injection hr with h1 _
    injection h1 with h1
    subst h1
    intro v hv
    injection hv with hv
    exact hv ▸ hp _ _ _ heq
  · injection hr with h1 _
    injection h1 with h1
    subst h1
    intro v hv
    cases hv
  · have := congrArg Prod.fst hr
    cases this

theorem Post.ite {α} {c : Prop} [Decidable c] {p q : P α} {Q : α → Prop} (hp : Post p Q) (hq : Post q Q) :
    Post (if c then p else q) Q := by
  split
  · exact hp
  · exact hq

theorem Post.anyOf_go {α} {Q : α → Prop} : ∀ (ps : List (P α)), (∀ p ∈ ps, Post p Q) →
    Post (LocParse.anyOf.go ps) Q
  | [], _ => by
      rw [LocParse.anyOf.go]
      exact Post.bind' fun _ => Post.fail
  | p :: rest, h => by
      rw [LocParse.anyOf.go]
      refine Post.bind (Post.attempt (h p (by simp))) ?_
      intro o ho
      cases o with
      | some v => exact Post.bind' fun _ => Post.pure v (ho v rfl)
      | none =>
        refine Post.bind' fun b => ?_
        have ih := Post.anyOf_go rest (fun q hq => h q (by simp [hq]))
        dsimp only
        exact Post.ite (Post.bind' fun _ => ih) ih

/-- `pars.Any`: if every alternative satisfies the postcondition, so does the choice -/
theorem Post.anyOf {α} {Q : α → Prop} (ps : List (P α)) (h : ∀ p ∈ ps, Post p Q) :
    Post (LocParse.anyOf ps) Q := by
  rw [LocParse.anyOf]
  exact Post.bind' fun _ => Post.anyOf_go ps h

end Gts.Pars
