/-
  C07, "no answer of the reader model is an artefact of its fuel": the GenBank reader with EVERY
  fuel a parameter.

  The model (Gts/Model/GenBankParse.lean, InsdcParse.lean, Origin.lean, LocText.lean) passes each
  of its loops a fuel computed from the bytes left (`n + 1`, `2n + 2`, `len + 2`,
  `length`, the constants 6 and 10).  `Fuels` holds one function per loop KIND that maps the model's
  fuel to the fuel actually passed; the definitions below are the model's definitions, statement
  for statement, with `g.<loop> (model fuel)` in the place of the model fuel and the `…X` versions of
  the sub-parsers in the place of the sub-parsers.  `Fuels.model` (every function the identity) is
  the model itself.  Gts/Lemmas/GbFuel2Agree.lean proves `genbankParserX g = genbankParser` on every
  sorted state for every `g` that never lowers a fuel (`Fuels.Ge`).

  NOT model definitions: nothing here is executed by the driver or compared with the Go code; the
  correspondence is about the model, and the theorem ties these to the model.
  Core Lean only.
-/
import Gts.Model.GenBankParse
namespace Gts.GenBank
open Gts.Pars

/-- one fuel policy per loop kind of the reader: the model's fuel ↦ the fuel used -/
structure Fuels where
  /-- `splitOn` (`strings.Split`), model fuel `len(s) + 1` -/
  split : Nat → Nat
  /-- `natDigitsF` (`strconv.Itoa` of the REFERENCE number), model fuel `n + 1` -/
  itoa : Nat → Nat
  /-- `bodyMore` (continuation lines of a field body), model fuel `bytes left + 1` -/
  body : Nat → Nat
  /-- `dblinkMore`, model fuel `bytes left + 1` -/
  dblink : Nat → Nat
  /-- `taxonMore`, model fuel `bytes left + 1` -/
  taxon : Nat → Nat
  /-- `refSubfields`, model fuel `bytes left + 1` -/
  refs : Nat → Nat
  /-- `literalMore`, model fuel `bytes left + 1` -/
  literal : Nat → Nat
  /-- `qualifiers` (`pars.Many`), model fuel `bytes left + 1` -/
  quals : Nat → Nat
  /-- `tableMore` (key lines), model fuel `bytes left + 1` -/
  table : Nat → Nat
  /-- `LocParse.loc` (recursion depth AND list loop of `ParseLocation`), model fuel `bytes left + 2` -/
  loc : Nat → Nat
  /-- `digitsAux` (`Sprintf("%9d")` in the ORIGIN reader), model fuel `n + 1` -/
  digits : Nat → Nat
  /-- `walkChars`, model fuel 10 -/
  chars : Nat → Nat
  /-- `walkGroups`, model fuel 6 -/
  groups : Nat → Nat
  /-- `validateLines`, model fuel `length` -/
  validate : Nat → Nat
  /-- `slowLines`, model fuel `length` -/
  slow : Nat → Nat
  /-- `recordLoop`, model fuel `2·bytes left + 2` -/
  record : Nat → Nat
  /-- `parseAll` (the scan loop), model fuel `len(input) + 1` -/
  scan : Nat → Nat

/-- the model's own fuels -/
def Fuels.model : Fuels :=
  ⟨id, id, id, id, id, id, id, id, id, id, id, id, id, id, id, id, id⟩

/-- every loop gets `k` more rounds than the model gives it -/
def Fuels.plus (k : Nat) : Fuels :=
  let f := fun n => n + k
  ⟨f, f, f, f, f, f, f, f, f, f, f, f, f, f, f, f, f⟩

/-- no fuel is lowered -/
structure Fuels.Ge (g : Fuels) : Prop where
  split : ∀ n, n ≤ g.split n
  itoa : ∀ n, n ≤ g.itoa n
  body : ∀ n, n ≤ g.body n
  dblink : ∀ n, n ≤ g.dblink n
  taxon : ∀ n, n ≤ g.taxon n
  refs : ∀ n, n ≤ g.refs n
  literal : ∀ n, n ≤ g.literal n
  quals : ∀ n, n ≤ g.quals n
  table : ∀ n, n ≤ g.table n
  loc : ∀ n, n ≤ g.loc n
  digits : ∀ n, n ≤ g.digits n
  chars : ∀ n, n ≤ g.chars n
  groups : ∀ n, n ≤ g.groups n
  validate : ∀ n, n ≤ g.validate n
  slow : ∀ n, n ≤ g.slow n
  record : ∀ n, n ≤ g.record n
  scan : ∀ n, n ≤ g.scan n

theorem Fuels.model_ge : Fuels.model.Ge := by
  constructor <;> intro n <;> exact Nat.le_refl n

theorem Fuels.plus_ge (k : Nat) : (Fuels.plus k).Ge := by
  constructor <;> intro n <;> exact Nat.le_add_right n k

variable (g : Fuels)

/-! ### small pieces -/

def splitX (sep s : Bytes) : List Bytes := splitOn sep (g.split (s.length + 1)) [] s

def flatFileSplitX (s : Bytes) : List Bytes :=
  let s := trimDot s
  if s.isEmpty then [] else splitX g (bs "; ") s

def asDateX (s : Bytes) : Option Date :=
  match splitX g [45] s with
  | [d, m, y] =>
    match atoi d, monthOf m, atoi y with
    | some day, some month, some year =>
      if day < 1 ∨ day > daysIn year month then none else some ⟨year, month, day⟩
    | _, _, _ => none
  | _ => none

def natDigitsX (n : Nat) : Bytes := natDigitsF (g.itoa (n + 1)) n

def itoaBX (n : Int) : Bytes := if n < 0 then 45 :: natDigitsX g n.natAbs else natDigitsX g n.natAbs

/-! ### LOCUS line -/

def locusParserX : P Locus := do
  push; push
  locusTry (lit (bs "LOCUS"))
  let sp1 ← spaces
  let name ← locusTry (word notSpace)
  let _ ← spaces
  let length ← locusTry int
  locusTry bpOrAa
  let _ ← spaces
  let mol ← locusTry (word notSpace)
  let _ ← spaces
  let top ← locusTry (word notSpace)
  let _ ← spaces
  let division ← divisionParser
  let _ ← spaces
  let dl ← line
  match asDateX g dl with
  | none => locusBack
  | some date =>
    drop; drop
    pure ⟨sp1.length + 5, name, length, mol, top, division, date⟩

/-! ### field bodies and the field parsers -/

def fieldBodyX (depth : Nat) (sep : UInt8) : P (Bytes × Nat) := do
  let l ← line
  let n := (← getS).rest.length
  bodyMore depth sep (g.body (n + 1)) l 0

def genericFieldX (name : Bytes) (depth : Nat) : P (Bytes × Nat × Nat) := do
  let v ← fieldName name depth
  let (b, k) ← fieldBodyX g depth 10
  pure (b, k, if k > 0 then 0 else v)

def definitionFieldX (depth : Nat) (f : Fields) : P (Fields × Bool) := do
  push
  let body : P (Bytes × Nat × Bytes) := do
    let _ ← fieldName (bs "DEFINITION") depth
    let rb := (← getS).rest
    let (b, k) ← fieldBodyX g depth 10
    pure (b, k, rb)
  match ← attempt body with
  | none => do pop; fail
  | some (p, k, rb) =>
    drop
    if !p.isEmpty && p.getLast? ≠ some 46 then do
      if k > 0 then patchFrames rb p
      fail
    pure ({ f with definition := trimDot p }, true)

def accessionFieldX (depth : Nat) (f : Fields) : P (Fields × Bool) := do
  let r ← mapped (genericFieldX g (bs "ACCESSION") depth)
  pure ({ f with accession := r.1 }, true)

def versionFieldX (depth : Nat) (f : Fields) : P (Fields × Bool) := do
  let r ← mapped (genericFieldX g (bs "VERSION") depth)
  pure ({ f with version := r.1 }, true)

def dblinkFieldX (depth : Nat) (f : Fields) : P (Fields × Bool) := do
  let _ ← fieldName (bs "DBLINK") depth
  let l ← line
  match dblinkPair l with
  | none => fail
  | some (db, id) =>
    let n := (← getS).rest.length
    dblinkMore depth (g.dblink (n + 1)) { f with dblink := dictSet f.dblink db id }

def keywordsFieldX (depth : Nat) (f : Fields) : P (Fields × Bool) := do
  let _ ← fieldName (bs "KEYWORDS") depth
  let (b, _) ← fieldBodyX g depth 32
  pure ({ f with keywords := flatFileSplitX g b }, true)

def sourceFieldX (depth : Nat) (f : Fields) : P (Fields × Bool) := do
  let r ← mapped (genericFieldX g (bs "SOURCE") depth)
  let f := { f with species := r.1 }
  match ← attempt (subfieldName (bs "ORGANISM") depth r.2.2 true) with
  | none => do clear; pure (f, false)
  | some _ =>
    let name ← line
    let n := (← getS).rest.length
    let tax ← taxonMore depth (g.taxon (n + 1)) []
    pure ({ f with organism := name, taxon := flatFileSplitX g tax }, true)

def refSubX (name : String) (depth stale : Nat) : P Bytes :=
  mapped (do
    subfieldName (bs name) depth stale false
    let (b, _) ← fieldBodyX g depth 10
    pure b)

def refAltsX (depth stale : Nat) (r : Reference) :
    List (String × (Reference → Bytes → Reference)) → P (Reference × Nat)
  | [] => do pop; fail
  | (n, set) :: rest => do
    match ← attempt (refSubX g n depth stale) with
    | some b => do drop; pure (set r b, b.length)
    | none => do
      if !(← pushed) then fail
      refAltsX depth stale r rest

def refSubfieldX (depth stale : Nat) (r : Reference) : P (Reference × Nat) := do
  push
  refAltsX g depth stale r refAltList

def refSubfieldsX (depth : Nat) : Nat → Nat → Reference → P Reference
  | 0, _, r => pure r
  | k + 1, stale, r => do
    match ← attempt (refSubfieldX g depth stale r) with
    | some (r', stale') => refSubfieldsX depth k stale' r'
    | none => pure r

def referenceFieldX (depth : Nat) (f : Fields) : P (Fields × Bool) := do
  let _ ← fieldName (bs "REFERENCE") depth
  let number ← int
  let w := (itoaBX g number).length
  let _ ← attempt (lit (sp (3 - w)))
  let info ← line
  let n := (← getS).rest.length
  let r ← refSubfieldsX g depth (g.refs (n + 1)) info.length
    { number := number, info := info, authors := [], group := [], title := [], journal := [],
      pubmed := none, comment := [] }
  pure ({ f with references := f.references ++ [r] }, true)

def commentFieldX (depth : Nat) (f : Fields) : P (Fields × Bool) := do
  let r ← mapped (genericFieldX g (bs "COMMENT") depth)
  pure ({ f with comments := f.comments ++ [r.1] }, true)

/-! ### the feature table -/

/- `quotedQualifierParser`: since 2612fae the loop that takes the continuation indent out of the value
is a counted loop over the token (`stripCont`, no fuel) — the model's `quotedValue` has no fuel to
replace and is used as it is. -/

def literalValueX (pre : Bytes) : P Bytes := do
  push
  let c ← (do match ← attempt next with | some c => pure c | none => do pop; fail)
  if c != 61 then do pop; fail
  advance1
  let l ← line
  push
  let n := (← getS).rest.length
  let v ← literalMore pre (g.literal (n + 1)) l
  drop
  pure v

def qualifierX (pre : Bytes) (reg : Registry) : P ((Bytes × Bytes) × Registry) := do
  let name ← qualifierName pre
  match reg.typeOf name with
  | .quoted => do let v ← quotedValue pre; pure ((name, v), reg)
  | .literal => do let v ← literalValueX g pre; pure ((name, v), reg)
  | .toggle => do let _ ← eol; pure ((name, []), reg)
  | .unknown =>
    match ← attempt (quotedValue pre) with
    | some v => pure ((name, v), reg.addQuoted name)
    | none =>
      match ← attempt (literalValueX g pre) with
      | some v => pure ((name, v), reg.addLiteral name)
      | none =>
        match ← attempt eol with
        | some _ => pure ((name, []), reg.addToggle name)
        | none => pure ((name, name), reg)

def qualifiersX (pre : Bytes) : Nat → Registry → List (Bytes × Bytes) → P (List (Bytes × Bytes) × Registry)
  | 0, reg, acc => pure (acc.reverse, reg)
  | f + 1, reg, acc => do
    match ← attempt (qualifierX g pre reg) with
    | some (q, reg') => qualifiersX pre f reg' (q :: acc)
    | none => pure (acc.reverse, reg)

def locationX : P Loc := do
  let s ← getS
  LocParse.loc (g.loc (s.rest.length + 2))

def keylineX (pre depth : Nat) : P (Bytes × Loc) := do
  lit (sp pre)
  let key ← word isSnake
  blanks (depth - (pre + key.length))
  let l ← locationX g
  let _ ← eol
  pure (key, l)

def firstKeylineX : P (Nat × Bytes × Nat × Loc) := do
  push; push
  let back : P Unit := do pop; pop
  let a ← spaces
  let key ← (do match ← attempt (word isSnake) with | some k => pure k | none => do back; fail)
  let b ← spaces
  let l ← (do match ← attempt (locationX g) with | some l => pure l | none => do back; fail)
  match ← attempt eol with
  | none => do back; fail
  | some _ => do drop; drop; pure (a.length, key, b.length, l)

def tableMoreX (pre depth : Nat) : Nat → Registry → List QFeature → P (List QFeature × Registry)
  | 0, reg, acc => pure (acc.reverse, reg)
  | f + 1, reg, acc => do
    match ← attempt (keylineX g pre depth) with
    | none => pure (acc.reverse, reg)
    | some (key, l) =>
      let n := (← getS).rest.length
      let (qs, reg') ← qualifiersX g (sp depth) (g.quals (n + 1)) reg []
      tableMoreX pre depth f reg' (⟨key, l, propsOfItems qs⟩ :: acc)

def tableX (reg : Registry) : P (List QFeature × Registry) := do
  let (pre, key, pst, l) ← firstKeylineX g
  let depth := pre + key.length + pst
  let n := (← getS).rest.length
  let (qs, reg') ← qualifiersX g (sp depth) (g.quals (n + 1)) reg []
  tableMoreX g pre depth (g.table (n + 1)) reg' [⟨key, l, propsOfItems qs⟩]

def featuresFieldX (reg : Registry) : P (List QFeature × Registry) := do
  lit (bs "FEATURES")
  let _ ← line
  clear
  tableX g reg

/-! ### ORIGIN -/

def decimalX (n : Nat) : Bytes := Origin.digitsAux (g.digits (n + 1)) n

def index9X (n : Nat) : Bytes :=
  let d := decimalX g n
  List.replicate (9 - d.length) 32 ++ d

def walkGroupsX (oob : Err) (length : Int) (i : Nat) : Nat → Nat → Bytes → Origin.Out Bytes
  | 0, _, rest => .ok rest
  | f + 1, j, rest =>
    if j < 60 ∧ ((i + j : Nat) : Int) < length then
      match rest with
      | [] => .error oob
      | c :: r =>
        if c != 32 then .error .fail else
        match Origin.walkChars oob length (i + j) (g.chars 10) 0 r with
        | .error e => .error e
        | .ok r' => walkGroupsX oob length i f (j + 10) r'
    else .ok rest

def walkLineX (oob : Err) (length : Int) (i : Nat) (rest : Bytes) : Origin.Out Bytes :=
  let pre := index9X g (i + 1)
  if pre.isPrefixOf rest then walkGroupsX g oob length i (g.groups 6) 0 (rest.drop pre.length)
  else .error .fail

def validateLinesX (length : Int) : Nat → Nat → Bytes → Origin.Out Unit
  | 0, _, _ => .ok ()
  | f + 1, i, rest =>
    if (i : Int) < length then
      match walkLineX g .panic length i rest with
      | .error e => .error e
      | .ok r =>
        match r with
        | [] => .error .panic
        | c :: r' => if c != 10 then .error .fail else validateLinesX length f (i + 60) r'
    else .ok ()

def validateOriginX (p : Bytes) (length : Int) : Origin.Out Unit :=
  validateLinesX g length (g.validate length.toNat) 0 p

def slowLinesX (length : Int) (cap : Nat) : Nat → Nat → Bytes → Bytes → Origin.Out (Bytes × Bytes)
  | 0, _, st, acc => .ok (acc, st)
  | f + 1, i, st, acc =>
    if (i : Int) < length then
      let (q, st') := Origin.splitLine st
      match walkLineX g .fail length i q with
      | .error _ => .error .fail
      | .ok r =>
        if !r.all (· == 32) then .error .fail else
        let extent := q.length - r.length
        let acc := (acc ++ q.take extent).take cap
        if acc.length < cap then slowLinesX length cap f (i + 60) st' (acc ++ [10])
        else .error .panic
    else .ok (acc, st)

def originFieldX (length : Int) (depth : Nat) : P Bytes := do
  let _ ← fieldName (bs "ORIGIN") depth
  let _ ← line
  clear
  if length > 1000000020 then fail
  let n := Origin.toOriginLength length
  if n < 0 then panic
  let s ← getS
  if s.rest.length < n.toNat then fail
  let p := s.rest.take n.toNat
  let buf ←
    match validateOriginX g p length with
    | .ok () => do advanceN n.toNat; pure p
    | .error .panic => panic
    | .error .fail =>
      match slowLinesX g length n.toNat (g.slow length.toNat) 0 s.rest [] with
      | .error .panic => panic
      | .error .fail => fail
      | .ok (acc, st') => do
        setS { s with rest := st' }
        pure (acc ++ List.replicate (n.toNat - acc.length) 0)
  match ← attempt next with
  | some 32 => fail
  | _ => pure buf

def extraFieldX (depth : Nat) (f : Fields) : P (Fields × Bool) := do
  let name ← word isUpper
  let _ ← fieldPadding name.length depth
  let (b, _) ← fieldBodyX g depth 10
  pure ({ f with extra := f.extra ++ [(name, b)] }, true)

/-! ### `tryAllParsers`, the record loop, the scan loop -/

def featuresSubX : Sub → P (Sub × Bool) := fun (f, _, o, r) => do
  let (t, r') ← featuresFieldX g r
  pure ((f, t, o, r'), true)

def originSubX (length : Int) (depth : Nat) : Sub → P (Sub × Bool) := fun (f, t, _, r) => do
  let b ← originFieldX g length depth
  pure ((f, t, .buffer b, r), true)

def fieldParsersX (length : Int) (depth : Nat) : List (Sub → P (Sub × Bool)) :=
  [liftF (definitionFieldX g depth), liftF (accessionFieldX g depth), liftF (versionFieldX g depth),
   liftF (dblinkFieldX g depth), liftF (keywordsFieldX g depth), liftF (sourceFieldX g depth),
   liftF (referenceFieldX g depth), liftF (commentFieldX g depth), featuresSubX g,
   liftF (contigField depth), originSubX g length depth]

def tryAllX (length : Int) (depth : Nat) (s : Sub) : P Step := do
  match ← tryList (fieldParsersX g length depth) s with
  | (s', true) => pure (.parsed s')
  | (s', false) =>
    let (f, t, o, r) := s'
    push
    match ← attempt (extraFieldX g depth f) with
    | some (f', _) => do drop; pure (.parsed (f', t, o, r))
    | none => do pop; pure (.skip s')

def recordLoopX (length : Int) (depth : Nat) : Nat → Sub → P Sub
  | 0, _ => fail
  | k + 1, s => do
    match ← attempt endMark with
    | some _ => pure s
    | none =>
      match ← tryAllX g length depth s with
      | .parsed s' => recordLoopX length depth k s'
      | .skip s' => do
        let _ ← line
        if (← getS).rest.isEmpty then fail
        recordLoopX length depth k s'

def genbankParserX (reg : Registry) : P (Record × Registry) := do
  let l ← locusParserX g
  clear
  if l.length < 0 ∨ Origin.toOriginLength l.length > 9223372036854775807 then fail
  if !isMolecule l.molecule then fail
  match asTopology l.topology with
  | none => fail
  | some top =>
    let f : Fields := { Fields.empty with
      locusName := l.name, molecule := l.molecule, topology := top, division := l.division,
      date := l.date }
    let n := (← getS).rest.length
    let (f, tab, org, reg') ← recordLoopX g l.length l.depth (g.record (2 * n + 2)) (f, [], .buffer [], reg)
    let m := org.len
    if m ≠ l.length ∧ (m ≠ 0 ∨ f.contigAcc.isEmpty) then fail
    pure (⟨f, tab, org⟩, reg')

def parseAllX (reg : Registry) : Nat → Bytes → List Record → Option (List Record × Registry × Bool)
  | 0, _, acc => some (acc.reverse, reg, false)
  | k + 1, input, acc =>
    if input.isEmpty then some (acc.reverse, reg, true)
    else
      match (genbankParserX g reg).run' ⟨input, []⟩ with
      | (.ok (r, reg'), s) => parseAllX reg' k s.rest (r :: acc)
      | (.error .fail, _) => some (acc.reverse, reg, false)
      | (.error .panic, _) => none

def readAllX (reg : Registry) (input : Bytes) : Option (List Record × Registry × Bool) :=
  parseAllX g reg (g.scan (input.length + 1)) input []

end Gts.GenBank
