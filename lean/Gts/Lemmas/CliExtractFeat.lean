/-
  Helper lemmas for the FEATURE clause of `gts extract` (C15): what `Region.Locate`
  (`Reg.locate`, Gts/Model/Cli.lean) does to the feature table.

  * `Cli.locPieces L f r`: the PIECES an input feature `f` has in `r.Locate(seq)` (`|seq| = L`) —
    one per leaf segment of the region tree whose window the feature overlaps (the `Overlap`
    filter of `gts.Slice`), each with the leaf, the offset of that leaf in the emitted record (the
    lengths of the leaves in front of it: `gts.Concat`), the location (`Slice`: two `Expand`s,
    `asComplete` for `source`; backward leaf: `Complement` then `Reverse`; every `Concat` level but
    the first element: `Expand(0, offset)`) and the K2 guard of exactly these steps folded along the
    way (`Piece.abs`, like `Cli.delAbs`);
  * `locate_feats_perm`: the feature table of `r.Locate(seq)` is, up to the order `Insert` gives it,
    exactly these pieces (nothing lost, nothing added);
  * `locPieces_den`: every piece denotes the feature's residues inside its leaf, at their offset in
    the emitted record, on the strand relative to the leaf (`segPull`);
  * `leafOffs`, `locPieces_leafOffs`, `leafOffs_den`: which leaves, where in `Reg.den r`.
  Core Lean only (plus the C03 / C04 property modules `Gts/Lemmas/Cli.lean` already uses).
-/
import Gts.Lemmas.CliExtractFeatLoc
import Gts.Lemmas.Cli
import Gts.Lemmas.CliFeatures
import Gts.Lemmas.Locate
import Gts.Lemmas.Resize
namespace Gts.Cli
open Gts Loc Reg

/-! ## definitions -/

/-- the location the forward `gts.Slice(seq, a, b)` (`|seq| = L`) gives a feature: `Expand(b, b-L)`,
`Expand(0, -a)`, and `asComplete` for a `source` feature -/
def sliceFeatLoc (f : Feature) (a b L : Int) : Loc :=
  if f.key = "source" then (sliceLoc f.loc a b L).asComplete else sliceLoc f.loc a b L

/-- the location `Segment{h, t}.Locate(seq)` gives a feature: the forward slice, and for a
backward segment (`t < h`) `Complement()` then `Reverse(h - t)` of the slice `[t, h)` -/
def segFeatLoc (f : Feature) (h t L : Int) : Loc :=
  if t < h then ((sliceFeatLoc f t h L).complement).reverse (h - t) else sliceFeatLoc f h t L

/-- the K2 guard of `segFeatLoc`: K2 in neither `Expand` of the slice nor (backward segment) in
the `Reverse` -/
def segAbs (f : Feature) (h t L : Int) : Bool :=
  if t < h then
    expandAbs f.loc h (h - L) || expandAbs (f.loc.expand h (h - L)) 0 (-t) ||
      reverseAbs ((sliceFeatLoc f t h L).complement) (h - t)
  else expandAbs f.loc t (t - L) || expandAbs (f.loc.expand t (t - L)) 0 (-h)

/-- the `Overlap` filter of the `gts.Slice` inside `Segment{h, t}.Locate` -/
def segOverlap (f : Feature) (h t : Int) : Bool :=
  if t < h then f.loc.overlap t h else f.loc.overlap h t

/-- where the record extracted for the segment `(h, t)` has input position `x`: forward `x - h`;
backward (`t < h`, reverse complement of `[t, h)`) `h - 1 - x`; `none` outside the segment -/
def segMap (h t x : Int) : Option Int :=
  if t < h then (if t ≤ x ∧ x < h then some (h - 1 - x) else none)
  else (if h ≤ x ∧ x < t then some (x - h) else none)

/-- what a denotation `d` of the input becomes in the record extracted for the segment `(h, t)`:
the residues inside the segment, at their position there, in the same order; on a backward
segment every strand is flipped -/
def segPull (h t : Int) (d : List Pos) : List Pos :=
  d.filterMap fun p => (segMap h t p.1).map fun y => (y, if t < h then !p.2 else p.2)

/-- a piece of a feature in `r.Locate(seq)`: leaf segment, offset of the leaf in the emitted
record, location, and whether K2 fired in a step that produced the location -/
structure Piece where
  leaf : Seg
  off : Int
  loc : Loc
  abs : Bool
  deriving Repr

/-- `gts.Concat`: a feature of a later element is re-located by `Expand(0, k)`, `k` the length of
what is in front of it -/
def Piece.shift (k : Int) (p : Piece) : Piece :=
  ⟨p.leaf, p.off + k, p.loc.expand 0 k, p.abs || expandAbs p.loc 0 k⟩

mutual
/-- the pieces of feature `f` in `r.Locate(seq)`, `|seq| = L` -/
def locPieces (L : Int) (f : Feature) : Reg → List Piece
  | seg h t => if segOverlap f h t then [⟨(h, t), 0, segFeatLoc f h t L, segAbs f h t L⟩] else []
  | many rs => locPiecesList L f rs
/-- `gts.Concat(seqs...)`: the first element as it is … -/
def locPiecesList (L : Int) (f : Feature) : List Reg → List Piece
  | [] => []
  | r :: rs => locPieces L f r ++ locPiecesTail L f rs (Reg.len r)
/-- … every later one shifted by the length in front of it -/
def locPiecesTail (L : Int) (f : Feature) : List Reg → Int → List Piece
  | [], _ => []
  | r :: rs, off => (locPieces L f r).map (Piece.shift off) ++ locPiecesTail L f rs (off + Reg.len r)
end

/-- the feature a piece is written as -/
def pieceFeat (f : Feature) (p : Piece) : Feature := { f with loc := p.loc }

mutual
/-- the leaf segments of a region tree with their offsets in the emitted record (`o` = offset of
the region itself) -/
def leafOffs : Reg → Int → List (Seg × Int)
  | seg h t, o => [((h, t), o)]
  | many rs, o => leafOffsList rs o
def leafOffsList : List Reg → Int → List (Seg × Int)
  | [], _ => []
  | r :: rs, o => leafOffs r o ++ leafOffsList rs (o + Reg.len r)
end

/-! ## generalities -/

theorem flatMap_ite_eq {α β} (l : List α) (c : α → Bool) (g : α → β) :
    l.flatMap (fun x => if c x then [g x] else []) = (l.filter c).map g := by
  induction l with
  | nil => rfl
  | cons a l ih =>
    rw [List.flatMap_cons, ih, List.filter_cons]
    by_cases h : c a = true <;> simp [h]

theorem flatMap_append_perm {α β} (l : List α) (g1 g2 : α → List β) :
    (l.flatMap g1 ++ l.flatMap g2).Perm (l.flatMap fun x => g1 x ++ g2 x) := by
  induction l with
  | nil => simp
  | cons a l ih =>
    simp only [List.flatMap_cons]
    have h1 : (g1 a ++ l.flatMap g1 ++ (g2 a ++ l.flatMap g2)).Perm
        (g1 a ++ g2 a ++ (l.flatMap g1 ++ l.flatMap g2)) := by
      rw [List.append_assoc, List.append_assoc]
      apply List.Perm.append_left
      rw [← List.append_assoc, ← List.append_assoc]
      exact List.Perm.append_right _ List.perm_append_comm
    exact h1.trans (List.Perm.append_left _ ih)

theorem flatMap_congr' {α β} (l : List α) (g1 g2 : α → List β) (h : ∀ x ∈ l, g1 x = g2 x) :
    l.flatMap g1 = l.flatMap g2 := by
  induction l with
  | nil => rfl
  | cons a l ih =>
    rw [List.flatMap_cons, List.flatMap_cons, h a (List.mem_cons_self ..),
      ih (fun x hx => h x (List.mem_cons_of_mem _ hx))]

theorem map_flatMap' {α β γ} (l : List α) (g : α → List β) (h : β → γ) :
    (l.flatMap g).map h = l.flatMap fun x => (g x).map h := by
  induction l with
  | nil => rfl
  | cons a l ih => simp [List.flatMap_cons, ih]

/-! ## lengths -/

theorem slice_len (s : Seq) (a b : Int) (h0 : 0 ≤ a) (hab : a ≤ b) (hbL : b ≤ s.len) :
    (s.slice a b).len = b - a := by
  unfold Seq.len at *
  rw [Reg.slice_bytes_fwd' s a b h0 hab]
  simp only [List.length_take, List.length_drop]
  omega

theorem concat2_len (a b : Seq) : (Seq.concat2 a b).len = a.len + b.len := by
  simp [Seq.concat2, Seq.len]

mutual
theorem den_length : ∀ r : Reg, ((Reg.den r).length : Int) = Reg.len r
  | seg h t => (Gts.len_eq_length_den_seg h t).symm
  | many rs => by simpa [Reg.den, Reg.len] using denList_length rs
theorem denList_length : ∀ rs : List Reg, ((Reg.denList rs).length : Int) = Reg.lenList rs
  | [] => by simp [Reg.denList, Reg.lenList]
  | r :: rs => by
      have h1 := den_length r
      have h2 := denList_length rs
      simp only [Reg.denList, Reg.lenList, List.length_append]
      omega
end

/-- inside the record, `Region.Locate` emits as many residues as the region is long -/
theorem locate_len (r : Reg) (s : Seq) (hw : within s.len r) : (locate r s).len = Reg.len r := by
  have h := Reg.locate_bytes_den r s (Reg.denIn_of_within hw)
  unfold Seq.len
  rw [h, List.length_map]
  exact den_length r

/-! ## the feature table of `Region.Locate` -/

theorem reverse_feats_perm (s : Seq) :
    s.reverse.feats.Perm (s.feats.map fun f => { f with loc := f.loc.reverse s.len }) := by
  unfold Seq.reverse
  simpa using Table.insertAll_perm [] (s.feats.map fun f => { f with loc := f.loc.reverse s.len })

theorem complement_len (s : Seq) : (Seq.complement s).len = s.len := by
  simp [Seq.complement, Seq.len]

/-- the pieces of one leaf segment, as features -/
theorem pieces_seg_feats (L : Int) (h t : Int) (ff : Table) :
    ff.flatMap (fun f => (locPieces L f (seg h t)).map (pieceFeat f)) =
      (ff.filter fun f => segOverlap f h t).map fun f => { f with loc := segFeatLoc f h t L } := by
  rw [← flatMap_ite_eq]
  apply flatMap_congr'
  intro f _
  simp only [locPieces]
  split <;> simp [pieceFeat]

/-- **`Segment.Locate`, feature table** (both ends inside the record): exactly the features
overlapping the segment, each re-located by `segFeatLoc` -/
theorem locate_seg_feats (s : Seq) (h t : Int) (hw : within s.len (seg h t)) :
    (locate (seg h t) s).feats.Perm
      (s.feats.flatMap fun f => (locPieces s.len f (seg h t)).map (pieceFeat f)) := by
  have hb := hw (h, t) (by simp)
  simp only at hb
  rw [pieces_seg_feats]
  by_cases hth : t < h
  · simp only [locate, hth, if_true]
    have hsl := slice_len s t h hb.2.2.1 (by omega) hb.2.1
    have h1 := reverse_feats_perm (Seq.complement (s.slice t h))
    rw [complement_len, hsl] at h1
    refine h1.trans (List.Perm.of_eq ?_)
    simp only [Seq.complement, C03.slice_feats_fwd s t h hb.2.2.1 (by omega), List.map_map]
    have e : (fun f : Feature => segOverlap f h t) = fun f => f.loc.overlap t h := by
      funext f; simp only [segOverlap, hth, if_true]
    rw [e]
    apply List.map_congr_left
    intro f _
    simp only [Function.comp, segFeatLoc, hth, if_true, sliceFeatLoc, sliceLoc]
  · simp only [locate, hth, if_false]
    rw [C03.slice_feats_fwd s h t hb.1 (by omega)]
    have e : (fun f : Feature => segOverlap f h t) = fun f => f.loc.overlap h t := by
      funext f; simp only [segOverlap, hth, if_false]
    rw [e]
    apply List.Perm.of_eq
    apply List.map_congr_left
    intro f _
    simp only [segFeatLoc, hth, if_false, sliceFeatLoc, sliceLoc]

/-- `gts.Concat` folded over a list of pieces: the features of the accumulated record, then those
of every further element re-located by `Expand(0, length in front)` -/
theorem concat2_feats_perm (a b : Seq) :
    (Seq.concat2 a b).feats.Perm
      (a.feats ++ b.feats.map fun f => { f with loc := f.loc.expand 0 a.len }) := by
  unfold Seq.concat2
  exact Table.insertAll_perm _ _

theorem pieceFeat_shift (f : Feature) (k : Int) (p : Piece) :
    pieceFeat f (p.shift k) = { pieceFeat f p with loc := (pieceFeat f p).loc.expand 0 k } := rfl

mutual
/-- **`Region.Locate`, feature table** (every end of every leaf inside the record): up to the order
`FeatureSlice.Insert` gives it, the table of the emitted record consists of exactly the pieces
`locPieces` of every feature of the input — nothing is lost, nothing is added -/
theorem locate_feats_perm (s : Seq) : ∀ (r : Reg), within s.len r →
    (locate r s).feats.Perm (s.feats.flatMap fun f => (locPieces s.len f r).map (pieceFeat f))
  | seg h t, hw => locate_seg_feats s h t hw
  | many rs, hw => by
      have hw' : ∀ r ∈ rs, within s.len r := (within_many_iff _ _).mp hw
      simp only [locate, locPieces]
      exact locateList_feats_perm s rs hw'
theorem locateList_feats_perm (s : Seq) : ∀ (rs : List Reg), (∀ r ∈ rs, within s.len r) →
    (Seq.concat (locateList rs s)).feats.Perm
      (s.feats.flatMap fun f => (locPiecesList s.len f rs).map (pieceFeat f))
  | [], _ => by
      simp only [locateList, Seq.concat, locPiecesList, List.map_nil]
      induction s.feats with
      | nil => simp
      | cons a l ih => simp [List.flatMap_cons] at ih ⊢
  | r :: rs, hw => by
      have h1 := locate_feats_perm s r (hw r (List.mem_cons_self ..))
      have h2 := locateTail_feats_perm s rs (fun x hx => hw x (List.mem_cons_of_mem _ hx)) (locate r s)
      rw [locate_len r s (hw r (List.mem_cons_self ..))] at h2
      simp only [locateList, Seq.concat, locPiecesList, List.map_append]
      refine h2.trans ?_
      refine (List.Perm.append_right _ h1).trans ?_
      exact flatMap_append_perm _ _ _
theorem locateTail_feats_perm (s : Seq) : ∀ (rs : List Reg), (∀ r ∈ rs, within s.len r) →
    ∀ acc : Seq, ((locateList rs s).foldl Seq.concat2 acc).feats.Perm
      (acc.feats ++ s.feats.flatMap fun f => (locPiecesTail s.len f rs acc.len).map (pieceFeat f))
  | [], _, acc => by
      simp only [locateList, List.foldl_nil, locPiecesTail, List.map_nil]
      have : (s.feats.flatMap fun _ => ([] : List Feature)) = [] := by
        induction s.feats with
        | nil => rfl
        | cons a l ih => simp [List.flatMap_cons]
      rw [this, List.append_nil]
  | r :: rs, hw, acc => by
      have hr := hw r (List.mem_cons_self ..)
      have h1 := locate_feats_perm s r hr
      have h2 := locateTail_feats_perm s rs (fun x hx => hw x (List.mem_cons_of_mem _ hx))
        (Seq.concat2 acc (locate r s))
      rw [concat2_len, locate_len r s hr] at h2
      simp only [locateList, List.foldl_cons, locPiecesTail, List.map_append]
      refine h2.trans ?_
      -- the features of `concat2 acc (locate r s)`
      have h3 := concat2_feats_perm acc (locate r s)
      have h4 : ((locate r s).feats.map fun f => { f with loc := f.loc.expand 0 acc.len }).Perm
          (s.feats.flatMap fun f => ((locPieces s.len f r).map (Piece.shift acc.len)).map (pieceFeat f)) := by
        refine (h1.map _).trans (List.Perm.of_eq ?_)
        rw [map_flatMap']
        apply flatMap_congr'
        intro f _
        simp only [List.map_map]
        apply List.map_congr_left
        intro p _
        rfl
      refine (List.Perm.append_right _ (h3.trans (List.Perm.append_left _ h4))).trans ?_
      rw [List.append_assoc]
      exact List.Perm.append_left _ (flatMap_append_perm _ _ _)
end

/-! ## what a piece denotes -/

theorem segPull_fwd (h t : Int) (hht : ¬ t < h) (d : List Pos) :
    segPull h t d = filterMapPos (winMap h t) d := by
  unfold segPull filterMapPos
  apply filterMap_congr'
  intro p _
  simp only [segMap, winMap, hht, if_false]

theorem segPull_bwd (h t : Int) (hth : t < h) (d : List Pos) :
    segPull h t d = (filterMapPos (winMap t h) d).map fun p => (h - t - 1 - p.1, !p.2) := by
  unfold segPull filterMapPos
  rw [List.map_filterMap]
  apply filterMap_congr'
  intro p _
  simp only [segMap, winMap, hth, if_true]
  by_cases c : t ≤ p.1 ∧ p.1 < h
  · simp only [c, and_self, if_true, Option.map_some]
    congr 2; omega
  · simp only [c, if_false, Option.map_none]

theorem den_complement' (l : Loc) : den (complement l) = flipDen (den l) := by
  cases l <;> simp [Loc.complement, Loc.den, flipDen_flipDen]

/-- the location a forward `gts.Slice` `[a, b)` gives a feature whose coordinates lie inside the
record: well-formed, inside the window, and — unless K2 fires in one of the two `Expand`s —
denoting the feature's residues inside the window, re-based -/
theorem sliceFeatLoc_facts (f : Feature) (a b L : Int) (h0 : 0 ≤ a) (hab : a ≤ b) (hbL : b ≤ L)
    (hw : wf f.loc = true) (hcw : allLeaves (leafWithin L) f.loc = true) :
    wf (sliceFeatLoc f a b L) = true ∧ allLeaves (leafWithin (b - a)) (sliceFeatLoc f a b L) = true ∧
    (expandAbs f.loc b (b - L) = false → expandAbs (f.loc.expand b (b - L)) 0 (-a) = false →
      den (sliceFeatLoc f a b L) ≼ filterMapPos (winMap a b) (den f.loc)) := by
  have hpos := den_in_of_within L f.loc hw hcw
  have hwin := sliceLoc_within f.loc a b L h0 hab hbL hcw
  have hwf : wf (sliceLoc f.loc a b L) = true := by
    unfold sliceLoc
    have e : b - L = -(L - b) := by omega
    rw [e]
    exact (expand_del0 _ 0 a (expand_del0 f.loc b (L - b) hw (by omega)).2 h0).2
  unfold sliceFeatLoc
  by_cases hs : f.key = "source"
  · simp only [hs, if_true, wf_asComplete, within_asComplete, den_asComplete]
    exact ⟨hwf, hwin, fun g1 g2 => (sliceLoc_den f.loc a b L h0 hab hbL hw hpos g1 g2).1⟩
  · simp only [hs, if_false]
    exact ⟨hwf, hwin, fun g1 g2 => (sliceLoc_den f.loc a b L h0 hab hbL hw hpos g1 g2).1⟩

/-- **the location `Segment{h, t}.Locate` gives a feature** whose coordinates lie inside the record
(both ends of the segment inside the record): well-formed, residue-bearing leaves non-negative, and —
unless K2 fires (`segAbs`) — denoting exactly the feature's residues inside the segment, at their
position in the emitted record, on the strand relative to the segment -/
theorem segFeatLoc_facts (f : Feature) (h t L : Int) (hb : 0 ≤ h ∧ h ≤ L ∧ 0 ≤ t ∧ t ≤ L)
    (hw : wf f.loc = true) (hcw : allLeaves (leafWithin L) f.loc = true) :
    wf (segFeatLoc f h t L) = true ∧ nonnegR (segFeatLoc f h t L) = true ∧
    (segAbs f h t L = false → den (segFeatLoc f h t L) ≼ segPull h t (den f.loc)) := by
  by_cases hth : t < h
  · obtain ⟨s1, s2, s3⟩ := sliceFeatLoc_facts f t h L hb.2.2.1 (by omega) hb.2.1 hw hcw
    have hwc : wf (complement (sliceFeatLoc f t h L)) = true := by rw [Loc.wf_complement]; exact s1
    have hcc : allLeaves (leafWithin (h - t)) (complement (sliceFeatLoc f t h L)) = true := by
      rw [allLeaves_complement]; exact s2
    have hr := reverse_mirror (complement (sliceFeatLoc f t h L)) (h - t) hwc
    simp only [segFeatLoc, segAbs, hth, if_true]
    refine ⟨hr.2, reverse_nonnegR (h - t) _ hcc, ?_⟩
    intro hg
    simp only [Bool.or_eq_false_iff] at hg
    have d1 := hr.1 hg.2
    rw [den_complement'] at d1
    have e : ∀ d : List Pos, mirrorDen (h - t) (flipDen d) = d.map (fun p => (h - t - 1 - p.1, !p.2)) := by
      intro d
      simp [flipDen, mirrorDen, mapPos, mirrorMap, List.map_reverse, Function.comp_def]
    rw [e] at d1
    rw [segPull_bwd h t hth]
    exact d1.trans ((s3 hg.1.1 hg.1.2).map _)
  · obtain ⟨s1, s2, s3⟩ := sliceFeatLoc_facts f h t L hb.1 (by omega) hb.2.2.2 hw hcw
    simp only [segFeatLoc, segAbs, hth, if_false]
    refine ⟨s1, nonnegR_of_within _ _ s2, ?_⟩
    intro hg
    simp only [Bool.or_eq_false_iff] at hg
    rw [segPull_fwd h t hth]
    exact s3 hg.1 hg.2

/-- the invariant of a piece of feature `f`: well-formed, residue-bearing leaves non-negative,
offset non-negative, and — unless K2 fired on the way — denoting the feature's residues inside
its leaf, at their position in the emitted record -/
def Piece.Ok (f : Feature) (p : Piece) : Prop :=
  wf p.loc = true ∧ nonnegR p.loc = true ∧ 0 ≤ p.off ∧
  (p.abs = false → den p.loc ≼ mapPos (· + p.off) (segPull p.leaf.1 p.leaf.2 (den f.loc)))

theorem Piece.Ok.shift {f : Feature} {p : Piece} (hp : p.Ok f) (k : Int) (hk : 0 ≤ k) :
    (p.shift k).Ok f := by
  obtain ⟨h1, h2, h3, h4⟩ := hp
  refine ⟨(expand_ins p.loc 0 k h1 hk).2, expand0_nonnegR' p.loc k hk h1 h2, ?_, ?_⟩
  · show 0 ≤ p.off + k
    omega
  · intro hg
    have hg' : p.abs = false ∧ expandAbs p.loc 0 k = false := by
      simpa [Piece.shift, Bool.or_eq_false_iff] using hg
    have d1 := guest_translateR p.loc k h1 h2 hk hg'.2
    have d2 := mapPos_refines (· + k) (h4 hg'.1)
    rw [mapPos_mapPos] at d2
    have e : mapPos (fun x => x + p.off + k) (segPull p.leaf.1 p.leaf.2 (den f.loc)) =
        mapPos (· + (p.off + k)) (segPull p.leaf.1 p.leaf.2 (den f.loc)) := by
      apply mapPos_congr
      intro q _
      omega
    rw [e] at d2
    exact d1.trans d2

mutual
/-- **every piece of a feature in `r.Locate(seq)` meets the invariant** (`|seq| = L`; the region
inside the record, the feature's coordinates inside the record) -/
theorem locPieces_ok (L : Int) (f : Feature) (hw : wf f.loc = true)
    (hcw : allLeaves (leafWithin L) f.loc = true) :
    ∀ (r : Reg), within L r → ∀ p ∈ locPieces L f r, p.Ok f
  | seg h t, hr, p, hp => by
      have hb := hr (h, t) (by simp)
      simp only at hb
      simp only [locPieces] at hp
      split at hp
      · rw [List.mem_singleton] at hp
        subst hp
        obtain ⟨s1, s2, s3⟩ := segFeatLoc_facts f h t L hb hw hcw
        refine ⟨s1, s2, Int.le_refl 0, ?_⟩
        intro hg
        have e : mapPos (· + (0 : Int)) (segPull h t (den f.loc)) = segPull h t (den f.loc) := by
          rw [mapPos_congr _ (fun x => x) _ (fun q _ => by simp), mapPos_id]
        show den (segFeatLoc f h t L) ≼ mapPos (· + (0 : Int)) (segPull h t (den f.loc))
        rw [e]
        exact s3 hg
      · cases hp
  | many rs, hr, p, hp => by
      simp only [locPieces] at hp
      exact locPiecesList_ok L f hw hcw rs ((within_many_iff _ _).mp hr) p hp
theorem locPiecesList_ok (L : Int) (f : Feature) (hw : wf f.loc = true)
    (hcw : allLeaves (leafWithin L) f.loc = true) :
    ∀ (rs : List Reg), (∀ r ∈ rs, within L r) → ∀ p ∈ locPiecesList L f rs, p.Ok f
  | [], _, p, hp => by simp [locPiecesList] at hp
  | r :: rs, hr, p, hp => by
      simp only [locPiecesList, List.mem_append] at hp
      rcases hp with hp | hp
      · exact locPieces_ok L f hw hcw r (hr r (List.mem_cons_self ..)) p hp
      · exact locPiecesTail_ok L f hw hcw rs (fun x hx => hr x (List.mem_cons_of_mem _ hx))
          (Reg.len r) (Gts.len_nonneg r) p hp
theorem locPiecesTail_ok (L : Int) (f : Feature) (hw : wf f.loc = true)
    (hcw : allLeaves (leafWithin L) f.loc = true) :
    ∀ (rs : List Reg), (∀ r ∈ rs, within L r) → ∀ off : Int, 0 ≤ off →
      ∀ p ∈ locPiecesTail L f rs off, p.Ok f
  | [], _, _, _, p, hp => by simp [locPiecesTail] at hp
  | r :: rs, hr, off, hoff, p, hp => by
      simp only [locPiecesTail, List.mem_append, List.mem_map] at hp
      rcases hp with ⟨q, hq, rfl⟩ | hp
      · exact (locPieces_ok L f hw hcw r (hr r (List.mem_cons_self ..)) q hq).shift off hoff
      · exact locPiecesTail_ok L f hw hcw rs (fun x hx => hr x (List.mem_cons_of_mem _ hx))
          (off + Reg.len r) (by have := Gts.len_nonneg r; omega) p hp
end

/-! ## which leaves, and where they lie in the emitted record -/

/-- leaf and offset of a piece -/
def Piece.key (p : Piece) : Seg × Int := (p.leaf, p.off)

mutual
theorem leafOffs_add : ∀ (r : Reg) (o k : Int),
    leafOffs r (o + k) = (leafOffs r o).map fun lo => (lo.1, lo.2 + k)
  | seg h t, o, k => by simp [leafOffs]
  | many rs, o, k => by simpa [leafOffs] using leafOffsList_add rs o k
theorem leafOffsList_add : ∀ (rs : List Reg) (o k : Int),
    leafOffsList rs (o + k) = (leafOffsList rs o).map fun lo => (lo.1, lo.2 + k)
  | [], _, _ => by simp [leafOffsList]
  | r :: rs, o, k => by
      have e : o + k + Reg.len r = o + Reg.len r + k := by omega
      simp only [leafOffsList, List.map_append, leafOffs_add r o k, e, leafOffsList_add rs (o + Reg.len r) k]
end

theorem filter_overlap_shift (f : Feature) (k : Int) (l : List (Seg × Int)) :
    ((l.filter fun lo => segOverlap f lo.1.1 lo.1.2).map fun lo => (lo.1, lo.2 + k)) =
      (l.map fun lo => (lo.1, lo.2 + k)).filter fun lo => segOverlap f lo.1.1 lo.1.2 := by
  rw [List.filter_map]
  rfl

mutual
/-- **the pieces of a feature are its overlapped leaves**: one piece per leaf segment of the region
tree (left to right) that passes the `Overlap` filter, at the offset of that leaf in the emitted
record (the lengths of the leaves in front of it) -/
theorem locPieces_keys (L : Int) (f : Feature) : ∀ (r : Reg),
    (locPieces L f r).map Piece.key = (leafOffs r 0).filter fun lo => segOverlap f lo.1.1 lo.1.2
  | seg h t => by
      simp only [locPieces, leafOffs, List.filter_cons, List.filter_nil]
      split <;> simp [Piece.key]
  | many rs => by simpa [locPieces, leafOffs] using locPiecesList_keys L f rs
theorem locPiecesList_keys (L : Int) (f : Feature) : ∀ (rs : List Reg),
    (locPiecesList L f rs).map Piece.key = (leafOffsList rs 0).filter fun lo => segOverlap f lo.1.1 lo.1.2
  | [] => by simp [locPiecesList, leafOffsList]
  | r :: rs => by
      simp only [locPiecesList, leafOffsList, List.map_append, List.filter_append, Int.zero_add,
        locPieces_keys L f r, locPiecesTail_keys L f rs (Reg.len r)]
theorem locPiecesTail_keys (L : Int) (f : Feature) : ∀ (rs : List Reg) (off : Int),
    (locPiecesTail L f rs off).map Piece.key =
      (leafOffsList rs off).filter fun lo => segOverlap f lo.1.1 lo.1.2
  | [], _ => by simp [locPiecesTail, leafOffsList]
  | r :: rs, off => by
      have e1 : ((locPieces L f r).map (Piece.shift off)).map Piece.key =
          ((locPieces L f r).map Piece.key).map fun lo => (lo.1, lo.2 + off) := by
        simp only [List.map_map]
        apply List.map_congr_left
        intro p _
        rfl
      have e2 := leafOffs_add r 0 off
      rw [Int.zero_add] at e2
      simp only [locPiecesTail, leafOffsList, List.map_append, List.filter_append, e1,
        locPieces_keys L f r, filter_overlap_shift, ← e2, locPiecesTail_keys L f rs (off + Reg.len r)]
end

mutual
/-- **the offset of a leaf is where its residues lie in `Reg.den`** (hence, by
`Reg.locate_bytes_den`, in the emitted record) -/
theorem leafOffs_den : ∀ (r : Reg) (o : Int), ∀ lo ∈ leafOffs r o,
    ∃ pre post, Reg.den r = pre ++ Reg.den (seg lo.1.1 lo.1.2) ++ post ∧ (pre.length : Int) = lo.2 - o
  | seg h t, o, lo, hlo => by
      simp only [leafOffs, List.mem_singleton] at hlo
      subst hlo
      exact ⟨[], [], by simp, by simp⟩
  | many rs, o, lo, hlo => by
      simp only [leafOffs] at hlo
      simpa [Reg.den] using leafOffsList_den rs o lo hlo
theorem leafOffsList_den : ∀ (rs : List Reg) (o : Int), ∀ lo ∈ leafOffsList rs o,
    ∃ pre post, Reg.denList rs = pre ++ Reg.den (seg lo.1.1 lo.1.2) ++ post ∧
      (pre.length : Int) = lo.2 - o
  | [], _, lo, hlo => by simp [leafOffsList] at hlo
  | r :: rs, o, lo, hlo => by
      simp only [leafOffsList, List.mem_append] at hlo
      rcases hlo with h | h
      · obtain ⟨pre, post, e, hl⟩ := leafOffs_den r o lo h
        refine ⟨pre, post ++ Reg.denList rs, ?_, hl⟩
        simp only [Reg.denList, e, List.append_assoc]
      · obtain ⟨pre, post, e, hl⟩ := leafOffsList_den rs (o + Reg.len r) lo h
        refine ⟨Reg.den r ++ pre, post, ?_, ?_⟩
        · simp only [Reg.denList, e, List.append_assoc]
        · have := den_length r
          simp only [List.length_append]
          omega
end

theorem getElem?_irange (s : Int) (n k : Nat) (hk : k < n) : (irange s n)[k]? = some (s + k) := by
  induction n generalizing s k with
  | zero => omega
  | succ n ih =>
    cases k with
    | zero => simp
    | succ k =>
      rw [irange_succ, List.getElem?_cons_succ, ih (s + 1) k (by omega)]
      congr 1; omega

/-- the residue at position `y` of the record extracted for the segment `(h, t)` is the input
residue `x` with `segMap h t x = some y`, read on the strand of the segment -/
theorem seg_den_get (h t x y : Int) (hm : segMap h t x = some y) :
    0 ≤ y ∧ (Reg.den (seg h t))[y.toNat]? = some (x, decide (t < h)) := by
  unfold segMap at hm
  by_cases hth : t < h
  · rw [if_pos hth] at hm
    split at hm
    · rename_i c
      have hy : y = h - 1 - x := (Option.some.inj hm).symm
      subst hy
      refine ⟨by omega, ?_⟩
      simp only [Reg.den, hth, if_true, flipDen, fwd, List.map_reverse, List.map_map, decide_true]
      rw [List.getElem?_reverse (by simp; omega), List.getElem?_map, List.length_map, length_irange,
        getElem?_irange _ _ _ (by omega)]
      simp only [Option.map_some, Function.comp, Bool.not_false]
      congr 2
      omega
    · cases hm
  · rw [if_neg hth] at hm
    split at hm
    · rename_i c
      have hy : y = x - h := (Option.some.inj hm).symm
      subst hy
      refine ⟨by omega, ?_⟩
      simp only [Reg.den, hth, if_false, fwd, decide_false]
      rw [List.getElem?_map, getElem?_irange _ _ _ (by omega)]
      simp only [Option.map_some]
      congr 2
      omega
    · cases hm

/-! ## reading a piece back in INPUT coordinates -/

/-- the input residue (position, strand) that the residue `q` of the emitted record stands for, `D`
being the residues the region reads (`Reg.den r`): position `q.1` of the emitted record IS input
residue `D[q.1]`, so reading it on strand `q.2` reads input position `D[q.1].1` on the strand
`D[q.1].2` flipped by `q.2` -/
def backPos (D : List Pos) (q : Pos) : Option Pos :=
  if q.1 < 0 then none else (D[q.1.toNat]?).map fun d => (d.1, d.2 != q.2)

/-- the residue of the emitted record that the spec of a piece puts input residue `p` at stands for `p` -/
theorem backPos_seg (r : Reg) (lo : Seg × Int) (hlo : lo ∈ leafOffs r 0) (p : Pos) (y : Int)
    (hm : segMap lo.1.1 lo.1.2 p.1 = some y) :
    backPos (Reg.den r) (y + lo.2, if lo.1.2 < lo.1.1 then !p.2 else p.2) = some p := by
  obtain ⟨pre, post, hD, hl⟩ := leafOffs_den r 0 lo hlo
  obtain ⟨hy0, hget⟩ := seg_den_get lo.1.1 lo.1.2 p.1 y hm
  unfold backPos
  have hoff : (0 : Int) ≤ lo.2 := by omega
  simp only
  rw [if_neg (by omega), hD]
  have hidx : (y + lo.2).toNat = pre.length + y.toNat := by omega
  have hlt : y.toNat < (Reg.den (seg lo.1.1 lo.1.2)).length := (List.getElem?_eq_some_iff.mp hget).1
  rw [hidx, List.append_assoc, List.getElem?_append_right (by omega), Nat.add_sub_cancel_left,
    List.getElem?_append_left hlt, hget]
  simp only [Option.map_some]
  congr 1
  apply Prod.ext
  · rfl
  · by_cases c : lo.1.2 < lo.1.1 <;> cases hp2 : p.2 <;> simp [c]

/-- read back through the region, the spec of a piece is the feature's own residues inside the leaf:
same positions, same strands, same order -/
theorem segPull_back (r : Reg) (lo : Seg × Int) (hlo : lo ∈ leafOffs r 0) (d : List Pos) :
    (mapPos (· + lo.2) (segPull lo.1.1 lo.1.2 d)).filterMap (backPos (Reg.den r)) =
      d.filter fun p => (segMap lo.1.1 lo.1.2 p.1).isSome := by
  induction d with
  | nil => rfl
  | cons p d ih =>
    simp only [segPull, mapPos, List.filterMap_cons, List.filter_cons] at ih ⊢
    cases hm : segMap lo.1.1 lo.1.2 p.1 with
    | none => simpa [hm] using ih
    | some y =>
      simp only [Option.map_some, List.map_cons, List.filterMap_cons, Option.isSome_some, if_true]
      rw [backPos_seg r lo hlo p y hm]
      simp only [ih]

/-- … and every residue of that spec stands for one of them -/
theorem segPull_back_some (r : Reg) (lo : Seg × Int) (hlo : lo ∈ leafOffs r 0) (d : List Pos)
    (q : Pos) (hq : q ∈ mapPos (· + lo.2) (segPull lo.1.1 lo.1.2 d)) :
    ∃ p ∈ d, backPos (Reg.den r) q = some p := by
  simp only [mapPos, segPull, List.mem_map, List.mem_filterMap] at hq
  obtain ⟨q0, ⟨p, hp, hq0⟩, rfl⟩ := hq
  cases hm : segMap lo.1.1 lo.1.2 p.1 with
  | none => rw [hm] at hq0; cases hq0
  | some y =>
    rw [hm] at hq0
    simp only [Option.map_some, Option.some.injEq] at hq0
    subst hq0
    exact ⟨p, hp, backPos_seg r lo hlo p y hm⟩

theorem map_eq_of_filterMap {α β γ} (l : List α) (g : α → Option β) (φ : α → γ) (ψ : β → γ)
    (h : ∀ q ∈ l, ∃ p, g q = some p ∧ φ q = ψ p) : l.map φ = (l.filterMap g).map ψ := by
  induction l with
  | nil => rfl
  | cons a l ih =>
    obtain ⟨p, h1, h2⟩ := h a (List.mem_cons_self ..)
    rw [List.map_cons, List.filterMap_cons, h1, List.map_cons, h2,
      ih (fun q hq => h q (List.mem_cons_of_mem _ hq))]

/-- **a piece, read back in input coordinates**: unless K2 fired, the residues a piece denotes in the
emitted record stand — through the region's own reading `Reg.den r` — for residues of the feature
inside the leaf, on their original strand, in their original order, and for every one of them -/
theorem piece_back (L : Int) (f : Feature) (hw : wf f.loc = true)
    (hcw : allLeaves (leafWithin L) f.loc = true) (r : Reg) (hr : within L r)
    (p : Piece) (hp : p ∈ locPieces L f r) (hg : p.abs = false) :
    (den p.loc).filterMap (backPos (Reg.den r)) ≼
      (den f.loc).filter fun q => (segMap p.leaf.1 p.leaf.2 q.1).isSome := by
  have hok := locPieces_ok L f hw hcw r hr p hp
  have hk : p.key ∈ leafOffs r 0 := by
    have : p.key ∈ (locPieces L f r).map Piece.key := List.mem_map_of_mem hp
    rw [locPieces_keys] at this
    exact (List.mem_filter.mp this).1
  have := (hok.2.2.2 hg).filterMap (backPos (Reg.den r))
  have e := segPull_back r p.key hk (den f.loc)
  simp only [Piece.key] at e
  rw [e] at this
  exact this

theorem uToT_uToT : ∀ c : UInt8, uToT (uToT c) = uToT c :=
  Nuc.forall_uint8 (by decide +kernel)

/-- **reading the emitted record is reading the input**: for a region inside the record, the residue
`q` of the emitted record, read on its strand, is the input residue `backPos (Reg.den r) q` read on
its strand — up to U → T where both the region and the feature are on the complement strand (the
byte is complemented twice) -/
theorem readAt_back (r : Reg) (s : Seq) (hr : within s.len r) (q p0 : Pos)
    (hb : backPos (Reg.den r) q = some p0) :
    uToT (readAt (locate r s).bytes q) = uToT (readAt s.bytes p0) := by
  have hbytes := Reg.locate_bytes_den r s (Reg.denIn_of_within hr)
  unfold backPos at hb
  split at hb
  · cases hb
  · rename_i hq
    cases hd : (Reg.den r)[q.1.toNat]? with
    | none => rw [hd] at hb; cases hb
    | some d =>
      rw [hd] at hb
      simp only [Option.map_some, Option.some.injEq] at hb
      subst hb
      have hlt : q.1.toNat < (Reg.den r).length := (List.getElem?_eq_some_iff.mp hd).1
      have hdm : d ∈ Reg.den r := List.mem_of_getElem? hd
      have hin := Reg.denIn_of_within hr d hdm
      have hx : d.1.toNat < s.bytes.length := by
        have : s.len = s.bytes.length := rfl
        omega
      obtain ⟨qx, qr⟩ := q
      obtain ⟨dx, dr⟩ := d
      simp only at hq hlt hin hx
      have hlt' : qx.toNat < (locate r s).bytes.length := by rw [hbytes, List.length_map]; exact hlt
      rw [readAt_getElem _ qx qr (by omega) hlt', readAt_getElem s.bytes dx (dr != qr) hin.1 hx]
      have hget : (locate r s).bytes[qx.toNat] = readAt s.bytes (dx, dr) := by
        have h1 : (locate r s).bytes[qx.toNat]? = some (readAt s.bytes (dx, dr)) := by
          rw [hbytes, List.getElem?_map, hd]; rfl
        exact (List.getElem?_eq_some_iff.mp h1).2
      rw [hget, readAt_getElem s.bytes dx dr hin.1 hx]
      cases qr <;> cases dr <;> simp [rd, complementByte_complementByte, uToT_uToT]

end Gts.Cli
