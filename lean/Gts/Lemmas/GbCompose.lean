/-
  C01: the composition — `GenBankParser` on the text `GenBank.String` wrote.  Core Lean only.
-/
import Gts.Lemmas.GbWrite
namespace Gts.GenBank
open Gts.Pars

/-! ### what the header sections do to the record read so far -/

theorem secsAct_refs (rs : List Reference) (f : Fields) (t : List QFeature) (o : OriginV) (r : Registry) :
    secsAct (rs.map secReference) (f, t, o, r) = ({ f with references := f.references ++ rs }, t, o, r) := by
  induction rs generalizing f with
  | nil => simp [secsAct]
  | cons x rs ih =>
    simp only [secsAct, List.map_cons, List.foldl_cons, secReference] at ih ⊢
    rw [ih]; simp

theorem secsAct_comments (cs : List Bytes) (f : Fields) (t : List QFeature) (o : OriginV) (r : Registry) :
    secsAct (cs.map secComment) (f, t, o, r) = ({ f with comments := f.comments ++ cs }, t, o, r) := by
  induction cs generalizing f with
  | nil => simp [secsAct]
  | cons x cs ih =>
    simp only [secsAct, List.map_cons, List.foldl_cons, secComment] at ih ⊢
    rw [ih]; simp

theorem secsAct_extras (es : List (Bytes × Bytes)) (f : Fields) (t : List QFeature) (o : OriginV) (r : Registry) :
    secsAct (es.map fun e => secExtra e.1 e.2) (f, t, o, r) = ({ f with extra := f.extra ++ es }, t, o, r) := by
  induction es generalizing f with
  | nil => simp [secsAct]
  | cons x es ih =>
    simp only [secsAct, List.map_cons, List.foldl_cons, secExtra] at ih ⊢
    rw [ih]; simp

theorem secsAct_append (a b : List Section) (s : Sub) : secsAct (a ++ b) s = secsAct b (secsAct a s) := by
  simp [secsAct, List.foldl_append]

/-- the header sections of `g`, read into a record whose lists are still empty -/
theorem secsAct_header (g f : Fields) (t : List QFeature) (o : OriginV) (r : Registry)
    (hd : distinctKeys g.dblink = true) (h0 : f.dblink = [] ∧ f.references = [] ∧ f.comments = [] ∧ f.extra = []) :
    secsAct (headerSecs g) (f, t, o, r) =
      ({ f with definition := g.definition, accession := accessionLine g, version := g.version, dblink := g.dblink,
                keywords := g.keywords, species := g.species, organism := g.organism, taxon := g.taxon,
                references := g.references, comments := g.comments, extra := g.extra }, t, o, r) := by
  obtain ⟨h1, h2, h3, h4⟩ := h0
  unfold headerSecs
  have r1 := fun f' => secsAct_refs g.references f' t o r
  have r2 := fun f' => secsAct_comments g.comments f' t o r
  have r3 := fun f' => secsAct_extras g.extra f' t o r
  simp only [secsAct] at r1 r2 r3
  simp only [secsAct_append]
  cases hdb : g.dblink with
  | nil =>
    simp [secsAct, secDefinition, secAccession, secVersion, secKeywords, secSource, h1, h2, h3, h4, r1, r2, r3]
  | cons p ps =>
    have := dictSetAll_distinct [] (p :: ps) (by rw [← hdb]; exact hd) (by simp)
    simp [secsAct, secDefinition, secAccession, secVersion, secKeywords, secSource, secDblink, h1, h2, h3, h4, this,
      r1, r2, r3]

/-! ### the FEATURES step -/

theorem loop_features (length : Int) (k : Nat) (f : Fields) (t : List QFeature) (o : OriginV) (reg : Registry)
    (ft : QFeature) (fs : List QFeature) (rest : Bytes) (hw : tableWritable reg (ft :: fs) = true)
    (hloc : ∀ x ∈ ft :: fs, LocRT x.loc) (hrest : startsField rest = true) :
    ∃ txt, tableText reg (ft :: fs) = .ok txt ∧
      recordLoop length 12 (k + 1) (f, t, o, reg)
          ⟨bs "FEATURES             Location/Qualifiers\n" ++ (txt ++ 10 :: rest), []⟩ =
        recordLoop length 12 k (f, (ft :: fs).map (readFeature reg), o, learnTable reg (ft :: fs)) ⟨rest, []⟩ := by
  obtain ⟨txt, htxt, _⟩ := features_roundtrip reg ft fs rest [] hw hloc (startsField_not_sp 5 (by omega) rest hrest)
  refine ⟨txt, htxt, ?_⟩
  have hrun : ∀ st, featuresField reg ⟨bs "FEATURES             Location/Qualifiers\n" ++ (txt ++ 10 :: rest), st⟩ =
      (.ok ((ft :: fs).map (readFeature reg), learnTable reg (ft :: fs)), ⟨rest, []⟩) := by
    intro st
    obtain ⟨txt', htxt', hr⟩ := features_roundtrip reg ft fs rest st hw hloc (startsField_not_sp 5 (by omega) rest hrest)
    rw [htxt] at htxt'
    cases htxt'
    exact hr
  have e3 : bs "FEATURES             Location/Qualifiers\n" ++ (txt ++ 10 :: rest) =
      70 :: (bs "EATURES             Location/Qualifiers\n" ++ (txt ++ 10 :: rest)) := by simp [bs]
  have ht : tryAll length 12 (f, t, o, reg) ⟨bs "FEATURES             Location/Qualifiers\n" ++ (txt ++ 10 :: rest), []⟩ =
      (.ok (.parsed (f, (ft :: fs).map (readFeature reg), o, learnTable reg (ft :: fs))), ⟨rest, []⟩) := by
    apply tryAll_at 8 (by omega) length _ _ _ rest [] (by simp [notNames, fieldNames, bs, List.isPrefixOf])
      featuresSub (by simp [fieldParsers])
    · gsimp [featuresSub, hrun]
    · rfl
  rw [e3] at ht ⊢
  exact loop_step length k _ _ 70 _ rest (by decide) ht

end Gts.GenBank

namespace Gts.GenBank
open Gts.Pars

/-! ### the domain of a record -/

/-- the length `GenBank.String` puts into the LOCUS line -/
def locusLength (f : Fields) (p : Bytes) : Int := if p.isEmpty then contigLen f else (p.length : Int)

/-- the header part of the domain -/
def headerOk (f : Fields) : Bool :=
  noCR f.definition && noEOL (accessionLine f) && noEOL f.version &&
  f.dblink.all pairOk && distinctKeys f.dblink && listOk f.keywords && noCR f.species &&
  organismOk f.organism && taxonOk f.taxon && f.references.all referenceOk && f.comments.all noCR &&
  f.extra.all fun e => WritableExtra e.1 e.2 && extraNameOk e.1

/-- **`Writable`**: the decidable domain of the round trip for a record that carries the residues
`p` (locations aside: `LocRT`).  LOCUS line (`locusOk`, one of the five molecules), header fields
(`headerOk`), an empty table or a writable one, no CONTIG (then its region is zero) or a
writable one, printable residues, fewer than 10^9 of them. -/
def Writable (reg : Registry) (r : Record) (p : Bytes) : Bool :=
  let f := r.fields
  locusOk f (locusLength f p) && decide (Origin.toOriginLength (locusLength f p) ≤ 9223372036854775807) &&
  isMolecule f.molecule && headerOk f &&
  (match r.table with | [] => true | _ :: _ => tableWritable reg r.table) &&
  (if f.contigAcc.isEmpty then decide (f.contigHead = 0 ∧ f.contigTail = 0) else contigOk f) &&
  p.all Origin.isBase && decide (p.length < 10 ^ 9)

theorem headerSecs_ok (f : Fields) (L : Int) (h : headerOk f = true) : ∀ x ∈ headerSecs f, SecOK L x := by
  simp only [headerOk, Bool.and_eq_true, List.all_eq_true] at h
  obtain ⟨⟨⟨⟨⟨⟨⟨⟨⟨⟨⟨hdef, hacc⟩, hver⟩, hdb⟩, _⟩, hkw⟩, hsp⟩, horg⟩, htax⟩, href⟩, hcom⟩, hext⟩ := h
  intro x hx
  simp only [headerSecs, List.mem_append, List.mem_cons, List.mem_map, List.not_mem_nil, or_false] at hx
  rcases hx with (((((hx | hx | hx) | hx) | (hx | hx)) | hx) | hx) | hx
  · subst hx; exact secDefinition_ok L _ hdef
  · subst hx; exact secAccession_ok L _ hacc
  · subst hx; exact secVersion_ok L _ hver
  · cases hd : f.dblink with
    | nil => rw [hd] at hx; simp at hx
    | cons p ps =>
      rw [hd] at hx hdb
      simp at hx; subst hx
      exact secDblink_ok L p ps hdb
  · subst hx; exact secKeywords_ok L _ hkw
  · subst hx; exact secSource_ok L _ _ _ hsp horg htax
  · obtain ⟨y, hy, rfl⟩ := hx
    exact secReference_ok L y (href y hy)
  · obtain ⟨y, hy, rfl⟩ := hx
    exact secComment_ok L y (hcom y hy)
  · obtain ⟨e, he, rfl⟩ := hx
    have := hext e he
    exact secExtra_ok L _ _ this.1 this.2

/-- the sections behind the feature table -/
def tailSecs (f : Fields) (p : Bytes) : List Section :=
  (if f.contigAcc.isEmpty then [] else [secContig f]) ++ (if p.isEmpty then [] else [secOrigin p])

theorem tailSecs_ok (f : Fields) (p : Bytes)
    (hc : (if f.contigAcc.isEmpty then decide (f.contigHead = 0 ∧ f.contigTail = 0) else contigOk f) = true)
    (hp : p.all Origin.isBase = true) (hlen : p.length < 10 ^ 9) :
    ∀ x ∈ tailSecs f p, SecOK (locusLength f p) x := by
  intro x hx
  simp only [tailSecs, List.mem_append] at hx
  rcases hx with hx | hx
  · by_cases hca : f.contigAcc.isEmpty = true
    · simp [hca] at hx
    · simp only [hca, Bool.false_eq_true, if_false, List.mem_singleton] at hx hc
      subst hx; exact secContig_ok _ f hc
  · by_cases hpe : p.isEmpty = true
    · simp [hpe] at hx
    · simp only [hpe, Bool.false_eq_true, if_false, List.mem_singleton] at hx
      subst hx
      have : locusLength f p = (p.length : Int) := by simp [locusLength, hpe]
      rw [this]
      exact secOrigin_ok p (by simpa [List.all_eq_true] using hp) hlen

/-- the text of the tail sections is what `GenBank.String` writes behind the table -/
theorem tailSecs_text (f : Fields) (p : Bytes) (hlen : p.length < 10 ^ 9) :
    (let contig := contigText f
     (if contig.isEmpty then [] else bs "CONTIG      " ++ contig ++ [10])) ++
    (if (p.length : Int) > 0 then bs "ORIGIN      \n" ++ Origin.originStream p else []) =
    secsText (tailSecs f p) := by
  have hc : (contigText f).isEmpty = f.contigAcc.isEmpty := by
    unfold contigText
    by_cases h : f.contigAcc.isEmpty = true
    · simp [h]
    · simp [h, bs]
  have hp : ((p.length : Int) > 0) ↔ p.isEmpty = false := by
    cases p <;> simp
  by_cases h1 : f.contigAcc.isEmpty = true <;> by_cases h2 : p.isEmpty = true <;>
    simp [tailSecs, secsText, secContig, secOrigin, hc, h1, h2, hp, List.append_assoc]
  all_goals (intro hh; cases p <;> simp_all)

end Gts.GenBank

namespace Gts.GenBank
open Gts.Pars

theorem writable_parts (reg : Registry) (r : Record) (p : Bytes) (hw : Writable reg r p = true) :
    locusOk r.fields (locusLength r.fields p) = true ∧
    Origin.toOriginLength (locusLength r.fields p) ≤ 9223372036854775807 ∧ isMolecule r.fields.molecule = true ∧
    headerOk r.fields = true ∧
    (match r.table with | [] => true | _ :: _ => tableWritable reg r.table) = true ∧
    (if r.fields.contigAcc.isEmpty then decide (r.fields.contigHead = 0 ∧ r.fields.contigTail = 0)
      else contigOk r.fields) = true ∧
    p.all Origin.isBase = true ∧ p.length < 10 ^ 9 := by
  simp only [Writable, Bool.and_eq_true, decide_eq_true_eq] at hw
  obtain ⟨⟨⟨⟨⟨⟨⟨h1, h1'⟩, h2⟩, h3⟩, h4⟩, h5⟩, h6⟩, h7⟩ := hw
  exact ⟨h1, h1', h2, h3, h4, h5, h6, h7⟩

theorem headerOk_refs (f : Fields) (h : headerOk f = true) :
    ∀ x ∈ f.references, ∀ v, x.pubmed = some v → noEOL v = true := by
  simp only [headerOk, Bool.and_eq_true, List.all_eq_true] at h
  intro x hx v hv
  have := h.1.1.2 x hx
  simp only [referenceOk, Bool.and_eq_true] at this
  have h2 := this.1.2
  rw [hv] at h2; exact h2

/-- the text `GenBank.String` writes, for a record with residues `p` -/
theorem write_eq (reg : Registry) (r : Record) (p : Bytes) (ho : r.origin = .residues p)
    (hh : headerOk r.fields = true) (hlen : p.length < 10 ^ 9) :
    (r.table = [] → write reg r = .ok (locusLine r.fields (locusLength r.fields p) ++ 10 ::
        (secsText (headerSecs r.fields) ++ (secsText (tailSecs r.fields p) ++ bs "//\n")))) ∧
    (∀ ft fs tt, r.table = ft :: fs → tableText reg (ft :: fs) = .ok tt →
      write reg r = .ok (locusLine r.fields (locusLength r.fields p) ++ 10 ::
        (secsText (headerSecs r.fields) ++ (bs "FEATURES             Location/Qualifiers\n" ++ (tt ++ 10 ::
          (secsText (tailSecs r.fields p) ++ bs "//\n")))))) := by
  have hp := headerOk_refs r.fields hh
  obtain ⟨f, tab, org⟩ := r
  simp only at ho hh hp ⊢
  subst ho
  have hhead := headerText_eq f (locusLength f p) hp
  have htail := tailSecs_text f p hlen
  have hL : (if p = [] then contigLen f else ((p.length : Nat) : Int)) = locusLength f p := by
    unfold locusLength
    cases p <;> simp
  have hnew := Origin.newOrigin_ok p hlen
  constructor
  · intro ht
    subst ht
    unfold write
    rw [← htail]
    by_cases hpos : 0 < p.length
    · simp [OriginV.len, OriginV.text, hL, hhead, hnew, hpos, Bind.bind, Except.bind, pure, Except.pure, List.append_assoc]
    · simp [OriginV.len, OriginV.text, hL, hhead, hnew, hpos, Bind.bind, Except.bind, pure, Except.pure, List.append_assoc]
  · intro ft fs tt ht htt
    subst ht
    unfold write
    rw [← htail]
    by_cases hpos : 0 < p.length
    · simp [OriginV.len, OriginV.text, hL, hhead, hnew, htt, hpos, Bind.bind, Except.bind, pure, Except.pure, List.append_assoc]
    · simp [OriginV.len, OriginV.text, hL, hhead, hnew, htt, hpos, Bind.bind, Except.bind, pure, Except.pure, List.append_assoc]

end Gts.GenBank

namespace Gts.GenBank
open Gts.Pars

theorem startsField_end (rest : Bytes) : startsField (bs "//\n" ++ rest) = true := by
  simp [startsField, refStop, refAltList, bs, List.isPrefixOf]

/-- the loop over: header sections, an optional middle section (the feature table), tail sections,
the terminator -/
theorem parse_chain (L : Int) (A B : List Section) (hA : ∀ x ∈ A, SecOK L x) (hB : ∀ x ∈ B, SecOK L x)
    (mid : Bytes) (midIters : Nat) (s0 sM : Sub) (rest' : Bytes) (fuel : Nat)
    (hmidStart : ∀ rest, startsField rest = true → startsField (mid ++ rest) = true)
    (hmid : ∀ k rest, startsField rest = true →
      recordLoop L 12 (k + midIters) (secsAct A s0) ⟨mid ++ rest, []⟩ = recordLoop L 12 k sM ⟨rest, []⟩)
    (hfuel : secsIters A + midIters + secsIters B + 1 ≤ fuel) :
    recordLoop L 12 fuel s0 ⟨secsText A ++ (mid ++ (secsText B ++ (bs "//\n" ++ rest'))), []⟩ =
      (.ok (secsAct B sM), ⟨rest', []⟩) := by
  obtain ⟨K, hK⟩ : ∃ K, fuel = (((K + 1) + secsIters B) + midIters) + secsIters A :=
    ⟨fuel - (secsIters A + midIters + secsIters B + 1), by omega⟩
  have h3 := startsField_end rest'
  have h2 := secsText_starts L B hB _ h3
  have h1 := hmidStart _ h2
  rw [hK, loop_sections L A hA _ s0 _ h1, hmid _ _ h2, loop_sections L B hB _ sM _ h3, loop_end]

theorem asTopology_text (t : Int) (h : t = 0 ∨ t = 1) : asTopology (topologyText t) = some t := by
  rcases h with rfl | rfl <;> decide

/-- the record that comes back: the REGION suffix in the accession and no region (K1A), the
residues as the formatted block; everything else as written -/
def readBack (reg : Registry) (r : Record) (p : Bytes) : Record :=
  ⟨{ r.fields with accession := accessionLine r.fields, region := none },
   r.table.map (readFeature reg),
   if p.isEmpty then .buffer [] else .buffer (Origin.originStream p)⟩

end Gts.GenBank
