/-
  C01: the composition — `GenBankParser` on the text `GenBank.String` wrote.  Core Lean only.
-/
import Gts.Lemmas.GbWrite
namespace Gts.GenBank
open Gts.Pars

/-! ### what the header sections do to the record read so far -/

theorem secsAct_refs (rs : List Reference) (f : Fields) (t : List QFeature) (o : OriginV) (r : Registry) :
    secsAct (rs.map secReference) (f, t, o, r) = ({ f with references := f.references ++ rs }, t, o, r) := by
  induction rs generalizing f with
  | nil => simp [secsAct]
  | cons x rs ih =>
    simp only [secsAct, List.map_cons, List.foldl_cons, secReference] at ih ⊢
    rw [ih]; simp

theorem secsAct_comments (cs : List Bytes) (f : Fields) (t : List QFeature) (o : OriginV) (r : Registry) :
    secsAct (cs.map secComment) (f, t, o, r) = ({ f with comments := f.comments ++ cs }, t, o, r) := by
  induction cs generalizing f with
  | nil => simp [secsAct]
  | cons x cs ih =>
    simp only [secsAct, List.map_cons, List.foldl_cons, secComment] at ih ⊢
    rw [ih]; simp

theorem secsAct_extras (es : List (Bytes × Bytes)) (f : Fields) (t : List QFeature) (o : OriginV) (r : Registry) :
    secsAct (es.map fun e => secExtra e.1 e.2) (f, t, o, r) = ({ f with extra := f.extra ++ es }, t, o, r) := by
  induction es generalizing f with
  | nil => simp [secsAct]
  | cons x es ih =>
    simp only [secsAct, List.map_cons, List.foldl_cons, secExtra] at ih ⊢
    rw [ih]; simp

theorem secsAct_append (a b : List Section) (s : Sub) : secsAct (a ++ b) s = secsAct b (secsAct a s) := by
  simp [secsAct, List.foldl_append]

/-- the header sections of `g`, read into a record whose lists are still empty -/
theorem secsAct_header (g f : Fields) (t : List QFeature) (o : OriginV) (r : Registry)
    (hd : distinctKeys g.dblink = true) (h0 : f.dblink = [] ∧ f.references = [] ∧ f.comments = [] ∧ f.extra = []) :
    secsAct (headerSecs g) (f, t, o, r) =
      ({ f with definition := g.definition, accession := accessionLine g, version := g.version, dblink := g.dblink,
                keywords := g.keywords, species := wrapSpace g.species, organism := g.organism, taxon := g.taxon,
                references := g.references, comments := g.comments, extra := g.extra }, t, o, r) := by
  obtain ⟨h1, h2, h3, h4⟩ := h0
  unfold headerSecs
  have r1 := fun f' => secsAct_refs g.references f' t o r
  have r2 := fun f' => secsAct_comments g.comments f' t o r
  have r3 := fun f' => secsAct_extras g.extra f' t o r
  simp only [secsAct] at r1 r2 r3
  simp only [secsAct_append]
  cases hdb : g.dblink with
  | nil =>
    simp [secsAct, secDefinition, secAccession, secVersion, secKeywords, secSource, h1, h2, h3, h4, r1, r2, r3]
  | cons p ps =>
    have := dictSetAll_distinct [] (p :: ps) (by rw [← hdb]; exact hd) (by simp)
    simp [secsAct, secDefinition, secAccession, secVersion, secKeywords, secSource, secDblink, h1, h2, h3, h4, this,
      r1, r2, r3]

/-! ### the FEATURES step -/

theorem loop_features (length : Int) (k : Nat) (f : Fields) (t : List QFeature) (o : OriginV) (reg : Registry)
    (ft : QFeature) (fs : List QFeature) (rest : Bytes) (hw : tableWritable reg (ft :: fs) = true)
    (hloc : ∀ x ∈ ft :: fs, LocRT x.loc) (hrest : startsField rest = true) :
    ∃ txt, tableText reg (ft :: fs) = .ok txt ∧
      recordLoop length 12 (k + 1) (f, t, o, reg)
          ⟨bs "FEATURES             Location/Qualifiers\n" ++ (txt ++ 10 :: rest), []⟩ =
        recordLoop length 12 k (f, (ft :: fs).map (readFeature reg), o, learnTable reg (ft :: fs)) ⟨rest, []⟩ := by
  obtain ⟨txt, htxt, _⟩ := features_roundtrip reg ft fs rest [] hw hloc (startsField_not_sp 5 (by omega) rest hrest)
  refine ⟨txt, htxt, ?_⟩
  have hrun : ∀ st, featuresField reg ⟨bs "FEATURES             Location/Qualifiers\n" ++ (txt ++ 10 :: rest), st⟩ =
      (.ok ((ft :: fs).map (readFeature reg), learnTable reg (ft :: fs)), ⟨rest, []⟩) := by
    intro st
    obtain ⟨txt', htxt', hr⟩ := features_roundtrip reg ft fs rest st hw hloc (startsField_not_sp 5 (by omega) rest hrest)
    rw [htxt] at htxt'
    cases htxt'
    exact hr
  have e3 : bs "FEATURES             Location/Qualifiers\n" ++ (txt ++ 10 :: rest) =
      70 :: (bs "EATURES             Location/Qualifiers\n" ++ (txt ++ 10 :: rest)) := by simp [bs]
  have ht : tryAll length 12 (f, t, o, reg) ⟨bs "FEATURES             Location/Qualifiers\n" ++ (txt ++ 10 :: rest), []⟩ =
      (.ok (.parsed (f, (ft :: fs).map (readFeature reg), o, learnTable reg (ft :: fs))), ⟨rest, []⟩) := by
    apply tryAll_at 8 (by omega) length _ _ _ rest [] (by simp [notNames, fieldNames, bs, List.isPrefixOf])
      featuresSub (by simp [fieldParsers])
    · gsimp [featuresSub, hrun]
    · rfl
  rw [e3] at ht ⊢
  exact loop_step length k _ _ 70 _ rest (by decide) ht

end Gts.GenBank
