/-
  Helper lemmas for the modifier text round trip (C08): run equations of the `pars` state
  model, decimal digits, `pars.Int` on a printed offset, `parseHead` / `parseTail` on every
  input shape that a printed modifier presents.  Core Lean only.
-/
import Gts.Model.Modifier
namespace Gts
open Pars ModParse LocParse

theorem P.bind_run {α β} (x : P α) (f : α → P β) (s : PS) :
    (x >>= f) s = match x s with
      | (.ok a, s') => f a s'
      | (.error e, s') => (.error e, s') := by
  show (ExceptT.bind x f) s = _
  unfold ExceptT.bind ExceptT.bindCont ExceptT.mk
  simp only [bind, StateT.bind]
  rcases x s with ⟨r, s'⟩
  cases r <;> rfl

theorem P.pure_run {α} (a : α) (s : PS) : (pure a : P α) s = (.ok a, s) := rfl

theorem P.map_run {α β} (f : α → β) (x : P α) (s : PS) :
    (f <$> x) s = match x s with
      | (.ok a, s') => (.ok (f a), s')
      | (.error e, s') => (.error e, s') := by
  show (ExceptT.map f x) s = _
  unfold ExceptT.map ExceptT.mk
  simp only [bind, StateT.bind]
  rcases x s with ⟨r, s'⟩
  cases r <;> rfl

theorem digitByte_props : ∀ k : Fin 10, (digitByte k.1).toNat = 48 + k.1 ∧ isDigit (digitByte k.1) = true := by decide
theorem digitByte_toNat (k : Nat) (h : k < 10) : (digitByte k).toNat = 48 + k := (digitByte_props ⟨k, h⟩).1
theorem isDigit_digitByte (k : Nat) (h : k < 10) : isDigit (digitByte k) = true := (digitByte_props ⟨k, h⟩).2

theorem digitsVal_snoc (xs : Bytes) (d : UInt8) : digitsVal (xs ++ [d]) = digitsVal xs * 10 + (d.toNat - 48) := by
  simp [digitsVal, List.foldl_append]

theorem natDigitsF_spec (f n : Nat) (h : n < f) :
    digitsVal (natDigitsF f n) = n ∧ (natDigitsF f n).all isDigit = true ∧
      (∃ d ds, natDigitsF f n = d :: ds ∧ (0 < n → d ≠ 48)) := by
  induction f generalizing n with
  | zero => omega
  | succ f ih =>
    unfold natDigitsF
    by_cases hn : n < 10
    · simp only [hn, ↓reduceIte]
      refine ⟨?_, ?_, _, _, rfl, ?_⟩
      · simp [digitsVal, digitByte_toNat n hn]
      · simp [isDigit_digitByte n hn]
      · intro h0 hc
        have := digitByte_toNat n hn
        rw [hc] at this
        simp at this; omega
    · simp only [hn, ↓reduceIte]
      obtain ⟨h1, h2, d, ds, h3, h4⟩ := ih (n / 10) (by omega)
      refine ⟨?_, ?_, d, ds ++ [digitByte (n % 10)], ?_, ?_⟩
      · rw [digitsVal_snoc, h1, digitByte_toNat _ (by omega)]; omega
      · simp [h2, isDigit_digitByte (n % 10) (by omega)]
      · rw [h3]; rfl
      · intro _; exact h4 (by omega)

theorem trail_spec (pre r : Bytes) (stk : List Bytes) :
    trail ⟨r, (pre ++ r) :: stk⟩ = (.ok pre, ⟨r, stk⟩) := by
  have h1 : ¬ (pre ++ r).length < r.length := by simp
  have h2 : (pre ++ r).length - r.length = pre.length := by simp
  simp [trail, P.bind_run, getS]
  rw [if_neg (by omega)]
  simp [P.map_run, setS]

theorem dropWhile_append_all (p : UInt8 → Bool) (ds r : Bytes) (h : ds.all p = true) :
    (ds ++ r).dropWhile p = r.dropWhile p := by
  induction ds with
  | nil => rfl
  | cons d ds ih =>
    simp only [List.all_cons, Bool.and_eq_true] at h
    simp [h.1, ih h.2]

theorem int_signed (sgn d : UInt8) (ds r : Bytes) (stk : List Bytes) (hs : sgn = 45 ∨ sgn = 43)
    (hd : isDigit d = true) (hd0 : d ≠ 48) (hds : ds.all isDigit = true) (hr : r.dropWhile isDigit = r) :
    int ⟨sgn :: d :: (ds ++ r), stk⟩ =
      (match atoi (sgn :: d :: ds) with | some n => .ok n | none => .error .fail, ⟨r, stk⟩) := by
  have hdw : (d :: (ds ++ r)).dropWhile isDigit = r := by
    rw [List.dropWhile_cons, if_pos hd, dropWhile_append_all _ _ _ hds, hr]
  have htr := trail_spec (sgn :: d :: ds) r stk
  simp only [List.cons_append] at htr
  have hsg : (sgn == 45 || sgn == 43) = true := by rcases hs with rfl | rfl <;> rfl
  have hd0' : (d == 48) = false := by simpa using hd0
  simp only [int, P.bind_run, push, getS, setS, next, P.pure_run, hsg, ↓reduceIte, advance1, List.drop_succ_cons,
    List.drop_zero, hd, Bool.not_true, hd0', skipWhile, hdw, htr, Bool.false_eq_true]
  cases atoi (sgn :: d :: ds) <;> rfl

/-- the offsets a Go `int` can hold -/
def fits64 (n : Int) : Prop := -9223372036854775808 ≤ n ∧ n ≤ 9223372036854775807

theorem natDigits_spec (k : Nat) :
    digitsVal (natDigits k) = k ∧ (natDigits k).all isDigit = true ∧
      (∃ d ds, natDigits k = d :: ds ∧ (0 < k → d ≠ 48)) := natDigitsF_spec (k + 1) k (by omega)

theorem atoi_signed (sgn : UInt8) (ds : Bytes) (hs : sgn = 45 ∨ sgn = 43) (hne : ds ≠ [])
    (hds : ds.all isDigit = true) :
    atoi (sgn :: ds) =
      (let v : Int := if sgn = 45 then -(digitsVal ds : Int) else digitsVal ds
       if v < -9223372036854775808 ∨ 9223372036854775807 < v then none else some v) := by
  have he : ds.isEmpty = false := by cases ds <;> simp_all
  rcases hs with rfl | rfl <;> simp [atoi, he, hds]

theorem int_fmtPlus (n : Int) (r : Bytes) (stk : List Bytes) (hn : n ≠ 0) (hf : fits64 n)
    (hr : r.dropWhile isDigit = r) : int ⟨fmtPlus n ++ r, stk⟩ = (.ok n, ⟨r, stk⟩) := by
  obtain ⟨h1, h2, d, ds, h3, h4⟩ := natDigits_spec n.natAbs
  have hs : (if n < 0 then (45 : UInt8) else 43) = 45 ∨ (if n < 0 then (45 : UInt8) else 43) = 43 := by
    split <;> simp
  have hd : isDigit d = true ∧ ds.all isDigit = true := by
    rw [h3] at h2; simpa using h2
  unfold fmtPlus
  rw [h3, List.cons_append, List.cons_append,
    int_signed _ d ds r stk hs hd.1 (h4 (by omega)) hd.2 hr, ← h3,
    atoi_signed _ _ hs (by rw [h3]; simp) h2, h1]
  unfold fits64 at hf
  clear h1 h2 h4 hd hs h3
  obtain ⟨hf1, hf2⟩ := hf
  have h43 : ¬ ((43 : UInt8) = 45) := by decide
  by_cases hneg : n < 0
  · have habs : (n.natAbs : Int) = -n := Int.ofNat_natAbs_of_nonpos (by omega)
    simp only [hneg, ↓reduceIte, habs]
    clear habs
    rw [if_neg (by omega), Int.neg_neg]
  · have habs : (n.natAbs : Int) = n := Int.natAbs_of_nonneg (by omega)
    simp only [hneg, ↓reduceIte, habs, h43]
    clear habs
    rw [if_neg (by omega)]

theorem int_nil (stk : List Bytes) : int ⟨[], stk⟩ = (.error .fail, ⟨[], [] :: stk⟩) := by
  simp [int, P.bind_run, push, getS, setS, next, fail]

theorem int_dot (r : Bytes) (stk : List Bytes) : int ⟨46 :: r, stk⟩ = (.error .fail, ⟨46 :: r, stk⟩) := by
  simp [int, P.bind_run, push, pop, getS, setS, next, fail, P.pure_run, isDigit]

/-- unfolding set for the primitive state operations -/
theorem attempt_run {α} (p : P α) (s : PS) :
    attempt p s = match p s with
      | (.ok a, s') => (.ok (some a), s')
      | (.error .fail, s') => (.ok none, s')
      | (.error .panic, s') => (.error .panic, s') := rfl

theorem parseMark_int (c : UInt8) (n : Int) (r : Bytes) (stk : List Bytes) (hn : n ≠ 0) (hf : fits64 n)
    (hr : r.dropWhile isDigit = r) :
    parseMark c ⟨c :: (fmtPlus n ++ r), stk⟩ = (.ok n, ⟨r, stk⟩) := by
  simp [parseMark, mapP, anyOf, anyOf.go, seq2, byte, P.bind_run, attempt_run, push, pop, drop, getS, setS, next,
    advance1, P.pure_run, P.map_run, pushed, int_fmtPlus n r _ hn hf hr]

open Lean.Parser.Tactic in
/-- `simp` with the unfolding set of the parser-state primitives and combinators -/
macro "psimp" "[" ts:simpLemma,* "]" : tactic =>
  `(tactic| simp [P.bind_run, P.map_run, P.pure_run, attempt_run, mapP, anyOf, anyOf.go, seq2, seq3, byte,
      push, pop, Pars.drop, Pars.fail, pushed, getS, setS, next, advance1, advanceN, lit, atEnd, request, $ts,*])

theorem parseMark_int_dot (c : UInt8) (n : Int) (r : Bytes) (stk : List Bytes) (hn : n ≠ 0) (hf : fits64 n) :
    parseMark c ⟨c :: (fmtPlus n ++ 46 :: r), stk⟩ = (.ok n, ⟨46 :: r, stk⟩) :=
  parseMark_int c n (46 :: r) stk hn hf (by simp [isDigit])

theorem parseMark_int_end (c : UInt8) (n : Int) (stk : List Bytes) (hn : n ≠ 0) (hf : fits64 n) :
    parseMark c ⟨c :: fmtPlus n, stk⟩ = (.ok n, ⟨[], stk⟩) := by
  have := parseMark_int c n [] stk hn hf rfl
  simpa using this

theorem parseMark_end (c : UInt8) (stk : List Bytes) :
    parseMark c ⟨[c], stk⟩ = (.ok 0, ⟨[], [c] :: stk⟩) := by
  psimp [parseMark, int_nil]

theorem parseMark_dot (c : UInt8) (r : Bytes) (stk : List Bytes) :
    parseMark c ⟨c :: 46 :: r, stk⟩ = (.ok 0, ⟨46 :: r, stk⟩) := by
  psimp [parseMark, int_dot]

theorem parseMark_other (c d : UInt8) (r : Bytes) (stk : List Bytes) (h : d ≠ c) :
    parseMark c ⟨d :: r, stk⟩ = (.error .fail, ⟨d :: r, stk⟩) := by
  psimp [parseMark, h, Pars.fail]

theorem parseMark_nil (c : UInt8) (stk : List Bytes) :
    parseMark c ⟨[], stk⟩ = (.error .fail, ⟨[], stk⟩) := by
  psimp [parseMark, Pars.fail]
end Gts
