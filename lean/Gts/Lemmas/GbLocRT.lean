/-
  C01 ↔ C06: the location column.  `LocRT l` (the printed location is read back by `ParseLocation`
  in front of the line feed of a key line) holds for every canonical location (`Loc.canonP`, C06):
  C06's round trip `Loc.loc_printB` is stated for a location inside a printed location (followed by
  `,`, `)` or the end); at top level the same case analysis goes through for any continuation that
  does not start with a digit, `.`, `^` or `>` (`Sep`), in particular a line feed.  Core Lean only.
-/
import Gts.Lemmas.LocRoundTrip
import Gts.Lemmas.GbFeatures
namespace Gts
open Pars ModParse LocParse

namespace Loc

/-- C06's print → parse round trip at top level: any continuation `rest` with `Sep rest` -/
theorem loc_printB_sep : ∀ (l : Loc), canonP l = true → ∀ (f : Nat) (rest : Bytes) (stk : List Bytes),
    need l ≤ f → Sep rest → loc f ⟨printB l ++ rest, stk⟩ = (.ok l, ⟨rest, stk⟩)
  | between p, hc, f, rest, stk, hf, hs => by
      obtain ⟨a, rfl, ha⟩ := coordOk_nat (by simpa [canonP] using hc)
      obtain ⟨f, rfl⟩ : ∃ f', f = f' + 1 := ⟨f - 1, by simp only [need] at hf; omega⟩
      rw [printB, dec_ofNat, dec_succ]
      simp only [List.append_assoc, List.cons_append]
      exact loc_between f a rest stk (by omega) hs
  | point p, hc, f, rest, stk, hf, hs => by
      obtain ⟨a, rfl, ha⟩ := coordOk_nat (by simpa [canonP] using hc)
      obtain ⟨f, rfl⟩ : ∃ f', f = f' + 1 := ⟨f - 1, by simp only [need] at hf; omega⟩
      rw [printB, dec_succ]
      have h := loc_point f (a + 1) rest stk (by omega) hs
      rw [show ((a + 1 : Nat) : Int) - 1 = (a : Int) by omega] at h
      exact h
  | ranged s e p5 p3, hc, f, rest, stk, hf, hs => by
      simp only [canonP, Bool.and_eq_true] at hc
      obtain ⟨a, rfl, ha⟩ := coordOk_nat hc.1
      obtain ⟨b, rfl, hb⟩ := coordOk_nat hc.2
      obtain ⟨f, rfl⟩ : ∃ f', f = f' + 1 := ⟨f - 1, by simp only [need] at hf; omega⟩
      rw [printB, dec_ofNat, dec_succ]
      simp only [List.append_assoc, List.cons_append]
      have h := loc_ranged f (a + 1) b p5 p3 rest stk (by omega) (by omega) hs
      rw [show ((a + 1 : Nat) : Int) - 1 = (a : Int) by omega] at h
      exact h
  | ambiguous s e, hc, f, rest, stk, hf, hs => by
      simp only [canonP, Bool.and_eq_true] at hc
      obtain ⟨a, rfl, ha⟩ := coordOk_nat hc.1
      obtain ⟨b, rfl, hb⟩ := coordOk_nat hc.2
      obtain ⟨f, rfl⟩ : ∃ f', f = f' + 1 := ⟨f - 1, by simp only [need] at hf; omega⟩
      rw [printB, dec_ofNat, dec_succ]
      simp only [List.append_assoc, List.cons_append]
      have h := loc_ambiguous f (a + 1) b rest stk (by omega) (by omega) hs
      rw [show ((a + 1 : Nat) : Int) - 1 = (a : Int) by omega] at h
      exact h
  | compl l, hc, f, rest, stk, hf, _ => by
      have hc' := hc
      simp only [canonP, Bool.and_eq_true, Bool.not_eq_true'] at hc
      obtain ⟨f, rfl⟩ : ∃ f', f = f' + 2 := ⟨f - 2, by simp only [need] at hf; omega⟩
      have hf' : need l ≤ f := by simp only [need] at hf; omega
      rw [printB, str_complement]
      simp only [List.append_assoc, List.cons_append, List.nil_append]
      have h := loc_complement f (printB l ++ 41 :: rest) rest l stk
        (fun stk' => loc_printB l hc.1 f (41 :: rest) stk' hf' (Or.inr rfl))
      rw [complement_of_not_compl l hc.2] at h
      exact h
  | joined [], hc, f, rest, stk, hf, _ => by simp [canonP] at hc
  | joined (l :: ls), hc, f, rest, stk, hf, _ => by
      simp only [canonP, canonPList, Bool.and_eq_true] at hc
      obtain ⟨⟨⟨⟨hl, hls⟩, _⟩, _⟩, hj⟩ := hc
      obtain ⟨f, rfl⟩ : ∃ f', f = f' + 1 + 2 := ⟨f - 3, by simp only [need] at hf; omega⟩
      have hf1 : need l ≤ f := by simp only [need, needList] at hf; omega
      have hf2 : needList ls ≤ f := by simp only [need, needList] at hf; omega
      rw [printB, printListB, str_join]
      simp only [List.append_assoc, List.cons_append, List.nil_append]
      have hm : ∀ stk', multiple (f + 1) ⟨printB l ++ (printTailB ls ++ 41 :: rest), stk'⟩ =
          (.ok (l :: ls), ⟨41 :: rest, stk'⟩) := fun stk' =>
        multiple_run f l (l :: ls) _ (printTailB ls ++ 41 :: rest) (41 :: rest) stk'
          (fun stk'' => loc_printB l hl f _ stk'' hf1 (delim_tail ls rest))
          (fun stk'' => more_printB ls hls f f [l] rest stk'' hf2
            (Nat.le_trans (length_le_needList ls) hf2))
      have h := loc_join (f + 1) _ rest (l :: ls) stk hm
      rw [beq_eq _ _ hj] at h
      exact h
  | ordered [], hc, f, rest, stk, hf, _ => by simp [canonP] at hc
  | ordered (l :: ls), hc, f, rest, stk, hf, _ => by
      simp only [canonP, canonPList, Bool.and_eq_true, Bool.not_eq_true', decide_eq_true_eq] at hc
      obtain ⟨⟨⟨hl, hls⟩, h2⟩, hno⟩ := hc
      obtain ⟨f, rfl⟩ : ∃ f', f = f' + 1 + 2 := ⟨f - 3, by simp only [need] at hf; omega⟩
      have hf1 : need l ≤ f := by simp only [need, needList] at hf; omega
      have hf2 : needList ls ≤ f := by simp only [need, needList] at hf; omega
      rw [printB, printListB, str_order]
      simp only [List.append_assoc, List.cons_append, List.nil_append]
      have hm : ∀ stk', multiple (f + 1) ⟨printB l ++ (printTailB ls ++ 41 :: rest), stk'⟩ =
          (.ok (l :: ls), ⟨41 :: rest, stk'⟩) := fun stk' =>
        multiple_run f l (l :: ls) _ (printTailB ls ++ 41 :: rest) (41 :: rest) stk'
          (fun stk'' => loc_printB l hl f _ stk'' hf1 (delim_tail ls rest))
          (fun stk'' => more_printB ls hls f f [l] rest stk'' hf2
            (Nat.le_trans (length_le_needList ls) hf2))
      have h := loc_order (f + 1) _ rest (l :: ls) stk hm
      rw [order_of_canon _ h2 hno] at h
      exact h

end Loc

namespace GenBank

/-- **C06 → C01**: every canonical location satisfies `LocRT` -/
theorem locRT_of_canon (l : Loc) (h : Loc.canonP l = true) : LocRT l := by
  refine ⟨Loc.printB_cons l, ?_⟩
  intro more stk
  have hf : Loc.need l ≤ (l.printB ++ 10 :: more).length + 2 := by
    have := Loc.need_le_length l
    simp only [List.length_append]; omega
  have hs : Sep (10 :: more) := ⟨by decide, by decide, by decide, by decide⟩
  simp only [location, P.bind_run, getS]
  exact Loc.loc_printB_sep l h _ (10 :: more) stk hf hs

end GenBank
end Gts
