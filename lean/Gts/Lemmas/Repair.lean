/-
  `Repair` (property C12), part 1: the loop over the classes computes, for every class, a
  function of the *original* table only; the result is independent of the order in which the
  classes are visited; explicit form of the result; `Repair` never panics.  Core Lean only.
-/
import Gts.Spec.RepairGuard
namespace Gts

/-! ### small list facts -/

theorem sublist_flatMap {α β} (l : List α) (f g : α → List β) (h : ∀ a ∈ l, (f a).Sublist (g a)) :
    (l.flatMap f).Sublist (l.flatMap g) := by
  induction l with
  | nil => simp
  | cons a as ih =>
    simp only [List.flatMap_cons]
    exact (h a (by simp)).append (ih fun b hb => h b (by simp [hb]))

theorem filterMap_congr' {α β} (l : List α) (f g : α → Option β) (h : ∀ x ∈ l, f x = g x) :
    l.filterMap f = l.filterMap g := by
  induction l with
  | nil => rfl
  | cons a as ih =>
    simp only [List.filterMap_cons]
    rw [h a (by simp), ih fun x hx => h x (by simp [hx])]

theorem classKey_congr {f g : Feature} (h1 : g.key = f.key) (h2 : g.props = f.props) :
    classKey g = classKey f := by
  simp [classKey, classKeyChars, h1, h2]

/-! ### `sortNat` -/

theorem insNat_perm (x : Nat) (l : List Nat) : (insNat x l).Perm (x :: l) := by
  induction l with
  | nil => simp [insNat]
  | cons y r ih =>
    simp only [insNat]
    split
    · exact List.Perm.refl _
    · exact ((List.Perm.cons y ih).trans (List.Perm.swap x y r))

theorem insNat_sorted (x : Nat) (l : List Nat) (h : l.Pairwise (· ≤ ·)) :
    (insNat x l).Pairwise (· ≤ ·) := by
  induction l with
  | nil => simp [insNat]
  | cons y r ih =>
    simp only [insNat]
    split
    · rename_i hxy
      refine List.Pairwise.cons ?_ h
      intro a ha
      rcases List.mem_cons.mp ha with rfl | ha
      · exact hxy
      · exact Nat.le_trans hxy ((List.pairwise_cons.mp h).1 a ha)
    · rename_i hxy
      have h' := List.pairwise_cons.mp h
      refine List.Pairwise.cons ?_ (ih h'.2)
      intro a ha
      rcases List.mem_cons.mp ((insNat_perm x r).mem_iff.mp ha) with rfl | ha
      · omega
      · exact h'.1 a ha

theorem sortNat_perm (l : List Nat) : (sortNat l).Perm l := by
  induction l with
  | nil => simp [sortNat]
  | cons x r ih =>
    simp only [sortNat, List.foldr_cons]
    exact (insNat_perm x _).trans (List.Perm.cons x ih)

theorem sortNat_sorted (l : List Nat) : (sortNat l).Pairwise (· ≤ ·) := by
  induction l with
  | nil => simp [sortNat]
  | cons x r ih => simpa [sortNat] using insNat_sorted x _ ih

/-- the sorted list is determined by the multiset -/
theorem sortNat_eq_of_perm {a b : List Nat} (h : a.Perm b) : sortNat a = sortNat b :=
  (((sortNat_perm a).trans h).trans (sortNat_perm b).symm).eq_of_pairwise
    (le := (· ≤ ·)) (fun _ _ _ _ h1 h2 => Nat.le_antisymm h1 h2) (sortNat_sorted a) (sortNat_sorted b)

theorem sortNat_eq_self_of_sorted {a b : List Nat} (h : a.Perm b) (hb : b.Pairwise (· ≤ ·)) :
    sortNat a = b :=
  ((sortNat_perm a).trans h).eq_of_pairwise
    (le := (· ≤ ·)) (fun _ _ _ _ h1 h2 => Nat.le_antisymm h1 h2) (sortNat_sorted a) hb

/-! ### `writeLocs` -/

@[simp] theorem length_writeLocs (gg : Table) (ws : List (Nat × Loc)) :
    (writeLocs gg ws).length = gg.length := by
  induction ws generalizing gg with
  | nil => rfl
  | cons w ws ih => obtain ⟨i, l⟩ := w; simp [writeLocs, ih]

theorem writeLocs_append (gg : Table) (a b : List (Nat × Loc)) :
    writeLocs gg (a ++ b) = writeLocs (writeLocs gg a) b := by
  induction a generalizing gg with
  | nil => rfl
  | cons w ws ih => obtain ⟨i, l⟩ := w; simp [writeLocs, ih]

theorem getElem?_writeLocs_of_not_mem (gg : Table) (ws : List (Nat × Loc)) (j : Nat)
    (h : j ∉ ws.map Prod.fst) : (writeLocs gg ws)[j]? = gg[j]? := by
  induction ws generalizing gg with
  | nil => rfl
  | cons w ws ih =>
    obtain ⟨i, l⟩ := w
    simp only [List.map_cons, List.mem_cons, not_or] at h
    simp only [writeLocs]
    rw [ih _ h.2, List.getElem?_modify]
    have : ¬ i = j := fun e => h.1 e.symm
    simp [this]

theorem getElem?_writeLocs_of_mem (gg : Table) (ws : List (Nat × Loc)) (j : Nat) (l : Loc)
    (hnd : (ws.map Prod.fst).Nodup) (h : (j, l) ∈ ws) :
    (writeLocs gg ws)[j]? = gg[j]?.map fun f => { f with loc := l } := by
  induction ws generalizing gg with
  | nil => simp at h
  | cons w ws ih =>
    obtain ⟨i, l'⟩ := w
    simp only [List.map_cons, List.nodup_cons] at hnd
    simp only [writeLocs]
    rcases List.mem_cons.mp h with he | hm
    · cases he
      rw [getElem?_writeLocs_of_not_mem _ _ _ hnd.1, List.getElem?_modify]
      simp
    · have hji : ¬ i = j := by
        intro e
        subst e
        exact hnd.1 (List.mem_map.mpr ⟨(i, l), hm, rfl⟩)
      rw [ih _ hnd.2 hm, List.getElem?_modify]
      simp [hji]

/-- writes change locations only -/
theorem writeLocs_key (gg : Table) (ws : List (Nat × Loc)) (j : Nat) :
    (writeLocs gg ws)[j]?.map (fun f => (f.key, f.props)) = gg[j]?.map fun f => (f.key, f.props) := by
  induction ws generalizing gg with
  | nil => rfl
  | cons w ws ih =>
    obtain ⟨i, l⟩ := w
    simp only [writeLocs]
    rw [ih, List.getElem?_modify]
    cases gg[j]? with
    | none => rfl
    | some f => by_cases e : i = j <;> simp [e]

/-- two write lists over the same (duplicate-free) indices with the same entries have the same
effect -/
theorem writeLocs_congr (gg : Table) (a b : List (Nat × Loc))
    (ha : (a.map Prod.fst).Nodup) (hb : (b.map Prod.fst).Nodup) (h : ∀ w, w ∈ a ↔ w ∈ b) :
    writeLocs gg a = writeLocs gg b := by
  apply List.ext_getElem?
  intro j
  by_cases hj : j ∈ a.map Prod.fst
  · obtain ⟨⟨j', l⟩, hm, rfl⟩ := List.mem_map.mp hj
    rw [getElem?_writeLocs_of_mem gg a j' l ha hm, getElem?_writeLocs_of_mem gg b j' l hb ((h _).mp hm)]
  · have hj' : j ∉ b.map Prod.fst := by
      intro hb'
      obtain ⟨⟨j', l⟩, hm, rfl⟩ := List.mem_map.mp hb'
      exact hj (List.mem_map.mpr ⟨(j', l), (h _).mpr hm, rfl⟩)
    rw [getElem?_writeLocs_of_not_mem gg a j hj, getElem?_writeLocs_of_not_mem gg b j hj']

/-! ### one class, as a function of the original table -/

/-- the pushed list of the class (from the original table) -/
def classP (t : Table) (idx : List Nat) : List Loc := pushedOf (classForce t idx) (classLocs t idx)

/-- `len(list.Slice())` of the class -/
def classN (t : Table) (idx : List Nat) : Nat := sliceLen (classP t idx)

/-- what the class appends to `keep` -/
def classKept (t : Table) (idx : List Nat) : List Nat :=
  if classN t idx < idx.length then idx.take (classN t idx) else idx

/-- the location writes of the class -/
def classWrites (t : Table) (idx : List Nat) : List (Nat × Loc) :=
  if classN t idx < idx.length then idx.zip (classP t idx) else []

/-- the class writes a `nil` location -/
def classNil (t : Table) (idx : List Nat) : Bool :=
  decide (classN t idx < idx.length) && (classP t idx).isEmpty

theorem classLocs_congr (gg t : Table) (idx : List Nat) (h : ∀ i ∈ idx, gg[i]? = t[i]?) :
    classLocs gg idx = classLocs t idx := by
  induction idx with
  | nil => rfl
  | cons i is ih =>
    simp only [classLocs, List.filterMap_cons] at ih ⊢
    rw [h i (by simp), ih fun j hj => h j (by simp [hj])]

theorem classStep_eq (t : Table) (st : RepairSt) (idx : List Nat)
    (h : ∀ i ∈ idx, st.gg[i]? = t[i]?) :
    classStep t st idx =
      ⟨writeLocs st.gg (classWrites t idx), st.keep ++ classKept t idx, st.nil || classNil t idx⟩ := by
  simp only [classStep, classLocs_congr st.gg t idx h, classKept, classWrites, classNil, classN, classP]
  by_cases h3 : sliceLen (pushedOf (classForce t idx) (classLocs t idx)) < idx.length
  · simp [h3]
  · simp [h3, writeLocs]

theorem classKept_eq_take (t : Table) (idx : List Nat) : classKept t idx = idx.take (classN t idx) := by
  simp only [classKept]
  split
  · rfl
  · rw [List.take_of_length_le (by omega)]

theorem classKept_sublist (t : Table) (idx : List Nat) : (classKept t idx).Sublist idx := by
  rw [classKept_eq_take]; exact List.take_sublist _ _

theorem classN_pos (t : Table) (idx : List Nat) : 0 < classN t idx := by
  simp only [classN, sliceLen]
  cases h : classP t idx with
  | nil => simp
  | cons a as => simp

theorem zip_fst_sublist {α β} (a : List α) (b : List β) : ((a.zip b).map Prod.fst).Sublist a := by
  induction a generalizing b with
  | nil => simp
  | cons x xs ih =>
    cases b with
    | nil => simp
    | cons y ys => simpa using (ih ys)

theorem classWrites_keys_sublist (t : Table) (idx : List Nat) :
    ((classWrites t idx).map Prod.fst).Sublist idx := by
  simp only [classWrites]
  split
  · exact zip_fst_sublist _ _
  · simp

/-! ### the loop over the classes -/

/-- the loop over pairwise disjoint classes, started on a table that agrees with the original
on those classes: every class contributes its own writes / kept indices -/
theorem foldl_classStep (t : Table) (cs : List (List Nat)) (st : RepairSt)
    (hnd : cs.flatten.Nodup) (hag : ∀ i ∈ cs.flatten, st.gg[i]? = t[i]?) :
    cs.foldl (classStep t) st =
      ⟨writeLocs st.gg (cs.flatMap (classWrites t)), st.keep ++ cs.flatMap (classKept t),
       st.nil || cs.any (classNil t)⟩ := by
  induction cs generalizing st with
  | nil => simp [writeLocs]
  | cons c cs ih =>
    simp only [List.flatten_cons, List.nodup_append] at hnd
    obtain ⟨hc, hcs, hdis⟩ := hnd
    have hagc : ∀ i ∈ c, st.gg[i]? = t[i]? := fun i hi => hag i (by simp [hi])
    simp only [List.foldl_cons, classStep_eq t st c hagc, List.any_cons]
    rw [ih]
    · simp only [List.flatMap_cons, writeLocs_append, List.append_assoc, Bool.or_assoc]
    · exact hcs
    · intro i hi
      have hnot : i ∉ (classWrites t c).map Prod.fst := by
        intro hm
        exact hdis i ((classWrites_keys_sublist t c).subset hm) i hi rfl
      rw [getElem?_writeLocs_of_not_mem _ _ _ hnot]
      exact hag i (by simp [hi])

/-- explicit form of `repairOrd` over disjoint classes -/
theorem repairOrd_eq (t : Table) (cs : List (List Nat)) (hnd : cs.flatten.Nodup) :
    repairOrd t cs =
      match compact (writeLocs t (cs.flatMap (classWrites t))) (sortNat (cs.flatMap (classKept t))) with
        | none => .panic
        | some gg => if cs.any (classNil t) then .nilLoc else .ok gg := by
  simp only [repairOrd, foldl_classStep t cs ⟨t, [], false⟩ hnd (fun _ _ => rfl)]
  simp only [Bool.false_or, List.nil_append]
  rfl

theorem classWrites_flat_nodup (t : Table) (cs : List (List Nat)) (hnd : cs.flatten.Nodup) :
    ((cs.flatMap (classWrites t)).map Prod.fst).Nodup := by
  rw [List.map_flatMap]
  refine List.Nodup.sublist ?_ hnd
  have e : cs.flatten = cs.flatMap id := List.flatMap_id.symm
  rw [e]
  exact sublist_flatMap cs _ _ fun c _ => classWrites_keys_sublist t c

/-- **the result does not depend on the order in which Go's `range` visits the map** -/
theorem repairOrd_perm (t : Table) (cs cs' : List (List Nat)) (hp : cs.Perm cs')
    (hnd : cs.flatten.Nodup) : repairOrd t cs = repairOrd t cs' := by
  have hnd' : cs'.flatten.Nodup := (hp.flatten.nodup_iff).mp hnd
  rw [repairOrd_eq t cs hnd, repairOrd_eq t cs' hnd']
  rw [hp.any_eq (f := classNil t)]
  rw [sortNat_eq_of_perm (hp.flatMap_right (classKept t))]
  rw [writeLocs_congr t _ _ (classWrites_flat_nodup t cs hnd) (classWrites_flat_nodup t cs' hnd')
    (fun w => (hp.flatMap_right (classWrites t)).mem_iff)]

/-! ### the classes of a table -/

theorem mem_dedup (l : List String) (x : String) : x ∈ dedup l ↔ x ∈ l := by
  induction l with
  | nil => simp [dedup]
  | cons a as ih =>
    simp only [dedup, List.mem_cons, List.mem_filter, ih, bne_iff_ne, ne_eq]
    constructor
    · rintro (h | ⟨h, _⟩)
      · exact Or.inl h
      · exact Or.inr h
    · rintro (h | h)
      · exact Or.inl h
      · by_cases e : x = a
        · exact Or.inl e
        · exact Or.inr ⟨h, e⟩

theorem nodup_dedup (l : List String) : (dedup l).Nodup := by
  induction l with
  | nil => simp [dedup]
  | cons a as ih =>
    simp only [dedup, List.nodup_cons, List.mem_filter, bne_iff_ne, ne_eq]
    exact ⟨fun h => h.2 trivial, ih.sublist List.filter_sublist⟩

namespace Table

theorem mem_memberIdx (t : Table) (k : String) (i : Nat) :
    i ∈ memberIdx t k ↔ ∃ f, t[i]? = some f ∧ classKey f = k := by
  simp only [memberIdx, List.mem_filter, List.mem_range]
  constructor
  · rintro ⟨hi, h⟩
    rw [List.getElem?_eq_getElem hi] at h
    exact ⟨t[i], List.getElem?_eq_getElem hi, by simpa using h⟩
  · rintro ⟨f, hf, hk⟩
    have hi : i < t.length := by
      by_cases h : i < t.length
      · exact h
      · rw [List.getElem?_eq_none (by omega)] at hf; cases hf
    refine ⟨hi, ?_⟩
    rw [hf]
    simpa using hk

theorem memberIdx_sorted (t : Table) (k : String) : (memberIdx t k).Pairwise (· < ·) :=
  List.pairwise_lt_range.filter _

theorem memberIdx_nodup (t : Table) (k : String) : (memberIdx t k).Nodup :=
  (memberIdx_sorted t k).imp fun h => Nat.ne_of_lt h

theorem mem_classKeys (t : Table) (k : String) : k ∈ classKeys t ↔ ∃ f ∈ t, classKey f = k := by
  simp [classKeys, mem_dedup]

theorem flatten_memberIdx_nodup (t : Table) (ks : List String) (h : ks.Nodup) :
    (ks.map (memberIdx t)).flatten.Nodup := by
  induction ks with
  | nil => simp
  | cons k ks ih =>
    simp only [List.nodup_cons] at h
    simp only [List.map_cons, List.flatten_cons, List.nodup_append]
    refine ⟨memberIdx_nodup t k, ih h.2, ?_⟩
    intro a ha b hb e
    subst e
    obtain ⟨l, hl, hal⟩ := List.mem_flatten.mp hb
    obtain ⟨k', hk', rfl⟩ := List.mem_map.mp hl
    obtain ⟨f, hf, hfk⟩ := (mem_memberIdx t k a).mp ha
    obtain ⟨f', hf', hfk'⟩ := (mem_memberIdx t k' a).mp hal
    rw [hf] at hf'
    cases hf'
    rw [hfk] at hfk'
    subst hfk'
    exact h.1 hk'

theorem groups_flatten_nodup (t : Table) : (groups t).flatten.Nodup :=
  flatten_memberIdx_nodup t _ (nodup_dedup _)

theorem mem_groups_flatten (t : Table) (i : Nat) : i ∈ (groups t).flatten ↔ i < t.length := by
  simp only [groups, List.mem_flatten, List.mem_map]
  constructor
  · rintro ⟨l, ⟨k, _, rfl⟩, hi⟩
    obtain ⟨f, hf, _⟩ := (mem_memberIdx t k i).mp hi
    by_cases h : i < t.length
    · exact h
    · rw [List.getElem?_eq_none (by omega)] at hf; cases hf
  · intro hi
    refine ⟨memberIdx t (classKey t[i]), ⟨classKey t[i], ?_, rfl⟩, ?_⟩
    · exact (mem_classKeys t _).mpr ⟨t[i], List.getElem_mem hi, rfl⟩
    · exact (mem_memberIdx t _ i).mpr ⟨t[i], List.getElem?_eq_getElem hi, rfl⟩

theorem groups_flatten_perm (t : Table) : (groups t).flatten.Perm (List.range t.length) :=
  (List.perm_ext_iff_of_nodup (groups_flatten_nodup t) List.nodup_range).mpr fun i => by
    rw [mem_groups_flatten, List.mem_range]

/-- every class is non-empty -/
theorem groups_ne_nil (t : Table) (idx : List Nat) (h : idx ∈ groups t) : idx ≠ [] := by
  obtain ⟨k, hk, rfl⟩ := List.mem_map.mp h
  obtain ⟨f, hf, hfk⟩ := (mem_classKeys t k).mp hk
  obtain ⟨i, hi, rfl⟩ := List.getElem_of_mem hf
  intro e
  have : i ∈ memberIdx t k := (mem_memberIdx t k i).mpr ⟨t[i], List.getElem?_eq_getElem hi, hfk⟩
  rw [e] at this
  cases this

end Table

/-! ### compaction -/

theorem compactLoop_incr (gg : Table) (i : Nat) (js : List Nat)
    (hs : js.Pairwise (· < ·)) (hb : ∀ j ∈ js, i ≤ j ∧ j < gg.length) :
    ∃ gg', compactLoop gg i js = some gg' ∧
      gg'.take (i + js.length) = gg.take i ++ js.filterMap (fun j => gg[j]?) := by
  induction js generalizing gg i with
  | nil => exact ⟨gg, rfl, by simp⟩
  | cons j js ih =>
    have hj := hb j (by simp)
    have hs' := List.pairwise_cons.mp hs
    have hjlt : j < gg.length := hj.2
    have hilt : i < gg.length := by omega
    simp only [compactLoop, List.getElem?_eq_getElem hjlt, hilt, if_true]
    obtain ⟨gg', h1, h2⟩ := ih (gg.set i gg[j]) (i + 1) hs'.2 (by
      intro j' hj'
      have := hs'.1 j' hj'
      have := (hb j' (by simp [hj'])).2
      simp only [List.length_set]
      omega)
    refine ⟨gg', h1, ?_⟩
    have e1 : i + (j :: js).length = i + 1 + js.length := by simp; omega
    rw [e1, h2]
    have e2 : (gg.set i gg[j]).take (i + 1) = gg.take i ++ [gg[j]] := by
      rw [List.take_add_one, List.getElem?_set_self hilt, List.take_set_of_le (Nat.le_refl i)]
      rfl
    have e3 : js.filterMap (fun j' => (gg.set i gg[j])[j']?) = js.filterMap (fun j' => gg[j']?) := by
      apply filterMap_congr'
      intro j' hj'
      have := hs'.1 j' hj'
      have hne : ¬ i = j' := by omega
      simp [hne]
    rw [e2, e3]
    simp [List.getElem?_eq_getElem hjlt]

theorem compact_incr (gg : Table) (js : List Nat)
    (hs : js.Pairwise (· < ·)) (hb : ∀ j ∈ js, j < gg.length) :
    compact gg js = some (js.filterMap fun j => gg[j]?) := by
  obtain ⟨gg', h1, h2⟩ := compactLoop_incr gg 0 js hs (fun j hj => ⟨Nat.zero_le _, hb j hj⟩)
  simp only [compact, h1, Option.map_some]
  simpa using h2

/-! ### explicit form of the result -/

/-- the kept indices, ascending -/
def specKeep (t : Table) : List Nat := sortNat ((Table.groups t).flatMap (classKept t))

/-- the table after the location writes -/
def specGG (t : Table) : Table := writeLocs t ((Table.groups t).flatMap (classWrites t))

/-- the table `Repair` returns (when it writes no `nil` location) -/
def specRepair (t : Table) : Table := (specKeep t).filterMap fun j => (specGG t)[j]?

theorem noNil_iff (t : Table) :
    Table.noNil t = true ↔ (Table.groups t).any (classNil t) = false := by
  simp only [Table.noNil, classNil, classN, classP, List.all_eq_true, List.any_eq_false,
    Bool.not_eq_true', Bool.not_eq_true]
  exact Iff.rfl

theorem classN_of_ne_nil {t : Table} {idx : List Nat} (h : classP t idx ≠ []) :
    classN t idx = (classP t idx).length := by
  simp only [classN, sliceLen]
  cases hp : classP t idx with
  | nil => exact absurd hp h
  | cons a as => simp

theorem specKeep_sublist (t : Table) :
    ((Table.groups t).flatMap (classKept t)).Sublist (Table.groups t).flatten := by
  have e : (Table.groups t).flatten = (Table.groups t).flatMap id := List.flatMap_id.symm
  rw [e]
  exact sublist_flatMap _ _ _ fun idx _ => classKept_sublist t idx

theorem specKeep_sorted (t : Table) : (specKeep t).Pairwise (· < ·) := by
  have hnd : (specKeep t).Nodup :=
    ((sortNat_perm _).nodup_iff).mpr (List.Nodup.sublist (specKeep_sublist t) (Table.groups_flatten_nodup t))
  have h1 := sortNat_sorted ((Table.groups t).flatMap (classKept t))
  have h2 : (specKeep t).Pairwise (· ≠ ·) := hnd
  exact (h1.and h2).imp fun ⟨a, b⟩ => Nat.lt_of_le_of_ne a b

/-- **`Repair` on every table**: never a panic; the explicit table, or the `nil`-location
outcome when some class of two or more members has an empty pushed list -/
theorem repair_eq (t : Table) :
    repair t = if (Table.groups t).any (classNil t) then .nilLoc else .ok (specRepair t) := by
  have hb : ∀ j ∈ specKeep t, j < (specGG t).length := by
    intro j hj
    have hj' : j ∈ (Table.groups t).flatten := (specKeep_sublist t).subset ((sortNat_perm _).mem_iff.mp hj)
    simpa [specGG] using (Table.mem_groups_flatten t j).mp hj'
  rw [repair, repairOrd_eq t _ (Table.groups_flatten_nodup t)]
  have := compact_incr (specGG t) (specKeep t) (specKeep_sorted t) hb
  simp only [specGG, specKeep] at this
  rw [this]
  rfl

theorem repair_eq_spec (t : Table) (h : (Table.groups t).any (classNil t) = false) :
    repair t = .ok (specRepair t) := by
  rw [repair_eq, h]; rfl

/-- what `repair t = .ok t'` says -/
theorem repair_ok (t t' : Table) (h : repair t = .ok t') :
    (Table.groups t).any (classNil t) = false ∧ t' = specRepair t := by
  rw [repair_eq] at h
  cases hn : (Table.groups t).any (classNil t) with
  | true => rw [hn] at h; simp at h
  | false => rw [hn] at h; simp at h; exact ⟨rfl, h.symm⟩

end Gts
