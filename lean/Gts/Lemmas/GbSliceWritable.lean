/-
  C01: closure of the writable domain under `gts.Slice` at the record level.
  `sliceRecord F s a b` = the GenBank record `gts.Slice` returns for the record with header `F`,
  table and residues `s`: header `sliceHeader` (REGION set to the window, references clipped /
  dropped / renumbered by `GenBankFields.Slice`, topology linear), table and residues `Seq.slice`
  (C03).  `Writable` is kept: field by field below.  Core Lean only.
-/
import Gts.Lemmas.GbEdit
import Gts.Lemmas.GbSliceRefInfo
import Gts.Model.GbSliceRec
namespace Gts.GenBank
open Gts.Pars

/-- **the record `gts.Slice(record, start, end)` returns** -/
def sliceRecord (F : Fields) (s : Seq) (a b : Int) : Record :=
  ofSeq (sliceHeader F s.len a b) (s.slice a b)

/-! ### table and residues (C03's `Seq.slice`) -/

theorem fromTable_trans {t u : List Feature} (h : ∀ f ∈ u, FromTable t f) {g : Feature} (hg : FromTable u g) :
    FromTable t g := by
  obtain ⟨f, hf, hk, hp⟩ := hg
  obtain ⟨f0, hf0, hk0, hp0⟩ := h f hf
  exact ⟨f0, hf0, hk.trans hk0, hp.trans hp0⟩

theorem sliceFwd_fromTable (s : Seq) (a b : Int) : ∀ g ∈ (s.sliceFwd a b).feats, FromTable s.feats g := by
  intro g hg
  simp only [Seq.sliceFwd] at hg
  exact fromTable_mono (fun f hf => (List.mem_filter.mp hf).1)
    (fromTable_mapLoc (s.feats.filter fun f => f.loc.overlap a b) _ g hg)

theorem rotate_fromTable (s : Seq) (n : Int) : ∀ g ∈ (s.rotate n).feats, FromTable s.feats g := by
  intro g hg
  simp only [Seq.rotate] at hg
  rcases (mem_insertAll _ _ g).mp hg with h | h
  · simp at h
  · exact fromTable_mapLoc s.feats _ g h

/-- `gts.Slice` in terms of the normalised indices -/
theorem slice_eq (s : Seq) (a b : Int) :
    s.slice a b =
      if sliceIndex s.len b < sliceIndex s.len a then
        (s.rotate (-(sliceIndex s.len a))).sliceFwd 0 (s.len - sliceIndex s.len a + sliceIndex s.len b)
      else s.sliceFwd (sliceIndex s.len a) (sliceIndex s.len b) := rfl

theorem slice_fromTable (s : Seq) (a b : Int) : ∀ g ∈ (s.slice a b).feats, FromTable s.feats g := by
  intro g hg
  rw [slice_eq] at hg
  by_cases hc : sliceIndex s.len b < sliceIndex s.len a
  · rw [if_pos hc] at hg
    exact fromTable_trans (rotate_fromTable s _) (sliceFwd_fromTable _ _ _ g hg)
  · rw [if_neg hc] at hg
    exact sliceFwd_fromTable s _ _ g hg

theorem sliceFwd_bytes (s : Seq) (a b : Int) :
    (∀ c ∈ (s.sliceFwd a b).bytes, c ∈ s.bytes) ∧ (s.sliceFwd a b).bytes.length ≤ s.bytes.length := by
  simp only [Seq.sliceFwd]
  refine ⟨fun c hc => List.mem_of_mem_drop (List.mem_of_mem_take hc), ?_⟩
  simp only [List.length_take, List.length_drop]
  omega

theorem rotate_bytes (s : Seq) (n : Int) :
    (∀ c ∈ (s.rotate n).bytes, c ∈ s.bytes) ∧ (s.rotate n).bytes.length = s.bytes.length := by
  simp only [Seq.rotate]
  refine ⟨?_, ?_⟩
  · intro c hc
    rcases List.mem_append.mp hc with h | h
    · exact List.mem_of_mem_drop h
    · exact List.mem_of_mem_take h
  · simp only [List.length_append, List.length_drop, List.length_take]
    omega

theorem slice_bytes (s : Seq) (a b : Int) :
    (∀ c ∈ (s.slice a b).bytes, c ∈ s.bytes) ∧ (s.slice a b).bytes.length ≤ s.bytes.length := by
  rw [slice_eq]
  by_cases hc : sliceIndex s.len b < sliceIndex s.len a
  · rw [if_pos hc]
    obtain ⟨h1, h2⟩ := sliceFwd_bytes (s.rotate (-(sliceIndex s.len a))) 0
      (s.len - sliceIndex s.len a + sliceIndex s.len b)
    obtain ⟨h3, h4⟩ := rotate_bytes s (-(sliceIndex s.len a))
    exact ⟨fun c hc => h3 c (h1 c hc), by omega⟩
  · rw [if_neg hc]
    exact sliceFwd_bytes s _ _

/-- the sliced table and residues under the OLD header -/
theorem writable_slice_seq (reg : Registry) (F : Fields) (s : Seq) (a b : Int)
    (hw : Writable reg (ofSeq F s) s.bytes = true)
    (hne : 0 < (s.slice a b).bytes.length ∨ F.contigAcc.isEmpty = true) :
    Writable reg (ofSeq F (s.slice a b)) (s.slice a b).bytes = true := by
  obtain ⟨hb, hl⟩ := writable_bytes reg F s hw
  have hf := writable_feats reg F s hw
  obtain ⟨h1, h2⟩ := slice_bytes s a b
  exact writable_ofSeq reg F s _ hw
    (fun g hg => featW_fromTable reg s.feats hf g (slice_fromTable s a b g hg))
    (fun c hc => hb c (h1 c hc)) (by omega) (Or.inr hne)

/-! ### the references -/

/-- the info does not start with a digit (the clause of `referenceOk` for numbers of three or more
digits, which are written without a blank in front of the info) -/
def infoNoDigit (i : Bytes) : Bool := match i with | [] => true | c :: _ => !isDigit c

/-- **guard of the closure theorem**: at most 99 references (every new number `1..m` then has fewer
than three digits), or no info starts with a digit (and the count fits Go's `int`).  Without it a
reference that moves to a number of three or more digits with an info like `5 x` is written
`REFERENCE   1005 x` (`writable_slice_full_refuted`). -/
def renumberOk (refs : List Reference) : Bool :=
  decide (refs.length ≤ 99) ||
    (decide (refs.length ≤ 9223372036854775807) && refs.all fun r => infoNoDigit r.info)

theorem counterWord_noEOL (m : Bytes) : noEOL (counterWord m) = true := by
  unfold counterWord
  split <;> decide

theorem natDigits_short : ∀ m : Fin 100, (natDigits m.1).length < 3 := by decide +kernel

theorem itoaB_short (n : Nat) (h : n + 1 ≤ 99) : (itoaB ((n : Int) + 1)).length < 3 := by
  have e : (n : Int) + 1 = ((n + 1 : Nat) : Int) := by omega
  have hneg : ¬ (((n + 1 : Nat) : Int) < 0) := by omega
  rw [e, itoaB, if_neg hneg, Int.natAbs_natCast]
  exact natDigits_short ⟨n + 1, by omega⟩

/-- what `Slice` leaves in `ref.Info`: one line again; it starts with a digit only if it did -/
theorem sliceRefInfo_line (pref : Bytes) (a b : Int) (info i : Bytes) (hp : noEOL pref = true)
    (hi : noEOL info = true) (h : sliceRefInfo pref a b info = some i) :
    noEOL i = true ∧ (infoNoDigit info = true → infoNoDigit i = true) := by
  unfold sliceRefInfo at h
  split at h
  · cases h; exact ⟨hi, id⟩
  · rename_i locs _
    simp only at h
    split at h
    · cases h
    · cases h
      refine ⟨GbSliceRef.fmtRanges_noEOL pref _ hp, fun _ => ?_⟩
      obtain ⟨t, ht⟩ := GbSliceRef.fmtRanges_head pref
        (List.map (clipRange a b) (List.filter (fun r => Loc.rangeOverlap r.1 r.2 a b) locs))
      rw [ht]; rfl

/-- a reference with another info line and a small or harmless new number is in the domain -/
theorem referenceOk_renum (r : Reference) (i : Bytes) (n : Nat) (hr : referenceOk r = true)
    (hi : noEOL i = true) (hn : n + 1 ≤ 9223372036854775807) (hd : n + 1 ≤ 99 ∨ infoNoDigit i = true) :
    referenceOk { r with info := i, number := (n : Int) + 1 } = true := by
  simp only [referenceOk, Bool.and_eq_true, Bool.or_eq_true, decide_eq_true_eq] at hr ⊢
  obtain ⟨⟨⟨⟨_, _⟩, _⟩, hpm⟩, hsub⟩ := hr
  refine ⟨⟨⟨⟨⟨by omega, by omega⟩, hi⟩, ?_⟩, hpm⟩, hsub⟩
  rcases hd with hd | hd
  · exact Or.inl (itoaB_short n hd)
  · right
    unfold infoNoDigit at hd
    exact hd

theorem mem_renumberRefs (rs : List Reference) (x : Reference) (hx : x ∈ renumberRefs rs) :
    ∃ r ∈ rs, ∃ k : Nat, k < rs.length ∧ x = { r with number := (k : Int) + 1 } := by
  simp only [renumberRefs, List.mem_map] at hx
  obtain ⟨⟨r, k⟩, hm, rfl⟩ := hx
  have := List.mem_zipIdx hm
  simp only [Nat.zero_add] at this
  exact ⟨r, by rw [this.2.2]; exact List.getElem_mem _, k, by omega, rfl⟩

/-- **REFERENCE blocks after `Slice`**: every kept reference is in the domain `referenceOk` -/
theorem sliceReferences_ok (pref : Bytes) (a b : Int) (refs : List Reference) (hp : noEOL pref = true)
    (hall : ∀ r ∈ refs, referenceOk r = true) (hg : renumberOk refs = true) :
    ∀ x ∈ sliceReferences pref a b refs, referenceOk x = true := by
  intro x hx
  unfold sliceReferences at hx
  obtain ⟨r, hr, k, hk, rfl⟩ := mem_renumberRefs _ x hx
  obtain ⟨r0, hr0, hopt⟩ := List.mem_filterMap.mp hr
  cases hsl : sliceRefInfo pref a b r0.info with
  | none => rw [hsl] at hopt; simp at hopt
  | some i =>
    rw [hsl] at hopt
    simp only [Option.map_some, Option.some.injEq] at hopt
    subst hopt
    have h0 := hall r0 hr0
    have hinfo : noEOL r0.info = true := by
      simp only [referenceOk, Bool.and_eq_true] at h0
      exact h0.1.1.1.2
    obtain ⟨hline, hdig⟩ := sliceRefInfo_line pref a b r0.info i hp hinfo hsl
    have hlen : (refs.filterMap fun r => (sliceRefInfo pref a b r.info).map fun i => { r with info := i }).length
        ≤ refs.length := List.length_filterMap_le _ _
    simp only [renumberOk, Bool.or_eq_true, Bool.and_eq_true, decide_eq_true_eq, List.all_eq_true] at hg
    have hk' : k < refs.length := by omega
    refine referenceOk_renum r0 i k h0 hline ?_ ?_
    · rcases hg with hg | hg
      · omega
      · omega
    · rcases hg with hg | hg
      · left; omega
      · right; exact hdig (hg.2 r0 hr0)

/-! ### the header -/

/-- the ACCESSION line of the sliced header: the accession and, for a non-empty window, the
REGION suffix -/
theorem accessionLine_sliceHeader (F : Fields) (L a b : Int) :
    accessionLine (sliceHeader F L a b) =
      F.accession ++
        (if (sliceWindow L a b).2 ≤ (sliceWindow L a b).1 then []
         else bs " REGION: " ++ itoaB ((sliceWindow L a b).1 + 1) ++ bs ".." ++ itoaB (sliceWindow L a b).2) := rfl

theorem accessionLine_prefix (F : Fields) : ∃ t, accessionLine F = F.accession ++ t := ⟨_, rfl⟩

theorem accessionLine_sliceHeader_noEOL (F : Fields) (L a b : Int) (h : noEOL (accessionLine F) = true) :
    noEOL (accessionLine (sliceHeader F L a b)) = true := by
  obtain ⟨t, ht⟩ := accessionLine_prefix F
  rw [ht, GbSliceRef.noEOL_append, Bool.and_eq_true] at h
  rw [accessionLine_sliceHeader, GbSliceRef.noEOL_append, h.1, Bool.true_and]
  split
  · rfl
  · rw [GbSliceRef.noEOL_append, GbSliceRef.noEOL_append, GbSliceRef.noEOL_append, GbSliceRef.itoaB_noEOL,
      GbSliceRef.itoaB_noEOL]
    decide

/-- **header fields after `Slice`** -/
theorem headerOk_sliceHeader (F : Fields) (L a b : Int) (h : headerOk F = true)
    (hg : renumberOk F.references = true) : headerOk (sliceHeader F L a b) = true := by
  simp only [headerOk, Bool.and_eq_true] at h ⊢
  obtain ⟨⟨⟨⟨⟨⟨⟨⟨⟨⟨⟨hdef, hacc⟩, hver⟩, hdb⟩, hdk⟩, hkw⟩, hsp⟩, horg⟩, htax⟩, href⟩, hcom⟩, hext⟩ := h
  refine ⟨⟨⟨⟨⟨⟨⟨⟨⟨⟨⟨hdef, accessionLine_sliceHeader_noEOL F L a b hacc⟩, hver⟩, hdb⟩, hdk⟩, hkw⟩, hsp⟩, horg⟩, htax⟩,
    ?_⟩, hcom⟩, hext⟩
  rw [List.all_eq_true] at href ⊢
  exact sliceReferences_ok _ _ _ _ (counterWord_noEOL _) href hg

/-- the sliced header on an unchanged table and unchanged residues -/
theorem writable_sliceHeader (reg : Registry) (F : Fields) (t : List QFeature) (o : OriginV) (p : Bytes)
    (L a b : Int) (hw : Writable reg ⟨F, t, o⟩ p = true) (hg : renumberOk F.references = true) :
    Writable reg ⟨sliceHeader F L a b, t, o⟩ p = true := by
  obtain ⟨hlocus, hrange, hmol, hh, htw, hc, hp, hlen⟩ := writable_parts reg ⟨F, t, o⟩ p hw
  simp only at hlocus hrange hmol hh htw hc
  have hL : locusLength (sliceHeader F L a b) p = locusLength F p := rfl
  have hlocus' : locusOk (sliceHeader F L a b) (locusLength F p) = true := by
    simp only [locusOk, Bool.and_eq_true] at hlocus ⊢
    obtain ⟨⟨⟨⟨⟨h1, h2⟩, _⟩, h4⟩, h5⟩, h6⟩ := hlocus
    exact ⟨⟨⟨⟨⟨h1, h2⟩, rfl⟩, h4⟩, h5⟩, h6⟩
  simp only [Writable, Bool.and_eq_true, decide_eq_true_eq, hL]
  exact ⟨⟨⟨⟨⟨⟨⟨hlocus', hrange⟩, hmol⟩, headerOk_sliceHeader F L a b hh hg⟩, htw⟩, hc⟩, hp⟩, hlen⟩

/-- **closure of `Writable` under `gts.Slice`**, every window -/
theorem writable_sliceRecord (reg : Registry) (F : Fields) (s : Seq) (a b : Int)
    (hw : Writable reg (ofSeq F s) s.bytes = true) (hg : renumberOk F.references = true)
    (hne : 0 < (s.slice a b).bytes.length ∨ F.contigAcc.isEmpty = true) :
    Writable reg (sliceRecord F s a b) (s.slice a b).bytes = true :=
  writable_sliceHeader reg F _ _ _ s.len a b (writable_slice_seq reg F s a b hw hne) hg

end Gts.GenBank
