/-
  C01 / slice helper lemmas: the integers `GenBankFields.Slice` prints with `%d`.
  The model (`intBytes`, Model/GbSlice.lean) prints with Lean's `toString`; here that is shown to
  be `strconv.Itoa` as the writer and reader models know it (`itoaB` / `natDigits`): the UTF-8
  bytes of `Nat.repr n` are the decimal digits of `n`.  Core Lean only.
-/
import Gts.Model.GbSlice
import Gts.Model.GenBank
import Gts.Lemmas.ModText
namespace Gts.GbSliceInt
open Gts Gts.Pars Gts.GenBank

/-! ### `ByteArray.toList` is the list of the bytes -/

theorem toList_loop (bs : ByteArray) (i : Nat) (r : List UInt8) (hi : i ≤ bs.size) :
    ByteArray.toList.loop bs i r = r.reverse ++ bs.data.toList.drop i := by
  induction hk : bs.size - i generalizing i r with
  | zero =>
    rw [ByteArray.toList.loop]
    have : ¬ i < bs.size := by omega
    rw [if_neg this]
    have hd : bs.data.toList.drop i = [] := by
      apply List.drop_eq_nil_of_le
      simp only [Array.length_toList]
      have : bs.data.size = bs.size := rfl
      omega
    rw [hd, List.append_nil]
  | succ k ih =>
    rw [ByteArray.toList.loop]
    have hlt : i < bs.size := by omega
    rw [if_pos hlt, ih (i + 1) _ (by omega) (by omega)]
    have hsz : bs.data.size = bs.size := rfl
    have hget : bs.get! i = bs.data.toList[i]'(by simp only [Array.length_toList]; omega) := by
      simp only [ByteArray.get!, Array.getElem_toList]
      exact getElem!_pos bs.data i (by omega)
    rw [hget, List.reverse_cons, List.append_assoc, List.singleton_append]
    congr 1
    exact (List.drop_eq_getElem_cons _).symm

theorem toList_eq (bs : ByteArray) : bs.toList = bs.data.toList := by
  rw [ByteArray.toList, toList_loop bs 0 [] (by omega)]
  rfl

/-! ### the bytes of `Nat.repr` -/

theorem digitChar_bytes : ∀ d : Fin 10, String.utf8EncodeChar (Nat.digitChar d.1) = [digitByte d.1] := by
  decide

theorem encode_append (a b : List Char) :
    (a ++ b).utf8Encode.data.toList = a.utf8Encode.data.toList ++ b.utf8Encode.data.toList := by
  rw [List.utf8Encode_append, ByteArray.data_append, Array.toList_append]

theorem encode_digit (d : Nat) (h : d < 10) : [Nat.digitChar d].utf8Encode.data.toList = [digitByte d] := by
  rw [List.utf8Encode_singleton, List.data_toByteArray]
  exact digitChar_bytes ⟨d, h⟩

/-- the UTF-8 bytes of the decimal digit characters are `natDigitsF`, for every fuel above `n` -/
theorem toDigits_bytes (f n : Nat) (h : n < f) :
    (Nat.toDigits 10 n).utf8Encode.data.toList = natDigitsF f n := by
  induction f generalizing n with
  | zero => omega
  | succ f ih =>
    unfold natDigitsF
    by_cases hn : n < 10
    · rw [if_pos hn, Nat.toDigits_of_lt_base hn]
      exact encode_digit n hn
    · rw [if_neg hn, Nat.toDigits_of_base_le (by omega) (by omega), encode_append, ih (n / 10) (by omega),
        encode_digit (n % 10) (by omega)]

theorem repr_bytes (n : Nat) : (Nat.repr n).toUTF8.toList = natDigits n := by
  rw [toList_eq, Nat.repr, String.toUTF8, String.toByteArray_ofList]
  exact toDigits_bytes (n + 1) n (by omega)

/-- **`%d` of a non-negative `int`**: `toString` and `strconv.Itoa` print the same bytes -/
theorem intBytes_ofNat (n : Nat) : intBytes (n : Int) = natDigits n := by
  unfold intBytes
  show (Int.repr (Int.ofNat n)).toUTF8.toList = natDigits n
  exact repr_bytes n

theorem minus_bytes : ("-" : String).toUTF8.toList = [45] := by decide +kernel

/-- … and of every `int` -/
theorem intBytes_eq (n : Int) : intBytes n = itoaB n := by
  cases n with
  | ofNat m =>
    rw [show Int.ofNat m = (m : Int) from rfl, intBytes_ofNat]
    simp [itoaB]
  | negSucc m =>
    unfold intBytes
    show (Int.repr (Int.negSucc m)).toUTF8.toList = _
    have h1 : Int.repr (Int.negSucc m) = "-" ++ Nat.repr (m + 1) := rfl
    rw [h1, toList_eq, String.toUTF8, String.toByteArray_append, ByteArray.data_append, Array.toList_append,
      ← toList_eq, ← toList_eq]
    have h2 := repr_bytes (m + 1)
    have h3 := minus_bytes
    simp only [String.toUTF8] at h2 h3
    rw [h2, h3]
    have hneg : Int.negSucc m < 0 := Int.negSucc_lt_zero m
    simp [itoaB, hneg, Int.natAbs]

end Gts.GbSliceInt
