/-
  `parseReferenceInfo` only yields proper ranges.
-/
import Gts.Model.GbSlice
import Gts.Lemmas.ParsSafe
namespace Gts.RefInfo
open Gts Pars

theorem ok_bind {α β} {p : P α} {f : α → P β} {s s' : PS} {r : β}
    (h : (p >>= f).run' s = (.ok r, s')) :
    ∃ a s1, p.run' s = (.ok a, s1) ∧ (f a).run' s1 = (.ok r, s') := by
  rw [run_bind] at h
  cases hp : p.run' s with
  | mk x s1 =>
    rw [hp] at h
    cases x with
    | ok a => exact ⟨a, s1, rfl, h⟩
    | error e => simp at h

theorem refRange_proper {s s' : PS} {r : Int × Int} (h : refRange.run' s = (.ok r, s')) :
    r.1 < r.2 := by
  unfold refRange at h
  obtain ⟨a, s1, _, h⟩ := ok_bind h
  obtain ⟨_, s2, _, h⟩ := ok_bind h
  obtain ⟨b, s3, _, h⟩ := ok_bind h
  by_cases hb : b ≤ a - 1
  · rw [if_pos hb, run_fail] at h; simp at h
  · rw [if_neg hb, run_pure] at h
    have := (Prod.mk.inj h).1
    injection this with this
    subst this
    show a - 1 < b
    omega

theorem refMore_proper : ∀ (k : Nat) (acc : List (Int × Int)) (s s' : PS) (rs : List (Int × Int)),
    (∀ x ∈ acc, x.1 < x.2) → (refMore k acc).run' s = (.ok rs, s') → ∀ x ∈ rs, x.1 < x.2
  | 0, acc, s, s', rs, hacc, h => by
    rw [refMore, run_pure] at h
    have := (Prod.mk.inj h).1
    injection this with this
    subst this
    intro x hx; exact hacc x (List.mem_reverse.mp hx)
  | k + 1, acc, s, s', rs, hacc, h => by
    rw [refMore] at h
    obtain ⟨s0, s1, h0, h⟩ := ok_bind h
    obtain ⟨m, s2, hm, h⟩ := ok_bind h
    cases m with
    | some r =>
      have hr : r.1 < r.2 := by
        rw [run_attempt] at hm
        split at hm
        · rename_i a s3 hp
          have e := (Prod.mk.inj hm).1
          injection e with e
          injection e with e
          subst e
          obtain ⟨_, s4, _, hp⟩ := ok_bind hp
          exact refRange_proper hp
        · simp at hm
        · simp at hm
      apply refMore_proper k (r :: acc) s2 s' rs _ h
      intro x hx
      rcases List.mem_cons.mp hx with rfl | hx
      · exact hr
      · exact hacc x hx
    | none =>
      obtain ⟨_, s3, _, h⟩ := ok_bind h
      rw [run_pure] at h
      have := (Prod.mk.inj h).1
      injection this with this
      subst this
      intro x hx; exact hacc x (List.mem_reverse.mp hx)

theorem parseRefInfo_proper (pref info : Bytes) (rs : List (Int × Int))
    (h : parseRefInfo pref info = some rs) : ∀ r ∈ rs, r.1 < r.2 := by
  unfold parseRefInfo at h
  simp only at h
  split at h
  · rename_i rs' s' hp
    injection h with h
    subst h
    obtain ⟨_, s1, _, hp⟩ := ok_bind hp
    obtain ⟨first, s2, hf, hp⟩ := ok_bind hp
    obtain ⟨rest, s3, hr, hp⟩ := ok_bind hp
    obtain ⟨_, s4, _, hp⟩ := ok_bind hp
    rw [run_pure] at hp
    have := (Prod.mk.inj hp).1
    injection this with this
    subst this
    intro x hx
    rcases List.mem_cons.mp hx with rfl | hx
    · exact refRange_proper hf
    · exact refMore_proper _ [] s2 s3 rest (by simp) hr x hx
  · simp at h

end Gts.RefInfo
