/-
  Outer partial markers under `Reverse` (they swap ends), `Shift` and `Expand` with `n ≥ 0`
  (Insert / Embed: unchanged) — every kind and arity, by structural induction over the model,
  `Join` through `join_marks`.  Core Lean only.
-/
import Gts.Lemmas.MarksPush
import Gts.Lemmas.Reverse
import Gts.Lemmas.Shift
import Gts.Lemmas.Embed
import Gts.Lemmas.Normalize
import Gts.Lemmas.Delete
namespace Gts
namespace Loc

/-! ### Reverse -/

mutual
theorem reverse_marks_aux : ∀ (l : Loc) (L : Int), wf l = true → reverseMarkAbs l L = false →
    marks (reverse l L) = mswap (marks l)
  | between p, L, _, _ => by simp [reverse]
  | point p, L, _, _ => by simp [reverse]
  | ranged s e a b, L, hw, _ => by
      have h : s < e := by simpa [wf] using hw
      have h' : L - e < L - s := by omega
      simp [reverse, rangedReverse, h, h']
  | ambiguous s e, L, _, _ => by simp [reverse]
  | joined ls, L, hw, hk => by
      have hw' : wfList ls = true := by simpa [wf] using hw
      simp only [reverseMarkAbs, Bool.or_eq_false_iff] at hk
      have hwr : wfList (reverseList ls L).reverse = true := by
        rw [wfList_reverse]; exact (reverseList_mirror ls L hw').2
      simp only [reverse, marks_joined]
      rw [join_marks _ (rwfList_of_wfList _ hwr) hk.2]
      exact reverseList_marks_aux ls L hw' hk.1
  | ordered ls, L, hw, hk => by
      have hw' : wfList ls = true := by simpa [wf] using hw
      simp only [reverseMarkAbs] at hk
      simp only [reverse, marks_ordered, order_marks]
      exact reverseList_marks_aux ls L hw' hk
  | compl l, L, hw, hk => by
      simp only [reverseMarkAbs] at hk
      simp only [reverse, marks_compl]
      rw [reverse_marks_aux l L (by simpa [wf] using hw) hk]
theorem reverseList_marks_aux : ∀ (ls : List Loc) (L : Int), wfList ls = true →
    reverseMarkAbsList ls L = false →
    marksList (reverseList ls L).reverse = mswap (marksList ls)
  | [], _, _, _ => by simp [reverseList]
  | l :: ls, L, hw, hk => by
      simp only [wfList_cons, Bool.and_eq_true] at hw
      simp only [reverseMarkAbsList, Bool.or_eq_false_iff] at hk
      simp only [reverseList, List.reverse_cons, marksList_append, marksList_cons, marksList_nil,
        mcomb_none_right, mswap_mcomb]
      rw [reverse_marks_aux l L hw.1 hk.1, reverseList_marks_aux ls L hw.2 hk.2]
end

/-! ### contiguous kinds under insertion (`n ≥ 0`) -/

theorem marks_betweenExpand (p i n : Int) : marks (betweenExpand p i n) = none := by
  simp [betweenExpand]

theorem marks_pointExpand_ins (p i n : Int) (hn : 0 ≤ n) : marks (pointExpand p i n) = some (false, false) := by
  unfold pointExpand
  rw [if_neg (by omega)]
  simp

theorem marks_rangedShift_ins (s e : Int) (a b : Bool) (i n : Int) (h : s < e) (hn : 0 ≤ n) :
    marks (rangedShift s e a b i n) = some (a, b) := by
  unfold rangedShift
  by_cases h0 : n = 0
  · simp [h0, h]
  · rw [if_neg h0, if_neg (by omega)]
    by_cases hs : s < i ∧ i < e
    · rw [if_pos hs, join_two_ranged_ne _ _ _ _ _ _ _ _ (by omega)]
      have h1 : i + n < e + n := by omega
      simp [hs.1, h1, mcomb]
    · rw [if_neg hs]
      have : (if i ≤ s then s + n else s) < (if i < e then e + n else e) := by
        split <;> split <;> omega
      simp [this]

theorem marks_ambiguousShift_ins (s e i n : Int) (hn : 0 ≤ n) :
    marks (ambiguousShift s e i n) = some (false, false) := by
  unfold ambiguousShift
  by_cases h0 : n = 0
  · simp [h0]
  · rw [if_neg h0, if_neg (by omega)]
    by_cases hs : s < i ∧ i < e
    · rw [if_pos hs, order_two_ambiguous]
      simp [mcomb]
    · rw [if_neg hs]
      simp

theorem marks_rangedExpand_ins (s e : Int) (a b : Bool) (i n : Int) (h : s < e) (hn : 0 ≤ n) :
    marks (rangedExpand s e a b i n) = some (a, b) := by
  by_cases h0 : n = 0
  · simp [rangedExpand, h0, h]
  · rw [rangedExpand_ins_eq s e a b i n h (by omega)]
    have : (if i ≤ s then s + n else s) < (if i < e then e + n else e) := by
      split <;> split <;> omega
    simp [this]

theorem marks_ambiguousExpand_ins (s e i n : Int) (h : s < e) (hn : 0 ≤ n) :
    marks (ambiguousExpand s e i n) = some (false, false) := by
  by_cases h0 : n = 0
  · simp [ambiguousExpand, h0]
  · rw [ambiguousExpand_ins_eq s e i n h (by omega)]
    simp

/-! ### Shift (Insert) -/

mutual
theorem shift_marks_aux : ∀ (l : Loc) (i n : Int), wf l = true → 0 ≤ n →
    shiftMarkAbs l i n = false → marks (shift l i n) = marks l
  | between p, i, n, _, _, _ => by simp [shift, marks_betweenExpand]
  | point p, i, n, _, hn, _ => by simp [shift, marks_pointExpand_ins p i n hn]
  | ranged s e a b, i, n, hw, hn, _ => by
      have h : s < e := by simpa [wf] using hw
      simp [shift, marks_rangedShift_ins s e a b i n h hn, h]
  | ambiguous s e, i, n, _, hn, _ => by simp [shift, marks_ambiguousShift_ins s e i n hn]
  | joined ls, i, n, hw, hn, hk => by
      have hw' : wfList ls = true := by simpa [wf] using hw
      simp only [shiftMarkAbs, Bool.or_eq_false_iff] at hk
      simp only [shift, marks_joined]
      rw [join_marks _ (rwfList_of_wfList _ (shiftList_ins ls i n hw' hn).2) hk.2]
      exact shiftList_marks_aux ls i n hw' hn hk.1
  | ordered ls, i, n, hw, hn, hk => by
      have hw' : wfList ls = true := by simpa [wf] using hw
      simp only [shiftMarkAbs] at hk
      simp only [shift, marks_ordered, order_marks]
      exact shiftList_marks_aux ls i n hw' hn hk
  | compl l, i, n, hw, hn, hk => by
      simp only [shiftMarkAbs] at hk
      simp only [shift, marks_compl]
      rw [shift_marks_aux l i n (by simpa [wf] using hw) hn hk]
theorem shiftList_marks_aux : ∀ (ls : List Loc) (i n : Int), wfList ls = true → 0 ≤ n →
    shiftMarkAbsList ls i n = false → marksList (shiftList ls i n) = marksList ls
  | [], _, _, _, _, _ => by simp [shiftList]
  | l :: ls, i, n, hw, hn, hk => by
      simp only [wfList_cons, Bool.and_eq_true] at hw
      simp only [shiftMarkAbsList, Bool.or_eq_false_iff] at hk
      simp only [shiftList, marksList_cons]
      rw [shift_marks_aux l i n hw.1 hn hk.1, shiftList_marks_aux ls i n hw.2 hn hk.2]
end

/-! ### Expand with `n ≥ 0` (Embed, and the translation step of Rotate) -/

mutual
theorem expand_ins_marks_aux : ∀ (l : Loc) (i n : Int), wf l = true → 0 ≤ n →
    expandMarkAbs l i n = false → marks (expand l i n) = marks l
  | between p, i, n, _, _, _ => by simp [expand, marks_betweenExpand]
  | point p, i, n, _, hn, _ => by simp [expand, marks_pointExpand_ins p i n hn]
  | ranged s e a b, i, n, hw, hn, _ => by
      have h : s < e := by simpa [wf] using hw
      simp [expand, marks_rangedExpand_ins s e a b i n h hn, h]
  | ambiguous s e, i, n, hw, hn, _ => by
      have h : s < e := by simpa [wf] using hw
      simp [expand, marks_ambiguousExpand_ins s e i n h hn]
  | joined ls, i, n, hw, hn, hk => by
      have hw' : wfList ls = true := by simpa [wf] using hw
      simp only [expandMarkAbs, Bool.or_eq_false_iff] at hk
      simp only [expand, marks_joined]
      rw [join_marks _ (rwfList_of_wfList _ (expandList_ins ls i n hw' hn).2) hk.2]
      exact expandList_ins_marks_aux ls i n hw' hn hk.1
  | ordered ls, i, n, hw, hn, hk => by
      have hw' : wfList ls = true := by simpa [wf] using hw
      simp only [expandMarkAbs] at hk
      simp only [expand, marks_ordered, order_marks]
      exact expandList_ins_marks_aux ls i n hw' hn hk
  | compl l, i, n, hw, hn, hk => by
      simp only [expandMarkAbs] at hk
      simp only [expand, marks_compl]
      rw [expand_ins_marks_aux l i n (by simpa [wf] using hw) hn hk]
theorem expandList_ins_marks_aux : ∀ (ls : List Loc) (i n : Int), wfList ls = true → 0 ≤ n →
    expandMarkAbsList ls i n = false → marksList (expandList ls i n) = marksList ls
  | [], _, _, _, _, _ => by simp [expandList]
  | l :: ls, i, n, hw, hn, hk => by
      simp only [wfList_cons, Bool.and_eq_true] at hw
      simp only [expandMarkAbsList, Bool.or_eq_false_iff] at hk
      simp only [expandList, marksList_cons]
      rw [expand_ins_marks_aux l i n hw.1 hn hk.1, expandList_ins_marks_aux ls i n hw.2 hn hk.2]
end

/-! ### Normalize (the second step of Rotate) -/

theorem marks_rangedNormalize (s e : Int) (a b : Bool) (L : Int) (hL : 0 < L) (hs : 0 ≤ s) (h : s < e) :
    marks (rangedNormalize s e a b L) = some (a, b) ∧ rwf (rangedNormalize s e a b L) = true := by
  unfold rangedNormalize
  by_cases hfull : e - s = L
  · rw [if_pos hfull]
    by_cases h0 : s = 0
    · subst h0; simp [rangedExpand, h, rwf]
    · rw [rangedExpand_del_eq _ _ _ _ _ _ (show 0 < s by omega)]
      have a1 : delStart s 0 s = 0 := by unfold delStart; split <;> omega
      have a2 : delEnd e 0 s = L := by unfold delEnd; split <;> omega
      rw [a1, a2, if_neg (by omega)]
      have f1 : ¬ (0 ≤ s ∧ s < 0 + s) := by omega
      have f2 : ¬ (0 < e ∧ e ≤ 0 + s) := by omega
      rw [if_neg f1, if_neg f2]
      simp [hL, rwf]
  · rw [if_neg hfull]
    simp only [tmod_nonneg_eq s L hs, tmod_nonneg_eq (e - 1) L (by omega)]
    have hr1 := Int.emod_lt_of_pos s hL
    have he0 := Int.emod_nonneg (e - 1) (show L ≠ 0 by omega)
    generalize s % L = r at *
    generalize (e - 1) % L = q at *
    by_cases hc : r < q + 1
    · rw [if_pos hc]; simp [hc, rwf]
    · rw [if_neg hc, join_two_ranged_ne _ _ _ _ _ _ _ _ (by omega)]
      have : 0 < q + 1 := by omega
      simp [hr1, this, mcomb, rwf]

mutual
theorem normalize_marks_aux : ∀ (l : Loc) (L : Int), 0 < L → rwf l = true → nonneg l = true →
    (normalizeMarkAbs l L = false → marks (normalize l L) = marks l) ∧ rwf (normalize l L) = true
  | between p, L, _, _, _ => by simp [normalize, rwf]
  | point p, L, _, _, _ => by simp [normalize, rwf]
  | ranged s e a b, L, hL, hw, hnn => by
      have h : s < e := by simpa [rwf] using hw
      have hs : 0 ≤ s := by simpa [nonneg] using hnn
      have := marks_rangedNormalize s e a b L hL hs h
      simp [normalize, this.1, this.2, h]
  | ambiguous s e, L, _, _, _ => by simp [normalize, rwf]
  | joined ls, L, hL, hw, hnn => by
      have ih := normalizeList_marks_aux ls L hL (by simpa [rwf] using hw) (by simpa [nonneg] using hnn)
      refine ⟨?_, by simpa [normalize] using join_rwf _ ih.2⟩
      intro hk
      simp only [normalizeMarkAbs, Bool.or_eq_false_iff] at hk
      simp only [normalize, marks_joined]
      rw [join_marks _ ih.2 hk.2]
      exact ih.1 hk.1
  | ordered ls, L, hL, hw, hnn => by
      have ih := normalizeList_marks_aux ls L hL (by simpa [rwf] using hw) (by simpa [nonneg] using hnn)
      refine ⟨?_, by simpa [normalize] using order_rwf _ ih.2⟩
      intro hk
      simp only [normalizeMarkAbs] at hk
      simp only [normalize, marks_ordered, order_marks]
      exact ih.1 hk
  | compl l, L, hL, hw, hnn => by
      have ih := normalize_marks_aux l L hL (by simpa [rwf] using hw) (by simpa [nonneg] using hnn)
      refine ⟨?_, by simpa [normalize, rwf] using ih.2⟩
      intro hk
      simp only [normalizeMarkAbs] at hk
      simp only [normalize, marks_compl]
      rw [ih.1 hk]
theorem normalizeList_marks_aux : ∀ (ls : List Loc) (L : Int), 0 < L → rwfList ls = true →
    nonnegList ls = true →
    (normalizeMarkAbsList ls L = false → marksList (normalizeList ls L) = marksList ls) ∧
    rwfList (normalizeList ls L) = true
  | [], _, _, _, _ => by simp [normalizeList]
  | l :: ls, L, hL, hw, hnn => by
      simp only [rwfList_cons, Bool.and_eq_true] at hw
      simp only [nonnegList, Bool.and_eq_true] at hnn
      have h1 := normalize_marks_aux l L hL hw.1 hnn.1
      have h2 := normalizeList_marks_aux ls L hL hw.2 hnn.2
      refine ⟨?_, by simp [normalizeList, h1.2, h2.2]⟩
      intro hk
      simp only [normalizeMarkAbsList, Bool.or_eq_false_iff] at hk
      simp only [normalizeList, marksList_cons]
      rw [h1.1 hk.1, h2.1 hk.2]
end

/-- from `marks` to the oracle's `outerMarks` -/
theorem outerMarks_of_marks {a b : Loc} (h : marks a = marks b) : outerMarks a = outerMarks b := by
  rw [outerMarks_eq, outerMarks_eq, h]

theorem outerMarks_of_marks_swap {a b : Loc} (h : marks a = mswap (marks b)) :
    outerMarks a = ((outerMarks b).2, (outerMarks b).1) := by
  rw [outerMarks_eq, outerMarks_eq, h]
  cases marks b <;> rfl

end Loc
end Gts
