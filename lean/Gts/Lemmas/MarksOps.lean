/-
  Outer partial markers under `Reverse` (they swap ends), `Shift` and `Expand` with `n ≥ 0`
  (Insert / Embed: unchanged) — every kind and arity, by structural induction over the model,
  `Join` through `join_marks`.  Core Lean only.
-/
import Gts.Lemmas.MarksPush
import Gts.Lemmas.Reverse
import Gts.Lemmas.Shift
import Gts.Lemmas.Embed
namespace Gts
namespace Loc

/-! ### Reverse -/

mutual
theorem reverse_marks_aux : ∀ (l : Loc) (L : Int), wf l = true → reverseMarkAbs l L = false →
    marks (reverse l L) = mswap (marks l)
  | between p, L, _, _ => by simp [reverse]
  | point p, L, _, _ => by simp [reverse]
  | ranged s e a b, L, hw, _ => by
      have h : s < e := by simpa [wf] using hw
      have h' : L - e < L - s := by omega
      simp [reverse, rangedReverse, h, h']
  | ambiguous s e, L, _, _ => by simp [reverse]
  | joined ls, L, hw, hk => by
      have hw' : wfList ls = true := by simpa [wf] using hw
      simp only [reverseMarkAbs, Bool.or_eq_false_iff] at hk
      have hwr : wfList (reverseList ls L).reverse = true := by
        rw [wfList_reverse]; exact (reverseList_mirror ls L hw').2
      simp only [reverse, marks_joined]
      rw [join_marks _ hwr hk.2]
      exact reverseList_marks_aux ls L hw' hk.1
  | ordered ls, L, hw, hk => by
      have hw' : wfList ls = true := by simpa [wf] using hw
      simp only [reverseMarkAbs] at hk
      simp only [reverse, marks_ordered, order_marks]
      exact reverseList_marks_aux ls L hw' hk
  | compl l, L, hw, hk => by
      simp only [reverseMarkAbs] at hk
      simp only [reverse, marks_compl]
      rw [reverse_marks_aux l L (by simpa [wf] using hw) hk]
theorem reverseList_marks_aux : ∀ (ls : List Loc) (L : Int), wfList ls = true →
    reverseMarkAbsList ls L = false →
    marksList (reverseList ls L).reverse = mswap (marksList ls)
  | [], _, _, _ => by simp [reverseList]
  | l :: ls, L, hw, hk => by
      simp only [wfList_cons, Bool.and_eq_true] at hw
      simp only [reverseMarkAbsList, Bool.or_eq_false_iff] at hk
      simp only [reverseList, List.reverse_cons, marksList_append, marksList_cons, marksList_nil,
        mcomb_none_right, mswap_mcomb]
      rw [reverse_marks_aux l L hw.1 hk.1, reverseList_marks_aux ls L hw.2 hk.2]
end

/-! ### contiguous kinds under insertion (`n ≥ 0`) -/

theorem marks_betweenExpand (p i n : Int) : marks (betweenExpand p i n) = none := by
  simp [betweenExpand]

theorem marks_pointExpand_ins (p i n : Int) (hn : 0 ≤ n) : marks (pointExpand p i n) = some (false, false) := by
  unfold pointExpand
  rw [if_neg (by omega)]
  simp

theorem marks_rangedShift_ins (s e : Int) (a b : Bool) (i n : Int) (h : s < e) (hn : 0 ≤ n) :
    marks (rangedShift s e a b i n) = some (a, b) := by
  unfold rangedShift
  by_cases h0 : n = 0
  · simp [h0, h]
  · rw [if_neg h0, if_neg (by omega)]
    by_cases hs : s < i ∧ i < e
    · rw [if_pos hs, join_two_ranged_ne _ _ _ _ _ _ _ _ (by omega)]
      have h1 : i + n < e + n := by omega
      simp [hs.1, h1, mcomb]
    · rw [if_neg hs]
      have : (if i ≤ s then s + n else s) < (if i < e then e + n else e) := by
        split <;> split <;> omega
      simp [this]

theorem marks_ambiguousShift_ins (s e i n : Int) (hn : 0 ≤ n) :
    marks (ambiguousShift s e i n) = some (false, false) := by
  unfold ambiguousShift
  by_cases h0 : n = 0
  · simp [h0]
  · rw [if_neg h0, if_neg (by omega)]
    by_cases hs : s < i ∧ i < e
    · rw [if_pos hs, order_two_ambiguous]
      simp [mcomb]
    · rw [if_neg hs]
      simp

theorem marks_rangedExpand_ins (s e : Int) (a b : Bool) (i n : Int) (h : s < e) (hn : 0 ≤ n) :
    marks (rangedExpand s e a b i n) = some (a, b) := by
  by_cases h0 : n = 0
  · simp [rangedExpand, h0, h]
  · rw [rangedExpand_ins_eq s e a b i n h (by omega)]
    have : (if i ≤ s then s + n else s) < (if i < e then e + n else e) := by
      split <;> split <;> omega
    simp [this]

theorem marks_ambiguousExpand_ins (s e i n : Int) (h : s < e) (hn : 0 ≤ n) :
    marks (ambiguousExpand s e i n) = some (false, false) := by
  by_cases h0 : n = 0
  · simp [ambiguousExpand, h0]
  · rw [ambiguousExpand_ins_eq s e i n h (by omega)]
    simp

/-! ### Shift (Insert) -/

mutual
theorem shift_marks_aux : ∀ (l : Loc) (i n : Int), wf l = true → 0 ≤ n →
    shiftMarkAbs l i n = false → marks (shift l i n) = marks l
  | between p, i, n, _, _, _ => by simp [shift, marks_betweenExpand]
  | point p, i, n, _, hn, _ => by simp [shift, marks_pointExpand_ins p i n hn]
  | ranged s e a b, i, n, hw, hn, _ => by
      have h : s < e := by simpa [wf] using hw
      simp [shift, marks_rangedShift_ins s e a b i n h hn, h]
  | ambiguous s e, i, n, _, hn, _ => by simp [shift, marks_ambiguousShift_ins s e i n hn]
  | joined ls, i, n, hw, hn, hk => by
      have hw' : wfList ls = true := by simpa [wf] using hw
      simp only [shiftMarkAbs, Bool.or_eq_false_iff] at hk
      simp only [shift, marks_joined]
      rw [join_marks _ (shiftList_ins ls i n hw' hn).2 hk.2]
      exact shiftList_marks_aux ls i n hw' hn hk.1
  | ordered ls, i, n, hw, hn, hk => by
      have hw' : wfList ls = true := by simpa [wf] using hw
      simp only [shiftMarkAbs] at hk
      simp only [shift, marks_ordered, order_marks]
      exact shiftList_marks_aux ls i n hw' hn hk
  | compl l, i, n, hw, hn, hk => by
      simp only [shiftMarkAbs] at hk
      simp only [shift, marks_compl]
      rw [shift_marks_aux l i n (by simpa [wf] using hw) hn hk]
theorem shiftList_marks_aux : ∀ (ls : List Loc) (i n : Int), wfList ls = true → 0 ≤ n →
    shiftMarkAbsList ls i n = false → marksList (shiftList ls i n) = marksList ls
  | [], _, _, _, _, _ => by simp [shiftList]
  | l :: ls, i, n, hw, hn, hk => by
      simp only [wfList_cons, Bool.and_eq_true] at hw
      simp only [shiftMarkAbsList, Bool.or_eq_false_iff] at hk
      simp only [shiftList, marksList_cons]
      rw [shift_marks_aux l i n hw.1 hn hk.1, shiftList_marks_aux ls i n hw.2 hn hk.2]
end

/-! ### Expand with `n ≥ 0` (Embed, and the translation step of Rotate) -/

mutual
theorem expand_ins_marks_aux : ∀ (l : Loc) (i n : Int), wf l = true → 0 ≤ n →
    expandMarkAbs l i n = false → marks (expand l i n) = marks l
  | between p, i, n, _, _, _ => by simp [expand, marks_betweenExpand]
  | point p, i, n, _, hn, _ => by simp [expand, marks_pointExpand_ins p i n hn]
  | ranged s e a b, i, n, hw, hn, _ => by
      have h : s < e := by simpa [wf] using hw
      simp [expand, marks_rangedExpand_ins s e a b i n h hn, h]
  | ambiguous s e, i, n, hw, hn, _ => by
      have h : s < e := by simpa [wf] using hw
      simp [expand, marks_ambiguousExpand_ins s e i n h hn]
  | joined ls, i, n, hw, hn, hk => by
      have hw' : wfList ls = true := by simpa [wf] using hw
      simp only [expandMarkAbs, Bool.or_eq_false_iff] at hk
      simp only [expand, marks_joined]
      rw [join_marks _ (expandList_ins ls i n hw' hn).2 hk.2]
      exact expandList_ins_marks_aux ls i n hw' hn hk.1
  | ordered ls, i, n, hw, hn, hk => by
      have hw' : wfList ls = true := by simpa [wf] using hw
      simp only [expandMarkAbs] at hk
      simp only [expand, marks_ordered, order_marks]
      exact expandList_ins_marks_aux ls i n hw' hn hk
  | compl l, i, n, hw, hn, hk => by
      simp only [expandMarkAbs] at hk
      simp only [expand, marks_compl]
      rw [expand_ins_marks_aux l i n (by simpa [wf] using hw) hn hk]
theorem expandList_ins_marks_aux : ∀ (ls : List Loc) (i n : Int), wfList ls = true → 0 ≤ n →
    expandMarkAbsList ls i n = false → marksList (expandList ls i n) = marksList ls
  | [], _, _, _, _, _ => by simp [expandList]
  | l :: ls, i, n, hw, hn, hk => by
      simp only [wfList_cons, Bool.and_eq_true] at hw
      simp only [expandMarkAbsList, Bool.or_eq_false_iff] at hk
      simp only [expandList, marksList_cons]
      rw [expand_ins_marks_aux l i n hw.1 hn hk.1, expandList_ins_marks_aux ls i n hw.2 hn hk.2]
end

/-- from `marks` to the oracle's `outerMarks` -/
theorem outerMarks_of_marks {a b : Loc} (h : marks a = marks b) : outerMarks a = outerMarks b := by
  rw [outerMarks_eq, outerMarks_eq, h]

theorem outerMarks_of_marks_swap {a b : Loc} (h : marks a = mswap (marks b)) :
    outerMarks a = ((outerMarks b).2, (outerMarks b).1) := by
  rw [outerMarks_eq, outerMarks_eq, h]
  cases marks b <;> rfl

end Loc
end Gts
