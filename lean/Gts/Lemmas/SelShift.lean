/-
  C07: `shiftSelector` (feature.go:188-203) with Go's index arithmetic made explicit — the index
  expression `s[i]` and the slice expressions `s[:i]`, `s[i+1:]` are checked reads that answer
  `.panic` when out of range — never panics and computes what the structural model
  `shiftSelectorGo` (Gts/Model/Locator.lean) computes.  The loop of `Selector`
  (`for tail != ""`) terminates because every `shiftSelector` call on a non-empty string returns a
  strictly shorter tail; the fuel `tail.length + 1` used by `selectorParts` is adequate.
  Core Lean only.
-/
import Gts.Model.Locator
namespace Gts
open Pars

/-- `shiftSelector(s)` from loop index `i` with escape flag `esc`, index by index -/
def shiftIdx (s : Bytes) (i : Nat) (esc : Bool) : Except Err (Bytes × Bytes) :=
  if _h : i < s.length then               -- loop condition `i < len(s)`
    match s[i]? with                     -- `s[i]`
    | none => .error .panic
    | some c =>
      if c = 92 then shiftIdx s (i + 1) true
      else if c = 47 then
        if !esc then
          -- `s[:i]`, `s[i+1:]`
          if i ≤ s.length ∧ i + 1 ≤ s.length then .ok (s.take i, s.drop (i + 1)) else .error .panic
        else shiftIdx s (i + 1) esc
      else shiftIdx s (i + 1) false
  else .ok (s, [])
termination_by s.length - i

theorem shiftIdx_eq (s : Bytes) : ∀ (k i : Nat) (esc : Bool), s.length - i = k →
    shiftIdx s i esc =
      .ok ((s.take i ++ (shiftSelectorGo (s.drop i) esc).1), (shiftSelectorGo (s.drop i) esc).2) := by
  intro k
  induction k with
  | zero =>
    intro i esc hk
    have hi : ¬ i < s.length := by omega
    rw [shiftIdx, dif_neg hi]
    have h1 : s.drop i = [] := List.drop_eq_nil_of_le (by omega)
    have h2 : s.take i = s := List.take_of_length_le (by omega)
    rw [h1, h2]; simp [shiftSelectorGo]
  | succ k ih =>
    intro i esc hk
    have hi : i < s.length := by omega
    have hget : s[i]? = some s[i] := List.getElem?_eq_getElem hi
    have hdrop : s.drop i = s[i] :: s.drop (i + 1) := (List.drop_eq_getElem_cons hi)
    have htake : s.take (i + 1) = s.take i ++ [s[i]] := by
      rw [List.take_add_one, hget]; rfl
    rw [shiftIdx, dif_pos hi, hget]
    dsimp only
    rw [hdrop, shiftSelectorGo]
    by_cases h92 : s[i] = 92
    · rw [if_pos h92, if_pos h92, ih (i + 1) true (by omega), htake]
      simp only [List.append_assoc, List.singleton_append]
    · rw [if_neg h92, if_neg h92]
      by_cases h47 : s[i] = 47
      · rw [if_pos h47, if_pos h47]
        cases esc with
        | false =>
          have : i ≤ s.length ∧ i + 1 ≤ s.length := ⟨by omega, by omega⟩
          simp [this]
        | true =>
          simp only [Bool.not_true, Bool.false_eq_true, if_false]
          rw [ih (i + 1) true (by omega), htake]
          simp only [List.append_assoc, List.singleton_append]
      · rw [if_neg h47, if_neg h47, ih (i + 1) false (by omega), htake]
        simp only [List.append_assoc, List.singleton_append]

/-- `shiftSelector(s)` never panics, and is the structural model -/
theorem shiftIdx_ok (s : Bytes) : shiftIdx s 0 false = .ok (shiftSelectorB s) := by
  rw [shiftIdx_eq s _ 0 false rfl]
  simp [shiftSelectorB]

/-- the tail returned by `shiftSelector` is never longer than the input, and strictly shorter for a
non-empty input: the measure of the loop `for tail != ""` in `Selector` -/
theorem shiftSelectorGo_tail_le : ∀ (s : Bytes) (esc : Bool), (shiftSelectorGo s esc).2.length ≤ s.length
  | [], _ => by simp [shiftSelectorGo]
  | c :: r, esc => by
    rw [shiftSelectorGo]
    have ih1 := shiftSelectorGo_tail_le r true
    have ih2 := shiftSelectorGo_tail_le r esc
    have ih3 := shiftSelectorGo_tail_le r false
    by_cases h92 : c = 92
    · simp only [h92, if_true, List.length_cons]; omega
    · by_cases h47 : c = 47
      · cases esc <;> simp [h92, h47] <;> omega
      · simp only [h92, h47, if_false, List.length_cons]; omega

theorem shiftSelectorB_tail_lt (c : UInt8) (r : Bytes) :
    (shiftSelectorB (c :: r)).2.length < (c :: r).length := by
  unfold shiftSelectorB
  rw [shiftSelectorGo]
  have ih1 := shiftSelectorGo_tail_le r true
  have ih3 := shiftSelectorGo_tail_le r false
  by_cases h92 : c = 92
  · simp only [h92, if_true, List.length_cons]; omega
  · by_cases h47 : c = 47
    · simp [h92, h47]
    · simp only [h92, h47, if_false, List.length_cons]; omega

/-- fuel adequacy of the `Selector` loop: with `fuel > tail.length` more fuel changes nothing -/
theorem selectorParts_fuel : ∀ (n m : Nat) (tl : Bytes), tl.length < n → tl.length < m →
    selectorParts n tl = selectorParts m tl
  | 0, _, _, h, _ => absurd h (Nat.not_lt_zero _)
  | _ + 1, 0, _, _, h => absurd h (Nat.not_lt_zero _)
  | n + 1, m + 1, tl, hn, hm => by
    rw [selectorParts, selectorParts]
    cases tl with
    | nil => rfl
    | cons c r =>
      have hlt := shiftSelectorB_tail_lt c r
      simp only [List.isEmpty_cons, Bool.false_eq_true, if_false]
      rw [selectorParts_fuel n m _ (by omega) (by omega)]

end Gts
