/-
  C01 helper lemmas for the byte fixed point `write (readBack r) = write r`, part 1: `Props`.
  A `Props` whose rows all have a name and whose names are pairwise distinct (`propsDistinct`:
  what `Props.Set` / `Props.Add` build — rows WITHOUT a value are allowed, they are written as
  nothing and do not come back) is read back as `readProps`: the rows that carry a value, every
  value as `readValue`; the items of that `Props` are the items that were read.  Core Lean only.
-/
import Gts.Lemmas.GbProps
namespace Gts.GenBank
open Gts.Pars

/-- every row has a name and the names are pairwise distinct -/
def propsDistinct (ps : List (List Bytes)) : Bool :=
  propsOk ps && distinctB (ps.map fun row => row.headD [])

theorem distinctB_nodup (xs : List Bytes) : distinctB xs = true ↔ xs.Nodup := by
  induction xs with
  | nil => simp [distinctB]
  | cons x xs ih =>
    simp only [distinctB, Bool.and_eq_true, Bool.not_eq_true', List.nodup_cons, ih]
    constructor
    · rintro ⟨h1, h2⟩
      refine ⟨fun hm => ?_, h2⟩
      rw [List.contains_iff_mem.mpr hm] at h1; cases h1
    · rintro ⟨h1, h2⟩
      refine ⟨?_, h2⟩
      cases hc : xs.contains x with
      | false => rfl
      | true => exact absurd (List.contains_iff_mem.mp hc) h1

theorem propsOk_ne (ps : List (List Bytes)) (h : propsOk ps = true) : ∀ r ∈ ps, r ≠ [] := by
  simp only [propsOk, List.all_eq_true, Bool.not_eq_true', List.isEmpty_eq_false_iff] at h
  exact h

theorem propsItems_rows' (ps : List (List Bytes)) (_h : propsDistinct ps = true) :
    propsItems ps = ps.flatMap rowItems := propsItems_eq ps

/-- a row with every value as it is read back -/
def readRow (reg : Registry) : List Bytes → List Bytes
  | [] => []
  | key :: vs => key :: vs.map (readValue reg key)

/-- the `Props` that comes back: the rows that carry a value -/
def readProps (reg : Registry) (ps : List (List Bytes)) : List (List Bytes) :=
  (ps.map (readRow reg)).filter fun row => decide (2 ≤ row.length)

theorem rowItems_readRow (reg : Registry) (row : List Bytes) :
    rowItems (readRow reg row) = (rowItems row).map fun kv => (kv.1, readValue reg kv.1 kv.2) := by
  cases row with
  | nil => rfl
  | cons key vs => simp [readRow, rowItems, List.map_map, Function.comp_def]

theorem readRow_head (reg : Registry) (row : List Bytes) : (readRow reg row).headD [] = row.headD [] := by
  cases row <;> rfl

theorem rowItems_short (row : List Bytes) (h : ¬ 2 ≤ row.length) : rowItems row = [] := by
  match row with
  | [] => rfl
  | [_] => rfl
  | _ :: _ :: _ => simp at h

theorem flatMap_rowItems_filter (rows : List (List Bytes)) :
    (rows.filter fun row => decide (2 ≤ row.length)).flatMap rowItems = rows.flatMap rowItems := by
  induction rows with
  | nil => rfl
  | cons row rows ih =>
    by_cases h : 2 ≤ row.length
    · simp [h, ih]
    · simp [h, ih, rowItems_short row h]

theorem readItems_rows (reg : Registry) (ps : List (List Bytes)) (h : propsDistinct ps = true) :
    readItems reg ps = (readProps reg ps).flatMap rowItems := by
  unfold readItems readProps
  rw [propsItems_rows' ps h, flatMap_rowItems_filter, List.flatMap_map, List.map_flatMap]
  congr 1
  funext row
  exact (rowItems_readRow reg row).symm

theorem readProps_norm (reg : Registry) (ps : List (List Bytes)) (h : propsDistinct ps = true) :
    propsNorm (readProps reg ps) = true := by
  simp only [propsDistinct, Bool.and_eq_true] at h
  simp only [propsNorm, Bool.and_eq_true, List.all_eq_true]
  refine ⟨fun row hrow => ?_, ?_⟩
  · simp only [readProps, List.mem_filter] at hrow
    exact hrow.2
  · rw [distinctB_nodup]
    have hnd := (distinctB_nodup _).mp h.2
    have e : (ps.map (readRow reg)).map (fun row => row.headD []) = ps.map fun row => row.headD [] := by
      rw [List.map_map]
      exact List.map_congr_left fun row _ => readRow_head reg row
    rw [← e] at hnd
    exact List.Nodup.sublist (List.Sublist.map _ List.filter_sublist) hnd

/-- **the `Props` that comes back** for distinct names: the read items, added back one by one,
build `readProps` -/
theorem propsOfItems_readItems (reg : Registry) (ps : List (List Bytes)) (h : propsDistinct ps = true) :
    propsOfItems (readItems reg ps) = readProps reg ps := by
  have hn := readProps_norm reg ps h
  rw [readItems_rows reg ps h, ← propsItems_rows _ hn]
  exact propsOfItems_propsItems _ hn

/-- … and its items are the items that were read -/
theorem propsItems_readProps (reg : Registry) (ps : List (List Bytes)) (h : propsDistinct ps = true) :
    propsItems (readProps reg ps) = readItems reg ps := by
  rw [propsItems_rows _ (readProps_norm reg ps h), readItems_rows reg ps h]

theorem propsNorm_ok (ps : List (List Bytes)) (h : propsNorm ps = true) : propsOk ps = true := by
  simp only [propsNorm, Bool.and_eq_true, List.all_eq_true, decide_eq_true_eq] at h
  simp only [propsOk, List.all_eq_true, Bool.not_eq_true', List.isEmpty_eq_false_iff]
  intro r hr e
  have := h.1 r hr
  subst e; simp at this

theorem propsNorm_distinct (ps : List (List Bytes)) (h : propsNorm ps = true) : propsDistinct ps = true := by
  have h1 := propsNorm_ok ps h
  simp only [propsNorm, Bool.and_eq_true] at h
  simp only [propsDistinct, h1, h.2, Bool.and_self]

theorem readFeature_props (reg : Registry) (f : QFeature) (h : propsDistinct f.props = true) :
    readFeature reg f = ⟨f.key, f.loc, readProps reg f.props⟩ := by
  simp only [readFeature, propsOfItems_readItems reg f.props h]

/-! ### what `Props.Add` builds, whatever the items -/

theorem heads_propsAdd (ps : List (List Bytes)) (k v : Bytes) (hne : ∀ r ∈ ps, r ≠ []) :
    ∀ h ∈ (propsAdd ps k v).map (fun row => row.headD []), h ∈ ps.map (fun row => row.headD []) ∨ h = k := by
  induction ps with
  | nil => intro h hh; simp [propsAdd] at hh; exact Or.inr hh
  | cons row rest ih =>
    intro h hh
    simp only [propsAdd] at hh
    split at hh
    · rename_i hk
      left
      have : (row ++ [v]).headD [] = row.headD [] := by
        cases row with
        | nil => exact absurd rfl (hne [] (by simp))
        | cons a b => rfl
      simp only [List.map_cons, List.mem_cons, this] at hh ⊢
      exact hh
    · simp only [List.map_cons, List.mem_cons] at hh ⊢
      rcases hh with hh | hh
      · exact Or.inl (Or.inl hh)
      · rcases ih (fun r hr => hne r (by simp [hr])) h hh with h1 | h1
        · exact Or.inl (Or.inr h1)
        · exact Or.inr h1

theorem propsAdd_norm (ps : List (List Bytes)) (k v : Bytes) (h : propsNorm ps = true) :
    propsNorm (propsAdd ps k v) = true := by
  induction ps with
  | nil => simp [propsAdd, propsNorm, distinctB]
  | cons row rest ih =>
    have hrest : propsNorm rest = true := by
      simp only [propsNorm, List.all_cons, List.map_cons, distinctB, Bool.and_eq_true] at h ⊢
      exact ⟨h.1.2, h.2.2⟩
    have hne : ∀ r ∈ rest, r ≠ [] := propsOk_ne rest (propsNorm_ok rest hrest)
    simp only [propsNorm, List.all_cons, List.map_cons, Bool.and_eq_true, decide_eq_true_eq] at h
    obtain ⟨⟨hlen, hall⟩, hd⟩ := h
    rw [distinctB_nodup, List.nodup_cons] at hd
    simp only [propsAdd]
    split
    · rename_i hk
      have hhead : (row ++ [v]).headD [] = row.headD [] := by
        cases row with
        | nil => simp at hlen
        | cons a b => rfl
      simp only [propsNorm, List.all_cons, List.map_cons, Bool.and_eq_true, decide_eq_true_eq, hhead,
        List.length_append, List.length_cons, List.length_nil]
      refine ⟨⟨by omega, hall⟩, ?_⟩
      rw [distinctB_nodup, List.nodup_cons]
      exact hd
    · rename_i hk
      have ih' := ih hrest
      simp only [propsNorm, Bool.and_eq_true] at ih'
      simp only [propsNorm, List.all_cons, List.map_cons, Bool.and_eq_true, decide_eq_true_eq]
      refine ⟨⟨hlen, ih'.1⟩, ?_⟩
      rw [distinctB_nodup, List.nodup_cons]
      refine ⟨?_, (distinctB_nodup _).mp ih'.2⟩
      intro hm
      rcases heads_propsAdd rest k v hne _ hm with h1 | h1
      · exact hd.1 h1
      · apply hk
        cases row with
        | nil => simp at hlen
        | cons a b => simp at h1 ⊢; exact h1

/-- every `Props` the reader builds is what `Props.Add` builds -/
theorem propsOfItems_norm (qs : List (Bytes × Bytes)) : propsNorm (propsOfItems qs) = true := by
  unfold propsOfItems
  suffices hs : ∀ acc, propsNorm acc = true → propsNorm (qs.foldl (fun ps q => propsAdd ps q.1 q.2) acc) = true from
    hs [] (by simp [propsNorm, distinctB])
  induction qs with
  | nil => intro acc h; exact h
  | cons q qs ih => intro acc h; exact ih _ (propsAdd_norm acc q.1 q.2 h)

/-- every value of every row satisfies `Q name value` -/
def RowsQ (Q : Bytes → Bytes → Prop) (ps : List (List Bytes)) : Prop :=
  ∀ row ∈ ps, ∀ w ∈ row.tail, Q (row.headD []) w

theorem propsAdd_rowsQ (Q : Bytes → Bytes → Prop) (ps : List (List Bytes)) (k v : Bytes)
    (h : RowsQ Q ps) (hq : Q k v) : RowsQ Q (propsAdd ps k v) := by
  induction ps with
  | nil =>
    intro row hrow w hw
    simp only [propsAdd, List.mem_singleton] at hrow
    subst hrow
    simp only [List.tail_cons, List.mem_singleton] at hw
    subst hw
    exact hq
  | cons r rest ih =>
    have hrest : RowsQ Q rest := fun row hrow => h row (by simp [hrow])
    simp only [propsAdd]
    split
    · rename_i hk
      intro row hrow w hw
      rcases List.mem_cons.mp hrow with rfl | hrow
      · cases r with
        | nil => simp at hk
        | cons a b =>
          simp only [List.head?_cons, Option.some.injEq] at hk
          subst hk
          simp only [List.cons_append, List.tail_cons, List.mem_append, List.mem_singleton] at hw
          rcases hw with hw | hw
          · exact h (a :: b) (by simp) w hw
          · subst hw; exact hq
      · exact hrest row hrow w hw
    · intro row hrow w hw
      rcases List.mem_cons.mp hrow with rfl | hrow
      · exact h row (by simp) w hw
      · exact ih hrest row hrow w hw

theorem propsOfItems_rowsQ (Q : Bytes → Bytes → Prop) (qs : List (Bytes × Bytes)) (h : ∀ q ∈ qs, Q q.1 q.2) :
    RowsQ Q (propsOfItems qs) := by
  unfold propsOfItems
  suffices hs : ∀ acc, RowsQ Q acc → RowsQ Q (qs.foldl (fun ps q => propsAdd ps q.1 q.2) acc) from
    hs [] (fun row hrow => by simp at hrow)
  induction qs with
  | nil => intro acc ha; exact ha
  | cons q qs ih =>
    intro acc ha
    exact ih (fun x hx => h x (by simp [hx])) _ (propsAdd_rowsQ Q acc q.1 q.2 ha (h q (by simp)))

theorem rowsQ_items (Q : Bytes → Bytes → Prop) (ps : List (List Bytes)) (h : RowsQ Q ps) :
    ∀ kv ∈ ps.flatMap rowItems, Q kv.1 kv.2 := by
  intro kv hkv
  obtain ⟨row, hrow, hkv⟩ := List.mem_flatMap.mp hkv
  cases row with
  | nil => simp [rowItems] at hkv
  | cons key vs =>
    simp only [rowItems, List.mem_map] at hkv
    obtain ⟨v, hv, rfl⟩ := hkv
    exact h (key :: vs) hrow v hv

/-! ### items of one name consecutive: what `Props.Add` does not reorder -/

/-- equal keys are consecutive: once a run of `k` is over, `k` does not come back -/
def groupedKeys : List Bytes → Bool
  | [] => true
  | k :: ks => !((ks.dropWhile (· == k)).contains k) && groupedKeys ks

/-- every row has a name, and the written items of one name are consecutive (rows of one name are
adjacent; rows without a value do not count) -/
def propsAdjacent (ps : List (List Bytes)) : Bool :=
  propsOk ps && groupedKeys ((propsItems ps).map (·.1))

theorem mem_of_mem_dropWhile' (p : Bytes → Bool) (l : List Bytes) (x : Bytes) (h : x ∈ l.dropWhile p) : x ∈ l :=
  (List.dropWhile_sublist p).subset h

theorem groupedKeys_suffix (a b : List Bytes) (h : groupedKeys (a ++ b) = true) : groupedKeys b = true := by
  induction a with
  | nil => exact h
  | cons x a ih =>
    simp only [List.cons_append, groupedKeys, Bool.and_eq_true] at h
    exact ih h.2

theorem dropWhile_keep (k h : Bytes) (hne : h ≠ k) (B C : List Bytes) :
    ∃ D, (B ++ h :: C).dropWhile (· == k) = D ++ h :: C := by
  induction B with
  | nil =>
    refine ⟨[], ?_⟩
    have : (h == k) = false := by simpa using hne
    simp [this]
  | cons b B ih =>
    by_cases hb : (b == k) = true
    · obtain ⟨D, hD⟩ := ih
      exact ⟨D, by simp [hb, hD]⟩
    · exact ⟨b :: B, by simp [hb]⟩

/-- once another key has been seen behind `k`, `k` does not come back -/
theorem grouped_no_return (A B C : List Bytes) (k h : Bytes) (hne : h ≠ k)
    (hg : groupedKeys (A ++ k :: (B ++ h :: C)) = true) : k ∉ C := by
  have h1 := groupedKeys_suffix A _ hg
  simp only [groupedKeys, Bool.and_eq_true, Bool.not_eq_true'] at h1
  obtain ⟨D, hD⟩ := dropWhile_keep k h hne B C
  intro hk
  have : ((B ++ h :: C).dropWhile (· == k)).contains k = true := by
    rw [hD]
    exact List.contains_iff_mem.mpr (by simp [hk])
  rw [this] at h1
  exact absurd h1.1 (by simp)

theorem dropWhile_replicate (k : Bytes) (n : Nat) (l : List Bytes) :
    (List.replicate n k ++ l).dropWhile (· == k) = l.dropWhile (· == k) := by
  induction n with
  | zero => rfl
  | succ n ih => simp [List.replicate_succ, ih]

theorem grouped_replicate_append (k : Bytes) (n : Nat) (rest : List Bytes) (hr : groupedKeys rest = true)
    (hk : k ∉ rest) : groupedKeys (List.replicate n k ++ rest) = true := by
  induction n with
  | zero => exact hr
  | succ n ih =>
    simp only [List.replicate_succ, List.cons_append, groupedKeys, Bool.and_eq_true, Bool.not_eq_true', ih, and_true]
    rw [dropWhile_replicate]
    cases hc : (rest.dropWhile (· == k)).contains k with
    | false => rfl
    | true => exact absurd (mem_of_mem_dropWhile' _ _ _ (List.contains_iff_mem.mp hc)) hk

theorem rowItems_keys (row : List Bytes) :
    (rowItems row).map (·.1) = List.replicate (row.length - 1) (row.headD []) := by
  cases row with
  | nil => rfl
  | cons key vs => simp [rowItems, List.map_map, Function.comp_def, List.map_const']

theorem mem_items_keys (ps : List (List Bytes)) (k : Bytes) (h : k ∈ (ps.flatMap rowItems).map (·.1)) :
    k ∈ ps.map fun row => row.headD [] := by
  simp only [List.map_flatMap, List.mem_flatMap] at h
  obtain ⟨row, hrow, hk⟩ := h
  rw [rowItems_keys] at hk
  exact List.mem_map.mpr ⟨row, hrow, (List.eq_of_mem_replicate hk).symm⟩

/-- distinct row names are the special case -/
theorem propsAdjacent_of_distinct (ps : List (List Bytes)) (h : propsDistinct ps = true) :
    propsAdjacent ps = true := by
  simp only [propsDistinct, Bool.and_eq_true] at h
  simp only [propsAdjacent, Bool.and_eq_true, h.1, true_and]
  rw [propsItems_eq]
  have hnd := (distinctB_nodup _).mp h.2
  clear h
  induction ps with
  | nil => rfl
  | cons row ps ih =>
    simp only [List.map_cons, List.nodup_cons] at hnd
    simp only [List.flatMap_cons, List.map_append, rowItems_keys]
    exact grouped_replicate_append _ _ _ (ih hnd.2) (fun hk => hnd.1 (mem_items_keys ps _ hk))

theorem propsItems_append (a b : List (List Bytes)) : propsItems (a ++ b) = propsItems a ++ propsItems b := by
  simp [propsItems_eq, List.flatMap_append]

/-- one `Props.Add` behind grouped items appends the item -/
theorem propsItems_propsAdd (acc : List (List Bytes)) (k v : Bytes) (rest : List Bytes)
    (hn : propsNorm acc = true)
    (hg : groupedKeys ((propsItems acc).map (·.1) ++ k :: rest) = true) :
    propsItems (propsAdd acc k v) = propsItems acc ++ [(k, v)] := by
  by_cases hk : ∀ r ∈ acc, r.head? ≠ some k
  · rw [propsAdd_new acc k v hk, propsItems_append]
    simp [propsItems_eq, rowItems]
  · have hne := propsOk_ne acc (propsNorm_ok acc hn)
    simp only [propsNorm, Bool.and_eq_true, List.all_eq_true, decide_eq_true_eq] at hn
    obtain ⟨hlen, hd⟩ := hn
    rcases List.eq_nil_or_concat acc with hnil | ⟨init, last, hacc⟩
    · subst hnil; exact absurd (fun r hr => by simp at hr) hk
    · rw [List.concat_eq_append] at hacc
      subst hacc
      have hl2 := hlen last (by simp)
      match last, hl2 with
      | h :: w :: ws, _ =>
        have hinit : ∀ r ∈ init, r.head? ≠ some h :=
          distinct_heads init (h :: w :: ws) [] h (w :: ws) rfl hd (fun r hr => hne r (by simp [hr]))
        by_cases hhk : h = k
        · subst hhk
          rw [propsAdd_last init h v (w :: ws) hinit, propsItems_append, propsItems_append]
          simp [propsItems_eq, rowItems, List.append_assoc]
        · exfalso
          -- the row named `k` is in `init`; behind its items come the items of the last row, named `h`
          have hex : ∃ r ∈ init, r.head? = some k := by
            apply Classical.byContradiction
            intro hno
            apply hk
            intro r hr
            rcases List.mem_append.mp hr with hr | hr
            · exact fun e => hno ⟨r, hr, e⟩
            · simp only [List.mem_singleton] at hr
              subst hr
              simpa using hhk
          obtain ⟨r, hr, hrk⟩ := hex
          have hr2 := hlen r (by simp [hr])
          match r, hr2, hrk with
          | k' :: w' :: ws', _, hrk =>
            simp only [List.head?_cons, Option.some.injEq] at hrk
            subst hrk
            have hmem : k' ∈ (propsItems init).map (·.1) := by
              rw [propsItems_eq]
              apply List.mem_map.mpr
              exact ⟨(k', w'), List.mem_flatMap.mpr ⟨_, hr, by simp [rowItems]⟩, rfl⟩
            obtain ⟨A, B, hAB⟩ := List.append_of_mem hmem
            have hlast : (propsItems [h :: w :: ws]).map (·.1) = h :: List.replicate ws.length h := by
              simp [propsItems_eq, rowItems, Function.comp_def, List.map_const']
            rw [propsItems_append, List.map_append, hAB, hlast] at hg
            have e : (A ++ k' :: B) ++ (h :: List.replicate ws.length h) ++ k' :: rest =
                A ++ k' :: (B ++ h :: (List.replicate ws.length h ++ k' :: rest)) := by
              simp [List.append_assoc]
            rw [e] at hg
            exact grouped_no_return A B _ k' h hhk hg (by simp)

/-- **`Props.Add` does not reorder grouped items**: the items of what the reader builds from items
whose equal names are consecutive are those items, in their order -/
theorem propsItems_propsOfItems (qs : List (Bytes × Bytes)) (hg : groupedKeys (qs.map (·.1)) = true) :
    propsItems (propsOfItems qs) = qs := by
  unfold propsOfItems
  suffices hs : ∀ acc, propsNorm acc = true → groupedKeys ((propsItems acc ++ qs).map (·.1)) = true →
      propsItems (qs.foldl (fun ps q => propsAdd ps q.1 q.2) acc) = propsItems acc ++ qs by
    have := hs [] (by simp [propsNorm, distinctB]) (by simpa [propsItems] using hg)
    simpa [propsItems] using this
  clear hg
  induction qs with
  | nil => intro acc _ _; simp
  | cons q qs ih =>
    intro acc hn hg
    simp only [List.foldl_cons]
    have hstep := propsItems_propsAdd acc q.1 q.2 (qs.map (·.1)) hn (by simpa using hg)
    rw [ih _ (propsAdd_norm acc q.1 q.2 hn) (by rw [hstep]; simpa [List.append_assoc] using hg), hstep]
    simp [List.append_assoc]

end Gts.GenBank
