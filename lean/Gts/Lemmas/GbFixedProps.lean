/-
  C01 helper lemmas for the byte fixed point `write (readBack r) = write r`, part 1: `Props`.
  A `Props` whose rows all have a name and whose names are pairwise distinct (`propsDistinct`:
  what `Props.Set` / `Props.Add` build — rows WITHOUT a value are allowed, they are written as
  nothing and do not come back) is read back as `readProps`: the rows that carry a value, every
  value as `readValue`; the items of that `Props` are the items that were read.  Core Lean only.
-/
import Gts.Lemmas.GbProps
namespace Gts.GenBank
open Gts.Pars

/-- every row has a name and the names are pairwise distinct -/
def propsDistinct (ps : List (List Bytes)) : Bool :=
  propsOk ps && distinctB (ps.map fun row => row.headD [])

theorem distinctB_nodup (xs : List Bytes) : distinctB xs = true ↔ xs.Nodup := by
  induction xs with
  | nil => simp [distinctB]
  | cons x xs ih =>
    simp only [distinctB, Bool.and_eq_true, Bool.not_eq_true', List.nodup_cons, ih]
    constructor
    · rintro ⟨h1, h2⟩
      refine ⟨fun hm => ?_, h2⟩
      rw [List.contains_iff_mem.mpr hm] at h1; cases h1
    · rintro ⟨h1, h2⟩
      refine ⟨?_, h2⟩
      cases hc : xs.contains x with
      | false => rfl
      | true => exact absurd (List.contains_iff_mem.mp hc) h1

theorem propsOk_ne (ps : List (List Bytes)) (h : propsOk ps = true) : ∀ r ∈ ps, r ≠ [] := by
  simp only [propsOk, List.all_eq_true, Bool.not_eq_true', List.isEmpty_eq_false_iff] at h
  exact h

/-- `propsItems_rows` needs only names and their distinctness -/
theorem propsItems_rows' (ps : List (List Bytes)) (h : propsDistinct ps = true) :
    propsItems ps = ps.flatMap rowItems := by
  simp only [propsDistinct, Bool.and_eq_true] at h
  obtain ⟨hok, hd⟩ := h
  have hne0 := propsOk_ne ps hok
  unfold propsItems
  suffices hs : ∀ (pre post : List (List Bytes)), ps = pre ++ post →
      (post.flatMap fun row => match row with
        | [] => []
        | key :: _ => (propsGet ps key).map fun v => (key, v)) = post.flatMap rowItems from hs [] ps rfl
  intro pre post
  induction post generalizing pre with
  | nil => intro _; rfl
  | cons row post ih =>
    intro hps
    simp only [List.flatMap_cons]
    rw [ih (pre ++ [row]) (by simp [hps])]
    congr 1
    cases row with
    | nil => rfl
    | cons key vs =>
      have hne : ∀ r ∈ pre, r ≠ [] := fun r hr => hne0 r (by rw [hps]; simp [hr])
      have hpre := distinct_heads pre (key :: vs) post key vs rfl (by rw [← hps]; exact hd) hne
      simp only [rowItems]
      rw [hps, propsGet_row pre post key vs hpre]

/-- a row with every value as it is read back -/
def readRow (reg : Registry) : List Bytes → List Bytes
  | [] => []
  | key :: vs => key :: vs.map (readValue reg key)

/-- the `Props` that comes back: the rows that carry a value -/
def readProps (reg : Registry) (ps : List (List Bytes)) : List (List Bytes) :=
  (ps.map (readRow reg)).filter fun row => decide (2 ≤ row.length)

theorem rowItems_readRow (reg : Registry) (row : List Bytes) :
    rowItems (readRow reg row) = (rowItems row).map fun kv => (kv.1, readValue reg kv.1 kv.2) := by
  cases row with
  | nil => rfl
  | cons key vs => simp [readRow, rowItems, List.map_map, Function.comp_def]

theorem readRow_head (reg : Registry) (row : List Bytes) : (readRow reg row).headD [] = row.headD [] := by
  cases row <;> rfl

theorem rowItems_short (row : List Bytes) (h : ¬ 2 ≤ row.length) : rowItems row = [] := by
  match row with
  | [] => rfl
  | [_] => rfl
  | _ :: _ :: _ => simp at h

theorem flatMap_rowItems_filter (rows : List (List Bytes)) :
    (rows.filter fun row => decide (2 ≤ row.length)).flatMap rowItems = rows.flatMap rowItems := by
  induction rows with
  | nil => rfl
  | cons row rows ih =>
    by_cases h : 2 ≤ row.length
    · simp [h, ih]
    · simp [h, ih, rowItems_short row h]

theorem readItems_rows (reg : Registry) (ps : List (List Bytes)) (h : propsDistinct ps = true) :
    readItems reg ps = (readProps reg ps).flatMap rowItems := by
  unfold readItems readProps
  rw [propsItems_rows' ps h, flatMap_rowItems_filter, List.flatMap_map, List.map_flatMap]
  congr 1
  funext row
  exact (rowItems_readRow reg row).symm

theorem readProps_norm (reg : Registry) (ps : List (List Bytes)) (h : propsDistinct ps = true) :
    propsNorm (readProps reg ps) = true := by
  simp only [propsDistinct, Bool.and_eq_true] at h
  simp only [propsNorm, Bool.and_eq_true, List.all_eq_true]
  refine ⟨fun row hrow => ?_, ?_⟩
  · simp only [readProps, List.mem_filter] at hrow
    exact hrow.2
  · rw [distinctB_nodup]
    have hnd := (distinctB_nodup _).mp h.2
    have e : (ps.map (readRow reg)).map (fun row => row.headD []) = ps.map fun row => row.headD [] := by
      rw [List.map_map]
      exact List.map_congr_left fun row _ => readRow_head reg row
    rw [← e] at hnd
    exact List.Nodup.sublist (List.Sublist.map _ List.filter_sublist) hnd

/-- **the `Props` that comes back** for distinct names: the read items, added back one by one,
build `readProps` -/
theorem propsOfItems_readItems (reg : Registry) (ps : List (List Bytes)) (h : propsDistinct ps = true) :
    propsOfItems (readItems reg ps) = readProps reg ps := by
  have hn := readProps_norm reg ps h
  rw [readItems_rows reg ps h, ← propsItems_rows _ hn]
  exact propsOfItems_propsItems _ hn

/-- … and its items are the items that were read -/
theorem propsItems_readProps (reg : Registry) (ps : List (List Bytes)) (h : propsDistinct ps = true) :
    propsItems (readProps reg ps) = readItems reg ps := by
  rw [propsItems_rows _ (readProps_norm reg ps h), readItems_rows reg ps h]

theorem propsNorm_ok (ps : List (List Bytes)) (h : propsNorm ps = true) : propsOk ps = true := by
  simp only [propsNorm, Bool.and_eq_true, List.all_eq_true, decide_eq_true_eq] at h
  simp only [propsOk, List.all_eq_true, Bool.not_eq_true', List.isEmpty_eq_false_iff]
  intro r hr e
  have := h.1 r hr
  subst e; simp at this

theorem propsNorm_distinct (ps : List (List Bytes)) (h : propsNorm ps = true) : propsDistinct ps = true := by
  have h1 := propsNorm_ok ps h
  simp only [propsNorm, Bool.and_eq_true] at h
  simp only [propsDistinct, h1, h.2, Bool.and_self]

theorem readFeature_props (reg : Registry) (f : QFeature) (h : propsDistinct f.props = true) :
    readFeature reg f = ⟨f.key, f.loc, readProps reg f.props⟩ := by
  simp only [readFeature, propsOfItems_readItems reg f.props h]

end Gts.GenBank
