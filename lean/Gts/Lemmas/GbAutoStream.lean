/-
  The auto scanner on a WRITTEN GenBank stream that is followed by something else (C17): the first
  `Scan` reads the first record behind the scanner's own `Push` (`genbankParser_stack_indep_ok` turns
  C01's `read_write`, stated on the empty stack, into a statement about that state), every later
  `Scan` reads one written record from the empty stack, and the loop stops with an error at the first
  byte that does not begin a LOCUS line.  Core Lean only.
-/
import Gts.Lemmas.GbStackIndep
import Gts.Lemmas.GbReadWrite
import Gts.Lemmas.FastaAutoMixed
namespace Gts.Auto
open Gts.Pars
open Gts.GenBank (Record Registry genbankParser Writable LocRT learnTable readBack writeAll)

/-- the hypothesis of `GenBank.read_stream` on every record of a stream -/
def StreamOk (reg : Registry) (rs : List (Record × Bytes)) : Prop :=
  ∀ x ∈ rs, x.1.origin = .residues x.2 ∧ Writable reg x.1 x.2 = true ∧ (∀ f ∈ x.1.table, LocRT f.loc) ∧
    learnTable reg x.1.table = reg

/-- the GenBank loop on a written stream followed by `tail` (not empty, no LOCUS line): the records,
then an error -/
theorem gbLoop_written (reg : Registry) (tail : Bytes) (hne : tail.isEmpty = false)
    (hl : startsLocus tail = false) : ∀ (rs : List (Record × Bytes)), StreamOk reg rs →
    ∀ fuel, rs.length < fuel →
    ∃ t, writeAll reg (rs.map (·.1)) = .ok t ∧ rs.length ≤ t.length ∧
      gbLoop fuel reg ⟨t ++ tail, []⟩ = .done (rs.map fun x => .gb (readBack reg x.1 x.2)) reg false
  | [], _, fuel, hf => by
    cases fuel with
    | zero => omega
    | succ k => exact ⟨[], rfl, by simp, gbLoop_stops k reg ⟨tail, []⟩ hne hl⟩
  | x :: rs, hall, fuel, hf => by
    cases fuel with
    | zero => omega
    | succ k =>
      obtain ⟨ho, hw, hloc, hstable⟩ := hall x (by simp)
      obtain ⟨t2, hw2, hl2, hp2⟩ := gbLoop_written reg tail hne hl rs (fun y hy => hall y (by simp [hy])) k
        (by simp only [List.length_cons] at hf; omega)
      obtain ⟨t1, hw1, hne1, hp1⟩ := GenBank.read_write reg x.1 x.2 ho hw hloc (t2 ++ tail)
      rw [hstable] at hp1
      have hp1' : (genbankParser reg).run' ⟨t1 ++ (t2 ++ tail), []⟩ =
          (.ok (readBack reg x.1 x.2, reg), ⟨t2 ++ tail, []⟩) := hp1
      refine ⟨t1 ++ t2, ?_, ?_, ?_⟩
      · simp only [List.map_cons, writeAll, hw1, hw2]; rfl
      · have : 1 ≤ t1.length := by cases t1 with | nil => exact absurd rfl hne1 | cons _ _ => simp
        simp only [List.length_cons, List.length_append]; omega
      · have hne' : (PS.mk (t1 ++ t2 ++ tail) []).rest.isEmpty = false := by
          cases t1 with | nil => exact absurd rfl hne1 | cons _ _ => rfl
        unfold gbLoop
        rw [if_neg (by rw [hne']; exact Bool.false_ne_true), List.append_assoc, hp1']
        dsimp only
        rw [hp2]
        rfl

/-- **the auto scanner on a written GenBank stream followed by `tail`**: at least one record, `tail`
not empty and not beginning with `LOCUS` -/
theorem scanAll_written_then (reg : Registry) (x : Record × Bytes) (rs : List (Record × Bytes))
    (hall : StreamOk reg (x :: rs)) (tail : Bytes) (hne : tail.isEmpty = false)
    (hl : startsLocus tail = false) :
    ∃ t, writeAll reg ((x :: rs).map (·.1)) = .ok t ∧
      scanAll reg (t ++ tail) = .done ((x :: rs).map fun y => .gb (readBack reg y.1 y.2)) reg false := by
  obtain ⟨ho, hw, hloc, hstable⟩ := hall x (by simp)
  have hall' : StreamOk reg rs := fun y hy => hall y (by simp [hy])
  -- the text behind the first record, with a fuel that does not mention it
  obtain ⟨t2, hw2, hl2, _⟩ := gbLoop_written reg tail hne hl rs hall' (rs.length + 1) (by omega)
  obtain ⟨t2', hw2', _, hp2⟩ := gbLoop_written reg tail hne hl rs hall' ((t2 ++ tail).length + 1)
    (by simp only [List.length_append]; omega)
  rw [hw2] at hw2'
  cases hw2'
  obtain ⟨t1, hw1, hne1, hp1⟩ := GenBank.read_write reg x.1 x.2 ho hw hloc (t2 ++ tail)
  rw [hstable] at hp1
  have hp1' : (genbankParser reg).run' ⟨t1 ++ (t2 ++ tail), []⟩ =
      (.ok (readBack reg x.1 x.2, reg), ⟨t2 ++ tail, []⟩) := hp1
  -- behind the scanner's `Push`
  have hpush := GenBank.genbankParser_stack_indep_ok reg (t1 ++ (t2 ++ tail)) [t1 ++ (t2 ++ tail)] _ _ hp1'
  refine ⟨t1 ++ t2, ?_, ?_⟩
  · simp only [List.map_cons, writeAll, hw1, hw2]; rfl
  · have hne' : (PS.mk (t1 ++ (t2 ++ tail)) []).rest.isEmpty = false := by
      cases t1 with | nil => exact absurd rfl hne1 | cons _ _ => rfl
    have := scanFirst_first_ok reg reg ⟨t1 ++ (t2 ++ tail), []⟩ ⟨t2 ++ tail, []⟩ (readBack reg x.1 x.2) hne' hpush
    unfold scanAll
    rw [List.append_assoc, this]
    show (gbLoop ((t2 ++ tail).length + 1) reg ⟨t2 ++ tail, []⟩).cons _ = _
    rw [hp2]
    rfl

end Gts.Auto
