/-
  C07, termination with an explicit measure: the recursion fuel of the location parsers is
  adequate.  Every recursive call of `ParseLocation` (inside `complement(`, `join(`, `order(`)
  and every iteration of the list loop has consumed at least one byte, so with
  `fuel > bytes left` one more unit of fuel changes nothing (`Agree`).  Core Lean only.
-/
import Gts.Lemmas.ParsSafe2
namespace Gts.Pars
open LocParse ModParse

/-- `p` and `q` behave identically on every sorted state with at most `L` bytes left -/
def Agree {α} (L : Nat) (p q : P α) : Prop :=
  ∀ s : PS, Sorted s.rest.length s.stk → s.rest.length ≤ L → p.run' s = q.run' s

theorem run_pushed (s : PS) : pushed.run' s = (.ok (!s.stk.isEmpty), s) := rfl

theorem run_go_cons {α} (p : P α) (ps : List (P α)) (s : PS) :
    (anyOf.go (p :: ps)).run' s = match p.run' s with
      | (.ok v, s') => (.ok v, { s' with stk := s'.stk.drop 1 })
      | (.error .fail, s') => if s'.stk.isEmpty then (.error .fail, s') else (anyOf.go ps).run' s'
      | (.error .panic, s') => (.error .panic, s') := by
  rw [anyOf.go, run_bind, run_attempt]
  rcases p.run' s with ⟨r, s'⟩
  rcases r with e | v
  · cases e
    · dsimp only
      rw [run_bind, run_pushed]
      dsimp only
      cases h : s'.stk.isEmpty
      · simp
      · simp [run_bind, run_fail]
    · rfl
  · dsimp only
    rw [run_bind, run_drop]; rfl


inductive All2 {α β} (R : α → β → Prop) : List α → List β → Prop
  | nil : All2 R [] []
  | cons {a b as bs} : R a b → All2 R as bs → All2 R (a :: as) (b :: bs)

theorem anyOf_go_agree {α} {L} : ∀ (ps qs : List (P α)),
    All2 (fun p q => Agree L p q ∧ Safe p) ps qs →
    ∀ base n s, Fr L base (n+1) s → (anyOf.go ps).run' s = (anyOf.go qs).run' s
  | [], [], _ => fun _ _ _ _ => rfl
  | p :: ps, q :: qs, .cons ⟨hpq, hp⟩ hrest => by
    intro base n s h
    rw [run_go_cons, run_go_cons, ← hpq s h.srt h.le]
    have hs := hp L base (n+1) s h
    unfold WP Std at hs
    rcases hrun : p.run' s with ⟨r, s'⟩
    rw [hrun] at hs
    rcases r with e | v
    · cases e
      · dsimp only
        split
        · rfl
        · exact anyOf_go_agree ps qs hrest base n s' hs.2
      · rfl
    · rfl

theorem anyOf_agree {α} {L} (ps qs : List (P α))
    (h : All2 (fun p q => Agree L p q ∧ Safe p) ps qs) : Agree L (anyOf ps) (anyOf qs) := by
  intro s hs hL
  unfold anyOf
  rw [run_bind, run_bind, run_push]
  dsimp only
  refine anyOf_go_agree ps qs h s.stk 0 _ ⟨⟨[s.rest], rfl, by simp, ?_⟩, hL, ⟨Nat.le_refl _, hs⟩⟩
  intro f hf
  simp only [List.mem_singleton] at hf
  subst hf; exact hL

theorem Agree.refl {α} {L} (p : P α) : Agree L p p := fun _ _ _ => rfl

theorem complementWith_agree {L} (q q' : P Loc)
    (h : ∀ s : PS, Sorted s.rest.length s.stk → s.rest.length + 11 ≤ L → q.run' s = q'.run' s) :
    Agree L (complementWith q) (complementWith q') := by
  intro s hs hL
  unfold complementWith
  simp only [run_bind, run_push, run_attempt, run_request]
  by_cases hlt : s.rest.length < 11
  · simp only [hlt, if_true, run_bind, run_pop, run_fail]
  · simp only [hlt, if_false]
    by_cases hb : (s.rest.take 11 != str "complement(") = true
    · simp only [hb, if_true, run_bind, run_pop, run_fail]
    · simp only [hb, Bool.false_eq_true, if_false, run_bind, run_advanceN, run_attempt]
      rw [h]
      · exact ⟨by simp, hs⟩
      · show (s.rest.drop 11).length + 11 ≤ L
        rw [List.length_drop]; omega


theorem run_delimiter (s : PS) : delimiter.run' s =
    if s.rest.head? = some 44 then
      (.ok true, { s with rest := (s.rest.drop 1).dropWhile isSpace })
    else (.ok false, s) := by
  unfold delimiter
  simp only [run_bind, run_push, run_attempt, run_next]
  rcases s with ⟨rest, stk⟩
  rcases rest with _ | ⟨c, r⟩
  · simp only [run_bind, run_pop, run_pure, List.head?_nil, reduceCtorEq, if_false]
  · by_cases hc : c = 44
    · subst hc
      simp only [bne_self_eq_false, Bool.false_eq_true, if_false, run_bind, run_advance1,
        run_skipWhile, run_drop, run_pure, List.drop_succ_cons, List.drop_zero, List.head?_cons,
        if_true]
    · have : (c != 44) = true := by simpa using hc
      simp only [this, if_true, run_bind, run_pop, run_pure, List.head?_cons, Option.some.injEq,
        hc, if_false]

/-- what `Safe` gives at an arbitrary sorted state -/
theorem Safe.final {α} {p : P α} (hp : Safe p) (s : PS) (hs : Sorted s.rest.length s.stk) :
    Sorted (p.run' s).2.rest.length (p.run' s).2.stk ∧ (p.run' s).2.rest.length ≤ s.rest.length :=
  have h := hp _ _ _ s (Fr.init hs)
  ⟨h.2.srt, h.2.le⟩

theorem sorted_pushed {s : PS} (hs : Sorted s.rest.length s.stk) (r : Bytes)
    (hr : r.length ≤ s.rest.length) : Sorted r.length (s.rest :: s.stk) := ⟨hr, hs⟩

/-- `parseComplement(&ParseLocation)` at two fuels -/
theorem complementOf_agree {L} (f f' : Nat)
    (h : ∀ s : PS, Sorted s.rest.length s.stk → s.rest.length + 11 ≤ L →
      (loc f).run' s = (loc f').run' s) :
    Agree L (complementOf (f+1)) (complementOf (f'+1)) := by
  intro s hs hL
  rw [complementOf, complementOf]
  simp only [run_bind, run_push, run_attempt, run_request]
  by_cases hlt : s.rest.length < 11
  · simp only [hlt, if_true, run_bind, run_pop, run_fail]
  · simp only [hlt, if_false]
    by_cases hb : (s.rest.take 11 != str "complement(") = true
    · simp only [hb, if_true, run_bind, run_pop, run_fail]
    · simp only [hb, Bool.false_eq_true, if_false, run_bind, run_advanceN, run_attempt]
      rw [h]
      · exact sorted_pushed hs _ (by simp)
      · show (s.rest.drop 11).length + 11 ≤ L
        rw [List.length_drop]; omega

/-- `parseJoin` at two fuels -/
theorem joinOf_agree {L} (f f' : Nat)
    (h : ∀ s : PS, Sorted s.rest.length s.stk → s.rest.length + 5 ≤ L →
      (multiple f).run' s = (multiple f').run' s) :
    Agree L (joinOf (f+1)) (joinOf (f'+1)) := by
  intro s hs hL
  rw [joinOf, joinOf]
  simp only [run_bind, run_push, run_attempt, run_request]
  by_cases hlt : s.rest.length < 5
  · simp only [hlt, if_true, run_bind, run_pop, run_fail]
  · simp only [hlt, if_false]
    by_cases hb : (s.rest.take 5 != str "join(") = true
    · simp only [hb, if_true, run_bind, run_pop, run_fail]
    · simp only [hb, Bool.false_eq_true, if_false, run_bind, run_advanceN]
      rw [h]
      · exact sorted_pushed hs _ (by simp)
      · show (s.rest.drop 5).length + 5 ≤ L
        rw [List.length_drop]; omega

/-- `parseOrder` at two fuels -/
theorem orderOf_agree {L} (f f' : Nat)
    (h : ∀ s : PS, Sorted s.rest.length s.stk → s.rest.length + 6 ≤ L →
      (multiple f).run' s = (multiple f').run' s) :
    Agree L (orderOf (f+1)) (orderOf (f'+1)) := by
  intro s hs hL
  rw [orderOf, orderOf]
  simp only [run_bind, run_push, run_attempt, run_request]
  by_cases hlt : s.rest.length < 6
  · simp only [hlt, if_true, run_bind, run_pop, run_fail]
  · simp only [hlt, if_false]
    by_cases hb : (s.rest.take 6 != str "order(") = true
    · simp only [hb, if_true, run_bind, run_pop, run_fail]
    · simp only [hb, Bool.false_eq_true, if_false, run_bind, run_advanceN]
      rw [h]
      · exact sorted_pushed hs _ (by simp)
      · show (s.rest.drop 6).length + 6 ≤ L
        rw [List.length_drop]; omega

/-- the list loop at two fuels and two iteration bounds: every iteration consumes the comma -/
theorem more_agree {L} (f f' : Nat) (h1 : Agree L (loc f) (loc f')) (hsafe : Safe (loc f)) :
    ∀ k k' acc (s : PS), Sorted s.rest.length s.stk → s.rest.length ≤ L →
      s.rest.length < k → s.rest.length < k' →
      (multiple.more f k acc).run' s = (multiple.more f' k' acc).run' s
  | 0, _, _, _ => fun _ _ hk _ => absurd hk (Nat.not_lt_zero _)
  | _ + 1, 0, _, _ => fun _ _ _ hk' => absurd hk' (Nat.not_lt_zero _)
  | k + 1, k' + 1, acc, s => by
    intro hs hL hk hk'
    rw [multiple.more, multiple.more]
    simp only [run_bind, run_delimiter]
    by_cases hc : s.rest.head? = some 44
    · simp only [hc, if_true, run_bind, run_attempt]
      have hne : 1 ≤ s.rest.length := by
        rcases hr : s.rest with _ | ⟨c, r⟩
        · rw [hr] at hc; simp at hc
        · simp
      have hdl : ((s.rest.drop 1).dropWhile isSpace).length + 1 ≤ s.rest.length := by
        have := (List.dropWhile_sublist isSpace (l := s.rest.drop 1)).length_le
        rw [List.length_drop] at this; omega
      have hs1 : Sorted ((s.rest.drop 1).dropWhile isSpace).length s.stk :=
        Sorted.mono hs (by omega)
      have hL1 : ((s.rest.drop 1).dropWhile isSpace).length ≤ L := by omega
      rw [← h1 ⟨_, _⟩ hs1 hL1]
      have hfin := hsafe.final ⟨_, _⟩ hs1
      rcases hrun : (loc f).run' ⟨(s.rest.drop 1).dropWhile isSpace, s.stk⟩ with ⟨res, s2⟩
      rw [hrun] at hfin
      dsimp only at hfin
      rcases res with e | v
      · cases e
        · simp only [run_bind, run_pop, run_fail]
        · rfl
      · dsimp only
        exact more_agree f f' h1 hsafe k k' (v :: acc) s2 hfin.1 (by omega) (by omega) (by omega)
    · simp only [hc, if_false, Bool.false_eq_true, run_pure]

/-- `multipleLocationParser` at two fuels -/
theorem multiple_agree {L} (f f' : Nat) (h1 : Agree L (loc f) (loc f')) (hsafe : Safe (loc f))
    (hf : L < f) (hf' : L < f') : Agree L (multiple (f+1)) (multiple (f'+1)) := by
  intro s hs hL
  rw [multiple, multiple]
  simp only [run_bind, run_push, run_attempt]
  have hs1 : Sorted (PS.mk s.rest (s.rest :: s.stk)).rest.length (PS.mk s.rest (s.rest :: s.stk)).stk :=
    sorted_pushed hs _ (Nat.le_refl _)
  rw [← h1 _ hs1 hL]
  have hfin := hsafe.final _ hs1
  rcases hrun : (loc f).run' ⟨s.rest, s.rest :: s.stk⟩ with ⟨res, s2⟩
  rw [hrun] at hfin
  dsimp only at hfin
  rcases res with e | v
  · cases e
    · simp only [run_bind, run_pop, run_fail]
      cases s2.stk <;> rfl
    · rfl
  · simp only [run_pure]
    rw [more_agree f f' h1 hsafe f f' [v] s2 hfin.1 (by omega) (by omega) (by omega)]


theorem Agree.mono {α} {L L' : Nat} {p q : P α} (h : Agree L p q) (hl : L' ≤ L) : Agree L' p q :=
  fun s hs hL => h s hs (Nat.le_trans hL hl)

/-- one more unit of fuel changes nothing once the fuel exceeds the bytes left -/
theorem fuel_family : ∀ f,
    (∀ L, L < f → Agree L (loc f) (loc (f+1))) ∧
    (∀ L, L < f + 1 → Agree L (complementOf f) (complementOf (f+1))) ∧
    (∀ L, L < f + 1 → Agree L (joinOf f) (joinOf (f+1))) ∧
    (∀ L, L < f + 1 → Agree L (orderOf f) (orderOf (f+1))) ∧
    (∀ L, L + 1 < f → Agree L (multiple f) (multiple (f+1)))
  | 0 => by
    refine ⟨fun L h => absurd h (Nat.not_lt_zero _), ?_, ?_, ?_, fun L h => absurd h (Nat.not_lt_zero _)⟩
    · intro L hL s _ hs
      have h0 : s.rest.length < 11 := by omega
      rw [complementOf, complementOf]
      simp only [run_bind, run_push, run_attempt, run_request, h0, if_true, run_pop, run_fail]
    · intro L hL s _ hs
      have h0 : s.rest.length < 5 := by omega
      rw [joinOf, joinOf]
      simp only [run_bind, run_push, run_attempt, run_request, h0, if_true, run_pop, run_fail]
    · intro L hL s _ hs
      have h0 : s.rest.length < 6 := by omega
      rw [orderOf, orderOf]
      simp only [run_bind, run_push, run_attempt, run_request, h0, if_true, run_pop, run_fail]
  | f + 1 => by
    obtain ⟨hl, hc, hj, ho, hm⟩ := fuel_family f
    obtain ⟨sl, _, sj, so, sc⟩ := loc_family_safe f
    have hl' : ∀ L, L < f + 1 → Agree L (loc (f+1)) (loc (f+2)) := by
      intro L hL
      rw [loc, loc]
      apply anyOf_agree
      exact .cons ⟨Agree.refl _, range_safe⟩ <| .cons ⟨Agree.refl _, between_safe⟩ <|
        .cons ⟨Agree.refl _, ambiguous_safe⟩ <| .cons ⟨hc L hL, sc⟩ <| .cons ⟨hj L hL, sj⟩ <|
        .cons ⟨ho L hL, so⟩ <| .cons ⟨Agree.refl _, point_safe⟩ .nil
    have hmf : ∀ L (s : PS), L < f + 2 → Sorted s.rest.length s.stk → s.rest.length + 5 ≤ L →
        (multiple f).run' s = (multiple (f+1)).run' s := by
      intro L s hL hs h5
      exact hm s.rest.length (by omega) s hs (Nat.le_refl _)
    refine ⟨hl', ?_, ?_, ?_, ?_⟩
    · intro L hL
      exact complementOf_agree f (f+1) fun s hs h11 =>
        hl s.rest.length (by omega) s hs (Nat.le_refl _)
    · intro L hL
      exact joinOf_agree f (f+1) fun s hs h5 => hmf L s hL hs h5
    · intro L hL
      exact orderOf_agree f (f+1) fun s hs h6 => hmf L s hL hs (by omega)
    · intro L hL
      exact multiple_agree f (f+1) (hl L (by omega)) sl (by omega) (by omega)

/-- `ParseLocation`: with more fuel than bytes left, any larger fuel gives the same outcome and
the same final state -/
theorem loc_fuel_stable (s : PS) (hs : Sorted s.rest.length s.stk) :
    ∀ n m, s.rest.length < n → n ≤ m → (loc n).run' s = (loc m).run' s := by
  intro n m hn hnm
  induction m with
  | zero => have : n = 0 := by omega
            subst this; rfl
  | succ m ih =>
    by_cases h : n = m + 1
    · subst h; rfl
    · rw [ih (by omega)]
      exact (fuel_family m).1 s.rest.length (by omega) s hs (Nat.le_refl _)

/-- the parser of `tryLocation`: each `complement(` level consumes eleven bytes -/
theorem tryLoc_fuel : ∀ f L, L < f → Agree L (tryLoc f) (tryLoc (f+1))
  | 0, _, h => absurd h (Nat.not_lt_zero _)
  | f + 1, L, hL => by
    show Agree L (anyOf [complementWith (tryLoc f), range, point])
      (anyOf [complementWith (tryLoc (f+1)), range, point])
    apply anyOf_agree
    refine .cons ⟨?_, complementWith_safe _ (tryLoc_safe f)⟩ <|
      .cons ⟨Agree.refl _, range_safe⟩ <| .cons ⟨Agree.refl _, point_safe⟩ .nil
    exact complementWith_agree _ _ fun s hs h11 =>
      tryLoc_fuel f s.rest.length (by omega) s hs (Nat.le_refl _)

theorem tryLoc_fuel_stable (s : PS) (hs : Sorted s.rest.length s.stk) :
    ∀ n m, s.rest.length < n → n ≤ m → (tryLoc n).run' s = (tryLoc m).run' s := by
  intro n m hn hnm
  induction m with
  | zero => have : n = 0 := by omega
            subst this; rfl
  | succ m ih =>
    by_cases h : n = m + 1
    · subst h; rfl
    · rw [ih (by omega)]
      exact tryLoc_fuel m s.rest.length (by omega) s hs (Nat.le_refl _)

/-! ### the list handed to `Join` / `Order` is never empty -/

theorem more_nonempty (f : Nat) : ∀ k acc (s s' : PS) ls, acc ≠ [] →
    (multiple.more f k acc).run' s = (.ok ls, s') → ls ≠ []
  | 0, acc, s, s', ls, hacc, h => by
    rw [multiple.more, run_pure] at h
    injection h with h1 _
    injection h1 with h1
    subst h1
    simpa using hacc
  | k + 1, acc, s, s', ls, hacc, h => by
    rw [multiple.more] at h
    simp only [run_bind, run_delimiter] at h
    by_cases hc : s.rest.head? = some 44
    · simp only [hc, if_true, run_bind, run_attempt] at h
      rcases hrun : (loc f).run' ⟨(s.rest.drop 1).dropWhile isSpace, s.stk⟩ with ⟨res, s2⟩
      rw [hrun] at h
      rcases res with e | v
      · cases e
        · simp only [run_bind, run_pop, run_fail] at h
          cases hs2 : s2.stk <;> rw [hs2] at h <;> cases h
        · cases h
      · dsimp only at h
        exact more_nonempty f k (v :: acc) s2 s' ls (by simp) h
    · simp only [hc, if_false, Bool.false_eq_true, run_pure] at h
      injection h with h1 _
      injection h1 with h1
      subst h1
      simpa using hacc

/-- `multipleLocationParser` returns at least one location: `Join(locs...)` / `Order(locs...)` in
`parseJoin` / `parseOrder` are never called without arguments -/
theorem multiple_nonempty (f : Nat) (s s' : PS) (ls : List Loc)
    (h : (multiple f).run' s = (.ok ls, s')) : ls ≠ [] := by
  cases f with
  | zero => rw [multiple] at h; cases h
  | succ f =>
    rw [multiple] at h
    simp only [run_bind, run_push, run_attempt] at h
    rcases hrun : (loc f).run' ⟨s.rest, s.rest :: s.stk⟩ with ⟨res, s2⟩
    rw [hrun] at h
    rcases res with e | v
    · cases e
      · simp only [run_bind, run_pop, run_fail] at h
        cases hs2 : s2.stk <;> rw [hs2] at h <;> cases h
      · cases h
    · simp only [run_pure] at h
      rcases hm : (multiple.more f f [v]).run' s2 with ⟨res2, s3⟩
      rw [hm] at h
      rcases res2 with e | ls2
      · cases h
      · simp only [run_drop] at h
        injection h with h1 _
        injection h1 with h1
        subst h1
        exact more_nonempty f f [v] s2 s3 ls2 (by simp) hm

end Gts.Pars
