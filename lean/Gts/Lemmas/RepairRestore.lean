/-
  `Repair` (property C12), part 7: restoration of a cut forward range — the fragments that
  slicing at cut positions and concatenating produce are fused back into the original range,
  in whatever order they stand in the table.  Core Lean only.
-/
import Gts.Lemmas.RepairIdem
namespace Gts
open Loc

/-! ### sorting a list whose elements are strictly ordered -/

theorem adj_pairwise {α} {r : α → α → Prop} (ht : ∀ a b c, r a b → r b c → r a c) :
    ∀ {l : List α}, Adj r l → l.Pairwise r
  | [], _ => List.Pairwise.nil
  | [_], _ => by simp
  | a :: b :: l, h => by
    have ih := adj_pairwise ht (l := b :: l) h.2
    refine List.Pairwise.cons ?_ ih
    intro c hc
    rcases List.mem_cons.mp hc with rfl | hc
    · exact h.1
    · exact ht _ _ _ h.1 ((List.pairwise_cons.mp ih).1 c hc)

theorem pairwise_total {α} {r : α → α → Prop} {l : List α} (h : l.Pairwise r) :
    ∀ a ∈ l, ∀ b ∈ l, a = b ∨ r a b ∨ r b a := by
  induction l with
  | nil => intro a ha; cases ha
  | cons x l ih =>
    have h' := List.pairwise_cons.mp h
    intro a ha b hb
    rcases List.mem_cons.mp ha with ha | ha
    · rcases List.mem_cons.mp hb with hb | hb
      · exact Or.inl (ha.trans hb.symm)
      · exact Or.inr (Or.inl (ha ▸ h'.1 b hb))
    · rcases List.mem_cons.mp hb with hb | hb
      · exact Or.inr (Or.inr (hb ▸ h'.1 a ha))
      · exact ih h'.2 a ha b hb

/-- the insertion sort of any arrangement of a strictly increasing list is that list -/
theorem sortLocs_of_perm_strict (l0 q : List Loc) (hq : q.Perm l0)
    (h0 : l0.Pairwise fun a b => less a b = true) : sortLocs q = l0 := by
  have hp : (sortLocs q).Perm l0 := (sortLocs_perm q).trans hq
  have hs : (sortLocs q).Pairwise fun a b => less b a = false := by
    apply adj_pairwise _ (sortLocs_adj q)
    intro a b c hab hbc
    cases hca : less c a with
    | false => rfl
    | true =>
      rcases less_negtrans b hca with h | h
      · rw [hbc] at h; cases h
      · rw [hab] at h; cases h
  have h0' : l0.Pairwise fun a b => less b a = false := h0.imp fun h => less_asymm h
  apply List.Perm.eq_of_pairwise (le := fun a b => less b a = false) _ hs h0' hp
  intro a b ha hb hab hba
  rcases pairwise_total h0 a (hp.mem_iff.mp ha) b hb with h | h | h
  · exact h
  · rw [hba] at h; cases h
  · rw [hab] at h; cases h

/-! ### the fragments of a cut range -/

/-- the fragments of `Ranged{s, e, (p5, p3)}` cut at the increasing positions `cs` strictly
inside it; `m` is the partial marker slicing puts on a cut end (`true`; `false` for `source`
features, whose markers `Slice` strips) -/
def frags (m : Bool) : Int → Int → Bool → Bool → List Int → List Loc
  | s, e, p5, p3, [] => [ranged s e p5 p3]
  | s, e, p5, p3, c :: cs => ranged s c p5 m :: frags m c e m p3 cs

/-- the cut positions are increasing and strictly inside `(s, e)` -/
def cutsOk : Int → Int → List Int → Prop
  | s, e, [] => s < e
  | s, e, c :: cs => s < c ∧ cutsOk c e cs

theorem frags_bounds (m : Bool) (cs : List Int) (s e : Int) (p5 p3 : Bool) (h : cutsOk s e cs) :
    ∀ x ∈ frags m s e p5 p3 cs, ∃ a b x5 x3, x = ranged a b x5 x3 ∧ s ≤ a ∧ a < b := by
  induction cs generalizing s p5 with
  | nil =>
    intro x hx
    simp only [frags, List.mem_singleton] at hx
    exact ⟨s, e, p5, p3, hx, Int.le_refl _, h⟩
  | cons c cs ih =>
    intro x hx
    simp only [frags, List.mem_cons] at hx
    rcases hx with rfl | hx
    · exact ⟨s, c, p5, m, rfl, Int.le_refl _, h.1⟩
    · obtain ⟨a, b, x5, x3, rfl, h1, h2⟩ := ih c m h.2 x hx
      exact ⟨a, b, x5, x3, rfl, by have := h.1; omega, h2⟩

theorem frags_strict (m : Bool) (cs : List Int) (s e : Int) (p5 p3 : Bool) (h : cutsOk s e cs) :
    (frags m s e p5 p3 cs).Pairwise fun a b => less a b = true := by
  induction cs generalizing s p5 with
  | nil => simp [frags]
  | cons c cs ih =>
    simp only [frags]
    refine List.Pairwise.cons ?_ (ih c m h.2)
    intro x hx
    obtain ⟨a, b, x5, x3, rfl, h1, h2⟩ := frags_bounds m cs c e m p3 h.2 x hx
    rw [less_ranged _ _ _ _ _ _ _ _ h.1 h2]
    have := h.1
    omega

theorem frag_cond (f m : Bool) (hm : (m || f) = true) (x : Int) : (((m && m) || f) && x == x) = true := by
  cases m <;> cases f <;> simp at hm ⊢

/-- pushing the remaining fragments onto the fused prefix -/
theorem push_frags (d : Nat) (f m : Bool) (hm : (m || f) = true) (cs : List Int) (s0 s e : Int) (q5 p3 : Bool) :
    pushAllD (d + 1) [ranged s0 s q5 m] (frags m s e m p3 cs) f = [ranged s0 e q5 p3] := by
  induction cs generalizing s with
  | nil => simp only [frags, pushAllD, List.foldl_cons, List.foldl_nil, pushD_ranged, pushOne, frag_cond f m hm s, if_true]
  | cons c cs ih =>
    have := ih c
    simp only [pushAllD] at this
    simp only [frags, pushAllD, List.foldl_cons, pushD_ranged, pushOne, frag_cond f m hm s, if_true]
    exact this

/-- **(g), one class**: the fragments of a forward range — in any order — are fused back into
the range, with its own partial markers -/
theorem pushedOf_frags (f m : Bool) (hm : (m || f) = true) (s e : Int) (p5 p3 : Bool) (cs : List Int)
    (hc : cutsOk s e cs) (q : List Loc) (hq : q.Perm (frags m s e p5 p3 cs)) :
    pushedOf f q = [ranged s e p5 p3] := by
  simp only [pushedOf, sortLocs_of_perm_strict _ q hq (frags_strict m cs s e p5 p3 hc), pushAll]
  have e1 : pushFuel = (pushFuel - 1) + 1 := rfl
  rw [e1]
  cases cs with
  | nil => simp [frags, pushAllD, pushD_ranged, pushOne]
  | cons c cs =>
    simp only [frags, pushAllD, List.foldl_cons, pushD_ranged, pushOne]
    have := push_frags (pushFuel - 1) f m hm cs s c e p5 p3
    simp only [pushAllD] at this
    rw [this]
    rfl

/-! ### what slicing and concatenating does to a forward range -/

theorem expand_step1 (s e : Int) (x y : Bool) (b L : Int) (hse : s < e) (heL : e ≤ L)
    (hsb : s < b) (hbL : b ≤ L) :
    (ranged s e x y).expand b (b - L) = ranged s (if b < e then b else e) x (y || decide (b < e)) := by
  simp only [expand, rangedExpand, gmax]
  repeat' split
  all_goals first | omega | (simp_all; try omega) | skip

theorem expand_step2 (s e : Int) (x y : Bool) (a : Int) (h0 : 0 ≤ s) (hse : s < e) (ha : 0 ≤ a) (hae : a < e) :
    (ranged s e x y).expand 0 (-a) =
      ranged ((if s < a then a else s) - a) (e - a) (x || decide (s < a)) y := by
  simp only [expand, rangedExpand, gmax]
  repeat' split
  all_goals first | omega | (simp_all; try omega) | skip

theorem expand_step3 (s e : Int) (x y : Bool) (a : Int) (h0 : 0 ≤ s) (hse : s < e) (ha : 0 ≤ a) :
    (ranged s e x y).expand 0 a = ranged (s + a) (e + a) x y := by
  simp only [expand, rangedExpand, gmax]
  repeat' split
  all_goals first | omega | (simp_all; try omega) | skip

/-- the location a forward range has in the piece `[a, b)` of a sequence of length `L`
(`Slice`: `Expand(b, b-L)` then `Expand(0, -a)`), after `Concat` has moved the piece back to
offset `a` (`Expand(0, a)`): the intersection, with a partial marker on every cut end -/
theorem slice_concat_ranged (s e : Int) (p5 p3 : Bool) (a b L : Int)
    (h0 : 0 ≤ s) (hse : s < e) (heL : e ≤ L) (ha : 0 ≤ a) (hab : a < b) (hbL : b ≤ L)
    (hov : s < b ∧ a < e) :
    (((ranged s e p5 p3).expand b (b - L)).expand 0 (-a)).expand 0 a =
      ranged (if s < a then a else s) (if b < e then b else e) (p5 || decide (s < a)) (p3 || decide (b < e)) := by
  rw [expand_step1 s e p5 p3 b L hse heL hov.1 hbL]
  rw [expand_step2 s _ p5 _ a h0 (by split <;> omega) ha (by split <;> omega)]
  rw [expand_step3 _ _ _ _ a (by split <;> omega) (by split <;> split <;> omega) ha]
  congr 1 <;> omega

end Gts
