/-
  A small program logic for the `pars` state model (`Gts.Model.Pars`), used by C07:

  * `Sorted`: every saved position lies at or before the younger ones and the current one
    (as remaining-input lengths: `rest ≤ top ≤ … ≤ bottom`).  Every primitive keeps it, and under
    it `pars.Trail` cannot hit its slice panic.
  * `Fr L base n s`: the stack of `s` is `extra ++ base` with at least `n` extra frames, the
    extra frames and the current position have at most `L` bytes left.  "A parser entered with
    `Fr L base n` leaves with `Fr L base n`" says at once: it never pops a frame of its caller
    (frames leak, they are never over-popped), it never moves the position before its entry
    point, and it keeps `Sorted`.
  * `WP p Q s`: the post-condition `Q` holds for the outcome and final state of `p` on `s`.

  Core Lean only.
-/
import Gts.Model.Locator
namespace Gts.Pars

/-! ### running the primitives -/

theorem run_bind {α β} (p : P α) (f : α → P β) (s : PS) :
    (p >>= f).run' s = match p.run' s with
      | (.ok a, s') => (f a).run' s'
      | (.error e, s') => (.error e, s') := by
  simp only [P.run', bind, ExceptT.bind, ExceptT.mk, ExceptT.run, StateT.bind, StateT.run,
    ExceptT.bindCont]
  cases h : p s with
  | mk r s' => cases r <;> rfl

theorem run_pure {α} (a : α) (s : PS) : (pure a : P α).run' s = (.ok a, s) := rfl
theorem run_fail {α} (s : PS) : (fail : P α).run' s = (.error .fail, s) := rfl
theorem run_panic {α} (s : PS) : (panic : P α).run' s = (.error .panic, s) := rfl
theorem run_getS (s : PS) : getS.run' s = (.ok s, s) := rfl
theorem run_setS (t s : PS) : (setS t).run' s = (.ok (), t) := rfl

theorem run_push (s : PS) : push.run' s = (.ok (), { s with stk := s.rest :: s.stk }) := rfl
theorem run_drop (s : PS) : drop.run' s = (.ok (), { s with stk := s.stk.drop 1 }) := rfl
theorem run_clear (s : PS) : clear.run' s = (.ok (), { s with stk := [] }) := rfl
theorem run_advance1 (s : PS) : advance1.run' s = (.ok (), { s with rest := s.rest.drop 1 }) := rfl
theorem run_advanceN (k : Nat) (s : PS) :
    (advanceN k).run' s = (.ok (), { s with rest := s.rest.drop k }) := rfl
theorem run_skipWhile (f : UInt8 → Bool) (s : PS) :
    (skipWhile f).run' s = (.ok (), { s with rest := s.rest.dropWhile f }) := rfl

theorem run_pop (s : PS) : pop.run' s = match s.stk with
    | [] => (.ok (), s)
    | r :: st => (.ok (), { rest := r, stk := st }) := by
  unfold pop
  rw [run_bind, run_getS]
  dsimp only
  cases s.stk <;> rfl

theorem run_next (s : PS) : next.run' s = match s.rest with
    | [] => (.error .fail, s)
    | c :: _ => (.ok c, s) := by
  unfold next
  rw [run_bind, run_getS]
  dsimp only
  cases s.rest <;> rfl

theorem run_request (k : Nat) (s : PS) : (request k).run' s =
    if s.rest.length < k then (.error .fail, s) else (.ok (s.rest.take k), s) := by
  unfold request
  rw [run_bind, run_getS]
  dsimp only
  show (if s.rest.length < k then fail else pure (s.rest.take k) : P Bytes).run' s = _
  split <;> rfl

theorem run_trail (s : PS) : trail.run' s = match s.stk with
    | [] => (.ok [], s)
    | saved :: st =>
      if saved.length < s.rest.length then (.error .panic, s)
      else (.ok (saved.take (saved.length - s.rest.length)),
            { rest := saved.drop (saved.length - s.rest.length), stk := st }) := by
  unfold trail
  rw [run_bind, run_getS]
  dsimp only
  cases s.stk with
  | nil => rfl
  | cons saved st =>
    dsimp only
    by_cases hc : saved.length < s.rest.length
    · simp only [hc, if_true]; rfl
    · simp only [hc, if_false]; rfl

theorem run_attempt {α} (p : P α) (s : PS) : (attempt p).run' s = match p.run' s with
    | (.ok a, s') => (.ok (some a), s')
    | (.error .fail, s') => (.ok none, s')
    | (.error .panic, s') => (.error .panic, s') := by
  rfl

/-! ### weakest preconditions -/

/-- `Q` holds for the outcome and the final state of `p` started in `s` -/
def WP {α} (p : P α) (Q : Except Err α → PS → Prop) (s : PS) : Prop :=
  Q (p.run' s).1 (p.run' s).2

theorem wp_bind {α β} (p : P α) (f : α → P β) (Q) (s : PS) :
    WP (p >>= f) Q s ↔ WP p (fun r s' => match r with
      | .ok a => WP (f a) Q s'
      | .error e => Q (.error e) s') s := by
  unfold WP
  rw [run_bind]
  cases h : p.run' s with
  | mk r s' => cases r <;> rfl

theorem wp_pure {α} (a : α) (Q) (s : PS) : WP (pure a : P α) Q s ↔ Q (.ok a) s := Iff.rfl
theorem wp_fail {α} (Q) (s : PS) : WP (fail : P α) Q s ↔ Q (.error .fail) s := Iff.rfl

theorem wp_map {α β} (g : α → β) (p : P α) (Q) (s : PS) :
    WP (g <$> p) Q s ↔ WP p (fun r s' => match r with
      | .ok a => Q (.ok (g a)) s'
      | .error e => Q (.error e) s') s := by
  have : (g <$> p) = (p >>= fun a => pure (g a)) := by
    simp [Functor.map, ExceptT.map, bind, ExceptT.bind, ExceptT.mk, pure, ExceptT.pure]
    rfl
  rw [this, wp_bind]; rfl

/-! ### the invariant -/

/-- saved positions never lie after a younger one or the current one (`n` = bytes left now) -/
def Sorted : Nat → List Bytes → Prop
  | _, [] => True
  | n, f :: st => n ≤ f.length ∧ Sorted f.length st

theorem Sorted.mono {n m : Nat} {st} (h : Sorted n st) (hm : m ≤ n) : Sorted m st := by
  cases st with
  | nil => trivial
  | cons f st => exact ⟨Nat.le_trans hm h.1, h.2⟩

theorem Sorted.tail {n : Nat} {f st} (h : Sorted n (f :: st)) : Sorted n st :=
  h.2.mono h.1

/-- frame invariant, see the file header -/
structure Fr (L : Nat) (base : List Bytes) (n : Nat) (s : PS) : Prop where
  ex : ∃ extra, s.stk = extra ++ base ∧ n ≤ extra.length ∧ ∀ f ∈ extra, f.length ≤ L
  le : s.rest.length ≤ L
  srt : Sorted s.rest.length s.stk

theorem Fr.weaken {L base n s} (h : Fr L base (n+1) s) : Fr L base n s :=
  ⟨by obtain ⟨e, h1, h2, h3⟩ := h.ex; exact ⟨e, h1, by omega, h3⟩, h.le, h.srt⟩

/-- any sorted state is a frame state over its own stack -/
theorem Fr.init {s : PS} (h : Sorted s.rest.length s.stk) : Fr s.rest.length s.stk 0 s :=
  ⟨⟨[], rfl, Nat.le_refl _, fun _ hf => nomatch hf⟩, Nat.le_refl _, h⟩

theorem Fr.initL {s : PS} {L} (h : Sorted s.rest.length s.stk) (hL : s.rest.length ≤ L) :
    Fr L s.stk 0 s :=
  ⟨⟨[], rfl, Nat.le_refl _, fun _ hf => nomatch hf⟩, hL, h⟩

/-- moving forward keeps the invariant -/
theorem Fr.advance {L base n s} (h : Fr L base n s) (r : Bytes) (hr : r.length ≤ s.rest.length) :
    Fr L base n { s with rest := r } :=
  ⟨h.ex, Nat.le_trans hr h.le, h.srt.mono hr⟩

/-- the standard post-condition: no panic, and the frame invariant again -/
def Std {α} (L : Nat) (base : List Bytes) (n : Nat) : Except Err α → PS → Prop :=
  fun r s' => r ≠ .error .panic ∧ Fr L base n s'

/-- `p` keeps the frame invariant and never panics -/
def Safe {α} (p : P α) : Prop :=
  ∀ L base n s, Fr L base n s → WP p (Std L base n) s

variable {L : Nat} {base : List Bytes} {n : Nat} {s : PS}

theorem wp_push {Q} (h : Fr L base n s)
    (k : ∀ s', Fr L base (n+1) s' → Q (.ok ()) s') : WP push Q s := by
  apply k
  obtain ⟨e, h1, h2, h3⟩ := h.ex
  refine ⟨⟨s.rest :: e, ?_, ?_, ?_⟩, h.le, ?_⟩
  · show s.rest :: s.stk = _; rw [h1]; rfl
  · simp; omega
  · intro f hf; cases hf with
    | head => exact h.le
    | tail _ hf => exact h3 f hf
  · exact ⟨Nat.le_refl _, h.srt⟩

theorem wp_pop {Q} (h : Fr L base (n+1) s)
    (k : ∀ s', Fr L base n s' → Q (.ok ()) s') : WP pop Q s := by
  obtain ⟨e, h1, h2, h3⟩ := h.ex
  cases e with
  | nil => simp at h2
  | cons f e =>
    have hs : s.stk = f :: (e ++ base) := h1
    unfold WP; rw [run_pop, hs]
    apply k
    have hsrt := h.srt; rw [hs] at hsrt
    exact ⟨⟨e, rfl, by simpa using h2, fun g hg => h3 g (List.mem_cons_of_mem _ hg)⟩,
      h3 f (List.mem_cons_self ..), hsrt.2⟩

theorem wp_drop {Q} (h : Fr L base (n+1) s)
    (k : ∀ s', Fr L base n s' → Q (.ok ()) s') : WP drop Q s := by
  obtain ⟨e, h1, h2, h3⟩ := h.ex
  cases e with
  | nil => simp at h2
  | cons f e =>
    have hs : s.stk = f :: (e ++ base) := h1
    unfold WP; rw [run_drop, hs]
    apply k
    have hsrt := h.srt; rw [hs] at hsrt
    exact ⟨⟨e, rfl, by simpa using h2, fun g hg => h3 g (List.mem_cons_of_mem _ hg)⟩,
      h.le, hsrt.tail⟩

theorem wp_trail {Q} (h : Fr L base (n+1) s)
    (k : ∀ v s', Fr L base n s' → Q (.ok v) s') : WP trail Q s := by
  obtain ⟨e, h1, h2, h3⟩ := h.ex
  cases e with
  | nil => simp at h2
  | cons f e =>
    have hs : s.stk = f :: (e ++ base) := h1
    have hsrt := h.srt; rw [hs] at hsrt
    unfold WP; rw [run_trail, hs]
    have : ¬ f.length < s.rest.length := Nat.not_lt.mpr hsrt.1
    simp only [this, if_false]
    apply k
    have hl : (f.drop (f.length - s.rest.length)).length = s.rest.length := by
      rw [List.length_drop]; have := hsrt.1; omega
    refine ⟨⟨e, rfl, by simpa using h2, fun g hg => h3 g (List.mem_cons_of_mem _ hg)⟩, ?_, ?_⟩
    · show (f.drop _).length ≤ L; rw [hl]; exact h.le
    · show Sorted (f.drop _).length _; rw [hl]; exact hsrt.tail

theorem wp_next {Q} (_h : Fr L base n s)
    (kok : ∀ c, s.rest ≠ [] → Q (.ok c) s) (kf : s.rest = [] → Q (.error .fail) s) : WP next Q s := by
  unfold WP; rw [run_next]
  cases hr : s.rest with
  | nil => exact kf hr
  | cons c r => exact kok c (by simp [hr])

theorem wp_advance1 {Q} (h : Fr L base n s)
    (k : ∀ s', Fr L base n s' → Q (.ok ()) s') : WP advance1 Q s := by
  apply k; exact h.advance _ (by simp)

theorem wp_advanceN {Q} (m : Nat) (h : Fr L base n s)
    (k : ∀ s', Fr L base n s' → Q (.ok ()) s') : WP (advanceN m) Q s := by
  apply k; exact h.advance _ (by simp)

theorem wp_skipWhile {Q} (f : UInt8 → Bool) (h : Fr L base n s)
    (k : ∀ s', Fr L base n s' → Q (.ok ()) s') : WP (skipWhile f) Q s := by
  apply k; exact h.advance _ (by
    show (s.rest.dropWhile f).length ≤ _
    exact (List.dropWhile_sublist f).length_le)

theorem wp_request {Q} (m : Nat) (_h : Fr L base n s)
    (kok : ∀ b, Q (.ok b) s) (kf : Q (.error .fail) s) : WP (request m) Q s := by
  unfold WP; rw [run_request]
  split
  · exact kf
  · exact kok _

theorem wp_getS {Q} (k : Q (.ok s) s) : WP getS Q s := k

/-- use a proved `Safe` parser inside a larger one -/
theorem wp_safe {α} {p : P α} {Q} (hp : Safe p) (h : Fr L base n s)
    (kok : ∀ a s', Fr L base n s' → Q (.ok a) s')
    (kf : ∀ s', Fr L base n s' → Q (.error .fail) s') : WP p Q s := by
  have := hp L base n s h
  unfold WP Std at *
  cases hr : (p.run' s).1 with
  | ok a => exact kok a _ this.2
  | error e =>
    cases e with
    | fail => exact kf _ this.2
    | panic => exact absurd hr this.1

theorem wp_attempt {α} {p : P α} {Q} (hp : Safe p) (h : Fr L base n s)
    (k : ∀ o s', Fr L base n s' → Q (.ok o) s') : WP (attempt p) Q s := by
  have := hp L base n s h
  unfold WP Std at *
  rw [run_attempt]
  cases hr : p.run' s with
  | mk r s' =>
    rw [hr] at this
    cases r with
    | ok a => exact k _ _ this.2
    | error e =>
      cases e with
      | fail => exact k _ _ this.2
      | panic => exact absurd rfl this.1

theorem std_ok {α} {a : α} {s'} (h : Fr L base n s') : Std L base n (.ok a) s' :=
  ⟨fun h' => (nomatch h'), h⟩
theorem std_fail {α} {s'} (h : Fr L base n s') : Std (α := α) L base n (.error .fail) s' :=
  ⟨fun h' => (nomatch h'), h⟩

end Gts.Pars

/-! ### symbolic execution -/

namespace Gts.Pars
open LocParse ModParse

theorem wp_pushed {Q} {s : PS} (k : ∀ b, Q (.ok b) s) : WP pushed Q s := k _

/-- side goals `Safe p` of `wp_safe` / `wp_attempt`; extended below as parsers are proved safe -/
syntax "safe_side" : tactic
macro_rules | `(tactic| safe_side) => `(tactic| assumption)

macro "wp_close" : tactic => `(tactic| first
  | exact std_ok ‹_› | exact std_fail ‹_›
  | exact std_ok (Fr.weaken ‹_›) | exact std_fail (Fr.weaken ‹_›)
  | exact std_ok (Fr.weaken (Fr.weaken ‹_›)) | exact std_fail (Fr.weaken (Fr.weaken ‹_›)))

macro "wp_step" : tactic => `(tactic| first
  | dsimp only
  | rw [wp_bind]
  | rw [wp_pure]
  | rw [wp_fail]
  | rw [wp_map]
  | (with_reducible apply wp_push ‹_›; intro _ _)
  | (with_reducible apply wp_pop ‹_›; intro _ _)
  | (with_reducible apply wp_drop ‹_›; intro _ _)
  | (with_reducible apply wp_trail ‹_›; intro _ _ _)
  | (with_reducible apply wp_advance1 ‹_›; intro _ _)
  | (with_reducible apply wp_advanceN _ ‹_›; intro _ _)
  | (with_reducible apply wp_skipWhile _ ‹_›; intro _ _)
  | (with_reducible apply wp_next ‹_› <;> intros)
  | (with_reducible apply wp_request _ ‹_› <;> intros)
  | (with_reducible apply wp_pushed; intro _)
  | (with_reducible apply wp_getS)
  | (with_reducible apply wp_attempt (by safe_side) ‹_›; intro _ _ _)
  | (with_reducible apply wp_safe (by safe_side) ‹_› <;> intros)
  | wp_close
  | split)

/-- prove `Safe p` for a straight-line parser by running it symbolically -/
macro "wp_run" : tactic => `(tactic| (intro _ _ _ _ _; repeat wp_step))

/-! ### `pars` primitives used by gts -/

theorem next_safe : Safe next := by wp_run
theorem int_safe : Safe int := by unfold int; wp_run
theorem spaces_safe : Safe spaces := by unfold spaces; wp_run
theorem word_safe (f) : Safe (word f) := by unfold word; wp_run
theorem request_safe (k) : Safe (request k) := by wp_run

theorem lit_safe (p) : Safe (lit p) := by unfold lit; wp_run

theorem eol_safe : Safe eol := by
  unfold eol
  intro _ _ _ _ _
  rw [wp_bind]; apply wp_getS; dsimp only
  split <;> repeat wp_step

theorem line_safe : Safe line := by
  intro L base n s h
  refine std_ok (h.advance _ ?_)
  split
  · simp
  · simp only [List.length_drop]; omega

macro_rules | `(tactic| safe_side) => `(tactic| with_reducible exact next_safe)
macro_rules | `(tactic| safe_side) => `(tactic| with_reducible exact int_safe)
macro_rules | `(tactic| safe_side) => `(tactic| with_reducible exact request_safe _)
macro_rules | `(tactic| safe_side) => `(tactic| with_reducible exact lit_safe _)

/-! ### location parsers (location.go) -/

theorem between_safe : Safe LocParse.between := by unfold LocParse.between; wp_run
theorem point_safe : Safe LocParse.point := by unfold LocParse.point; wp_run
theorem range_safe : Safe LocParse.range := by unfold LocParse.range; wp_run
theorem ambiguous_safe : Safe LocParse.ambiguous := by unfold LocParse.ambiguous; wp_run
theorem delimiter_safe : Safe LocParse.delimiter := by unfold LocParse.delimiter; wp_run


macro_rules | `(tactic| safe_side) => `(tactic| with_reducible exact between_safe)
macro_rules | `(tactic| safe_side) => `(tactic| with_reducible exact point_safe)
macro_rules | `(tactic| safe_side) => `(tactic| with_reducible exact range_safe)
macro_rules | `(tactic| safe_side) => `(tactic| with_reducible exact ambiguous_safe)
macro_rules | `(tactic| safe_side) => `(tactic| with_reducible exact delimiter_safe)

end Gts.Pars
