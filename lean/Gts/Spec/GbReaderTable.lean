/-
  The STRUCTURE of the seqio reader as the model has it — the hand-written expectation that
  `Gts/Bridge/GbReader.lean` compares with what go2lean extracts from the Go source on every run
  (`Gts/Gen/GbReaderFacts.lean`, generator go2lean/gbreader.go).

  Written by reading `Gts/Model/GenBankParse.lean`, `Gts/Model/InsdcParse.lean` and
  `Gts/Model/GbSlice.lean` next to the Go functions they mirror: every line of a reader function is
  given in the generator's normal form (indent, kind, text — locals `v0, v1, …` in order of declaration,
  parameters named by their type, the set-up variables of a parser constructor inlined into the closure
  that uses them, function literals as entries `F/funcN` of their own) and CITES THE MODEL DEFINITION
  (and the clause of it) that it mirrors.  What decides the reader's behaviour next to the go-pars
  combinators themselves is written down here: the ORDER in which parsers are tried (`dispatch`,
  `fn_genbankReferenceSubfieldParser`, `fn_QualifierParser_func0`, `fn_GetQualifierType`), the literals
  they are built from (field names, `" bp"` / `" aa"`, widths, separators), the depth arithmetic
  (`locusUses`), and which parser pushes, pops, drops or clears a saved position on which path
  (`stateOps`): a failure behind a `Clear` is HARD (`tryAllParsers` finds nothing pushed and gives the
  record up), every other one is SOFT (`Pop`, next parser).

  A change of the Go source that alters one of these lines breaks the bridge theorem of that
  function and has to be looked at HERE, next to the model: either the model follows (and the
  theorems about it are re-proved) or the change is a defect.  Hand-maintained.  Core Lean only.
-/
namespace Gts.Spec.GbReader

/-- one statement: (indent, kind, text) -/
abbrev Line := Nat × String × String

/-- `genbankLocusParser` — `GenBank.locusParser`: `push; push` are the frames of `Seq` and of `.Children` (a `Map`); one `locusTry` / `spaces` / `divisionParser` / `line` per member, member by member in `locusSeq` below -/
def fn_genbankLocusParser : List Line := [
  (0, "var", "pars.Seq(\"LOCUS\", pars.Spaces, pars.Word(ascii.Not(ascii.IsSpace)), pars.Spaces, pars.Int, pars.Any(\" bp\", \" aa\"), pars.Spaces, pars.Word(ascii.Not(ascii.IsSpace)), pars.Spaces, pars.Word(ascii.Not(ascii.IsSpace)), pars.Spaces, pars.Maybe(pars.Count(pars.Filter(ascii.IsUpper), 3).Map(pars.Cat)), pars.Spaces, pars.AsParser(pars.Line).Map(func0)).Children(1, 2, 4, 7, 9, 11, 13)")   -- locusParser (whole body); the seven kept members are `locusChildren`
]

/-- `genbankLocusParser/func0` — `GenBank.locusParser`, its last four lines: `let dl ← line; match asDate dl with | none => locusBack | some date => drop; drop; …` -/
def fn_genbankLocusParser_func0 : List Line := [
  (0, "func", "(result *pars.Result) (err0 error)"),
  (1, "assign", "v0 := string(result.Token)"),   -- locusParser: `let dl ← line` (the token of `pars.Line`)
  (1, "assign", "v1, err0 := AsDate(v0)"),   -- locusParser: `match asDate dl with` (`GenBank.asDate`: AsDate + checkDate)
  (1, "result", "result.SetValue(v1)"),   -- locusParser: `| some date => … pure ⟨…, date⟩`
  (1, "return", "err0")   -- locusParser: `| none => locusBack` (the Map fails, `Seq` and `Children` pop)
]

/-- `tryAllParsers` — `GenBank.tryList` (the first eleven parsers) and `GenBank.tryAll` (the last one) -/
def fn_tryAllParsers : List Line := [
  (0, "func", "(pp0 []pars.Parser) pars.Parser"),
  (1, "return", "func0")   -- tryList / tryAll
]

/-- `tryAllParsers/func0` — `GenBank.tryList`: `push`; the parser; success → `drop`; failure → hard when nothing is pushed any more, else `pop` and the next one -/
def fn_tryAllParsers_func0 : List Line := [
  (0, "func", "(state *pars.State, result *pars.Result) (err0 error)"),
  (1, "range", "_, v0 := range pp0"),   -- tryList: `| p :: rest, s => do` — one attempt per element, in list order
  (2, "state", "state.Push()"),   -- tryList: `push`
  (2, "assign", "err0 = v0(state, result)"),   -- tryList: `match ← attempt (p s) with`
  (2, "if", "err0 == nil"),   -- tryList: `| some (s', true) =>`
  (3, "state", "state.Drop()"),   -- tryList: `drop`
  (3, "return", "nil"),   -- tryList: `pure (s', true)`
  (2, "if", "!state.Pushed()"),   -- tryList: `if !(← pushed) then fail` (both failure arms) — the HARD failure: a sub-parser cleared the saved positions
  (3, "return", "err0"),   -- tryList: `fail`
  (2, "state", "state.Pop()"),   -- tryList: `pop` (soft failure: back to the saved position), then `tryList rest …`
  (1, "return", "err0")   -- tryList: `| [], s => pure (s, false)`; tryAll: `| none => do pop; pure (.skip s')` for the last parser
]

/-- `GenBankParser` — `GenBank.genbankParser` (record set-up, final length check) and `GenBank.recordLoop` (the loop) -/
def fn_GenBankParser : List Line := [
  (0, "func", "(state *pars.State, result *pars.Result) error"),
  (1, "if", "v0 := genbankLocusParser(state, result); v0 != nil"),   -- genbankParser: `let l ← locusParser`
  (2, "return", "v0"),   -- genbankParser: a failing `locusParser` fails the record
  (1, "state", "state.Clear()"),   -- genbankParser: `clear`
  (1, "assign", "v1 := len(result.Children[0].Token) + 5"),   -- locusParser: `pure ⟨sp1.length + 5, …⟩` — `sp1` is the `spaces` behind "LOCUS" (child 0), 5 = len("LOCUS")
  (1, "assign", "v2 := string(result.Children[1].Token)"),   -- locusParser: `name` (child 1)
  (1, "assign", "v3 := result.Children[2].Value.(int)"),   -- locusParser: `length` (child 2, `int`)
  (1, "if", "v3 < 0 || toOriginLength(v3) < 0"),   -- genbankParser: `if l.length < 0 ∨ Origin.toOriginLength l.length > 9223372036854775807 then fail` (9d67d52 / 184fdd0: Go's int wraps, the model compares with 2^63-1)
  (2, "return", "pars.NewError(\"sequence length out of range\", state.Position())"),   -- genbankParser: `fail`
  (1, "assign", "v4, v5 := gts.AsMolecule(string(result.Children[3].Token))"),   -- genbankParser: `if !isMolecule l.molecule then fail` (child 3)
  (1, "if", "v5 != nil"),   -- genbankParser: `if !isMolecule …`
  (2, "return", "pars.NewError(v5.Error(), state.Position())"),   -- genbankParser: `fail`
  (1, "assign", "v6, v5 := gts.AsTopology(string(result.Children[4].Token))"),   -- genbankParser: `match asTopology l.topology with` (child 4)
  (1, "if", "v5 != nil"),   -- genbankParser: `| none => fail`
  (2, "return", "pars.NewError(v5.Error(), state.Position())"),   -- genbankParser: `fail`
  (1, "assign", "v7 := string(result.Children[5].Token)"),   -- locusParser: `division` (child 5)
  (1, "assign", "v8 := result.Children[6].Value.(Date)"),   -- locusParser: `date` (child 6)
  (1, "assign", "v9 := &GenBank{Fields: GenBankFields{LocusName: v2, Molecule: v4, Topology: v6, Division: v7, Date: v8, Region: nil}, Origin: NewOrigin(nil)}"),   -- genbankParser: `let f : Fields := { Fields.empty with locusName := l.name, molecule := l.molecule, topology := top, division := l.division, date := l.date }`, table `[]`, origin `.buffer []`
  (1, "assign", "v10 := makeGenbankOriginParser(v3)"),   -- fieldParsers: `originSub length depth` takes the declared length
  (1, "assign", "v11 := []genbankSubparser{genbankDefinitionParser, genbankAccessionParser, genbankVersionParser, genbankDBLinkParser, genbankKeywordsParser, genbankSourceParser, genbankReferenceParser, genbankCommentParser, genbankFeatureParser, genbankContigParser, v10, genbankExtraFieldParser}"),   -- fieldParsers: the list, in this order; `tryAll`: `extraField` last
  (1, "assign", "v12 := make([]pars.Parser, len(v11))"),   -- fieldParsers (a list of closures over `length`, `depth`)
  (1, "range", "v13, v14 := range v11"),   -- fieldParsers
  (2, "assign", "v12[v13] = v14(v9, v1)"),   -- fieldParsers: every parser gets the same `depth` (`l.depth`)
  (1, "assign", "v15 := tryAllParsers(v12)"),   -- recordLoop: `tryAll length depth s`
  (1, "assign", "v16 := pars.Seq(\"//\", pars.EOL)"),   -- endMark: `lit (bs "//")` then `eol`, position restored on failure (`pars.Seq`)
  (1, "for", "v16(state, result) != nil"),   -- recordLoop: `match ← attempt endMark with | some _ => pure s | none => …`
  (2, "if", "v17 := v15(state, result); v17 != nil"),   -- recordLoop: `match ← tryAll length depth s with`
  (3, "if", "dig(v17) != errGenBankExtra"),   -- tryAll: `.skip` only for the failure of the LAST parser (`errGenBankExtra`); every other error is `fail` of `tryList`
  (4, "return", "v17"),   -- recordLoop: a `fail` of `tryAll` fails the record
  (3, "parse", "pars.Line(state, result)"),   -- recordLoop: `| .skip s' => do let _ ← line`
  (3, "if", "pars.End(state, result) == nil"),   -- recordLoop: `if (← getS).rest.isEmpty then fail`
  (4, "return", "errGenBankField"),   -- recordLoop: `fail` (`errGenBankField`)
  (1, "if", "v18 := v9.Origin.Len(); v18 != v3 && (v18 != 0 || v9.Fields.Contig.String() == \"\")"),   -- genbankParser: `let m := org.len; if m ≠ l.length ∧ (m ≠ 0 ∨ f.contigAcc.isEmpty) then fail` (6813da5)
  (2, "assign", "v19 := fmt.Sprintf(\"declared %d residues but the record has %d\", v3, v18)"),   -- genbankParser: (error text only)
  (2, "return", "pars.NewError(v19, state.Position())"),   -- genbankParser: `fail`
  (1, "result", "result.SetValue(*v9)"),   -- genbankParser: `pure (⟨f, tab, org⟩, reg')`
  (1, "return", "nil")   -- genbankParser: `pure …`
]

/-- `genbankFieldNameParser` — `GenBank.fieldName` (a literal name: `lit name`) and `GenBank.extraField` (the pattern `word isUpper`) -/
def fn_genbankFieldNameParser : List Line := [
  (0, "func", "(q0 interface{}, n0 int) pars.Parser"),
  (1, "assign", "v0 := pars.AsParser(q0)"),   -- fieldName: `lit name`; extraField: `word isUpper` (`pars.AsParser` of the pattern)
  (1, "if", "v1, v2 := q0.(string); v2"),   -- fieldName: a string name is matched as bytes
  (2, "assign", "v0 = pars.Bytes([]byte(v1))"),   -- fieldName: `lit name`
  (1, "return", "func0")   -- fieldName / extraField: `fieldPadding name.length depth` behind the name
]

/-- `genbankFieldNameParser/func0` — `GenBank.fieldName` = `lit name; fieldPadding name.length depth`; `GenBank.fieldPadding` -/
def fn_genbankFieldNameParser_func0 : List Line := [
  (0, "func", "(state *pars.State, result *pars.Result) error"),
  (1, "if", "v3 := v0(state, result); v3 != nil"),   -- fieldName: `lit name` (extraField: `let name ← word isUpper`)
  (2, "return", "v3"),   -- fieldName: a failing name fails softly (nothing cleared)
  (1, "assign", "v4 := string(result.Token)"),   -- fieldPadding: `nameLen`
  (1, "assign", "v5 := n0 - len(v4)"),   -- fieldPadding: `let pad := sp (depth - nameLen)` (natural subtraction = the clamp at 0, 2806af0)
  (1, "if", "v5 < 0"),   -- fieldPadding: the clamp
  (2, "assign", "v5 = 0"),   -- fieldPadding: the clamp
  (1, "assign", "v6 := pars.String(strings.Repeat(\" \", v5))"),   -- fieldPadding: `if pad.isPrefixOf s.rest then do advanceN pad.length; pure 0`
  (1, "assign", "v7 := pars.Any(v6, pars.Dry(pars.EOL))"),   -- fieldPadding: else the line-end test `| [] | 10 :: _ | 13 :: 10 :: _ | 13 :: _` WITHOUT consuming (`pars.Dry(pars.EOL)`)
  (1, "if", "len(v4) > n0 || v7(state, pars.Void) != nil"),   -- fieldPadding: `if nameLen > depth then do clear; fail` first, then the padding; `| _ => do clear; fail`
  (2, "state", "state.Clear()"),   -- fieldPadding: `clear` — a HARD failure: `tryAllParsers` finds nothing pushed
  (2, "assign", "v8 := fmt.Sprintf(\"uneven indent in field `%s`\", v4)"),   -- fieldPadding: (error text only)
  (2, "return", "pars.NewError(v8, state.Position())"),   -- fieldPadding: `fail`
  (1, "return", "nil")   -- fieldPadding: `pure 0 / 1 / 2` (the length of the token left in `pars.Void`)
]

/-- `genbankFieldLineParser` — `GenBank.fieldLine` -/
def fn_genbankFieldLineParser : List Line := [
  (0, "func", "(n0 int) pars.Parser"),
  (1, "return", "func0")   -- fieldLine
]

/-- `genbankFieldLineParser/func0` — `GenBank.fieldLine`: `lit (sp depth); line` -/
def fn_genbankFieldLineParser_func0 : List Line := [
  (0, "func", "(state *pars.State, result *pars.Result) error"),
  (1, "if", "v0 := pars.String(strings.Repeat(\" \", n0))(state, pars.Void); v0 != nil"),   -- fieldLine: `lit (sp depth)`
  (2, "return", "pars.NewError(\"expected indent\", state.Position())"),   -- fieldLine: `lit` fails
  (1, "return", "pars.Line(state, result)")   -- fieldLine: `line`
]

/-- `genbankFieldBodyParser` — `GenBank.fieldBody depth sep` -/
def fn_genbankFieldBodyParser : List Line := [
  (0, "func", "(n0 int, b0 byte) pars.Parser"),
  (1, "return", "func0")   -- fieldBody
]

/-- `genbankFieldBodyParser/func0` — `GenBank.fieldBody`, `GenBank.bodyMore` -/
def fn_genbankFieldBodyParser_func0 : List Line := [
  (0, "func", "(state *pars.State, result *pars.Result) error"),
  (1, "parse", "pars.Line(state, result)"),   -- fieldBody: `let l ← line`
  (1, "assign", "v0 := bytes.NewBuffer(result.Token)"),   -- fieldBody: the accumulator starts with the first line — IN PLACE inside the state buffer (`bytes.NewBuffer(result.Token)`), see `patchFrames`
  (1, "for", "genbankFieldLineParser(n0)(state, result) == nil"),   -- bodyMore: `match ← attempt (fieldLine depth) with | some l => … | none => pure (acc, k)`
  (2, "call", "v0.WriteByte(b0)"),   -- bodyMore: `acc ++ sep :: l` (the separator in front of EVERY continuation line)
  (2, "call", "v0.Write(result.Token)"),   -- bodyMore: `acc ++ sep :: l`
  (1, "result", "result.SetToken(v0.Bytes())"),   -- fieldBody: the joined body is the result
  (1, "return", "nil")   -- fieldBody: never fails
]

/-- `genbankGenericFieldParser` — `GenBank.genericField name depth` -/
def fn_genbankGenericFieldParser : List Line := [
  (0, "func", "(s0 string, n0 int) pars.Parser"),
  (1, "return", "func0")   -- genericField
]

/-- `genbankGenericFieldParser/func0` — `GenBank.genericField`: `let v ← fieldName name depth; let (b, k) ← fieldBody depth 10` -/
def fn_genbankGenericFieldParser_func0 : List Line := [
  (0, "func", "(state *pars.State, result *pars.Result) error"),
  (1, "if", "v0 := genbankFieldNameParser(s0, n0)(state, pars.Void); v0 != nil"),   -- genericField: `fieldName name depth`
  (2, "return", "v0"),   -- genericField: the name's failure is the field's
  (1, "return", "genbankFieldBodyParser(n0, '\\n')(state, result)")   -- genericField: `fieldBody depth 10` (separator line feed)
]

/-- `genbankExtraFieldParser` — `GenBank.extraField depth`, the LAST parser of `tryAll` -/
def fn_genbankExtraFieldParser : List Line := [
  (0, "func", "(gb *GenBank, n0 int) pars.Parser"),
  (1, "return", "func0")   -- extraField
]

/-- `genbankExtraFieldParser/func0` — `GenBank.extraField`; `tryAll`: every failure of it is `errGenBankExtra` = `.skip` -/
def fn_genbankExtraFieldParser_func0 : List Line := [
  (0, "func", "(state *pars.State, result *pars.Result) error"),
  (1, "if", "genbankFieldNameParser(pars.Word(ascii.IsUpper), n0)(state, result) != nil"),   -- extraField: `let name ← word isUpper; let _ ← fieldPadding name.length depth`
  (2, "return", "errGenBankExtra"),   -- tryAll: `| none => do pop; pure (.skip s')`
  (1, "assign", "v0 := string(result.Token)"),   -- extraField: `name`
  (1, "parse", "genbankFieldBodyParser(n0, '\\n')(state, result)"),   -- extraField: `fieldBody depth 10`
  (1, "assign", "v1 := string(result.Token)"),   -- extraField: `b`
  (1, "assign", "v2 := GenBankExtraField(v0, v1)"),   -- extraField: `(name, b)`
  (1, "assign", "gb.Fields.Extra = append(gb.Fields.Extra, v2)"),   -- extraField: `{ f with extra := f.extra ++ [(name, b)] }`
  (1, "return", "nil")   -- extraField: `pure (…, true)`
]

/-- `genbankSubfieldNameParser` — `GenBank.subfieldName name depth stale void` -/
def fn_genbankSubfieldNameParser : List Line := [
  (0, "func", "(s0 string, n0 int) pars.Parser"),
  (1, "return", "func0")   -- subfieldName
]

/-- `genbankSubfieldNameParser/func0` — `GenBank.subfieldName`: blanks, the name, blanks, widths add up to `depth`; a failing blank-word parser leaves the STALE token -/
def fn_genbankSubfieldNameParser_func0 : List Line := [
  (0, "func", "(state *pars.State, result *pars.Result) error"),
  (1, "parse", "pars.Word(ascii.Is(spaceByte))(state, result)"),   -- subfieldName: `let a ← attempt (word (· == 32))` (its failure is ignored)
  (1, "assign", "v0 := len(result.Token)"),   -- subfieldName: `let prefixLen := match a with | some t => t.length | none => stale`
  (1, "if", "v0 == 0"),   -- subfieldName: `if prefixLen = 0 then fail`
  (2, "return", "pars.NewError(\"expected indent\", state.Position())"),   -- subfieldName: `fail`
  (1, "if", "v1 := pars.String(s0)(state, pars.Void); v1 != nil"),   -- subfieldName: `lit name`
  (2, "return", "v1"),   -- subfieldName: its failure is the parser's
  (1, "parse", "pars.Word(ascii.Is(spaceByte))(state, result)"),   -- subfieldName: `let b ← attempt (word (· == 32))`
  (1, "assign", "v2 := len(result.Token)"),   -- subfieldName: `let suffixLen := match b with | some t => t.length | none => tok`
  (1, "if", "v0 + len(s0) + v2 != n0"),   -- subfieldName: `if prefixLen + name.length + suffixLen ≠ depth then fail`
  (2, "assign", "v3 := fmt.Sprintf(\"uneven indent in subfield `%s`\", s0)"),   -- subfieldName: (error text only)
  (2, "return", "pars.NewError(v3, state.Position())"),   -- subfieldName: `fail`
  (1, "return", "nil")   -- subfieldName: `pure ()`
]

/-- `genbankGenericSubfieldParser` — `GenBank.refSub` (inside its `mapped`) -/
def fn_genbankGenericSubfieldParser : List Line := [
  (0, "func", "(s0 string, n0 int) pars.Parser"),
  (1, "return", "func0")   -- refSub
]

/-- `genbankGenericSubfieldParser/func0` — `GenBank.refSub`: `subfieldName (bs name) depth stale false; let (b, _) ← fieldBody depth 10` -/
def fn_genbankGenericSubfieldParser_func0 : List Line := [
  (0, "func", "(state *pars.State, result *pars.Result) error"),
  (1, "if", "v0 := genbankSubfieldNameParser(s0, n0)(state, result); v0 != nil"),   -- refSub: `subfieldName (bs name) depth stale false`
  (2, "return", "v0"),   -- refSub: the name's failure is the sub-field's
  (1, "return", "genbankFieldBodyParser(n0, '\\n')(state, result)")   -- refSub: `fieldBody depth 10`
]

/-- `genbankDefinitionParser` — `GenBank.definitionField`: `push … drop / pop` is the `.Map`, the name "DEFINITION" -/
def fn_genbankDefinitionParser : List Line := [
  (0, "func", "(gb *GenBank, n0 int) pars.Parser"),
  (1, "return", "genbankGenericFieldParser(\"DEFINITION\", n0).Map(func0)")   -- definitionField: `fieldName (bs "DEFINITION") depth`, `fieldBody depth 10`, under `push` (the frame of `.Map`)
]

/-- `genbankDefinitionParser/func0` — `GenBank.definitionField`, the part behind `drop` -/
def fn_genbankDefinitionParser_func0 : List Line := [
  (0, "func", "(result *pars.Result) error"),
  (1, "assign", "v0 := result.Token"),   -- definitionField: `| some (p, k, rb) =>`
  (1, "if", "len(v0) != 0 && v0[len(v0) - 1] != '.'"),   -- definitionField: `if !p.isEmpty && p.getLast? ≠ some 46 then`
  (2, "return", "errors.New(\"expected period\")"),   -- definitionField: `fail` ("expected period": soft, AFTER the body was joined in place: `patchFrames`)
  (1, "assign", "v0 = bytes.TrimSuffix(v0, []byte{'.'})"),   -- definitionField: `trimDot p`
  (1, "assign", "gb.Fields.Definition = string(v0)"),   -- definitionField: `{ f with definition := trimDot p }`
  (1, "return", "nil")   -- definitionField: `pure (…, true)`
]

/-- `genbankAccessionParser` — `GenBank.accessionField`: `mapped (genericField (bs "ACCESSION") depth)` -/
def fn_genbankAccessionParser : List Line := [
  (0, "func", "(gb *GenBank, n0 int) pars.Parser"),
  (1, "return", "genbankGenericFieldParser(\"ACCESSION\", n0).Map(func0)")   -- accessionField: `mapped` is the `.Map`, `genericField (bs "ACCESSION") depth`
]

/-- `genbankAccessionParser/func0` — `GenBank.accessionField` -/
def fn_genbankAccessionParser_func0 : List Line := [
  (0, "func", "(result *pars.Result) error"),
  (1, "assign", "gb.Fields.Accession = string(result.Token)"),   -- accessionField: `{ f with accession := r.1 }`
  (1, "return", "nil")   -- accessionField: `pure (…, true)`
]

/-- `genbankVersionParser` — `GenBank.versionField`: `mapped (genericField (bs "VERSION") depth)` -/
def fn_genbankVersionParser : List Line := [
  (0, "func", "(gb *GenBank, n0 int) pars.Parser"),
  (1, "return", "genbankGenericFieldParser(\"VERSION\", n0).Map(func0)")   -- versionField: `mapped`, `genericField (bs "VERSION") depth`
]

/-- `genbankVersionParser/func0` — `GenBank.versionField` -/
def fn_genbankVersionParser_func0 : List Line := [
  (0, "func", "(result *pars.Result) error"),
  (1, "assign", "gb.Fields.Version = string(result.Token)"),   -- versionField: `{ f with version := r.1 }`
  (1, "return", "nil")   -- versionField: `pure (…, true)`
]

/-- `genbankDBLinkPairParser` — `GenBank.dblinkPair` applied to a `line` -/
def fn_genbankDBLinkPairParser : List Line := [
  (0, "func", "(gb *GenBank, n0 int) pars.Parser"),
  (1, "return", "func0")   -- dblinkPair
]

/-- `genbankDBLinkPairParser/func0` — `GenBank.dblinkPair` (`none` = error) behind `let l ← line` -/
def fn_genbankDBLinkPairParser_func0 : List Line := [
  (0, "func", "(state *pars.State, result *pars.Result) error"),
  (1, "parse", "pars.Line(state, result)"),   -- dblinkField / dblinkMore: `let l ← line`
  (1, "assign", "v0 := string(result.Token)"),   -- dblinkPair: `l`
  (1, "switch", "v1 := strings.IndexByte(v0, ':'); v1"),   -- dblinkPair: `match indexOf 58 l with`
  (2, "case", "-1"),   -- dblinkPair: `| none => none`
  (3, "return", "pars.NewError(\"expected `:`\", state.Position())"),   -- dblinkPair: `none`
  (2, "default", ""),   -- dblinkPair: `| some i =>`
  (3, "if", "len(v0) <= v1 + 2 || v0[v1 + 1] != spaceByte"),   -- dblinkPair: `if l.length ≤ i + 2 ∨ l.getD (i + 1) 0 ≠ 32 then none` (f459ebc)
  (4, "return", "pars.NewError(\"expected DBLINK value\", state.Position())"),   -- dblinkPair: `none`
  (3, "assign", "v2, v3 := v0[:v1], v0[v1 + 2:]"),   -- dblinkPair: `some (l.take i, l.drop (i + 2))`
  (3, "call", "gb.Fields.DBLink.Set(v2, v3)"),   -- dblinkField / dblinkMore: `{ f with dblink := dictSet f.dblink db id }` — BEFORE a later failure, and it persists
  (3, "return", "nil")   -- dblinkPair: `some …`
]

/-- `genbankDBLinkParser` — `GenBank.dblinkField`, `GenBank.dblinkMore` -/
def fn_genbankDBLinkParser : List Line := [
  (0, "func", "(gb *GenBank, n0 int) pars.Parser"),
  (1, "return", "func0")   -- dblinkField
]

/-- `genbankDBLinkParser/func0` — `GenBank.dblinkField`: name, first pair, then `dblinkMore` while the indent matches -/
def fn_genbankDBLinkParser_func0 : List Line := [
  (0, "func", "(state *pars.State, result *pars.Result) error"),
  (1, "if", "v0 := genbankFieldNameParser(\"DBLINK\", n0)(state, pars.Void); v0 != nil"),   -- dblinkField: `fieldName (bs "DBLINK") depth`
  (2, "return", "v0"),   -- dblinkField: its failure is the field's
  (1, "if", "v1 := genbankDBLinkPairParser(gb, n0)(state, result); v1 != nil"),   -- dblinkField: `let l ← line; match dblinkPair l with | none => fail`
  (2, "return", "v1"),   -- dblinkField: `fail` (nothing set yet)
  (1, "for", "pars.String(strings.Repeat(\" \", n0))(state, pars.Void) == nil"),   -- dblinkMore: `match ← attempt (lit (sp depth)) with | none => pure (f, true) | some _ =>`
  (2, "if", "v2 := genbankDBLinkPairParser(gb, n0)(state, result); v2 != nil"),   -- dblinkMore: `let l ← line; match dblinkPair l with | none => pure (f, false)` — failure AFTER the record changed
  (3, "return", "v2"),   -- dblinkMore: `pure (f, false)`
  (1, "return", "nil")   -- dblinkMore: `pure (f, true)`
]

/-- `genbankKeywordsParser` — `GenBank.keywordsField` -/
def fn_genbankKeywordsParser : List Line := [
  (0, "func", "(gb *GenBank, n0 int) pars.Parser"),
  (1, "return", "func0")   -- keywordsField
]

/-- `genbankKeywordsParser/func0` — `GenBank.keywordsField`: lines joined with a BLANK, then `flatFileSplit` -/
def fn_genbankKeywordsParser_func0 : List Line := [
  (0, "func", "(state *pars.State, result *pars.Result) error"),
  (1, "if", "v0 := genbankFieldNameParser(\"KEYWORDS\", n0)(state, pars.Void); v0 != nil"),   -- keywordsField: `fieldName (bs "KEYWORDS") depth`
  (2, "return", "v0"),   -- keywordsField: its failure is the field's
  (1, "parse", "genbankFieldBodyParser(n0, ' ')(state, result)"),   -- keywordsField: `fieldBody depth 32` (separator blank; never fails)
  (1, "assign", "gb.Fields.Keywords = FlatFileSplit(string(result.Token))"),   -- keywordsField: `{ f with keywords := flatFileSplit b }`
  (1, "return", "nil")   -- keywordsField: `pure (…, true)`
]

/-- `genbankSourceParser` — `GenBank.sourceField` -/
def fn_genbankSourceParser : List Line := [
  (0, "func", "(gb *GenBank, n0 int) pars.Parser"),
  (1, "return", "func1")   -- sourceField
]

/-- `genbankSourceParser/func0` — `GenBank.sourceField`: the species is set by the `.Map` of SOURCE, BEFORE the ORGANISM line is looked at -/
def fn_genbankSourceParser_func0 : List Line := [
  (0, "func", "(result *pars.Result) error"),
  (1, "assign", "gb.Fields.Source.Species = string(result.Token)"),   -- sourceField: `let f := { f with species := r.1 }`
  (1, "return", "nil")   -- sourceField: the Map succeeds
]

/-- `genbankSourceParser/func1` — `GenBank.sourceField`; 66de3a0 (finding F34): the failure path CLEARS, it does not pop -/
def fn_genbankSourceParser_func1 : List Line := [
  (0, "func", "(state *pars.State, result *pars.Result) error"),
  (1, "if", "v0 := genbankGenericFieldParser(\"SOURCE\", n0).Map(func0)(state, result); v0 != nil"),   -- sourceField: `let r ← mapped (genericField (bs "SOURCE") depth)`
  (2, "return", "v0"),   -- sourceField: its failure is the field's (soft, position restored by `mapped`)
  (1, "if", "v1 := genbankSubfieldNameParser(\"ORGANISM\", n0)(state, pars.Void); v1 != nil"),   -- sourceField: `match ← attempt (subfieldName (bs "ORGANISM") depth r.2.2 true) with` (the result object is `pars.Void`: `void = true`)
  (2, "state", "state.Clear()"),   -- sourceField: `| none => do clear; pure (f, false)` — HARD failure, the species stays set (66de3a0: was `state.Pop()`)
  (2, "return", "v1"),   -- sourceField: `pure (f, false)`
  (1, "parse", "pars.Line(state, result)"),   -- sourceField: `let name ← line`
  (1, "assign", "gb.Fields.Source.Name = string(result.Token)"),   -- sourceField: `organism := name`
  (1, "assign", "v2 := bytes.Buffer{}"),   -- taxonMore: the accumulator starts empty
  (1, "for", "genbankFieldLineParser(n0)(state, result) == nil"),   -- taxonMore: `match ← attempt (fieldLine depth) with | some l => … | none => pure acc`
  (2, "if", "v2.Len() > 0"),   -- taxonMore: `if acc.isEmpty then l else acc ++ 32 :: l` (a blank only in front of a non-first NON-EMPTY accumulator)
  (3, "call", "v2.WriteByte(spaceByte)"),   -- taxonMore: `acc ++ 32 :: l`
  (2, "call", "v2.Write(result.Token)"),   -- taxonMore: `… l`
  (1, "assign", "gb.Fields.Source.Taxon = FlatFileSplit(string(v2.Bytes()))"),   -- sourceField: `taxon := flatFileSplit tax`
  (1, "return", "nil")   -- sourceField: `pure (…, true)`
]

/-- `genbankReferenceSubfieldParser` — `GenBank.refAltList` in the order of the `pars.Any`; `GenBank.refAlts`, `GenBank.refSubfield` (`push` = the frame of `Any`) -/
def fn_genbankReferenceSubfieldParser : List Line := [
  (0, "func", "(ref *Reference, n0 int) pars.Parser"),
  (1, "return", "pars.Any(func0(\"AUTHORS\", n0).Map(func1), func0(\"CONSRTM\", n0).Map(func2), func0(\"TITLE\", n0).Map(func3), func0(\"JOURNAL\", n0).Map(func4), func0(\"PUBMED\", n0).Map(func5), func0(\"REMARK\", n0).Map(func6))")   -- refAltList: AUTHORS, CONSRTM, TITLE, JOURNAL, PUBMED, REMARK; `refSub n depth stale` = `mapped (…)` for each
]

/-- `genbankReferenceSubfieldParser/func0` — `GenBank.refSub` (the local constructor is `genbankGenericSubfieldParser`) -/
def fn_genbankReferenceSubfieldParser_func0 : List Line := [
  (0, "func", "(s0 string, n1 int) pars.Parser"),
  (1, "return", "genbankGenericSubfieldParser(s0, n1)")   -- refSub
]

/-- `genbankReferenceSubfieldParser/func1` — `GenBank.refAltList` entry 1 -/
def fn_genbankReferenceSubfieldParser_func1 : List Line := [
  (0, "func", "(result *pars.Result) error"),
  (1, "assign", "ref.Authors = string(result.Token)"),   -- refAltList: `("AUTHORS", fun r b => { r with authors := b })`
  (1, "return", "nil")   -- refAlts: `| some b => do drop; pure (set r b, b.length)`
]

/-- `genbankReferenceSubfieldParser/func2` — `GenBank.refAltList` entry 2 -/
def fn_genbankReferenceSubfieldParser_func2 : List Line := [
  (0, "func", "(result *pars.Result) error"),
  (1, "assign", "ref.Group = string(result.Token)"),   -- refAltList: `("CONSRTM", fun r b => { r with group := b })`
  (1, "return", "nil")   -- refAlts: `| some b => …`
]

/-- `genbankReferenceSubfieldParser/func3` — `GenBank.refAltList` entry 3 -/
def fn_genbankReferenceSubfieldParser_func3 : List Line := [
  (0, "func", "(result *pars.Result) error"),
  (1, "assign", "ref.Title = string(result.Token)"),   -- refAltList: `("TITLE", fun r b => { r with title := b })`
  (1, "return", "nil")   -- refAlts: `| some b => …`
]

/-- `genbankReferenceSubfieldParser/func4` — `GenBank.refAltList` entry 4 -/
def fn_genbankReferenceSubfieldParser_func4 : List Line := [
  (0, "func", "(result *pars.Result) error"),
  (1, "assign", "ref.Journal = string(result.Token)"),   -- refAltList: `("JOURNAL", fun r b => { r with journal := b })`
  (1, "return", "nil")   -- refAlts: `| some b => …`
]

/-- `genbankReferenceSubfieldParser/func5` — `GenBank.refAltList` entry 5 -/
def fn_genbankReferenceSubfieldParser_func5 : List Line := [
  (0, "func", "(result *pars.Result) error"),
  (1, "assign", "ref.Xref = map[string]string{\"PUBMED\": string(result.Token)}"),   -- refAltList: `("PUBMED", fun r b => { r with pubmed := some b })`
  (1, "return", "nil")   -- refAlts: `| some b => …`
]

/-- `genbankReferenceSubfieldParser/func6` — `GenBank.refAltList` entry 6 -/
def fn_genbankReferenceSubfieldParser_func6 : List Line := [
  (0, "func", "(result *pars.Result) error"),
  (1, "assign", "ref.Comment = string(result.Token)"),   -- refAltList: `("REMARK", fun r b => { r with comment := b })`
  (1, "return", "nil")   -- refAlts: `| some b => …`
]

/-- `genbankReferenceParser` — `GenBank.referenceField` -/
def fn_genbankReferenceParser : List Line := [
  (0, "func", "(gb *GenBank, n0 int) pars.Parser"),
  (1, "return", "func0")   -- referenceField
]

/-- `genbankReferenceParser/func0` — `GenBank.referenceField`, `GenBank.refSubfields` -/
def fn_genbankReferenceParser_func0 : List Line := [
  (0, "func", "(state *pars.State, result *pars.Result) error"),
  (1, "if", "v0 := genbankFieldNameParser(\"REFERENCE\", n0)(state, pars.Void); v0 != nil"),   -- referenceField: `fieldName (bs "REFERENCE") depth`
  (2, "return", "v0"),   -- referenceField: its failure is the field's
  (1, "if", "v1 := pars.Int(state, result); v1 != nil"),   -- referenceField: `let number ← int` (a failure leaks the frame of `pars.Int`)
  (2, "return", "v1"),   -- referenceField: its failure is the field's
  (1, "assign", "v2 := Reference{Number: result.Value.(int)}"),   -- referenceField: `number := number`
  (1, "assign", "v3 := 3 - len(strconv.Itoa(v2.Number))"),   -- referenceField: `let w := (itoaB number).length`, `sp (3 - w)` (natural subtraction = the clamp, 761240c)
  (1, "if", "v3 < 0"),   -- referenceField: the clamp
  (2, "assign", "v3 = 0"),   -- referenceField: the clamp
  (1, "assign", "v4 := pars.String(strings.Repeat(\" \", v3))"),   -- referenceField: `lit (sp (3 - w))`
  (1, "parse", "v4(state, pars.Void)"),   -- referenceField: `let _ ← attempt (lit …)` (its failure is ignored)
  (1, "parse", "pars.Line(state, result)"),   -- referenceField: `let info ← line`
  (1, "assign", "v2.Info = string(result.Token)"),   -- referenceField: `info := info`
  (1, "assign", "v5 := genbankReferenceSubfieldParser(&v2, n0)"),   -- refSubfields: `refSubfield depth stale r` writes into the reference at hand
  (1, "for", "v5(state, result) == nil"),   -- refSubfields: `match ← attempt (refSubfield depth stale r) with | some (r', stale') => refSubfields … | none => pure r`
  (1, "assign", "gb.Fields.References = append(gb.Fields.References, v2)"),   -- referenceField: `{ f with references := f.references ++ [r] }`
  (1, "return", "nil")   -- referenceField: `pure (…, true)`
]

/-- `genbankCommentParser` — `GenBank.commentField`: `mapped (genericField (bs "COMMENT") depth)` -/
def fn_genbankCommentParser : List Line := [
  (0, "func", "(gb *GenBank, n0 int) pars.Parser"),
  (1, "return", "genbankGenericFieldParser(\"COMMENT\", n0).Map(func0)")   -- commentField: `mapped`, `genericField (bs "COMMENT") depth`
]

/-- `genbankCommentParser/func0` — `GenBank.commentField` -/
def fn_genbankCommentParser_func0 : List Line := [
  (0, "func", "(result *pars.Result) error"),
  (1, "assign", "gb.Fields.Comments = append(gb.Fields.Comments, string(result.Token))"),   -- commentField: `{ f with comments := f.comments ++ [r.1] }`
  (1, "return", "nil")   -- commentField: `pure (…, true)`
]

/-- `genbankFeatureParser` — `GenBank.featuresField`, `GenBank.featuresSub` -/
def fn_genbankFeatureParser : List Line := [
  (0, "func", "(gb *GenBank, n0 int) pars.Parser"),
  (1, "return", "func0")   -- featuresField
]

/-- `genbankFeatureParser/func0` — `GenBank.featuresField`: `lit (bs "FEATURES"); let _ ← line; clear; table reg` -/
def fn_genbankFeatureParser_func0 : List Line := [
  (0, "func", "(state *pars.State, result *pars.Result) error"),
  (1, "if", "v0 := pars.String(\"FEATURES\")(state, result); v0 != nil"),   -- featuresField: `lit (bs "FEATURES")` (no padding check: `pars.String`)
  (2, "return", "v0"),   -- featuresField: its failure is the field's (soft)
  (1, "parse", "pars.Line(state, result)"),   -- featuresField: `let _ ← line`
  (1, "state", "state.Clear()"),   -- featuresField: `clear` — from here on a failure of the table is HARD
  (1, "if", "v1 := INSDCTableParser(\"\")(state, result); v1 != nil"),   -- featuresField: `table reg` (`INSDCTableParser("")`, model `GenBank.table`)
  (2, "return", "v1"),   -- featuresField: its failure is the field's (hard)
  (1, "assign", "gb.Table = result.Value.([]gts.Feature)"),   -- featuresSub: `pure ((f, t, o, r'), true)`
  (1, "return", "nil")   -- featuresSub: `pure …`
]

/-- `genbankContigParser` — `GenBank.contigField` -/
def fn_genbankContigParser : List Line := [
  (0, "func", "(gb *GenBank, n0 int) pars.Parser"),
  (1, "return", "func1")   -- contigField
]

/-- `genbankContigParser/func0` — `GenBank.contigStop`, the filter handed to `pars.Until` (a4b3f5d; also regenerated as a function: `Gts.Bridge.contigStop_eq`) -/
def fn_genbankContigParser_func0 : List Line := [
  (0, "func", "(b0 byte) bool"),
  (1, "return", "b0 == ':' || b0 == '\\n' || b0 == '\\r'")   -- contigStop: `b == 58 || b == 10 || b == 13`
]

/-- `genbankContigParser/func1` — `GenBank.contigField`: `join(` accession `:` head `..` tail `)`, the accession and its colon on the line of the field (a4b3f5d) -/
def fn_genbankContigParser_func1 : List Line := [
  (0, "func", "(state *pars.State, result *pars.Result) error"),
  (1, "if", "v0 := genbankFieldNameParser(\"CONTIG\", n0)(state, result); v0 != nil"),   -- contigField: `fieldName (bs "CONTIG") depth`
  (2, "return", "v0"),   -- contigField: its failure is the field's
  (1, "if", "v1 := pars.String(\"join(\")(state, pars.Void); v1 != nil"),   -- contigField: `lit (bs "join(")`
  (2, "return", "v1"),   -- contigField: fails
  (1, "if", "v2 := pars.Until(func0)(state, result); v2 != nil"),   -- contigField: `let acc ← untilFilter contigStop` (`pars.Until` of a `func(byte) bool` is go-pars `untilFilter`)
  (2, "return", "v2"),   -- contigField: fails (end of the input in front of a colon or line end)
  (1, "assign", "v3 := string(result.Token)"),   -- contigField: `acc`
  (1, "if", "v4 := pars.Byte(':')(state, pars.Void); v4 != nil"),   -- contigField: `lit [58]` (the colon is required; it was `pars.Skip(state, 1)` = `advance1`)
  (2, "return", "v4"),   -- contigField: fails (the line ends in front of a colon)
  (1, "if", "v5 := pars.Int(state, result); v5 != nil"),   -- contigField: `let head ← int`
  (2, "return", "v5"),   -- contigField: fails
  (1, "assign", "v6 := result.Value.(int)"),   -- contigField: `head`
  (1, "if", "v7 := pars.String(\"..\")(state, pars.Void); v7 != nil"),   -- contigField: `lit (bs "..")`
  (2, "return", "v7"),   -- contigField: fails
  (1, "if", "v8 := pars.Int(state, result); v8 != nil"),   -- contigField: `let tail ← int`
  (2, "return", "v8"),   -- contigField: fails
  (1, "assign", "v9 := result.Value.(int)"),   -- contigField: `tail`
  (1, "if", "v10 := pars.Byte(')')(state, pars.Void); v10 != nil"),   -- contigField: `lit [41]`
  (2, "return", "v10"),   -- contigField: fails
  (1, "assign", "gb.Fields.Contig.Accession = v3"),   -- contigField: `contigAcc := acc`
  (1, "assign", "gb.Fields.Contig.Region = gts.Segment{v6 - 1, v9}"),   -- contigField: `contigHead := head - 1, contigTail := tail`
  (1, "return", "nil")   -- contigField: `pure (…, true)`
]

/-- `makeGenbankOriginParser` — `GenBank.originField length depth`, `GenBank.originSub` -/
def fn_makeGenbankOriginParser : List Line := [
  (0, "func", "(n0 int) genbankSubparser"),
  (1, "return", "func0")   -- originField takes the declared length
]

/-- `makeGenbankOriginParser/func0` — `GenBank.originField length depth` -/
def fn_makeGenbankOriginParser_func0 : List Line := [
  (0, "func", "(gb *GenBank, n1 int) pars.Parser"),
  (1, "return", "func1")   -- originField
]

/-- `makeGenbankOriginParser/func1` — `GenBank.originField` (the part behind `clear` is also regenerated literally: Gts/Gen/OriginReader.lean, `Gts.Bridge.originParser_gen`) -/
def fn_makeGenbankOriginParser_func1 : List Line := [
  (0, "func", "(state *pars.State, result *pars.Result) error"),
  (1, "if", "v0 := genbankFieldNameParser(\"ORIGIN\", n1)(state, result); v0 != nil"),   -- originField: `fieldName (bs "ORIGIN") depth`
  (2, "return", "v0"),   -- originField: its failure is the field's (soft)
  (1, "parse", "pars.Line(state, result)"),   -- originField: `let _ ← line`
  (1, "state", "state.Clear()"),   -- originField: `clear` — from here on every failure is HARD (2c8ca02)
  (1, "if", "n0 > maxOriginResidues"),   -- originField: `if length > 1000000020 then fail` (be672b0)
  (2, "return", "pars.NewError(\"sequence is too long for an ORIGIN block\", state.Position())"),   -- originField: `fail`
  (1, "if", "v1 := state.Request(toOriginLength(n0)); v1 != nil"),   -- originField: `let n := Origin.toOriginLength length; … if s.rest.length < n.toNat then fail`
  (2, "return", "pars.NewError(\"not enough bytes in state\", state.Position())"),   -- originField: `fail`
  (1, "assign", "v2 := state.Buffer()"),   -- originField: `let p := s.rest.take n.toNat`
  (1, "if", "validateOrigin(v2, n0, state.Position()) == nil"),   -- originField: `match Origin.validateOrigin p length with | .ok () => do advanceN n.toNat; pure p`
  (2, "state", "state.Advance()"),   -- originField: `advanceN n.toNat`
  (1, "else", ""),   -- originField: `| .error .fail =>`
  (2, "assign", "v3 := slowGenBankOriginParser(n0)"),   -- originField: `slowLines length n.toNat length.toNat 0 s.rest []`
  (2, "if", "v4 := v3(state, result); v4 != nil"),   -- originField: `| .error .fail => fail`
  (3, "return", "v4"),   -- originField: `fail`
  (2, "assign", "v2 = result.Token"),   -- originField: `pure (acc ++ List.replicate (n.toNat - acc.length) 0)`
  (1, "if", "v5, v6 := pars.Next(state); v6 == nil && v5 == spaceByte"),   -- originField: `match ← attempt next with | some 32 => fail | _ => pure buf`
  (2, "return", "pars.NewError(\"sequence is longer than the declared length\", state.Position())"),   -- originField: `fail`
  (1, "assign", "gb.Origin = &Origin{v2, false}"),   -- originSub: `pure ((f, t, .buffer b, r), true)`
  (1, "return", "nil")   -- originSub: `pure …`
]

/-- `init` — `GenBank.Registry.typeOf` looks names up by MEMBERSHIP; the code keeps the three lists sorted for `searchString` (`Gts.Bridge.searchString_mem`: on a sorted list the binary search is membership) -/
def fn_init : List Line := [
  (0, "func", "()"),
  (1, "call", "sort.Strings(QuotedQualifierNames)"),   -- Registry.default: `quoted` (sorted here, any order in the model)
  (1, "call", "sort.Strings(LiteralQualifierNames)"),   -- Registry.default: `literal`
  (1, "call", "sort.Strings(ToggleQualifierNames)")   -- Registry.default: `toggle`
]

/-- `RegisterQuotedQualifier` — `GenBank.Registry.addQuoted`: `{ reg with quoted := n :: reg.quoted }` — append and re-sort keeps every member (seeded C01-g lost one) -/
def fn_RegisterQuotedQualifier : List Line := [
  (0, "func", "(ss0 ...string)"),
  (1, "assign", "QuotedQualifierNames = append(QuotedQualifierNames, ss0...)"),   -- Registry.addQuoted: `n :: reg.quoted` (every old member stays)
  (1, "call", "sort.Strings(QuotedQualifierNames)")   -- Registry.addQuoted: sorted again, so that `searchString` is membership
]

/-- `RegisterLiteralQualifier` — `GenBank.Registry.addLiteral` -/
def fn_RegisterLiteralQualifier : List Line := [
  (0, "func", "(ss0 ...string)"),
  (1, "assign", "LiteralQualifierNames = append(LiteralQualifierNames, ss0...)"),   -- Registry.addLiteral: `n :: reg.literal`
  (1, "call", "sort.Strings(LiteralQualifierNames)")   -- Registry.addLiteral: sorted again
]

/-- `RegisterToggleQualifier` — `GenBank.Registry.addToggle` -/
def fn_RegisterToggleQualifier : List Line := [
  (0, "func", "(ss0 ...string)"),
  (1, "assign", "ToggleQualifierNames = append(ToggleQualifierNames, ss0...)"),   -- Registry.addToggle: `n :: reg.toggle`
  (1, "call", "sort.Strings(ToggleQualifierNames)")   -- Registry.addToggle: sorted again
]

/-- `searchString` — `GenBank.Registry.typeOf`: `name ∈ list`; regenerated as a FUNCTION (`Gts.Gen.searchString`) and proved to be membership on a sorted list (`Gts.Bridge.searchString_mem`) -/
def fn_searchString : List Line := [
  (0, "func", "(s0 string, ss0 []string) bool"),
  (1, "if", "len(ss0) == 0"),   -- typeOf: `name ∈ …` on the empty list
  (2, "return", "false"),   -- typeOf: false
  (1, "assign", "v0 := len(ss0) / 2"),   -- searchString_mem: the middle `n < len(ss)`
  (1, "assign", "v1, v2, v3 := ss0[:v0], ss0[v0], ss0[v0 + 1:]"),   -- searchString_mem: `ss = ss.take n ++ ss[n] :: ss.drop (n + 1)`
  (1, "switch", ""),   -- searchString_mem: three cases
  (2, "case", "s0 < v2"),   -- searchString_mem: `lt s m`: not in the right half (sorted), search the left half
  (3, "return", "searchString(s0, v1)"),   -- searchString_mem: the left half
  (2, "case", "s0 > v2"),   -- searchString_mem: `lt m s`: not in the left half
  (3, "return", "searchString(s0, v3)"),   -- searchString_mem: the right half
  (2, "default", ""),   -- searchString_mem: neither: `s = m` (`<` is total)
  (3, "return", "true")   -- typeOf: true
]

/-- `IsQuotedQualifier` — `GenBank.Registry.typeOf`: `name ∈ reg.quoted` -/
def fn_IsQuotedQualifier : List Line := [
  (0, "func", "(s0 string) bool"),
  (1, "return", "searchString(s0, QuotedQualifierNames)")   -- typeOf: `name ∈ reg.quoted`
]

/-- `IsLiteralQualifier` — `GenBank.Registry.typeOf`: `name ∈ reg.literal` -/
def fn_IsLiteralQualifier : List Line := [
  (0, "func", "(s0 string) bool"),
  (1, "return", "searchString(s0, LiteralQualifierNames)")   -- typeOf: `name ∈ reg.literal`
]

/-- `IsToggleQualifier` — `GenBank.Registry.typeOf`: `name ∈ reg.toggle` -/
def fn_IsToggleQualifier : List Line := [
  (0, "func", "(s0 string) bool"),
  (1, "return", "searchString(s0, ToggleQualifierNames)")   -- typeOf: `name ∈ reg.toggle`
]

/-- `GetQualifierType` — `GenBank.Registry.typeOf`: quoted, literal, toggle, else unknown — in this order -/
def fn_GetQualifierType : List Line := [
  (0, "func", "(s0 string) QualifierType"),
  (1, "switch", ""),   -- typeOf
  (2, "case", "IsQuotedQualifier(s0)"),   -- typeOf: `if name ∈ reg.quoted then .quoted`
  (3, "return", "QuotedQualifier"),   -- typeOf: `.quoted`
  (2, "case", "IsLiteralQualifier(s0)"),   -- typeOf: `else if name ∈ reg.literal then .literal`
  (3, "return", "LiteralQualifier"),   -- typeOf: `.literal`
  (2, "case", "IsToggleQualifier(s0)"),   -- typeOf: `else if name ∈ reg.toggle then .toggle`
  (3, "return", "ToggleQualifier"),   -- typeOf: `.toggle`
  (2, "default", ""),   -- typeOf: `else .unknown`
  (3, "return", "UnknownQualifier")   -- typeOf: `.unknown`
]

/-- `qualifierNameParser` — `GenBank.qualifierName pre` -/
def fn_qualifierNameParser : List Line := [
  (0, "func", "(s0 string) pars.Parser"),
  (1, "return", "func0")   -- qualifierName
]

/-- `qualifierNameParser/func0` — `GenBank.qualifierName`: `lit (pre ++ [47]); word isSnake` -/
def fn_qualifierNameParser_func0 : List Line := [
  (0, "func", "(state *pars.State, result *pars.Result) error"),
  (1, "if", "v0 := state.Request(len([]byte(s0 + \"/\"))); v0 != nil"),   -- qualifierName: `lit (pre ++ [47])` (`Pars.lit`: `p.length ≤ s.rest.length`)
  (2, "return", "v0"),   -- lit: fails
  (1, "if", "!bytes.Equal(state.Buffer(), []byte(s0 + \"/\"))"),   -- lit: `s.rest.take p.length == p`
  (2, "return", "pars.NewError(fmt.Sprintf(\"expected %q\", s0 + \"/\"), state.Position())"),   -- lit: fails, position unchanged
  (1, "state", "state.Advance()"),   -- lit: `advanceN p.length`
  (1, "return", "pars.Word(ascii.IsSnake)(state, result)")   -- qualifierName: `word isSnake` — a missing word leaves the state behind the slash
]

/-- `quotedQualifierParser` — `GenBank.quotedValue pre` -/
def fn_quotedQualifierParser : List Line := [
  (0, "func", "(s0 string) pars.Parser"),
  (1, "return", "func0")   -- quotedValue
]

/-- `quotedQualifierParser/func0` — `GenBank.quotedValue`, `GenBank.stripCont` / `stripLoop` (the one-pass loop of 2612fae; also regenerated as a FUNCTION: Gts/Gen/GbReaderFns.lean) -/
def fn_quotedQualifierParser_func0 : List Line := [
  (0, "func", "(state *pars.State, result *pars.Result) error"),
  (1, "state", "state.Push()"),   -- quotedValue: `push`
  (1, "assign", "v0, v1 := pars.Next(state)"),   -- quotedValue: `match ← attempt next with`
  (1, "if", "v1 != nil"),   -- quotedValue: `| none =>`
  (2, "state", "state.Pop()"),   -- quotedValue: `pop`
  (2, "return", "v1"),   -- quotedValue: `fail`
  (1, "if", "v0 != '='"),   -- quotedValue: `if c != 61 then`
  (2, "state", "state.Pop()"),   -- quotedValue: `pop`
  (2, "return", "pars.NewError(\"expected `=`\", state.Position())"),   -- quotedValue: `fail`
  (1, "state", "state.Advance()"),   -- quotedValue: `advance1`
  (1, "if", "v2 := pars.Quoted('\"')(state, result); v2 != nil"),   -- quotedValue: `match ← attempt quoted with | some t => pure t | none =>` (`GenBank.quoted` = `pars.Quoted('"')`)
  (2, "state", "state.Pop()"),   -- quotedValue: `pop`
  (2, "return", "v2"),   -- quotedValue: `fail`
  (1, "state", "state.Drop()"),   -- quotedValue: `drop`
  (1, "parse", "pars.EOL(state, pars.Void)"),   -- quotedValue: `let _ ← attempt eol` (its failure is ignored)
  (1, "assign", "v3 := result.Token"),   -- quotedValue: `tok`
  (1, "assign", "v4 := 0"),   -- stripCont: `stripLoop … [] t` (`w`: `acc`, the value so far, is empty)
  (1, "for", "v5 := 0; v5 < len(v3); v5++"),   -- stripLoop: the recursion over the bytes of the token (`r`: `| acc, c :: t =>`, `| acc, [] => acc.reverse`)
  (2, "assign", "v3[v4] = v3[v5]"),   -- stripLoop: `c :: acc` (the byte is moved behind the value so far …)
  (2, "assign", "v4++"),   -- stripLoop: (… which is one byte longer)
  (2, "if", "bytes.HasSuffix(v3[:v4], append([]byte{'\\n'}, []byte(s0)...))"),   -- stripLoop: `if rp.isPrefixOf (c :: acc)` (`rp` = `"\n" ++ prefix` reversed, `acc` = `token[:w]` reversed)
  (3, "assign", "v4 -= len(s0)"),   -- stripLoop: `(c :: acc).drop k` (`k` = `len(prefix)`: the indent is cut off, the line feed stays)
  (1, "result", "result.SetToken(v3[:v4])"),   -- quotedValue: `pure (stripCont pre tok)`
  (1, "return", "nil")   -- quotedValue: `pure …`
]

/-- `literalQualifierValueParser` — `GenBank.literalMore pre` behind `line; push` in `GenBank.literalValue` -/
def fn_literalQualifierValueParser : List Line := [
  (0, "func", "(s0 string) pars.Parser"),
  (1, "return", "func0")   -- literalMore
]

/-- `literalQualifierValueParser/func0` — `GenBank.literalValue` (from `let l ← line` to the inner result) and `GenBank.literalMore` -/
def fn_literalQualifierValueParser_func0 : List Line := [
  (0, "func", "(state *pars.State, result *pars.Result) error"),
  (1, "parse", "pars.Line(state, result)"),   -- literalValue: `let l ← line`
  (1, "assign", "v0 := result.Token"),   -- literalValue: `l` is the accumulator
  (1, "state", "state.Push()"),   -- literalValue: `push`
  (1, "for", "pars.String(s0)(state, result) == nil"),   -- literalMore: `match ← attempt (lit pre) with | none => do drop; pure p | some _ =>`
  (2, "assign", "v1, v2 := pars.Next(state)"),   -- literalMore: `match ← attempt next with`
  (2, "if", "v2 != nil"),   -- literalMore: `| none =>`
  (3, "result", "result.SetToken(v0)"),   -- literalMore: `pure p`
  (3, "state", "state.Pop()"),   -- literalMore: `pop`
  (3, "return", "v2"),   -- literalMore: the error is discarded by `literalQualifierParser`
  (2, "if", "v1 == '/'"),   -- literalMore: `if c == 47 then` (the next qualifier)
  (3, "result", "result.SetToken(v0)"),   -- literalMore: `pure p`
  (3, "state", "state.Pop()"),   -- literalMore: `pop`
  (3, "return", "nil"),   -- literalMore: `pure p`
  (2, "parse", "pars.Line(state, result)"),   -- literalMore: `let l ← line`
  (2, "assign", "v0 = append(v0, '\\n')"),   -- literalMore: `p ++ 10 :: l`
  (2, "assign", "v0 = append(v0, result.Token...)"),   -- literalMore: `p ++ 10 :: l`
  (2, "state", "state.Drop()"),   -- literalMore: `drop`
  (2, "state", "state.Push()"),   -- literalMore: `push`
  (1, "result", "result.SetToken(v0)"),   -- literalMore: `| none => do drop; pure p`
  (1, "state", "state.Drop()"),   -- literalMore: `drop`
  (1, "return", "nil")   -- literalMore: `pure p`
]

/-- `literalQualifierParser` — `GenBank.literalValue pre` -/
def fn_literalQualifierParser : List Line := [
  (0, "func", "(s0 string) pars.Parser"),
  (1, "return", "func0")   -- literalValue
]

/-- `literalQualifierParser/func0` — `GenBank.literalValue` -/
def fn_literalQualifierParser_func0 : List Line := [
  (0, "func", "(state *pars.State, result *pars.Result) error"),
  (1, "state", "state.Push()"),   -- literalValue: `push`
  (1, "assign", "v0, v1 := pars.Next(state)"),   -- literalValue: `match ← attempt next with`
  (1, "if", "v1 != nil"),   -- literalValue: `| none =>`
  (2, "state", "state.Pop()"),   -- literalValue: `pop`
  (2, "return", "v1"),   -- literalValue: `fail`
  (1, "if", "v0 != '='"),   -- literalValue: `if c != 61 then`
  (2, "state", "state.Pop()"),   -- literalValue: `pop`
  (2, "return", "pars.NewError(\"expected `=`\", state.Position())"),   -- literalValue: `fail`
  (1, "state", "state.Advance()"),   -- literalValue: `advance1`
  (1, "parse", "literalQualifierValueParser(s0)(state, result)"),   -- literalValue: `let l ← line; push; … literalMore pre (n + 1) l` (its error is DISCARDED)
  (1, "state", "state.Drop()"),   -- literalValue: `drop`
  (1, "return", "nil")   -- literalValue: `pure v`
]

/-- `QualifierParser` — `GenBank.qualifier pre reg` -/
def fn_QualifierParser : List Line := [
  (0, "func", "(s0 string) pars.Parser"),
  (1, "return", "func0")   -- qualifier
]

/-- `QualifierParser/func0` — `GenBank.qualifier`: the name, then the value parser of the name's type; an unknown name is tried as quoted, literal, toggle IN THIS ORDER and learned -/
def fn_QualifierParser_func0 : List Line := [
  (0, "func", "(state *pars.State, result *pars.Result) error"),
  (1, "if", "v0 := qualifierNameParser(s0)(state, result); v0 != nil"),   -- qualifier: `let name ← qualifierName pre`
  (2, "return", "v0"),   -- qualifier: its failure is the qualifier's
  (1, "assign", "v1 := string(result.Token)"),   -- qualifier: `name`
  (1, "switch", "v2 := GetQualifierType(v1); v2"),   -- qualifier: `match reg.typeOf name with`
  (2, "case", "UnknownQualifier"),   -- qualifier: `| .unknown =>`
  (3, "switch", ""),   -- qualifier: the three attempts in order; when none parses NOTHING fails and the value is the stale token
  (4, "case", "quotedQualifierParser(s0)(state, result) == nil"),   -- qualifier: `match ← attempt (quotedValue pre) with | some v => …`
  (5, "call", "RegisterQuotedQualifier(v1)"),   -- qualifier: `reg.addQuoted name`
  (4, "case", "literalQualifierParser(s0)(state, result) == nil"),   -- qualifier: `match ← attempt (literalValue pre) with | some v => …`
  (5, "call", "RegisterLiteralQualifier(v1)"),   -- qualifier: `reg.addLiteral name`
  (4, "case", "pars.EOL(state, result) == nil"),   -- qualifier: `match ← attempt eol with | some _ => …`
  (5, "call", "RegisterToggleQualifier(v1)"),   -- qualifier: `reg.addToggle name`
  (2, "default", ""),   -- qualifier: `| .quoted | .literal | .toggle`
  (3, "if", "v3 := []pars.Parser{quotedQualifierParser(s0), literalQualifierParser(s0), pars.EOL}[v2](state, result); v3 != nil"),   -- qualifier: `quotedValue pre` / `literalValue pre` / `eol` by `qualifierTypes` (index = the `iota` value of the type)
  (4, "return", "v3"),   -- qualifier: the value parser's failure is the qualifier's
  (1, "assign", "v4 := string(result.Token)"),   -- qualifier: the value is the token
  (1, "if", "GetQualifierType(v1) == ToggleQualifier"),   -- qualifier: `| .toggle => … pure ((name, []), reg)`, `| some _ => pure ((name, []), reg.addToggle name)` (2dd2956: the type is looked up AGAIN, after learning)
  (2, "assign", "v4 = \"\""),   -- qualifier: `[]`
  (1, "result", "result.SetValue(QualifierIO{v1, v4})"),   -- qualifier: `pure ((name, v), reg)`
  (1, "return", "nil")   -- qualifier: `pure …`
]

/-- `featureKeylineParser` — `GenBank.keyline pre depth` -/
def fn_featureKeylineParser : List Line := [
  (0, "func", "(s0 string, n0 int) pars.Parser"),
  (1, "return", "func0")   -- keyline
]

/-- `featureKeylineParser/func0` — `GenBank.keyline`: `lit (sp pre); word isSnake; blanks (depth - (pre + key.length)); location; eol` -/
def fn_featureKeylineParser_func0 : List Line := [
  (0, "func", "(state *pars.State, result *pars.Result) error"),
  (1, "if", "v0 := state.Request(len([]byte(s0))); v0 != nil"),   -- keyline: `lit (sp pre)` (`Pars.lit`: `p.length ≤ s.rest.length`)
  (2, "return", "v0"),   -- lit: fails
  (1, "if", "!bytes.Equal(state.Buffer(), []byte(s0))"),   -- lit: `s.rest.take p.length == p`
  (2, "return", "pars.NewError(fmt.Sprintf(\"expected %q\", s0), state.Position())"),   -- lit: fails, position unchanged
  (1, "state", "state.Advance()"),   -- lit: `advanceN p.length`
  (1, "if", "v1 := pars.Word(ascii.IsSnake).Error(errFeatureKey)(state, result); v1 != nil"),   -- keyline: `let key ← word isSnake`
  (2, "return", "v1"),   -- keyline: its failure is the key line's (nothing restored)
  (1, "assign", "v2 := string(result.Token)"),   -- keyline: `key`
  (1, "for", "v3 := 0; v3 < n0 - len(s0 + v2); v3++"),   -- keyline: `blanks (depth - (pre + key.length))` (natural subtraction: no iteration when the key is too wide)
  (2, "assign", "v4, v5 := pars.Next(state)"),   -- blanks: `let c ← next`
  (2, "if", "v5 != nil"),   -- blanks: `next` fails at the end of input
  (3, "return", "v5"),   -- blanks: fails
  (2, "if", "v4 != ' '"),   -- blanks: `if c != 32 then fail`
  (3, "return", "pars.NewError(\"wanted indent\", state.Position())"),   -- blanks: `fail`
  (2, "state", "state.Advance()"),   -- blanks: `advance1`
  (1, "if", "v6 := gts.ParseLocation(state, result); v6 != nil"),   -- keyline: `let l ← location` (`gts.ParseLocation`, model `LocParse.loc`)
  (2, "return", "v6"),   -- keyline: its failure is the key line's
  (1, "assign", "v7 := result.Value.(gts.Location)"),   -- keyline: `l`
  (1, "if", "v8 := pars.EOL(state, result); v8 != nil"),   -- keyline: `let _ ← eol`
  (2, "return", "v8"),   -- keyline: its failure is the key line's
  (1, "result", "result.SetValue(keyline{0, v2, 0, v7})"),   -- keyline: `pure (key, l)`
  (1, "return", "nil")   -- keyline: `pure …`
]

/-- `INSDCTableParser` — `GenBank.table reg` -/
def fn_INSDCTableParser : List Line := [
  (0, "func", "(s0 string) pars.Parser"),
  (1, "return", "func1")   -- table
]

/-- `INSDCTableParser/func0` — `GenBank.firstKeyline`, its result `(a.length, key, b.length, l)` -/
def fn_INSDCTableParser_func0 : List Line := [
  (0, "func", "(result *pars.Result) error"),
  (1, "assign", "v0 := result.Children"),   -- firstKeyline: the members of the `Seq`
  (1, "assign", "v1 := len(v0[1].Token)"),   -- firstKeyline: `a.length` (member 1: `spaces`)
  (1, "assign", "v2 := string(v0[2].Token)"),   -- firstKeyline: `key` (member 2: `word isSnake`)
  (1, "assign", "v3 := len(v0[3].Token)"),   -- firstKeyline: `b.length` (member 3: `spaces`)
  (1, "assign", "v4 := v0[4].Value.(gts.Location)"),   -- firstKeyline: `l` (member 4: `location`)
  (1, "result", "result.SetValue(keyline{v1, v2, v3, v4})"),   -- firstKeyline: `pure (a.length, key, b.length, l)`
  (1, "return", "nil")   -- firstKeyline: `drop; drop`
]

/-- `INSDCTableParser/func1` — `GenBank.table`, `GenBank.tableMore`; the `order` maps are dead code -/
def fn_INSDCTableParser_func1 : List Line := [
  (0, "func", "(state *pars.State, result *pars.Result) error"),
  (1, "if", "v5 := pars.Seq(s0, pars.Spaces, pars.Word(ascii.IsSnake).Error(errFeatureKey), pars.Spaces, gts.ParseLocation, pars.EOL).Map(func0)(state, result); v5 != nil"),   -- table: `let (pre, key, pst, l) ← firstKeyline` (`push; push` = `Seq` and `Map`; members: "" , `spaces`, `word isSnake`, `spaces`, `location`, `eol`)
  (2, "return", "v5"),   -- table: its failure is the table's
  (1, "assign", "v6 := result.Value.(keyline)"),   -- table: `(pre, key, pst, l)`
  (1, "assign", "v7, v8, v9, v10 := v6.pre, v6.key, v6.pst, v6.loc"),   -- table: `(pre, key, pst, l)`
  (1, "assign", "v11 := v7 + len(v8) + v9"),   -- table: `let depth := pre + key.length + pst`
  (1, "assign", "v12 := featureKeylineParser(s0 + strings.Repeat(\" \", v7), v11)"),   -- tableMore: `keyline pre depth`
  (1, "assign", "v13 := QualifierParser(s0 + strings.Repeat(\" \", v11))"),   -- table / tableMore: `qualifiers (sp depth) …`
  (1, "assign", "v14 := pars.Many(v13)"),   -- qualifiers: `pars.Many`: until the first failure, whose leftovers stay
  (1, "parse", "v14(state, result)"),   -- table: `let (qs, reg') ← qualifiers (sp depth) (n + 1) reg []` (never fails)
  (1, "assign", "v15 := gts.Props{}"),   -- propsOfItems: `foldl … []`
  (1, "assign", "v16 := make(map[string]int)"),   -- (dead: `order` is never read)
  (1, "range", "_, v17 := range result.Children"),   -- propsOfItems: `qs.foldl (fun ps q => propsAdd ps q.1 q.2) []`
  (2, "assign", "v18, v19 := v17.Value.(QualifierIO).Unpack()"),   -- propsOfItems: `q.1`, `q.2`
  (2, "call", "v15.Add(v18, v19)"),   -- propsOfItems: `propsAdd ps q.1 q.2`
  (2, "if", "_, v20 := v16[v18]; v18 != \"translation\" && !v20"),   -- (dead)
  (3, "assign", "v16[v18] = len(v16)"),   -- (dead)
  (1, "assign", "v21 := []gts.Feature{gts.NewFeature(v8, v10, v15)}"),   -- table: `tableMore pre depth (n + 1) reg' [⟨key, l, propsOfItems qs⟩]`
  (1, "for", "v12(state, result) == nil"),   -- tableMore: `match ← attempt (keyline pre depth) with | none => pure (acc.reverse, reg) | some (key, l) =>`
  (2, "assign", "v22 := result.Value.(keyline)"),   -- tableMore: `(key, l)`
  (2, "assign", "v23, v24 := v22.key, v22.loc"),   -- tableMore: `(key, l)`
  (2, "parse", "v14(state, result)"),   -- tableMore: `let (qs, reg') ← qualifiers (sp depth) (n + 1) reg []`
  (2, "assign", "v25 := gts.Props{}"),   -- propsOfItems: `foldl … []`
  (2, "assign", "v26 := make(map[string]int)"),   -- (dead)
  (2, "range", "_, v27 := range result.Children"),   -- propsOfItems: `qs.foldl …`
  (3, "assign", "v28, v29 := v27.Value.(QualifierIO).Unpack()"),   -- propsOfItems: `q.1`, `q.2`
  (3, "call", "v25.Add(v28, v29)"),   -- propsOfItems: `propsAdd ps q.1 q.2`
  (3, "if", "_, v30 := v26[v28]; v28 != \"translation\" && !v30"),   -- (dead)
  (4, "assign", "v26[v28] = len(v26)"),   -- (dead)
  (2, "assign", "v21 = append(v21, gts.NewFeature(v23, v24, v25))"),   -- tableMore: `⟨key, l, propsOfItems qs⟩ :: acc`
  (1, "result", "result.SetValue(v21)"),   -- table: `pure (acc.reverse, reg)`
  (1, "return", "nil")   -- table: `pure …`
]

/-- `parseReferenceInfo` — `Gts.parseRefInfo pref info` (Gts/Model/GbSlice.lean): `lit ([40] ++ pref ++ [32]); refRange; refMore; lit [41]` -/
def fn_parseReferenceInfo : List Line := [
  (0, "func", "(s0 string) pars.Parser"),
  (1, "return", "pars.Seq(fmt.Sprintf(\"(%s \", s0), pars.Seq(pars.Int, \" to \", pars.Int).Map(func0), pars.Many(pars.Seq(\"; \", pars.Seq(pars.Int, \" to \", pars.Int).Map(func0)).Child(1)), ')').Map(func1)")   -- parseRefInfo: "(" prefix " ", `refRange`, `refMore` = `Many(Seq("; ", range).Child(1))`, ")"
]

/-- `parseReferenceInfo/func0` — `Gts.refRange`: `a to b` is the range `[a-1, b)`; an empty or inverted one is an error (b95613d) -/
def fn_parseReferenceInfo_func0 : List Line := [
  (0, "func", "(result *pars.Result) error"),
  (1, "assign", "v0 := result.Children[0].Value.(int) - 1"),   -- refRange: `a - 1` (`let a ← int`, member 0)
  (1, "assign", "v1 := result.Children[2].Value.(int)"),   -- refRange: `b` (`let b ← int`, member 2)
  (1, "if", "v1 <= v0"),   -- refRange: `if b ≤ a - 1 then fail`
  (2, "return", "fmt.Errorf(\"invalid reference range: %d to %d\", v0 + 1, v1)"),   -- refRange: `fail`
  (1, "result", "result.SetValue(gts.Range(v0, v1))"),   -- refRange: `pure (a - 1, b)`
  (1, "return", "nil")   -- refRange: `pure …`
]

/-- `parseReferenceInfo/func1` — `Gts.parseRefInfo`: `pure (first :: rest)` -/
def fn_parseReferenceInfo_func1 : List Line := [
  (0, "func", "(result *pars.Result) error"),
  (1, "assign", "v2 := result.Children[1].Value.(gts.Ranged)"),   -- parseRefInfo: `first` (member 1)
  (1, "assign", "v3 := result.Children[2].Children"),   -- parseRefInfo: `rest` (member 2, the children of `Many`)
  (1, "assign", "v4 := make([]gts.Ranged, len(v3) + 1)"),   -- parseRefInfo: `first :: rest` has `rest.length + 1` entries
  (1, "assign", "v4[0] = v2"),   -- parseRefInfo: `first :: …`
  (1, "range", "v5, v6 := range v3"),   -- parseRefInfo: `… :: rest`, in order
  (2, "assign", "v4[v5 + 1] = v6.Value.(gts.Ranged)"),   -- parseRefInfo: `… :: rest`
  (1, "result", "result.SetValue(v4)"),   -- parseRefInfo: `pure (first :: rest)`
  (1, "return", "nil")   -- parseRefInfo: `pure …`
]

/-- `dig` — `GenBank.tryAll` / `GenBank.recordLoop`: `errGenBankExtra` is recognised through every wrapping (`.skip`) -/
def fn_dig : List Line := [
  (0, "func", "(err0 error) error"),
  (1, "if", "v0, v1 := err0.(interface{ Unwrap() error }); v1"),   -- tryAll: `.skip` — the innermost cause decides
  (2, "return", "dig(v0.Unwrap())"),   -- recordLoop: unwrapping is invisible in the model (errors carry no cause)
  (1, "return", "err0")   -- recordLoop
]


/-- every reader function and function literal, in the order of the inventory of go2lean/gbreader.go -/
def fns : List (String × List Line) := [
  ("genbankLocusParser", fn_genbankLocusParser),
  ("genbankLocusParser/func0", fn_genbankLocusParser_func0),
  ("tryAllParsers", fn_tryAllParsers),
  ("tryAllParsers/func0", fn_tryAllParsers_func0),
  ("GenBankParser", fn_GenBankParser),
  ("genbankFieldNameParser", fn_genbankFieldNameParser),
  ("genbankFieldNameParser/func0", fn_genbankFieldNameParser_func0),
  ("genbankFieldLineParser", fn_genbankFieldLineParser),
  ("genbankFieldLineParser/func0", fn_genbankFieldLineParser_func0),
  ("genbankFieldBodyParser", fn_genbankFieldBodyParser),
  ("genbankFieldBodyParser/func0", fn_genbankFieldBodyParser_func0),
  ("genbankGenericFieldParser", fn_genbankGenericFieldParser),
  ("genbankGenericFieldParser/func0", fn_genbankGenericFieldParser_func0),
  ("genbankExtraFieldParser", fn_genbankExtraFieldParser),
  ("genbankExtraFieldParser/func0", fn_genbankExtraFieldParser_func0),
  ("genbankSubfieldNameParser", fn_genbankSubfieldNameParser),
  ("genbankSubfieldNameParser/func0", fn_genbankSubfieldNameParser_func0),
  ("genbankGenericSubfieldParser", fn_genbankGenericSubfieldParser),
  ("genbankGenericSubfieldParser/func0", fn_genbankGenericSubfieldParser_func0),
  ("genbankDefinitionParser", fn_genbankDefinitionParser),
  ("genbankDefinitionParser/func0", fn_genbankDefinitionParser_func0),
  ("genbankAccessionParser", fn_genbankAccessionParser),
  ("genbankAccessionParser/func0", fn_genbankAccessionParser_func0),
  ("genbankVersionParser", fn_genbankVersionParser),
  ("genbankVersionParser/func0", fn_genbankVersionParser_func0),
  ("genbankDBLinkPairParser", fn_genbankDBLinkPairParser),
  ("genbankDBLinkPairParser/func0", fn_genbankDBLinkPairParser_func0),
  ("genbankDBLinkParser", fn_genbankDBLinkParser),
  ("genbankDBLinkParser/func0", fn_genbankDBLinkParser_func0),
  ("genbankKeywordsParser", fn_genbankKeywordsParser),
  ("genbankKeywordsParser/func0", fn_genbankKeywordsParser_func0),
  ("genbankSourceParser", fn_genbankSourceParser),
  ("genbankSourceParser/func0", fn_genbankSourceParser_func0),
  ("genbankSourceParser/func1", fn_genbankSourceParser_func1),
  ("genbankReferenceSubfieldParser", fn_genbankReferenceSubfieldParser),
  ("genbankReferenceSubfieldParser/func0", fn_genbankReferenceSubfieldParser_func0),
  ("genbankReferenceSubfieldParser/func1", fn_genbankReferenceSubfieldParser_func1),
  ("genbankReferenceSubfieldParser/func2", fn_genbankReferenceSubfieldParser_func2),
  ("genbankReferenceSubfieldParser/func3", fn_genbankReferenceSubfieldParser_func3),
  ("genbankReferenceSubfieldParser/func4", fn_genbankReferenceSubfieldParser_func4),
  ("genbankReferenceSubfieldParser/func5", fn_genbankReferenceSubfieldParser_func5),
  ("genbankReferenceSubfieldParser/func6", fn_genbankReferenceSubfieldParser_func6),
  ("genbankReferenceParser", fn_genbankReferenceParser),
  ("genbankReferenceParser/func0", fn_genbankReferenceParser_func0),
  ("genbankCommentParser", fn_genbankCommentParser),
  ("genbankCommentParser/func0", fn_genbankCommentParser_func0),
  ("genbankFeatureParser", fn_genbankFeatureParser),
  ("genbankFeatureParser/func0", fn_genbankFeatureParser_func0),
  ("genbankContigParser", fn_genbankContigParser),
  ("genbankContigParser/func0", fn_genbankContigParser_func0),
  ("genbankContigParser/func1", fn_genbankContigParser_func1),
  ("makeGenbankOriginParser", fn_makeGenbankOriginParser),
  ("makeGenbankOriginParser/func0", fn_makeGenbankOriginParser_func0),
  ("makeGenbankOriginParser/func1", fn_makeGenbankOriginParser_func1),
  ("init", fn_init),
  ("RegisterQuotedQualifier", fn_RegisterQuotedQualifier),
  ("RegisterLiteralQualifier", fn_RegisterLiteralQualifier),
  ("RegisterToggleQualifier", fn_RegisterToggleQualifier),
  ("searchString", fn_searchString),
  ("IsQuotedQualifier", fn_IsQuotedQualifier),
  ("IsLiteralQualifier", fn_IsLiteralQualifier),
  ("IsToggleQualifier", fn_IsToggleQualifier),
  ("GetQualifierType", fn_GetQualifierType),
  ("qualifierNameParser", fn_qualifierNameParser),
  ("qualifierNameParser/func0", fn_qualifierNameParser_func0),
  ("quotedQualifierParser", fn_quotedQualifierParser),
  ("quotedQualifierParser/func0", fn_quotedQualifierParser_func0),
  ("literalQualifierValueParser", fn_literalQualifierValueParser),
  ("literalQualifierValueParser/func0", fn_literalQualifierValueParser_func0),
  ("literalQualifierParser", fn_literalQualifierParser),
  ("literalQualifierParser/func0", fn_literalQualifierParser_func0),
  ("QualifierParser", fn_QualifierParser),
  ("QualifierParser/func0", fn_QualifierParser_func0),
  ("featureKeylineParser", fn_featureKeylineParser),
  ("featureKeylineParser/func0", fn_featureKeylineParser_func0),
  ("INSDCTableParser", fn_INSDCTableParser),
  ("INSDCTableParser/func0", fn_INSDCTableParser_func0),
  ("INSDCTableParser/func1", fn_INSDCTableParser_func1),
  ("parseReferenceInfo", fn_parseReferenceInfo),
  ("parseReferenceInfo/func0", fn_parseReferenceInfo_func0),
  ("parseReferenceInfo/func1", fn_parseReferenceInfo_func1),
  ("dig", fn_dig)
]

/-! ### derived tables -/

/-- the sub-parsers in the order in which `tryAllParsers` attempts them = `GenBank.fieldParsers`
followed by `extraField` (`GenBank.tryAll`); each with the constructor of its field-name parser and
the name -/
def dispatch : List (String × String × String) := [
  ("genbankDefinitionParser", "genbankGenericFieldParser", "\"DEFINITION\""),   -- fieldParsers[0]: `liftF (definitionField depth)`: `fieldName (bs "DEFINITION") depth`, `fieldBody depth 10`
  ("genbankAccessionParser", "genbankGenericFieldParser", "\"ACCESSION\""),     -- fieldParsers[1]: `liftF (accessionField depth)`: `genericField (bs "ACCESSION") depth`
  ("genbankVersionParser", "genbankGenericFieldParser", "\"VERSION\""),         -- fieldParsers[2]: `liftF (versionField depth)`: `genericField (bs "VERSION") depth`
  ("genbankDBLinkParser", "genbankFieldNameParser", "\"DBLINK\""),              -- fieldParsers[3]: `liftF (dblinkField depth)`: `fieldName (bs "DBLINK") depth`
  ("genbankKeywordsParser", "genbankFieldNameParser", "\"KEYWORDS\""),          -- fieldParsers[4]: `liftF (keywordsField depth)`: `fieldName (bs "KEYWORDS") depth`
  ("genbankSourceParser", "genbankGenericFieldParser", "\"SOURCE\""),           -- fieldParsers[5]: `liftF (sourceField depth)`: `genericField (bs "SOURCE") depth`
  ("genbankReferenceParser", "genbankFieldNameParser", "\"REFERENCE\""),        -- fieldParsers[6]: `liftF (referenceField depth)`: `fieldName (bs "REFERENCE") depth`
  ("genbankCommentParser", "genbankGenericFieldParser", "\"COMMENT\""),         -- fieldParsers[7]: `liftF (commentField depth)`: `genericField (bs "COMMENT") depth`
  ("genbankFeatureParser", "pars.String", "\"FEATURES\""),                      -- fieldParsers[8]: `featuresSub`: `lit (bs "FEATURES")` (no padding)
  ("genbankContigParser", "genbankFieldNameParser", "\"CONTIG\""),              -- fieldParsers[9]: `liftF (contigField depth)`: `fieldName (bs "CONTIG") depth`
  ("makeGenbankOriginParser(length)", "genbankFieldNameParser", "\"ORIGIN\""),  -- fieldParsers[10]: `originSub length depth`: `fieldName (bs "ORIGIN") depth`
  ("genbankExtraFieldParser", "genbankFieldNameParser", "pars.Word(ascii.IsUpper)")  -- tryAll: `extraField depth f`: `word isUpper`, `fieldPadding`
]

/-- every operation on the saved positions / the buffer, with the condition it stands under -/
def stateOps : List (String × String × String) := [
  ("tryAllParsers/func0", "state.Push()", "range _, v0 := range pp0"),   -- tryList: `push` in front of every attempt
  ("tryAllParsers/func0", "state.Drop()", "if err0 == nil"),              -- tryList: `| some (s', true) => do drop; …`
  ("tryAllParsers/func0", "state.Pop()", "range _, v0 := range pp0"),    -- tryList: `pop` after a SOFT failure (behind `if !(← pushed) then fail`)
  ("GenBankParser", "state.Clear()", ""),                                  -- genbankParser: `clear` behind `locusParser`
  ("genbankFieldNameParser/func0", "state.Clear()", "if len(v4) > n0 || v7(state, pars.Void) != nil"),   -- fieldPadding: `do clear; fail` (two places): HARD
  ("genbankSourceParser/func1", "state.Clear()", "if v1 := genbankSubfieldNameParser(\"ORGANISM\", n0)(state, pars.Void); v1 != nil"),   -- sourceField: `| none => do clear; pure (f, false)`: HARD (66de3a0, F34: was Pop)
  ("genbankFeatureParser/func0", "state.Clear()", ""),                    -- featuresField: `clear` behind the FEATURES line
  ("makeGenbankOriginParser/func1", "state.Clear()", ""),                 -- originField: `clear` behind the ORIGIN line
  ("makeGenbankOriginParser/func1", "state.Advance()", "if validateOrigin(v2, n0, state.Position()) == nil"),   -- originField: `advanceN n.toNat` on the fast path
  ("qualifierNameParser/func0", "state.Advance()", ""),                   -- qualifierName: `lit (pre ++ [47])` advances
  ("quotedQualifierParser/func0", "state.Push()", ""),                    -- quotedValue: `push`
  ("quotedQualifierParser/func0", "state.Pop()", "if v1 != nil"),         -- quotedValue: `| none => do pop; fail` (no next byte)
  ("quotedQualifierParser/func0", "state.Pop()", "if v0 != '='"),         -- quotedValue: `if c != 61 then do pop; fail`
  ("quotedQualifierParser/func0", "state.Advance()", ""),                 -- quotedValue: `advance1`
  ("quotedQualifierParser/func0", "state.Pop()", "if v2 := pars.Quoted('\"')(state, result); v2 != nil"),   -- quotedValue: `| none => do pop; fail` (no closing quote)
  ("quotedQualifierParser/func0", "state.Drop()", ""),                    -- quotedValue: `drop`
  ("literalQualifierValueParser/func0", "state.Push()", ""),              -- literalValue: `push` (behind `let l ← line`)
  ("literalQualifierValueParser/func0", "state.Pop()", "if v2 != nil"),   -- literalMore: `| none => do pop; pure p`
  ("literalQualifierValueParser/func0", "state.Pop()", "if v1 == '/'"),   -- literalMore: `if c == 47 then do pop; pure p`
  ("literalQualifierValueParser/func0", "state.Drop()", "for pars.String(s0)(state, result) == nil"),   -- literalMore: `drop; push` behind a continuation line
  ("literalQualifierValueParser/func0", "state.Push()", "for pars.String(s0)(state, result) == nil"),   -- literalMore: `drop; push`
  ("literalQualifierValueParser/func0", "state.Drop()", ""),              -- literalMore: `| none => do drop; pure p`
  ("literalQualifierParser/func0", "state.Push()", ""),                   -- literalValue: `push`
  ("literalQualifierParser/func0", "state.Pop()", "if v1 != nil"),        -- literalValue: `| none => do pop; fail`
  ("literalQualifierParser/func0", "state.Pop()", "if v0 != '='"),        -- literalValue: `if c != 61 then do pop; fail`
  ("literalQualifierParser/func0", "state.Advance()", ""),                -- literalValue: `advance1`
  ("literalQualifierParser/func0", "state.Drop()", ""),                   -- literalValue: `drop`
  ("featureKeylineParser/func0", "state.Advance()", ""),                  -- keyline: `lit (sp pre)` advances
  ("featureKeylineParser/func0", "state.Advance()", "for v3 := 0; v3 < n0 - len(s0 + v2); v3++")   -- blanks: `advance1`
]

/-- the members of the LOCUS `Seq`, member by member as `GenBank.locusParser` runs them -/
def locusSeq : List String := [
  "\"LOCUS\"",                              -- locusParser: `locusTry (lit (bs "LOCUS"))`
  "pars.Spaces",                            -- locusParser: `let sp1 ← spaces` — its length + 5 is the depth
  "pars.Word(ascii.Not(ascii.IsSpace))",    -- locusParser: `let name ← locusTry (word notSpace)`
  "pars.Spaces",                            -- locusParser: `let _ ← spaces`
  "pars.Int",                               -- locusParser: `let length ← locusTry int`
  "pars.Any(\" bp\", \" aa\")",             -- locusParser: `locusTry bpOrAa`; bpOrAa: `lit (bs " bp")`, else `lit (bs " aa")`
  "pars.Spaces",                            -- locusParser: `let _ ← spaces`
  "pars.Word(ascii.Not(ascii.IsSpace))",    -- locusParser: `let mol ← locusTry (word notSpace)`
  "pars.Spaces",                            -- locusParser: `let _ ← spaces`
  "pars.Word(ascii.Not(ascii.IsSpace))",    -- locusParser: `let top ← locusTry (word notSpace)`
  "pars.Spaces",                            -- locusParser: `let _ ← spaces`
  "pars.Maybe(pars.Count(pars.Filter(ascii.IsUpper), 3).Map(pars.Cat))",   -- locusParser: `let division ← divisionParser` (three upper-case bytes or nothing)
  "pars.Spaces",                            -- locusParser: `let _ ← spaces`
  "pars.AsParser(pars.Line).Map(func0)"     -- locusParser: `let dl ← line; match asDate dl with …`
]

/-- the members `.Children(…)` keeps: sp1, name, length, molecule, topology, division, date
(`GenBank.Locus`, in the order of its fields) -/
def locusChildren : List Nat := [1, 2, 4, 7, 9, 11, 13]

/-- where the children go -/
def locusUses : List (String × Nat × String) := [
  ("depth", 0, "len(#.Token) + 5"),                           -- locusParser: `sp1.length + 5` (`Locus.depth`)
  ("Fields.LocusName", 1, "string(#.Token)"),                 -- genbankParser: `locusName := l.name`
  ("length", 2, "#.Value.(int)"),                             -- genbankParser: `l.length` (range check, `recordLoop l.length`, final comparison)
  ("Fields.Molecule", 3, "gts.AsMolecule(string(#.Token))"),  -- genbankParser: `isMolecule l.molecule`, `molecule := l.molecule`
  ("Fields.Topology", 4, "gts.AsTopology(string(#.Token))"),  -- genbankParser: `asTopology l.topology`, `topology := top`
  ("Fields.Division", 5, "string(#.Token)"),                  -- genbankParser: `division := l.division`
  ("Fields.Date", 6, "#.Value.(Date)")                        -- genbankParser: `date := l.date`
]

/-- `GenBank.QType` in the order of its constructors: quoted, literal, toggle, unknown; the model's
`qualifier` dispatches on the constructor, the code indexes `valueParsers` with the `iota` value -/
def qualifierTypes : List String := ["QuotedQualifier", "LiteralQualifier", "ToggleQualifier", "UnknownQualifier"]

end Gts.Spec.GbReader
