/-
  The cache PROTOCOL code of the CLI (`/repo/cmd/gts/io.go`) as the model has it — the hand-written
  expectation that `Gts/Bridge/IoDelegate.lean` compares with what go2lean extracts from the Go source on
  every run (`Gts/Gen/IoDelegateFacts.lean`, generator go2lean/iodelegate.go).

  Written by reading `Gts/Model/CacheProto.lean` (`step`, `verdict`, `Run`, `World`) next to the Go
  functions it mirrors: every line of a function is given in the generator's normal form (indent, kind,
  text — locals `v0, v1, …` in order of declaration, parameters named by their type, the receiver `recv`)
  and CITES THE CLAUSE OF THE MODEL it mirrors.  The order that decides the behaviour:

      spool stdin into a temporary file  →  hash the input (root sum)  →  hash the payload (data sum)
      →  rewind  →  cache.Open
         hit:   copy the entry to the output; ANY error of that copy falls back (`false, nil`); remove the
                entry when the output is a file; `true, nil`
         miss:  cache.CreateLevel, arm the tee (`d.cache = f`), `false, nil`
      Write tees into the entry first, then into the output;  Commit only sets `done`;
      Close finalises the entry and REMOVES it unless `done` and `cache.Close()` returned nil.

  A change of io.go that alters one of these lines breaks the bridge theorem of that function and has to be
  looked at HERE, next to the model: either the model follows (and the C14 theorems are re-proved) or the
  change is a defect.  Hand-maintained.  Core Lean only.
-/
namespace Gts.Spec.IoDelegate

/-- one statement: (indent, kind, text) -/
abbrev Line := Nat × String × String

/-- `(*attachment).Read` — the digest of a SECONDARY input (`World.payload`: the value of `featsum / guestSum /
hostSum / querySum` is `h.Sum(nil)` over exactly the bytes the command read from the file; C14
`secondary_digest_raw`): every chunk that is read is written into the hash before it is handed on -/
def fn_attachment_Read : List Line := [
  (0, "func", "(recv *attachment) (p0 []byte) (int, error)"),
  (1, "assign", "v0, v1 := recv.r.Read(p0)"),   -- payload: the raw bytes of the secondary file, chunk by chunk
  (1, "if", "v1 != nil"),   -- a read error (also io.EOF) ends the stream: nothing more is hashed
  (2, "return", "0, v1"),
  (1, "return", "recv.w.Write(p0[:v0])")   -- payload: exactly the `v0` bytes read go into the hash (`p0[:v0]`, not the whole buffer)
]

/-- `attach(w, r)` — the argument order: the literal is `attachment{r, w}` (positional, `types`) -/
def fn_attach : List Line := [
  (0, "func", "(a0 io.Writer, a1 io.Reader) *attachment"),
  (1, "return", "&attachment{a1, a0}")   -- payload: reader second argument, writer (the hash) first
]

/-- `gtsCacheDir` — `Run.usable` (first half): "`gtsCacheDir()` … succeeded"; one directory `gts-cache`
under the user's cache directory, created on demand -/
def fn_gtsCacheDir : List Line := [
  (0, "func", "() (string, error)"),
  (1, "assign", "v0, v1 := os.UserCacheDir()"),   -- Run.usable: no XDG_CACHE_HOME / HOME → not usable
  (1, "if", "v1 != nil"),
  (2, "return", "v0, v1"),   -- Run.usable = false
  (1, "assign", "v0 = filepath.Join(v0, \"gts-cache\")"),   -- Store: the ONE directory all entries of all commands live in
  (1, "return", "v0, os.MkdirAll(v0, 0755)")   -- Run.usable: the directory cannot be made → not usable
]

/-- `(*ioDelegate).Commit` — `Outcome.committed`; `step`, miss arm: `let keep := o.committed && r.closeOk` -/
def fn_ioDelegate_Commit : List Line := [
  (0, "func", "(recv *ioDelegate) ()"),
  (1, "assign", "recv.done = true")   -- step (miss): `keep := o.committed && …` — the flag and nothing else
]

/-- `newIODelegate` — `Run.input` / `Run.toFile`: `-` is stdin / stdout, anything else is opened / created
BEFORE `TryCache` (an error here is `Outcome.early`); a fresh delegate has no entry and is not committed -/
def fn_newIODelegate : List Line := [
  (0, "func", "(s0 string, s1 string) (*ioDelegate, error)"),
  (1, "assign", "v0, v1 := os.Stdin, os.Stdout"),   -- Run.toFile = false: `d.outfile == os.Stdout`
  (1, "var", "v2 error"),
  (1, "if", "s0 != \"-\""),   -- Run.input: a named primary input
  (2, "if", "v0, v2 = os.Open(s0); v2 != nil"),
  (3, "return", "nil, v2"),   -- Outcome.early: the cache directory is not touched
  (1, "if", "s1 != \"-\""),   -- Run.toFile = true: `-o <file>`
  (2, "if", "v1, v2 = os.Create(s1); v2 != nil"),
  (3, "return", "nil, v2"),   -- Outcome.early
  (1, "return", "&ioDelegate{v0, v1, nil, false, false}, nil")   -- step: `d.cache == nil` (no tee), `tmpin = false`, `done = false` (positional: `types`)
]

/-- `(*ioDelegate).Read` — `World.content`: the command body reads the primary input (after `TryCache` rewound
it: the same bytes that were hashed) -/
def fn_ioDelegate_Read : List Line := [
  (0, "func", "(recv *ioDelegate) (p0 []byte) (int, error)"),
  (1, "return", "recv.infile.Read(p0)")   -- World.content r.input
]

/-- `(*ioDelegate).Write` — the tee of `step`, miss arm: `Store.set σ n (… finish … o.out …)` AND
`o.observed`: the bytes of the body go into the entry and to the output; brokenHit / bypass: `d.cache == nil`,
output only -/
def fn_ioDelegate_Write : List Line := [
  (0, "func", "(recv *ioDelegate) (p0 []byte) (int, error)"),
  (1, "if", "recv.cache != nil"),   -- step (miss): the tee is armed
  (2, "assign", "v0, v1 := recv.cache.Write(p0)"),   -- step (miss): `finish W.H W.d W.deflate rs qs o.out` — every byte of `o.out` goes into the entry (Cache.write)
  (2, "if", "v1 != nil"),   -- an entry write error (outside the model: assumption "file I/O does not fail") …
  (3, "return", "v0, v1"),   -- … is the error of the command's write, and the output does NOT get these bytes
  (1, "assign", "v2, v3 := recv.outfile.Write(p0)"),   -- step: `o.observed` — the same bytes to the real output
  (1, "return", "v2, v3")
]

/-- `(*ioDelegate).TryCache` — `verdict` / `step` behind `if r.nocache || !r.usable || o.early` -/
def fn_ioDelegate_TryCache : List Line := [
  (0, "func", "(recv *ioDelegate) (a0 hash.Hash, p0 []byte) (bool, error)"),
  (1, "assign", "v0, v1 := gtsCacheDir()"),   -- Run.usable (first half)
  (1, "if", "v1 != nil"),
  (2, "return", "false, nil"),   -- step: `!r.usable` → `(σ, o.observed)`: the body runs uncached, no error
  (1, "if", "recv.infile == os.Stdin"),   -- World.content: stdin is read ONCE, into a file that can be rewound (every time: no shortcut)
  (2, "assign", "v2, v3 := ioutil.TempFile(\"\", \"gts-tmp-*\")"),   -- Run.usable (second half): "the temporary copy of stdin succeeded"
  (2, "if", "v3 != nil"),
  (3, "return", "false, nil"),   -- step: `!r.usable` → bypass
  (2, "if", "_, v4 := io.Copy(v2, os.Stdin); v4 != nil"),   -- World.content r.input: ALL of stdin is spooled (I/O error: outside the model)
  (3, "call", "recv.Close()"),
  (3, "return", "false, v4"),   -- (I/O error: the command fails; never `true`)
  (2, "if", "_, v5 := v2.Seek(0, io.SeekStart); v5 != nil"),   -- the copy is rewound
  (3, "call", "recv.Close()"),
  (3, "return", "false, v5"),
  (2, "assign", "recv.infile = v2"),   -- from here on the primary input IS the spooled copy (hashing and the body read the same bytes)
  (2, "assign", "recv.tmpin = true"),   -- Close removes the copy
  (1, "call", "a0.Reset()"),   -- World.rsum: `W.H (W.content i)` — a fresh digest …
  (1, "if", "_, v6 := io.Copy(a0, recv.infile); v6 != nil"),   -- World.rsum: … over the WHOLE primary input
  (2, "if", "_, v7 := recv.infile.Seek(0, io.SeekStart); v7 != nil"),
  (3, "return", "false, v7"),
  (2, "return", "false, nil"),   -- (read error while hashing: bypass, outside the model)
  (1, "assign", "v8 := a0.Sum(nil)"),   -- step: `let rs := W.rsum r.input`
  (1, "call", "a0.Reset()"),   -- World.dsum: `W.H (W.payload c)` — a fresh digest …
  (1, "call", "a0.Write(p0)"),   -- World.dsum: … over the payload bytes (`encodePayload`, Gts.KeyEnc)
  (1, "assign", "v9 := a0.Sum(nil)"),   -- step: `let qs := W.dsum r.cmd`
  (1, "if", "_, v10 := recv.infile.Seek(0, io.SeekStart); v10 != nil"),   -- the body reads the input from its start
  (2, "return", "false, v10"),
  (1, "assign", "v11, v1 := cache.Open(v0, a0, v8, v9)"),   -- step: `match openAt W.H W.d σ rs qs with` (root sum first, data sum second: `Cache.name`)
  (1, "if", "v1 != nil"),   -- step: `| .error _ =>` — EVERY error of Open is a miss (Gts.Bridge.CacheFile.tryCache_recreates_on_any_open_error)
  (2, "assign", "v12, v13 := cache.CreateLevel(v0, a0, v8, v9, flate.BestSpeed)"),   -- step (miss): `Store.set σ n …` — the entry of the SAME key is truncated / created (Cache.create)
  (2, "if", "v13 != nil && v12 != nil"),   -- (a failed placeholder write, outside the model: the file is removed …
  (3, "call", "os.Remove(v12.Name())"),   -- … Gts.C13.create_error_must_be_heeded)
  (2, "assign", "recv.cache = v12"),   -- step (miss): the tee is armed (Write above)
  (2, "return", "false, nil"),   -- step (miss): the body runs; `o.observed`
  (1, "defer", "v11.Close()"),   -- step (hit / brokenHit): the entry is only read
  (1, "if", "_, v14 := io.Copy(recv.outfile, v11); v14 != nil"),   -- step: `match W.inflate body with` — the copy inflates the body to the output
  (2, "return", "false, nil"),   -- step: `| none => (σ, ⟨W.inflatePrefix body ++ o.out, o.status⟩)` — ANY error of the copy falls back: never `true`, `d.cache == nil`, the entry stays
  (1, "if", "recv.outfile != os.Stdout"),   -- step (hit): `if r.toFile then Store.set σ n none else σ`
  (2, "call", "os.Remove(v11.Name())"),   -- step (hit): `Store.set σ n none`
  (1, "return", "true, nil")   -- step: `| some w => (…, ⟨w, 0⟩)` — a hit: the command returns at once with status 0
]

/-- `(*ioDelegate).Close` — `step`, miss arm: `Store.set σ n (if keep then some (finish …) else none)` with
`keep := o.committed && r.closeOk` -/
def fn_ioDelegate_Close : List Line := [
  (0, "func", "(recv *ioDelegate) () error"),
  (1, "if", "recv.tmpin"),
  (2, "defer", "os.Remove(recv.infile.Name())"),   -- the spooled copy of stdin goes away (not part of `Store`: another directory)
  (1, "defer", "recv.infile.Close()"),
  (1, "defer", "recv.outfile.Close()"),
  (1, "if", "recv.cache != nil"),   -- step (miss) only: hit, brokenHit and bypass have no entry of their own
  (2, "if", "v0 := recv.cache.Close(); v0 != nil || !recv.done"),   -- step (miss): `finish …` (Cache.close finalises the entry: `Run.closeOk` = it returned nil); `keep = false` ⇔ error ∨ not committed
  (3, "call", "os.Remove(recv.cache.Name())"),   -- step (miss): `else none` — `Store.set σ n none`
  (1, "return", "nil")
]

/-- every function, method and function literal of io.go outside keyenc.go's, in source order -/
def fns : List (String × List Line) := [
  ("attachment.Read", fn_attachment_Read),
  ("attach", fn_attach),
  ("gtsCacheDir", fn_gtsCacheDir),
  ("ioDelegate.Commit", fn_ioDelegate_Commit),
  ("newIODelegate", fn_newIODelegate),
  ("ioDelegate.Read", fn_ioDelegate_Read),
  ("ioDelegate.Write", fn_ioDelegate_Write),
  ("ioDelegate.TryCache", fn_ioDelegate_TryCache),
  ("ioDelegate.Close", fn_ioDelegate_Close)
]

/-- `exact`, `encodePayload`: `Gts.KeyEnc` (bridge `Gts/Bridge/KeyEnc.lean`) -/
def elsewhere : List String := ["exact", "encodePayload"]

/-- the types of io.go; the delegate's state is `infile` (Run.input / the spooled copy), `outfile` (Run.toFile),
`cache` (the armed entry of a miss), `tmpin`, `done` (Outcome.committed) — in this order: `newIODelegate`
fills them positionally -/
def types : List (String × List String) := [
  ("attachment", ["r io.Reader", "w io.Writer"]),
  ("tuple", ["= [2]interface{}"]),
  ("ioDelegate", ["infile *os.File", "outfile *os.File", "cache *cache.File", "tmpin bool", "done bool"])
]

end Gts.Spec.IoDelegate
