/-
  The pinned helper module github.com/go-pars/pars v1.1.6 as the model has it — the hand-written expectation
  that `Gts/Bridge/ParsFacts.lean` compares with what go2lean extracts from the module directory on every
  run (`Gts/Gen/ParsFacts.lean`, generator go2lean/gpars.go).

  Written by reading `Gts/Model/Pars.lean` (and the combinator clauses of `Gts/Model/Modifier.lean`,
  `LocText.lean`, `Fasta.lean`, `GenBankParse.lean`, `InsdcParse.lean`, `GbSlice.lean`) next to the Go
  functions they mirror: every declaration of the package that gts reaches is given in the generator's normal
  form (indent, kind, text — locals `v0, v1, …` in order of declaration, parameters named by their type, the
  receiver `recv`, function literals as entries `F/funcN`) and every line CITES THE MODEL CLAUSE it mirrors, or
  says why there is none (error texts, buffering, line / byte numbers, cases of a type switch gts never takes).

  A change of the module (another version in go.mod, another text in the module cache) that alters one of these
  lines breaks the bridge theorem `pars_<Function>` of that function and has to be looked at HERE, next to the
  model.  A NEW function of the package that gts starts to use breaks `pars_inventory`.  Hand-maintained.  Core
  Lean only.
-/
namespace Gts.Spec.ParsTable

/-- one statement: (indent, kind, text) -/
abbrev Line := Nat × String × String

/-- the version `Gts/Model/Pars.lean` was written against -/
def version : String := "v1.1.6"

/-- the lines of /repo/go.sum for it: the hash of the module tree and of its go.mod -/
def goSum : List String := ["github.com/go-pars/pars v1.1.6 h1:Ahi6G+N4Dka8zN2bnlFNwx+rqTYBm5sxB555uAXLQAo=", "github.com/go-pars/pars v1.1.6/go.mod h1:CoFQeW1ZswG9tHpBxfN1cLdEp6AI1q/iF2izSJmPMG0="]

/-- the h1 hash of the directory go2lean read must be the one go.sum pins: the first line of `goSum` without
its `module version ` prefix -/
def dirHash : String := "h1:Ahi6G+N4Dka8zN2bnlFNwx+rqTYBm5sxB555uAXLQAo="

/-- the non-test files of the package -/
def files : List String := ["ascii.go", "basic.go", "bytes.go", "combinators.go", "composite.go", "convenience.go", "errors.go", "literals.go", "mappings.go", "parser.go", "position.go", "reader.go", "result.go", "runes.go", "stack.go", "state.go", "strings.go"]

/-- the files of gts that import the package: the location / modifier / locator parsers of the root package,
the seqio reader (genbank, insdc, reference, fasta, scanner), `gts annotate`, and the hooks of the harness -/
def users : List String := ["cmd/gts/annotate.go", "location.go", "locator.go", "modifier.go", "seqio/fasta.go", "seqio/genbank.go", "seqio/genbank_subparsers.go", "seqio/insdc.go", "seqio/reference.go", "seqio/scanner.go", "seqio/verif_export.go"]

/-- what gts mentions as `pars.X`: the state (`State`, `NewState`, `FromString`, `Next`), results (`Result`,
`Void`, `Position`, `NewError`), the primitives (`Byte`, `Bytes`, `String`, `Filter`, `Word`, `Spaces`, `Int`,
`Line`, `EOL`, `End`, `Quoted`, `Until`) and the combinators (`Seq`, `Any`, `Maybe`, `Many`, `Count`, `Dry`,
`Exact`, `AsParser`, `Cat`, the type `Parser`) — each modelled in `Gts/Model/Pars.lean` or by the clause the
table below cites.  A NEW name here is a function the model does not have yet. -/
def usedNames : List String := ["Any", "AsParser", "Byte", "Bytes", "Cat", "Count", "Dry", "EOL", "End", "Exact", "Filter", "FromString", "Int", "Line", "Many", "Maybe", "NewError", "NewState", "Next", "Parser", "Position", "Quoted", "Result", "Seq", "Spaces", "State", "String", "Until", "Void", "Word"]

/-- the method names of the package gts calls (by name: `Error`, `Less`, `Reset`, `String` are also methods of
other types gts uses — they bring `Parser.Error`, `Position.Less`, `stack.Reset`, `Position.String` … into the
table, which does no harm) -/
def usedMethods : List String := ["Advance", "Bind", "Buffer", "Child", "Children", "Clear", "Drop", "Error", "Less", "Map", "Parse", "Pop", "Position", "Push", "Pushed", "Request", "Reset", "SetToken", "SetValue", "String"]

/-- `pars.Spaces` — `Pars.spaces`: `push; skipWhile isSpace; trail` (never fails; the `Next` / `Advance` loop is `skipWhile`, shown equal by the function-level bridge `Gts.Bridge.spaces_sim`) -/
def fn_Spaces : List Line := [
  (0, "func", "(state *State, result *Result) error"),
  (1, "state", "state.Push()"),   -- spaces: `push`
  (1, "assign", "v0, v1 := Next(state)"),   -- spaces: `skipWhile isSpace` — the first look at the next byte (`Pars.next`)
  (1, "for", "v1 == nil && ascii.IsSpace(v0)"),   -- spaces: `skipWhile isSpace` — goes on while a byte is there and `isSpace` accepts it (`ascii.IsSpace` = `Pars.isSpace`: blank, \t \n \v \f \r)
  (2, "state", "state.Advance()"),   -- spaces: `skipWhile isSpace` — one byte consumed (`advance1`)
  (2, "assign", "v0, v1 = Next(state)"),   -- spaces: `skipWhile isSpace` — the next look
  (1, "assign", "v2, _ := Trail(state)"),   -- spaces: `trail` (the error of `Trail` — nothing pushed — is dropped; `Pars.trail` answers `[]` there)
  (1, "result", "result.SetToken(v2)"),   -- spaces: the token is the value `trail` returns
  (1, "return", "nil")   -- spaces: never fails
]

/-- `pars.Filter(f)` — `GenBank.divisionParser` (three of them under `Count` / `Seq`): one byte that `f` accepts; set-up = error texts only -/
def fn_Filter : List Line := [
  (0, "func", "(filter0 ascii.Filter) Parser"),
  (1, "assign", "v0 := reflect.ValueOf(filter0)"),   -- error text only (the name of the filter function, by reflection)
  (1, "assign", "v1 := runtime.FuncForPC(v0.Pointer())"),   -- error text only
  (1, "assign", "v2 := v1.Name()"),   -- error text only
  (1, "assign", "v3 := fmt.Sprintf(\"Filter(%s)\", v2)"),   -- error text only
  (1, "assign", "v4 := fmt.Sprintf(\"expected to match filter `%s`\", v2)"),   -- error text only
  (1, "return", "func0")   -- divisionParser: one `isUpper` test per member
]

/-- the parser `pars.Filter(f)` returns — `GenBank.divisionParser`: `| a :: b :: c :: _ => if isUpper a && isUpper b && isUpper c` — nothing moves on a failure -/
def fn_Filter_func0 : List Line := [
  (0, "func", "(state *State, result *Result) error"),
  (1, "assign", "v5, v6 := Next(state)"),   -- divisionParser: the `match s.rest with` (`Pars.next`)
  (1, "if", "v6 != nil"),   -- divisionParser: `| _ => pure []` — fewer than three bytes (the `Seq` pops, `Maybe` swallows the error)
  (2, "return", "NewNestedError(v3, v6)"),   -- divisionParser: failure (error text not modelled)
  (1, "if", "!filter0(v5)"),   -- divisionParser: `if isUpper a && …`
  (2, "return", "NewError(v4, state.Position())"),   -- divisionParser: `else pure []` (through `Seq` / `Maybe`)
  (1, "state", "state.Advance()"),   -- divisionParser: `advanceN 3`, one byte per member
  (1, "result", "result.SetToken([]byte{v5})"),   -- divisionParser: `pure [a, b, c]` after `Cat`
  (1, "return", "nil")   -- divisionParser: success
]

/-- `pars.Word(f)` — `Pars.word f`; set-up = error text only -/
def fn_Word : List Line := [
  (0, "func", "(filter0 ascii.Filter) Parser"),
  (1, "assign", "v0 := reflect.ValueOf(filter0)"),   -- error text only
  (1, "assign", "v1 := runtime.FuncForPC(v0.Pointer())"),   -- error text only
  (1, "assign", "v2 := v1.Name()"),   -- error text only
  (1, "assign", "v3 := fmt.Sprintf(\"expected word of `%s`\", v2)"),   -- error text only
  (1, "return", "func0")   -- word (whole body)
]

/-- the parser `pars.Word(f)` returns — `Pars.word f`: `push; skipWhile f; let p ← trail; if p.isEmpty then fail else pure p` (the frame is gone after `trail` on both paths; bridge `Gts.Bridge.word_sim`) -/
def fn_Word_func0 : List Line := [
  (0, "func", "(state *State, result *Result) error"),
  (1, "state", "state.Push()"),   -- word: `push`
  (1, "assign", "v4, v5 := Next(state)"),   -- word: `skipWhile f` — first look (`Pars.next`)
  (1, "for", "v5 == nil && filter0(v4)"),   -- word: `skipWhile f` — while a byte is there and `f` accepts it
  (2, "state", "state.Advance()"),   -- word: `skipWhile f` — `advance1`
  (2, "assign", "v4, v5 = Next(state)"),   -- word: `skipWhile f` — next look
  (1, "assign", "v6, _ := Trail(state)"),   -- word: `let p ← trail`
  (1, "if", "len(v6) == 0"),   -- word: `if p.isEmpty`
  (2, "return", "NewError(v3, state.Position())"),   -- word: `then fail` (position unchanged: nothing was consumed; the frame is popped by `trail`)
  (1, "result", "result.SetToken(v6)"),   -- word: `else pure p`
  (1, "return", "nil")   -- word: success
]

/-- `pars.Head` (first member of `Exact`) — `ModParse.exact` / `tryLocation`: "on a fresh state (`Head` holds)": the models start `Exact` parsers on `⟨input, []⟩` only, where the position is (0, 0) -/
def fn_Head : List Line := [
  (0, "func", "(state *State, result *Result) error"),
  (1, "if", "!state.Position().Head()"),   -- exact: holds on a fresh state — `Position.Head` on (0, 0)
  (2, "return", "NewError(\"state is not at head\", state.Position())"),   -- not reachable from a fresh state (not modelled)
  (1, "return", "nil")   -- exact: `Head` succeeds and consumes nothing
]

/-- `pars.End` — `ModParse.atEnd`, `Fasta.endP`: succeeds iff no byte is left (bridge `Gts.Bridge.end_sim`) -/
def fn_End : List Line := [
  (0, "func", "(state *State, result *Result) error"),
  (1, "if", "state.Request(1) == nil"),   -- atEnd / endP: `match (← getS).rest with` — `Request(1)` succeeds iff a byte is left (`Pars.request 1`)
  (2, "return", "NewError(\"state is not at end\", state.Position())"),   -- atEnd / endP: `| _ :: _ => fail`
  (1, "return", "nil")   -- atEnd / endP: `| [] => pure ()`
]

/-- `pars.Byte(c…)` — `ModParse.byte c` (one byte; gts calls it with exactly one argument: `'^'`, `'$'`, `':'`, `')'`, and through `AsParser` for byte members of `Seq` / `Any`); set-up = error texts -/
def fn_Byte : List Line := [
  (0, "func", "(bb0 ...byte) Parser"),
  (1, "switch", "len(bb0)"),   -- byte: gts takes `case 1` only
  (2, "case", "0"),   -- not used by gts (no argument: any byte)
  (3, "return", "func0"),   -- not used by gts
  (2, "case", "1"),   -- byte: the one-argument case
  (3, "assign", "v1 := bb0[0]"),   -- byte: the byte `c`
  (3, "assign", "v2 := ascii.Rep(v1)"),   -- error text only
  (3, "assign", "v3 := fmt.Sprintf(\"Byte(%s)\", v2)"),   -- error text only
  (3, "assign", "v4 := fmt.Sprintf(\"expected `%s`\", v2)"),   -- error text only
  (3, "return", "func1"),   -- byte (whole body)
  (2, "default", ""),   -- not used by gts (several bytes)
  (3, "assign", "v7 := strings.Join(ascii.Reps(bb0), \", \")"),   -- not used by gts
  (3, "assign", "v8 := fmt.Sprintf(\"Byte(%s)\", v7)"),   -- not used by gts
  (3, "assign", "v9 := fmt.Sprintf(\"expected one of [%s]\", v7)"),   -- not used by gts
  (3, "assign", "v10 := string(bb0)"),   -- not used by gts
  (3, "assign", "v11 := func2"),   -- not used by gts
  (3, "return", "func3")   -- not used by gts
]

/-- `pars.Byte()` without argument — not used by gts (no model clause) -/
def fn_Byte_func0 : List Line := [
  (0, "func", "(state *State, result *Result) error"),
  (1, "if", "v0 := state.Request(1); v0 != nil"),
  (2, "return", "NewNestedError(\"Byte\", v0)"),
  (1, "result", "result.SetToken([]byte{state.Buffer()[0]})"),
  (1, "state", "state.Advance()"),
  (1, "return", "nil")
]

/-- the parser `pars.Byte(c)` returns — `ModParse.byte c`: `let d ← next; if d != c then fail; advance1` (bridge `Gts.Bridge.byte_sim`) -/
def fn_Byte_func1 : List Line := [
  (0, "func", "(state *State, result *Result) error"),
  (1, "assign", "v5, v6 := Next(state)"),   -- byte: `let d ← next`
  (1, "if", "v6 != nil"),   -- byte: `next` fails at the end of the input
  (2, "return", "NewNestedError(v3, v6)"),   -- byte: failure (state unchanged)
  (1, "if", "v5 != v1"),   -- byte: `if d != c`
  (2, "return", "NewError(v4, state.Position())"),   -- byte: `then fail` (state unchanged)
  (1, "result", "result.SetToken([]byte{v5})"),   -- byte: the token (not used by the callers)
  (1, "state", "state.Advance()"),   -- byte: `advance1`
  (1, "return", "nil")   -- byte: success
]

/-- helper of the several-bytes case — not used by gts -/
def fn_Byte_func2 : List Line := [
  (0, "func", "(b0 byte) bool"),
  (1, "return", "strings.IndexByte(v10, b0) < 0")
]

/-- `pars.Byte(c1, c2, …)` — not used by gts (no model clause) -/
def fn_Byte_func3 : List Line := [
  (0, "func", "(state *State, result *Result) error"),
  (1, "assign", "v12, v13 := Next(state)"),
  (1, "if", "v13 != nil"),
  (2, "return", "NewNestedError(v8, v13)"),
  (1, "if", "v11(v12)"),
  (2, "return", "NewError(v9, state.Position())"),
  (1, "result", "result.SetToken([]byte{v12})"),
  (1, "state", "state.Advance()"),
  (1, "return", "nil")
]

/-- `pars.Bytes(p)` — `Pars.lit p` (`genbankFieldNameParser` builds its name parser with it); set-up = error texts -/
def fn_Bytes : List Line := [
  (0, "func", "(p0 []byte) Parser"),
  (1, "assign", "v0 := fmt.Sprintf(\"[%s]\", strings.Join(ascii.Reps(p0), \", \"))"),   -- error text only
  (1, "assign", "v1 := fmt.Sprintf(\"Bytes([%s])\", v0)"),   -- error text only
  (1, "assign", "v2 := fmt.Sprintf(\"expected [%s]\", v0)"),   -- error text only
  (1, "return", "func0")   -- lit (whole body)
]

/-- the parser `pars.Bytes(p)` returns — `Pars.lit p`: `if s.rest.take p.length == p && p.length ≤ s.rest.length then advanceN p.length else fail` (bridge `Gts.Bridge.bytes_sim`) -/
def fn_Bytes_func0 : List Line := [
  (0, "func", "(state *State, result *Result) error"),
  (1, "if", "v3 := state.Request(len(p0)); v3 != nil"),   -- lit: `p.length ≤ s.rest.length` (`Pars.request`)
  (2, "return", "NewNestedError(v1, v3)"),   -- lit: `else fail` (nothing consumed)
  (1, "if", "!bytes.Equal(state.Buffer(), p0)"),   -- lit: `s.rest.take p.length == p`
  (2, "return", "NewError(v2, state.Position())"),   -- lit: `else fail` (nothing consumed)
  (1, "result", "result.SetToken(p0)"),   -- lit: the token (callers use `pars.Void`)
  (1, "state", "state.Advance()"),   -- lit: `advanceN p.length`
  (1, "return", "nil")   -- lit: success
]

/-- `pars.Dry(q)` — `GenBank.fieldPadding` (`pars.Dry(pars.EOL)`): look ahead without consuming -/
def fn_Dry : List Line := [
  (0, "func", "(q0 interface{}) Parser"),
  (1, "assign", "v0 := AsParser(q0)"),   -- the argument through `AsParser`
  (1, "return", "func0")   -- fieldPadding: the dry-run of `eol`
]

/-- the parser `pars.Dry(q)` returns — `GenBank.fieldPadding`: `Push`, the parser, `Pop` on BOTH outcomes, the parser's verdict: a look-ahead that consumes nothing (bridge `Gts.Bridge.dry_sim`) -/
def fn_Dry_func0 : List Line := [
  (0, "func", "(state *State, result *Result) error"),
  (1, "state", "state.Push()"),   -- fieldPadding: the look-ahead consumes nothing — the position is saved
  (1, "assign", "v1 := v0(state, result)"),   -- fieldPadding: `match s.rest with | [] | 10 :: _ | 13 :: 10 :: _ | 13 :: _` — where `Pars.eol` succeeds (the number answered is the length of its token)
  (1, "state", "state.Pop()"),   -- fieldPadding: … and restored, whatever `EOL` answered
  (1, "return", "v1")   -- fieldPadding: `| _ => do clear; fail` when `EOL` failed
]

/-- `pars.Seq(q…)` — `ModParse.seq2` / `seq3`, `LocParse.*` (hand-written sequences), `GenBank.locusParser`; set-up = error text and `AsParsers` -/
def fn_Seq : List Line := [
  (0, "func", "(qq0 ...interface{}) Parser"),
  (1, "assign", "v0 := fmt.Sprintf(\"Seq(%d)\", len(qq0))"),   -- error text only
  (1, "assign", "v1 := AsParsers(qq0...)"),   -- every member through `AsParser`
  (1, "return", "func0")   -- seq2 (whole body)
]

/-- the parser `pars.Seq(q…)` returns — `ModParse.seq2`: `push`; every member in order, the first failure `pop`s (whatever frame is then on top) and fails; `drop`; the children -/
def fn_Seq_func0 : List Line := [
  (0, "func", "(state *State, result *Result) error"),
  (1, "assign", "v2 := make([]Result, len(v1))"),   -- seq2: the results `(a, b)`
  (1, "state", "state.Push()"),   -- seq2: `push`
  (1, "range", "v3, v4 := range v1"),   -- seq2: the members in order
  (2, "if", "v5 := v4(state, &v2[v3]); v5 != nil"),   -- seq2: `match ← attempt p with … | none =>`
  (3, "state", "state.Pop()"),   -- seq2: `pop`
  (3, "return", "NewNestedError(v0, v5)"),   -- seq2: `fail`
  (1, "state", "state.Drop()"),   -- seq2: `drop`
  (1, "result", "result.SetChildren(v2)"),   -- seq2: `pure (a, b)`
  (1, "return", "nil")   -- seq2: success
]

/-- `pars.Any(q…)` — `LocParse.anyOf`, `GenBank.refAlts`, `GenBank.bpOrAa`; set-up = error text and `AsParsers` -/
def fn_Any : List Line := [
  (0, "func", "(qq0 ...interface{}) Parser"),
  (1, "assign", "v0 := fmt.Sprintf(\"Any(%d)\", len(qq0))"),   -- error text only
  (1, "assign", "v1 := AsParsers(qq0...)"),   -- every alternative through `AsParser`
  (1, "return", "func0")   -- anyOf (whole body)
]

/-- the parser `pars.Any(q…)` returns — `LocParse.anyOf`: `push`; alternatives from wherever the previous one left the state; success `drop`s; a failure with nothing pushed any more fails at once; all failed: `pop`, fail (bridge `Gts.Bridge.any_sim`) -/
def fn_Any_func0 : List Line := [
  (0, "func", "(state *State, result *Result) (err0 error)"),
  (1, "state", "state.Push()"),   -- anyOf: `push`
  (1, "range", "_, v2 := range v1"),   -- anyOf: `go ps` — in list order
  (2, "if", "err0 = v2(state, result); err0 == nil"),   -- anyOf: `match ← attempt p with | some v =>`
  (3, "state", "state.Drop()"),   -- anyOf: `drop`
  (3, "return", "nil"),   -- anyOf: `pure v`
  (2, "if", "!state.Pushed()"),   -- anyOf: `if !(← pushed) then fail` — an alternative cleared or popped the saved positions
  (3, "return", "NewNestedError(v0, err0)"),   -- anyOf: `fail`
  (1, "state", "state.Pop()"),   -- anyOf: `| [] => do pop`
  (1, "return", "NewNestedError(v0, err0)")   -- anyOf: `fail`
]

/-- `pars.Maybe(q)` — `GenBank.divisionParser` (the only use: around `Count(Filter, 3).Map(Cat)`) -/
def fn_Maybe : List Line := [
  (0, "func", "(q0 interface{}) Parser"),
  (1, "assign", "v0 := AsParser(q0)"),   -- the argument through `AsParser`
  (1, "return", "func0")   -- divisionParser (whole body)
]

/-- the parser `pars.Maybe(q)` returns — `GenBank.divisionParser`: a failure of the inner parser is `pure []` with the position restored (bridge `Gts.Bridge.maybe_sim`) -/
def fn_Maybe_func0 : List Line := [
  (0, "func", "(state *State, result *Result) error"),
  (1, "state", "state.Push()"),   -- divisionParser: the frame of `Maybe` (the inner `Map` / `Seq` restore the position themselves; net effect none)
  (1, "if", "v1 := v0(state, result); v1 != nil"),   -- divisionParser: the inner parser failed
  (2, "if", "!state.Pushed()"),   -- not reachable: `Count(Filter, 3).Map(Cat)` pops only what it pushed
  (3, "return", "NewNestedError(\"Maybe\", v1)"),   -- not reachable
  (2, "state", "state.Pop()"),   -- divisionParser: `pure []` with nothing consumed
  (2, "return", "nil"),   -- divisionParser: success without a token
  (1, "state", "state.Drop()"),   -- divisionParser: `advanceN 3` kept
  (1, "return", "nil")   -- divisionParser: `pure [a, b, c]`
]

/-- `pars.Many(q)` — `Insdc.qualifiers` (`pars.Many(qualifierParser)`), `refMore` of `parseReferenceInfo` -/
def fn_Many : List Line := [
  (0, "func", "(q0 interface{}) Parser"),
  (1, "assign", "v0 := AsParser(q0)"),   -- the argument through `AsParser`
  (1, "return", "func0")   -- qualifiers (whole body)
]

/-- the parser `pars.Many(q)` returns — `Insdc.qualifiers`: until the first failure, whose leftovers stay; never fails.  The no-progress exit (`start == Position()`) is not modelled: a qualifier that is read has consumed `prefix/` (`Strict`, Gts/Lemmas/GbProgress.lean) -/
def fn_Many_func0 : List Line := [
  (0, "func", "(state *State, result *Result) error"),
  (1, "assign", "v1 := []Result{}"),   -- qualifiers: `acc`
  (1, "assign", "v2 := state.Position()"),   -- not modelled (no-progress exit): the position at entry
  (1, "for", "v0(state, result) == nil"),   -- qualifiers: `match ← attempt (qualifier pre reg) with | some … => … | none =>` — the state a failing round leaves behind stays
  (2, "if", "v2 == state.Position()"),   -- not modelled (no-progress exit)
  (3, "return", "nil"),   -- not modelled (no-progress exit)
  (2, "assign", "v1 = append(v1, *result)"),   -- qualifiers: `q :: acc`
  (2, "assign", "*result = Result{}"),   -- qualifiers: a fresh result object per round
  (1, "result", "result.SetChildren(v1)"),   -- qualifiers: `pure (acc.reverse, reg)`
  (1, "return", "nil")   -- qualifiers: never fails
]

/-- `pars.Exact(q)` — `ModParse.exact`: `mapP (seq2 p atEnd) (·.1)` on a fresh state (`Head` holds) -/
def fn_Exact : List Line := [
  (0, "func", "(q0 interface{}) Parser"),
  (1, "assign", "v0 := AsParser(q0)"),   -- exact: the argument through `AsParser`
  (1, "return", "Seq(Head, v0, End).Map(Child(1))")   -- exact: `Seq(Head, p, End)` = `seq2 p atEnd` behind `Head`; `.Map(Child(1))` = `mapP … (·.1)`
]

/-- `pars.Count(q, n)` — `GenBank.divisionParser`: `Seq` of `n` copies (n = 3) -/
def fn_Count : List Line := [
  (0, "func", "(q0 interface{}, n0 int) Parser"),
  (1, "assign", "v0 := make([]interface{}, n0)"),   -- divisionParser: three members
  (1, "range", "v1 := range v0"),   -- divisionParser: three members
  (2, "assign", "v0[v1] = q0"),   -- divisionParser: all the same parser
  (1, "return", "Seq(v0...)")   -- divisionParser: their `Seq`
]

/-- `pars.Until(byte)` — `GenBank.untilColon` (`pars.Until(byte(':'))`; the reader used it until a4b3f5d, kept as the reading of the primitive); set-up = error text -/
def fn_untilByte : List Line := [
  (0, "func", "(b0 byte) Parser"),
  (1, "assign", "v0 := fmt.Sprintf(\"Until(%s)\", ascii.Rep(b0))"),   -- error text only
  (1, "return", "func0")   -- untilColon (whole body)
]

/-- the parser `untilByte(e)` returns — `GenBank.untilColon` = `Pars.untilFilter (· == e)`: to the first `e`, which is NOT consumed, or — at the end of the input — `Pop` and an error: position and saved positions as on entry (bridge `Gts.Bridge.untilByte_sim`) -/
def fn_untilByte_func0 : List Line := [
  (0, "func", "(state *State, result *Result) error"),
  (1, "state", "state.Push()"),   -- untilFilter: `Push` (the frame `Trail` or `Pop` takes away again)
  (1, "assign", "v1, v2 := Next(state)"),   -- untilFilter: `indexWhere f s.rest` — first look
  (1, "if", "v2 != nil"),   -- untilFilter: `| none => fail` on the empty input
  (2, "state", "state.Pop()"),   -- untilFilter: `Pop`: position as on entry
  (2, "return", "NewNestedError(v0, v2)"),   -- untilFilter: `fail`
  (1, "for", "v1 != b0"),   -- untilFilter: `indexWhere` goes on while the byte is not `e`
  (2, "state", "state.Advance()"),   -- untilFilter: one byte further
  (2, "assign", "v1, v2 = Next(state)"),   -- untilFilter: next look
  (2, "if", "v2 != nil"),   -- untilFilter: `| none => fail` — the END OF THE INPUT (finding K7D / F38 was this scan)
  (3, "state", "state.Pop()"),   -- untilFilter: `Pop`: position as on entry
  (3, "return", "NewNestedError(v0, v2)"),   -- untilFilter: `fail`
  (1, "assign", "v3, _ := Trail(state)"),   -- untilFilter: `| some i => do advanceN i; pure (s.rest.take i)` — the token is the `Trail`, which pops the frame
  (1, "result", "result.SetToken(v3)"),   -- untilFilter: the token
  (1, "return", "nil")   -- untilFilter: success, the delimiter not consumed
]

/-- `pars.Until([]byte)` — reached from `Until` by type; gts hands no `[]byte` / `rune` to `Until` (no model clause) -/
def fn_untilBytes : List Line := [
  (0, "func", "(p0 []byte) Parser"),
  (1, "switch", "len(p0)"),
  (2, "case", "0"),
  (3, "call", "panic(\"no bytes given to Until\")"),
  (2, "case", "1"),
  (3, "return", "untilByte(p0[0])"),
  (2, "default", ""),
  (3, "assign", "v0 := fmt.Sprintf(\"Until(%s)\", strings.Join(ascii.Reps(p0), \", \"))"),
  (3, "return", "func0")
]

/-- the parser `untilBytes(p)` returns — not used by gts (no model clause) -/
def fn_untilBytes_func0 : List Line := [
  (0, "func", "(state *State, result *Result) error"),
  (1, "state", "state.Push()"),
  (1, "for", ""),
  (2, "if", "v1 := state.Request(len(p0)); v1 != nil"),
  (3, "state", "state.Pop()"),
  (3, "return", "NewNestedError(v0, v1)"),
  (2, "if", "bytes.Equal(state.Buffer(), p0)"),
  (3, "assign", "v2, _ := Trail(state)"),
  (3, "result", "result.SetToken(v2)"),
  (3, "return", "nil"),
  (2, "parse", "Skip(state, 1)")
]

/-- `pars.Until(func(byte) bool)` — `Pars.untilFilter f` (`genbankContigParser` since a4b3f5d: `Gen.contigStop`); set-up = error text -/
def fn_untilFilter : List Line := [
  (0, "func", "(filter0 ascii.Filter) Parser"),
  (1, "assign", "v0 := reflect.ValueOf(filter0)"),   -- error text only
  (1, "assign", "v1 := runtime.FuncForPC(v0.Pointer())"),   -- error text only
  (1, "assign", "v2 := fmt.Sprintf(\"Until(%s)\", v1.Name())"),   -- error text only
  (1, "return", "func0")   -- untilFilter (whole body)
]

/-- the parser `untilFilter(f)` returns — `Pars.untilFilter f`: `match indexWhere f s.rest with | none => fail | some i => do advanceN i; pure (s.rest.take i)` (bridge `Gts.Bridge.untilFilter_sim`) -/
def fn_untilFilter_func0 : List Line := [
  (0, "func", "(state *State, result *Result) error"),
  (1, "state", "state.Push()"),   -- untilFilter: `Push` (the frame `Trail` or `Pop` takes away again)
  (1, "assign", "v3, v4 := Next(state)"),   -- untilFilter: `indexWhere f s.rest` — first look
  (1, "if", "v4 != nil"),   -- untilFilter: `| none => fail` on the empty input
  (2, "state", "state.Pop()"),   -- untilFilter: `Pop`: position as on entry
  (2, "return", "NewNestedError(v2, v4)"),   -- untilFilter: `fail`
  (1, "for", "!filter0(v3)"),   -- untilFilter: `indexWhere` goes on while `f` rejects the byte
  (2, "state", "state.Advance()"),   -- untilFilter: one byte further
  (2, "assign", "v3, v4 = Next(state)"),   -- untilFilter: next look
  (2, "if", "v4 != nil"),   -- untilFilter: `| none => fail` at the end of the input
  (3, "state", "state.Pop()"),   -- untilFilter: `Pop`: position and saved positions as on entry
  (3, "return", "NewNestedError(v2, v4)"),   -- untilFilter: `fail`
  (1, "assign", "v5, _ := Trail(state)"),   -- untilFilter: `| some i => do advanceN i; pure (s.rest.take i)` — the token is the `Trail`, which pops the frame
  (1, "result", "result.SetToken(v5)"),   -- untilFilter: the token
  (1, "return", "nil")   -- untilFilter: success, the accepted byte not consumed
]

/-- `pars.Until(q)` — the dispatch by type: gts hands it a `func(byte) bool` (`genbankContigParser`) and a parser (`pars.Any('>', pars.End)`, fasta.go) -/
def fn_Until : List Line := [
  (0, "func", "(q0 interface{}) Parser"),
  (1, "typeswitch", "v0 := q0.(type)"),   -- by the dynamic type of the argument
  (2, "case", "byte"),   -- not used by gts since a4b3f5d (`GenBank.untilColon` is the reading)
  (3, "return", "untilByte(v0)"),   -- untilColon
  (2, "case", "[]byte"),   -- not used by gts
  (3, "return", "untilBytes(v0)"),   -- not used by gts
  (2, "case", "rune"),   -- not used by gts
  (3, "assign", "v1 := []byte{0, 0, 0, 0}"),   -- not used by gts
  (3, "assign", "v2 := utf8.EncodeRune(v1, v0)"),   -- not used by gts
  (3, "return", "untilBytes(v1[:v2])"),   -- not used by gts
  (2, "case", "[]rune"),   -- not used by gts
  (3, "assign", "v3 := []byte(string(v0))"),   -- not used by gts
  (3, "return", "untilBytes(v3)"),   -- not used by gts
  (2, "case", "func(byte) bool"),   -- contigField: `untilFilter contigStop`
  (3, "return", "untilFilter(v0)"),   -- contigField: `untilFilter contigStop`
  (2, "case", "ascii.Filter"),   -- not used by gts (a named `ascii.Filter`)
  (3, "return", "untilFilter(v0)"),   -- not used by gts
  (2, "default", ""),   -- fastaSeq: `untilP (anyOf [gt, endP])`
  (3, "assign", "v4 := AsParser(q0)"),   -- untilP: the argument through `AsParser`
  (3, "return", "func0")   -- untilP (whole body)
]

/-- the parser the `default:` case of `pars.Until(q)` returns — `Fasta.untilP` / `untilLoop` -/
def fn_Until_func0 : List Line := [
  (0, "func", "(state *State, result *Result) error"),
  (1, "state", "state.Push()"),   -- untilP: `push` (the backtrack point)
  (1, "state", "state.Push()"),   -- untilP: `push`
  (1, "for", "v4(state, result) != nil"),   -- untilLoop: `match ← attempt p with | some _ => pure () | none =>`
  (2, "state", "state.Drop()"),   -- untilLoop: `drop`
  (2, "if", "v5 := Skip(state, 1); v5 != nil"),   -- untilLoop: `match (← getS).rest with | [] =>` (`Skip(state, 1)` fails at the end of the input)
  (3, "state", "state.Pop()"),   -- untilLoop: `pop`
  (3, "return", "NewNestedError(\"Until\", v5)"),   -- untilLoop: `fail`
  (2, "state", "state.Push()"),   -- untilLoop: `| _ :: _ => do advance1; push; untilLoop p fuel`
  (1, "state", "state.Pop()"),   -- untilP: `pop` back to where `q` matched
  (1, "assign", "v6, v7 := Trail(state)"),   -- untilP: `trail`
  (1, "if", "v7 != nil"),   -- untilP: `if !(← pushed) then fail` (the error of `Trail`: nothing pushed)
  (2, "return", "NewNestedError(\"Until\", v7)"),   -- untilP: `fail`
  (1, "result", "result.SetToken(v6)"),   -- untilP: the token
  (1, "return", "nil")   -- untilP: success
]

/-- `pars.EOL` — `Pars.eol`: nothing at the end of the input, LF, CR LF, a lone CR; anything else fails with nothing consumed (bridge `Gts.Bridge.eol_sim`) -/
def fn_EOL : List Line := [
  (0, "func", "(state *State, result *Result) error"),
  (1, "assign", "v0, v1 := Next(state)"),   -- eol: `match (← getS).rest with`
  (1, "if", "v1 != nil"),   -- eol: `| [] =>`
  (2, "result", "result.SetToken(nil)"),   -- eol: `pure []`
  (2, "return", "nil"),   -- eol: success at the end of the input
  (1, "if", "v0 == '\\n'"),   -- eol: `| 10 :: _ =>`
  (2, "result", "result.SetToken([]byte{'\\n'})"),   -- eol: `pure [10]`
  (2, "state", "state.Advance()"),   -- eol: `advance1`
  (2, "return", "nil"),   -- eol: success
  (1, "if", "v0 == '\\r'"),   -- eol: `| 13 :: …`
  (2, "state", "state.Advance()"),   -- eol: the CR is consumed on both CR paths
  (2, "assign", "v0, v1 = Next(state)"),   -- eol: the byte behind the CR
  (2, "if", "v1 == nil && v0 == '\\n'"),   -- eol: `| 13 :: 10 :: _ =>`
  (3, "state", "state.Advance()"),   -- eol: `advanceN 2` (one byte each)
  (3, "result", "result.SetToken([]byte{'\\r', '\\n'})"),   -- eol: `pure [13, 10]`
  (3, "return", "nil"),   -- eol: success
  (2, "result", "result.SetToken([]byte{'\\r'})"),   -- eol: `| 13 :: _ => do advance1; pure [13]`
  (2, "return", "nil"),   -- eol: success
  (1, "return", "NewError(\"expected CR, LF, CRLF, or end of state\", state.Position())")   -- eol: `| _ => fail` (nothing consumed)
]

/-- `calculateLineLength` — `Pars.calcLine rest 0 0 false`: (length of the line, number of terminator bytes to skip); known finding K7C lives in the `case cr` / `n++` pair: CR CR LF counts THREE terminator bytes but cuts the line one byte before the LF (bridge `Gts.Bridge.calculateLineLength_sim`, `calcLine_crcrlf`) -/
def fn_calculateLineLength : List Line := [
  (0, "func", "(state *State) (int, int)"),
  (1, "assign", "v0, v1, v2 := 0, 0, false"),   -- calcLine: the arguments `0 0 false` of `Pars.line`
  (1, "for", "state.Request(v0 + 1) == nil"),   -- calcLine: `| [], i, n, _ => (i, n)` when the request fails, `| c :: r, i, n, cr =>` otherwise (one more byte is there)
  (2, "assign", "v3 := state.Buffer()[v0]"),   -- calcLine: the byte `c` at offset `i`
  (2, "switch", ""),   -- calcLine: the four tests in this order
  (3, "case", "v3 == '\\n' && v2"),   -- calcLine: `if c == 10 && cr`
  (4, "return", "v0 - 1, v1 + 1"),   -- calcLine: `then (i - 1, n + 1)`
  (3, "case", "v3 == '\\n'"),   -- calcLine: `else if c == 10`
  (4, "return", "v0, v1 + 1"),   -- calcLine: `then (i, n + 1)`
  (3, "case", "v3 == '\\r'"),   -- calcLine: `else if c == 13`
  (4, "assign", "v2 = true"),   -- calcLine: `then calcLine r (i + 1) (n + 1) true` — `cr`
  (4, "assign", "v1++"),   -- calcLine: `then calcLine r (i + 1) (n + 1) true` — `n + 1` (EVERY carriage return counts: K7C)
  (3, "case", "v2"),   -- calcLine: `else if cr`
  (4, "return", "v0 - 1, v1"),   -- calcLine: `then (i - 1, n)`
  (2, "assign", "v0++"),   -- calcLine: `i + 1` in both recursive calls
  (1, "return", "v0, v1")   -- calcLine: `| [], i, n, _ => (i, n)`
]

/-- `pars.Line` — `Pars.line`: the token is the first `i` bytes; then `Skip(n)`, which does nothing at all when fewer than `n` bytes remain (bridge `Gts.Bridge.line_sim`) -/
def fn_Line : List Line := [
  (0, "func", "(state *State, result *Result) error"),
  (1, "assign", "v0, v1 := calculateLineLength(state)"),   -- line: `let (i, n) := calcLine s.rest 0 0 false`
  (1, "state", "state.Request(v0)"),   -- line: `s.rest.take i` (cannot fail: `i` bytes were seen)
  (1, "result", "result.SetToken(state.Buffer())"),   -- line: `pure (s.rest.take i)`
  (1, "state", "state.Advance()"),   -- line: `let r := s.rest.drop i`
  (1, "parse", "Skip(state, v1)"),   -- line: `rest := if r.length < n then r else r.drop n` — the error of `Skip` is dropped
  (1, "return", "nil")   -- line: never fails
]

/-- the error of `Child` / `Children` on a result without children (error text only) -/
def fn_errNoChildren : List Line := [
  (0, "var", "errors.New(\"result does not have children\")")
]

/-- the error type of `NewError` (message and position: never compared, the model has the one value `Err.fail`) -/
def fn_Error : List Line := [
  (0, "type", "struct"),
  (1, "field", "what string"),
  (1, "field", "pos Position")
]

/-- `pars.NewError` — `Pars.fail` (the error VALUE is not modelled) -/
def fn_NewError : List Line := [
  (0, "func", "(s0 string, pos0 Position) error"),
  (1, "return", "Error{s0, pos0}")   -- fail
]

/-- error text only -/
def fn_Error_Error : List Line := [
  (0, "func", "(recv Error) () string"),
  (1, "return", "fmt.Sprintf(\"%s at %s\", recv.what, recv.pos)")
]

/-- the error type of `NewNestedError` (not modelled: `Err.fail`) -/
def fn_NestedError : List Line := [
  (0, "type", "struct"),
  (1, "field", "name string"),
  (1, "field", "err error")
]

/-- `NewNestedError` — `Pars.fail` (the error VALUE is not modelled) -/
def fn_NewNestedError : List Line := [
  (0, "func", "(s0 string, err0 error) error"),
  (1, "return", "NestedError{s0, err0}")   -- fail
]

/-- error text only -/
def fn_NestedError_Error : List Line := [
  (0, "func", "(recv NestedError) () string"),
  (1, "return", "fmt.Sprintf(\"in %s:\\n%s\", recv.name, recv.err)")
]

/-- the error type of `Parser.Error` (not modelled: `Err.fail`) -/
def fn_BoundError : List Line := [
  (0, "type", "struct"),
  (1, "field", "err error"),
  (1, "field", "pos Position")
]

/-- error text only -/
def fn_BoundError_Error : List Line := [
  (0, "func", "(recv BoundError) () string"),
  (1, "return", "fmt.Sprintf(\"%s at %s\", recv.err, recv.pos)")
]

/-- `convertInt` — `Pars.int`, its last four lines: `let p ← trail; match atoi p with` -/
def fn_convertInt : List Line := [
  (0, "func", "(state *State) (int, error)"),
  (1, "assign", "v0, _ := Trail(state)"),   -- int: `let p ← trail` (pops the frame `Int` pushed)
  (1, "return", "strconv.Atoi(string(v0))")   -- int: `match atoi p with | some n => pure n | none => fail` (`strconv.Atoi` = `Pars.atoi`: out of the 64-bit range is an error)
]

/-- `pars.Int` — `Pars.int`: the frame pushed first is LEAKED when the input ends at the first byte or behind the sign (F34's root cause: the saved positions the record loop popped were these); bridge `Gts.Bridge.int_sim`, `int_leaks_frame` -/
def fn_Int : List Line := [
  (0, "func", "(state *State, result *Result) error"),
  (1, "state", "state.Push()"),   -- int: `push`
  (1, "assign", "v0, v1 := Next(state)"),   -- int: `let c ← next`
  (1, "if", "v1 != nil"),   -- int: `next` fails at the end of the input
  (2, "return", "NewNestedError(\"Int\", v1)"),   -- int: "failure leaks the frame, as in Go" — NO `Pop`
  (1, "if", "v0 == '-' || v0 == '+'"),   -- int: `if c == 45 || c == 43`
  (2, "state", "state.Advance()"),   -- int: `advance1`
  (2, "assign", "v0, v1 = Next(state)"),   -- int: `next`
  (2, "if", "v1 != nil"),   -- int: `next` fails behind the sign
  (3, "return", "NewNestedError(\"Int\", v1)"),   -- int: the frame is leaked again (and the sign stays consumed) — NO `Pop`
  (1, "if", "!ascii.IsDigit(v0)"),   -- int: `if !isDigit c` (`ascii.IsDigit` = `Pars.isDigit`)
  (2, "state", "state.Pop()"),   -- int: `pop`
  (2, "return", "NewError(\"expected an integer\", state.Position())"),   -- int: `fail`
  (1, "if", "v0 == '0'"),   -- int: `else if c == 48`
  (2, "state", "state.Advance()"),   -- int: `advance1`
  (2, "state", "state.Drop()"),   -- int: `drop`
  (2, "result", "result.SetValue(0)"),   -- int: `pure 0`
  (2, "return", "nil"),   -- int: success
  (1, "for", "v1 == nil && ascii.IsDigit(v0)"),   -- int: `skipWhile isDigit` — while a byte is there and it is a digit
  (2, "state", "state.Advance()"),   -- int: `skipWhile isDigit` — `advance1`
  (2, "assign", "v0, v1 = Next(state)"),   -- int: `skipWhile isDigit` — next look
  (1, "assign", "v2, v1 := convertInt(state)"),   -- int: `let p ← trail; match atoi p with` (`convertInt`)
  (1, "if", "v1 != nil"),   -- int: `| none =>`
  (2, "return", "v1"),   -- int: `fail` — the digits stay consumed, the frame is gone
  (1, "result", "result.SetValue(v2)"),   -- int: `| some n => pure n`
  (1, "return", "nil")   -- int: success
]

/-- `pars.Between(l, r)` — `Insdc.quoted` through `Quoted`; set-up = error texts -/
def fn_Between : List Line := [
  (0, "func", "(b0 byte, b1 byte) Parser"),
  (1, "assign", "v0 := fmt.Sprintf(\"Between(%s, %s)\", ascii.Rep(b0), ascii.Rep(b1))"),   -- error text only
  (1, "assign", "v1 := fmt.Sprintf(\"expected opening `%c`\", b0)"),   -- error text only
  (1, "assign", "v2 := fmt.Sprintf(\"expected closing `%c`\", b1)"),   -- error text only
  (1, "return", "func0")   -- quoted (whole body)
]

/-- the parser `pars.Between(l, r)` returns — `Insdc.quoted` / `scanQ`: the opening byte, then to the closing byte skipping the byte behind every backslash; the token is the raw text between them; every failure restores the state -/
def fn_Between_func0 : List Line := [
  (0, "func", "(state *State, result *Result) error"),
  (1, "state", "state.Push()"),   -- quoted: the frame `Trail` / `Pop` takes away again
  (1, "assign", "v3, v4 := Next(state)"),   -- quoted: `match s.rest with`
  (1, "if", "v4 != nil"),   -- quoted: `| _ => fail` (empty input)
  (2, "state", "state.Pop()"),   -- quoted: state restored
  (2, "return", "NewNestedError(v0, v4)"),   -- quoted: `fail`
  (1, "if", "v3 != b0"),   -- quoted: `| 34 :: r =>` or
  (2, "state", "state.Pop()"),   -- quoted: state restored
  (2, "return", "NewError(v1, state.Position())"),   -- quoted: `| _ => fail`
  (1, "state", "state.Advance()"),   -- quoted: behind the opening quote
  (1, "assign", "v3, v4 = Next(state)"),   -- scanQ: first byte
  (1, "for", "v4 == nil && v3 != b1"),   -- scanQ: `| false, c :: r, k => if c = 34 then some k else …`
  (2, "if", "v3 == '\\\\'"),   -- scanQ: `else if c = 92 then scanQ true r (k + 1)`
  (3, "state", "state.Advance()"),   -- scanQ: the backslash is skipped
  (3, "assign", "_, v4 = Next(state)"),   -- scanQ: `| true, _ :: r, k => scanQ false r (k + 1)` — the byte behind it is not looked at
  (3, "if", "v4 != nil"),   -- scanQ: `| _, [], _ => none` behind a backslash
  (4, "state", "state.Pop()"),   -- quoted: state restored
  (4, "return", "NewError(v2, state.Position())"),   -- quoted: `| none => fail`
  (2, "state", "state.Advance()"),   -- scanQ: `k + 1`
  (2, "assign", "v3, v4 = Next(state)"),   -- scanQ: next byte
  (1, "if", "v4 != nil"),   -- scanQ: `| _, [], _ => none`
  (2, "state", "state.Pop()"),   -- quoted: state restored
  (2, "return", "NewError(v2, state.Position())"),   -- quoted: `| none => fail`
  (1, "assign", "v5, _ := Trail(state)"),   -- quoted: `r.take k` with the opening quote in front (the `Trail`)
  (1, "parse", "Skip(state, 1)"),   -- quoted: `rest := r.drop (k + 1)` — the closing quote is skipped
  (1, "result", "result.SetToken(v5[1:])"),   -- quoted: `pure (r.take k)` — `p[1:]` drops the opening quote
  (1, "return", "nil")   -- quoted: success
]

/-- `pars.Quoted(c)` — `Insdc.quoted` (c = `"`) -/
def fn_Quoted : List Line := [
  (0, "func", "(b0 byte) Parser"),
  (1, "return", "Between(b0, b0)")   -- quoted: `Between(c, c)`
]

/-- `pars.Child(i)` — `ModParse.mapP … (·.1)` and the like: the `i`-th child of a `Seq` result -/
def fn_Child : List Line := [
  (0, "func", "(n0 int) Map"),
  (1, "return", "func0")   -- mapP: the mapping
]

/-- the mapping `pars.Child(i)` returns — `ModParse.mapP`: "a mapping that cannot fail": the results it is applied to come from `Seq` and have children -/
def fn_Child_func0 : List Line := [
  (0, "func", "(result *Result) error"),
  (1, "if", "result.Children == nil"),   -- not reachable behind a `Seq`
  (2, "return", "errNoChildren"),   -- not reachable
  (1, "assign", "*result = result.Children[n0]"),   -- mapP: `pure (f v)`
  (1, "return", "nil")   -- mapP: the mapping succeeds
]

/-- `pars.Children(i…)` — `GenBank.locusParser`: the seven kept members (`Gts.Bridge.reader_locus_children`) -/
def fn_Children : List Line := [
  (0, "func", "(nn0 ...int) Map"),
  (1, "return", "func0")   -- locusParser: the mapping
]

/-- the mapping `pars.Children(i…)` returns — `GenBank.locusParser`: the record built from the kept members -/
def fn_Children_func0 : List Line := [
  (0, "func", "(result *Result) error"),
  (1, "if", "result.Children == nil"),   -- not reachable behind a `Seq`
  (2, "return", "errNoChildren"),   -- not reachable
  (1, "assign", "v0 := make([]Result, len(nn0))"),   -- locusParser: the kept members
  (1, "range", "v1, v2 := range nn0"),   -- locusParser: in the order of the indices
  (2, "assign", "v0[v1] = result.Children[v2]"),   -- locusParser: member `index` (a literal index within the `Seq`: `Gts.Bridge.reader_locus_children`)
  (1, "result", "result.SetChildren(v0)"),   -- locusParser: the kept members
  (1, "return", "nil")   -- locusParser: the mapping succeeds
]

/-- `pars.Cat` — `GenBank.divisionParser`: `pure [a, b, c]`, the tokens of the children concatenated -/
def fn_Cat : List Line := [
  (0, "func", "(result *Result) error"),
  (1, "if", "len(result.Children) == 0"),   -- divisionParser: not reachable behind `Count(…, 3)`
  (2, "result", "result.SetToken([]byte{})"),   -- not reachable
  (2, "return", "nil"),   -- not reachable
  (1, "assign", "v0 := 0"),   -- divisionParser: the length of `[a, b, c]`
  (1, "range", "_, v1 := range result.Children"),   -- divisionParser: over the three children
  (2, "if", "len(v1.Token) > 0"),   -- divisionParser: every `Filter` token has one byte
  (3, "assign", "v0 += len(v1.Token)"),   -- divisionParser: 3
  (1, "assign", "v2 := make([]byte, v0)"),   -- divisionParser: `make` of a non-negative length
  (1, "assign", "v0 = 0"),   -- divisionParser: fill from the left
  (1, "range", "_, v3 := range result.Children"),   -- divisionParser: over the three children
  (2, "if", "len(v3.Token) > 0"),   -- divisionParser: every `Filter` token has one byte
  (3, "assign", "v4 := copy(v2[v0:], v3.Token)"),   -- divisionParser: `copy` into the free tail (in range: the lengths were summed above)
  (3, "assign", "v0 += v4"),   -- divisionParser: next cell
  (1, "result", "result.SetToken(v2)"),   -- divisionParser: `pure [a, b, c]`
  (1, "return", "nil")   -- divisionParser: the mapping succeeds
]

/-- the type of a parser — `Pars.P α` (state monad over `PS` with the two failure kinds) -/
def fn_Parser : List Line := [
  (0, "type", "func(*State, *Result) error")
]

/-- the type of a result mapping -/
def fn_Map : List Line := [
  (0, "type", "func(*Result) error")
]

/-- `Parser.Map(f)` — `ModParse.mapP` -/
def fn_Parser_Map : List Line := [
  (0, "func", "(recv Parser) (f0 Map) Parser"),
  (1, "return", "func0")   -- mapP (whole body)
]

/-- the parser `p.Map(f)` returns — `ModParse.mapP`: `push; match ← attempt p with | none => do pop; fail | some v => do drop; pure (f v)`; a failing mapping (`genbankLocusParser/func0`: the date) leaves the position BEHIND the parser — `GenBank.locusBack` (bridge `Gts.Bridge.map_sim`, `point_sim`) -/
def fn_Parser_Map_func0 : List Line := [
  (0, "func", "(state *State, result *Result) error"),
  (1, "state", "state.Push()"),   -- mapP: `push`
  (1, "if", "v0 := recv(state, result); v0 != nil"),   -- mapP: `match ← attempt p with | none =>`
  (2, "state", "state.Pop()"),   -- mapP: `pop`
  (2, "return", "v0"),   -- mapP: `fail`
  (1, "state", "state.Drop()"),   -- mapP: `| some v => do drop`
  (1, "return", "f0(result)")   -- mapP: `pure (f v)` (the error of the mapping, if any, is returned with the frame already dropped)
]

/-- `p.Child(i)` — `ModParse.mapP p (·.1)` and the like -/
def fn_Parser_Child : List Line := [
  (0, "func", "(recv Parser) (n0 int) Parser"),
  (1, "return", "recv.Map(Child(n0))")   -- mapP
]

/-- `p.Children(i…)` — `GenBank.locusParser` (the outer of its two frames) -/
def fn_Parser_Children : List Line := [
  (0, "func", "(recv Parser) (nn0 ...int) Parser"),
  (1, "return", "recv.Map(Children(nn0...))")   -- locusParser: `push; push` — the second frame is this `Map`
]

/-- `p.Bind(v)` — `ModParse.parseMark`: `Byte(c).Bind(0)` answers 0 -/
def fn_Parser_Bind : List Line := [
  (0, "func", "(recv Parser) (q0 interface{}) Parser"),
  (1, "return", "func0")   -- parseMark (whole body)
]

/-- the parser `p.Bind(v)` returns — `ModParse.parseMark`: no frame of its own, the value replaces the result -/
def fn_Parser_Bind_func0 : List Line := [
  (0, "func", "(state *State, result *Result) error"),
  (1, "if", "v0 := recv(state, result); v0 != nil"),   -- parseMark: the marker byte
  (2, "return", "v0"),   -- parseMark: failure of `byte c`
  (1, "result", "result.SetValue(q0)"),   -- parseMark: `pure 0`
  (1, "return", "nil")   -- parseMark: success
]

/-- `p.Error(err)` — `Insdc.keyline`: `pars.Word(ascii.IsSnake).Error(errFeatureKey)` (another error VALUE, not modelled) -/
def fn_Parser_Error : List Line := [
  (0, "func", "(recv Parser) (err0 error) Parser"),
  (1, "return", "func0")   -- keyline (the error value is not modelled)
]

/-- the parser `p.Error(err)` returns — the same verdict with another error value (not modelled: `Err.fail`) -/
def fn_Parser_Error_func0 : List Line := [
  (0, "func", "(state *State, result *Result) error"),
  (1, "if", "v0 := recv(state, result); v0 != nil"),   -- keyline: the verdict of the inner parser
  (2, "return", "BoundError{err0, state.Position()}"),   -- keyline: `fail`
  (1, "return", "nil")   -- keyline: success
]

/-- `p.Parse(state)` — `parseLocation`, `asModifier`, `tryLocation`, `Scanner.Scan`: run on the state, `P.run'` -/
def fn_Parser_Parse : List Line := [
  (0, "func", "(recv Parser) (state *State) (Result, error)"),
  (1, "assign", "v0 := Result{}"),   -- run': a fresh result
  (1, "assign", "v1 := recv(state, &v0)"),   -- run': the parser on the state
  (1, "return", "v0, v1")   -- run': value and verdict
]

/-- `pars.AsParser(q)` — how a literal member of `Seq` / `Any` becomes a parser: `string` → `Pars.lit (str s)`, `byte` → `ModParse.byte`, a rune literal such as `'>'` → `Fasta.gt`, a parser stays what it is -/
def fn_AsParser : List Line := [
  (0, "func", "(q0 interface{}) Parser"),
  (1, "typeswitch", "v0 := q0.(type)"),   -- by the dynamic type
  (2, "case", "Parser"),   -- a parser stays what it is
  (3, "return", "v0"),   -- a parser stays what it is
  (2, "case", "func(*State, *Result) error"),   -- a function of the parser signature (`pars.Int`, `pars.Line`, `pars.EOL`, …) stays what it is
  (3, "return", "v0"),   -- a parser stays what it is
  (2, "case", "*Parser"),   -- `&ParseLocation` (location.go: the recursion of `parseComplement`): `LocParse.complementOf fuel` calls `loc fuel`
  (3, "return", "func0"),   -- complementOf: the parser behind the pointer, looked up when it runs
  (2, "case", "byte"),   -- `pars.Seq(byte(c), …)` — not used by gts (its character members are rune constants)
  (3, "return", "Byte(v0)"),   -- not used by gts
  (2, "case", "[]byte"),   -- not used by gts
  (3, "return", "Bytes(v0)"),   -- not used by gts
  (2, "case", "rune"),   -- gt / byte: `'>'`, `'^'`, `'$'` in a `Seq` / `Any` are untyped rune constants: `pars.Rune(c)`
  (3, "return", "Rune(v0)"),   -- gt: `Rune(c)`
  (2, "case", "[]rune"),   -- not used by gts
  (3, "return", "Runes(v0)"),   -- not used by gts
  (2, "case", "string"),   -- lit: `"LOCUS"`, `".."`, `" bp"`, `"; "` …
  (3, "return", "String(v0)"),   -- lit: `String(s)`
  (2, "case", "ascii.Filter"),   -- not used by gts outside `pars.Filter` itself
  (3, "return", "Filter(v0)"),   -- not used by gts
  (2, "default", ""),   -- not reachable: gts hands over parsers, strings and rune constants only
  (3, "call", "panic(fmt.Errorf(\"cannot convert type `%T` to a parser\", v0))")   -- not reachable
]

/-- the parser `AsParser(&p)` returns — `LocParse.complementOf fuel`: the parser behind the pointer, looked up when it runs -/
def fn_AsParser_func0 : List Line := [
  (0, "func", "(state *State, result *Result) error"),
  (1, "return", "(*v0)(state, result)")   -- complementOf: `loc fuel`
]

/-- `AsParsers` — every member of a `Seq` / `Any` through `AsParser`, in order -/
def fn_AsParsers : List Line := [
  (0, "func", "(qq0 ...interface{}) []Parser"),
  (1, "assign", "v0 := make([]Parser, len(qq0))"),   -- one parser per argument
  (1, "range", "v1, v2 := range qq0"),   -- in order
  (2, "assign", "v0[v1] = AsParser(v2)"),   -- `AsParser`
  (1, "return", "v0")   -- the list `Seq` / `Any` walk
]

/-- line and byte number of the state (0-based).  NOT part of the model's state `PS`: gts uses positions for error texts, `Head` (fresh state) and the no-progress exit of `Many` -/
def fn_Position : List Line := [
  (0, "type", "struct"),
  (1, "field", "Line int"),
  (1, "field", "Byte int")
]

/-- `Position.Head` — `ModParse.exact`: holds on a fresh state -/
def fn_Position_Head : List Line := [
  (0, "func", "(recv Position) () bool"),
  (1, "return", "recv.Line == 0 && recv.Byte == 0")   -- exact: (0, 0)
]

/-- error text only -/
def fn_Position_String : List Line := [
  (0, "func", "(recv Position) () string"),
  (1, "return", "fmt.Sprintf(\"line %d, byte %d\", recv.Line + 1, recv.Byte + 1)")
]

/-- `Position.Less` — reached by NAME only (`Less` of the sort interfaces of gts); no model clause -/
def fn_Position_Less : List Line := [
  (0, "func", "(recv Position) (pos0 Position) bool"),
  (1, "switch", ""),
  (2, "case", "recv.Line < pos0.Line"),
  (3, "return", "true"),
  (2, "case", "pos0.Line < recv.Line"),
  (3, "return", "false"),
  (2, "default", ""),
  (3, "return", "recv.Byte < pos0.Byte")
]

/-- `pars.Reader` — reached by NAME only (`Read`); gts does not build one (`NewReader` is unreached); no model clause -/
def fn_Reader : List Line := [
  (0, "type", "struct"),
  (1, "field", "reader *bufio.Reader"),
  (1, "field", "quoted bool"),
  (1, "field", "escaped bool")
]

/-- reached by NAME only (`Read`); no model clause -/
def fn_Reader_Read : List Line := [
  (0, "func", "(recv *Reader) (p0 []byte) (int, error)"),
  (1, "assign", "v0 := 0"),
  (1, "for", "v0 < len(p0)"),
  (2, "assign", "v1, v2 := recv.reader.ReadByte()"),
  (2, "if", "v2 != nil"),
  (3, "return", "v0, v2"),
  (2, "if", "!recv.escaped && ascii.IsQuote(v1)"),
  (3, "assign", "recv.quoted = !recv.quoted"),
  (2, "if", "recv.quoted || !ascii.IsSpace(v1)"),
  (3, "assign", "p0[v0] = v1"),
  (3, "assign", "v0++"),
  (2, "assign", "recv.escaped = v1 == '\\\\'"),
  (1, "return", "v0, nil")
]

/-- `pars.Void` — the shared result object for unused results (`GenBank` field parsers: the `void` flag and the token length it holds) -/
def fn_Void : List Line := [
  (0, "var", "&Result{}")
]

/-- the result object: token, value or children — in the model the value a parser returns -/
def fn_Result : List Line := [
  (0, "type", "struct"),
  (1, "field", "Token []byte"),
  (1, "field", "Value interface{}"),
  (1, "field", "Children []Result")
]

/-- `Result.SetToken` — the value of the `P Bytes` parsers -/
def fn_Result_SetToken : List Line := [
  (0, "func", "(recv *Result) (p0 []byte)"),
  (1, "assign", "recv.Token = p0"),   -- the token
  (1, "assign", "recv.Value = nil"),   -- nothing else stays
  (1, "assign", "recv.Children = nil")   -- nothing else stays
]

/-- `Result.SetValue` — the value of `Pars.int` and of the mapped parsers -/
def fn_Result_SetValue : List Line := [
  (0, "func", "(recv *Result) (q0 interface{})"),
  (1, "assign", "recv.Token = nil"),   -- nothing else stays
  (1, "assign", "recv.Value = q0"),   -- the value
  (1, "assign", "recv.Children = nil")   -- nothing else stays
]

/-- `Result.SetChildren` — the tuple of `ModParse.seq2` / `seq3` -/
def fn_Result_SetChildren : List Line := [
  (0, "func", "(recv *Result) (rr0 []Result)"),
  (1, "assign", "recv.Token = nil"),   -- nothing else stays
  (1, "assign", "recv.Value = nil"),   -- nothing else stays
  (1, "assign", "recv.Children = rr0")   -- the children
]

/-- error text only (reached from `Rune`) -/
def fn_runeRep : List Line := [
  (0, "func", "(c0 rune) string"),
  (1, "assign", "v0 := utf8.RuneLen(c0)"),
  (1, "if", "v0 > 1"),
  (2, "return", "fmt.Sprintf(\"%c\", c0)"),
  (1, "assign", "v1 := make([]byte, 1)"),
  (1, "call", "utf8.EncodeRune(v1, c0)"),
  (1, "return", "ascii.Rep(v1[0])")
]

/-- error text only (reached from `Rune` / `Runes`) -/
def fn_runeReps : List Line := [
  (0, "func", "(cc0 []rune) []string"),
  (1, "assign", "v0 := make([]string, len(cc0))"),
  (1, "range", "v1, v2 := range cc0"),
  (2, "assign", "v0[v1] = runeRep(v2)"),
  (1, "return", "v0")
]

/-- reached from `Rune()` / `Rune(c1, c2, …)`, which gts does not use (no model clause) -/
def fn_readRune : List Line := [
  (0, "func", "(state *State) (rune, error)"),
  (1, "for", "v0 := 0; v0 < 4; v0++"),
  (2, "if", "v1 := state.Request(v0 + 1); v1 != nil"),
  (3, "return", "utf8.RuneError, v1"),
  (2, "assign", "v2 := state.Buffer()"),
  (2, "if", "utf8.Valid(v2)"),
  (3, "assign", "v3, _ := utf8.DecodeRune(v2)"),
  (3, "return", "v3, nil"),
  (1, "return", "utf8.RuneError, errors.New(\"unable to read valid rune\")")
]

/-- `pars.Rune(c…)` — `Fasta.gt` / `ModParse.byte c` (what a rune constant member of `Seq` / `Any` becomes; gts: one ASCII character each) -/
def fn_Rune : List Line := [
  (0, "func", "(cc0 ...rune) Parser"),
  (1, "switch", "len(cc0)"),   -- gts takes `case 1` only
  (2, "case", "0"),   -- not used by gts
  (3, "return", "func0"),   -- not used by gts
  (2, "case", "1"),   -- gt / byte: one rune
  (3, "assign", "v2 := cc0[0]"),   -- gt: the rune
  (3, "assign", "v3 := runeRep(v2)"),   -- error text only
  (3, "assign", "v4 := fmt.Sprintf(\"Rune(%s)\", v3)"),   -- error text only
  (3, "assign", "v5 := fmt.Sprintf(\"expected `%s`\", v3)"),   -- error text only
  (3, "assign", "v6 := utf8.RuneLen(v2)"),   -- gt: its UTF-8 length — 1 for the ASCII characters gts uses
  (3, "assign", "v7 := make([]byte, v6)"),   -- gt: the one byte
  (3, "call", "utf8.EncodeRune(v7, v2)"),   -- gt: the one byte
  (3, "return", "func1"),   -- gt (whole body)
  (2, "default", ""),   -- not used by gts
  (3, "assign", "v9 := strings.Join(runeReps(cc0), \", \")"),   -- not used by gts
  (3, "assign", "v10 := fmt.Sprintf(\"Rune(%s)\", v9)"),   -- not used by gts
  (3, "assign", "v11 := fmt.Sprintf(\"expected one of [%s]\", v9)"),   -- not used by gts
  (3, "assign", "v12 := string(cc0)"),   -- not used by gts
  (3, "assign", "v13 := func2"),   -- not used by gts
  (3, "return", "func3")   -- not used by gts
]

/-- `pars.Rune()` without argument — not used by gts (no model clause) -/
def fn_Rune_func0 : List Line := [
  (0, "func", "(state *State, result *Result) error"),
  (1, "assign", "v0, v1 := readRune(state)"),
  (1, "if", "v1 != nil"),
  (2, "return", "NewNestedError(\"Rune\", v1)"),
  (1, "result", "result.SetValue(v0)"),
  (1, "state", "state.Advance()"),
  (1, "return", "nil")
]

/-- the parser `pars.Rune(c)` returns — `Fasta.gt` (c = `>`), `ModParse.byte c`: the encoding of the rune (one byte) must come next; nothing moves on a failure -/
def fn_Rune_func1 : List Line := [
  (0, "func", "(state *State, result *Result) error"),
  (1, "if", "v8 := state.Request(v6); v8 != nil"),   -- gt: `| [] => fail`
  (2, "return", "NewNestedError(v4, v8)"),   -- gt: failure (state unchanged)
  (1, "if", "!bytes.Equal(state.Buffer(), v7)"),   -- gt: `if c == 62`
  (2, "return", "NewError(v5, state.Position())"),   -- gt: `else fail` (state unchanged)
  (1, "result", "result.SetValue(v2)"),   -- gt: the value (not used)
  (1, "state", "state.Advance()"),   -- gt: `then advance1`
  (1, "return", "nil")   -- gt: success
]

/-- helper of the several-runes case — not used by gts -/
def fn_Rune_func2 : List Line := [
  (0, "func", "(c0 rune) bool"),
  (1, "return", "!strings.ContainsRune(v12, c0)")
]

/-- `pars.Rune(c1, c2, …)` — not used by gts (no model clause) -/
def fn_Rune_func3 : List Line := [
  (0, "func", "(state *State, result *Result) error"),
  (1, "assign", "v14, v15 := readRune(state)"),
  (1, "if", "v15 != nil"),
  (2, "return", "NewNestedError(v10, v15)"),
  (1, "if", "v13(v14)"),
  (2, "return", "NewError(v11, state.Position())"),
  (1, "result", "result.SetValue(v14)"),
  (1, "state", "state.Advance()"),
  (1, "return", "nil")
]

/-- `pars.Runes` — reached from `AsParser` by type; gts hands over no `[]rune` (no model clause) -/
def fn_Runes : List Line := [
  (0, "func", "(cc0 []rune) Parser"),
  (1, "assign", "v0 := fmt.Sprintf(\"[%s]\", strings.Join(runeReps(cc0), \", \"))"),
  (1, "assign", "v1 := fmt.Sprintf(\"Rune(%s)\", v0)"),
  (1, "assign", "v2 := fmt.Sprintf(\"expected [%s]\", v0)"),
  (1, "assign", "v3 := []byte(string(cc0))"),
  (1, "return", "func0")
]

/-- not used by gts (no model clause) -/
def fn_Runes_func0 : List Line := [
  (0, "func", "(state *State, result *Result) error"),
  (1, "if", "v4 := state.Request(len(v3)); v4 != nil"),
  (2, "return", "NewNestedError(v1, v4)"),
  (1, "if", "!bytes.Equal(state.Buffer(), v3)"),
  (2, "return", "NewError(v2, state.Position())"),
  (1, "result", "result.SetValue(cc0)"),
  (1, "state", "state.Advance()"),
  (1, "return", "nil")
]

/-- the stack of saved positions grows by 16 cells (capacity is not modelled: `PS.stk` is a list) -/
def fn_stackGrowthSize : List Line := [
  (0, "const", "16")
]

/-- one saved position: offset into the buffer and line / byte number — `PS.stk` holds the REMAINING INPUT at that offset instead (abstraction function `Gts.Bridge.absStk`) -/
def fn_frame : List Line := [
  (0, "type", "struct"),
  (1, "field", "Off int"),
  (1, "field", "Pos Position")
]

/-- the saved positions: cells `v[0 … i-1]`, youngest last — `PS.stk`, youngest first -/
def fn_stack : List Line := [
  (0, "type", "struct"),
  (1, "field", "v []frame"),
  (1, "field", "i int")
]

/-- an empty stack (`PS.stk = []`) -/
def fn_newStack : List Line := [
  (0, "func", "() *stack"),
  (1, "return", "&stack{make([]frame, stackGrowthSize), 0}")   -- `stk := []` of a fresh state
]

/-- `stack.Empty` — `s.stk.isEmpty` -/
def fn_stack_Empty : List Line := [
  (0, "func", "(recv stack) () bool"),
  (1, "return", "recv.i == 0")   -- pushed: `(← getS).stk.isEmpty`
]

/-- `stack.Push` — `Pars.push`: `stk := s.rest :: s.stk` -/
def fn_stack_Push : List Line := [
  (0, "func", "(recv *stack) (n0 int, pos0 Position)"),
  (1, "if", "recv.i == len(recv.v)"),   -- capacity only
  (2, "assign", "recv.v = append(recv.v, make([]frame, stackGrowthSize)...)"),   -- capacity only
  (1, "assign", "recv.v[recv.i] = frame{n0, pos0}"),   -- push: the new youngest frame
  (1, "assign", "recv.i++")   -- push: one more
]

/-- `stack.Pop` — the head of `s.stk`; on an EMPTY stack `v[-1]` panics — `State.Pop` / `State.Drop` guard it (bridge `Gts.Bridge.stackPop_empty_panics`) -/
def fn_stack_Pop : List Line := [
  (0, "func", "(recv *stack) () (int, Position)"),
  (1, "assign", "recv.i--"),   -- pop / drop: `r :: st` ↦ `st`
  (1, "assign", "v0 := recv.v[recv.i]"),   -- pop: the frame `r`
  (1, "return", "v0.Off, v0.Pos")   -- pop: its offset (and position)
]

/-- `stack.Reset` — `Pars.clear`: `stk := []` -/
def fn_stack_Reset : List Line := [
  (0, "func", "(recv *stack) ()"),
  (1, "assign", "recv.i = 0")   -- clear: `stk := []`
]

/-- the chunk size of `Request` (buffering is not modelled: `PS.rest` is the whole remaining input) -/
def fn_bufferReadSize : List Line := [
  (0, "const", "4096")
]

/-- the parser state: reader, buffer, offset, end of the requested range, reader error, position, saved positions — `PS`: `rest` = `buf[off:]` followed by what the reader still holds, `stk` = the same for every saved offset (abstraction `Gts.Bridge.absState`) -/
def fn_State : List Line := [
  (0, "type", "struct"),
  (1, "field", "rd io.Reader"),
  (1, "field", "buf []byte"),
  (1, "field", "off int"),
  (1, "field", "end int"),
  (1, "field", "err error"),
  (1, "field", "pos Position"),
  (1, "field", "stk *stack")
]

/-- `pars.NewState(r)` — `⟨input, []⟩` with `input` everything the reader delivers (`Scanner`, `gts annotate`) -/
def fn_NewState : List Line := [
  (0, "func", "(r0 io.Reader) *State"),
  (1, "typeswitch", "v0 := r0.(type)"),   -- a state stays what it is
  (2, "case", "*State"),   -- a state stays what it is
  (3, "return", "v0"),   -- a state stays what it is
  (2, "default", ""),   -- anything else
  (3, "return", "&State{rd: r0, buf: make([]byte, 0), off: 0, end: -1, err: nil, pos: Position{0, 0}, stk: newStack()}")   -- the fresh state `⟨input, []⟩`: empty buffer, offset 0, no request, no error, position (0, 0), empty stack
]

/-- `pars.FromBytes(p)` — `⟨p, []⟩` -/
def fn_FromBytes : List Line := [
  (0, "func", "(p0 []byte) *State"),
  (1, "return", "&State{rd: &bytes.Buffer{}, buf: p0, off: 0, end: -1, err: nil, pos: Position{0, 0}, stk: newStack()}")   -- the fresh state `⟨p, []⟩`: the buffer holds everything, the reader is empty
]

/-- `pars.FromString(s)` — `⟨s, []⟩` (`parseLocation`, `asModifier`, `tryLocation`, …) -/
def fn_FromString : List Line := [
  (0, "func", "(s0 string) *State"),
  (1, "return", "FromBytes([]byte(s0))")   -- `⟨s, []⟩`
]

/-- `State.Read` — reached by NAME (`Read`); gts reads a state through parsers only (no model clause) -/
def fn_State_Read : List Line := [
  (0, "func", "(recv *State) (p0 []byte) (int, error)"),
  (1, "assign", "v0 := recv.Request(len(p0))"),
  (1, "assign", "v1 := copy(p0, recv.Buffer())"),
  (1, "call", "recv.Advance()"),
  (1, "return", "v1, v0")
]

/-- `State.ReadByte` — reached from `Reader.Read` by name; no model clause -/
def fn_State_ReadByte : List Line := [
  (0, "func", "(recv *State) () (byte, error)"),
  (1, "if", "v0 := recv.Request(1); v0 != nil"),
  (2, "return", "0, v0"),
  (1, "assign", "v1 := recv.buf[recv.off]"),
  (1, "call", "recv.Advance()"),
  (1, "return", "v1, nil")
]

/-- `State.Request(n)` — `Pars.request n`: succeeds iff `n` more bytes exist.  The `for` loop (reading from the `io.Reader` in chunks) is NOT modelled: the function-level bridge takes it as a parameter `fill_` specified by `Gts.Bridge.FillOk` (nothing but the buffer, the reader and its error change; the input as a whole is kept; afterwards the `n` bytes are buffered or the reader has ended) (bridge `Gts.Bridge.request_sim`) -/
def fn_State_Request : List Line := [
  (0, "func", "(recv *State) (n0 int) error"),
  (1, "for", "len(recv.buf) < recv.off + n0 && recv.err == nil"),   -- not modelled (buffering): while the buffer is short and the reader has not ended
  (2, "assign", "v0 := make([]byte, bufferReadSize)"),   -- not modelled (buffering)
  (2, "var", "v1 int"),   -- not modelled (buffering)
  (2, "assign", "v1, recv.err = recv.rd.Read(v0)"),   -- not modelled (buffering)
  (2, "assign", "recv.buf = append(recv.buf, v0[:v1]...)"),   -- not modelled (buffering)
  (1, "switch", ""),   -- request: `if s.rest.length < n`
  (2, "case", "len(recv.buf) < recv.off + n0"),   -- request: `s.rest.length < n`
  (3, "assign", "recv.end = len(recv.buf)"),   -- request: a following `Advance` goes as far as possible — `advanceN n` with `drop`
  (3, "return", "recv.err"),   -- request: `then fail` (the reader's error: non-nil, because the loop has ended)
  (2, "default", ""),   -- request: `else`
  (3, "assign", "recv.end = recv.off + n0"),   -- request: the range `Buffer()` answers: `s.rest.take n`
  (3, "return", "nil")   -- request: `pure (s.rest.take n)`
]

/-- `State.Advance` — `Pars.advance1` / `advanceN n`: `rest := s.rest.drop n` behind a `Request(n)`; panics without a request (no parser of go-pars or gts calls it so: `Gts.Bridge.advance_sim` has the hypothesis `Ready`; `advance_without_request_panics`) -/
def fn_State_Advance : List Line := [
  (0, "func", "(recv *State) ()"),
  (1, "if", "recv.end < 0"),   -- a call without a request in front
  (2, "call", "panic(\"no previous call to Request\")"),   -- panic (not reachable from the parsers)
  (1, "range", "_, v0 := range recv.buf[recv.off:recv.end]"),   -- not modelled (position): line / byte number over the consumed bytes
  (2, "if", "v0 == '\\n'"),   -- not modelled (position)
  (3, "assign", "recv.pos.Line++"),   -- not modelled (position)
  (3, "assign", "recv.pos.Byte = 0"),   -- not modelled (position)
  (2, "else", ""),   -- not modelled (position)
  (3, "assign", "recv.pos.Byte++"),   -- not modelled (position)
  (1, "assign", "recv.off, recv.end = recv.end, -1"),   -- advanceN: `rest := s.rest.drop n`; the request is used up
  (1, "call", "recv.autoclear()")   -- invisible in the model: with no saved position the consumed bytes are released (`autoclear`)
]

/-- `State.Buffer` — the value of `Pars.request n`: `s.rest.take n` -/
def fn_State_Buffer : List Line := [
  (0, "func", "(recv State) () []byte"),
  (1, "return", "recv.buf[recv.off:recv.end]")   -- request: `s.rest.take n`
]

/-- `State.Offset` — the offset `Trail` computes its length from -/
def fn_State_Offset : List Line := [
  (0, "func", "(recv State) () int"),
  (1, "return", "recv.off")   -- trail: `s.rest.length` (as a distance from the saved position)
]

/-- `State.Position` — not modelled (error texts, `Head`, the no-progress exit of `Many`) -/
def fn_State_Position : List Line := [
  (0, "func", "(recv State) () Position"),
  (1, "return", "recv.pos")
]

/-- `State.Push` — `Pars.push`: `stk := s.rest :: s.stk` (bridge `Gts.Bridge.push_sim`) -/
def fn_State_Push : List Line := [
  (0, "func", "(recv *State) ()"),
  (1, "call", "recv.stk.Push(recv.off, recv.pos)")   -- push
]

/-- `State.Pushed` — `Pars.pushed`: `!(← getS).stk.isEmpty` (bridge `Gts.Bridge.pushed_sim`) -/
def fn_State_Pushed : List Line := [
  (0, "func", "(recv State) () bool"),
  (1, "return", "!recv.stk.Empty()")   -- pushed
]

/-- `State.Pop` — `Pars.pop`: `| [] => pure () | r :: st => setS { rest := r, stk := st }` (bridge `Gts.Bridge.pop_sim`) -/
def fn_State_Pop : List Line := [
  (0, "func", "(recv *State) ()"),
  (1, "if", "!recv.stk.Empty()"),   -- pop: `| [] => pure ()` — NO panic on an empty stack
  (2, "assign", "recv.off, recv.pos = recv.stk.Pop()"),   -- pop: `| r :: st => setS { rest := r, stk := st }`
  (2, "call", "recv.autoclear()")   -- invisible in the model (`autoclear`)
]

/-- `State.Drop` — `Pars.drop`: `stk := s.stk.drop 1` (bridge `Gts.Bridge.drop_sim`) -/
def fn_State_Drop : List Line := [
  (0, "func", "(recv *State) ()"),
  (1, "if", "!recv.stk.Empty()"),   -- drop: `[].drop 1 = []` — NO panic on an empty stack
  (2, "call", "recv.stk.Pop()"),   -- drop: `s.stk.drop 1`
  (2, "call", "recv.autoclear()")   -- invisible in the model (`autoclear`)
]

/-- `State.autoclear` — invisible in the model: with no saved position left the buffer in front of the offset is released (`Clear`); the abstraction `absState` does not change (bridge `Gts.Bridge.stateAutoclear_spec`) -/
def fn_State_autoclear : List Line := [
  (0, "func", "(recv *State) ()"),
  (1, "if", "recv.stk.Empty()"),   -- only when nothing is pushed
  (2, "call", "recv.Clear()")   -- `clear` on an empty stack changes nothing in `PS`
]

/-- `State.Clear` — `Pars.clear`: `stk := []`; the position stays (bridge `Gts.Bridge.clear_sim`) -/
def fn_State_Clear : List Line := [
  (0, "func", "(recv *State) ()"),
  (1, "assign", "recv.buf = recv.buf[recv.off:]"),   -- invisible in the model: the consumed bytes are released
  (1, "assign", "recv.off = 0"),   -- invisible in the model: offsets count from the new buffer start
  (1, "call", "recv.stk.Reset()")   -- clear: `stk := []`
]

/-- `pars.Skip(state, n)` — `Pars.line`: `rest := if r.length < n then r else r.drop n`; `Fasta.untilLoop`: `| [] => … | _ :: _ => advance1` (bridge `Gts.Bridge.parsSkip_spec`) -/
def fn_Skip : List Line := [
  (0, "func", "(state *State, n0 int) error"),
  (1, "if", "v0 := state.Request(n0); v0 != nil"),   -- line: `if r.length < n` (`Pars.request n`)
  (2, "return", "v0"),   -- line: `then r` — nothing at all is skipped
  (1, "state", "state.Advance()"),   -- line: `else r.drop n`
  (1, "return", "nil")   -- success
]

/-- `pars.Next` — `Pars.next`: the next byte, or failure at the end of the input (state unchanged) (bridge `Gts.Bridge.next_sim`) -/
def fn_Next : List Line := [
  (0, "func", "(state *State) (byte, error)"),
  (1, "if", "v0 := state.Request(1); v0 != nil"),   -- next: `| [] =>`
  (2, "return", "0, v0"),   -- next: `fail`
  (1, "return", "state.Buffer()[0], nil")   -- next: `| c :: _ => pure c`
]

/-- `pars.Trail` — `Pars.trail`: the bytes from the youngest saved position up to here; pops that frame.  Nothing pushed: an error the callers drop (the model answers `[]`).  A saved position BEHIND the current one: the requested length is negative and `Buffer()` panics (`Gts.Bridge.trail_sim`) -/
def fn_Trail : List Line := [
  (0, "func", "(state *State) ([]byte, error)"),
  (1, "if", "!state.Pushed()"),   -- trail: `| [] =>`
  (2, "return", "nil, errors.New(\"failed to backtrack\")"),   -- trail: `pure []` (`nil`; the error is dropped by every caller but `Until`, where the model tests `pushed` itself)
  (1, "assign", "v0 := state.Offset()"),   -- trail: `s.rest.length` as an offset
  (1, "state", "state.Pop()"),   -- trail: back to the saved position (`rest := saved`, `stk := st`)
  (1, "assign", "v1 := v0 - state.Offset()"),   -- trail: `let n := saved.length - s.rest.length` (an offset difference; `Offset()` is 0 when the last frame was popped and the buffer released — the frame at the bottom of the stack has offset 0: invariant `Gts.Bridge.Inv`)
  (1, "state", "state.Request(v1)"),   -- trail: `if saved.length < s.rest.length then panic` happens at `Buffer()` below; else the `n` bytes exist
  (1, "assign", "v2 := state.Buffer()"),   -- trail: `saved.take n`; Go's slice expression panics when `n < 0`
  (1, "state", "state.Advance()"),   -- trail: `rest := saved.drop n`
  (1, "return", "v2, nil")   -- trail: `pure (saved.take n)`
]

/-- `pars.String(s)` — `Pars.lit (str s)`; set-up = error texts -/
def fn_String : List Line := [
  (0, "func", "(s0 string) Parser"),
  (1, "assign", "v0 := fmt.Sprintf(`String(%s)`, s0)"),   -- error text only
  (1, "assign", "v1 := fmt.Sprintf(`expected \"%s\"`, s0)"),   -- error text only
  (1, "assign", "v2 := []byte(s0)"),   -- lit: the bytes of `s`
  (1, "return", "func0")   -- lit (whole body)
]

/-- the parser `pars.String(s)` returns — `Pars.lit p`: `if s.rest.take p.length == p && p.length ≤ s.rest.length then advanceN p.length else fail` (bridge `Gts.Bridge.string_sim`) -/
def fn_String_func0 : List Line := [
  (0, "func", "(state *State, result *Result) error"),
  (1, "if", "v3 := state.Request(len(v2)); v3 != nil"),   -- lit: `p.length ≤ s.rest.length` (`Pars.request`)
  (2, "return", "NewNestedError(v0, v3)"),   -- lit: `else fail` (nothing consumed)
  (1, "if", "!bytes.Equal(state.Buffer(), v2)"),   -- lit: `s.rest.take p.length == p`
  (2, "return", "NewError(v1, state.Position())"),   -- lit: `else fail` (nothing consumed)
  (1, "result", "result.SetValue(s0)"),   -- lit: the value (the string itself)
  (1, "state", "state.Advance()"),   -- lit: `advanceN p.length`
  (1, "return", "nil")   -- lit: success
]

/-- every declaration of the package that gts reaches (what it uses, closed under "is mentioned in the body of",
methods by name) with its function literals, in package order (files by name, declarations in source order) -/
def fns : List (String × List Line) := [
  ("Spaces", fn_Spaces),
  ("Filter", fn_Filter),
  ("Filter/func0", fn_Filter_func0),
  ("Word", fn_Word),
  ("Word/func0", fn_Word_func0),
  ("Head", fn_Head),
  ("End", fn_End),
  ("Byte", fn_Byte),
  ("Byte/func0", fn_Byte_func0),
  ("Byte/func1", fn_Byte_func1),
  ("Byte/func2", fn_Byte_func2),
  ("Byte/func3", fn_Byte_func3),
  ("Bytes", fn_Bytes),
  ("Bytes/func0", fn_Bytes_func0),
  ("Dry", fn_Dry),
  ("Dry/func0", fn_Dry_func0),
  ("Seq", fn_Seq),
  ("Seq/func0", fn_Seq_func0),
  ("Any", fn_Any),
  ("Any/func0", fn_Any_func0),
  ("Maybe", fn_Maybe),
  ("Maybe/func0", fn_Maybe_func0),
  ("Many", fn_Many),
  ("Many/func0", fn_Many_func0),
  ("Exact", fn_Exact),
  ("Count", fn_Count),
  ("untilByte", fn_untilByte),
  ("untilByte/func0", fn_untilByte_func0),
  ("untilBytes", fn_untilBytes),
  ("untilBytes/func0", fn_untilBytes_func0),
  ("untilFilter", fn_untilFilter),
  ("untilFilter/func0", fn_untilFilter_func0),
  ("Until", fn_Until),
  ("Until/func0", fn_Until_func0),
  ("EOL", fn_EOL),
  ("calculateLineLength", fn_calculateLineLength),
  ("Line", fn_Line),
  ("errNoChildren", fn_errNoChildren),
  ("Error", fn_Error),
  ("NewError", fn_NewError),
  ("Error.Error", fn_Error_Error),
  ("NestedError", fn_NestedError),
  ("NewNestedError", fn_NewNestedError),
  ("NestedError.Error", fn_NestedError_Error),
  ("BoundError", fn_BoundError),
  ("BoundError.Error", fn_BoundError_Error),
  ("convertInt", fn_convertInt),
  ("Int", fn_Int),
  ("Between", fn_Between),
  ("Between/func0", fn_Between_func0),
  ("Quoted", fn_Quoted),
  ("Child", fn_Child),
  ("Child/func0", fn_Child_func0),
  ("Children", fn_Children),
  ("Children/func0", fn_Children_func0),
  ("Cat", fn_Cat),
  ("Parser", fn_Parser),
  ("Map", fn_Map),
  ("Parser.Map", fn_Parser_Map),
  ("Parser.Map/func0", fn_Parser_Map_func0),
  ("Parser.Child", fn_Parser_Child),
  ("Parser.Children", fn_Parser_Children),
  ("Parser.Bind", fn_Parser_Bind),
  ("Parser.Bind/func0", fn_Parser_Bind_func0),
  ("Parser.Error", fn_Parser_Error),
  ("Parser.Error/func0", fn_Parser_Error_func0),
  ("Parser.Parse", fn_Parser_Parse),
  ("AsParser", fn_AsParser),
  ("AsParser/func0", fn_AsParser_func0),
  ("AsParsers", fn_AsParsers),
  ("Position", fn_Position),
  ("Position.Head", fn_Position_Head),
  ("Position.String", fn_Position_String),
  ("Position.Less", fn_Position_Less),
  ("Reader", fn_Reader),
  ("Reader.Read", fn_Reader_Read),
  ("Void", fn_Void),
  ("Result", fn_Result),
  ("Result.SetToken", fn_Result_SetToken),
  ("Result.SetValue", fn_Result_SetValue),
  ("Result.SetChildren", fn_Result_SetChildren),
  ("runeRep", fn_runeRep),
  ("runeReps", fn_runeReps),
  ("readRune", fn_readRune),
  ("Rune", fn_Rune),
  ("Rune/func0", fn_Rune_func0),
  ("Rune/func1", fn_Rune_func1),
  ("Rune/func2", fn_Rune_func2),
  ("Rune/func3", fn_Rune_func3),
  ("Runes", fn_Runes),
  ("Runes/func0", fn_Runes_func0),
  ("stackGrowthSize", fn_stackGrowthSize),
  ("frame", fn_frame),
  ("stack", fn_stack),
  ("newStack", fn_newStack),
  ("stack.Empty", fn_stack_Empty),
  ("stack.Push", fn_stack_Push),
  ("stack.Pop", fn_stack_Pop),
  ("stack.Reset", fn_stack_Reset),
  ("bufferReadSize", fn_bufferReadSize),
  ("State", fn_State),
  ("NewState", fn_NewState),
  ("FromBytes", fn_FromBytes),
  ("FromString", fn_FromString),
  ("State.Read", fn_State_Read),
  ("State.ReadByte", fn_State_ReadByte),
  ("State.Request", fn_State_Request),
  ("State.Advance", fn_State_Advance),
  ("State.Buffer", fn_State_Buffer),
  ("State.Offset", fn_State_Offset),
  ("State.Position", fn_State_Position),
  ("State.Push", fn_State_Push),
  ("State.Pushed", fn_State_Pushed),
  ("State.Pop", fn_State_Pop),
  ("State.Drop", fn_State_Drop),
  ("State.autoclear", fn_State_autoclear),
  ("State.Clear", fn_State_Clear),
  ("Skip", fn_Skip),
  ("Next", fn_Next),
  ("Trail", fn_Trail),
  ("String", fn_String),
  ("String/func0", fn_String_func0)
]

/-- the declarations of the package that gts does NOT reach (not written down, not compared) -/
def unreached : List String := ["Null", "Graphic", "Control", "Space", "Upper", "Lower", "Letter", "Digit", "Latin", "Epsilon", "Cut", "ByteRange", "Delim", "NestedError.Unwrap", "BoundError.Unwrap", "convertNumber", "Number", "Join", "ToString", "Time", "Parser.ToString", "NewReader", "NewTokenResult", "NewValueResult", "NewChildrenResult", "AsResult", "AsResults", "RuneRange", "State.Dump"]

/-- every operation on the saved positions / the buffer (`Push Pop Drop Clear Advance Request autoclear Reset` on
`state`, the receiver or the receiver's stack): (entry, operation, the innermost `if` / `for` / `case` / `else` header
it stands under, "" = unconditional), in source order -/
def stateOps : List (String × String × String) := [
  ("Spaces", "state.Push()", ""),
  ("Spaces", "state.Advance()", "for v1 == nil && ascii.IsSpace(v0)"),
  ("Filter/func0", "state.Advance()", ""),
  ("Word/func0", "state.Push()", ""),
  ("Word/func0", "state.Advance()", "for v5 == nil && filter0(v4)"),
  ("End", "state.Request(1)", "if state.Request(1) == nil"),
  ("Byte/func0", "state.Request(1)", "if v0 := state.Request(1); v0 != nil"),
  ("Byte/func0", "state.Advance()", ""),
  ("Byte/func1", "state.Advance()", ""),
  ("Byte/func3", "state.Advance()", ""),
  ("Bytes/func0", "state.Request(len(p0))", "if v3 := state.Request(len(p0)); v3 != nil"),
  ("Bytes/func0", "state.Advance()", ""),
  ("Dry/func0", "state.Push()", ""),
  ("Dry/func0", "state.Pop()", ""),
  ("Seq/func0", "state.Push()", ""),
  ("Seq/func0", "state.Pop()", "if v5 := v4(state, &v2[v3]); v5 != nil"),
  ("Seq/func0", "state.Drop()", ""),
  ("Any/func0", "state.Push()", ""),
  ("Any/func0", "state.Drop()", "if err0 = v2(state, result); err0 == nil"),
  ("Any/func0", "state.Pop()", ""),
  ("Maybe/func0", "state.Push()", ""),
  ("Maybe/func0", "state.Pop()", "if v1 := v0(state, result); v1 != nil"),
  ("Maybe/func0", "state.Drop()", ""),
  ("untilByte/func0", "state.Push()", ""),
  ("untilByte/func0", "state.Pop()", "if v2 != nil"),
  ("untilByte/func0", "state.Advance()", "for v1 != b0"),
  ("untilByte/func0", "state.Pop()", "if v2 != nil"),
  ("untilBytes/func0", "state.Push()", ""),
  ("untilBytes/func0", "state.Request(len(p0))", "if v1 := state.Request(len(p0)); v1 != nil"),
  ("untilBytes/func0", "state.Pop()", "if v1 := state.Request(len(p0)); v1 != nil"),
  ("untilFilter/func0", "state.Push()", ""),
  ("untilFilter/func0", "state.Pop()", "if v4 != nil"),
  ("untilFilter/func0", "state.Advance()", "for !filter0(v3)"),
  ("untilFilter/func0", "state.Pop()", "if v4 != nil"),
  ("Until/func0", "state.Push()", ""),
  ("Until/func0", "state.Push()", ""),
  ("Until/func0", "state.Drop()", "for v4(state, result) != nil"),
  ("Until/func0", "state.Pop()", "if v5 := Skip(state, 1); v5 != nil"),
  ("Until/func0", "state.Push()", "for v4(state, result) != nil"),
  ("Until/func0", "state.Pop()", ""),
  ("EOL", "state.Advance()", "if v0 == '\\n'"),
  ("EOL", "state.Advance()", "if v0 == '\\r'"),
  ("EOL", "state.Advance()", "if v1 == nil && v0 == '\\n'"),
  ("calculateLineLength", "state.Request(v0 + 1)", "for state.Request(v0 + 1) == nil"),
  ("Line", "state.Request(v0)", ""),
  ("Line", "state.Advance()", ""),
  ("Int", "state.Push()", ""),
  ("Int", "state.Advance()", "if v0 == '-' || v0 == '+'"),
  ("Int", "state.Pop()", "if !ascii.IsDigit(v0)"),
  ("Int", "state.Advance()", "if v0 == '0'"),
  ("Int", "state.Drop()", "if v0 == '0'"),
  ("Int", "state.Advance()", "for v1 == nil && ascii.IsDigit(v0)"),
  ("Between/func0", "state.Push()", ""),
  ("Between/func0", "state.Pop()", "if v4 != nil"),
  ("Between/func0", "state.Pop()", "if v3 != b0"),
  ("Between/func0", "state.Advance()", ""),
  ("Between/func0", "state.Advance()", "if v3 == '\\\\'"),
  ("Between/func0", "state.Pop()", "if v4 != nil"),
  ("Between/func0", "state.Advance()", "for v4 == nil && v3 != b1"),
  ("Between/func0", "state.Pop()", "if v4 != nil"),
  ("Parser.Map/func0", "state.Push()", ""),
  ("Parser.Map/func0", "state.Pop()", "if v0 := recv(state, result); v0 != nil"),
  ("Parser.Map/func0", "state.Drop()", ""),
  ("readRune", "state.Request(v0 + 1)", "if v1 := state.Request(v0 + 1); v1 != nil"),
  ("Rune/func0", "state.Advance()", ""),
  ("Rune/func1", "state.Request(v6)", "if v8 := state.Request(v6); v8 != nil"),
  ("Rune/func1", "state.Advance()", ""),
  ("Rune/func3", "state.Advance()", ""),
  ("Runes/func0", "state.Request(len(v3))", "if v4 := state.Request(len(v3)); v4 != nil"),
  ("Runes/func0", "state.Advance()", ""),
  ("State.Read", "recv.Request(len(p0))", ""),
  ("State.Read", "recv.Advance()", ""),
  ("State.ReadByte", "recv.Request(1)", "if v0 := recv.Request(1); v0 != nil"),
  ("State.ReadByte", "recv.Advance()", ""),
  ("State.Advance", "recv.autoclear()", ""),
  ("State.Push", "recv.stk.Push(recv.off, recv.pos)", ""),
  ("State.Pop", "recv.stk.Pop()", "if !recv.stk.Empty()"),
  ("State.Pop", "recv.autoclear()", "if !recv.stk.Empty()"),
  ("State.Drop", "recv.stk.Pop()", "if !recv.stk.Empty()"),
  ("State.Drop", "recv.autoclear()", "if !recv.stk.Empty()"),
  ("State.autoclear", "recv.Clear()", "if recv.stk.Empty()"),
  ("State.Clear", "recv.stk.Reset()", ""),
  ("Skip", "state.Request(n0)", "if v0 := state.Request(n0); v0 != nil"),
  ("Skip", "state.Advance()", ""),
  ("Next", "state.Request(1)", "if v0 := state.Request(1); v0 != nil"),
  ("Trail", "state.Pop()", ""),
  ("Trail", "state.Request(v1)", ""),
  ("Trail", "state.Advance()", ""),
  ("String/func0", "state.Request(len(v2))", "if v3 := state.Request(len(v2)); v3 != nil"),
  ("String/func0", "state.Advance()", "")
]

end Gts.Spec.ParsTable
