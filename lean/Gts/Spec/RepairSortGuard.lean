/-
  What a correct `sort.Sort` returns (`SortedPerm`), and the decidable guards of the theorems
  "Repair does not depend on the sorting algorithm" (property C12, Gts/Props/C12Sort.lean).
  Core Lean only; answered over the line protocol as `c12.sortshape`, `c12.k2.sorted`, and used
  by the op `feat.repair.sorted` (Gts/Model/OpsRepair.lean), which replays `Repair` on the sorted
  permutations that the real `sort.Sort` returned (harness/props_c12_sort.go).
-/
import Gts.Model.RepairSort
import Gts.Spec.RepairGuard
namespace Gts

/-- **what `sort.Sort` promises**: `ys` is a permutation of `xs`, and no later element of `ys` is
`less` than an earlier one.  (For a strict weak order `less` that is not total — `LocationLess` —
there can be several such `ys`: incomparable elements may stand in any order.) -/
structure SortedPerm {α : Type} (less : α → α → Bool) (xs ys : List α) : Prop where
  perm : ys.Perm xs
  sorted : ys.Pairwise fun a b => less b a = false

/-- `sort` is a correct sorting function for `LocationLess` -/
def CorrectSort (sort : List Loc → List Loc) : Prop := ∀ xs, SortedPerm Loc.less xs (sort xs)

/-- `sort` returns a rearrangement of its argument (all that the clauses "covered residues",
"chains", "unchanged", "never panics" need) -/
def PermSort (sort : List Loc → List Loc) : Prop := ∀ xs, (sort xs).Perm xs

/-- `sort` leaves alone every list in which no later element is less than an earlier one.  Not
part of what `sort.Sort` promises; true of insertion sort and of Go's pdqsort (on such a list
`choosePivot` swaps nothing and `partialInsertionSort` finds nothing to move), false of e.g.
"insertion sort of the reversed list". -/
def KeepsSorted (sort : List Loc → List Loc) : Prop :=
  ∀ p : List Loc, (p.Pairwise fun a b => Loc.less b a = false) → sort p = p

/-- no later element is `less` than an earlier one (Boolean) -/
def sortedB {α : Type} (less : α → α → Bool) : List α → Bool
  | [] => true
  | a :: as => as.all (fun b => !less b a) && sortedB less as

/-- `ys` is a rearrangement of `xs` (Boolean, by cancelling) -/
def permB : List Loc → List Loc → Bool
  | [], ys => ys.isEmpty
  | a :: xs, ys => ys.any (Loc.beq a) && permB xs (ys.eraseP (Loc.beq a))

/-- Boolean `SortedPerm Loc.less` -/
def sortedPermB (xs ys : List Loc) : Bool := permB xs ys && sortedB Loc.less ys

/-- structural equality of location lists -/
def locsBeq (a b : List Loc) : Bool := Loc.beqList a b

/-- a sorting function given by a table of (argument, result) pairs: on a listed argument whose
listed result is a sorted permutation of it, that result; the insertion sort otherwise.  It is
a correct sort whatever the table (`Gts.assocSort_correct`). -/
def assocSort (tbl : List (List Loc × List Loc)) (xs : List Loc) : List Loc :=
  match tbl.find? (fun p => locsBeq p.1 xs) with
  | some p => if sortedPermB xs p.2 then p.2 else sortLocs xs
  | none => sortLocs xs

namespace Loc

/-- comparable under `LocationLess`, or equal: the pair has one order in every sorted list -/
def comparable (a b : Loc) : Bool := less a b || less b a || beq a b

/-- `LocationList.Push` of `x` onto a list whose last element is `v` appends `x` and changes
nothing else (no rule of the type switch fires; `x` is not flattened) -/
def inertPair (force : Bool) (v x : Loc) : Bool :=
  match v, x with
  | between v', between u => v' != u
  | between v', point u => v' != u
  | between v', ranged us _ _ _ => v' != us
  | point v', between u => v' + 1 != u
  | point v', point u => v' != u
  | point v', ranged us _ _ _ => v' != us
  | ranged _ ve _ _, between u => ve != u
  | ranged _ ve _ _, point u => ve != u
  | ranged _ ve _ v3, ranged us _ u5 _ => !(((v3 && u5) || force) && ve == us)
  | compl _, compl _ => false
  | _, joined _ => false
  | _, _ => true

end Loc

/-- every two members are comparable or equal: the class has exactly one sorted permutation -/
def tieFree (l : List Loc) : Bool := l.all fun a => l.all fun b => Loc.comparable a b

/-- no member is a `Joined`, and no two members interact in `Push`, in either order: whatever
the order, the pushed list is the class itself and the class is kept as it is -/
def inertList (force : Bool) : List Loc → Bool
  | [] => true
  | a :: as => !a.isJoined && as.all (fun b => Loc.inertPair force a b && Loc.inertPair force b a) &&
      inertList force as

namespace Table

/-- guard of `repair_sort_indep_partial`: every class has a unique sorted permutation, or is
inert under `Push` -/
def sortIndep (t : Table) : Bool :=
  (groups t).all fun idx => tieFree (classLocs t idx) || inertList (classForce t idx) (classLocs t idx)

/-- every class has a unique sorted permutation -/
def tieFreeT (t : Table) : Bool := (groups t).all fun idx => tieFree (classLocs t idx)

/-- K2 fires in the `Push` loop of some class, when `sort.Sort` is `sort` -/
def k2With (sort : List Loc → List Loc) (t : Table) : Bool :=
  (groups t).any fun idx => Loc.pushAllAbs (sort (classLocs t idx)) (classForce t idx)

/-- no `nil` Location is written, when `sort.Sort` is `sort` -/
def noNilWith (sort : List Loc → List Loc) (t : Table) : Bool :=
  (groups t).all fun idx =>
    let p := pushedOfWith sort (classForce t idx) (classLocs t idx)
    !(decide (sliceLen p < idx.length) && p.isEmpty)

/-- the table of (class members, sorted members) pairs of the op `feat.repair.sorted` -/
def sortTable (t : Table) (sorted : List (List Loc)) : List (List Loc × List Loc) :=
  ((groups t).map (classLocs t)).zip sorted

/-- some class has more than 12 members (beyond the insertion-sort threshold of Go's pdqsort) -/
def bigClass (t : Table) : Bool := (groups t).any fun idx => decide (12 < idx.length)

end Table
end Gts
