/-
  The *meaning* side: what a location denotes, and the position re-mappings that specify
  the edits.  Core Lean only (answered over the line protocol as `spec.*`).
-/
import Gts.Model.Region
namespace Gts

/-- the integers `s, s+1, …, s+n-1` -/
def irange (s : Int) : Nat → List Int
  | 0 => []
  | n + 1 => s :: irange (s + 1) n

/-- a denoted residue: 0-based position, on the complement strand? -/
abbrev Pos := Int × Bool

def fwd (xs : List Int) : List Pos := xs.map fun x => (x, false)

/-- reverse-complement reading of a residue list -/
def flipDen (d : List Pos) : List Pos := d.reverse.map fun p => (p.1, !p.2)

namespace Loc
mutual
/-- `den l`: the ordered, stranded residues that `l.Region().Locate(seq)` reads. -/
def den : Loc → List Pos
  | between _ => []
  | point p => [(p, false)]
  | ranged s e _ _ => fwd (irange s (e - s).toNat)
  | ambiguous s e => fwd (irange s (e - s).toNat)
  | joined ls => denList ls
  | ordered ls => denList ls
  | compl l => flipDen (den l)
def denList : List Loc → List Pos
  | [] => []
  | l :: ls => den l ++ denList ls
end
end Loc

/-- `a ≼ b`: `a` is `b` with some duplicate occurrences dropped (same set, same order). -/
def Refines (a b : List Pos) : Prop := a.Sublist b ∧ ∀ x ∈ b, x ∈ a

infix:50 " ≼ " => Refines

/-- position re-mapping of an insertion of `n` residues at `i` -/
def insMap (i n : Int) (x : Int) : Int := if x < i then x else x + n

/-- position re-mapping of a deletion of `[i, i+k)` -/
def delMap (i k : Int) (x : Int) : Option Int :=
  if x < i then some x else if x < i + k then none else some (x - k)

/-- position re-mapping of a rotation by `n` on a circle of length `L` -/
def rotMap (n L : Int) (x : Int) : Int := (x + n) % L

/-- position re-mapping of a reversal of a sequence of length `L` -/
def mirrorMap (L : Int) (x : Int) : Int := L - 1 - x

def mapPos (f : Int → Int) (d : List Pos) : List Pos := d.map fun p => (f p.1, p.2)
def filterMapPos (f : Int → Option Int) (d : List Pos) : List Pos :=
  d.filterMap fun p => (f p.1).map fun y => (y, p.2)

namespace Reg
mutual
/-- the residues `Region.Locate` reads, in order, with strand -/
def den : Reg → List Pos
  | seg h t => if t < h then flipDen (fwd (irange t (h - t).toNat)) else fwd (irange h (t - h).toNat)
  | many rs => denList rs
def denList : List Reg → List Pos
  | [] => []
  | r :: rs => den r ++ denList rs
end
end Reg

end Gts
