/-
  Guards for the partial-marker laws (C02–C05, C10).  Two reduction rules of
  `LocationList.Push` can move a partial marker off an outer end:

  * `Point v` followed by `Ranged{Start = v, Partial5}`: the point is replaced by the range, so
    a point that was the first residue read is now preceded by a 5' marker
    (`join(4,<4..6)` reads `<4..6`);
  * `Ranged{End = u, Partial3}` followed by `Point u` (known finding K2): the point is dropped,
    so the last residue read is now followed by the range's 3' marker.

  `…MarkAbs` decide whether one of them fires anywhere in the evaluation of a model function —
  the analogue of the K2 guards `…Abs` of `Gts/Spec/Guard.lean` (whose `foldAbs` is reused).
  Both rules need a point that coincides with the first base of / the base behind a range, i.e.
  a location that denotes a residue twice or touches K2.  Core Lean only.
-/
import Gts.Spec.Guard
namespace Gts
namespace Loc

def markAbsOne (low : List Loc → Loc → Bool → List Loc) (lowAbs : List Loc → Loc → Bool → Bool)
    (racc : List Loc) (x : Loc) (force : Bool) : Bool :=
  match racc, x with
  | ranged _ ve _ v3 :: _, point u => ve == u && v3
  | point v :: _, ranged us _ u5 _ => v == us && u5
  | compl vl :: _, compl ul =>
      lowAbs [ul] vl force || foldAbs low lowAbs true [] (low [ul] vl force).reverse
  | _, _ => false

mutual
def markAbsW (low : List Loc → Loc → Bool → List Loc) (lowAbs : List Loc → Loc → Bool → Bool)
    (racc : List Loc) : Loc → Bool → Bool
  | joined parts, force => markAbsListW low lowAbs racc parts force
  | x, force => markAbsOne low lowAbs racc x force
def markAbsListW (low : List Loc → Loc → Bool → List Loc) (lowAbs : List Loc → Loc → Bool → Bool)
    (racc : List Loc) : List Loc → Bool → Bool
  | [], _ => false
  | p :: ps, force =>
      markAbsW low lowAbs racc p force || markAbsListW low lowAbs (pushW low racc p force) ps force
end

/-- a marker-moving rule fires while pushing `x` onto `racc` (at nesting fuel `d`) -/
def markAbsD : Nat → List Loc → Loc → Bool → Bool
  | 0 => fun _ _ _ => false
  | d + 1 => markAbsW (pushD d) (markAbsD d)

/-- a marker-moving rule fires while evaluating `Join(xs...)` -/
def joinMarkAbsD (d : Nat) (xs : List Loc) : Bool := foldAbs (pushD d) (markAbsD d) true [] xs
def joinMarkAbs (xs : List Loc) : Bool := joinMarkAbsD pushFuel xs

mutual
def expandMarkAbs : Loc → Int → Int → Bool
  | joined ls, i, n => expandMarkAbsList ls i n || joinMarkAbs (expandList ls i n)
  | ordered ls, i, n => expandMarkAbsList ls i n
  | compl l, i, n => expandMarkAbs l i n
  | _, _, _ => false
def expandMarkAbsList : List Loc → Int → Int → Bool
  | [], _, _ => false
  | l :: ls, i, n => expandMarkAbs l i n || expandMarkAbsList ls i n
end

mutual
def shiftMarkAbs : Loc → Int → Int → Bool
  | joined ls, i, n => shiftMarkAbsList ls i n || joinMarkAbs (shiftList ls i n)
  | ordered ls, i, n => shiftMarkAbsList ls i n
  | compl l, i, n => shiftMarkAbs l i n
  | _, _, _ => false
def shiftMarkAbsList : List Loc → Int → Int → Bool
  | [], _, _ => false
  | l :: ls, i, n => shiftMarkAbs l i n || shiftMarkAbsList ls i n
end

mutual
def reverseMarkAbs : Loc → Int → Bool
  | joined ls, n => reverseMarkAbsList ls n || joinMarkAbs (reverseList ls n).reverse
  | ordered ls, n => reverseMarkAbsList ls n
  | compl l, n => reverseMarkAbs l n
  | _, _ => false
def reverseMarkAbsList : List Loc → Int → Bool
  | [], _ => false
  | l :: ls, n => reverseMarkAbs l n || reverseMarkAbsList ls n
end

mutual
def normalizeMarkAbs : Loc → Int → Bool
  | joined ls, n => normalizeMarkAbsList ls n || joinMarkAbs (normalizeList ls n)
  | ordered ls, n => normalizeMarkAbsList ls n
  | compl l, n => normalizeMarkAbs l n
  | _, _ => false
def normalizeMarkAbsList : List Loc → Int → Bool
  | [], _ => false
  | l :: ls, n => normalizeMarkAbs l n || normalizeMarkAbsList ls n
end

end Loc
end Gts
