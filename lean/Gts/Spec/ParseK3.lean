/-
  Parse-level K3 guard (C06, audit S7).  `LocParseK3.loc` is `LocParse.loc` (Gts/Model/LocText.lean)
  with one more component in its result: does the K3 shape (`Loc.joinK3`, Gts/Spec/CanonGuard.lean — a
  REPLACING push whose result would itself be reduced against its predecessor) arise while some
  `join(...)` of the text pushes its PARSED PARTS in order?  The guard is a statement about the
  evaluation of the parser (the argument lists its `Join` calls see), not about the shape of the
  result.  The parser part is a copy of the model's clause by clause (leaves are the model's own
  parsers); the op `k3.parse` answers the flag TOGETHER with the location, so the correspondence run
  compares the copy's location with the real parser's on every line sent.  Core Lean only.
-/
import Gts.Model.LocText
import Gts.Spec.CanonGuard
namespace Gts
open Pars

namespace LocParseK3

/-- a leaf parser: no `Join` is evaluated -/
def leaf (p : P Loc) : P (Loc × Bool) := do let l ← p; pure (l, false)

mutual
/-- `LocParse.loc` with the K3 flag -/
def loc : Nat → P (Loc × Bool)
  | 0 => fail
  | fuel + 1 =>
    LocParse.anyOf [leaf LocParse.range, leaf LocParse.between, leaf LocParse.ambiguous,
      complementOf fuel, joinOf fuel, orderOf fuel, leaf LocParse.point]

/-- `LocParse.multiple`; the flag is the disjunction of the parts' flags -/
def multiple : Nat → P (List Loc × Bool)
  | 0 => fail
  | fuel + 1 => do
    push
    let first ← (do match ← attempt (loc fuel) with | some v => pure v | none => do pop; fail)
    let rec more : Nat → List Loc → Bool → P (List Loc × Bool)
      | 0, acc, b => pure (acc.reverse, b)
      | k + 1, acc, b => do
        if ← LocParse.delimiter then
          match ← attempt (loc fuel) with
          | some v => more k (v.1 :: acc) (b || v.2)
          | none => do pop; fail
        else pure (acc.reverse, b)
    let ls ← more fuel [first.1] first.2
    drop
    pure ls

/-- `LocParse.joinOf`: the flag of the parts, or the K3 shape while `Join` pushes them -/
def joinOf : Nat → P (Loc × Bool)
  | 0 => fail
  | fuel + 1 => do
    push
    match ← attempt (request 5) with
    | none => do pop; fail
    | some b => if b != str "join(" then do pop; fail
    advanceN 5
    let ls ← multiple fuel
    let c ← (do match ← attempt next with | some c => pure c | none => do pop; fail)
    if c != 41 then do pop; fail
    advance1
    drop
    pure (Loc.join ls.1, ls.2 || Loc.joinK3 ls.1)

/-- `LocParse.orderOf` (`Order` reduces nothing) -/
def orderOf : Nat → P (Loc × Bool)
  | 0 => fail
  | fuel + 1 => do
    push
    match ← attempt (request 6) with
    | none => do pop; fail
    | some b => if b != str "order(" then do pop; fail
    advanceN 6
    let ls ← multiple fuel
    let c ← (do match ← attempt next with | some c => pure c | none => do pop; fail)
    if c != 41 then do pop; fail
    advance1
    drop
    pure (Loc.order ls.1, ls.2)

/-- `LocParse.complementOf` -/
def complementOf : Nat → P (Loc × Bool)
  | 0 => fail
  | fuel + 1 => do
    push
    match ← attempt (request 11) with
    | none => do pop; fail
    | some b => if b != str "complement(" then do pop; fail
    advanceN 11
    let l ← (do match ← attempt (loc fuel) with | some v => pure v | none => do pop; fail)
    let c ← (do match ← attempt next with | some c => pure c | none => do pop; fail)
    if c != 41 then do pop; fail
    advance1
    drop
    pure (l.1.complement, l.2)
end

end LocParseK3

/-- `AsLocation(s)` with the parse-level K3 flag: location, flag, unconsumed rest -/
def parseLocationK3 (input : Bytes) : Except Err (Loc × Bool × Bytes) :=
  match (LocParseK3.loc (input.length + 2)).run' ⟨input, []⟩ with
  | (.ok l, s) => .ok (l.1, l.2, s.rest)
  | (.error e, _) => .error e

/-- the parse-level K3 guard of a text (false when the text is rejected) -/
def parseK3 (input : Bytes) : Bool :=
  match parseLocationK3 input with
  | .ok (_, b, _) => b
  | .error _ => false

end Gts
