/-
  The *meaning* side of residue extraction: what it is to READ a denoted residue `(x, strand)`
  off the bytes of a record.  Pure spec-side definitions (no protocol op): they give `Loc.den` /
  `Reg.den` their byte-level reading, `Gts/Lemmas/Locate.lean` proves that the model of
  `Region.Locate` (`Reg.locate`, Gts/Model/Cli.lean) computes exactly this.  Core Lean only.
-/
import Gts.Spec.Den
import Gts.Model.Nuc
namespace Gts

/-- read residue `p = (x, strand)` of `bs`: byte `bs[x]`, complemented when on the complement
strand; `none` when `x` is not an index of `bs` (where Go's `seq.Bytes()[start:end]` panics or,
for a negative coordinate `≥ -len`, wraps around — see `Gts.C05.locate_bytes`). -/
def readAt? (bs : List UInt8) (p : Pos) : Option UInt8 :=
  if p.1 < 0 then none
  else (bs[p.1.toNat]?).map fun b => if p.2 then Nuc.complementByte b else b

/-- the total reading used in the statements (`0` outside; every theorem using it carries the
in-bounds hypothesis `denIn`, under which `readAt? = some ∘ readAt`, see `readAt?_eq_some`) -/
def readAt (bs : List UInt8) (p : Pos) : UInt8 := (readAt? bs p).getD 0

/-- every denoted position is an index of a sequence of length `L` (decidable) -/
def denIn (L : Int) (d : List Pos) : Prop := ∀ p ∈ d, 0 ≤ p.1 ∧ p.1 < L

instance (L : Int) (d : List Pos) : Decidable (denIn L d) := by unfold denIn; infer_instance

/-- what two complementations do to a byte: the identity, except that U (u) comes back as T (t)
(`Gts.C18.complement_involution_upto_U`) -/
def uToT (c : UInt8) : UInt8 := if c = 85 then 84 else if c = 117 then 116 else c

end Gts
