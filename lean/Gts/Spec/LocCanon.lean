/-
  The domain of the location text round trip (C06): the location values that `ParseLocation`
  can produce at all, i.e. the fixed points of the smart constructors `Join` / `Order` /
  `Complement()` with coordinates a Go `int` can print and read back.  Decidable.  Core Lean only.
-/
import Gts.Model.Loc
namespace Gts
namespace Loc

/-- a coordinate `0 ≤ x ≤ 2^62` (printed 1-based, so `x + 1` must still fit in 64 bits) -/
def coordOk (x : Int) : Bool := decide (0 ≤ x) && decide (x ≤ 4611686018427387904)

def isComplC : Loc → Bool
  | compl _ => true
  | _ => false

def isJoinedC : Loc → Bool
  | joined _ => true
  | _ => false

def isOrderedC : Loc → Bool
  | ordered _ => true
  | _ => false

mutual
/-- `canonP l`: every coordinate satisfies `coordOk`; no `compl (compl _)` (`Complement()` of a
`Complemented` unwraps); a `joined` has at least two parts, none of them a `joined` (`Push`
flattens), and is a fixed point of the `Join` reduction; an `ordered` has at least two parts, none
of them an `ordered` (`flattenLocations`). -/
def canonP : Loc → Bool
  | between p => coordOk p
  | point p => coordOk p
  | ranged s e _ _ => coordOk s && coordOk e
  | ambiguous s e => coordOk s && coordOk e
  | joined ls =>
      canonPList ls && decide (2 ≤ ls.length) && !ls.any isJoinedC && (join ls).beq (joined ls)
  | ordered ls => canonPList ls && decide (2 ≤ ls.length) && !ls.any isOrderedC
  | compl l => canonP l && !isComplC l
def canonPList : List Loc → Bool
  | [] => true
  | l :: ls => canonP l && canonPList ls
end

end Loc
end Gts
