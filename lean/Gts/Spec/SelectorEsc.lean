/-
  The selector grammar WITH backslashes, and qualifier tables with repeated names — the declarative
  reading of what feature.go `shiftSelector` / `Selector` / `Qualifier` do (bug for bug), stated
  without the escape flag of the loop and without `Props.Index`.  Core Lean only.

  WHAT THE CODE DOES with a backslash (there is no documentation of escapes in /repo: neither the
  doc comment of `Selector` nor the man pages mention them):
  * a `/` is NOT a separator when the text in front of it ends in a backslash followed by ZERO OR
    MORE slashes (`escapedAfter`): the escape flag is set by `\`, cleared by every byte other than
    `\` and `/`, and LEFT AS IT IS by a `/` that did not split.  So `a\/b/c` has the parts `a\/b`,
    `c` — but in `a\//b` the second slash is swallowed as well (`a\//b` is ONE part): a part that
    ends in an escaped slash cannot be followed by another part;
  * backslashes do not pair: in `a\\/b` the slash is escaped too (the second backslash sets the
    flag again), there is no way to end a part with a backslash;
  * nothing is removed: the parts keep their backslashes.  A key `a\/b` is compared literally with
    `Feature.Key` (it can never equal the key `a/b`), a qualifier name likewise; only a regexp reads
    `\/` as a slash.
  The reading "a `/` immediately preceded by a backslash does not split" (`intentSplit`) is what the
  code does on every string that does not contain `\//` (`stickyFree`).
-/
import Gts.Spec.Selector
namespace Gts
namespace SelSpec

section generic
variable {α : Type} [DecidableEq α]

/-- is a separator standing behind the text `rpre` (given REVERSED) escaped?  Going back over the
slashes directly in front of it one meets a backslash. -/
def escapedAfter (bs sl : α) (rpre : List α) : Bool :=
  match rpre.dropWhile (fun c => decide (c = sl)) with
  | c :: _ => decide (c = bs)
  | [] => false

/-- split at every unescaped separator; `rpre` = the text read so far (reversed), `cur` = the
current segment (reversed).  Whether a separator splits depends on the TEXT in front of it only. -/
def escSplitFrom (bs sl : α) : List α → List α → List α → List (List α)
  | _, cur, [] => [cur.reverse]
  | rpre, cur, c :: r =>
    if c = sl ∧ escapedAfter bs sl rpre = false then
      cur.reverse :: escSplitFrom bs sl (c :: rpre) [] r
    else escSplitFrom bs sl (c :: rpre) (c :: cur) r

/-- **the split with escapes**: the segments between the unescaped separators (always at least
one segment; nothing is removed from the segments) -/
def escSplit (bs sl : α) (s : List α) : List (List α) := escSplitFrom bs sl [] [] s

/-- the conventional reading: a separator immediately preceded by a backslash does not split -/
def intentSplitFrom (bs sl : α) : Option α → List α → List α → List (List α)
  | _, cur, [] => [cur.reverse]
  | prev, cur, c :: r =>
    if c = sl ∧ prev ≠ some bs then cur.reverse :: intentSplitFrom bs sl (some c) [] r
    else intentSplitFrom bs sl (some c) (c :: cur) r

def intentSplit (bs sl : α) (s : List α) : List (List α) := intentSplitFrom bs sl none [] s

/-- does the string contain `\//` (backslash, slash, slash)? -/
def hasSticky (bs sl : α) : List α → Bool
  | a :: b :: c :: r => (decide (a = bs) && decide (b = sl) && decide (c = sl)) || hasSticky bs sl (b :: c :: r)
  | _ => false

/-- the segments joined by single separators -/
def joinSep (sl : α) : List (List α) → List α
  | [] => []
  | [x] => x
  | x :: y :: r => x ++ sl :: joinSep sl (y :: r)

/-- a trailing empty segment is no part (`for tail != ""`) -/
def dropTrailingEmptyG : List (List α) → List (List α)
  | [] => []
  | [[]] => []
  | x :: xs => x :: dropTrailingEmptyG xs

/-- what `Selector` iterates over: the key, then the parts — the segments of the split, a
trailing empty segment behind the key dropped -/
def selectorSegments (bs sl : α) (s : List α) : List (List α) :=
  match escSplit bs sl s with
  | [] => []
  | k :: rest => k :: dropTrailingEmptyG rest

/-- write a backslash in front of every separator -/
def escapeSep (bs sl : α) : List α → List α
  | [] => []
  | c :: r => if c = sl then bs :: c :: escapeSep bs sl r else c :: escapeSep bs sl r

/-- a part that can stand in a joined selector: it holds no unescaped separator and does not end
in a backslash followed by slashes (which would swallow the separator behind it) -/
def sealed (bs sl : α) (p : List α) : Bool :=
  decide (escSplit bs sl p = [p]) && !escapedAfter bs sl p.reverse

end generic

/-! ### on strings (`'\\'`, `'/'`) -/

/-- the key of a selector with escapes -/
def keyEsc (s : String) : String := String.ofList ((escSplit '\\' '/' s.toList).headD [])

/-- the clauses of a selector with escapes -/
def clausesEsc (s : String) : List (String × String) :=
  (dropTrailingEmptyG (escSplit '\\' '/' s.toList).tail).map clauseOf

/-! ### qualifier tables as they are (repeated names, rows without values) -/

/-- the values of the FIRST row named `name` (`Props.Get`); nothing when there is none -/
def firstValues (name : String) (ps : Props) : List String :=
  ((ps.find? fun row => row.head? == some name).map List.tail).getD []

/-- **what a clause tests, row by row** (feature.go `Qualifier`): unnamed — every value of every
row; named with an empty regexp — is there a row of that name (with or without values); named —
the values of the FIRST row of that name only (`Props.Get`). -/
def clauseSatRows (mtch : String → String → Bool) (c : String × String) (f : Feature) : Prop :=
  if c.1 = "" then ∃ row ∈ f.props, ∃ v ∈ row.tail, mtch c.2 v = true
  else if c.2 = "" then ∃ row ∈ f.props, row.head? = some c.1
  else ∃ v ∈ firstValues c.1 f.props, mtch c.2 v = true

instance (mtch : String → String → Bool) (c : String × String) (f : Feature) :
    Decidable (clauseSatRows mtch c f) := by unfold clauseSatRows; infer_instance

/-- the reading of a whole selector (any string, any qualifier table) -/
def acceptsRows (mtch : String → String → Bool) (s : String) (f : Feature) : Prop :=
  (keyEsc s = "" ∨ f.key = keyEsc s) ∧ ∀ c ∈ clausesEsc s, clauseSatRows mtch c f

instance (mtch : String → String → Bool) (s : String) (f : Feature) :
    Decidable (acceptsRows mtch s f) := by unfold acceptsRows; infer_instance

end SelSpec
end Gts
