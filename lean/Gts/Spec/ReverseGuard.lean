/-
  Guard of the involution law of `Location.Reverse` (C05): `Joined.Reverse` reverses its parts and
  hands them, in mirrored order, to `Join`; `Join` pushes them one by one through the reduction
  rules of `LocationList.Push`.  Those rules are NOT mirror symmetric:

  * `Point v` then `Ranged{v, …}`: the point is absorbed into the range that STARTS at it; the
    mirror image — a `Ranged{…, e}` followed by the point `e-1` on its LAST base — is kept (what
    `Push` does drop there is the point `e`, one base further: known finding K2);
  * the rules with a `Between` (`Between v`/`Point v`, `Between v`/`Ranged{v,…}`,
    `Point v`/`Between v+1`, `Ranged{…,e}`/`Between e`) meet `Between.Reverse` = `L-1-g`
    (known finding K1) and fire on mirrored neighbours that were no neighbours of that kind before.

  `reverseStable l L` decides that no `Join` in the evaluation of `l.Reverse(L)` reduces its
  arguments: at every `Joined` node the join of the reversed parts is the plain `Joined` of them.
  Core Lean only.
-/
import Gts.Model.Loc
namespace Gts
namespace Loc

mutual
/-- no `Join` in the evaluation of `Reverse(l, n)` reduces (merges, absorbs or drops a part) -/
def reverseStable : Loc → Int → Bool
  | joined ls, n =>
      reverseStableList ls n &&
        (join (reverseList ls n).reverse).beq (joined (reverseList ls n).reverse)
  | ordered ls, n => reverseStableList ls n
  | compl l, n => reverseStable l n
  | _, _ => true
def reverseStableList : List Loc → Int → Bool
  | [], _ => true
  | l :: ls, n => reverseStable l n && reverseStableList ls n
end

end Loc
end Gts
