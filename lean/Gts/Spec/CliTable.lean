/-
  C14, generated command table: what "reaches the payload" and "exempt" mean (definitions only,
  so that they can be evaluated — `uncoveredReport` — even when the theorems about the current
  table fail; bin/check hands that report to the harness, which then searches for the two-run
  history showing the violation).  Core Lean only.
-/
import Gts.Gen.Cli
import Gts.Model.KeyEnc
namespace Gts.CliTable
open Gts.Gen.Cli

/-- some payload tuple reads the variable bound to the declaration -/
def covered (c : Command) (d : Decl) : Bool := c.payload.any fun t => t.reads.contains d.var

/-- The explicit exempt list:
  * `--no-cache` (a switch read only by `if !*nocache`: it selects whether the protocol runs);
  * the primary input path (first argument of `newIODelegate`): its CONTENT is hashed as the
    root sum of the entry, and it is read nowhere else;
  * ``-o`, `--output`` (second argument of `newIODelegate`), provided the variable is read only by
    `newIODelegate` and `seqio.Detect`, and — when `seqio.Detect` reads it — its effect
    `filetype` is in the payload (then it is `covered` as well). -/
def exempt (c : Command) (d : Decl) : Bool :=
  (d.cls == "opt" && d.long == "no-cache" && d.kind == "Switch" && d.uses == ["if"]) ||
  (d.var == c.primary && d.uses.all (fun u => u == "newIODelegate" || u == "assign")) ||
  (d.cls == "opt" && d.long == "output" && d.var == c.output &&
    d.uses.all (fun u => u == "newIODelegate" || u == "seqio.Detect") &&
    (!d.uses.contains "seqio.Detect" || covered c d))

/-- the declarations of a command that neither reach the payload nor are exempt -/
def uncovered (c : Command) : List String :=
  (c.decls.filter fun d => !(covered c d || exempt c d)).map fun d => c.name ++ ":" ++ d.long

/-- `command:class:kind:long` of every declaration that neither reaches the payload nor is exempt -/
def uncoveredReport : List String :=
  commands.flatMap fun c => (c.decls.filter fun d => !(covered c d || exempt c d)).map fun d =>
    c.name ++ ":" ++ d.cls ++ ":" ++ d.kind ++ ":" ++ d.long

/-- **how a payload value is written into the key.**  `encodePayload` marshals the tuples as JSON.
Forms whose JSON text determines the value: a dereferenced option / positional variable (`*v`:
string, bool, int, rune, []string — element order included), a declared variable itself (JSON
dereferences the pointer), a `String()` text, `strings.Join` of the command path,
`encodeToString` of a digest, and the identifiers assigned from `h.Sum(nil)` (digest),
`seqio.Detect` (the file type, an int) or an index expression (the `comma` rune).  A PARSED value
handed over as it is (`loc` instead of `loc.String()`) is encoded by its structure: `Joined` and
`Ordered`, `Point` and `Between` then share their text (seeded change C14-f). -/
def valueFormOk (t : Tuple) : Bool :=
  t.form == "deref" || t.form == "method:String" ||
  -- `strings.Join` only of something that is NOT an option / positional variable (the command name
  -- `ctx.Name`): joining a list the user supplies is not injective — ["a b"] and ["a", "b"] share
  -- their text (seeded change W13-2)
  (t.form == "call:strings.Join" && t.reads.isEmpty) ||
  t.form == "call:encodeToString" || t.form == "literal" ||
  (t.form == "ident" && (t.prov == "decl" || t.prov == "h.Sum" || t.prov == "seqio.Detect" || t.prov == "index"))

/-- `command:key:form:prov` of every payload tuple whose value is not written in one of these forms -/
def valueFormReport : List String :=
  commands.flatMap fun c => (c.payload.filter fun t => !valueFormOk t).map fun t =>
    c.name ++ ":" ++ t.key ++ ":" ++ t.form ++ ":" ++ t.prov

/-- callees that re-order or overwrite their argument in place -/
def mutators : List String :=
  ["sort.Strings", "sort.Sort", "sort.Stable", "sort.Slice", "sort.SliceStable", "sort.Ints", "copy",
   "slices.Sort", "slices.Reverse", "rand.Shuffle"]

/-- a declared variable that a payload tuple reads is handed to a mutating callee somewhere in the
function: the key then describes the mutated value, not what the command line said (seeded change
C14-e: `sort.Strings(*locstrs)` drops the order of the locators from the key of `gts extract`) -/
def mutatedReport : List String :=
  commands.flatMap fun c => (c.decls.filter fun d => covered c d && d.uses.any mutators.contains).map fun d =>
    c.name ++ ":" ++ d.long

/-- **the kind of a payload value as encoding/json sees it** (`Gts.KeyEnc.Kind`), read off the form of
the tuple: a dereferenced option / positional variable has the type its declaration method returns
(go-gts/flags: `Switch` → `*bool`, `String` → `*string`, `StringSlice` / `Extra` → `*[]string`); a declared
variable handed over itself is such a pointer, written by json as what it points to; `String()`,
`strings.Join`, `encodeToString` give a string; `h.Sum(nil)` a `[]byte`; `seqio.Detect` (`FileType`)
and an indexed `[]rune` an integer.  `none`: a kind the encoding model `Gts/Model/KeyEnc.lean` does
not cover. -/
def valueKind (c : Command) (t : Tuple) : Option Gts.KeyEnc.Kind :=
  let declKind (v : String) : Option Gts.KeyEnc.Kind :=
    (c.decls.find? (·.var == v)).bind fun d =>
      if d.kind == "Switch" then some .bool
      else if d.kind == "String" then some .str
      else if d.kind == "StringSlice" || d.kind == "Extra" then some .strs
      else none
  let ofVar : Option Gts.KeyEnc.Kind := match t.direct with
    | [v] => declKind v
    | _ => none
  if t.form == "deref" then ofVar
  else if t.form == "method:String" || t.form == "call:strings.Join" || t.form == "call:encodeToString" then
    some .str
  else if t.form == "ident" then
    if t.prov == "decl" then ofVar
    else if t.prov == "h.Sum" then some .bytes
    else if t.prov == "seqio.Detect" || t.prov == "index" then some .int
    else none
  else none

/-- `command:key:form:prov` of every payload tuple whose value kind the encoding model does not cover -/
def valueKindReport : List String :=
  commands.flatMap fun c => (c.payload.filter fun t => (valueKind c t).isNone).map fun t =>
    c.name ++ ":" ++ t.key ++ ":" ++ t.form ++ ":" ++ t.prov

end Gts.CliTable
