/-
  C14, generated command table: what "reaches the payload" and "exempt" mean (definitions only,
  so that they can be evaluated — `uncoveredReport` — even when the theorems about the current
  table fail; bin/check hands that report to the harness, which then searches for the two-run
  history showing the violation).  Core Lean only.
-/
import Gts.Gen.Cli
namespace Gts.CliTable
open Gts.Gen.Cli

/-- some payload tuple reads the variable bound to the declaration -/
def covered (c : Command) (d : Decl) : Bool := c.payload.any fun t => t.reads.contains d.var

/-- The explicit exempt list:
  * `--no-cache` (a switch read only by `if !*nocache`: it selects whether the protocol runs);
  * the primary input path (first argument of `newIODelegate`): its CONTENT is hashed as the
    root sum of the entry, and it is read nowhere else;
  * ``-o`, `--output`` (second argument of `newIODelegate`), provided the variable is read only by
    `newIODelegate` and `seqio.Detect`, and — when `seqio.Detect` reads it — its effect
    `filetype` is in the payload (then it is `covered` as well). -/
def exempt (c : Command) (d : Decl) : Bool :=
  (d.cls == "opt" && d.long == "no-cache" && d.kind == "Switch" && d.uses == ["if"]) ||
  (d.var == c.primary && d.uses.all (fun u => u == "newIODelegate" || u == "assign")) ||
  (d.cls == "opt" && d.long == "output" && d.var == c.output &&
    d.uses.all (fun u => u == "newIODelegate" || u == "seqio.Detect") &&
    (!d.uses.contains "seqio.Detect" || covered c d))

/-- the declarations of a command that neither reach the payload nor are exempt -/
def uncovered (c : Command) : List String :=
  (c.decls.filter fun d => !(covered c d || exempt c d)).map fun d => c.name ++ ":" ++ d.long

/-- `command:class:kind:long` of every declaration that neither reaches the payload nor is exempt -/
def uncoveredReport : List String :=
  commands.flatMap fun c => (c.decls.filter fun d => !(covered c d || exempt c d)).map fun d =>
    c.name ++ ":" ++ d.cls ++ ":" ++ d.kind ++ ":" ++ d.long

end Gts.CliTable
