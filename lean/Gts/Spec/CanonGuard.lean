/-
  Guards of the closure theorems "a canonical location stays canonical under the edit operations"
  (C06 / C01).  `Loc.canonP` (`Gts/Spec/LocCanon.lean`) demands of a `joined` that it is a fixed point
  of the `Join` reduction.  `Join` is not idempotent (known finding K3): a REPLACING push
  (`Between{p}` replaced by a following `Point{p}` / `Ranged{p, …}`) does not look at the element in
  front of the replaced one, so the parts `… p, p^p+1, p …` reduce to `… p, p` — a pair that a
  second `Join` reduces again.  The functions below decide whether that shape arises anywhere in the
  evaluation of a model function; they delimit the finding in the theorems (`…K3 = false`) and are
  what the harness counts.  Core Lean only.
-/
import Gts.Spec.LocCanon
import Gts.Spec.Marks
namespace Gts
namespace Loc

/-- `Push` leaves the pair alone: pushing `x` behind `v` (with `force`, as `Join` does) fires no
reduction rule (the complemented / complemented rule always fires). -/
def irr : Loc → Loc → Bool
  | between v, between u => v != u
  | between v, point u => v != u
  | between v, ranged us _ _ _ => v != us
  | point v, between u => v + 1 != u
  | point v, point u => v != u
  | point v, ranged us _ _ _ => v != us
  | ranged _ ve _ _, between u => ve != u
  | ranged _ ve _ _, point u => ve != u
  | ranged _ ve _ _, ranged us _ _ _ => ve != us
  | compl _, compl _ => false
  | _, _ => true

/-- the K3 shape at one push: the accumulator (reversed) ends `Point{p}, Between{p}` and the pushed
element is `Point{p}` or a `Ranged` starting at `p` — the between-site is replaced and the equal
point in front of it is not looked at. -/
def k3One : List Loc → Loc → Bool
  | between v :: point w :: _, point u => v == u && w == u
  | between v :: point w :: _, ranged us _ _ _ => v == us && w == us
  | _, _ => false

mutual
/-- the argument list of `Join` as `Push` sees it: the parts of a `Joined` argument one by one -/
def flatJ : Loc → List Loc
  | joined ls => flatJList ls
  | x => [x]
def flatJList : List Loc → List Loc
  | [] => []
  | l :: ls => flatJ l ++ flatJList ls
end

/-- does the K3 shape arise at some step while the (flattened) parts `ys` are pushed onto `racc`? -/
def k3Fold : List Loc → List Loc → Bool
  | _, [] => false
  | racc, y :: ys => k3One racc y || k3Fold (push racc y true) ys

/-- the K3 shape arises while evaluating `Join(xs...)` -/
def joinK3 (xs : List Loc) : Bool := k3Fold [] (flatJList xs)

/-- no two neighbours are both `Complemented` -/
def noAdjCompl : List Loc → Bool
  | a :: b :: r => !(isComplC a && isComplC b) && noAdjCompl (b :: r)
  | _ => true

mutual
def expandK3 : Loc → Int → Int → Bool
  | joined ls, i, n => expandK3List ls i n || joinK3 (expandList ls i n)
  | ordered ls, i, n => expandK3List ls i n
  | compl l, i, n => expandK3 l i n
  | _, _, _ => false
def expandK3List : List Loc → Int → Int → Bool
  | [], _, _ => false
  | l :: ls, i, n => expandK3 l i n || expandK3List ls i n
end

mutual
def shiftK3 : Loc → Int → Int → Bool
  | joined ls, i, n => shiftK3List ls i n || joinK3 (shiftList ls i n)
  | ordered ls, i, n => shiftK3List ls i n
  | compl l, i, n => shiftK3 l i n
  | _, _, _ => false
def shiftK3List : List Loc → Int → Int → Bool
  | [], _, _ => false
  | l :: ls, i, n => shiftK3 l i n || shiftK3List ls i n
end

mutual
def reverseK3 : Loc → Int → Bool
  | joined ls, n => reverseK3List ls n || joinK3 (reverseList ls n).reverse
  | ordered ls, n => reverseK3List ls n
  | compl l, n => reverseK3 l n
  | _, _ => false
def reverseK3List : List Loc → Int → Bool
  | [], _ => false
  | l :: ls, n => reverseK3 l n || reverseK3List ls n
end

mutual
def normalizeK3 : Loc → Int → Bool
  | joined ls, n => normalizeK3List ls n || joinK3 (normalizeList ls n)
  | ordered ls, n => normalizeK3List ls n
  | compl l, n => normalizeK3 l n
  | _, _ => false
def normalizeK3List : List Loc → Int → Bool
  | [], _ => false
  | l :: ls, n => normalizeK3 l n || normalizeK3List ls n
end

/-! ### coordinate bounds of the closure theorems (leaf-wise, over the oracle's `leaves`) -/

/-- every coordinate `canonP` looks at is at most `M` -/
def leafLe (M : Int) : Loc → Bool
  | between p => decide (p ≤ M)
  | point p => decide (p ≤ M)
  | ranged s e _ _ => decide (s ≤ M) && decide (e ≤ M)
  | ambiguous s e => decide (s ≤ M) && decide (e ≤ M)
  | _ => true

/-- no coordinate of the location exceeds `M` -/
def coordsLe (M : Int) (l : Loc) : Bool := (leaves l).all (leafLe M)

/-- the mirror image in a sequence of `L` residues has non-negative coordinates: spans end at or
before `L`, points lie before `L` — and so must between-sites, because `Between.Reverse` is
`L - 1 - p` (known finding K1; the mirror image of the site `p` is `L - p`) -/
def leafRevIn (L : Int) : Loc → Bool
  | between p => decide (p < L)
  | point p => decide (p < L)
  | ranged s e _ _ => decide (s ≤ L) && decide (e ≤ L)
  | ambiguous s e => decide (s ≤ L) && decide (e ≤ L)
  | _ => true

def revIn (L : Int) (l : Loc) : Bool := (leaves l).all (leafRevIn L)

end Loc
end Gts
