/-
  The *meaning* side of C19's selection clause: a declarative reading of the selector grammar
  `[key][/[name][=regexp]]...`, independent of `shiftSelector`/`toQualifier`/`Qualifier`.
  Core Lean only.
-/
import Gts.Model.Feature
namespace Gts
namespace SelSpec

/-- put `c` in front of the first segment -/
def consHead (c : Char) : List (List Char) → List (List Char)
  | seg :: rest => (c :: seg) :: rest
  | [] => [[c]]

/-- split at every `sep` (always at least one segment) -/
def splitOn (sep : Char) : List Char → List (List Char)
  | [] => [[]]
  | c :: cs => if c = sep then [] :: splitOn sep cs else consHead c (splitOn sep cs)

/-- a selector ending in `/`: the empty segment after the final `/` is not a clause
(`"gene/"` is the selector `"gene"`; `"gene//"` has the one clause `""`). -/
def dropTrailingEmpty : List (List Char) → List (List Char)
  | [] => []
  | [[]] => []
  | x :: xs => x :: dropTrailingEmpty xs

/-- `[name][=regexp]`: split at the first `=` -/
def clauseOf (seg : List Char) : String × String :=
  (String.ofList (seg.takeWhile (· != '=')), String.ofList ((seg.dropWhile (· != '=')).drop 1))

/-- the key: everything before the first `/` -/
def key (s : String) : String := String.ofList ((splitOn '/' s.toList).headD [])

/-- the clauses: the further `/`-separated segments -/
def clauses (s : String) : List (String × String) :=
  (dropTrailingEmpty (splitOn '/' s.toList).tail).map clauseOf

/-- every value of the qualifier `name` -/
def valuesOf (name : String) (ps : Props) : List String :=
  (ps.filter fun row => row.head? == some name).flatMap List.tail

/-- every value of every qualifier -/
def allValues (ps : Props) : List String := ps.flatMap List.tail

/-- every qualifier name -/
def allNames (ps : Props) : List String := ps.filterMap List.head?

/-- a clause is satisfied: named — some value of that qualifier matches the regexp (any value
when the regexp is empty); unnamed — some value of any qualifier matches. -/
def clauseSat (mtch : String → String → Bool) (c : String × String) (f : Feature) : Prop :=
  if c.1 = "" then ∃ v ∈ allValues f.props, mtch c.2 v = true
  else ∃ v ∈ valuesOf c.1 f.props, c.2 = "" ∨ mtch c.2 v = true

instance (mtch : String → String → Bool) (c : String × String) (f : Feature) :
    Decidable (clauseSat mtch c f) := by unfold clauseSat; infer_instance

/-- **the property's reading**: the key (when given) is equal and every clause is satisfied -/
def accepts (mtch : String → String → Bool) (s : String) (f : Feature) : Prop :=
  (key s = "" ∨ f.key = key s) ∧ ∀ c ∈ clauses s, clauseSat mtch c f

instance (mtch : String → String → Bool) (s : String) (f : Feature) :
    Decidable (accepts mtch s f) := by unfold accepts; infer_instance

/-- the `Props` values that `Props.Add` builds: every row has a name and at least one value,
names are distinct (a repeated qualifier is one multi-valued row). -/
def wfProps (ps : Props) : Prop := (∀ row ∈ ps, 2 ≤ row.length) ∧ (allNames ps).Nodup

instance (ps : Props) : Decidable (wfProps ps) := by unfold wfProps; infer_instance

end SelSpec
end Gts
