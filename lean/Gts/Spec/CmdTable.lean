/-
  The GLUE between the library and the CLI (`/repo/cmd/gts/<command>.go`): the fourteen commands that have no
  regenerated tie of their own, and the six multi-site commands whose per-record step is regenerated (C15) but whose
  frame was not — the hand-written expectation that `Gts/Bridge/CmdFacts.lean` compares with what go2lean
  extracts from the Go source on every run (`Gts/Gen/CmdFacts.lean`, generator go2lean/cmdfacts.go).

  Every function of these files is given in the generator's normal form (indent, kind, text — locals `v0, v1, …`
  in order of declaration, parameters named by their type, the receiver `recv`), and every line carries a comment
  saying what it does IN TERMS OF THE LIBRARY FUNCTION the model has: which function is applied to every record,
  with which arguments built from which options, in which order, and what is written.  The common frame of a
  cached command (C14 / C17 / C01):

      options → [set-up: filter / feature / queries] → newIODelegate; defer Close → file type (-o, -F)
      → unless --no-cache: encodePayload + TryCache (hit: done)
      → READER seqio.NewAutoScanner(d) → per record: EDIT → WRITER WriteSeq; Flush
      → scanner.Err() → Commit → nil

  A change of a command file that alters one of these lines breaks `cmd_<file>` and has to be looked at HERE, next
  to the model: either the model (`Gts/Model/CliGlue.lean`, `Cli.*Step`) follows and the `…_cli_step` theorems are
  re-proved, or the change is a defect.  Hand-maintained.  Core Lean only.
-/
namespace Gts.Spec.Cmd

/-- one statement: (indent, kind, text) -/
abbrev Line := Nat × String × String

/-- cmd/gts/annotate.go `init` -/
def fn_annotate_init : List Line := [
  (0, "func", "()"),   -- `init`
  (1, "call", "flags.Register(\"annotate\", \"merge features from a feature list file into a sequence\", annotateFunc)")   -- which command name runs which function (`registered`)
]

/-- `gts annotate <table> [seqin]` — per record: every feature of the table file, in file order, is `Insert`ed into
the record's table: `{ s with feats := Table.insertAll s.feats featin }` (C19 sorted insertion) -/
def fn_annotate_annotateFunc : List Line := [
  (0, "func", "(a0 *flags.Context) error"),   -- the command function
  (1, "assign", "v0 := newHash()"),   -- frame: the digest `TryCache` hashes the input and the payload with (C14)
  (1, "assign", "v1, v2 := flags.Flags()"),   -- frame: the positional / optional argument sets (option table: Spec/CliTable.lean)
  (1, "assign", "v3 := v1.String(\"feature_table\", \"feature table file containing features to merge\")"),   -- positional: the feature table file
  (1, "assign", "v4 := new(string)"),   -- frame: the primary input path …
  (1, "assign", "*v4 = \"-\""),   -- frame: … is `-` (stdin) …
  (1, "if", "cmd.IsTerminal(os.Stdin.Fd())"),   -- frame: … unless stdin is a terminal:
  (2, "assign", "v4 = v1.String(\"seqin\", \"input sequence file (may be omitted if standard input is provided)\")"),   -- frame: then a positional `seqin` is declared
  (1, "assign", "v5 := v2.Switch(0, \"no-cache\", \"do not use or create cache\")"),   -- frame: `--no-cache` (C14 `Run.nocache`)
  (1, "assign", "v6 := v2.String('o', \"output\", \"-\", \"output sequence file (specifying `-` will force standard output)\")"),   -- frame: `-o` (C14 `Run.toFile`; C17 `cli_writers`: the file type is detected from it)
  (1, "assign", "v7 := v2.String('F', \"format\", \"\", \"output file format (defaults to same as input)\")"),   -- frame: `-F` (C17 `cli_writers`: overrides the detected file type)
  (1, "if", "v8 := a0.Parse(v1, v2); v8 != nil"),   -- frame: the command line is parsed; a usage error …
  (2, "return", "v8"),   -- … is returned as it is
  (1, "assign", "v9, v10 := os.Open(*v3)"),   -- the feature table file is opened …
  (1, "if", "v10 != nil"),   -- an error …
  (2, "return", "a0.Raise(fmt.Errorf(\"failed to open file %q: %v\", *v3, v10))"),   -- … or the command fails before the cache is touched
  (1, "call", "v0.Reset()"),   -- the digest of the SECONDARY input (C14 `secondary_digest_raw`) …
  (1, "assign", "v11 := attach(v0, v9)"),   -- … sees every byte the parser reads from it (`attachment.Read`)
  (1, "assign", "v12 := pars.NewState(v11)"),   -- the go-pars state over it
  (1, "assign", "v13, v10 := seqio.INSDCTableParser(\"\").Parse(v12)"),   -- the file is ONE INSDC feature table without a prefix (C07 `InsdcParse.tableParser ""`)
  (1, "if", "v10 != nil"),   -- an error …
  (2, "return", "a0.Raise(v10)"),   -- … ends the command with that error (no `Commit`)
  (1, "assign", "v14 := v13.Value.([]gts.Feature)"),   -- its features, in file order
  (1, "assign", "v15 := v0.Sum(nil)"),   -- the digest of the table file goes into the cache key
  (1, "assign", "v16, v10 := newIODelegate(*v4, *v6)"),   -- frame: the I/O delegate over (input path, output path) (C14 `CacheProto.step`: `newIODelegate`)
  (1, "if", "v10 != nil"),   -- an error …
  (2, "return", "a0.Raise(v10)"),   -- … ends the command with that error (no `Commit`)
  (1, "defer", "v16.Close()"),   -- frame: `defer d.Close()` — finalises the cache entry, removes it unless committed (C14 `close_removes_unless_committed`)
  (1, "assign", "v17 := seqio.Detect(*v6)"),   -- frame: output file type from the `-o` path (C17 `cli_writers`)
  (1, "if", "*v7 != \"\""),   -- frame: `-F` given:
  (2, "assign", "v17 = seqio.ToFileType(*v7)"),   -- frame: … the file type is the named format (C17 `cli_writers`)
  (1, "if", "!*v5"),   -- frame: unless `--no-cache`:
  (2, "assign", "v18 := encodePayload([]tuple{{\"command\", strings.Join(a0.Name, \"-\")}, {\"version\", gts.Version.String()}, {\"featin\", encodeToString(v15)}, {\"filetype\", v17}})"),   -- the cache key: command name, version and EVERY option that changes the output (C14 `payload_complete`, Spec/CliTable.lean)
  (2, "assign", "v19, v20 := v16.TryCache(v0, v18)"),   -- frame: C14 `CacheProto.step`: hit → the entry is copied to the output; miss → the tee is armed
  (2, "if", "v19 || v20 != nil"),   -- frame: a hit (or an I/O error) …
  (3, "return", "a0.Raise(v20)"),   -- … ends the command: `Raise(nil)` is nil for a hit (the entry was replayed), the error otherwise
  (1, "assign", "v21 := seqio.NewAutoScanner(v16)"),   -- READER: the records of the primary input, format detected per stream (C17 `Auto.scanAll`, C07 / C01 the GenBank reader)
  (1, "assign", "v22 := bufio.NewWriter(v16)"),   -- WRITER: buffered, onto the delegate (tee: output and cache entry)
  (1, "assign", "v23 := seqio.NewWriter(v22, v17)"),   -- WRITER: `seqio.NewWriter(buffer, filetype)` (C17 `cli_writers`; C01 `GenBank.write`, C17 `Fasta` writer)
  (1, "for", "v21.Scan()"),   -- PER RECORD, in input order:
  (2, "assign", "v24 := v21.Value()"),   -- the record
  (2, "assign", "v25 := v24.Features()"),   -- the feature table of the record
  (2, "range", "_, v26 := range v14"),   -- every feature of the table file, in file order …
  (3, "assign", "v25 = v25.Insert(v26)"),   -- … `FeatureSlice.Insert`: sorted insertion (C19 `Table.insert`, source features first); = `Table.insertAll ff featin`
  (2, "assign", "v24 = gts.WithFeatures(v24, v25)"),   -- the record with the new table: header and residues kept (`{ s with feats := ff }`)
  (2, "if", "_, v27 := v23.WriteSeq(v24); v27 != nil"),   -- WRITE the record; a write error …
  (3, "return", "a0.Raise(v27)"),   -- … ends the command with that error (no `Commit`)
  (2, "if", "v28 := v22.Flush(); v28 != nil"),   -- flush (the bytes reach the tee); an error …
  (3, "return", "a0.Raise(v28)"),   -- … ends the command with that error (no `Commit`)
  (1, "if", "v29 := v21.Err(); v29 != nil"),   -- a scan error (a malformed record: C07) after the records in front of it were handled …
  (2, "return", "a0.Raise(fmt.Errorf(\"encountered error in scanner: %v\", v29))"),   -- … fails the command (exit 1, no `Commit`: the cache entry is removed)
  (1, "call", "v16.Commit()"),   -- frame: LAST statement in front of `return nil`: the run is committed (C14 `commit_only_sets_flag`, `commit_last`)
  (1, "return", "nil")   -- success
]

/-- cmd/gts/annotate.go: every function, method and function literal, in source order -/
def file_annotate : List (String × List Line) := [
  ("init", fn_annotate_init),
  ("annotateFunc", fn_annotate_annotateFunc)
]

/-- cmd/gts/annotate.go: its top-level declarations in source order -/
def decls_annotate : List String := ["init", "annotateFunc"]

/-- cmd/gts/annotate.go: the types it declares (a struct field by field / another type as `= T`) -/
def types_annotate : List (String × List String) := []

/-- the library pipeline of `annotate` (what it is: Gts/Gen/CmdFacts.lean) -/
def pipeline_annotate : List (String × List String) := [
  ("seqio.INSDCTableParser()", []),
  ("gts.Feature", []),
  ("seqio.Detect()", []),
  ("seqio.ToFileType()", ["if"]),
  (".TryCache()", ["if"]),
  ("seqio.NewAutoScanner()", []),
  ("seqio.NewWriter()", []),
  (".Scan()", ["for:"]),
  (".Value()", ["for"]),
  (".Features()", ["for"]),
  (".Insert()", ["for", "range"]),
  ("gts.WithFeatures()", ["for"]),
  (".WriteSeq()", ["for", "if:"]),
  (".Flush()", ["for", "if:"]),
  (".Err()", ["if:"]),
  (".Commit()", [])
]

/-- cmd/gts/clear.go `init` -/
def fn_clear_init : List Line := [
  (0, "func", "()"),   -- `init`
  (1, "call", "flags.Register(\"clear\", \"remove all features from the sequence (excluding source features)\", clearFunc)")   -- which command name runs which function (`registered`)
]

/-- `gts clear` — per record: the table is filtered with `Key("source")`: `{ s with feats := s.feats.filter (keyF "source") }`
(C19 `Cli.clearStep`; regenerated as a function: Gts/Gen/CmdSelect.lean) -/
def fn_clear_clearFunc : List Line := [
  (0, "func", "(a0 *flags.Context) error"),   -- the command function
  (1, "assign", "v0 := newHash()"),   -- frame: the digest `TryCache` hashes the input and the payload with (C14)
  (1, "assign", "v1, v2 := flags.Flags()"),   -- frame: the positional / optional argument sets (option table: Spec/CliTable.lean)
  (1, "assign", "v3 := new(string)"),   -- frame: the primary input path …
  (1, "assign", "*v3 = \"-\""),   -- frame: … is `-` (stdin) …
  (1, "if", "cmd.IsTerminal(os.Stdin.Fd())"),   -- frame: … unless stdin is a terminal:
  (2, "assign", "v3 = v1.String(\"seqin\", \"input sequence file (may be omitted if standard input is provided)\")"),   -- frame: then a positional `seqin` is declared
  (1, "assign", "v4 := v2.Switch(0, \"no-cache\", \"do not use or create cache\")"),   -- frame: `--no-cache` (C14 `Run.nocache`)
  (1, "assign", "v5 := v2.String('o', \"output\", \"-\", \"output sequence file (specifying `-` will force standard output)\")"),   -- frame: `-o` (C14 `Run.toFile`; C17 `cli_writers`: the file type is detected from it)
  (1, "assign", "v6 := v2.String('F', \"format\", \"\", \"output file format (defaults to same as input)\")"),   -- frame: `-F` (C17 `cli_writers`: overrides the detected file type)
  (1, "if", "v7 := a0.Parse(v1, v2); v7 != nil"),   -- frame: the command line is parsed; a usage error …
  (2, "return", "v7"),   -- … is returned as it is
  (1, "assign", "v8, v9 := newIODelegate(*v3, *v5)"),   -- frame: the I/O delegate over (input path, output path) (C14 `CacheProto.step`: `newIODelegate`)
  (1, "if", "v9 != nil"),   -- an error …
  (2, "return", "a0.Raise(v9)"),   -- … ends the command with that error (no `Commit`)
  (1, "defer", "v8.Close()"),   -- frame: `defer d.Close()` — finalises the cache entry, removes it unless committed (C14 `close_removes_unless_committed`)
  (1, "assign", "v10 := seqio.Detect(*v5)"),   -- frame: output file type from the `-o` path (C17 `cli_writers`)
  (1, "if", "*v6 != \"\""),   -- frame: `-F` given:
  (2, "assign", "v10 = seqio.ToFileType(*v6)"),   -- frame: … the file type is the named format (C17 `cli_writers`)
  (1, "if", "!*v4"),   -- frame: unless `--no-cache`:
  (2, "assign", "v11 := encodePayload([]tuple{{\"command\", strings.Join(a0.Name, \"-\")}, {\"version\", gts.Version.String()}, {\"filetype\", v10}})"),   -- the cache key: command name, version and EVERY option that changes the output (C14 `payload_complete`, Spec/CliTable.lean)
  (2, "assign", "v12, v13 := v8.TryCache(v0, v11)"),   -- frame: C14 `CacheProto.step`: hit → the entry is copied to the output; miss → the tee is armed
  (2, "if", "v12 || v13 != nil"),   -- frame: a hit (or an I/O error) …
  (3, "return", "a0.Raise(v13)"),   -- … ends the command: `Raise(nil)` is nil for a hit (the entry was replayed), the error otherwise
  (1, "assign", "v14 := seqio.NewAutoScanner(v8)"),   -- READER: the records of the primary input, format detected per stream (C17 `Auto.scanAll`, C07 / C01 the GenBank reader)
  (1, "assign", "v15 := bufio.NewWriter(v8)"),   -- WRITER: buffered, onto the delegate (tee: output and cache entry)
  (1, "assign", "v16 := seqio.NewWriter(v15, v10)"),   -- WRITER: `seqio.NewWriter(buffer, filetype)` (C17 `cli_writers`; C01 `GenBank.write`, C17 `Fasta` writer)
  (1, "for", "v14.Scan()"),   -- PER RECORD, in input order:
  (2, "assign", "v17 := v14.Value()"),   -- the record
  (2, "assign", "v18 := v17.Features().Filter(gts.Key(\"source\"))"),   -- `FeatureSlice.Filter(Key("source"))`: exactly the features whose key is `source`, in table order (C19 `Table.filterTable (keyF "source")`)
  (2, "assign", "v17 = gts.WithFeatures(v17, v18)"),   -- the record with the new table: header and residues kept (`{ s with feats := ff }`)
  (2, "if", "_, v19 := v16.WriteSeq(v17); v19 != nil"),   -- WRITE the record; a write error …
  (3, "return", "a0.Raise(v19)"),   -- … ends the command with that error (no `Commit`)
  (2, "if", "v20 := v15.Flush(); v20 != nil"),   -- flush (the bytes reach the tee); an error …
  (3, "return", "a0.Raise(v20)"),   -- … ends the command with that error (no `Commit`)
  (1, "if", "v21 := v14.Err(); v21 != nil"),   -- a scan error (a malformed record: C07) after the records in front of it were handled …
  (2, "return", "a0.Raise(fmt.Errorf(\"encountered error in scanner: %v\", v21))"),   -- … fails the command (exit 1, no `Commit`: the cache entry is removed)
  (1, "call", "v8.Commit()"),   -- frame: LAST statement in front of `return nil`: the run is committed (C14 `commit_only_sets_flag`, `commit_last`)
  (1, "return", "nil")   -- success
]

/-- cmd/gts/clear.go: every function, method and function literal, in source order -/
def file_clear : List (String × List Line) := [
  ("init", fn_clear_init),
  ("clearFunc", fn_clear_clearFunc)
]

/-- cmd/gts/clear.go: its top-level declarations in source order -/
def decls_clear : List String := ["init", "clearFunc"]

/-- cmd/gts/clear.go: the types it declares (a struct field by field / another type as `= T`) -/
def types_clear : List (String × List String) := []

/-- the library pipeline of `clear` (what it is: Gts/Gen/CmdFacts.lean) -/
def pipeline_clear : List (String × List String) := [
  ("seqio.Detect()", []),
  ("seqio.ToFileType()", ["if"]),
  (".TryCache()", ["if"]),
  ("seqio.NewAutoScanner()", []),
  ("seqio.NewWriter()", []),
  (".Scan()", ["for:"]),
  (".Value()", ["for"]),
  (".Features()", ["for"]),
  (".Filter()", ["for"]),
  ("gts.Key()", ["for"]),
  ("gts.WithFeatures()", ["for"]),
  (".WriteSeq()", ["for", "if:"]),
  (".Flush()", ["for", "if:"]),
  (".Err()", ["if:"]),
  (".Commit()", [])
]

/-- cmd/gts/complement.go `init` -/
def fn_complement_init : List Line := [
  (0, "func", "()"),   -- `init`
  (1, "call", "flags.Register(\"complement\", \"compute the complement of the given sequence\", complementFunc)")   -- which command name runs which function (`registered`)
]

/-- `gts complement` — per record: `gts.Complement` and NOTHING else (no `Reverse`): C05 `Seq.complement`
(regenerated as a function: Gts/Gen/CmdReverse.lean `complementStep`) -/
def fn_complement_complementFunc : List Line := [
  (0, "func", "(a0 *flags.Context) error"),   -- the command function
  (1, "assign", "v0 := newHash()"),   -- frame: the digest `TryCache` hashes the input and the payload with (C14)
  (1, "assign", "v1, v2 := flags.Flags()"),   -- frame: the positional / optional argument sets (option table: Spec/CliTable.lean)
  (1, "assign", "v3 := new(string)"),   -- frame: the primary input path …
  (1, "assign", "*v3 = \"-\""),   -- frame: … is `-` (stdin) …
  (1, "if", "cmd.IsTerminal(os.Stdin.Fd())"),   -- frame: … unless stdin is a terminal:
  (2, "assign", "v3 = v1.String(\"seqin\", \"input sequence file (may be omitted if standard input is provided)\")"),   -- frame: then a positional `seqin` is declared
  (1, "assign", "v4 := v2.Switch(0, \"no-cache\", \"do not use or create cache\")"),   -- frame: `--no-cache` (C14 `Run.nocache`)
  (1, "assign", "v5 := v2.String('o', \"output\", \"-\", \"output sequence file (specifying `-` will force standard output)\")"),   -- frame: `-o` (C14 `Run.toFile`; C17 `cli_writers`: the file type is detected from it)
  (1, "assign", "v6 := v2.String('F', \"format\", \"\", \"output file format (defaults to same as input)\")"),   -- frame: `-F` (C17 `cli_writers`: overrides the detected file type)
  (1, "if", "v7 := a0.Parse(v1, v2); v7 != nil"),   -- frame: the command line is parsed; a usage error …
  (2, "return", "v7"),   -- … is returned as it is
  (1, "assign", "v8, v9 := newIODelegate(*v3, *v5)"),   -- frame: the I/O delegate over (input path, output path) (C14 `CacheProto.step`: `newIODelegate`)
  (1, "if", "v9 != nil"),   -- an error …
  (2, "return", "a0.Raise(v9)"),   -- … ends the command with that error (no `Commit`)
  (1, "defer", "v8.Close()"),   -- frame: `defer d.Close()` — finalises the cache entry, removes it unless committed (C14 `close_removes_unless_committed`)
  (1, "assign", "v10 := seqio.Detect(*v5)"),   -- frame: output file type from the `-o` path (C17 `cli_writers`)
  (1, "if", "*v6 != \"\""),   -- frame: `-F` given:
  (2, "assign", "v10 = seqio.ToFileType(*v6)"),   -- frame: … the file type is the named format (C17 `cli_writers`)
  (1, "if", "!*v4"),   -- frame: unless `--no-cache`:
  (2, "assign", "v11 := encodePayload([]tuple{{\"command\", strings.Join(a0.Name, \"-\")}, {\"version\", gts.Version.String()}, {\"filetype\", v10}})"),   -- the cache key: command name, version and EVERY option that changes the output (C14 `payload_complete`, Spec/CliTable.lean)
  (2, "assign", "v12, v13 := v8.TryCache(v0, v11)"),   -- frame: C14 `CacheProto.step`: hit → the entry is copied to the output; miss → the tee is armed
  (2, "if", "v12 || v13 != nil"),   -- frame: a hit (or an I/O error) …
  (3, "return", "a0.Raise(v13)"),   -- … ends the command: `Raise(nil)` is nil for a hit (the entry was replayed), the error otherwise
  (1, "assign", "v14 := seqio.NewAutoScanner(v8)"),   -- READER: the records of the primary input, format detected per stream (C17 `Auto.scanAll`, C07 / C01 the GenBank reader)
  (1, "assign", "v15 := bufio.NewWriter(v8)"),   -- WRITER: buffered, onto the delegate (tee: output and cache entry)
  (1, "assign", "v16 := seqio.NewWriter(v15, v10)"),   -- WRITER: `seqio.NewWriter(buffer, filetype)` (C17 `cli_writers`; C01 `GenBank.write`, C17 `Fasta` writer)
  (1, "for", "v14.Scan()"),   -- PER RECORD, in input order:
  (2, "assign", "v17 := v14.Value()"),   -- the record
  (2, "assign", "v17 = gts.Complement(v17)"),   -- `gts.Complement` (C05 `Seq.complement`): residues through the complement alphabet, every location `Complement()`ed, table order kept — NOT reversed
  (2, "if", "_, v18 := v16.WriteSeq(v17); v18 != nil"),   -- WRITE the record; a write error …
  (3, "return", "a0.Raise(v18)"),   -- … ends the command with that error (no `Commit`)
  (1, "if", "v19 := v15.Flush(); v19 != nil"),   -- flush ONCE, behind the loop (the other commands flush per record); an error …
  (2, "return", "a0.Raise(v19)"),   -- … ends the command with that error (no `Commit`)
  (1, "if", "v20 := v14.Err(); v20 != nil"),   -- a scan error (a malformed record: C07) after the records in front of it were handled …
  (2, "return", "a0.Raise(fmt.Errorf(\"encountered error in scanner: %v\", v20))"),   -- … fails the command (exit 1, no `Commit`: the cache entry is removed)
  (1, "call", "v8.Commit()"),   -- frame: LAST statement in front of `return nil`: the run is committed (C14 `commit_only_sets_flag`, `commit_last`)
  (1, "return", "nil")   -- success
]

/-- cmd/gts/complement.go: every function, method and function literal, in source order -/
def file_complement : List (String × List Line) := [
  ("init", fn_complement_init),
  ("complementFunc", fn_complement_complementFunc)
]

/-- cmd/gts/complement.go: its top-level declarations in source order -/
def decls_complement : List String := ["init", "complementFunc"]

/-- cmd/gts/complement.go: the types it declares (a struct field by field / another type as `= T`) -/
def types_complement : List (String × List String) := []

/-- the library pipeline of `complement` (what it is: Gts/Gen/CmdFacts.lean) -/
def pipeline_complement : List (String × List String) := [
  ("seqio.Detect()", []),
  ("seqio.ToFileType()", ["if"]),
  (".TryCache()", ["if"]),
  ("seqio.NewAutoScanner()", []),
  ("seqio.NewWriter()", []),
  (".Scan()", ["for:"]),
  (".Value()", ["for"]),
  ("gts.Complement()", ["for"]),
  (".WriteSeq()", ["for", "if:"]),
  (".Flush()", ["if:"]),
  (".Err()", ["if:"]),
  (".Commit()", [])
]

/-- cmd/gts/define.go `init` -/
def fn_define_init : List Line := [
  (0, "func", "()"),   -- `init`
  (1, "call", "flags.Register(\"define\", \"define a new feature\", defineFunc)")   -- which command name runs which function (`registered`)
]

/-- `gts define <key> <location> [-q name=value …]` — ONE feature built in front of the loop, `Insert`ed into every record:
`{ s with feats := Table.insert s.feats f }` (C19 sorted insertion; Gts/Gen/CmdSelect.lean `defineStep`) -/
def fn_define_defineFunc : List Line := [
  (0, "func", "(a0 *flags.Context) error"),   -- the command function
  (1, "assign", "v0 := newHash()"),   -- frame: the digest `TryCache` hashes the input and the payload with (C14)
  (1, "assign", "v1, v2 := flags.Flags()"),   -- frame: the positional / optional argument sets (option table: Spec/CliTable.lean)
  (1, "assign", "v3 := v1.String(\"key\", \"feature key\")"),   -- positional: the key of the new feature
  (1, "assign", "v4 := v1.String(\"location\", \"feature location\")"),   -- positional: its location text
  (1, "assign", "v5 := new(string)"),   -- frame: the primary input path …
  (1, "assign", "*v5 = \"-\""),   -- frame: … is `-` (stdin) …
  (1, "if", "cmd.IsTerminal(os.Stdin.Fd())"),   -- frame: … unless stdin is a terminal:
  (2, "assign", "v5 = v1.String(\"seqin\", \"input sequence file (may be omitted if standard input is provided)\")"),   -- frame: then a positional `seqin` is declared
  (1, "assign", "v6 := v2.Switch(0, \"no-cache\", \"do not use or create cache\")"),   -- frame: `--no-cache` (C14 `Run.nocache`)
  (1, "assign", "v7 := v2.String('F', \"format\", \"\", \"output file format (defaults to same as input)\")"),   -- frame: `-F` (C17 `cli_writers`: overrides the detected file type)
  (1, "assign", "v8 := v2.String('o', \"output\", \"-\", \"output sequence file (specifying `-` will force standard output)\")"),   -- frame: `-o` (C14 `Run.toFile`; C17 `cli_writers`: the file type is detected from it)
  (1, "assign", "v9 := v2.StringSlice('q', \"qualifier\", nil, \"qualifier key-value pairs (syntax: key=value))\")"),   -- `-q name=value` (repeatable): the qualifiers of the new feature
  (1, "if", "v10 := a0.Parse(v1, v2); v10 != nil"),   -- frame: the command line is parsed; a usage error …
  (2, "return", "v10"),   -- … is returned as it is
  (1, "assign", "v11, v12 := gts.AsLocation(*v4)"),   -- `gts.AsLocation` (C06 `LocText.parse`): the location, or the command fails before the cache is touched
  (1, "if", "v12 != nil"),   -- an error …
  (2, "return", "a0.Raise(v12)"),   -- … ends the command with that error (no `Commit`)
  (1, "assign", "v13, v12 := newIODelegate(*v5, *v8)"),   -- frame: the I/O delegate over (input path, output path) (C14 `CacheProto.step`: `newIODelegate`)
  (1, "if", "v12 != nil"),   -- an error …
  (2, "return", "a0.Raise(v12)"),   -- … ends the command with that error (no `Commit`)
  (1, "defer", "v13.Close()"),   -- frame: `defer d.Close()` — finalises the cache entry, removes it unless committed (C14 `close_removes_unless_committed`)
  (1, "assign", "v14 := seqio.Detect(*v8)"),   -- frame: output file type from the `-o` path (C17 `cli_writers`)
  (1, "if", "*v7 != \"\""),   -- frame: `-F` given:
  (2, "assign", "v14 = seqio.ToFileType(*v7)"),   -- frame: … the file type is the named format (C17 `cli_writers`)
  (1, "assign", "v15 := gts.Props{}"),   -- qualifiers: start empty
  (1, "range", "_, v16 := range *v9"),   -- per `-q` argument, in command-line order:
  (2, "assign", "v17, v18 := v16, \"\""),   -- … name = the whole argument, value = ""
  (2, "if", "v19 := strings.IndexByte(v16, '='); v19 >= 0"),   -- … unless it holds an `=`:
  (3, "assign", "v17, v18 = v16[:v19], v16[v19 + 1:]"),   -- … then split at the FIRST `=` (the value may hold further ones)
  (2, "call", "v15.Add(v17, v18)"),   -- `Props.Add`: appended to the row of that name, a new row at the end otherwise
  (1, "assign", "v20 := gts.NewFeature(*v3, v11, v15)"),   -- the ONE feature: (key, location, qualifiers)
  (1, "if", "!*v6"),   -- frame: unless `--no-cache`:
  (2, "assign", "v21 := encodePayload([]tuple{{\"command\", strings.Join(a0.Name, \"-\")}, {\"version\", gts.Version.String()}, {\"key\", *v3}, {\"location\", v11.String()}, {\"qualifiers\", *v9}, {\"filetype\", v14}})"),   -- the cache key: command name, version and EVERY option that changes the output (C14 `payload_complete`, Spec/CliTable.lean)
  (2, "assign", "v22, v23 := v13.TryCache(v0, v21)"),   -- frame: C14 `CacheProto.step`: hit → the entry is copied to the output; miss → the tee is armed
  (2, "if", "v22 || v23 != nil"),   -- frame: a hit (or an I/O error) …
  (3, "return", "a0.Raise(v23)"),   -- … ends the command: `Raise(nil)` is nil for a hit (the entry was replayed), the error otherwise
  (1, "assign", "v24 := seqio.NewAutoScanner(v13)"),   -- READER: the records of the primary input, format detected per stream (C17 `Auto.scanAll`, C07 / C01 the GenBank reader)
  (1, "assign", "v25 := bufio.NewWriter(v13)"),   -- WRITER: buffered, onto the delegate (tee: output and cache entry)
  (1, "assign", "v26 := seqio.NewWriter(v25, v14)"),   -- WRITER: `seqio.NewWriter(buffer, filetype)` (C17 `cli_writers`; C01 `GenBank.write`, C17 `Fasta` writer)
  (1, "for", "v24.Scan()"),   -- PER RECORD, in input order:
  (2, "assign", "v27 := v24.Value()"),   -- the record
  (2, "assign", "v28 := v27.Features()"),   -- the feature table of the record
  (2, "assign", "v28 = v28.Insert(v20)"),   -- `FeatureSlice.Insert`: sorted insertion into the record's table (C19 `Table.insert`)
  (2, "assign", "v27 = gts.WithFeatures(v27, v28)"),   -- the record with the new table: header and residues kept (`{ s with feats := ff }`)
  (2, "if", "_, v29 := v26.WriteSeq(v27); v29 != nil"),   -- WRITE the record; a write error …
  (3, "return", "a0.Raise(v29)"),   -- … ends the command with that error (no `Commit`)
  (2, "if", "v30 := v25.Flush(); v30 != nil"),   -- flush (the bytes reach the tee); an error …
  (3, "return", "a0.Raise(v30)"),   -- … ends the command with that error (no `Commit`)
  (1, "if", "v31 := v24.Err(); v31 != nil"),   -- a scan error (a malformed record: C07) after the records in front of it were handled …
  (2, "return", "a0.Raise(fmt.Errorf(\"encountered error in scanner: %v\", v31))"),   -- … fails the command (exit 1, no `Commit`: the cache entry is removed)
  (1, "call", "v13.Commit()"),   -- frame: LAST statement in front of `return nil`: the run is committed (C14 `commit_only_sets_flag`, `commit_last`)
  (1, "return", "nil")   -- success
]

/-- cmd/gts/define.go: every function, method and function literal, in source order -/
def file_define : List (String × List Line) := [
  ("init", fn_define_init),
  ("defineFunc", fn_define_defineFunc)
]

/-- cmd/gts/define.go: its top-level declarations in source order -/
def decls_define : List String := ["init", "defineFunc"]

/-- cmd/gts/define.go: the types it declares (a struct field by field / another type as `= T`) -/
def types_define : List (String × List String) := []

/-- the library pipeline of `define` (what it is: Gts/Gen/CmdFacts.lean) -/
def pipeline_define : List (String × List String) := [
  ("gts.AsLocation()", []),
  ("seqio.Detect()", []),
  ("seqio.ToFileType()", ["if"]),
  ("gts.Props", []),
  ("gts.NewFeature()", []),
  (".TryCache()", ["if"]),
  ("seqio.NewAutoScanner()", []),
  ("seqio.NewWriter()", []),
  (".Scan()", ["for:"]),
  (".Value()", ["for"]),
  (".Features()", ["for"]),
  (".Insert()", ["for"]),
  ("gts.WithFeatures()", ["for"]),
  (".WriteSeq()", ["for", "if:"]),
  (".Flush()", ["for", "if:"]),
  (".Err()", ["if:"]),
  (".Commit()", [])
]

/-- cmd/gts/delete.go `init` -/
def fn_delete_init : List Line := [
  (0, "func", "()"),   -- `init`
  (1, "call", "flags.Register(\"delete\", \"delete a region of the given sequence(s)\", deleteFunc)")   -- which command name runs which function (`registered`)
]

/-- `gts delete <locator> [-e]` — per record the located regions are deleted (`-e`: erased) from the back (C15 `Cli.delete`) -/
def fn_delete_deleteFunc : List Line := [
  (0, "func", "(a0 *flags.Context) error"),   -- the command function
  (1, "assign", "v0 := newHash()"),   -- frame: the digest `TryCache` hashes the input and the payload with (C14)
  (1, "assign", "v1, v2 := flags.Flags()"),   -- frame: the positional / optional argument sets (option table: Spec/CliTable.lean)
  (1, "assign", "v3 := v1.String(\"locator\", \"a locator string ([modifier|selector|point|range][@modifier])\")"),   -- positional: the locator string (C08 `AsLocator`)
  (1, "assign", "v4 := new(string)"),   -- frame: the primary input path …
  (1, "assign", "*v4 = \"-\""),   -- frame: … is `-` (stdin) …
  (1, "if", "cmd.IsTerminal(os.Stdin.Fd())"),   -- frame: … unless stdin is a terminal:
  (2, "assign", "v4 = v1.String(\"seqin\", \"input sequence file (may be omitted if standard input is provided)\")"),   -- frame: then a positional `seqin` is declared
  (1, "assign", "v5 := v2.Switch(0, \"no-cache\", \"do not use or create cache\")"),   -- frame: `--no-cache` (C14 `Run.nocache`)
  (1, "assign", "v6 := v2.String('F', \"format\", \"\", \"output file format (defaults to same as input)\")"),   -- frame: `-F` (C17 `cli_writers`: overrides the detected file type)
  (1, "assign", "v7 := v2.String('o', \"output\", \"-\", \"output sequence file (specifying `-` will force standard output)\")"),   -- frame: `-o` (C14 `Run.toFile`; C17 `cli_writers`: the file type is detected from it)
  (1, "assign", "v8 := v2.Switch('e', \"erase\", \"remove features contained in the deleted regions\")"),   -- `-e`
  (1, "if", "v9 := a0.Parse(v1, v2); v9 != nil"),   -- frame: the command line is parsed; a usage error …
  (2, "return", "v9"),   -- … is returned as it is
  (1, "assign", "v10, v11 := gts.AsLocator(*v3)"),   -- `gts.AsLocator` (C08 `asLocator_eq`): a parameter `locate` of the regenerated step; an invalid locator fails the command before the cache is touched
  (1, "if", "v11 != nil"),   -- an error …
  (2, "return", "a0.Raise(v11)"),   -- … ends the command with that error (no `Commit`)
  (1, "assign", "v12, v11 := newIODelegate(*v4, *v7)"),   -- frame: the I/O delegate over (input path, output path) (C14 `CacheProto.step`: `newIODelegate`)
  (1, "if", "v11 != nil"),   -- an error …
  (2, "return", "a0.Raise(v11)"),   -- … ends the command with that error (no `Commit`)
  (1, "defer", "v12.Close()"),   -- frame: `defer d.Close()` — finalises the cache entry, removes it unless committed (C14 `close_removes_unless_committed`)
  (1, "assign", "v13 := seqio.Detect(*v7)"),   -- frame: output file type from the `-o` path (C17 `cli_writers`)
  (1, "if", "*v6 != \"\""),   -- frame: `-F` given:
  (2, "assign", "v13 = seqio.ToFileType(*v6)"),   -- frame: … the file type is the named format (C17 `cli_writers`)
  (1, "assign", "v14 := gts.Delete"),   -- the edit function (a parameter of the regenerated step) …
  (1, "if", "*v8"),   -- … with `-e`:
  (2, "assign", "v14 = gts.Erase"),   -- … `Erase` / `Embed`
  (1, "if", "!*v5"),   -- frame: unless `--no-cache`:
  (2, "assign", "v15 := encodePayload([]tuple{{\"command\", strings.Join(a0.Name, \"-\")}, {\"version\", gts.Version.String()}, {\"locator\", *v3}, {\"erase\", *v8}, {\"filetype\", v13}})"),   -- the cache key: command name, version and EVERY option that changes the output (C14 `payload_complete`, Spec/CliTable.lean)
  (2, "assign", "v16, v17 := v12.TryCache(v0, v15)"),   -- frame: C14 `CacheProto.step`: hit → the entry is copied to the output; miss → the tee is armed
  (2, "if", "v16 || v17 != nil"),   -- frame: a hit (or an I/O error) …
  (3, "return", "a0.Raise(v17)"),   -- … ends the command: `Raise(nil)` is nil for a hit (the entry was replayed), the error otherwise
  (1, "assign", "v18 := seqio.NewAutoScanner(v12)"),   -- READER: the records of the primary input, format detected per stream (C17 `Auto.scanAll`, C07 / C01 the GenBank reader)
  (1, "assign", "v19 := bufio.NewWriter(v12)"),   -- WRITER: buffered, onto the delegate (tee: output and cache entry)
  (1, "assign", "v20 := seqio.NewWriter(v19, v13)"),   -- WRITER: `seqio.NewWriter(buffer, filetype)` (C17 `cli_writers`; C01 `GenBank.write`, C17 `Fasta` writer)
  (1, "for", "v18.Scan()"),   -- PER RECORD, in input order:
  (2, "assign", "v21 := v18.Value()"),   -- the record
  (2, "assign", "v22 := gts.Minimize(v10(v21))"),   -- per-record step — regenerated as a function (Gen/CliDelete.lean) and proved equal to the model (Bridge/CliDelete.lean, C15)
  (2, "call", "flip.Flip(gts.BySegment(v22))"),   -- per-record step — regenerated as a function (Gen/CliDelete.lean) and proved equal to the model (Bridge/CliDelete.lean, C15)
  (2, "range", "_, v23 := range v22"),   -- per-record step — regenerated as a function (Gen/CliDelete.lean) and proved equal to the model (Bridge/CliDelete.lean, C15)
  (3, "assign", "v24, v25 := v23.Head(), v23.Len()"),   -- per-record step — regenerated as a function (Gen/CliDelete.lean) and proved equal to the model (Bridge/CliDelete.lean, C15)
  (3, "assign", "v21 = v14(v21, v24, v25)"),   -- per-record step — regenerated as a function (Gen/CliDelete.lean) and proved equal to the model (Bridge/CliDelete.lean, C15)
  (2, "if", "_, v26 := v20.WriteSeq(v21); v26 != nil"),   -- WRITE the record; a write error …
  (3, "return", "a0.Raise(v26)"),   -- … ends the command with that error (no `Commit`)
  (2, "if", "v27 := v19.Flush(); v27 != nil"),   -- flush (the bytes reach the tee); an error …
  (3, "return", "a0.Raise(v27)"),   -- … ends the command with that error (no `Commit`)
  (1, "if", "v28 := v18.Err(); v28 != nil"),   -- a scan error (a malformed record: C07) after the records in front of it were handled …
  (2, "return", "a0.Raise(fmt.Errorf(\"encountered error in scanner: %v\", v28))"),   -- … fails the command (exit 1, no `Commit`: the cache entry is removed)
  (1, "call", "v12.Commit()"),   -- frame: LAST statement in front of `return nil`: the run is committed (C14 `commit_only_sets_flag`, `commit_last`)
  (1, "return", "nil")   -- success
]

/-- cmd/gts/delete.go: every function, method and function literal, in source order -/
def file_delete : List (String × List Line) := [
  ("init", fn_delete_init),
  ("deleteFunc", fn_delete_deleteFunc)
]

/-- cmd/gts/delete.go: its top-level declarations in source order -/
def decls_delete : List String := ["init", "deleteFunc"]

/-- cmd/gts/delete.go: the types it declares (a struct field by field / another type as `= T`) -/
def types_delete : List (String × List String) := []

/-- the library pipeline of `delete` (what it is: Gts/Gen/CmdFacts.lean) -/
def pipeline_delete : List (String × List String) := [
  ("gts.AsLocator()", []),
  ("seqio.Detect()", []),
  ("seqio.ToFileType()", ["if"]),
  ("gts.Delete", []),
  ("gts.Erase", ["if"]),
  (".TryCache()", ["if"]),
  ("seqio.NewAutoScanner()", []),
  ("seqio.NewWriter()", []),
  (".Scan()", ["for:"]),
  (".Value()", ["for"]),
  ("gts.Minimize()", ["for"]),
  ("gts.BySegment()", ["for"]),
  (".Head()", ["for", "range"]),
  (".Len()", ["for", "range"]),
  (".WriteSeq()", ["for", "if:"]),
  (".Flush()", ["for", "if:"]),
  (".Err()", ["if:"]),
  (".Commit()", [])
]

/-- cmd/gts/extract.go `init` -/
def fn_extract_init : List Line := [
  (0, "func", "()"),   -- `init`
  (1, "call", "flags.Register(\"extract\", \"extract the sequences referenced by the features\", extractFunc)")   -- which command name runs which function (`registered`)
]

/-- cmd/gts/extract.go `containsRegion` -/
def fn_extract_containsRegion : List Line := [
  (0, "func", "(a0 []gts.Region, a1 gts.Region) bool"),   -- `containsRegion` (regenerated as a function: Gen/CliExtract.lean)
  (1, "range", "v0 := range a0"),
  (2, "if", "reflect.DeepEqual(a0[v0], a1)"),
  (3, "return", "true"),
  (1, "return", "false")
]

/-- `gts extract [-v] [locator…]` — per record one record per located region (C15 `Cli.extract`) -/
def fn_extract_extractFunc : List Line := [
  (0, "func", "(a0 *flags.Context) error"),   -- the command function
  (1, "assign", "v0 := newHash()"),   -- frame: the digest `TryCache` hashes the input and the payload with (C14)
  (1, "assign", "v1, v2 := flags.Flags()"),   -- frame: the positional / optional argument sets (option table: Spec/CliTable.lean)
  (1, "assign", "v3 := v1.Extra(\"locator\", \"a locator string ([specifier][@modifier])\")"),   -- positional, any number: the locator strings
  (1, "assign", "v4 := new(string)"),   -- frame: the primary input path …
  (1, "assign", "*v4 = \"-\""),   -- frame: … is `-` (stdin) …
  (1, "if", "cmd.IsTerminal(os.Stdin.Fd())"),   -- frame: … unless stdin is a terminal:
  (2, "assign", "v4 = v1.String(\"seqin\", \"input sequence file (may be omitted if standard input is provided)\")"),   -- frame: then a positional `seqin` is declared
  (1, "assign", "v5 := v2.Switch(0, \"no-cache\", \"do not use or create cache\")"),   -- frame: `--no-cache` (C14 `Run.nocache`)
  (1, "assign", "v6 := v2.String('F', \"format\", \"\", \"output file format (defaults to same as input)\")"),   -- frame: `-F` (C17 `cli_writers`: overrides the detected file type)
  (1, "assign", "v7 := v2.String('o', \"output\", \"-\", \"output sequence file (specifying `-` will force standard output)\")"),   -- frame: `-o` (C14 `Run.toFile`; C17 `cli_writers`: the file type is detected from it)
  (1, "assign", "v8 := v2.Switch('v', \"invert-region\", \"extract the sequences that are not referenced by the features\")"),   -- `-v` (in the cache key since 4f58328)
  (1, "if", "v9 := a0.Parse(v1, v2); v9 != nil"),   -- frame: the command line is parsed; a usage error …
  (2, "return", "v9"),   -- … is returned as it is
  (1, "assign", "v10, v11 := newIODelegate(*v4, *v7)"),   -- frame: the I/O delegate over (input path, output path) (C14 `CacheProto.step`: `newIODelegate`)
  (1, "if", "v11 != nil"),   -- an error …
  (2, "return", "a0.Raise(v11)"),   -- … ends the command with that error (no `Commit`)
  (1, "defer", "v10.Close()"),   -- frame: `defer d.Close()` — finalises the cache entry, removes it unless committed (C14 `close_removes_unless_committed`)
  (1, "assign", "v12 := seqio.Detect(*v7)"),   -- frame: output file type from the `-o` path (C17 `cli_writers`)
  (1, "if", "*v6 != \"\""),   -- frame: `-F` given:
  (2, "assign", "v12 = seqio.ToFileType(*v6)"),   -- frame: … the file type is the named format (C17 `cli_writers`)
  (1, "if", "len(*v3) == 0"),   -- no locator given:
  (2, "assign", "*v3 = append(*v3, \"@^..$\")"),   -- … the whole record (`@^..$`)
  (1, "assign", "v13 := make([]gts.Locator, len(*v3))"),   -- one locator per argument (a parameter list of the regenerated step)
  (1, "range", "v14, v15 := range *v3"),
  (2, "assign", "v16, v17 := gts.AsLocator(v15)"),   -- `gts.AsLocator` (C08 `asLocator_eq`): a parameter `locate` of the regenerated step; an invalid locator fails the command before the cache is touched
  (2, "if", "v17 != nil"),   -- an error …
  (3, "return", "a0.Raise(v17)"),   -- … ends the command with that error (no `Commit`)
  (2, "assign", "v13[v14] = v16"),
  (1, "if", "!*v5"),   -- frame: unless `--no-cache`:
  (2, "assign", "v18 := encodePayload([]tuple{{\"command\", strings.Join(a0.Name, \"-\")}, {\"version\", gts.Version.String()}, {\"locators\", *v3}, {\"invert\", *v8}, {\"filetype\", v12}})"),   -- the cache key: command name, version and EVERY option that changes the output (C14 `payload_complete`, Spec/CliTable.lean)
  (2, "assign", "v19, v20 := v10.TryCache(v0, v18)"),   -- frame: C14 `CacheProto.step`: hit → the entry is copied to the output; miss → the tee is armed
  (2, "if", "v19 || v20 != nil"),   -- frame: a hit (or an I/O error) …
  (3, "return", "a0.Raise(v20)"),   -- … ends the command: `Raise(nil)` is nil for a hit (the entry was replayed), the error otherwise
  (1, "assign", "v21 := seqio.NewAutoScanner(v10)"),   -- READER: the records of the primary input, format detected per stream (C17 `Auto.scanAll`, C07 / C01 the GenBank reader)
  (1, "assign", "v22 := bufio.NewWriter(v10)"),   -- WRITER: buffered, onto the delegate (tee: output and cache entry)
  (1, "assign", "v23 := seqio.NewWriter(v22, v12)"),   -- WRITER: `seqio.NewWriter(buffer, filetype)` (C17 `cli_writers`; C01 `GenBank.write`, C17 `Fasta` writer)
  (1, "for", "v21.Scan()"),   -- PER RECORD, in input order:
  (2, "assign", "v24 := v21.Value()"),   -- the record
  (2, "assign", "v25 := make([]gts.Region, 0)"),   -- per-record step — regenerated as a function (Gen/CliExtract.lean) and proved equal to the model (Bridge/CliExtract.lean, C15)
  (2, "range", "_, v26 := range v13"),   -- per-record step — regenerated as a function (Gen/CliExtract.lean) and proved equal to the model (Bridge/CliExtract.lean, C15)
  (3, "range", "_, v27 := range v26(v24)"),   -- per-record step — regenerated as a function (Gen/CliExtract.lean) and proved equal to the model (Bridge/CliExtract.lean, C15)
  (4, "if", "!containsRegion(v25, v27)"),   -- per-record step — regenerated as a function (Gen/CliExtract.lean) and proved equal to the model (Bridge/CliExtract.lean, C15)
  (5, "assign", "v25 = append(v25, v27)"),   -- … in input order
  (2, "if", "*v8"),   -- … with `-e`:
  (3, "assign", "v25 = gts.InvertLinear(gts.Regions(v25), gts.Len(v24))"),   -- per-record step — regenerated as a function (Gen/CliExtract.lean) and proved equal to the model (Bridge/CliExtract.lean, C15)
  (2, "range", "_, v28 := range v25"),   -- per-record step — regenerated as a function (Gen/CliExtract.lean) and proved equal to the model (Bridge/CliExtract.lean, C15)
  (3, "if", "len(v25) == 1 || v28.Len() != gts.Len(v24)"),   -- per-record step — regenerated as a function (Gen/CliExtract.lean) and proved equal to the model (Bridge/CliExtract.lean, C15)
  (4, "assign", "v29 := v28.Locate(v24)"),   -- per-record step — regenerated as a function (Gen/CliExtract.lean) and proved equal to the model (Bridge/CliExtract.lean, C15)
  (4, "if", "_, v30 := v23.WriteSeq(v29); v30 != nil"),   -- WRITE the record; a write error …
  (5, "return", "a0.Raise(v30)"),   -- … ends the command with that error (no `Commit`)
  (4, "if", "v31 := v22.Flush(); v31 != nil"),   -- flush (the bytes reach the tee); an error …
  (5, "return", "a0.Raise(v31)"),   -- … ends the command with that error (no `Commit`)
  (1, "if", "v32 := v21.Err(); v32 != nil"),   -- a scan error (a malformed record: C07) after the records in front of it were handled …
  (2, "return", "a0.Raise(fmt.Errorf(\"encountered error in scanner: %v\", v32))"),   -- … fails the command (exit 1, no `Commit`: the cache entry is removed)
  (1, "call", "v10.Commit()"),   -- frame: LAST statement in front of `return nil`: the run is committed (C14 `commit_only_sets_flag`, `commit_last`)
  (1, "return", "nil")   -- success
]

/-- cmd/gts/extract.go: every function, method and function literal, in source order -/
def file_extract : List (String × List Line) := [
  ("init", fn_extract_init),
  ("containsRegion", fn_extract_containsRegion),
  ("extractFunc", fn_extract_extractFunc)
]

/-- cmd/gts/extract.go: its top-level declarations in source order -/
def decls_extract : List String := ["init", "containsRegion", "extractFunc"]

/-- cmd/gts/extract.go: the types it declares (a struct field by field / another type as `= T`) -/
def types_extract : List (String × List String) := []

/-- the library pipeline of `extract` (what it is: Gts/Gen/CmdFacts.lean) -/
def pipeline_extract : List (String × List String) := [
  ("seqio.Detect()", []),
  ("seqio.ToFileType()", ["if"]),
  ("gts.Locator", []),
  ("gts.AsLocator()", ["range"]),
  (".TryCache()", ["if"]),
  ("seqio.NewAutoScanner()", []),
  ("seqio.NewWriter()", []),
  (".Scan()", ["for:"]),
  (".Value()", ["for"]),
  ("gts.Region", ["for"]),
  ("gts.InvertLinear()", ["for", "if"]),
  ("gts.Regions()", ["for", "if"]),
  ("gts.Len()", ["for", "if"]),
  (".Len()", ["for", "range", "if:"]),
  ("gts.Len()", ["for", "range", "if:"]),
  (".Locate()", ["for", "range", "if"]),
  (".WriteSeq()", ["for", "range", "if", "if:"]),
  (".Flush()", ["for", "range", "if", "if:"]),
  (".Err()", ["if:"]),
  (".Commit()", [])
]

/-- cmd/gts/infix.go `init` -/
def fn_infix_init : List Line := [
  (0, "func", "()"),   -- `init`
  (1, "call", "flags.Register(\"infix\", \"infix input sequence(s) into the host sequence(s)\", infixFunc)")   -- which command name runs which function (`registered`)
]

/-- `gts infix <locator> <host> [-e]` — every record is a GUEST, inserted into every host at the located sites (C15 `Cli.insert`) -/
def fn_infix_infixFunc : List Line := [
  (0, "func", "(a0 *flags.Context) error"),   -- the command function
  (1, "assign", "v0 := newHash()"),   -- frame: the digest `TryCache` hashes the input and the payload with (C14)
  (1, "assign", "v1, v2 := flags.Flags()"),   -- frame: the positional / optional argument sets (option table: Spec/CliTable.lean)
  (1, "assign", "v3 := v1.String(\"locator\", \"a locator string ([modifier|selector|point|range][@modifier])\")"),   -- positional: the locator string (C08 `AsLocator`)
  (1, "assign", "v4 := v1.String(\"host\", \"host sequence\")"),   -- positional: the host sequence file
  (1, "assign", "v5 := new(string)"),   -- frame: the primary input path …
  (1, "assign", "*v5 = \"-\""),   -- frame: … is `-` (stdin) …
  (1, "if", "cmd.IsTerminal(os.Stdin.Fd())"),   -- frame: … unless stdin is a terminal:
  (2, "assign", "v5 = v1.String(\"guest\", \"input sequence file (may be omitted if standard input is provided)\")"),
  (1, "assign", "v6 := v2.Switch(0, \"no-cache\", \"do not use or create cache\")"),   -- frame: `--no-cache` (C14 `Run.nocache`)
  (1, "assign", "v7 := v2.String('F', \"format\", \"\", \"output file format (defaults to same as input)\")"),   -- frame: `-F` (C17 `cli_writers`: overrides the detected file type)
  (1, "assign", "v8 := v2.String('o', \"output\", \"-\", \"output sequence file (specifying `-` will force standard output)\")"),   -- frame: `-o` (C14 `Run.toFile`; C17 `cli_writers`: the file type is detected from it)
  (1, "assign", "v9 := v2.Switch('e', \"embed\", \"extend existing feature locations when inserting instead of splitting them\")"),   -- `-e`
  (1, "if", "v10 := a0.Parse(v1, v2); v10 != nil"),   -- frame: the command line is parsed; a usage error …
  (2, "return", "v10"),   -- … is returned as it is
  (1, "assign", "v11, v12 := gts.AsLocator(*v3)"),   -- `gts.AsLocator` (C08 `asLocator_eq`): a parameter `locate` of the regenerated step; an invalid locator fails the command before the cache is touched
  (1, "if", "v12 != nil"),   -- an error …
  (2, "return", "a0.Raise(v12)"),   -- … ends the command with that error (no `Commit`)
  (1, "assign", "v13 := []gts.Sequence{}"),   -- all records are collected first:
  (1, "assign", "v14, v12 := os.Open(*v4)"),
  (1, "if", "v12 != nil"),   -- an error …
  (2, "return", "a0.Raise(fmt.Errorf(\"failed to open file: %q: %v\", *v4, v12))"),   -- … or the command fails
  (1, "defer", "v14.Close()"),   -- frame: `defer d.Close()` — finalises the cache entry, removes it unless committed (C14 `close_removes_unless_committed`)
  (1, "call", "v0.Reset()"),   -- the digest of the SECONDARY input (C14 `secondary_digest_raw`)
  (1, "assign", "v15 := attach(v0, v14)"),   -- … a file: read through the digest
  (1, "assign", "v16 := seqio.NewAutoScanner(v15)"),   -- READER: the records of the primary input, format detected per stream (C17 `Auto.scanAll`, C07 / C01 the GenBank reader)
  (1, "for", "v16.Scan()"),   -- PER RECORD, in input order:
  (2, "assign", "v13 = append(v13, v16.Value())"),   -- per-record step — regenerated as a function (Gen/CliInsert.lean) and proved equal to the model (Bridge/CliInsert.lean, C15)
  (1, "if", "len(v13) == 0"),
  (2, "return", "a0.Raise(fmt.Errorf(\"host sequence file %q does not contain a sequence\", *v4))"),   -- … fails the command (repair 72a98e0: the error is RETURNED)
  (1, "assign", "v17 := v0.Sum(nil)"),   -- its digest goes into the cache key
  (1, "assign", "v18, v12 := newIODelegate(*v5, *v8)"),   -- frame: the I/O delegate over (input path, output path) (C14 `CacheProto.step`: `newIODelegate`)
  (1, "if", "v12 != nil"),   -- an error …
  (2, "return", "a0.Raise(v12)"),   -- … ends the command with that error (no `Commit`)
  (1, "defer", "v18.Close()"),   -- frame: `defer d.Close()` — finalises the cache entry, removes it unless committed (C14 `close_removes_unless_committed`)
  (1, "assign", "v19 := seqio.Detect(*v8)"),   -- frame: output file type from the `-o` path (C17 `cli_writers`)
  (1, "if", "*v7 != \"\""),   -- frame: `-F` given:
  (2, "assign", "v19 = seqio.ToFileType(*v7)"),   -- frame: … the file type is the named format (C17 `cli_writers`)
  (1, "assign", "v20 := gts.Insert"),   -- the edit function (a parameter of the regenerated step) …
  (1, "if", "*v9"),   -- … with `-e`:
  (2, "assign", "v20 = gts.Embed"),   -- … `Erase` / `Embed`
  (1, "if", "!*v6"),   -- frame: unless `--no-cache`:
  (2, "assign", "v21 := encodePayload([]tuple{{\"command\", strings.Join(a0.Name, \"-\")}, {\"version\", gts.Version.String()}, {\"locator\", *v3}, {\"host\", v17}, {\"embed\", *v9}, {\"filetype\", v19}})"),   -- the cache key: command name, version and EVERY option that changes the output (C14 `payload_complete`, Spec/CliTable.lean)
  (2, "assign", "v22, v23 := v18.TryCache(v0, v21)"),   -- frame: C14 `CacheProto.step`: hit → the entry is copied to the output; miss → the tee is armed
  (2, "if", "v22 || v23 != nil"),   -- frame: a hit (or an I/O error) …
  (3, "return", "a0.Raise(v23)"),   -- … ends the command: `Raise(nil)` is nil for a hit (the entry was replayed), the error otherwise
  (1, "assign", "v16 = seqio.NewAutoScanner(v18)"),
  (1, "assign", "v24 := bufio.NewWriter(v18)"),   -- WRITER: buffered, onto the delegate (tee: output and cache entry)
  (1, "assign", "v25 := seqio.NewWriter(v24, v19)"),   -- WRITER: `seqio.NewWriter(buffer, filetype)` (C17 `cli_writers`; C01 `GenBank.write`, C17 `Fasta` writer)
  (1, "for", "v16.Scan()"),   -- PER RECORD, in input order:
  (2, "assign", "v26 := v16.Value()"),   -- the record
  (2, "range", "_, v27 := range v13"),   -- per-record step — regenerated as a function (Gen/CliInsert.lean) and proved equal to the model (Bridge/CliInsert.lean, C15)
  (3, "assign", "v28 := v11(v27)"),   -- per-record step — regenerated as a function (Gen/CliInsert.lean) and proved equal to the model (Bridge/CliInsert.lean, C15)
  (3, "assign", "v29 := make([]int, len(v28))"),   -- per-record step — regenerated as a function (Gen/CliInsert.lean) and proved equal to the model (Bridge/CliInsert.lean, C15)
  (3, "range", "v30, v31 := range v28"),   -- per-record step — regenerated as a function (Gen/CliInsert.lean) and proved equal to the model (Bridge/CliInsert.lean, C15)
  (4, "assign", "v29[v30] = v31.Head()"),   -- per-record step — regenerated as a function (Gen/CliInsert.lean) and proved equal to the model (Bridge/CliInsert.lean, C15)
  (3, "call", "sort.Sort(sort.Reverse(sort.IntSlice(v29)))"),   -- per-record step — regenerated as a function (Gen/CliInsert.lean) and proved equal to the model (Bridge/CliInsert.lean, C15)
  (3, "assign", "v32 := gts.Sequence(gts.Copy(v27))"),   -- per-record step — regenerated as a function (Gen/CliInsert.lean) and proved equal to the model (Bridge/CliInsert.lean, C15)
  (3, "range", "_, v33 := range v29"),   -- per-record step — regenerated as a function (Gen/CliInsert.lean) and proved equal to the model (Bridge/CliInsert.lean, C15)
  (4, "assign", "v32 = v20(v32, v33, v26)"),   -- per-record step — regenerated as a function (Gen/CliInsert.lean) and proved equal to the model (Bridge/CliInsert.lean, C15)
  (3, "if", "_, v34 := v25.WriteSeq(v32); v34 != nil"),   -- WRITE the record; a write error …
  (4, "return", "a0.Raise(v34)"),   -- … ends the command with that error (no `Commit`)
  (3, "if", "v35 := v24.Flush(); v35 != nil"),   -- flush (the bytes reach the tee); an error …
  (4, "return", "a0.Raise(v35)"),   -- … ends the command with that error (no `Commit`)
  (1, "if", "v36 := v16.Err(); v36 != nil"),   -- a scan error (a malformed record: C07) after the records in front of it were handled …
  (2, "return", "a0.Raise(fmt.Errorf(\"encountered error in scanner: %v\", v36))"),   -- … fails the command (exit 1, no `Commit`: the cache entry is removed)
  (1, "call", "v18.Commit()"),   -- frame: LAST statement in front of `return nil`: the run is committed (C14 `commit_only_sets_flag`, `commit_last`)
  (1, "return", "nil")   -- success
]

/-- cmd/gts/infix.go: every function, method and function literal, in source order -/
def file_infix : List (String × List Line) := [
  ("init", fn_infix_init),
  ("infixFunc", fn_infix_infixFunc)
]

/-- cmd/gts/infix.go: its top-level declarations in source order -/
def decls_infix : List String := ["init", "infixFunc"]

/-- cmd/gts/infix.go: the types it declares (a struct field by field / another type as `= T`) -/
def types_infix : List (String × List String) := []

/-- the library pipeline of `infix` (what it is: Gts/Gen/CmdFacts.lean) -/
def pipeline_infix : List (String × List String) := [
  ("gts.AsLocator()", []),
  ("gts.Sequence", []),
  ("seqio.NewAutoScanner()", []),
  (".Scan()", ["for:"]),
  (".Value()", ["for"]),
  ("seqio.Detect()", []),
  ("seqio.ToFileType()", ["if"]),
  ("gts.Insert", []),
  ("gts.Embed", ["if"]),
  (".TryCache()", ["if"]),
  ("seqio.NewAutoScanner()", []),
  ("seqio.NewWriter()", []),
  (".Scan()", ["for:"]),
  (".Value()", ["for"]),
  (".Head()", ["for", "range", "range"]),
  (".Reverse()", ["for", "range"]),
  ("gts.Sequence()", ["for", "range"]),
  ("gts.Copy()", ["for", "range"]),
  (".WriteSeq()", ["for", "range", "if:"]),
  (".Flush()", ["for", "range", "if:"]),
  (".Err()", ["if:"]),
  (".Commit()", [])
]

/-- cmd/gts/insert.go `init` -/
def fn_insert_init : List Line := [
  (0, "func", "()"),   -- `init`
  (1, "call", "flags.Register(\"insert\", \"insert guest sequence(s) into the input sequence(s)\", insertFunc)")   -- which command name runs which function (`registered`)
]

/-- `gts insert <locator> <guest> [-e]` — every guest is inserted into the record at the located sites (C15 `Cli.insert`) -/
def fn_insert_insertFunc : List Line := [
  (0, "func", "(a0 *flags.Context) error"),   -- the command function
  (1, "assign", "v0 := newHash()"),   -- frame: the digest `TryCache` hashes the input and the payload with (C14)
  (1, "assign", "v1, v2 := flags.Flags()"),   -- frame: the positional / optional argument sets (option table: Spec/CliTable.lean)
  (1, "assign", "v3 := v1.String(\"locator\", \"a locator string ([specifier][@modifier])\")"),   -- positional: the locator string (C08 `AsLocator`)
  (1, "assign", "v4 := v1.String(\"guest\", \"guest sequence file (will be interpreted literally if preceded with @)\")"),   -- positional: the guest — a file, or literal residues behind `@`
  (1, "assign", "v5 := new(string)"),   -- frame: the primary input path …
  (1, "assign", "*v5 = \"-\""),   -- frame: … is `-` (stdin) …
  (1, "if", "cmd.IsTerminal(os.Stdin.Fd())"),   -- frame: … unless stdin is a terminal:
  (2, "assign", "v5 = v1.String(\"host\", \"input sequence file (may be omitted if standard input is provided)\")"),
  (1, "assign", "v6 := v2.Switch(0, \"no-cache\", \"do not use or create cache\")"),   -- frame: `--no-cache` (C14 `Run.nocache`)
  (1, "assign", "v7 := v2.String('F', \"format\", \"\", \"output file format (defaults to same as input)\")"),   -- frame: `-F` (C17 `cli_writers`: overrides the detected file type)
  (1, "assign", "v8 := v2.String('o', \"output\", \"-\", \"output sequence file (specifying `-` will force standard output)\")"),   -- frame: `-o` (C14 `Run.toFile`; C17 `cli_writers`: the file type is detected from it)
  (1, "assign", "v9 := v2.Switch('e', \"embed\", \"extend existing feature locations when inserting instead of splitting them\")"),   -- `-e`
  (1, "if", "v10 := a0.Parse(v1, v2); v10 != nil"),   -- frame: the command line is parsed; a usage error …
  (2, "return", "v10"),   -- … is returned as it is
  (1, "assign", "v11, v12 := gts.AsLocator(*v3)"),   -- `gts.AsLocator` (C08 `asLocator_eq`): a parameter `locate` of the regenerated step; an invalid locator fails the command before the cache is touched
  (1, "if", "v12 != nil"),   -- an error …
  (2, "return", "a0.Raise(v12)"),   -- … ends the command with that error (no `Commit`)
  (1, "assign", "v13 := []gts.Sequence{}"),   -- all records are collected first:
  (1, "assign", "v14 := []byte(*v4)"),
  (1, "call", "v0.Reset()"),   -- the digest of the SECONDARY input (C14 `secondary_digest_raw`)
  (1, "switch", "v14[0]"),
  (2, "case", "'@'"),
  (3, "call", "v0.Write(v14)"),   -- … a literal: the digest sees the argument with its `@`
  (3, "assign", "v15 := gts.New(nil, nil, v14[1:])"),
  (3, "assign", "v13 = append(v13, v15)"),   -- … in input order
  (2, "default", ""),
  (3, "assign", "v16, v17 := os.Open(*v4)"),
  (3, "if", "v17 != nil"),   -- an error …
  (4, "return", "a0.Raise(fmt.Errorf(\"failed to open file: %q: %v\", *v4, v17))"),   -- … or the command fails
  (3, "defer", "v16.Close()"),   -- frame: `defer d.Close()` — finalises the cache entry, removes it unless committed (C14 `close_removes_unless_committed`)
  (3, "assign", "v18 := attach(v0, v16)"),   -- … a file: read through the digest
  (3, "assign", "v19 := seqio.NewAutoScanner(v18)"),   -- READER: the records of the primary input, format detected per stream (C17 `Auto.scanAll`, C07 / C01 the GenBank reader)
  (3, "for", "v19.Scan()"),   -- PER RECORD, in input order:
  (4, "assign", "v13 = append(v13, v19.Value())"),
  (3, "if", "len(v13) == 0"),
  (4, "return", "a0.Raise(fmt.Errorf(\"guest sequence file %q does not contain a sequence\", *v4))"),   -- … fails the command (repair 72a98e0: the error is RETURNED)
  (1, "assign", "v20 := v0.Sum(nil)"),   -- its digest goes into the cache key
  (1, "assign", "v21, v12 := newIODelegate(*v5, *v8)"),   -- frame: the I/O delegate over (input path, output path) (C14 `CacheProto.step`: `newIODelegate`)
  (1, "if", "v12 != nil"),   -- an error …
  (2, "return", "a0.Raise(v12)"),   -- … ends the command with that error (no `Commit`)
  (1, "defer", "v21.Close()"),   -- frame: `defer d.Close()` — finalises the cache entry, removes it unless committed (C14 `close_removes_unless_committed`)
  (1, "assign", "v22 := seqio.Detect(*v8)"),   -- frame: output file type from the `-o` path (C17 `cli_writers`)
  (1, "if", "*v7 != \"\""),   -- frame: `-F` given:
  (2, "assign", "v22 = seqio.ToFileType(*v7)"),   -- frame: … the file type is the named format (C17 `cli_writers`)
  (1, "assign", "v23 := gts.Insert"),   -- the edit function (a parameter of the regenerated step) …
  (1, "if", "*v9"),   -- … with `-e`:
  (2, "assign", "v23 = gts.Embed"),   -- … `Erase` / `Embed`
  (1, "if", "!*v6"),   -- frame: unless `--no-cache`:
  (2, "assign", "v24 := encodePayload([]tuple{{\"command\", strings.Join(a0.Name, \"-\")}, {\"version\", gts.Version.String()}, {\"locator\", *v3}, {\"guest\", v20}, {\"embed\", *v9}, {\"filetype\", v22}})"),   -- the cache key: command name, version and EVERY option that changes the output (C14 `payload_complete`, Spec/CliTable.lean)
  (2, "assign", "v25, v26 := v21.TryCache(v0, v24)"),   -- frame: C14 `CacheProto.step`: hit → the entry is copied to the output; miss → the tee is armed
  (2, "if", "v25 || v26 != nil"),   -- frame: a hit (or an I/O error) …
  (3, "return", "a0.Raise(v26)"),   -- … ends the command: `Raise(nil)` is nil for a hit (the entry was replayed), the error otherwise
  (1, "assign", "v27 := seqio.NewAutoScanner(v21)"),   -- READER: the records of the primary input, format detected per stream (C17 `Auto.scanAll`, C07 / C01 the GenBank reader)
  (1, "assign", "v28 := bufio.NewWriter(v21)"),   -- WRITER: buffered, onto the delegate (tee: output and cache entry)
  (1, "assign", "v29 := seqio.NewWriter(v28, v22)"),   -- WRITER: `seqio.NewWriter(buffer, filetype)` (C17 `cli_writers`; C01 `GenBank.write`, C17 `Fasta` writer)
  (1, "for", "v27.Scan()"),   -- PER RECORD, in input order:
  (2, "assign", "v30 := v27.Value()"),   -- the record
  (2, "assign", "v31 := v11(v30)"),   -- per-record step — regenerated as a function (Gen/CliInsert.lean) and proved equal to the model (Bridge/CliInsert.lean, C15)
  (2, "assign", "v32 := make([]int, len(v31))"),   -- per-record step — regenerated as a function (Gen/CliInsert.lean) and proved equal to the model (Bridge/CliInsert.lean, C15)
  (2, "range", "v33, v34 := range v31"),   -- per-record step — regenerated as a function (Gen/CliInsert.lean) and proved equal to the model (Bridge/CliInsert.lean, C15)
  (3, "assign", "v32[v33] = v34.Head()"),   -- per-record step — regenerated as a function (Gen/CliInsert.lean) and proved equal to the model (Bridge/CliInsert.lean, C15)
  (2, "call", "sort.Sort(sort.Reverse(sort.IntSlice(v32)))"),   -- per-record step — regenerated as a function (Gen/CliInsert.lean) and proved equal to the model (Bridge/CliInsert.lean, C15)
  (2, "range", "_, v35 := range v13"),   -- per-record step — regenerated as a function (Gen/CliInsert.lean) and proved equal to the model (Bridge/CliInsert.lean, C15)
  (3, "assign", "v36 := gts.Sequence(gts.Copy(v30))"),   -- per-record step — regenerated as a function (Gen/CliInsert.lean) and proved equal to the model (Bridge/CliInsert.lean, C15)
  (3, "range", "_, v37 := range v32"),   -- per-record step — regenerated as a function (Gen/CliInsert.lean) and proved equal to the model (Bridge/CliInsert.lean, C15)
  (4, "assign", "v36 = v23(v36, v37, v35)"),   -- per-record step — regenerated as a function (Gen/CliInsert.lean) and proved equal to the model (Bridge/CliInsert.lean, C15)
  (3, "if", "_, v38 := v29.WriteSeq(v36); v38 != nil"),   -- WRITE the record; a write error …
  (4, "return", "a0.Raise(v38)"),   -- … ends the command with that error (no `Commit`)
  (3, "if", "v39 := v28.Flush(); v39 != nil"),   -- flush (the bytes reach the tee); an error …
  (4, "return", "a0.Raise(v39)"),   -- … ends the command with that error (no `Commit`)
  (1, "if", "v40 := v27.Err(); v40 != nil"),   -- a scan error (a malformed record: C07) after the records in front of it were handled …
  (2, "return", "a0.Raise(fmt.Errorf(\"encountered error in scanner: %v\", v40))"),   -- … fails the command (exit 1, no `Commit`: the cache entry is removed)
  (1, "call", "v21.Commit()"),   -- frame: LAST statement in front of `return nil`: the run is committed (C14 `commit_only_sets_flag`, `commit_last`)
  (1, "return", "nil")   -- success
]

/-- cmd/gts/insert.go: every function, method and function literal, in source order -/
def file_insert : List (String × List Line) := [
  ("init", fn_insert_init),
  ("insertFunc", fn_insert_insertFunc)
]

/-- cmd/gts/insert.go: its top-level declarations in source order -/
def decls_insert : List String := ["init", "insertFunc"]

/-- cmd/gts/insert.go: the types it declares (a struct field by field / another type as `= T`) -/
def types_insert : List (String × List String) := []

/-- the library pipeline of `insert` (what it is: Gts/Gen/CmdFacts.lean) -/
def pipeline_insert : List (String × List String) := [
  ("gts.AsLocator()", []),
  ("gts.Sequence", []),
  ("gts.New()", ["switch", "case"]),
  ("seqio.NewAutoScanner()", ["switch", "default"]),
  (".Scan()", ["switch", "default", "for:"]),
  (".Value()", ["switch", "default", "for"]),
  ("seqio.Detect()", []),
  ("seqio.ToFileType()", ["if"]),
  ("gts.Insert", []),
  ("gts.Embed", ["if"]),
  (".TryCache()", ["if"]),
  ("seqio.NewAutoScanner()", []),
  ("seqio.NewWriter()", []),
  (".Scan()", ["for:"]),
  (".Value()", ["for"]),
  (".Head()", ["for", "range"]),
  (".Reverse()", ["for"]),
  ("gts.Sequence()", ["for", "range"]),
  ("gts.Copy()", ["for", "range"]),
  (".WriteSeq()", ["for", "range", "if:"]),
  (".Flush()", ["for", "range", "if:"]),
  (".Err()", ["if:"]),
  (".Commit()", [])
]

/-- cmd/gts/join.go `init` -/
def fn_join_init : List Line := [
  (0, "func", "()"),   -- `init`
  (1, "call", "flags.Register(\"join\", \"join the sequences contained in the files\", joinFunc)")   -- which command name runs which function (`registered`)
]

/-- `gts join [-c]` — all records are read, `gts.Concat`enated in input order, ONE record is written -/
def fn_join_joinFunc : List Line := [
  (0, "func", "(a0 *flags.Context) error"),   -- the command function
  (1, "assign", "v0 := newHash()"),   -- frame: the digest `TryCache` hashes the input and the payload with (C14)
  (1, "assign", "v1, v2 := flags.Flags()"),   -- frame: the positional / optional argument sets (option table: Spec/CliTable.lean)
  (1, "assign", "v3 := new(string)"),   -- frame: the primary input path …
  (1, "assign", "*v3 = \"-\""),   -- frame: … is `-` (stdin) …
  (1, "if", "cmd.IsTerminal(os.Stdin.Fd())"),   -- frame: … unless stdin is a terminal:
  (2, "assign", "v3 = v1.String(\"seqin\", \"input sequence file (may be omitted if standard input is provided)\")"),   -- frame: then a positional `seqin` is declared
  (1, "assign", "v4 := v2.Switch(0, \"no-cache\", \"do not use or create cache\")"),   -- frame: `--no-cache` (C14 `Run.nocache`)
  (1, "assign", "v5 := v2.String('o', \"output\", \"-\", \"output sequence file (specifying `-` will force standard output)\")"),   -- frame: `-o` (C14 `Run.toFile`; C17 `cli_writers`: the file type is detected from it)
  (1, "assign", "v6 := v2.String('F', \"format\", \"\", \"output file format (defaults to same as input)\")"),   -- frame: `-F` (C17 `cli_writers`: overrides the detected file type)
  (1, "assign", "v7 := v2.Switch('c', \"circular\", \"output the sequence as circular if possible\")"),   -- `-c`
  (1, "if", "v8 := a0.Parse(v1, v2); v8 != nil"),   -- frame: the command line is parsed; a usage error …
  (2, "return", "v8"),   -- … is returned as it is
  (1, "assign", "v9, v10 := newIODelegate(*v3, *v5)"),   -- frame: the I/O delegate over (input path, output path) (C14 `CacheProto.step`: `newIODelegate`)
  (1, "if", "v10 != nil"),   -- an error …
  (2, "return", "a0.Raise(v10)"),   -- … ends the command with that error (no `Commit`)
  (1, "defer", "v9.Close()"),   -- frame: `defer d.Close()` — finalises the cache entry, removes it unless committed (C14 `close_removes_unless_committed`)
  (1, "assign", "v11 := seqio.Detect(*v5)"),   -- frame: output file type from the `-o` path (C17 `cli_writers`)
  (1, "if", "*v6 != \"\""),   -- frame: `-F` given:
  (2, "assign", "v11 = seqio.ToFileType(*v6)"),   -- frame: … the file type is the named format (C17 `cli_writers`)
  (1, "if", "!*v4"),   -- frame: unless `--no-cache`:
  (2, "assign", "v12 := encodePayload([]tuple{{\"command\", strings.Join(a0.Name, \"-\")}, {\"version\", gts.Version.String()}, {\"circular\", *v7}, {\"filetype\", v11}})"),   -- the cache key: command name, version and EVERY option that changes the output (C14 `payload_complete`, Spec/CliTable.lean)
  (2, "assign", "v13, v14 := v9.TryCache(v0, v12)"),   -- frame: C14 `CacheProto.step`: hit → the entry is copied to the output; miss → the tee is armed
  (2, "if", "v13 || v14 != nil"),   -- frame: a hit (or an I/O error) …
  (3, "return", "a0.Raise(v14)"),   -- … ends the command: `Raise(nil)` is nil for a hit (the entry was replayed), the error otherwise
  (1, "assign", "v15 := []gts.Sequence{}"),   -- all records are collected first:
  (1, "assign", "v16 := seqio.NewAutoScanner(v9)"),   -- READER: the records of the primary input, format detected per stream (C17 `Auto.scanAll`, C07 / C01 the GenBank reader)
  (1, "for", "v16.Scan()"),   -- PER RECORD, in input order:
  (2, "assign", "v17 := v16.Value()"),   -- the record
  (2, "assign", "v15 = append(v15, v17)"),   -- … in input order
  (1, "assign", "v18 := gts.Concat(v15...)"),   -- `gts.Concat` of ALL records in input order (C02 / C11 `Seq.concat`)
  (1, "if", "*v7"),   -- with `-c`:
  (2, "assign", "v18 = gts.WithTopology(v18, gts.Circular)"),   -- … the topology is set to circular (no check that it is "possible")
  (1, "assign", "v19 := seqio.NewWriter(v9, v11)"),   -- WRITER: NOT buffered — straight onto the delegate
  (1, "if", "_, v20 := v19.WriteSeq(v18); v20 != nil"),   -- ONE record is written, also for an empty input (`Concat()` = the empty sequence); a write error …
  (2, "return", "a0.Raise(v20)"),   -- … ends the command with that error (no `Commit`)
  (1, "if", "v21 := v16.Err(); v21 != nil"),   -- the scan error is looked at AFTER the joined record was written …
  (2, "return", "a0.Raise(fmt.Errorf(\"encountered error in scanner: %v\", v21))"),   -- … fails the command (exit 1, no `Commit`: the cache entry is removed)
  (1, "call", "v9.Commit()"),   -- frame: LAST statement in front of `return nil`: the run is committed (C14 `commit_only_sets_flag`, `commit_last`)
  (1, "return", "nil")   -- success
]

/-- cmd/gts/join.go: every function, method and function literal, in source order -/
def file_join : List (String × List Line) := [
  ("init", fn_join_init),
  ("joinFunc", fn_join_joinFunc)
]

/-- cmd/gts/join.go: its top-level declarations in source order -/
def decls_join : List String := ["init", "joinFunc"]

/-- cmd/gts/join.go: the types it declares (a struct field by field / another type as `= T`) -/
def types_join : List (String × List String) := []

/-- the library pipeline of `join` (what it is: Gts/Gen/CmdFacts.lean) -/
def pipeline_join : List (String × List String) := [
  ("seqio.Detect()", []),
  ("seqio.ToFileType()", ["if"]),
  (".TryCache()", ["if"]),
  ("gts.Sequence", []),
  ("seqio.NewAutoScanner()", []),
  (".Scan()", ["for:"]),
  (".Value()", ["for"]),
  ("gts.Concat()", []),
  ("gts.WithTopology()", ["if"]),
  ("gts.Circular", ["if"]),
  ("seqio.NewWriter()", []),
  (".WriteSeq()", ["if:"]),
  (".Err()", ["if:"]),
  (".Commit()", [])
]

/-- cmd/gts/length.go `init` -/
def fn_length_init : List Line := [
  (0, "func", "()"),   -- `init`
  (1, "call", "flags.Register(\"length\", \"report the length of the sequence(s)\", lengthFunc)")   -- which command name runs which function (`registered`)
]

/-- `gts length` — per record one decimal line `gts.Len(seq)`; no delegate, no cache -/
def fn_length_lengthFunc : List Line := [
  (0, "func", "(a0 *flags.Context) error"),   -- the command function
  (1, "assign", "v0, v1 := flags.Flags()"),   -- no digest: `length` is not cached
  (1, "var", "v2 *string"),   -- the input path: nil = stdin
  (1, "if", "cmd.IsTerminal(os.Stdin.Fd())"),   -- frame: … unless stdin is a terminal:
  (2, "assign", "v2 = v0.String(\"seqin\", \"input sequence file (may be omitted if standard input is provided)\")"),   -- frame: then a positional `seqin` is declared
  (1, "assign", "v3 := v1.String('o', \"output\", \"-\", \"output file (specifying `-` will force standard output)\")"),   -- `-o`
  (1, "if", "v4 := a0.Parse(v0, v1); v4 != nil"),   -- frame: the command line is parsed; a usage error …
  (2, "return", "v4"),   -- … is returned as it is
  (1, "assign", "v5 := os.Stdin"),   -- input: stdin …
  (1, "if", "v2 != nil && *v2 != \"-\""),   -- … unless a path other than `-` was given
  (2, "assign", "v6, v7 := os.Open(*v2)"),   -- opened directly (no I/O delegate, no cache)
  (2, "if", "v7 != nil"),   -- an error …
  (3, "return", "a0.Raise(fmt.Errorf(\"failed to open file %q: %v\", *v2, v7))"),   -- … or the command fails
  (2, "assign", "v5 = v6"),   -- the opened file is the input
  (2, "defer", "v5.Close()"),   -- closed at the end
  (1, "assign", "v8 := os.Stdout"),   -- output: stdout …
  (1, "if", "*v3 != \"-\""),   -- … unless `-o` names a file
  (2, "assign", "v9, v10 := os.Create(*v3)"),   -- created directly
  (2, "if", "v10 != nil"),   -- an error …
  (3, "return", "a0.Raise(fmt.Errorf(\"failed to create file %q: %v\", *v3, v10))"),   -- … or the command fails
  (2, "assign", "v8 = v9"),   -- the created file is the output
  (2, "defer", "v8.Close()"),   -- closed at the end
  (1, "assign", "v11 := bufio.NewWriter(v8)"),   -- WRITER: plain text, buffered
  (1, "assign", "v12 := seqio.NewAutoScanner(v5)"),   -- READER: the records of the input, format detected per stream
  (1, "for", "v12.Scan()"),   -- PER RECORD, in input order:
  (2, "assign", "v13 := v12.Value()"),   -- the record
  (2, "assign", "_, v14 := io.WriteString(v11, fmt.Sprintf(\"%d\\n\", gts.Len(v13)))"),   -- one line per record: `gts.Len` = the number of residues, decimal
  (2, "if", "v14 != nil"),   -- an error …
  (3, "return", "a0.Raise(v14)"),   -- … ends the command with that error (no `Commit`)
  (2, "if", "v15 := v11.Flush(); v15 != nil"),   -- flush (the bytes reach the tee); an error …
  (3, "return", "a0.Raise(v15)"),   -- … ends the command with that error (no `Commit`)
  (1, "if", "v16 := v12.Err(); v16 != nil"),   -- a scan error (a malformed record: C07) after the records in front of it were handled …
  (2, "return", "a0.Raise(fmt.Errorf(\"encountered error in scanner: %v\", v16))"),   -- … fails the command (exit 1, no `Commit`: the cache entry is removed)
  (1, "return", "nil")   -- success
]

/-- cmd/gts/length.go: every function, method and function literal, in source order -/
def file_length : List (String × List Line) := [
  ("init", fn_length_init),
  ("lengthFunc", fn_length_lengthFunc)
]

/-- cmd/gts/length.go: its top-level declarations in source order -/
def decls_length : List String := ["init", "lengthFunc"]

/-- cmd/gts/length.go: the types it declares (a struct field by field / another type as `= T`) -/
def types_length : List (String × List String) := []

/-- the library pipeline of `length` (what it is: Gts/Gen/CmdFacts.lean) -/
def pipeline_length : List (String × List String) := [
  ("seqio.NewAutoScanner()", []),
  (".Scan()", ["for:"]),
  (".Value()", ["for"]),
  ("gts.Len()", ["for"]),
  (".Flush()", ["for", "if:"]),
  (".Err()", ["if:"])
]

/-- cmd/gts/pick.go `init` -/
def fn_pick_init : List Line := [
  (0, "func", "()"),   -- `init`
  (1, "call", "flags.Register(\"pick\", \"pick sequence(s) from multiple sequences\", pickFunc)")   -- which command name runs which function (`registered`)
]

/-- cmd/gts/pick.go `pickAll` -/
def fn_pick_pickAll : List Line := [
  (0, "func", "(a0 ...picker) picker"),
  (1, "return", "func0")
]

/-- cmd/gts/pick.go `pickAll/func0` -/
def fn_pick_pickAll_func0 : List Line := [
  (0, "func", "(n0 int) bool"),   -- the predicate
  (1, "range", "_, v0 := range a0"),   -- over the given predicates, in order
  (2, "if", "!v0(n0)"),   -- `pickAll`: one that rejects …
  (3, "return", "false"),   -- … rejects
  (1, "return", "true")   -- … accepts
]

/-- cmd/gts/pick.go `pickAny` -/
def fn_pick_pickAny : List Line := [
  (0, "func", "(a0 ...picker) picker"),
  (1, "return", "func0")
]

/-- cmd/gts/pick.go `pickAny/func0` -/
def fn_pick_pickAny_func0 : List Line := [
  (0, "func", "(n0 int) bool"),   -- the predicate
  (1, "range", "_, v0 := range a0"),   -- over the given predicates, in order
  (2, "if", "v0(n0)"),   -- `pickAny`: one that accepts …
  (3, "return", "true"),   -- … accepts
  (1, "return", "false")   -- … rejects
]

/-- cmd/gts/pick.go `pickAfter` -/
def fn_pick_pickAfter : List Line := [
  (0, "func", "(n0 int) picker"),
  (1, "return", "func0")
]

/-- cmd/gts/pick.go `pickAfter/func0` -/
def fn_pick_pickAfter_func0 : List Line := [
  (0, "func", "(n1 int) bool"),
  (1, "return", "n0 <= n1")   -- `m-`: from m on (inclusive)
]

/-- cmd/gts/pick.go `pickBefore` -/
def fn_pick_pickBefore : List Line := [
  (0, "func", "(n0 int) picker"),
  (1, "return", "func0")
]

/-- cmd/gts/pick.go `pickBefore/func0` -/
def fn_pick_pickBefore_func0 : List Line := [
  (0, "func", "(n1 int) bool"),
  (1, "return", "n1 <= n0")   -- `-n`: up to n (inclusive)
]

/-- cmd/gts/pick.go `pickBetween` -/
def fn_pick_pickBetween : List Line := [
  (0, "func", "(n0 int, n1 int) picker"),
  (1, "return", "pickAll(pickAfter(n0), pickBefore(n1))")   -- `m-n`: both ends inclusive
]

/-- cmd/gts/pick.go `pickOne` -/
def fn_pick_pickOne : List Line := [
  (0, "func", "(n0 int) picker"),
  (1, "return", "func0")
]

/-- cmd/gts/pick.go `pickOne/func0` -/
def fn_pick_pickOne_func0 : List Line := [
  (0, "func", "(n1 int) bool"),
  (1, "return", "n0 == n1")   -- `n`: that index alone
]

/-- cmd/gts/pick.go `mustAtoi` -/
def fn_pick_mustAtoi : List Line := [
  (0, "func", "(s0 string) int"),   -- `mustAtoi`
  (1, "assign", "v0, v1 := strconv.Atoi(s0)"),   -- a decimal integer …
  (1, "if", "v1 != nil"),   -- an error …
  (2, "call", "panic(v1)"),   -- … or the command PANICS (exit 2)
  (1, "return", "v0")
]

/-- cmd/gts/pick.go `asPicker` -/
def fn_pick_asPicker : List Line := [
  (0, "func", "(s0 string) picker"),   -- `asPicker`: the `cut`-style list
  (1, "assign", "v0 := strings.Split(s0, \",\")"),   -- blocks separated by commas
  (1, "assign", "v1 := make([]picker, len(v0))"),   -- one predicate per block
  (1, "range", "v2, v3 := range v0"),   -- … copied …
  (2, "assign", "v4 := strings.IndexByte(v3, '-')"),   -- the FIRST dash of the block decides its form:
  (2, "switch", "v4"),
  (3, "case", "-1"),   -- no dash: one index
  (4, "assign", "v5 := mustAtoi(v3)"),
  (4, "assign", "v1[v2] = pickOne(v5)"),
  (3, "case", "0"),   -- a leading dash: `-n`
  (4, "assign", "v6 := mustAtoi(v3[v4 + 1:])"),
  (4, "assign", "v1[v2] = pickBefore(v6)"),
  (3, "case", "len(v3) - 1"),   -- a trailing dash: `m-`
  (4, "assign", "v7 := mustAtoi(v3[:v4])"),
  (4, "assign", "v1[v2] = pickAfter(v7)"),
  (3, "default", ""),   -- a dash inside: `m-n`
  (4, "assign", "v8 := mustAtoi(v3[v4 + 1:])"),
  (4, "assign", "v9 := mustAtoi(v3[:v4])"),
  (4, "assign", "v1[v2] = pickBetween(v9, v8)"),
  (1, "return", "pickAny(v1...)")   -- a number is picked when SOME block accepts it
]

/-- `gts pick <list> [-f]` — records numbered from 1, a record is written when its number is in the list -/
def fn_pick_pickFunc : List Line := [
  (0, "func", "(a0 *flags.Context) error"),   -- the command function
  (1, "assign", "v0 := newHash()"),   -- frame: the digest `TryCache` hashes the input and the payload with (C14)
  (1, "assign", "v1, v2 := flags.Flags()"),   -- frame: the positional / optional argument sets (option table: Spec/CliTable.lean)
  (1, "assign", "v3 := v1.String(\"list\", \"list of sequences to pick (identical to the list option in cut)\")"),   -- positional: the list, `cut -f` syntax
  (1, "assign", "v4 := new(string)"),   -- frame: the primary input path …
  (1, "assign", "*v4 = \"-\""),   -- frame: … is `-` (stdin) …
  (1, "if", "cmd.IsTerminal(os.Stdin.Fd())"),   -- frame: … unless stdin is a terminal:
  (2, "assign", "v4 = v1.String(\"seqin\", \"input sequence file (may be omitted if standard input is provided)\")"),   -- frame: then a positional `seqin` is declared
  (1, "assign", "v5 := v2.Switch(0, \"no-cache\", \"do not use or create cache\")"),   -- frame: `--no-cache` (C14 `Run.nocache`)
  (1, "assign", "v6 := v2.String('o', \"output\", \"-\", \"output sequence file (specifying `-` will force standard output)\")"),   -- frame: `-o` (C14 `Run.toFile`; C17 `cli_writers`: the file type is detected from it)
  (1, "assign", "v7 := v2.String('F', \"format\", \"\", \"output file format (defaults to same as input)\")"),   -- frame: `-F` (C17 `cli_writers`: overrides the detected file type)
  (1, "assign", "v8 := v2.Switch('f', \"feature\", \"pick features instead of sequences\")"),   -- `-f`
  (1, "if", "v9 := a0.Parse(v1, v2); v9 != nil"),   -- frame: the command line is parsed; a usage error …
  (2, "return", "v9"),   -- … is returned as it is
  (1, "assign", "v10 := asPicker(*v3)"),   -- the list as a predicate on indices (a malformed number PANICS: `mustAtoi`)
  (1, "assign", "v11, v12 := newIODelegate(*v4, *v6)"),   -- frame: the I/O delegate over (input path, output path) (C14 `CacheProto.step`: `newIODelegate`)
  (1, "if", "v12 != nil"),   -- an error …
  (2, "return", "a0.Raise(v12)"),   -- … ends the command with that error (no `Commit`)
  (1, "defer", "v11.Close()"),   -- frame: `defer d.Close()` — finalises the cache entry, removes it unless committed (C14 `close_removes_unless_committed`)
  (1, "assign", "v13 := seqio.Detect(*v6)"),   -- frame: output file type from the `-o` path (C17 `cli_writers`)
  (1, "if", "*v7 != \"\""),   -- frame: `-F` given:
  (2, "assign", "v13 = seqio.ToFileType(*v7)"),   -- frame: … the file type is the named format (C17 `cli_writers`)
  (1, "if", "!*v5"),   -- frame: unless `--no-cache`:
  (2, "assign", "v14 := encodePayload([]tuple{{\"command\", strings.Join(a0.Name, \"-\")}, {\"version\", gts.Version.String()}, {\"list\", *v3}, {\"feature\", *v8}, {\"filetype\", v13}})"),   -- the cache key: command name, version and EVERY option that changes the output (C14 `payload_complete`, Spec/CliTable.lean)
  (2, "assign", "v15, v16 := v11.TryCache(v0, v14)"),   -- frame: C14 `CacheProto.step`: hit → the entry is copied to the output; miss → the tee is armed
  (2, "if", "v15 || v16 != nil"),   -- frame: a hit (or an I/O error) …
  (3, "return", "a0.Raise(v16)"),   -- … ends the command: `Raise(nil)` is nil for a hit (the entry was replayed), the error otherwise
  (1, "assign", "v17 := seqio.NewAutoScanner(v11)"),   -- READER: the records of the primary input, format detected per stream (C17 `Auto.scanAll`, C07 / C01 the GenBank reader)
  (1, "assign", "v18 := bufio.NewWriter(v11)"),   -- WRITER: buffered, onto the delegate (tee: output and cache entry)
  (1, "assign", "v19 := seqio.NewWriter(v18, v13)"),   -- WRITER: `seqio.NewWriter(buffer, filetype)` (C17 `cli_writers`; C01 `GenBank.write`, C17 `Fasta` writer)
  (1, "assign", "v20 := 0"),   -- the record counter — state carried from record to record
  (1, "for", "v17.Scan()"),   -- PER RECORD, in input order:
  (2, "assign", "v21 := v17.Value()"),   -- the record
  (2, "assign", "v20++"),   -- incremented FIRST: records are numbered from 1
  (2, "if", "v10(v20) || *v8"),   -- a record is written when its number is picked — or ALWAYS with `-f`
  (3, "if", "*v8"),   -- with `-f`:
  (4, "assign", "v22 := v21.Features()"),   -- the feature table of the record
  (4, "assign", "v23 := make([]int, 0, len(v22))"),   -- the indices of the picked features …
  (4, "range", "v24 := range v22"),   -- … features are numbered from 0 (records from 1)
  (5, "if", "v10(v24)"),   -- … picked
  (6, "assign", "v23 = append(v23, v24)"),   -- … in input order
  (4, "assign", "v25 := make([]gts.Feature, len(v23))"),   -- the picked features …
  (4, "range", "v26, v27 := range v23"),   -- … copied …
  (5, "assign", "v25[v26] = v22[v27]"),   -- … into `gg`
  (4, "assign", "v21 = gts.WithFeatures(v21, v22)"),   -- the record with the new table: header and residues kept (`{ s with feats := ff }`)
  (3, "if", "_, v28 := v19.WriteSeq(v21); v28 != nil"),   -- WRITE the record; a write error …
  (4, "return", "a0.Raise(v28)"),   -- … ends the command with that error (no `Commit`)
  (3, "if", "v29 := v18.Flush(); v29 != nil"),   -- flush (the bytes reach the tee); an error …
  (4, "return", "a0.Raise(v29)"),   -- … ends the command with that error (no `Commit`)
  (1, "if", "v30 := v17.Err(); v30 != nil"),   -- a scan error (a malformed record: C07) after the records in front of it were handled …
  (2, "return", "a0.Raise(fmt.Errorf(\"encountered error in scanner: %v\", v30))"),   -- … fails the command (exit 1, no `Commit`: the cache entry is removed)
  (1, "call", "v11.Commit()"),   -- frame: LAST statement in front of `return nil`: the run is committed (C14 `commit_only_sets_flag`, `commit_last`)
  (1, "return", "nil")   -- success
]

/-- cmd/gts/pick.go: every function, method and function literal, in source order -/
def file_pick : List (String × List Line) := [
  ("init", fn_pick_init),
  ("pickAll", fn_pick_pickAll),
  ("pickAll/func0", fn_pick_pickAll_func0),
  ("pickAny", fn_pick_pickAny),
  ("pickAny/func0", fn_pick_pickAny_func0),
  ("pickAfter", fn_pick_pickAfter),
  ("pickAfter/func0", fn_pick_pickAfter_func0),
  ("pickBefore", fn_pick_pickBefore),
  ("pickBefore/func0", fn_pick_pickBefore_func0),
  ("pickBetween", fn_pick_pickBetween),
  ("pickOne", fn_pick_pickOne),
  ("pickOne/func0", fn_pick_pickOne_func0),
  ("mustAtoi", fn_pick_mustAtoi),
  ("asPicker", fn_pick_asPicker),
  ("pickFunc", fn_pick_pickFunc)
]

/-- cmd/gts/pick.go: its top-level declarations in source order -/
def decls_pick : List String := ["init", "type picker", "pickAll", "pickAny", "pickAfter", "pickBefore", "pickBetween", "pickOne", "mustAtoi", "asPicker", "pickFunc"]

/-- cmd/gts/pick.go: the types it declares (a struct field by field / another type as `= T`) -/
def types_pick : List (String × List String) := [
  ("picker", ["= func(int) bool"])
]

/-- the library pipeline of `pick` (what it is: Gts/Gen/CmdFacts.lean) -/
def pipeline_pick : List (String × List String) := [
  ("seqio.Detect()", []),
  ("seqio.ToFileType()", ["if"]),
  (".TryCache()", ["if"]),
  ("seqio.NewAutoScanner()", []),
  ("seqio.NewWriter()", []),
  (".Scan()", ["for:"]),
  (".Value()", ["for"]),
  (".Features()", ["for", "if", "if"]),
  ("gts.Feature", ["for", "if", "if"]),
  ("gts.WithFeatures()", ["for", "if", "if"]),
  (".WriteSeq()", ["for", "if", "if:"]),
  (".Flush()", ["for", "if", "if:"]),
  (".Err()", ["if:"]),
  (".Commit()", [])
]

/-- cmd/gts/query.go `init` -/
def fn_query_init : List Line := [
  (0, "func", "()"),   -- `init`
  (1, "call", "flags.Register(\"query\", \"query information from the given sequence\", queryFunc)")   -- which command name runs which function (`registered`)
]

/-- cmd/gts/query.go `formatCSV` -/
def fn_query_formatCSV : List Line := [
  (0, "func", "(ss0 []string, a0 rune) (string, error)"),   -- `formatCSV`: the values of one qualifier as ONE csv record …
  (1, "assign", "v0 := strings.Builder{}"),
  (1, "assign", "v1 := csv.NewWriter(&v0)"),   -- … written by encoding/csv …
  (1, "assign", "v1.Comma = a0"),   -- … with the `-t` separator …
  (1, "if", "v2 := v1.Write(ss0); v2 != nil"),
  (2, "return", "\"\", v2"),
  (1, "call", "v1.Flush()"),
  (1, "if", "v3 := v1.Error(); v3 != nil"),
  (2, "return", "\"\", v3"),
  (1, "assign", "v4 := strings.TrimSpace(v0.String())"),   -- … without the record terminator …
  (1, "assign", "v4 = strings.ReplaceAll(v4, \"\\n\", \" \")"),   -- … line feeds inside a value become blanks
  (1, "return", "v4, nil")
]

/-- `gts query` — a table (one line per feature) of identifier / key / location / qualifier columns -/
def fn_query_queryFunc : List Line := [
  (0, "func", "(a0 *flags.Context) error"),   -- the command function
  (1, "assign", "v0 := newHash()"),   -- frame: the digest `TryCache` hashes the input and the payload with (C14)
  (1, "assign", "v1, v2 := flags.Flags()"),   -- frame: the positional / optional argument sets (option table: Spec/CliTable.lean)
  (1, "assign", "v3 := new(string)"),   -- frame: the primary input path …
  (1, "assign", "*v3 = \"-\""),   -- frame: … is `-` (stdin) …
  (1, "if", "cmd.IsTerminal(os.Stdin.Fd())"),   -- frame: … unless stdin is a terminal:
  (2, "assign", "v3 = v1.String(\"seqin\", \"input sequence file (may be omitted if standard input is provided)\")"),   -- frame: then a positional `seqin` is declared
  (1, "assign", "v4 := v2.Switch(0, \"no-cache\", \"do not use or create cache\")"),   -- frame: `--no-cache` (C14 `Run.nocache`)
  (1, "assign", "v5 := v2.String('o', \"output\", \"-\", \"output table file (specifying `-` will force standard output)\")"),   -- `-o`: the table file
  (1, "assign", "v6 := v2.StringSlice('n', \"name\", nil, \"qualifier name(s) to select\")"),   -- `-n` (repeatable): the qualifier columns
  (1, "assign", "v7 := v2.String('d', \"delimiter\", \"\\t\", \"string to insert between columns\")"),   -- `-d`: the column delimiter
  (1, "assign", "v8 := v2.String('t', \"separator\", \",\", \"string to insert between qualifier values\")"),   -- `-t`: the separator between the values of one qualifier
  (1, "assign", "v9 := v2.Switch('H', \"no-header\", \"do not print the header line\")"),   -- `-H`
  (1, "assign", "v10 := v2.Switch(0, \"source\", \"include the source feature(s)\")"),   -- `--source`
  (1, "assign", "v11 := v2.Switch('I', \"no-seqid\", \"do not report the sequence identifier\")"),   -- `-I`
  (1, "assign", "v12 := v2.Switch('K', \"no-key\", \"do not report the feature key\")"),   -- `-K`
  (1, "assign", "v13 := v2.Switch('L', \"no-location\", \"do not report the feature location\")"),   -- `-L`
  (1, "assign", "v14 := v2.Switch(0, \"empty\", \"allow missing qualifiers to be reported\")"),   -- `--empty`
  (1, "if", "v15 := a0.Parse(v1, v2); v15 != nil"),   -- frame: the command line is parsed; a usage error …
  (2, "return", "v15"),   -- … is returned as it is
  (1, "assign", "v16, v17 := newIODelegate(*v3, *v5)"),   -- frame: the I/O delegate over (input path, output path) (C14 `CacheProto.step`: `newIODelegate`)
  (1, "if", "v17 != nil"),   -- an error …
  (2, "return", "a0.Raise(v17)"),   -- … ends the command with that error (no `Commit`)
  (1, "defer", "v16.Close()"),   -- frame: `defer d.Close()` — finalises the cache entry, removes it unless committed (C14 `close_removes_unless_committed`)
  (1, "assign", "v18 := []rune(*v8)"),   -- the `-t` argument as runes …
  (1, "if", "len(v18) > 1"),   -- … more than one …
  (2, "return", "a0.Raise(fmt.Errorf(\"separator must be a single character: got %q\", *v8))"),   -- … fails the command (AFTER the delegate was made)
  (1, "assign", "v19 := v18[0]"),   -- … the one rune (an EMPTY `-t` argument panics here)
  (1, "if", "!*v4"),   -- frame: unless `--no-cache`:
  (2, "assign", "v20 := encodePayload([]tuple{{\"command\", strings.Join(a0.Name, \"-\")}, {\"version\", gts.Version.String()}, {\"names\", *v6}, {\"delim\", *v7}, {\"comma\", v19}, {\"noheader\", *v9}, {\"source\", *v10}, {\"noseqid\", *v11}, {\"nokey\", *v12}, {\"noloc\", *v13}, {\"empty\", *v14}})"),   -- the cache key: command name, version and EVERY option that changes the output (C14 `payload_complete`, Spec/CliTable.lean)
  (2, "assign", "v21, v22 := v16.TryCache(v0, v20)"),   -- frame: C14 `CacheProto.step`: hit → the entry is copied to the output; miss → the tee is armed
  (2, "if", "v21 || v22 != nil"),   -- frame: a hit (or an I/O error) …
  (3, "return", "a0.Raise(v22)"),   -- … ends the command: `Raise(nil)` is nil for a hit (the entry was replayed), the error otherwise
  (1, "var", "v23 []string = nil"),   -- `common`: the qualifier names EVERY listed feature has — nil = not started
  (1, "assign", "v24 := make([]string, 0)"),   -- the record identifiers
  (1, "assign", "v25 := [][]gts.Feature{}"),   -- the tables of all records: the report is written after the last record was read
  (1, "assign", "v26 := bufio.NewWriter(v16)"),   -- WRITER: plain text, buffered, onto the delegate
  (1, "assign", "v27 := seqio.NewAutoScanner(v16)"),   -- READER: the records of the primary input, format detected per stream (C17 `Auto.scanAll`, C07 / C01 the GenBank reader)
  (1, "for", "v27.Scan()"),   -- PER RECORD, in input order:
  (2, "assign", "v28 := v27.Value()"),   -- the record
  (2, "typeswitch", "v29 := v28.Info().(type)"),   -- the identifier of the record:
  (3, "case", "interface{ ID() string }"),   -- a header with an `ID()` (GenBank: `GenBankFields.ID`, C17 `genbankID`)
  (4, "assign", "v24 = append(v24, v29.ID())"),
  (3, "default", ""),
  (4, "assign", "v24 = append(v24, \"\")"),   -- otherwise empty: numbered below
  (2, "assign", "v30 := v28.Features()"),   -- the feature table of the record
  (2, "range", "_, v31 := range v30"),   -- per feature, in table order:
  (3, "if", "!*v10 && v31.Key == \"source\""),   -- source features are skipped unless `--source`
  (4, "branch", "continue"),
  (3, "if", "v23 == nil"),   -- the first listed feature starts `common` …
  (4, "assign", "v23 = append(v23, v31.Props.Keys()...)"),   -- … with its qualifier names …
  (4, "call", "sort.Strings(v23)"),   -- … sorted
  (3, "assign", "v32 := make([]int, 0, len(v23))"),   -- then `common` is intersected with the names of this feature:
  (3, "for", "v33 := 0; v33 < len(v23); v33++"),
  (4, "if", "v31.Props.Has(v23[v33])"),
  (5, "assign", "v32 = append(v32, v33)"),   -- … in input order
  (3, "assign", "v34 := make([]string, len(v32))"),
  (3, "range", "v35, v36 := range v32"),
  (4, "assign", "v34[v35] = v23[v36]"),
  (3, "assign", "v23 = v34"),
  (2, "assign", "v25 = append(v25, v30)"),   -- … in input order
  (1, "if", "len(*v6) > 0"),   -- with `-n` the columns are the given names instead
  (2, "assign", "v23 = *v6"),
  (1, "if", "!*v9"),   -- the header line unless `-H`:
  (2, "assign", "v37 := []string{}"),
  (2, "if", "!*v11"),   -- frame: unless `--no-cache`:
  (3, "assign", "v37 = append(v37, \"seqid\")"),   -- unless `-I`
  (2, "if", "!*v12"),   -- frame: unless `--no-cache`:
  (3, "assign", "v37 = append(v37, \"feature\")"),   -- unless `-K`
  (2, "if", "!*v13"),   -- frame: unless `--no-cache`:
  (3, "assign", "v37 = append(v37, \"location\")"),   -- unless `-L`
  (2, "assign", "v37 = append(v37, v23...)"),   -- then the qualifier columns
  (2, "assign", "v38 := fmt.Sprintf(\"%s\\n\", strings.Join(v37, *v7))"),
  (2, "assign", "_, v39 := io.WriteString(v26, v38)"),
  (2, "if", "v39 != nil"),   -- an error …
  (3, "return", "a0.Raise(v39)"),   -- … ends the command with that error (no `Commit`)
  (1, "assign", "v40 := len(fmt.Sprintf(\"%d\", len(v25)))"),   -- the width of the record numbers
  (1, "assign", "v41 := fmt.Sprintf(\"%%0%dd\", v40)"),
  (1, "range", "v42, v43 := range v25"),   -- second pass, per record:
  (2, "assign", "v44 := v24[v42]"),
  (2, "if", "v44 == \"\""),   -- a record without identifier gets its zero-padded index (from 0)
  (3, "assign", "v44 = fmt.Sprintf(v41, v42)"),
  (2, "range", "_, v45 := range v43"),   -- per feature, in table order:
  (3, "assign", "v46 := []string{}"),
  (3, "if", "!*v11"),   -- frame: unless `--no-cache`:
  (4, "assign", "v46 = append(v46, v44)"),   -- … in input order
  (3, "if", "!*v12"),   -- frame: unless `--no-cache`:
  (4, "assign", "v46 = append(v46, v45.Key)"),
  (3, "if", "!*v13"),   -- frame: unless `--no-cache`:
  (4, "assign", "v46 = append(v46, v45.Loc.String())"),   -- the location text (C06 `Loc.toText`)
  (3, "assign", "v47 := (*v10 || v45.Key != \"source\")"),   -- the line is written unless it is a source feature without `--source` …
  (3, "range", "_, v48 := range v23"),
  (4, "assign", "v49 := v45.Props.Get(v48)"),   -- the values of the FIRST row of that name
  (4, "if", "len(v49) == 0 && !*v14"),   -- … or a column has no value and `--empty` is not given
  (5, "assign", "v47 = false"),
  (4, "assign", "v50, v51 := formatCSV(v49, v19)"),
  (4, "if", "v51 != nil"),   -- an error …
  (5, "return", "a0.Raise(v51)"),   -- … ends the command with that error (no `Commit`)
  (4, "assign", "v46 = append(v46, v50)"),   -- … in input order
  (3, "if", "v47"),
  (4, "assign", "v52 := fmt.Sprintf(\"%s\\n\", strings.Join(v46, *v7))"),
  (4, "assign", "_, v53 := io.WriteString(v26, v52)"),
  (4, "if", "v53 != nil"),   -- an error …
  (5, "return", "a0.Raise(v53)"),   -- … ends the command with that error (no `Commit`)
  (2, "if", "v54 := v26.Flush(); v54 != nil"),   -- flush per record; an error …
  (3, "return", "a0.Raise(v54)"),   -- … ends the command with that error (no `Commit`)
  (1, "if", "v55 := v27.Err(); v55 != nil"),   -- a scan error (a malformed record: C07) after the records in front of it were handled …
  (2, "return", "a0.Raise(fmt.Errorf(\"encountered error in scanner: %v\", v55))"),   -- … fails the command (exit 1, no `Commit`: the cache entry is removed)
  (1, "call", "v16.Commit()"),   -- frame: LAST statement in front of `return nil`: the run is committed (C14 `commit_only_sets_flag`, `commit_last`)
  (1, "return", "nil")   -- success
]

/-- cmd/gts/query.go: every function, method and function literal, in source order -/
def file_query : List (String × List Line) := [
  ("init", fn_query_init),
  ("formatCSV", fn_query_formatCSV),
  ("queryFunc", fn_query_queryFunc)
]

/-- cmd/gts/query.go: its top-level declarations in source order -/
def decls_query : List String := ["init", "formatCSV", "queryFunc"]

/-- cmd/gts/query.go: the types it declares (a struct field by field / another type as `= T`) -/
def types_query : List (String × List String) := []

/-- the library pipeline of `query` (what it is: Gts/Gen/CmdFacts.lean) -/
def pipeline_query : List (String × List String) := [
  (".TryCache()", ["if"]),
  ("gts.Feature", []),
  ("seqio.NewAutoScanner()", []),
  (".Scan()", ["for:"]),
  (".Value()", ["for"]),
  (".Info()", ["for", "typeswitch:"]),
  (".Features()", ["for"]),
  (".Flush()", ["range", "if:"]),
  (".Err()", ["if:"]),
  (".Commit()", [])
]

/-- cmd/gts/repair.go `init` -/
def fn_repair_init : List Line := [
  (0, "func", "()"),   -- `init`
  (1, "call", "flags.Register(\"repair\", \"repair fragmented features\", repairFunc)")   -- which command name runs which function (`registered`)
]

/-- `gts repair` — per record: `gts.Repair` on the table and nothing else: C12 `Gts.repair`
(regenerated as a function: Gts/Gen/CmdRepair.lean `repairStep`) -/
def fn_repair_repairFunc : List Line := [
  (0, "func", "(a0 *flags.Context) error"),   -- the command function
  (1, "assign", "v0 := newHash()"),   -- frame: the digest `TryCache` hashes the input and the payload with (C14)
  (1, "assign", "v1, v2 := flags.Flags()"),   -- frame: the positional / optional argument sets (option table: Spec/CliTable.lean)
  (1, "assign", "v3 := new(string)"),   -- frame: the primary input path …
  (1, "assign", "*v3 = \"-\""),   -- frame: … is `-` (stdin) …
  (1, "if", "cmd.IsTerminal(os.Stdin.Fd())"),   -- frame: … unless stdin is a terminal:
  (2, "assign", "v3 = v1.String(\"seqin\", \"input sequence file (may be omitted if standard input is provided)\")"),   -- frame: then a positional `seqin` is declared
  (1, "assign", "v4 := v2.Switch(0, \"no-cache\", \"do not use or create cache\")"),   -- frame: `--no-cache` (C14 `Run.nocache`)
  (1, "assign", "v5 := v2.String('o', \"output\", \"-\", \"output sequence file (specifying `-` will force standard output)\")"),   -- frame: `-o` (C14 `Run.toFile`; C17 `cli_writers`: the file type is detected from it)
  (1, "assign", "v6 := v2.String('F', \"format\", \"\", \"output file format (defaults to same as input)\")"),   -- frame: `-F` (C17 `cli_writers`: overrides the detected file type)
  (1, "if", "v7 := a0.Parse(v1, v2); v7 != nil"),   -- frame: the command line is parsed; a usage error …
  (2, "return", "v7"),   -- … is returned as it is
  (1, "assign", "v8, v9 := newIODelegate(*v3, *v5)"),   -- frame: the I/O delegate over (input path, output path) (C14 `CacheProto.step`: `newIODelegate`)
  (1, "if", "v9 != nil"),   -- an error …
  (2, "return", "a0.Raise(v9)"),   -- … ends the command with that error (no `Commit`)
  (1, "defer", "v8.Close()"),   -- frame: `defer d.Close()` — finalises the cache entry, removes it unless committed (C14 `close_removes_unless_committed`)
  (1, "assign", "v10 := seqio.Detect(*v5)"),   -- frame: output file type from the `-o` path (C17 `cli_writers`)
  (1, "if", "*v6 != \"\""),   -- frame: `-F` given:
  (2, "assign", "v10 = seqio.ToFileType(*v6)"),   -- frame: … the file type is the named format (C17 `cli_writers`)
  (1, "if", "!*v4"),   -- frame: unless `--no-cache`:
  (2, "assign", "v11 := encodePayload([]tuple{{\"command\", strings.Join(a0.Name, \"-\")}, {\"version\", gts.Version.String()}, {\"filetype\", v10}})"),   -- the cache key: command name, version and EVERY option that changes the output (C14 `payload_complete`, Spec/CliTable.lean)
  (2, "assign", "v12, v13 := v8.TryCache(v0, v11)"),   -- frame: C14 `CacheProto.step`: hit → the entry is copied to the output; miss → the tee is armed
  (2, "if", "v12 || v13 != nil"),   -- frame: a hit (or an I/O error) …
  (3, "return", "a0.Raise(v13)"),   -- … ends the command: `Raise(nil)` is nil for a hit (the entry was replayed), the error otherwise
  (1, "assign", "v14 := seqio.NewAutoScanner(v8)"),   -- READER: the records of the primary input, format detected per stream (C17 `Auto.scanAll`, C07 / C01 the GenBank reader)
  (1, "assign", "v15 := bufio.NewWriter(v8)"),   -- WRITER: buffered, onto the delegate (tee: output and cache entry)
  (1, "assign", "v16 := seqio.NewWriter(v15, v10)"),   -- WRITER: `seqio.NewWriter(buffer, filetype)` (C17 `cli_writers`; C01 `GenBank.write`, C17 `Fasta` writer)
  (1, "for", "v14.Scan()"),   -- PER RECORD, in input order:
  (2, "assign", "v17 := v14.Value()"),   -- the record
  (2, "assign", "v18 := v17.Features()"),   -- the feature table of the record
  (2, "assign", "v18 = gts.Repair(v18)"),   -- `gts.Repair` on the whole table (C12 `Gts.repair`): features of one key and one set of qualifiers whose locations push together are merged
  (2, "assign", "v17 = gts.WithFeatures(v17, v18)"),   -- the record with the new table: header and residues kept (`{ s with feats := ff }`)
  (2, "if", "_, v19 := v16.WriteSeq(v17); v19 != nil"),   -- WRITE the record; a write error …
  (3, "return", "a0.Raise(v19)"),   -- … ends the command with that error (no `Commit`)
  (2, "if", "v20 := v15.Flush(); v20 != nil"),   -- flush (the bytes reach the tee); an error …
  (3, "return", "a0.Raise(v20)"),   -- … ends the command with that error (no `Commit`)
  (1, "if", "v21 := v14.Err(); v21 != nil"),   -- a scan error (a malformed record: C07) after the records in front of it were handled …
  (2, "return", "a0.Raise(fmt.Errorf(\"encountered error in scanner: %v\", v21))"),   -- … fails the command (exit 1, no `Commit`: the cache entry is removed)
  (1, "call", "v8.Commit()"),   -- frame: LAST statement in front of `return nil`: the run is committed (C14 `commit_only_sets_flag`, `commit_last`)
  (1, "return", "nil")   -- success
]

/-- cmd/gts/repair.go: every function, method and function literal, in source order -/
def file_repair : List (String × List Line) := [
  ("init", fn_repair_init),
  ("repairFunc", fn_repair_repairFunc)
]

/-- cmd/gts/repair.go: its top-level declarations in source order -/
def decls_repair : List String := ["init", "repairFunc"]

/-- cmd/gts/repair.go: the types it declares (a struct field by field / another type as `= T`) -/
def types_repair : List (String × List String) := []

/-- the library pipeline of `repair` (what it is: Gts/Gen/CmdFacts.lean) -/
def pipeline_repair : List (String × List String) := [
  ("seqio.Detect()", []),
  ("seqio.ToFileType()", ["if"]),
  (".TryCache()", ["if"]),
  ("seqio.NewAutoScanner()", []),
  ("seqio.NewWriter()", []),
  (".Scan()", ["for:"]),
  (".Value()", ["for"]),
  (".Features()", ["for"]),
  ("gts.Repair()", ["for"]),
  ("gts.WithFeatures()", ["for"]),
  (".WriteSeq()", ["for", "if:"]),
  (".Flush()", ["for", "if:"]),
  (".Err()", ["if:"]),
  (".Commit()", [])
]

/-- cmd/gts/reverse.go `init` -/
def fn_reverse_init : List Line := [
  (0, "func", "()"),   -- `init`
  (1, "call", "flags.Register(\"reverse\", \"reverse order of the given sequence(s)\", reverseFunc)")   -- which command name runs which function (`registered`)
]

/-- `gts reverse` — per record: `gts.Reverse` and NOTHING else (no `Complement`): C05 `Seq.reverse`
(regenerated as a function: Gts/Gen/CmdReverse.lean `reverseStep`) -/
def fn_reverse_reverseFunc : List Line := [
  (0, "func", "(a0 *flags.Context) error"),   -- the command function
  (1, "assign", "v0 := newHash()"),   -- frame: the digest `TryCache` hashes the input and the payload with (C14)
  (1, "assign", "v1, v2 := flags.Flags()"),   -- frame: the positional / optional argument sets (option table: Spec/CliTable.lean)
  (1, "assign", "v3 := new(string)"),   -- frame: the primary input path …
  (1, "assign", "*v3 = \"-\""),   -- frame: … is `-` (stdin) …
  (1, "if", "cmd.IsTerminal(os.Stdin.Fd())"),   -- frame: … unless stdin is a terminal:
  (2, "assign", "v3 = v1.String(\"seqin\", \"input sequence file (may be omitted if standard input is provided)\")"),   -- frame: then a positional `seqin` is declared
  (1, "assign", "v4 := v2.Switch(0, \"no-cache\", \"do not use or create cache\")"),   -- frame: `--no-cache` (C14 `Run.nocache`)
  (1, "assign", "v5 := v2.String('o', \"output\", \"-\", \"output sequence file (specifying `-` will force standard output)\")"),   -- frame: `-o` (C14 `Run.toFile`; C17 `cli_writers`: the file type is detected from it)
  (1, "assign", "v6 := v2.String('F', \"format\", \"\", \"output file format (defaults to same as input)\")"),   -- frame: `-F` (C17 `cli_writers`: overrides the detected file type)
  (1, "if", "v7 := a0.Parse(v1, v2); v7 != nil"),   -- frame: the command line is parsed; a usage error …
  (2, "return", "v7"),   -- … is returned as it is
  (1, "assign", "v8, v9 := newIODelegate(*v3, *v5)"),   -- frame: the I/O delegate over (input path, output path) (C14 `CacheProto.step`: `newIODelegate`)
  (1, "if", "v9 != nil"),   -- an error …
  (2, "return", "a0.Raise(v9)"),   -- … ends the command with that error (no `Commit`)
  (1, "defer", "v8.Close()"),   -- frame: `defer d.Close()` — finalises the cache entry, removes it unless committed (C14 `close_removes_unless_committed`)
  (1, "assign", "v10 := seqio.Detect(*v5)"),   -- frame: output file type from the `-o` path (C17 `cli_writers`)
  (1, "if", "*v6 != \"\""),   -- frame: `-F` given:
  (2, "assign", "v10 = seqio.ToFileType(*v6)"),   -- frame: … the file type is the named format (C17 `cli_writers`)
  (1, "if", "!*v4"),   -- frame: unless `--no-cache`:
  (2, "assign", "v11 := encodePayload([]tuple{{\"command\", strings.Join(a0.Name, \"-\")}, {\"version\", gts.Version.String()}, {\"filetype\", v10}})"),   -- the cache key: command name, version and EVERY option that changes the output (C14 `payload_complete`, Spec/CliTable.lean)
  (2, "assign", "v12, v13 := v8.TryCache(v0, v11)"),   -- frame: C14 `CacheProto.step`: hit → the entry is copied to the output; miss → the tee is armed
  (2, "if", "v12 || v13 != nil"),   -- frame: a hit (or an I/O error) …
  (3, "return", "a0.Raise(v13)"),   -- … ends the command: `Raise(nil)` is nil for a hit (the entry was replayed), the error otherwise
  (1, "assign", "v14 := seqio.NewAutoScanner(v8)"),   -- READER: the records of the primary input, format detected per stream (C17 `Auto.scanAll`, C07 / C01 the GenBank reader)
  (1, "assign", "v15 := bufio.NewWriter(v8)"),   -- WRITER: buffered, onto the delegate (tee: output and cache entry)
  (1, "assign", "v16 := seqio.NewWriter(v15, v10)"),   -- WRITER: `seqio.NewWriter(buffer, filetype)` (C17 `cli_writers`; C01 `GenBank.write`, C17 `Fasta` writer)
  (1, "for", "v14.Scan()"),   -- PER RECORD, in input order:
  (2, "assign", "v17 := v14.Value()"),   -- the record
  (2, "assign", "v17 = gts.Reverse(v17)"),   -- `gts.Reverse` (C05 `Seq.reverse`): residues reversed, every location `Reverse(len)`d and re-inserted in sorted order — NOT complemented
  (2, "if", "_, v18 := v16.WriteSeq(v17); v18 != nil"),   -- WRITE the record; a write error …
  (3, "return", "a0.Raise(v18)"),   -- … ends the command with that error (no `Commit`)
  (2, "if", "v19 := v15.Flush(); v19 != nil"),   -- flush (the bytes reach the tee); an error …
  (3, "return", "a0.Raise(v19)"),   -- … ends the command with that error (no `Commit`)
  (1, "if", "v20 := v14.Err(); v20 != nil"),   -- a scan error (a malformed record: C07) after the records in front of it were handled …
  (2, "return", "a0.Raise(fmt.Errorf(\"encountered error in scanner: %v\", v20))"),   -- … fails the command (exit 1, no `Commit`: the cache entry is removed)
  (1, "call", "v8.Commit()"),   -- frame: LAST statement in front of `return nil`: the run is committed (C14 `commit_only_sets_flag`, `commit_last`)
  (1, "return", "nil")   -- success
]

/-- cmd/gts/reverse.go: every function, method and function literal, in source order -/
def file_reverse : List (String × List Line) := [
  ("init", fn_reverse_init),
  ("reverseFunc", fn_reverse_reverseFunc)
]

/-- cmd/gts/reverse.go: its top-level declarations in source order -/
def decls_reverse : List String := ["init", "reverseFunc"]

/-- cmd/gts/reverse.go: the types it declares (a struct field by field / another type as `= T`) -/
def types_reverse : List (String × List String) := []

/-- the library pipeline of `reverse` (what it is: Gts/Gen/CmdFacts.lean) -/
def pipeline_reverse : List (String × List String) := [
  ("seqio.Detect()", []),
  ("seqio.ToFileType()", ["if"]),
  (".TryCache()", ["if"]),
  ("seqio.NewAutoScanner()", []),
  ("seqio.NewWriter()", []),
  (".Scan()", ["for:"]),
  (".Value()", ["for"]),
  ("gts.Reverse()", ["for"]),
  (".WriteSeq()", ["for", "if:"]),
  (".Flush()", ["for", "if:"]),
  (".Err()", ["if:"]),
  (".Commit()", [])
]

/-- cmd/gts/rotate.go `init` -/
def fn_rotate_init : List Line := [
  (0, "func", "()"),   -- `init`
  (1, "call", "flags.Register(\"rotate\", \"shift the coordinates of a circular sequence\", rotateFunc)")   -- which command name runs which function (`registered`)
]

/-- `gts rotate <locator>` — the record is turned so that the first located region starts it (C15 `Cli.rotate`) -/
def fn_rotate_rotateFunc : List Line := [
  (0, "func", "(a0 *flags.Context) error"),   -- the command function
  (1, "assign", "v0 := newHash()"),   -- frame: the digest `TryCache` hashes the input and the payload with (C14)
  (1, "assign", "v1, v2 := flags.Flags()"),   -- frame: the positional / optional argument sets (option table: Spec/CliTable.lean)
  (1, "assign", "v3 := v1.String(\"locator\", \"a locator string ([modifier|selector|point|range][@modifier])\")"),   -- positional: the locator string (C08 `AsLocator`)
  (1, "assign", "v4 := new(string)"),   -- frame: the primary input path …
  (1, "assign", "*v4 = \"-\""),   -- frame: … is `-` (stdin) …
  (1, "if", "cmd.IsTerminal(os.Stdin.Fd())"),   -- frame: … unless stdin is a terminal:
  (2, "assign", "v4 = v1.String(\"seqin\", \"input sequence file (may be omitted if standard input is provided)\")"),   -- frame: then a positional `seqin` is declared
  (1, "assign", "v5 := v2.Switch(0, \"no-cache\", \"do not use or create cache\")"),   -- frame: `--no-cache` (C14 `Run.nocache`)
  (1, "assign", "v6 := v2.String('F', \"format\", \"\", \"output file format (defaults to same as input)\")"),   -- frame: `-F` (C17 `cli_writers`: overrides the detected file type)
  (1, "assign", "v7 := v2.String('o', \"output\", \"-\", \"output sequence file (specifying `-` will force standard output)\")"),   -- frame: `-o` (C14 `Run.toFile`; C17 `cli_writers`: the file type is detected from it)
  (1, "if", "v8 := a0.Parse(v1, v2); v8 != nil"),   -- frame: the command line is parsed; a usage error …
  (2, "return", "v8"),   -- … is returned as it is
  (1, "assign", "v9, v10 := gts.AsLocator(*v3)"),   -- `gts.AsLocator` (C08 `asLocator_eq`): a parameter `locate` of the regenerated step; an invalid locator fails the command before the cache is touched
  (1, "if", "v10 != nil"),   -- an error …
  (2, "return", "a0.Raise(v10)"),   -- … ends the command with that error (no `Commit`)
  (1, "assign", "v11, v10 := newIODelegate(*v4, *v7)"),   -- frame: the I/O delegate over (input path, output path) (C14 `CacheProto.step`: `newIODelegate`)
  (1, "if", "v10 != nil"),   -- an error …
  (2, "return", "a0.Raise(v10)"),   -- … ends the command with that error (no `Commit`)
  (1, "defer", "v11.Close()"),   -- frame: `defer d.Close()` — finalises the cache entry, removes it unless committed (C14 `close_removes_unless_committed`)
  (1, "assign", "v12 := seqio.Detect(*v7)"),   -- frame: output file type from the `-o` path (C17 `cli_writers`)
  (1, "if", "*v6 != \"\""),   -- frame: `-F` given:
  (2, "assign", "v12 = seqio.ToFileType(*v6)"),   -- frame: … the file type is the named format (C17 `cli_writers`)
  (1, "if", "!*v5"),   -- frame: unless `--no-cache`:
  (2, "assign", "v13 := encodePayload([]tuple{{\"command\", strings.Join(a0.Name, \"-\")}, {\"version\", gts.Version.String()}, {\"locator\", *v3}, {\"filetype\", v12}})"),   -- the cache key: command name, version and EVERY option that changes the output (C14 `payload_complete`, Spec/CliTable.lean)
  (2, "assign", "v14, v15 := v11.TryCache(v0, v13)"),   -- frame: C14 `CacheProto.step`: hit → the entry is copied to the output; miss → the tee is armed
  (2, "if", "v14 || v15 != nil"),   -- frame: a hit (or an I/O error) …
  (3, "return", "a0.Raise(v15)"),   -- … ends the command: `Raise(nil)` is nil for a hit (the entry was replayed), the error otherwise
  (1, "assign", "v16 := seqio.NewAutoScanner(v11)"),   -- READER: the records of the primary input, format detected per stream (C17 `Auto.scanAll`, C07 / C01 the GenBank reader)
  (1, "assign", "v17 := bufio.NewWriter(v11)"),   -- WRITER: buffered, onto the delegate (tee: output and cache entry)
  (1, "assign", "v18 := seqio.NewWriter(v17, v12)"),   -- WRITER: `seqio.NewWriter(buffer, filetype)` (C17 `cli_writers`; C01 `GenBank.write`, C17 `Fasta` writer)
  (1, "for", "v16.Scan()"),   -- PER RECORD, in input order:
  (2, "assign", "v19 := v16.Value()"),   -- the record
  (2, "assign", "v20 := v9(v19)"),   -- per-record step — regenerated as a function (Gen/CliRotate.lean) and proved equal to the model (Bridge/CliRotate.lean, C15)
  (2, "if", "len(v20) > 0"),   -- per-record step — regenerated as a function (Gen/CliRotate.lean) and proved equal to the model (Bridge/CliRotate.lean, C15)
  (3, "assign", "v19 = gts.Rotate(v19, -v20[0].Head())"),   -- per-record step — regenerated as a function (Gen/CliRotate.lean) and proved equal to the model (Bridge/CliRotate.lean, C15)
  (2, "assign", "v19 = gts.WithTopology(v19, gts.Circular)"),   -- per-record step — regenerated as a function (Gen/CliRotate.lean) and proved equal to the model (Bridge/CliRotate.lean, C15)
  (2, "if", "_, v21 := v18.WriteSeq(v19); v21 != nil"),   -- WRITE the record; a write error …
  (3, "return", "a0.Raise(v21)"),   -- … ends the command with that error (no `Commit`)
  (2, "if", "v22 := v17.Flush(); v22 != nil"),   -- flush (the bytes reach the tee); an error …
  (3, "return", "a0.Raise(v22)"),   -- … ends the command with that error (no `Commit`)
  (1, "if", "v23 := v16.Err(); v23 != nil"),   -- a scan error (a malformed record: C07) after the records in front of it were handled …
  (2, "return", "a0.Raise(fmt.Errorf(\"encountered error in scanner: %v\", v23))"),   -- … fails the command (exit 1, no `Commit`: the cache entry is removed)
  (1, "call", "v11.Commit()"),   -- frame: LAST statement in front of `return nil`: the run is committed (C14 `commit_only_sets_flag`, `commit_last`)
  (1, "return", "nil")   -- success
]

/-- cmd/gts/rotate.go: every function, method and function literal, in source order -/
def file_rotate : List (String × List Line) := [
  ("init", fn_rotate_init),
  ("rotateFunc", fn_rotate_rotateFunc)
]

/-- cmd/gts/rotate.go: its top-level declarations in source order -/
def decls_rotate : List String := ["init", "rotateFunc"]

/-- cmd/gts/rotate.go: the types it declares (a struct field by field / another type as `= T`) -/
def types_rotate : List (String × List String) := []

/-- the library pipeline of `rotate` (what it is: Gts/Gen/CmdFacts.lean) -/
def pipeline_rotate : List (String × List String) := [
  ("gts.AsLocator()", []),
  ("seqio.Detect()", []),
  ("seqio.ToFileType()", ["if"]),
  (".TryCache()", ["if"]),
  ("seqio.NewAutoScanner()", []),
  ("seqio.NewWriter()", []),
  (".Scan()", ["for:"]),
  (".Value()", ["for"]),
  ("gts.Rotate()", ["for", "if"]),
  (".Head()", ["for", "if"]),
  ("gts.WithTopology()", ["for"]),
  ("gts.Circular", ["for"]),
  (".WriteSeq()", ["for", "if:"]),
  (".Flush()", ["for", "if:"]),
  (".Err()", ["if:"]),
  (".Commit()", [])
]

/-- cmd/gts/search.go `init` -/
def fn_search_init : List Line := [
  (0, "func", "()"),   -- `init`
  (1, "call", "flags.Register(\"search\", \"search for a subsequence and annotate its results\", searchFunc)")   -- which command name runs which function (`registered`)
]

/-- `gts search <query> [-k key] [-q name=value …] [-e] [--no-complement]` — per record and per query: one feature per hit
of `Match` (`-e`: `Search`) on the record (a forward range) and — unless `--no-complement` — per hit on the reverse
complement (`complement(range mapped back)`), each `Insert`ed (C18 / C19; Gts/Gen/CmdSearch.lean `searchStep`) -/
def fn_search_searchFunc : List Line := [
  (0, "func", "(a0 *flags.Context) error"),   -- the command function
  (1, "assign", "v0 := newHash()"),   -- frame: the digest `TryCache` hashes the input and the payload with (C14)
  (1, "assign", "v1, v2 := flags.Flags()"),   -- frame: the positional / optional argument sets (option table: Spec/CliTable.lean)
  (1, "assign", "v3 := v1.String(\"query\", \"query sequence file (will be interpreted literally if preceded with @)\")"),   -- positional: the query — a file, or literal residues behind `@`
  (1, "assign", "v4 := new(string)"),   -- frame: the primary input path …
  (1, "assign", "*v4 = \"-\""),   -- frame: … is `-` (stdin) …
  (1, "if", "cmd.IsTerminal(os.Stdin.Fd())"),   -- frame: … unless stdin is a terminal:
  (2, "assign", "v4 = v1.String(\"seqin\", \"input sequence file (may be omitted if standard input is provided)\")"),   -- frame: then a positional `seqin` is declared
  (1, "assign", "v5 := v2.Switch(0, \"no-cache\", \"do not use or create cache\")"),   -- frame: `--no-cache` (C14 `Run.nocache`)
  (1, "assign", "v6 := v2.String('o', \"output\", \"-\", \"output sequence file (specifying `-` will force standard output)\")"),   -- frame: `-o` (C14 `Run.toFile`; C17 `cli_writers`: the file type is detected from it)
  (1, "assign", "v7 := v2.String('F', \"format\", \"\", \"output file format (defaults to same as input)\")"),   -- frame: `-F` (C17 `cli_writers`: overrides the detected file type)
  (1, "assign", "v8 := v2.String('k', \"key\", \"misc_feature\", \"key for the reported oligomer region features\")"),   -- `-k`: the key of the reported features (default `misc_feature`)
  (1, "assign", "v9 := v2.StringSlice('q', \"qualifier\", nil, \"qualifier key-value pairs (syntax: key=value))\")"),   -- `-q name=value` (repeatable): the qualifiers of the new feature
  (1, "assign", "v10 := v2.Switch('e', \"exact\", \"match the exact pattern even for ambiguous letters\")"),   -- `-e`
  (1, "assign", "v11 := v2.Switch(0, \"no-complement\", \"do not match the complement strand\")"),   -- `--no-complement`
  (1, "if", "v12 := a0.Parse(v1, v2); v12 != nil"),   -- frame: the command line is parsed; a usage error …
  (2, "return", "v12"),   -- … is returned as it is
  (1, "assign", "v13 := []gts.Sequence{}"),   -- all records are collected first:
  (1, "assign", "v14 := []byte(*v3)"),   -- the query argument as bytes (an EMPTY argument panics at `[0]`)
  (1, "call", "v0.Reset()"),   -- the digest of the query (C14 `secondary_digest_raw`)
  (1, "switch", "v14[0]"),   -- literal or file?
  (2, "case", "'@'"),   -- literal:
  (3, "call", "v0.Write(v14)"),   -- … the digest sees the argument with its `@`
  (3, "assign", "v15 := gts.New(nil, nil, v14[1:])"),   -- … ONE query: the bytes behind the `@`, no features
  (3, "assign", "v13 = append(v13, v15)"),   -- … in input order
  (2, "default", ""),
  (3, "assign", "v16, v17 := os.Open(*v3)"),   -- a file: opened …
  (3, "if", "v17 != nil"),   -- an error …
  (4, "return", "a0.Raise(v17)"),   -- … ends the command with that error (no `Commit`)
  (3, "assign", "v18 := attach(v0, v16)"),   -- … read through the digest …
  (3, "assign", "v19 := seqio.NewAutoScanner(v18)"),   -- … every record of it is a query (features ignored by `Match` / `Search`)
  (3, "for", "v19.Scan()"),   -- PER RECORD, in input order:
  (4, "assign", "v13 = append(v13, v19.Value())"),   -- … in file order
  (3, "if", "len(v13) == 0"),   -- no record in the query file …
  (4, "return", "a0.Raise(fmt.Errorf(\"query sequence file %q does not contain a sequence\", *v3))"),   -- … fails the command (repair 72a98e0: the error is RETURNED)
  (1, "assign", "v20 := v0.Sum(nil)"),   -- the digest of the query goes into the cache key
  (1, "assign", "v21, v22 := newIODelegate(*v4, *v6)"),   -- frame: the I/O delegate over (input path, output path) (C14 `CacheProto.step`: `newIODelegate`)
  (1, "if", "v22 != nil"),   -- an error …
  (2, "return", "a0.Raise(v22)"),   -- … ends the command with that error (no `Commit`)
  (1, "defer", "v21.Close()"),   -- frame: `defer d.Close()` — finalises the cache entry, removes it unless committed (C14 `close_removes_unless_committed`)
  (1, "assign", "v23 := seqio.Detect(*v6)"),   -- frame: output file type from the `-o` path (C17 `cli_writers`)
  (1, "if", "*v7 != \"\""),   -- frame: `-F` given:
  (2, "assign", "v23 = seqio.ToFileType(*v7)"),   -- frame: … the file type is the named format (C17 `cli_writers`)
  (1, "assign", "v24 := make(map[string]int)"),   -- (a map name → rank that nothing reads)
  (1, "assign", "v25 := gts.Props{}"),   -- qualifiers: start empty
  (1, "range", "_, v26 := range *v9"),   -- per `-q` argument, in command-line order:
  (2, "assign", "v27, v28 := v26, \"\""),   -- … name = the whole argument, value = ""
  (2, "if", "v29 := strings.IndexByte(v26, '='); v29 >= 0"),   -- … unless it holds an `=`:
  (3, "assign", "v27, v28 = v26[:v29], v26[v29 + 1:]"),   -- … then split at the FIRST `=` (the value may hold further ones)
  (2, "call", "v25.Add(v27, v28)"),   -- `Props.Add`: appended to the row of that name, a new row at the end otherwise
  (2, "assign", "v24[v27] = len(v24)"),   -- (the unused rank)
  (1, "if", "!*v5"),   -- unless `--no-complement`:
  (2, "assign", "v30 := encodePayload([]tuple{{\"command\", strings.Join(a0.Name, \"-\")}, {\"version\", gts.Version.String()}, {\"query\", encodeToString(v20)}, {\"filetype\", v23}, {\"featureKey\", *v8}, {\"propstrs\", *v9}, {\"exact\", *v10}, {\"nocomplement\", *v11}})"),   -- the cache key: command name, version and EVERY option that changes the output (C14 `payload_complete`, Spec/CliTable.lean)
  (2, "assign", "v31, v32 := v21.TryCache(v0, v30)"),   -- frame: C14 `CacheProto.step`: hit → the entry is copied to the output; miss → the tee is armed
  (2, "if", "v31 || v32 != nil"),   -- frame: a hit (or an I/O error) …
  (3, "return", "a0.Raise(v32)"),   -- … ends the command: `Raise(nil)` is nil for a hit (the entry was replayed), the error otherwise
  (1, "assign", "v33 := gts.Match"),   -- the matcher: `gts.Match` (C18 `Nuc.matchSegs`: IUPAC letters of the query match the residues they stand for) …
  (1, "if", "*v10"),   -- … with `-e`:
  (2, "assign", "v33 = gts.Search"),   -- … `gts.Search` (C18 `Nuc.search`: every occurrence of the query letters themselves, case folded)
  (1, "assign", "v34 := seqio.NewAutoScanner(v21)"),   -- READER: the records of the primary input, format detected per stream (C17 `Auto.scanAll`, C07 / C01 the GenBank reader)
  (1, "assign", "v35 := bufio.NewWriter(v21)"),   -- WRITER: buffered, onto the delegate (tee: output and cache entry)
  (1, "assign", "v36 := seqio.NewWriter(v35, v23)"),   -- WRITER: `seqio.NewWriter(buffer, filetype)` (C17 `cli_writers`; C01 `GenBank.write`, C17 `Fasta` writer)
  (1, "for", "v34.Scan()"),   -- PER RECORD, in input order:
  (2, "assign", "v37 := v34.Value()"),   -- the record
  (2, "assign", "v38 := gts.Reverse(gts.Complement(gts.New(nil, nil, v37.Bytes())))"),   -- the REVERSE COMPLEMENT of the residues alone (no features): the other strand read 5'→3'
  (2, "assign", "v39 := v37.Features()"),   -- the feature table of the record
  (2, "range", "_, v40 := range v13"),   -- per query, in order:
  (3, "assign", "v41 := v33(v37, v40)"),   -- forward hits: the matcher on the record, segments sorted by position
  (3, "range", "_, v42 := range v41"),   -- per forward hit:
  (4, "assign", "v43, v44 := gts.Unpack(v42)"),   -- (head, tail) of the segment
  (4, "assign", "v45 := gts.NewFeature(*v8, gts.Range(v43, v44), v25)"),   -- a feature (`-k` key, the complete range `head+1..tail` on the forward strand, the `-q` qualifiers)
  (4, "assign", "v39 = v39.Insert(v45)"),   -- `FeatureSlice.Insert`: sorted insertion into the table (C19 `Table.insert`)
  (3, "if", "!*v11"),   -- unless `--no-complement`:
  (4, "assign", "v46 := v33(v38, v40)"),   -- reverse hits: the SAME matcher on the reverse complement
  (4, "range", "_, v47 := range v46"),   -- per reverse hit:
  (5, "assign", "v48, v49 := gts.Unpack(v47)"),   -- (head, tail) of the segment
  (5, "assign", "v50 := gts.Range(v48, v49)"),   -- the range in reverse-complement coordinates …
  (5, "assign", "v50 = v50.Reverse(gts.Len(v37)).(gts.Ranged)"),   -- … mapped back to the record: `[len − tail, len − head)` (C05 `Loc.reverse`; of a `Ranged` always a `Ranged`)
  (5, "assign", "v51 := gts.NewFeature(*v8, v50.Complement(), v25)"),   -- a feature on the COMPLEMENT strand: `complement(a..b)`, same key and qualifiers
  (5, "assign", "v39 = v39.Insert(v51)"),   -- `FeatureSlice.Insert`: sorted insertion into the table (C19 `Table.insert`)
  (2, "assign", "v37 = gts.WithFeatures(v37, v39)"),   -- the record with the new table: header and residues kept (`{ s with feats := ff }`)
  (2, "if", "_, v52 := v36.WriteSeq(v37); v52 != nil"),   -- WRITE the record; a write error …
  (3, "return", "a0.Raise(v52)"),   -- … ends the command with that error (no `Commit`)
  (2, "if", "v53 := v35.Flush(); v53 != nil"),   -- flush (the bytes reach the tee); an error …
  (3, "return", "a0.Raise(v53)"),   -- … ends the command with that error (no `Commit`)
  (1, "if", "v54 := v34.Err(); v54 != nil"),   -- a scan error (a malformed record: C07) after the records in front of it were handled …
  (2, "return", "a0.Raise(fmt.Errorf(\"encountered error in scanner: %v\", v54))"),   -- … fails the command (exit 1, no `Commit`: the cache entry is removed)
  (1, "call", "v21.Commit()"),   -- frame: LAST statement in front of `return nil`: the run is committed (C14 `commit_only_sets_flag`, `commit_last`)
  (1, "return", "nil")   -- success
]

/-- cmd/gts/search.go: every function, method and function literal, in source order -/
def file_search : List (String × List Line) := [
  ("init", fn_search_init),
  ("searchFunc", fn_search_searchFunc)
]

/-- cmd/gts/search.go: its top-level declarations in source order -/
def decls_search : List String := ["init", "searchFunc"]

/-- cmd/gts/search.go: the types it declares (a struct field by field / another type as `= T`) -/
def types_search : List (String × List String) := []

/-- the library pipeline of `search` (what it is: Gts/Gen/CmdFacts.lean) -/
def pipeline_search : List (String × List String) := [
  ("gts.Sequence", []),
  ("gts.New()", ["switch", "case"]),
  ("seqio.NewAutoScanner()", ["switch", "default"]),
  (".Scan()", ["switch", "default", "for:"]),
  (".Value()", ["switch", "default", "for"]),
  ("seqio.Detect()", []),
  ("seqio.ToFileType()", ["if"]),
  ("gts.Props", []),
  (".TryCache()", ["if"]),
  ("gts.Match", []),
  ("gts.Search", ["if"]),
  ("seqio.NewAutoScanner()", []),
  ("seqio.NewWriter()", []),
  (".Scan()", ["for:"]),
  (".Value()", ["for"]),
  ("gts.Reverse()", ["for"]),
  ("gts.Complement()", ["for"]),
  ("gts.New()", ["for"]),
  (".Bytes()", ["for"]),
  (".Features()", ["for"]),
  ("gts.Unpack()", ["for", "range", "range"]),
  ("gts.NewFeature()", ["for", "range", "range"]),
  ("gts.Range()", ["for", "range", "range"]),
  (".Insert()", ["for", "range", "range"]),
  ("gts.Unpack()", ["for", "range", "if", "range"]),
  ("gts.Range()", ["for", "range", "if", "range"]),
  (".Reverse()", ["for", "range", "if", "range"]),
  ("gts.Len()", ["for", "range", "if", "range"]),
  ("gts.Ranged", ["for", "range", "if", "range"]),
  ("gts.NewFeature()", ["for", "range", "if", "range"]),
  (".Complement()", ["for", "range", "if", "range"]),
  (".Insert()", ["for", "range", "if", "range"]),
  ("gts.WithFeatures()", ["for"]),
  (".WriteSeq()", ["for", "if:"]),
  (".Flush()", ["for", "if:"]),
  (".Err()", ["if:"]),
  (".Commit()", [])
]

/-- cmd/gts/select.go `init` -/
def fn_select_init : List Line := [
  (0, "func", "()"),   -- `init`
  (1, "call", "flags.Register(\"select\", \"select features using the given feature selector(s)\", selectFunc)")   -- which command name runs which function (`registered`)
]

/-- `gts select [-v] [-s strand] selector…` — the filter is built ONCE in front of the loop:
    filter = Or(Key("source"), invert ? Not(Or(selectors…)) : Or(selectors…)), then And(filter, Forward|ReverseStrand) for `-s`;
per record `FeatureSlice.Filter(filter)` (C19 `Cli.selectFilter`, `select_spec`; Gts/Gen/CmdSelect.lean) -/
def fn_select_selectFunc : List Line := [
  (0, "func", "(a0 *flags.Context) error"),   -- the command function
  (1, "assign", "v0 := newHash()"),   -- frame: the digest `TryCache` hashes the input and the payload with (C14)
  (1, "assign", "v1, v2 := flags.Flags()"),   -- frame: the positional / optional argument sets (option table: Spec/CliTable.lean)
  (1, "assign", "v3 := v1.Extra(\"selector\", \"feature selector (syntax: [feature_key][/[qualifier1][=regexp1]][/[qualifier2][=regexp2]]...)\")"),   -- positional, any number: the selectors
  (1, "assign", "v4 := new(string)"),   -- frame: the primary input path …
  (1, "assign", "*v4 = \"-\""),   -- frame: … is `-` (stdin) …
  (1, "if", "cmd.IsTerminal(os.Stdin.Fd())"),   -- frame: … unless stdin is a terminal:
  (2, "assign", "v4 = v1.String(\"seqin\", \"input sequence file (may be omitted if standard input is provided)\")"),   -- frame: then a positional `seqin` is declared
  (1, "assign", "v5 := v2.Switch(0, \"no-cache\", \"do not use or create cache\")"),   -- frame: `--no-cache` (C14 `Run.nocache`)
  (1, "assign", "v6 := v2.String('o', \"output\", \"-\", \"output sequence file (specifying `-` will force standard output)\")"),   -- frame: `-o` (C14 `Run.toFile`; C17 `cli_writers`: the file type is detected from it)
  (1, "assign", "v7 := v2.String('F', \"format\", \"\", \"output file format (defaults to same as input)\")"),   -- frame: `-F` (C17 `cli_writers`: overrides the detected file type)
  (1, "assign", "v8 := v2.String('s', \"strand\", \"both\", \"strand to select features from (`both`, `forward`, or `reverse`)\")"),   -- `-s`: `both` (default), `forward`, `reverse`; any other word = `both`
  (1, "assign", "v9 := v2.Switch('v', \"invert-match\", \"select features that do not match the given criteria\")"),   -- `-v`
  (1, "if", "v10 := a0.Parse(v1, v2); v10 != nil"),   -- frame: the command line is parsed; a usage error …
  (2, "return", "v10"),   -- … is returned as it is
  (1, "call", "sort.Strings(*v3)"),   -- the selectors are sorted (the cache key does not depend on their order; neither does `Or`)
  (1, "assign", "v11 := make([]gts.Filter, len(*v3))"),   -- one filter per selector …
  (1, "range", "v12, v13 := range *v3"),   -- …
  (2, "assign", "v14, v15 := gts.Selector(v13)"),   -- `gts.Selector` (C19 `Gts.selector`: key filter AND every qualifier clause) …
  (2, "if", "v15 != nil"),   -- an error …
  (3, "return", "a0.Raise(fmt.Errorf(\"invalid selector syntax: %v\", v15))"),   -- … an invalid regexp fails the command before the cache is touched
  (2, "assign", "v11[v12] = v14"),   -- … stored at its index
  (1, "assign", "v16 := gts.Or(v11...)"),   -- filter = Or(selectors…): SOME selector accepts (K19B: `Or()` of NO selector is `TrueFilter`)
  (1, "if", "*v9"),   -- with `-v`:
  (2, "assign", "v16 = gts.Not(v16)"),   -- … filter = Not(Or(selectors…)) — the negation covers the selectors ONLY
  (1, "assign", "v16 = gts.Or(gts.Key(\"source\"), v16)"),   -- filter = Or(Key("source"), invert ? Not(Or(selectors…)) : Or(selectors…)): source features are always kept
  (1, "switch", "*v8"),   -- the strand restriction is applied LAST, OUTSIDE the negation (seeded W10-1 moved it inside):
  (2, "case", "\"forward\""),   -- `-s forward`:
  (3, "assign", "v16 = gts.And(v16, gts.ForwardStrand)"),   -- … filter = And(filter, ForwardStrand) — also for the source features
  (2, "case", "\"reverse\""),   -- `-s reverse`:
  (3, "assign", "v16 = gts.And(v16, gts.ReverseStrand)"),   -- … filter = And(filter, ReverseStrand)
  (1, "assign", "v17, v18 := newIODelegate(*v4, *v6)"),   -- frame: the I/O delegate over (input path, output path) (C14 `CacheProto.step`: `newIODelegate`)
  (1, "if", "v18 != nil"),   -- an error …
  (2, "return", "a0.Raise(v18)"),   -- … ends the command with that error (no `Commit`)
  (1, "defer", "v17.Close()"),   -- frame: `defer d.Close()` — finalises the cache entry, removes it unless committed (C14 `close_removes_unless_committed`)
  (1, "assign", "v19 := seqio.Detect(*v6)"),   -- frame: output file type from the `-o` path (C17 `cli_writers`)
  (1, "if", "*v7 != \"\""),   -- frame: `-F` given:
  (2, "assign", "v19 = seqio.ToFileType(*v7)"),   -- frame: … the file type is the named format (C17 `cli_writers`)
  (1, "if", "!*v5"),   -- frame: unless `--no-cache`:
  (2, "assign", "v20 := encodePayload([]tuple{{\"command\", strings.Join(a0.Name, \"-\")}, {\"version\", gts.Version.String()}, {\"selectors\", *v3}, {\"strand\", *v8}, {\"invert\", *v9}, {\"filetype\", v19}})"),   -- the cache key: command name, version and EVERY option that changes the output (C14 `payload_complete`, Spec/CliTable.lean)
  (2, "assign", "v21, v22 := v17.TryCache(v0, v20)"),   -- frame: C14 `CacheProto.step`: hit → the entry is copied to the output; miss → the tee is armed
  (2, "if", "v21 || v22 != nil"),   -- frame: a hit (or an I/O error) …
  (3, "return", "a0.Raise(v22)"),   -- … ends the command: `Raise(nil)` is nil for a hit (the entry was replayed), the error otherwise
  (1, "assign", "v23 := seqio.NewAutoScanner(v17)"),   -- READER: the records of the primary input, format detected per stream (C17 `Auto.scanAll`, C07 / C01 the GenBank reader)
  (1, "assign", "v24 := bufio.NewWriter(v17)"),   -- WRITER: buffered, onto the delegate (tee: output and cache entry)
  (1, "assign", "v25 := seqio.NewWriter(v24, v19)"),   -- WRITER: `seqio.NewWriter(buffer, filetype)` (C17 `cli_writers`; C01 `GenBank.write`, C17 `Fasta` writer)
  (1, "for", "v23.Scan()"),   -- PER RECORD, in input order:
  (2, "assign", "v26 := v23.Value()"),   -- the record
  (2, "assign", "v27 := v26.Features().Filter(v16)"),   -- `FeatureSlice.Filter(filter)`: exactly the accepted features, in table order (C19 `Table.filterTable`)
  (2, "assign", "v26 = gts.WithFeatures(v26, v27)"),   -- the record with the new table: header and residues kept (`{ s with feats := ff }`)
  (2, "if", "_, v28 := v25.WriteSeq(v26); v28 != nil"),   -- WRITE the record; a write error …
  (3, "return", "a0.Raise(v28)"),   -- … ends the command with that error (no `Commit`)
  (2, "if", "v29 := v24.Flush(); v29 != nil"),   -- flush (the bytes reach the tee); an error …
  (3, "return", "a0.Raise(v29)"),   -- … ends the command with that error (no `Commit`)
  (1, "if", "v30 := v23.Err(); v30 != nil"),   -- a scan error (a malformed record: C07) after the records in front of it were handled …
  (2, "return", "a0.Raise(fmt.Errorf(\"encountered error in scanner: %v\", v30))"),   -- … fails the command (exit 1, no `Commit`: the cache entry is removed)
  (1, "call", "v17.Commit()"),   -- frame: LAST statement in front of `return nil`: the run is committed (C14 `commit_only_sets_flag`, `commit_last`)
  (1, "return", "nil")   -- success
]

/-- cmd/gts/select.go: every function, method and function literal, in source order -/
def file_select : List (String × List Line) := [
  ("init", fn_select_init),
  ("selectFunc", fn_select_selectFunc)
]

/-- cmd/gts/select.go: its top-level declarations in source order -/
def decls_select : List String := ["init", "selectFunc"]

/-- cmd/gts/select.go: the types it declares (a struct field by field / another type as `= T`) -/
def types_select : List (String × List String) := []

/-- the library pipeline of `select` (what it is: Gts/Gen/CmdFacts.lean) -/
def pipeline_select : List (String × List String) := [
  ("gts.Filter", []),
  ("gts.Selector()", ["range"]),
  ("gts.Or()", []),
  ("gts.Not()", ["if"]),
  ("gts.Or()", []),
  ("gts.Key()", []),
  ("gts.And()", ["switch", "case"]),
  ("gts.ForwardStrand", ["switch", "case"]),
  ("gts.And()", ["switch", "case"]),
  ("gts.ReverseStrand", ["switch", "case"]),
  ("seqio.Detect()", []),
  ("seqio.ToFileType()", ["if"]),
  (".TryCache()", ["if"]),
  ("seqio.NewAutoScanner()", []),
  ("seqio.NewWriter()", []),
  (".Scan()", ["for:"]),
  (".Value()", ["for"]),
  (".Features()", ["for"]),
  (".Filter()", ["for"]),
  ("gts.WithFeatures()", ["for"]),
  (".WriteSeq()", ["for", "if:"]),
  (".Flush()", ["for", "if:"]),
  (".Err()", ["if:"]),
  (".Commit()", [])
]

/-- cmd/gts/sort.go `init` -/
def fn_sort_init : List Line := [
  (0, "func", "()"),   -- `init`
  (1, "call", "flags.Register(\"sort\", \"sort the list of sequences\", sortFunc)")   -- which command name runs which function (`registered`)
]

/-- cmd/gts/sort.go `byLength.Len` -/
def fn_sort_byLength_Len : List Line := [
  (0, "func", "(recv byLength) () int"),   -- `sort.Interface`
  (1, "return", "len(recv)")
]

/-- cmd/gts/sort.go `byLength.Less` -/
def fn_sort_byLength_Less : List Line := [
  (0, "func", "(recv byLength) (n0 int, n1 int) bool"),   -- the ORDER:
  (1, "return", "gts.Len(recv[n1]) < gts.Len(recv[n0])")   -- `i` before `j` iff record `j` is SHORTER than record `i`: DESCENDING by number of residues; equal lengths are ties
]

/-- cmd/gts/sort.go `byLength.Swap` -/
def fn_sort_byLength_Swap : List Line := [
  (0, "func", "(recv byLength) (n0 int, n1 int)"),
  (1, "assign", "recv[n0], recv[n1] = recv[n1], recv[n0]")   -- a plain swap
]

/-- `gts sort [-r]` — all records are read, sorted by `byLength` (longest first; `-r`: shortest first) with the UNSTABLE
`sort.Sort`, and written in that order (C19 `Cli.SortedByLen`; `byLength.Less` regenerated: Gts/Gen/CmdSort.lean) -/
def fn_sort_sortFunc : List Line := [
  (0, "func", "(a0 *flags.Context) error"),   -- the command function
  (1, "assign", "v0 := newHash()"),   -- frame: the digest `TryCache` hashes the input and the payload with (C14)
  (1, "assign", "v1, v2 := flags.Flags()"),   -- frame: the positional / optional argument sets (option table: Spec/CliTable.lean)
  (1, "assign", "v3 := new(string)"),   -- frame: the primary input path …
  (1, "assign", "*v3 = \"-\""),   -- frame: … is `-` (stdin) …
  (1, "if", "cmd.IsTerminal(os.Stdin.Fd())"),   -- frame: … unless stdin is a terminal:
  (2, "assign", "v3 = v1.String(\"seqin\", \"input sequence file (may be omitted if standard input is provided)\")"),   -- frame: then a positional `seqin` is declared
  (1, "assign", "v4 := v2.Switch(0, \"no-cache\", \"do not use or create cache\")"),   -- frame: `--no-cache` (C14 `Run.nocache`)
  (1, "assign", "v5 := v2.String('o', \"output\", \"-\", \"output sequence file (specifying `-` will force standard output)\")"),   -- frame: `-o` (C14 `Run.toFile`; C17 `cli_writers`: the file type is detected from it)
  (1, "assign", "v6 := v2.String('F', \"format\", \"\", \"output file format (defaults to same as input)\")"),   -- frame: `-F` (C17 `cli_writers`: overrides the detected file type)
  (1, "assign", "v7 := v2.Switch('r', \"reverse\", \"reverse the sort order\")"),   -- `-r`
  (1, "if", "v8 := a0.Parse(v1, v2); v8 != nil"),   -- frame: the command line is parsed; a usage error …
  (2, "return", "v8"),   -- … is returned as it is
  (1, "assign", "v9, v10 := newIODelegate(*v3, *v5)"),   -- frame: the I/O delegate over (input path, output path) (C14 `CacheProto.step`: `newIODelegate`)
  (1, "if", "v10 != nil"),   -- an error …
  (2, "return", "a0.Raise(v10)"),   -- … ends the command with that error (no `Commit`)
  (1, "defer", "v9.Close()"),   -- frame: `defer d.Close()` — finalises the cache entry, removes it unless committed (C14 `close_removes_unless_committed`)
  (1, "assign", "v11 := seqio.Detect(*v5)"),   -- frame: output file type from the `-o` path (C17 `cli_writers`)
  (1, "if", "*v6 != \"\""),   -- frame: `-F` given:
  (2, "assign", "v11 = seqio.ToFileType(*v6)"),   -- frame: … the file type is the named format (C17 `cli_writers`)
  (1, "if", "!*v4"),   -- frame: unless `--no-cache`:
  (2, "assign", "v12 := encodePayload([]tuple{{\"command\", strings.Join(a0.Name, \"-\")}, {\"version\", gts.Version.String()}, {\"reverse\", *v7}, {\"filetype\", v11}})"),   -- the cache key: command name, version and EVERY option that changes the output (C14 `payload_complete`, Spec/CliTable.lean)
  (2, "assign", "v13, v14 := v9.TryCache(v0, v12)"),   -- frame: C14 `CacheProto.step`: hit → the entry is copied to the output; miss → the tee is armed
  (2, "if", "v13 || v14 != nil"),   -- frame: a hit (or an I/O error) …
  (3, "return", "a0.Raise(v14)"),   -- … ends the command: `Raise(nil)` is nil for a hit (the entry was replayed), the error otherwise
  (1, "assign", "v15 := []gts.Sequence{}"),   -- all records are collected first:
  (1, "assign", "v16 := seqio.NewAutoScanner(v9)"),   -- READER: the records of the primary input, format detected per stream (C17 `Auto.scanAll`, C07 / C01 the GenBank reader)
  (1, "for", "v16.Scan()"),   -- PER RECORD, in input order:
  (2, "assign", "v17 := v16.Value()"),   -- the record
  (2, "assign", "v15 = append(v15, v17)"),   -- … in input order
  (1, "var", "v18 sort.Interface"),   -- the order to sort by:
  (1, "assign", "v18 = byLength(v15)"),   -- … by length, longest first …
  (1, "if", "*v7"),   -- … with `-r`:
  (2, "assign", "v18 = sort.Reverse(v18)"),   -- … `sort.Reverse`: `Less(i, j)` becomes `Less(j, i)` — shortest first
  (1, "call", "sort.Sort(v18)"),   -- `sort.Sort`: NOT stable — records of one length come out in an order the library does not specify
  (1, "assign", "v19 := bufio.NewWriter(v9)"),   -- WRITER: buffered, onto the delegate (tee: output and cache entry)
  (1, "assign", "v20 := seqio.NewWriter(v19, v11)"),   -- WRITER: `seqio.NewWriter(buffer, filetype)` (C17 `cli_writers`; C01 `GenBank.write`, C17 `Fasta` writer)
  (1, "range", "_, v21 := range v15"),   -- every record, in sorted order:
  (2, "if", "_, v22 := v20.WriteSeq(v21); v22 != nil"),   -- WRITE the record; a write error …
  (3, "return", "a0.Raise(v22)"),   -- … ends the command with that error (no `Commit`)
  (2, "if", "v23 := v19.Flush(); v23 != nil"),   -- flush (the bytes reach the tee); an error …
  (3, "return", "a0.Raise(v23)"),   -- … ends the command with that error (no `Commit`)
  (1, "if", "v24 := v16.Err(); v24 != nil"),   -- the scan error is looked at AFTER the records in front of it were sorted and written …
  (2, "return", "a0.Raise(fmt.Errorf(\"encountered error in scanner: %v\", v24))"),   -- … fails the command (exit 1, no `Commit`: the cache entry is removed)
  (1, "call", "v9.Commit()"),   -- frame: LAST statement in front of `return nil`: the run is committed (C14 `commit_only_sets_flag`, `commit_last`)
  (1, "return", "nil")   -- success
]

/-- cmd/gts/sort.go: every function, method and function literal, in source order -/
def file_sort : List (String × List Line) := [
  ("init", fn_sort_init),
  ("byLength.Len", fn_sort_byLength_Len),
  ("byLength.Less", fn_sort_byLength_Less),
  ("byLength.Swap", fn_sort_byLength_Swap),
  ("sortFunc", fn_sort_sortFunc)
]

/-- cmd/gts/sort.go: its top-level declarations in source order -/
def decls_sort : List String := ["init", "type byLength", "byLength.Len", "byLength.Less", "byLength.Swap", "sortFunc"]

/-- cmd/gts/sort.go: the types it declares (a struct field by field / another type as `= T`) -/
def types_sort : List (String × List String) := [
  ("byLength", ["= []gts.Sequence"])
]

/-- the library pipeline of `sort` (what it is: Gts/Gen/CmdFacts.lean) -/
def pipeline_sort : List (String × List String) := [
  ("seqio.Detect()", []),
  ("seqio.ToFileType()", ["if"]),
  (".TryCache()", ["if"]),
  ("gts.Sequence", []),
  ("seqio.NewAutoScanner()", []),
  (".Scan()", ["for:"]),
  (".Value()", ["for"]),
  (".Reverse()", ["if"]),
  ("seqio.NewWriter()", []),
  (".WriteSeq()", ["range", "if:"]),
  (".Flush()", ["range", "if:"]),
  (".Err()", ["if:"]),
  (".Commit()", [])
]

/-- cmd/gts/split.go `init` -/
def fn_split_init : List Line := [
  (0, "func", "()"),   -- `init`
  (1, "call", "flags.Register(\"split\", \"split the sequence at the provided locations\", splitFunc)")   -- which command name runs which function (`registered`)
]

/-- `gts split <locator>` — the record is cut at the located sites (C15 `Cli.split`) -/
def fn_split_splitFunc : List Line := [
  (0, "func", "(a0 *flags.Context) error"),   -- the command function
  (1, "assign", "v0 := newHash()"),   -- frame: the digest `TryCache` hashes the input and the payload with (C14)
  (1, "assign", "v1, v2 := flags.Flags()"),   -- frame: the positional / optional argument sets (option table: Spec/CliTable.lean)
  (1, "assign", "v3 := v1.String(\"locator\", \"a locator string ([modifier|selector|point|range][@modifier])\")"),   -- positional: the locator string (C08 `AsLocator`)
  (1, "assign", "v4 := new(string)"),   -- frame: the primary input path …
  (1, "assign", "*v4 = \"-\""),   -- frame: … is `-` (stdin) …
  (1, "if", "cmd.IsTerminal(os.Stdin.Fd())"),   -- frame: … unless stdin is a terminal:
  (2, "assign", "v4 = v1.String(\"seqin\", \"input sequence file (may be omitted if standard input is provided)\")"),   -- frame: then a positional `seqin` is declared
  (1, "assign", "v5 := v2.Switch(0, \"no-cache\", \"do not use or create cache\")"),   -- frame: `--no-cache` (C14 `Run.nocache`)
  (1, "assign", "v6 := v2.String('o', \"output\", \"-\", \"output sequence file (specifying `-` will force standard output)\")"),   -- frame: `-o` (C14 `Run.toFile`; C17 `cli_writers`: the file type is detected from it)
  (1, "assign", "v7 := v2.String('F', \"format\", \"\", \"output file format (defaults to same as input)\")"),   -- frame: `-F` (C17 `cli_writers`: overrides the detected file type)
  (1, "if", "v8 := a0.Parse(v1, v2); v8 != nil"),   -- frame: the command line is parsed; a usage error …
  (2, "return", "v8"),   -- … is returned as it is
  (1, "assign", "v9, v10 := gts.AsLocator(*v3)"),   -- `gts.AsLocator` (C08 `asLocator_eq`): a parameter `locate` of the regenerated step; an invalid locator fails the command before the cache is touched
  (1, "if", "v10 != nil"),   -- an error …
  (2, "return", "a0.Raise(v10)"),   -- … ends the command with that error (no `Commit`)
  (1, "assign", "v11, v10 := newIODelegate(*v4, *v6)"),   -- frame: the I/O delegate over (input path, output path) (C14 `CacheProto.step`: `newIODelegate`)
  (1, "if", "v10 != nil"),   -- an error …
  (2, "return", "a0.Raise(v10)"),   -- … ends the command with that error (no `Commit`)
  (1, "defer", "v11.Close()"),   -- frame: `defer d.Close()` — finalises the cache entry, removes it unless committed (C14 `close_removes_unless_committed`)
  (1, "assign", "v12 := seqio.Detect(*v6)"),   -- frame: output file type from the `-o` path (C17 `cli_writers`)
  (1, "if", "*v7 != \"\""),   -- frame: `-F` given:
  (2, "assign", "v12 = seqio.ToFileType(*v7)"),   -- frame: … the file type is the named format (C17 `cli_writers`)
  (1, "if", "!*v5"),   -- frame: unless `--no-cache`:
  (2, "assign", "v13 := encodePayload([]tuple{{\"command\", strings.Join(a0.Name, \"-\")}, {\"version\", gts.Version.String()}, {\"locator\", *v3}, {\"filetype\", v12}})"),   -- the cache key: command name, version and EVERY option that changes the output (C14 `payload_complete`, Spec/CliTable.lean)
  (2, "assign", "v14, v15 := v11.TryCache(v0, v13)"),   -- frame: C14 `CacheProto.step`: hit → the entry is copied to the output; miss → the tee is armed
  (2, "if", "v14 || v15 != nil"),   -- frame: a hit (or an I/O error) …
  (3, "return", "a0.Raise(v15)"),   -- … ends the command: `Raise(nil)` is nil for a hit (the entry was replayed), the error otherwise
  (1, "assign", "v16 := seqio.NewAutoScanner(v11)"),   -- READER: the records of the primary input, format detected per stream (C17 `Auto.scanAll`, C07 / C01 the GenBank reader)
  (1, "assign", "v17 := bufio.NewWriter(v11)"),   -- WRITER: buffered, onto the delegate (tee: output and cache entry)
  (1, "assign", "v18 := seqio.NewWriter(v17, v12)"),   -- WRITER: `seqio.NewWriter(buffer, filetype)` (C17 `cli_writers`; C01 `GenBank.write`, C17 `Fasta` writer)
  (1, "for", "v16.Scan()"),   -- PER RECORD, in input order:
  (2, "assign", "v19 := v16.Value()"),   -- the record
  (2, "assign", "v20 := v9(v19)"),   -- per-record step — regenerated as a function (Gen/CliSplit.lean) and proved equal to the model (Bridge/CliSplit.lean, C15)
  (2, "assign", "v21 := gts.Linear"),   -- per-record step — regenerated as a function (Gen/CliSplit.lean) and proved equal to the model (Bridge/CliSplit.lean, C15)
  (2, "typeswitch", "v22 := v19.(type)"),   -- per-record step — regenerated as a function (Gen/CliSplit.lean) and proved equal to the model (Bridge/CliSplit.lean, C15)
  (3, "case", "seqio.GenBank"),   -- per-record step — regenerated as a function (Gen/CliSplit.lean) and proved equal to the model (Bridge/CliSplit.lean, C15)
  (4, "assign", "v21 = v22.Fields.Topology"),   -- per-record step — regenerated as a function (Gen/CliSplit.lean) and proved equal to the model (Bridge/CliSplit.lean, C15)
  (2, "switch", ""),   -- per-record step — regenerated as a function (Gen/CliSplit.lean) and proved equal to the model (Bridge/CliSplit.lean, C15)
  (3, "case", "len(v20) == 0"),   -- per-record step — regenerated as a function (Gen/CliSplit.lean) and proved equal to the model (Bridge/CliSplit.lean, C15)
  (4, "if", "_, v23 := v18.WriteSeq(v19); v23 != nil"),   -- WRITE the record; a write error …
  (5, "return", "a0.Raise(v23)"),   -- … ends the command with that error (no `Commit`)
  (3, "case", "len(v20) == 1 && v21 == gts.Circular"),   -- per-record step — regenerated as a function (Gen/CliSplit.lean) and proved equal to the model (Bridge/CliSplit.lean, C15)
  (4, "assign", "v19 = gts.Rotate(v19, -v20.Head())"),   -- per-record step — regenerated as a function (Gen/CliSplit.lean) and proved equal to the model (Bridge/CliSplit.lean, C15)
  (4, "assign", "v19 = gts.WithTopology(v19, gts.Linear)"),   -- per-record step — regenerated as a function (Gen/CliSplit.lean) and proved equal to the model (Bridge/CliSplit.lean, C15)
  (4, "if", "_, v24 := v18.WriteSeq(v19); v24 != nil"),   -- WRITE the record; a write error …
  (5, "return", "a0.Raise(v24)"),   -- … ends the command with that error (no `Commit`)
  (3, "default", ""),   -- per-record step — regenerated as a function (Gen/CliSplit.lean) and proved equal to the model (Bridge/CliSplit.lean, C15)
  (4, "assign", "v25 := make(map[int]interface{})"),   -- per-record step — regenerated as a function (Gen/CliSplit.lean) and proved equal to the model (Bridge/CliSplit.lean, C15)
  (4, "range", "_, v26 := range v20"),   -- per-record step — regenerated as a function (Gen/CliSplit.lean) and proved equal to the model (Bridge/CliSplit.lean, C15)
  (5, "assign", "v27, v28 := v26.Head(), v26.Tail()"),   -- per-record step — regenerated as a function (Gen/CliSplit.lean) and proved equal to the model (Bridge/CliSplit.lean, C15)
  (5, "if", "v28 < v27"),   -- per-record step — regenerated as a function (Gen/CliSplit.lean) and proved equal to the model (Bridge/CliSplit.lean, C15)
  (6, "assign", "v27 = v28"),   -- per-record step — regenerated as a function (Gen/CliSplit.lean) and proved equal to the model (Bridge/CliSplit.lean, C15)
  (5, "assign", "v25[v27] = nil"),   -- per-record step — regenerated as a function (Gen/CliSplit.lean) and proved equal to the model (Bridge/CliSplit.lean, C15)
  (4, "assign", "v29 := make([]int, len(v25))"),   -- per-record step — regenerated as a function (Gen/CliSplit.lean) and proved equal to the model (Bridge/CliSplit.lean, C15)
  (4, "assign", "v30 := 0"),   -- per-record step — regenerated as a function (Gen/CliSplit.lean) and proved equal to the model (Bridge/CliSplit.lean, C15)
  (4, "range", "v31 := range v25"),   -- per-record step — regenerated as a function (Gen/CliSplit.lean) and proved equal to the model (Bridge/CliSplit.lean, C15)
  (5, "assign", "v29[v30] = v31"),   -- per-record step — regenerated as a function (Gen/CliSplit.lean) and proved equal to the model (Bridge/CliSplit.lean, C15)
  (5, "assign", "v30++"),   -- per-record step — regenerated as a function (Gen/CliSplit.lean) and proved equal to the model (Bridge/CliSplit.lean, C15)
  (4, "call", "sort.Ints(v29)"),   -- per-record step — regenerated as a function (Gen/CliSplit.lean) and proved equal to the model (Bridge/CliSplit.lean, C15)
  (4, "if", "v21 == gts.Circular && len(v29) == 1"),   -- per-record step — regenerated as a function (Gen/CliSplit.lean) and proved equal to the model (Bridge/CliSplit.lean, C15)
  (5, "assign", "v19 = gts.Rotate(v19, -v29[0])"),   -- per-record step — regenerated as a function (Gen/CliSplit.lean) and proved equal to the model (Bridge/CliSplit.lean, C15)
  (5, "assign", "v19 = gts.WithTopology(v19, gts.Linear)"),   -- per-record step — regenerated as a function (Gen/CliSplit.lean) and proved equal to the model (Bridge/CliSplit.lean, C15)
  (5, "if", "_, v32 := v18.WriteSeq(v19); v32 != nil"),   -- WRITE the record; a write error …
  (6, "return", "a0.Raise(v32)"),   -- … ends the command with that error (no `Commit`)
  (5, "branch", "break"),   -- per-record step — regenerated as a function (Gen/CliSplit.lean) and proved equal to the model (Bridge/CliSplit.lean, C15)
  (4, "assign", "v33 := make([]int, len(v29) + 2)"),   -- per-record step — regenerated as a function (Gen/CliSplit.lean) and proved equal to the model (Bridge/CliSplit.lean, C15)
  (4, "if", "v21 == gts.Circular"),   -- per-record step — regenerated as a function (Gen/CliSplit.lean) and proved equal to the model (Bridge/CliSplit.lean, C15)
  (5, "assign", "v33[0] = v29[len(v29) - 1]"),   -- per-record step — regenerated as a function (Gen/CliSplit.lean) and proved equal to the model (Bridge/CliSplit.lean, C15)
  (5, "assign", "v33 = v33[:len(v33) - 1]"),   -- per-record step — regenerated as a function (Gen/CliSplit.lean) and proved equal to the model (Bridge/CliSplit.lean, C15)
  (4, "else", ""),   -- per-record step — regenerated as a function (Gen/CliSplit.lean) and proved equal to the model (Bridge/CliSplit.lean, C15)
  (5, "assign", "v33[len(v33) - 1] = gts.Len(v19)"),   -- per-record step — regenerated as a function (Gen/CliSplit.lean) and proved equal to the model (Bridge/CliSplit.lean, C15)
  (4, "range", "v34, v35 := range v29"),   -- per-record step — regenerated as a function (Gen/CliSplit.lean) and proved equal to the model (Bridge/CliSplit.lean, C15)
  (5, "assign", "v33[v34 + 1] = v35"),   -- per-record step — regenerated as a function (Gen/CliSplit.lean) and proved equal to the model (Bridge/CliSplit.lean, C15)
  (4, "range", "v36, v37 := range v33[1:]"),   -- per-record step — regenerated as a function (Gen/CliSplit.lean) and proved equal to the model (Bridge/CliSplit.lean, C15)
  (5, "assign", "v38 := v33[v36]"),   -- per-record step — regenerated as a function (Gen/CliSplit.lean) and proved equal to the model (Bridge/CliSplit.lean, C15)
  (5, "assign", "v39 := gts.Slice(v19, v38, v37)"),   -- per-record step — regenerated as a function (Gen/CliSplit.lean) and proved equal to the model (Bridge/CliSplit.lean, C15)
  (5, "assign", "v39 = gts.WithTopology(v39, gts.Linear)"),   -- per-record step — regenerated as a function (Gen/CliSplit.lean) and proved equal to the model (Bridge/CliSplit.lean, C15)
  (5, "if", "_, v40 := v18.WriteSeq(v39); v40 != nil"),   -- WRITE the record; a write error …
  (6, "return", "a0.Raise(v40)"),   -- … ends the command with that error (no `Commit`)
  (2, "if", "v41 := v17.Flush(); v41 != nil"),   -- flush (the bytes reach the tee); an error …
  (3, "return", "a0.Raise(v41)"),   -- … ends the command with that error (no `Commit`)
  (1, "if", "v42 := v16.Err(); v42 != nil"),   -- a scan error (a malformed record: C07) after the records in front of it were handled …
  (2, "return", "a0.Raise(fmt.Errorf(\"encountered error in scanner: %v\", v42))"),   -- … fails the command (exit 1, no `Commit`: the cache entry is removed)
  (1, "call", "v11.Commit()"),   -- frame: LAST statement in front of `return nil`: the run is committed (C14 `commit_only_sets_flag`, `commit_last`)
  (1, "return", "nil")   -- success
]

/-- cmd/gts/split.go: every function, method and function literal, in source order -/
def file_split : List (String × List Line) := [
  ("init", fn_split_init),
  ("splitFunc", fn_split_splitFunc)
]

/-- cmd/gts/split.go: its top-level declarations in source order -/
def decls_split : List String := ["init", "splitFunc"]

/-- cmd/gts/split.go: the types it declares (a struct field by field / another type as `= T`) -/
def types_split : List (String × List String) := []

/-- the library pipeline of `split` (what it is: Gts/Gen/CmdFacts.lean) -/
def pipeline_split : List (String × List String) := [
  ("gts.AsLocator()", []),
  ("seqio.Detect()", []),
  ("seqio.ToFileType()", ["if"]),
  (".TryCache()", ["if"]),
  ("seqio.NewAutoScanner()", []),
  ("seqio.NewWriter()", []),
  (".Scan()", ["for:"]),
  (".Value()", ["for"]),
  ("gts.Linear", ["for"]),
  (".WriteSeq()", ["for", "switch", "case", "if:"]),
  ("gts.Circular", ["for", "switch"]),
  ("gts.Rotate()", ["for", "switch", "case"]),
  (".Head()", ["for", "switch", "case"]),
  ("gts.WithTopology()", ["for", "switch", "case"]),
  ("gts.Linear", ["for", "switch", "case"]),
  (".WriteSeq()", ["for", "switch", "case", "if:"]),
  (".Head()", ["for", "switch", "default", "range"]),
  (".Tail()", ["for", "switch", "default", "range"]),
  ("gts.Circular", ["for", "switch", "default", "if:"]),
  ("gts.Rotate()", ["for", "switch", "default", "if"]),
  ("gts.WithTopology()", ["for", "switch", "default", "if"]),
  ("gts.Linear", ["for", "switch", "default", "if"]),
  (".WriteSeq()", ["for", "switch", "default", "if", "if:"]),
  ("gts.Circular", ["for", "switch", "default", "if:"]),
  ("gts.Len()", ["for", "switch", "default", "else"]),
  ("gts.Slice()", ["for", "switch", "default", "range"]),
  ("gts.WithTopology()", ["for", "switch", "default", "range"]),
  ("gts.Linear", ["for", "switch", "default", "range"]),
  (".WriteSeq()", ["for", "switch", "default", "range", "if:"]),
  (".Flush()", ["for", "if:"]),
  (".Err()", ["if:"]),
  (".Commit()", [])
]

/-- cmd/gts/summary.go `init` -/
def fn_summary_init : List Line := [
  (0, "func", "()"),   -- `init`
  (1, "call", "flags.Register(\"summary\", \"report a brief summary of the sequence(s)\", summaryFunc)")   -- which command name runs which function (`registered`)
]

/-- cmd/gts/summary.go `byValue.Len` -/
def fn_summary_byValue_Len : List Line := [
  (0, "func", "(recv byValue) () int"),
  (1, "return", "len(recv)")
]

/-- cmd/gts/summary.go `byValue.Less` -/
def fn_summary_byValue_Less : List Line := [
  (0, "func", "(recv byValue) (n0 int, n1 int) bool"),   -- the order of the report lines: count DESCENDING, then name ascending
  (1, "if", "recv[n0].Value > recv[n1].Value"),
  (2, "return", "true"),
  (1, "if", "recv[n1].Value > recv[n0].Value"),
  (2, "return", "false"),
  (1, "return", "recv[n0].Key < recv[n1].Key")
]

/-- cmd/gts/summary.go `byValue.Swap` -/
def fn_summary_byValue_Swap : List Line := [
  (0, "func", "(recv byValue) (n0 int, n1 int)"),
  (1, "assign", "recv[n0], recv[n1] = recv[n1], recv[n0]")
]

/-- `gts summary [-F] [-Q]` — a text report per record: title, residue counts, feature keys, qualifier names -/
def fn_summary_summaryFunc : List Line := [
  (0, "func", "(a0 *flags.Context) error"),   -- the command function
  (1, "assign", "v0 := newHash()"),   -- frame: the digest `TryCache` hashes the input and the payload with (C14)
  (1, "assign", "v1, v2 := flags.Flags()"),   -- frame: the positional / optional argument sets (option table: Spec/CliTable.lean)
  (1, "assign", "v3 := new(string)"),   -- frame: the primary input path …
  (1, "assign", "*v3 = \"-\""),   -- frame: … is `-` (stdin) …
  (1, "if", "cmd.IsTerminal(os.Stdin.Fd())"),   -- frame: … unless stdin is a terminal:
  (2, "assign", "v3 = v1.String(\"seqin\", \"input sequence file (may be omitted if standard input is provided)\")"),   -- frame: then a positional `seqin` is declared
  (1, "assign", "v4 := v2.Switch(0, \"no-cache\", \"do not use or create cache\")"),   -- frame: `--no-cache` (C14 `Run.nocache`)
  (1, "assign", "v5 := v2.String('o', \"output\", \"-\", \"output file (specifying `-` will force standard output)\")"),   -- `-o`: the report file
  (1, "assign", "v6 := v2.Switch('F', \"no-feature\", \"suppress feature summary\")"),   -- `-F` is `--no-feature` HERE (not the output format)
  (1, "assign", "v7 := v2.Switch('Q', \"no-qualifier\", \"suppress qualifier summary\")"),   -- `-Q`
  (1, "if", "v8 := a0.Parse(v1, v2); v8 != nil"),   -- frame: the command line is parsed; a usage error …
  (2, "return", "v8"),   -- … is returned as it is
  (1, "assign", "v9, v10 := newIODelegate(*v3, *v5)"),   -- frame: the I/O delegate over (input path, output path) (C14 `CacheProto.step`: `newIODelegate`)
  (1, "if", "v10 != nil"),   -- an error …
  (2, "return", "a0.Raise(v10)"),   -- … ends the command with that error (no `Commit`)
  (1, "defer", "v9.Close()"),   -- frame: `defer d.Close()` — finalises the cache entry, removes it unless committed (C14 `close_removes_unless_committed`)
  (1, "if", "!*v4"),   -- frame: unless `--no-cache`:
  (2, "assign", "v11 := encodePayload([]tuple{{\"command\", strings.Join(a0.Name, \"-\")}, {\"version\", gts.Version.String()}, {\"nofeature\", *v6}, {\"noqualifier\", v7}})"),   -- the cache key: command name, version and EVERY option that changes the output (C14 `payload_complete`, Spec/CliTable.lean)
  (2, "assign", "v12, v13 := v9.TryCache(v0, v11)"),   -- frame: C14 `CacheProto.step`: hit → the entry is copied to the output; miss → the tee is armed
  (2, "if", "v12 || v13 != nil"),   -- frame: a hit (or an I/O error) …
  (3, "return", "a0.Raise(v13)"),   -- … ends the command: `Raise(nil)` is nil for a hit (the entry was replayed), the error otherwise
  (1, "assign", "v14 := bufio.NewWriter(v9)"),   -- WRITER: plain text, buffered, onto the delegate
  (1, "assign", "v15 := seqio.NewAutoScanner(v9)"),   -- READER: the records of the primary input, format detected per stream (C17 `Auto.scanAll`, C07 / C01 the GenBank reader)
  (1, "assign", "v16 := 0"),   -- the record counter
  (1, "for", "v15.Scan()"),   -- PER RECORD, in input order:
  (2, "assign", "v17 := v15.Value()"),   -- the record
  (2, "assign", "v18 := strings.Builder{}"),
  (2, "typeswitch", "v19 := v17.Info().(type)"),   -- the title of the record:
  (3, "case", "string"),   -- a FASTA description
  (4, "call", "v18.WriteString(fmt.Sprintln(v19))"),
  (3, "case", "fmt.Stringer"),   -- a header with `String()` (GenBank: `GenBankFields.String`)
  (4, "call", "v18.WriteString(fmt.Sprintln(v19.String()))"),
  (3, "default", ""),
  (4, "call", "v18.WriteString(fmt.Sprintf(\"Sequence %d\\n\", v16 + 1))"),   -- otherwise its number (from 1)
  (2, "assign", "v20 := make(map[byte]int)"),
  (2, "assign", "v21 := []pairStringInt{}"),
  (2, "range", "_, v22 := range bytes.ToUpper(v17.Bytes())"),   -- residue counts, case folded
  (3, "assign", "v20[v22]++"),
  (2, "range", "_, v23 := range ascii.Graphic"),   -- printable bytes by their character …
  (3, "if", "v24, v25 := v20[v23]; v25"),
  (4, "assign", "v21 = append(v21, pairStringInt{fmt.Sprintf(\"%c\", v23), v24})"),
  (2, "range", "_, v26 := range ascii.Control"),   -- … control bytes by their hex code
  (3, "if", "v27, v28 := v20[v26]; v28"),
  (4, "assign", "v21 = append(v21, pairStringInt{fmt.Sprintf(\"%X\", v26), v27})"),
  (2, "assign", "v29 := v17.Features()"),   -- the feature table of the record
  (2, "assign", "v30 := make(map[string]int)"),
  (2, "assign", "v31 := make(map[string]int)"),
  (2, "range", "_, v32 := range v29"),
  (3, "assign", "v30[v32.Key]++"),   -- features per key
  (3, "range", "_, v33 := range v32.Props.Keys()"),
  (4, "assign", "v34 := v32.Props.Get(v33)"),
  (4, "assign", "v31[v33] += len(v34)"),   -- qualifier VALUES per name
  (2, "assign", "v35 := []pairStringInt{}"),
  (2, "range", "v36, v37 := range v30"),
  (3, "assign", "v35 = append(v35, pairStringInt{v36, v37})"),
  (2, "call", "sort.Sort(byValue(v35))"),   -- keys by count
  (2, "assign", "v38 := []pairStringInt{}"),
  (2, "range", "v39, v40 := range v31"),
  (3, "assign", "v38 = append(v38, pairStringInt{v39, v40})"),
  (2, "call", "sort.Sort(byValue(v38))"),   -- qualifier names by count
  (2, "assign", "v41 := 0"),
  (2, "range", "_, v42 := range v21"),
  (3, "if", "v43 := len(v42.Key); v43 > v41"),
  (4, "assign", "v41 = v43"),
  (2, "range", "_, v44 := range v35"),
  (3, "if", "v45 := len(v44.Key); v45 > v41"),
  (4, "assign", "v41 = v45"),
  (2, "range", "_, v46 := range v38"),
  (3, "if", "v47 := len(v46.Key); v47 > v41"),
  (4, "assign", "v41 = v47"),
  (2, "assign", "v48 := fmt.Sprintf(\"%%%ds:\\t%%s\\n\", v41)"),   -- names right-aligned to the longest one
  (2, "call", "v18.WriteString(\"Sequence Summary\\n\")"),
  (2, "call", "v18.WriteString(fmt.Sprintf(v48, \"Length\", humanize.Comma(int64(gts.Len(v17)))))"),   -- the number of residues (`gts.Len`)
  (2, "range", "_, v49 := range v21"),
  (3, "call", "v18.WriteString(fmt.Sprintf(v48, v49.Key, humanize.Comma(int64(v49.Value))))"),
  (2, "if", "!*v6"),   -- unless `-F`:
  (3, "call", "v18.WriteString(\"Feature Summary\\n\")"),
  (3, "call", "v18.WriteString(fmt.Sprintf(v48, \"Features\", humanize.Comma(int64(len(v29)))))"),
  (3, "range", "_, v50 := range v35"),
  (4, "call", "v18.WriteString(fmt.Sprintf(v48, v50.Key, humanize.Comma(int64(v50.Value))))"),
  (2, "if", "!*v7"),   -- unless `-Q`: — AS WRITTEN the record terminator `//` is inside this block
  (3, "call", "v18.WriteString(\"Qualifier Summary\\n\")"),
  (3, "range", "_, v51 := range v38"),
  (4, "call", "v18.WriteString(fmt.Sprintf(v48, v51.Key, humanize.Comma(int64(v51.Value))))"),
  (3, "call", "v18.WriteString(\"//\\n\")"),
  (2, "if", "_, v52 := io.WriteString(v14, v18.String()); v52 != nil"),
  (3, "return", "a0.Raise(v52)"),   -- … ends the command with that error (no `Commit`)
  (2, "if", "v53 := v14.Flush(); v53 != nil"),   -- flush (the bytes reach the tee); an error …
  (3, "return", "a0.Raise(v53)"),   -- … ends the command with that error (no `Commit`)
  (2, "assign", "v16++"),
  (1, "if", "v54 := v15.Err(); v54 != nil"),   -- a scan error (a malformed record: C07) after the records in front of it were handled …
  (2, "return", "a0.Raise(fmt.Errorf(\"encountered error in scanner: %v\", v54))"),   -- … fails the command (exit 1, no `Commit`: the cache entry is removed)
  (1, "call", "v9.Commit()"),   -- frame: LAST statement in front of `return nil`: the run is committed (C14 `commit_only_sets_flag`, `commit_last`)
  (1, "return", "nil")   -- success
]

/-- cmd/gts/summary.go: every function, method and function literal, in source order -/
def file_summary : List (String × List Line) := [
  ("init", fn_summary_init),
  ("byValue.Len", fn_summary_byValue_Len),
  ("byValue.Less", fn_summary_byValue_Less),
  ("byValue.Swap", fn_summary_byValue_Swap),
  ("summaryFunc", fn_summary_summaryFunc)
]

/-- cmd/gts/summary.go: its top-level declarations in source order -/
def decls_summary : List String := ["init", "type pairStringInt", "type byValue", "byValue.Len", "byValue.Less", "byValue.Swap", "summaryFunc"]

/-- cmd/gts/summary.go: the types it declares (a struct field by field / another type as `= T`) -/
def types_summary : List (String × List String) := [
  ("pairStringInt", ["Key string", "Value int"]),
  ("byValue", ["= []pairStringInt"])
]

/-- the library pipeline of `summary` (what it is: Gts/Gen/CmdFacts.lean) -/
def pipeline_summary : List (String × List String) := [
  (".TryCache()", ["if"]),
  ("seqio.NewAutoScanner()", []),
  (".Scan()", ["for:"]),
  (".Value()", ["for"]),
  (".Info()", ["for", "typeswitch:"]),
  (".Bytes()", ["for", "range:"]),
  (".Features()", ["for"]),
  ("gts.Len()", ["for"]),
  (".Flush()", ["for", "if:"]),
  (".Err()", ["if:"]),
  (".Commit()", [])
]

/-- the inventory of cmd/gts: (file, how it is tied — `facts`: every function in normal form here, declarations in
`decls_<file>`; `gcli`: the same AND the per-record step regenerated as a function by go2lean/gcli_cmds.go; `iodelegate`: go2lean/iodelegate.go;
`untied`; `new`: a file the generator does not know —, for a file that is neither its top-level declarations
in source order) -/
def files : List (String × String × List String) := [
  ("annotate.go", "facts", []),
  ("cache.go", "untied", ["init", "cacheListFunc", "cachePathFunc", "cachePurgeFunc"]),
  ("clear.go", "facts", []),
  ("complement.go", "facts", []),
  ("define.go", "facts", []),
  ("delete.go", "gcli", []),
  ("extract.go", "gcli", []),
  ("hash.go", "untied", ["newHash", "encodeToString"]),
  ("infix.go", "gcli", []),
  ("insert.go", "gcli", []),
  ("io.go", "iodelegate", ["type attachment", "attachment.Read", "attach", "type tuple", "exact", "encodePayload", "gtsCacheDir", "type ioDelegate", "ioDelegate.Commit", "newIODelegate", "ioDelegate.Read", "ioDelegate.Write", "ioDelegate.TryCache", "ioDelegate.Close"]),
  ("join.go", "facts", []),
  ("length.go", "facts", []),
  ("main.go", "untied", ["main"]),
  ("pick.go", "facts", []),
  ("query.go", "facts", []),
  ("repair.go", "facts", []),
  ("reverse.go", "facts", []),
  ("rotate.go", "gcli", []),
  ("search.go", "facts", []),
  ("select.go", "facts", []),
  ("sort.go", "facts", []),
  ("split.go", "gcli", []),
  ("summary.go", "facts", [])
]

/-- the `flags.Register(name, help, fn)` calls of the `init` functions: (file, command name, command function) -/
def registered : List (String × String × String) := [
  ("annotate.go", "annotate", "annotateFunc"),
  ("cache.go", "\"cache\"", "cacheSet.Compile()"),
  ("clear.go", "clear", "clearFunc"),
  ("complement.go", "complement", "complementFunc"),
  ("define.go", "define", "defineFunc"),
  ("delete.go", "delete", "deleteFunc"),
  ("extract.go", "extract", "extractFunc"),
  ("infix.go", "infix", "infixFunc"),
  ("insert.go", "insert", "insertFunc"),
  ("join.go", "join", "joinFunc"),
  ("length.go", "length", "lengthFunc"),
  ("pick.go", "pick", "pickFunc"),
  ("query.go", "query", "queryFunc"),
  ("repair.go", "repair", "repairFunc"),
  ("reverse.go", "reverse", "reverseFunc"),
  ("rotate.go", "rotate", "rotateFunc"),
  ("search.go", "search", "searchFunc"),
  ("select.go", "select", "selectFunc"),
  ("sort.go", "sort", "sortFunc"),
  ("split.go", "split", "splitFunc"),
  ("summary.go", "summary", "summaryFunc")
]

end Gts.Spec.Cmd
