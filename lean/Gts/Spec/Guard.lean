/-
  Known finding K2 (pinned by TestLocationReduction): `LocationList.Push` drops a `Point u`
  pushed after a `Ranged` whose `End == u` although base `u` is not part of the range.
  `…Abs` functions decide whether that rule fires anywhere in the evaluation of a model
  function; they delimit the finding in the theorems (`…Abs = false`) and in the checks.
  Core Lean only.
-/
import Gts.Model.Loc
namespace Gts
namespace Loc

/-- does folding `low` over `ys` (starting from `racc`) fire K2 at some step? -/
def foldAbs (low : List Loc → Loc → Bool → List Loc) (lowAbs : List Loc → Loc → Bool → Bool)
    (force : Bool) : List Loc → List Loc → Bool
  | _, [] => false
  | racc, y :: ys => lowAbs racc y force || foldAbs low lowAbs force (low racc y force) ys

def absOne (low : List Loc → Loc → Bool → List Loc) (lowAbs : List Loc → Loc → Bool → Bool)
    (racc : List Loc) (x : Loc) (force : Bool) : Bool :=
  match racc, x with
  | ranged _ ve _ _ :: _, point u => ve == u
  | compl vl :: _, compl ul =>
      lowAbs [ul] vl force || foldAbs low lowAbs true [] (low [ul] vl force).reverse
  | _, _ => false

mutual
def absW (low : List Loc → Loc → Bool → List Loc) (lowAbs : List Loc → Loc → Bool → Bool)
    (racc : List Loc) : Loc → Bool → Bool
  | joined parts, force => absListW low lowAbs racc parts force
  | x, force => absOne low lowAbs racc x force
def absListW (low : List Loc → Loc → Bool → List Loc) (lowAbs : List Loc → Loc → Bool → Bool)
    (racc : List Loc) : List Loc → Bool → Bool
  | [], _ => false
  | p :: ps, force =>
      absW low lowAbs racc p force || absListW low lowAbs (pushW low racc p force) ps force
end

/-- K2 fires while pushing `x` onto `racc` (at nesting fuel `d`) -/
def absD : Nat → List Loc → Loc → Bool → Bool
  | 0 => fun _ _ _ => false
  | d + 1 => absW (pushD d) (absD d)

/-- K2 fires while evaluating `Join(xs...)` -/
def joinAbsD (d : Nat) (xs : List Loc) : Bool := foldAbs (pushD d) (absD d) true [] xs
def joinAbs (xs : List Loc) : Bool := joinAbsD pushFuel xs
def pushAllAbs (xs : List Loc) (force : Bool) : Bool :=
  foldAbs (pushD pushFuel) (absD pushFuel) force [] xs

mutual
def expandAbs : Loc → Int → Int → Bool
  | joined ls, i, n => expandAbsList ls i n || joinAbs (expandList ls i n)
  | ordered ls, i, n => expandAbsList ls i n
  | compl l, i, n => expandAbs l i n
  | _, _, _ => false
def expandAbsList : List Loc → Int → Int → Bool
  | [], _, _ => false
  | l :: ls, i, n => expandAbs l i n || expandAbsList ls i n
end

mutual
def shiftAbs : Loc → Int → Int → Bool
  | joined ls, i, n => shiftAbsList ls i n || joinAbs (shiftList ls i n)
  | ordered ls, i, n => shiftAbsList ls i n
  | compl l, i, n => shiftAbs l i n
  | _, _, _ => false
def shiftAbsList : List Loc → Int → Int → Bool
  | [], _, _ => false
  | l :: ls, i, n => shiftAbs l i n || shiftAbsList ls i n
end

mutual
def reverseAbs : Loc → Int → Bool
  | joined ls, n => reverseAbsList ls n || joinAbs (reverseList ls n).reverse
  | ordered ls, n => reverseAbsList ls n
  | compl l, n => reverseAbs l n
  | _, _ => false
def reverseAbsList : List Loc → Int → Bool
  | [], _ => false
  | l :: ls, n => reverseAbs l n || reverseAbsList ls n
end

mutual
def normalizeAbs : Loc → Int → Bool
  | joined ls, n => normalizeAbsList ls n || joinAbs (normalizeList ls n)
  | ordered ls, n => normalizeAbsList ls n
  | compl l, n => normalizeAbs l n
  | _, _ => false
def normalizeAbsList : List Loc → Int → Bool
  | [], _ => false
  | l :: ls, n => normalizeAbs l n || normalizeAbsList ls n
end

end Loc
end Gts
