/-
  Meaning side of C18: the IUPAC nucleotide code (NC-IUB 1984).  Every letter denotes a
  non-empty set of bases out of {A, C, G, T}; U denotes the same base as T.  Sets are 4-bit
  masks.  Written independently of the Go tables; core Lean only.
-/
namespace Gts.Iupac

/-- bit of each base in a base-set mask -/
def bA : Nat := 1
def bC : Nat := 2
def bG : Nat := 4
def bT : Nat := 8

/-- the set of bases a byte denotes (0 = not a nucleotide letter); both cases, U = T -/
def baseSet (c : UInt8) : Nat :=
  match c.toNat with
  | 65 | 97 => bA                      -- A a  adenine
  | 67 | 99 => bC                      -- C c  cytosine
  | 71 | 103 => bG                     -- G g  guanine
  | 84 | 116 => bT                     -- T t  thymine
  | 85 | 117 => bT                     -- U u  uracil (stands where T stands)
  | 82 | 114 => bA ||| bG              -- R r  purine
  | 89 | 121 => bC ||| bT              -- Y y  pyrimidine
  | 83 | 115 => bC ||| bG              -- S s  strong
  | 87 | 119 => bA ||| bT              -- W w  weak
  | 75 | 107 => bG ||| bT              -- K k  keto
  | 77 | 109 => bA ||| bC              -- M m  amino
  | 66 | 98 => bC ||| bG ||| bT        -- B b  not A
  | 68 | 100 => bA ||| bG ||| bT       -- D d  not C
  | 72 | 104 => bA ||| bC ||| bT       -- H h  not G
  | 86 | 118 => bA ||| bC ||| bG       -- V v  not T
  | 78 | 110 => bA ||| bC ||| bG ||| bT -- N n  any
  | _ => 0

/-- is the byte a letter of the IUPAC nucleotide alphabet (either case)? -/
def isLetter (c : UInt8) : Bool := baseSet c != 0

/-- the 32 letters -/
def letters : List UInt8 :=
  [65, 67, 71, 84, 85, 82, 89, 83, 87, 75, 77, 66, 68, 72, 86, 78,
   97, 99, 103, 116, 117, 114, 121, 115, 119, 107, 109, 98, 100, 104, 118, 110]

/-- ASCII upper-case letter? -/
def isUpper (c : UInt8) : Bool := 65 ≤ c.toNat && c.toNat ≤ 90

/-- set inclusion on masks -/
def subset (a b : Nat) : Bool := a &&& b == a

/-- the set of the Watson-Crick partners: A ↔ T, C ↔ G -/
def complementSet (m : Nat) : Nat :=
  (if m &&& bA != 0 then bT else 0) ||| (if m &&& bC != 0 then bG else 0) |||
  (if m &&& bG != 0 then bC else 0) ||| (if m &&& bT != 0 then bA else 0)

/-- the upper-case letter that denotes a base set; `rna` chooses U over T for {T} -/
def upperLetterOf (m : Nat) (rna : Bool) : UInt8 :=
  match m with
  | 1 => 65 | 2 => 67 | 4 => 71 | 8 => if rna then 85 else 84
  | 5 => 82 | 10 => 89 | 6 => 83 | 9 => 87 | 12 => 75 | 3 => 77
  | 14 => 66 | 13 => 68 | 11 => 72 | 7 => 86 | 15 => 78
  | _ => 0

/-- the letter of the given case that denotes a base set -/
def letterOf (m : Nat) (upper rna : Bool) : UInt8 :=
  if upper then upperLetterOf m rna else upperLetterOf m rna + 32

/-- case-insensitive equality of two ASCII bytes, stated without a folding function: equal, or
the two cases of one letter -/
def foldEq (a b : UInt8) : Bool :=
  a == b ||
  (isUpper a && b.toNat == a.toNat + 32) ||
  (isUpper b && a.toNat == b.toNat + 32)

end Gts.Iupac
