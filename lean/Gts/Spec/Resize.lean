/-
  Meaning side of C08: strand mirroring of regions, the domain guards, and the closed form of
  the segment walk of `Regions.Resize`.  Core Lean only.
-/
import Gts.Spec.Den
namespace Gts
namespace Reg

mutual
/-- `mirror L r`: the region `r` as seen on the reverse-complemented record of length `L`:
every segment `(h, t)` becomes `(L - h, L - t)`; the order of the segments is kept. -/
def mirror (L : Int) : Reg → Reg
  | seg h t => seg (L - h) (L - t)
  | many rs => many (mirrorList L rs)
def mirrorList (L : Int) : List Reg → List Reg
  | [] => []
  | r :: rs => mirror L r :: mirrorList L rs
end

mutual
/-- every `Regions` value in the tree has at least one element (Go's `Regions.Resize` indexes
`ret[left]`, which panics on an empty slice) -/
def nonvoid : Reg → Bool
  | seg _ _ => true
  | many rs => !rs.isEmpty && nonvoidList rs
def nonvoidList : List Reg → Bool
  | [] => true
  | r :: rs => nonvoid r && nonvoidList rs
end

mutual
/-- `nonvoid`, and every segment is non-empty (`h ≠ t`): the regions of the property
("1..n segments of lengths ≥ 1").  An empty segment has no orientation of its own;
`Modifier.Apply` reads it as forward. -/
def proper : Reg → Bool
  | seg h t => h != t
  | many rs => !rs.isEmpty && properList rs
def properList : List Reg → Bool
  | [] => true
  | r :: rs => proper r && properList rs
end

/-- closed form of one half of the segment walk: the index of the element that contains the
offset `x` (counted from the 5' end over the element lengths `ls`; the last element takes
everything beyond) and the residual offset into that element -/
def findL : List Int → Int → Nat × Int
  | [], x => (0, x)
  | [_], x => (0, x)
  | n :: m :: rest, x =>
    if n < x then ((findL (m :: rest) (x - n)).1 + 1, (findL (m :: rest) (x - n)).2) else (0, x)

end Reg

/-- where a residue lies on the reverse-complemented record of length `L` -/
def mirrorPos (L : Int) (p : Pos) : Pos := (L - 1 - p.1, !p.2)

/-- a segment with its head moved outward by `a` (other regions unchanged) -/
def Reg.extHead (a : Int) : Reg → Reg
  | seg h t => if t < h then seg (h + a) t else seg (h - a) t
  | r => r

/-- a segment with its tail moved outward by `b` (other regions unchanged) -/
def Reg.extTail (b : Int) : Reg → Reg
  | seg h t => if t < h then seg h (t - b) else seg h (t + b)
  | r => r

/-- the first element's head moved outward -/
def Reg.extFirst (a : Int) : List Reg → List Reg
  | [] => []
  | r :: rs => extHead a r :: rs

/-- the last element's tail moved outward -/
def Reg.extLast (b : Int) : List Reg → List Reg
  | [] => []
  | [r] => [extTail b r]
  | r :: r2 :: rs => r :: extLast b (r2 :: rs)

/-- is the region a single segment -/
def Reg.isSeg : Reg → Bool
  | seg _ _ => true
  | _ => false

/-- residues `lo .. hi-1` of a denotation -/
def sliceDen (d : List Pos) (lo hi : Int) : List Pos := (d.drop lo.toNat).take (hi - lo).toNat

end Gts
