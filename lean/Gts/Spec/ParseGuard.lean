/-
  Evaluation-level guards of the parser, generically (C06, audit S7 item 1(b)).  `LocParseG.loc g` is
  `LocParse.loc` (Gts/Model/LocText.lean) with one more component in its result: was `g` true on the
  ARGUMENT LIST of some `Join` the evaluation of the parser made?  `Gts/Spec/ParseK3.lean` is the instance
  `g = Loc.joinK3` (the same copy; the identity is `Gts.parseLocationK3_eq_G`, Gts/Lemmas/ParseK3Guard.lean); the instance used by the theorem
  "parser results are canonical" is `Loc.canonGuard` below (K3 shape, or two neighbouring `Complemented`
  parts after flattening).  The parser part is a copy of the model's clause by clause; that the copy and
  the model agree on location, rest and stack for EVERY `g` is a theorem (`LocParseG.loc_sim`, Gts/Lemmas/ParseSim.lean).  The flag is
  ghost information: the model is not changed.  Core Lean only.
-/
import Gts.Model.LocText
import Gts.Spec.CanonGuard
namespace Gts
open Pars

namespace LocParseG

/-- a leaf parser: no `Join` is evaluated -/
def leaf (p : P Loc) : P (Loc × Bool) := do let l ← p; pure (l, false)

mutual
/-- `LocParse.loc` with the flag -/
def loc (g : List Loc → Bool) : Nat → P (Loc × Bool)
  | 0 => fail
  | fuel + 1 =>
    LocParse.anyOf [leaf LocParse.range, leaf LocParse.between, leaf LocParse.ambiguous,
      complementOf g fuel, joinOf g fuel, orderOf g fuel, leaf LocParse.point]

/-- `LocParse.multiple`; the flag is the disjunction of the parts' flags -/
def multiple (g : List Loc → Bool) : Nat → P (List Loc × Bool)
  | 0 => fail
  | fuel + 1 => do
    push
    let first ← (do match ← attempt (loc g fuel) with | some v => pure v | none => do pop; fail)
    let rec more : Nat → List Loc → Bool → P (List Loc × Bool)
      | 0, acc, b => pure (acc.reverse, b)
      | k + 1, acc, b => do
        if ← LocParse.delimiter then
          match ← attempt (loc g fuel) with
          | some v => more k (v.1 :: acc) (b || v.2)
          | none => do pop; fail
        else pure (acc.reverse, b)
    let ls ← more fuel [first.1] first.2
    drop
    pure ls

/-- `LocParse.joinOf`: the flag of the parts, or `g` on the argument list of this `Join` -/
def joinOf (g : List Loc → Bool) : Nat → P (Loc × Bool)
  | 0 => fail
  | fuel + 1 => do
    push
    match ← attempt (request 5) with
    | none => do pop; fail
    | some b => if b != str "join(" then do pop; fail
    advanceN 5
    let ls ← multiple g fuel
    let c ← (do match ← attempt next with | some c => pure c | none => do pop; fail)
    if c != 41 then do pop; fail
    advance1
    drop
    pure (Loc.join ls.1, ls.2 || g ls.1)

/-- `LocParse.orderOf` (`Order` reduces nothing) -/
def orderOf (g : List Loc → Bool) : Nat → P (Loc × Bool)
  | 0 => fail
  | fuel + 1 => do
    push
    match ← attempt (request 6) with
    | none => do pop; fail
    | some b => if b != str "order(" then do pop; fail
    advanceN 6
    let ls ← multiple g fuel
    let c ← (do match ← attempt next with | some c => pure c | none => do pop; fail)
    if c != 41 then do pop; fail
    advance1
    drop
    pure (Loc.order ls.1, ls.2)

/-- `LocParse.complementOf` -/
def complementOf (g : List Loc → Bool) : Nat → P (Loc × Bool)
  | 0 => fail
  | fuel + 1 => do
    push
    match ← attempt (request 11) with
    | none => do pop; fail
    | some b => if b != str "complement(" then do pop; fail
    advanceN 11
    let l ← (do match ← attempt (loc g fuel) with | some v => pure v | none => do pop; fail)
    let c ← (do match ← attempt next with | some c => pure c | none => do pop; fail)
    if c != 41 then do pop; fail
    advance1
    drop
    pure (l.1.complement, l.2)
end

end LocParseG

/-- the guard of `join_canon_partial` on one argument list of `Join`: the K3 shape arises while the parts
are pushed, or two `Complemented` parts are neighbours after flattening -/
def Loc.canonGuard (ls : List Loc) : Bool := Loc.joinK3 ls || !Loc.noAdjCompl (Loc.flatJList ls)

/-- `AsLocation(s)` with the flag of `g`: location, flag, unconsumed rest -/
def parseLocationG (g : List Loc → Bool) (input : Bytes) : Except Err (Loc × Bool × Bytes) :=
  match (LocParseG.loc g (input.length + 2)).run' ⟨input, []⟩ with
  | (.ok l, s) => .ok (l.1, l.2, s.rest)
  | (.error e, _) => .error e

/-- the evaluation-level guard of a text: some `join(` of the text, evaluated on its PARSED parts, meets
`Loc.canonGuard` (false when the text is rejected) -/
def parseGuard (input : Bytes) : Bool :=
  match parseLocationG Loc.canonGuard input with
  | .ok (_, b, _) => b
  | .error _ => false

end Gts
