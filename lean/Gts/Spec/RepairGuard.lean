/-
  Decidable guards that delimit the known findings of `Repair` (property C12).  Core Lean only;
  answered over the line protocol as `c12.shape` / `c12.k2`, re-stated in Go in
  harness/props_c12.go (`c12ShapeBits`).
-/
import Gts.Model.Repair
import Gts.Spec.Guard
namespace Gts

namespace Loc
/-- a `Joined` location (what `LocationList.Push` flattens) -/
def isJoined : Loc → Bool
  | joined _ => true
  | _ => false

/-- a forward contiguous range `Ranged{s, e, partial}` -/
def isRanged : Loc → Bool
  | ranged _ _ _ _ => true
  | _ => false
end Loc

namespace Table

/-- number of features that share the grouping text of `f` -/
def classSize (t : Table) (f : Feature) : Nat := (memberIdx t (classKey f)).length

/-- K12B, K12D, K12E, K12G excluded: every feature is a forward contiguous range, or is alone in
its class. -/
def plain (t : Table) : Bool :=
  t.all fun f => f.loc.isRanged || classSize t f == 1

/-- K2 fires in the `Push` loop of some class -/
def k2 (t : Table) : Bool :=
  (groups t).any fun idx => Loc.pushAllAbs (sortLocs (classLocs t idx)) (classForce t idx)

/-- no `nil` Location is written: no class of two or more members has an empty pushed list
(only possible with empty `Joined{}` literals) -/
def noNil (t : Table) : Bool :=
  (groups t).all fun idx =>
    let p := pushedOf (classForce t idx) (classLocs t idx)
    !(decide (sliceLen p < idx.length) && p.isEmpty)

end Table
end Gts
