/-
  Decidable guards that delimit the known findings of `Repair` (property C12).  Core Lean only;
  answered over the line protocol as `c12.shape` / `c12.k2`, re-stated in Go in
  harness/props_c12.go (`c12ShapeBits`).
-/
import Gts.Model.Repair
import Gts.Spec.Guard
namespace Gts

namespace Loc
/-- a `Joined` location (what `LocationList.Push` flattens) -/
def isJoined : Loc → Bool
  | joined _ => true
  | _ => false

/-- a forward contiguous range `Ranged{s, e, partial}` -/
def isRanged : Loc → Bool
  | ranged _ _ _ _ => true
  | _ => false
end Loc

namespace Table

/-- K12A excluded: no feature location is a `Joined` (so `Push` adds at most one list element
per member and `indices[:len(locs)]` stays within `len(indices)`). -/
def noTopJoin (t : Table) : Bool := t.all fun f => !f.loc.isJoined

/-- K12C excluded: the grouping text `"%s:%v"` separates the (key, qualifiers) pairs of the
table. -/
def keysInj (t : Table) : Bool :=
  t.all fun f => t.all fun g => classKey f != classKey g || (f.key == g.key && f.props == g.props)

/-- number of features that share the grouping text of `f` -/
def classSize (t : Table) (f : Feature) : Nat := (memberIdx t (classKey f)).length

/-- K12A, K12B, K12D, K12E excluded: every feature is a forward contiguous range, or is alone
in its class and not a `Joined`. -/
def plain (t : Table) : Bool :=
  t.all fun f => f.loc.isRanged || (!f.loc.isJoined && classSize t f == 1)

/-- K2 fires in the `Push` loop of some class -/
def k2 (t : Table) : Bool :=
  (groups t).any fun idx => Loc.pushAllAbs (sortLocs (classLocs t idx)) (classForce t idx)

/-- the general no-overflow guard: in every class the pushed list is non-empty and not longer
than the class (no panic, no re-slicing into spare capacity, no `nil` location) -/
def noStale (t : Table) : Bool :=
  (groups t).all fun idx =>
    let p := pushedOf (classForce t idx) (classLocs t idx)
    !p.isEmpty && decide (p.length ≤ idx.length)

end Table
end Gts
