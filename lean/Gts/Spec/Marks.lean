/-
  Outer partial markers and the in-bounds predicate of the location oracles — the Lean
  restatement of harness/spec.go `leaves`, `denLeaves`, `outerLeaves`, `outerMarks`,
  `coordsWithin` (kept in step by the protocol ops `spec.marks` and `spec.cw`, answered by both
  sides on every generated location).  Core Lean only.
-/
import Gts.Model.Loc
namespace Gts
namespace Loc

mutual
/-- spec.go `leaves`: the contiguous leaves in list order (a complement does not reorder here:
coordinate view). -/
def leaves : Loc → List Loc
  | joined ls => leavesList ls
  | ordered ls => leavesList ls
  | compl l => leaves l
  | l => [l]
def leavesList : List Loc → List Loc
  | [] => []
  | l :: ls => leaves l ++ leavesList ls
end

/-- reading a leaf list on the other strand: reversed order, every strand flag flipped -/
def flipLeaves (ds : List (Loc × Bool)) : List (Loc × Bool) := ds.reverse.map fun d => (d.1, !d.2)

mutual
/-- spec.go `denLeaves`: the leaves in the order in which their residues are read, each with
"read on the complement strand". -/
def denLeaves : Loc → List (Loc × Bool)
  | joined ls => denLeavesList ls
  | ordered ls => denLeavesList ls
  | compl l => flipLeaves (denLeaves l)
  | l => [(l, false)]
def denLeavesList : List Loc → List (Loc × Bool)
  | [] => []
  | l :: ls => denLeaves l ++ denLeavesList ls
end

/-- a leaf that bears residues: `Len() > 0` (spec.go `outerLeaves`; note `Ambiguous.Len() = 1`) -/
def bears (d : Loc × Bool) : Bool := decide (0 < d.1.len)

/-- spec.go `outerLeaves`: the first and the last residue-bearing leaf in reading order
(`none` = the Go `ok == false`). -/
def outerLeaves (l : Loc) : Option ((Loc × Bool) × (Loc × Bool)) :=
  match ((denLeaves l).filter bears).head?, ((denLeaves l).filter bears).getLast? with
  | some a, some b => some (a, b)
  | _, _ => none

/-- the marker in front of the first residue read from a leaf: `Partial5` of a `Ranged` read
forward, `Partial3` of a `Ranged` read on the complement strand; no other kind carries one -/
def mark5 (d : Loc × Bool) : Bool :=
  match d.1 with
  | ranged _ _ p5 p3 => if d.2 then p3 else p5
  | _ => false

/-- the marker behind the last residue read from a leaf -/
def mark3 (d : Loc × Bool) : Bool :=
  match d.1 with
  | ranged _ _ p5 p3 => if d.2 then p5 else p3
  | _ => false

/-- spec.go `outerMarks`: is the 5' end (before the first residue read) / the 3' end (after the
last residue read) of the feature marked partial?  `(false, false)` when no leaf bears residues. -/
def outerMarks (l : Loc) : Bool × Bool :=
  match outerLeaves l with
  | none => (false, false)
  | some (a, b) => (mark5 a, mark3 b)

/-- the `(s, e)` of spec.go `coordsWithin` for one leaf (`0, 0` for a non-leaf, as the Go
zero values; `leaves` never yields one) -/
def leafSpan : Loc → Int × Int
  | between p => (p, p)
  | point p => (p, p + 1)
  | ranged s e _ _ => (s, e)
  | ambiguous s e => (s, e)
  | _ => (0, 0)

/-- one leaf of `coordsWithin`: not (`s < 0 || e > L || s > e`) -/
def leafWithin (L : Int) (u : Loc) : Bool :=
  !(decide ((leafSpan u).1 < 0) || decide (L < (leafSpan u).2) || decide ((leafSpan u).2 < (leafSpan u).1))

/-- spec.go `coordsWithin`: every coordinate of every leaf lies in `[0, L]` (and no leaf is
inverted). -/
def coordsWithin (l : Loc) (L : Int) : Bool := (leaves l).all (leafWithin L)

end Loc
end Gts
