/-
  C17, the CLI path `gts <cmd> -F fasta`: what the generated table of sequence-writing subcommands
  (`Gts/Gen/CliWriters.lean`, go2lean/cliwriters.go) must satisfy — definitions only, so that the
  reports can be evaluated even when the theorems about the current table fail.  Core Lean only.
-/
import Gts.Gen.CliWriters
namespace Gts.CliWriters
open Gts.Gen.CliWriters

/-- the subcommand declares `-F` / `--format` as a string option whose default is the empty string
(`opt.String('F', "format", "", …)`), bound to a variable -/
def declaresFormat (w : Writer) : Bool :=
  w.fmtKind == "String" && w.fmtShort == "F" && w.fmtLong == "format" && w.fmtDflt == "\"\"" &&
  w.fmtVar != ""

/-- the option reaches the writer:
  * every `seqio.NewWriter(w, X)` of the function has the same identifier `X` (the file type variable);
  * that variable is assigned exactly twice, both times before the first `NewWriter` call: at the top
    level of the function from `seqio.Detect(*<output path>)`, and then under `if *<format> != ""` from
    `seqio.ToFileType(*<format>)` — so a non-empty `-F` value always decides the file type;
  * every `WriteSeq` call of the function goes to a variable bound to such a `NewWriter` call. -/
def formatReachesWriter (w : Writer) : Bool :=
  !w.writerArgs.isEmpty && w.ftVar != "" && w.writerArgs.all (· == w.ftVar) && w.assignsFirst &&
  w.assigns == [("", "seqio.Detect(*" ++ w.outVar ++ ")"),
                ("*" ++ w.fmtVar ++ " != \"\"", "seqio.ToFileType(*" ++ w.fmtVar ++ ")")] &&
  !w.writeSeqRecvs.isEmpty && w.writeSeqRecvs.all w.writerVars.contains

/-- `command:what` for every sequence-writing subcommand that misses one of the two -/
def report : List String :=
  writers.flatMap fun w =>
    (if declaresFormat w then [] else [w.name ++ ":does not declare -F/--format as a string option with default \"\""]) ++
    (if formatReachesWriter w then [] else [w.name ++ ":the format option does not reach seqio.NewWriter"])

/-- `seqio.ToFileType(name)` as the table reads it -/
def fileTypeOf (name : String) : String :=
  match toFileType.find? (·.1.contains name) with
  | some r => r.2
  | none => toFileTypeDefault

/-- `seqio.NewWriter(w, ft)` as the table reads it: the type of the writer returned -/
def writerOf (ft : String) : String :=
  match newWriter.find? (·.1.contains ft) with
  | some r => r.2
  | none => newWriterDefault

end Gts.CliWriters
